(* C05 - the evidence pipeline: who can be penalised by processEvidences, how
   often, and that the block validator's replay of the builder's slash data
   reproduces the builder's effects. *)
From Coq Require Import Lia ZArith NArith List Bool.
From Coq Require Import ZifyBool ZifyN ZifyNat.
From VF.C05 Require Import Model ProofsPenalty.
Local Open Scope Z_scope.

(* ---- small list facts ------------------------------------------------------------ *)
Lemma memN_In a l : memN a l = true <-> In a l.
Proof.
  induction l as [|x r IH]; simpl; [split; [discriminate|tauto]|].
  rewrite orb_true_iff, IH, N.eqb_eq. tauto.
Qed.

Lemma memN_false a l : memN a l = false <-> ~ In a l.
Proof. rewrite <- memN_In. destruct (memN a l); split; congruence. Qed.

Lemma nthN_In {A} (l : list A) : forall i x, nthN l i = Some x -> In x l.
Proof.
  induction l as [|y r IH]; simpl; intros i x H; [discriminate|].
  destruct (N.eqb i 0%N); [injection H as <-; auto|right; eauto].
Qed.

(* ---- the acceptance test, independent of the running result ---------------------- *)
Section Pipeline.
Variable fx : fixes.
Variable vf : vfun.
Variable cfg : config.
Variable ch : chain.
Variables parent hnum : N.

(* [justifies ev a]: ev is a double-sign evidence of the parent round with at
   least two signs, all of which verify under the BLS key of the validator at
   the named index of the look-back set, whose address is a *)
Definition justifies (ev : evidence) (a : addr) : Prop :=
  match ev with
  | EvDS r ri idx vt signs =>
    (2 <= length signs)%nat /\ (fx_distinct fx = true -> two_hashes signs = true) /\
    r = parent /\ ds_signer vf cfg ch r ri idx vt signs = Some a /\ a <> 0%N
  | _ => False
  end.

Definition amount_of (val : validator) : Z := Z.div (v_token val * Z.of_N (c_fraction cfg)) 100.

Definition core (res : result) :=
  (r_confirmed res, r_affected res, r_logs res, r_processed res, r_state res).

(* one step of processEvidences, described *)
Inductive step_kind (ev : evidence) (res res' : result) : Prop :=
| SK_none :                         (* no effect on the ledger *)
    core res' = core res -> step_kind ev res res'
| SK_penal a val st' po :           (* the signer is penalised *)
    justifies ev a -> ~ In a (r_processed res) ->
    find_val (s_vals (r_state res)) a = Some val ->
    do_penalize cfg hnum (r_state res) val (amount_of val) = Some (st', po) ->
    r_state res' = st' -> r_processed res' = r_processed res ++ [a] ->
    r_pending res' = r_pending res ->
    (0 < po_total po ->
       r_confirmed res' = r_confirmed res ++ [ev] /\ r_affected res' = r_affected res ++ [a] /\
       r_logs res' = r_logs res ++ [mkLog a (po_total po) (po_wlogs po) (po_shared po) (po_precs po)]) ->
    (po_total po <= 0 ->
       r_confirmed res' = (if fx_zero fx then r_confirmed res ++ [ev] else r_confirmed res) /\
       r_affected res' = r_affected res /\ r_logs res' = r_logs res) ->
    step_kind ev res res'.

Lemma process_ds_step ev res res' :
  process_ds fx vf cfg ch parent hnum ev res = Some res' -> step_kind ev res res'.
Proof.
  unfold process_ds. destruct ev as [r ri idx vt signs| |].
  2,3: intros H; injection H as <-; apply SK_none; reflexivity.
  destruct (Nat.ltb (length signs) 2) eqn:El.
  { intros H; injection H as <-; apply SK_none; reflexivity. }
  destruct (fx_distinct fx && negb (two_hashes signs)) eqn:Ed.
  { intros H; injection H as <-; apply SK_none; reflexivity. }
  destruct (N.eqb r parent) eqn:Er.
  2:{ destruct (N.ltb parent r).
      - intros H; injection H as <-; apply SK_none; reflexivity.
      - destruct (N.leb (parent - r) (c_max_expired cfg)); intros H; injection H as <-; apply SK_none; reflexivity. }
  destruct (ds_signer vf cfg ch r ri idx vt signs) as [a|] eqn:Es.
  2:{ intros H; injection H as <-; apply SK_none; reflexivity. }
  destruct (N.eqb a 0%N) eqn:Ea.
  { intros H; injection H as <-; apply SK_none; reflexivity. }
  destruct (memN a (r_processed res)) eqn:Em.
  { intros H; injection H as <-; apply SK_none; reflexivity. }
  destruct (find_val (s_vals (r_state res)) a) as [val|] eqn:Ef.
  2:{ intros H; injection H as <-; apply SK_none; reflexivity. }
  destruct (do_penalize cfg hnum (r_state res) val (v_token val * Z.of_N (c_fraction cfg) / 100)) as [[st' po]|] eqn:Ep;
    [|discriminate].
  assert (Hj : justifies (EvDS r ri idx vt signs) a).
  { simpl. apply Nat.ltb_ge in El. apply N.eqb_eq in Er. apply N.eqb_neq in Ea.
    repeat split; auto.
    intros Hfx. rewrite Hfx in Ed. simpl in Ed. destruct (two_hashes signs); [reflexivity|discriminate]. }
  apply memN_false in Em.
  destruct (Z.ltb 0 (po_total po)) eqn:Et; intros H; injection H as <-.
  - eapply SK_penal; eauto; simpl; try reflexivity; intros; first [lia | repeat split; reflexivity].
  - eapply SK_penal; eauto; simpl; try reflexivity; intros; first [lia | repeat split; reflexivity].
Qed.

(* ---- frame: only the penalised validator's record changes ------------------------ *)
Lemma step_frame ev res res' b :
  step_kind ev res res' -> ~ In b (r_processed res') ->
  find_val (s_vals (r_state res')) b = find_val (s_vals (r_state res)) b.
Proof.
  intros [Hc|a val st' po Hj Hn Hf Hp Hs Hpr _ _ _] Hb.
  - unfold core in Hc. injection Hc as _ _ _ _ ->. reflexivity.
  - subst st'. apply do_penalize_facts in Hp. destruct Hp.
    rewrite zf_vals. apply find_replace_other.
    rewrite zf_addr. rewrite (find_val_addr _ _ _ Hf).
    intros ->. apply Hb. rewrite Hpr. apply in_or_app. right. left. reflexivity.
Qed.

Lemma step_processed ev res res' :
  step_kind ev res res' ->
  r_processed res' = r_processed res \/
  exists a, justifies ev a /\ ~ In a (r_processed res) /\ r_processed res' = r_processed res ++ [a].
Proof.
  intros [Hc|a val st' po Hj Hn Hf Hp Hs Hpr _ _ _].
  - left. unfold core in Hc. injection Hc as _ _ _ -> _. reflexivity.
  - right. exists a. auto.
Qed.

(* ---- over the whole evidence list ---------------------------------------------------- *)
Lemma process_from_cons e evs res res' :
  process_from fx vf cfg ch parent hnum (e :: evs) res = Some res' ->
  exists r1, process_ds fx vf cfg ch parent hnum e res = Some r1 /\
             process_from fx vf cfg ch parent hnum evs r1 = Some res'.
Proof.
  simpl. destruct (process_ds fx vf cfg ch parent hnum e res) as [r1|]; [|discriminate].
  intros H. exists r1. auto.
Qed.

(* every validator that enters the processed set is named by an evidence of the list *)
Lemma processed_justified : forall evs res res' a,
  process_from fx vf cfg ch parent hnum evs res = Some res' ->
  In a (r_processed res') -> ~ In a (r_processed res) ->
  exists ev, In ev evs /\ justifies ev a.
Proof.
  induction evs as [|e evs IH]; intros res res' a H Hin Hn.
  - simpl in H. injection H as <-. contradiction.
  - apply process_from_cons in H as (r1 & H1 & H2).
    apply process_ds_step in H1. destruct (step_processed _ _ _ H1) as [Heq|(b & Hj & Hnb & Heq)].
    + destruct (IH _ _ _ H2 Hin) as (ev & Hev & Hjv); [rewrite Heq; assumption|].
      exists ev. split; [right; assumption|assumption].
    + destruct (N.eq_dec a b) as [->|Hne].
      * exists e. split; [left; reflexivity|assumption].
      * destruct (IH _ _ _ H2 Hin) as (ev & Hev & Hjv).
        { rewrite Heq. intros Hx. apply in_app_or in Hx as [Hx|[Hx|[]]]; [contradiction|congruence]. }
        exists ev. split; [right; assumption|assumption].
Qed.

Lemma processed_mono : forall evs res res' a,
  process_from fx vf cfg ch parent hnum evs res = Some res' ->
  In a (r_processed res) -> In a (r_processed res').
Proof.
  induction evs as [|e evs IH]; intros res res' a H Hin.
  - simpl in H. injection H as <-. assumption.
  - apply process_from_cons in H as (r1 & H1 & H2).
    apply process_ds_step in H1. eapply IH; [eassumption|].
    destruct (step_processed _ _ _ H1) as [Heq|(b & _ & _ & Heq)]; rewrite Heq; [assumption|].
    apply in_or_app. left. assumption.
Qed.

(* a validator outside the processed set keeps its record *)
Lemma unprocessed_frame : forall evs res res' b,
  process_from fx vf cfg ch parent hnum evs res = Some res' ->
  ~ In b (r_processed res') ->
  find_val (s_vals (r_state res')) b = find_val (s_vals (r_state res)) b.
Proof.
  induction evs as [|e evs IH]; intros res res' b H Hb.
  - simpl in H. injection H as <-. reflexivity.
  - apply process_from_cons in H as (r1 & H1 & H2).
    rewrite (IH _ _ _ H2 Hb).
    apply process_ds_step in H1. apply (step_frame _ _ _ _ H1).
    intros Hx. apply Hb. eapply processed_mono; eassumption.
Qed.

(* once a validator is in the processed set its record is not touched again *)
Lemma processed_frame : forall evs res res' b,
  process_from fx vf cfg ch parent hnum evs res = Some res' ->
  In b (r_processed res) ->
  find_val (s_vals (r_state res')) b = find_val (s_vals (r_state res)) b.
Proof.
  induction evs as [|e evs IH]; intros res res' b H Hb.
  - simpl in H. injection H as <-. reflexivity.
  - apply process_from_cons in H as (r1 & H1 & H2).
    apply process_ds_step in H1.
    assert (Hb1 : In b (r_processed r1)).
    { destruct (step_processed _ _ _ H1) as [Heq|(c & _ & _ & Heq)]; rewrite Heq; [assumption|].
      apply in_or_app. left. assumption. }
    rewrite (IH _ _ _ H2 Hb1).
    destruct H1 as [Hc|a val st' po Hj Hn Hf Hp Hs Hpr _ _ _].
    + unfold core in Hc. injection Hc as _ _ _ _ ->. reflexivity.
    + subst st'. apply do_penalize_facts in Hp. destruct Hp.
      rewrite zf_vals. apply find_replace_other.
      rewrite zf_addr, (find_val_addr _ _ _ Hf). intros ->. contradiction.
Qed.

(* ---- once ---------------------------------------------------------------------------- *)
Definition once_inv (res : result) : Prop :=
  NoDup (r_processed res) /\
  (forall a, In a (r_affected res) -> In a (r_processed res)) /\
  NoDup (r_affected res) /\
  map l_addr (r_logs res) = r_affected res.

Lemma NoDup_snoc {A} (l : list A) x : NoDup l -> ~ In x l -> NoDup (l ++ [x]).
Proof.
  induction l as [|y r IH]; simpl; intros Hnd Hn.
  - constructor; [tauto|constructor].
  - inversion Hnd; subst. constructor.
    + intros Hx. apply in_app_or in Hx as [Hx|[Hx|[]]]; [contradiction|]. subst. tauto.
    + apply IH; tauto.
Qed.

Lemma step_once ev res res' : step_kind ev res res' -> once_inv res -> once_inv res'.
Proof.
  intros [Hc|a val st' po Hj Hn Hf Hp Hs Hpr _ Hpos Hzero] (I1 & I2 & I3 & I4).
  - unfold core in Hc. injection Hc as _ Ha Hl Hp _. unfold once_inv. rewrite Ha, Hl, Hp. auto.
  - unfold once_inv. rewrite Hpr.
    destruct (Z.ltb 0 (po_total po)) eqn:Et.
    + destruct Hpos as (_ & Ha & Hl); [lia|]. rewrite Ha, Hl. repeat split.
      * apply NoDup_snoc; assumption.
      * intros b Hb. apply in_app_or in Hb as [Hb|Hb]; apply in_or_app; [left; auto|right; assumption].
      * apply NoDup_snoc; [assumption|]. intros Hx. apply Hn. auto.
      * rewrite map_app, I4. reflexivity.
    + destruct Hzero as (_ & Ha & Hl); [lia|]. rewrite Ha, Hl. repeat split; auto.
      * apply NoDup_snoc; assumption.
      * intros b Hb. apply in_or_app. left. auto.
Qed.

Lemma process_from_once : forall evs res res',
  process_from fx vf cfg ch parent hnum evs res = Some res' -> once_inv res -> once_inv res'.
Proof.
  induction evs as [|e evs IH]; intros res res' H Hi.
  - simpl in H. injection H as <-. assumption.
  - apply process_from_cons in H as (r1 & H1 & H2).
    apply process_ds_step in H1. eapply IH; [eassumption|]. eapply step_once; eassumption.
Qed.

Lemma once_inv_empty st : once_inv (empty_result st).
Proof. unfold once_inv, empty_result. simpl. repeat split; try apply NoDup_nil; tauto. Qed.

(* what one whole run can take from one validator's record *)
Lemma token_bound : forall evs res res' a v,
  process_from fx vf cfg ch parent hnum evs res = Some res' ->
  NoDup (r_processed res) ->
  find_val (s_vals (r_state res)) a = Some v -> wf_val v ->
  exists v', find_val (s_vals (r_state res')) a = Some v' /\
             v_token v' <= v_token v /\ v_token v - v_token v' <= Z.max 0 (amount_of v).
Proof.
  induction evs as [|e evs IH]; intros res res' a v H Hnd Hf Hwf.
  - simpl in H. injection H as <-. exists v. split; [assumption|lia].
  - apply process_from_cons in H as (r1 & H1 & H2).
    apply process_ds_step in H1.
    destruct H1 as [Hc|b val st' po Hj Hn Hfb Hp Hs Hpr _ _ _].
    + unfold core in Hc. injection Hc as _ _ _ Hpc Hsc.
      eapply IH; eauto; [rewrite Hpc|rewrite Hsc]; assumption.
    + assert (Hnd1 : NoDup (r_processed r1)) by (rewrite Hpr; apply NoDup_snoc; assumption).
      destruct (N.eq_dec a b) as [->|Hne].
      * (* a is the penalised validator: afterwards its record is frozen *)
        rewrite Hf in Hfb. injection Hfb as <-.
        pose proof Hp as Hp0.
        apply do_penalize_facts in Hp. destruct Hp.
        assert (Hfind1 : find_val (s_vals (r_state r1)) b = Some (po_val po)).
        { rewrite Hs, zf_vals. rewrite <- (find_val_addr _ _ _ Hf), <- zf_addr.
          eapply find_replace_same. rewrite zf_addr, (find_val_addr _ _ _ Hf). eassumption. }
        exists (po_val po). split.
        { rewrite (processed_frame _ _ _ b H2); [assumption|].
          rewrite Hpr. apply in_or_app. right. left. reflexivity. }
        unfold do_penalize in Hp0.
        destruct (Z.ltb 0 (amount_of v)) eqn:Ea.
        -- destruct (take_penalty cfg (s_queue (r_state res)) v (amount_of v)) as [po0|] eqn:Et; [|discriminate].
           assert (Hpos : 0 < amount_of v) by lia.
           pose proof (take_penalty_facts _ _ _ _ _ Hwf Hpos Et) as F. destruct F.
           injection Hp0 as _ <-. simpl. lia.
        -- assert (Hnp : amount_of v <= 0) by lia.
           destruct (zf_nonpositive Hnp) as (_ & _ & Ht & _). lia.
      * (* another validator was penalised: a's record is unchanged by this step *)
        apply do_penalize_facts in Hp. destruct Hp.
        eapply IH; eauto.
        rewrite Hs, zf_vals, find_replace_other; [assumption|].
        rewrite zf_addr, (find_val_addr _ _ _ Hfb). assumption.
Qed.

(* an evidence acts at exactly one height *)
Lemma other_round_no_effect r ri idx vt signs res res' :
  r <> parent ->
  process_ds fx vf cfg ch parent hnum (EvDS r ri idx vt signs) res = Some res' ->
  core res' = core res.
Proof.
  intros Hr H. apply process_ds_step in H.
  destruct H as [Hc|a val st' po Hj _ _ _ _ _ _ _ _]; [assumption|].
  simpl in Hj. tauto.
Qed.

(* ---- builder and validator --------------------------------------------------------------- *)
(* process_ds neither reads nor, in its penalising branch, writes the pending list *)
Lemma process_ds_core ev r1 r2 r1' :
  core r1 = core r2 ->
  process_ds fx vf cfg ch parent hnum ev r1 = Some r1' ->
  exists r2', process_ds fx vf cfg ch parent hnum ev r2 = Some r2' /\ core r1' = core r2'.
Proof.
  destruct r1 as [c1 p1 a1 l1 d1 s1], r2 as [c2 p2 a2 l2 d2 s2]. unfold core. simpl.
  intros Hc. injection Hc as -> -> -> -> ->.
  unfold process_ds. destruct ev as [r ri idx vt signs| |]; simpl.
  2,3: intros H; injection H as <-; eexists; split; reflexivity.
  destruct (Nat.ltb (length signs) 2). { intros H; injection H as <-; eexists; split; reflexivity. }
  destruct (fx_distinct fx && negb (two_hashes signs)). { intros H; injection H as <-; eexists; split; reflexivity. }
  destruct (N.eqb r parent).
  2:{ destruct (N.ltb parent r); [intros H; injection H as <-; eexists; split; reflexivity|].
      destruct (N.leb (parent - r) (c_max_expired cfg)); intros H; injection H as <-; eexists; split; reflexivity. }
  destruct (ds_signer vf cfg ch r ri idx vt signs) as [a|]; [|intros H; injection H as <-; eexists; split; reflexivity].
  destruct (N.eqb a 0%N); [intros H; injection H as <-; eexists; split; reflexivity|].
  destruct (memN a d2); [intros H; injection H as <-; eexists; split; reflexivity|].
  destruct (find_val (s_vals s2) a) as [val|]; [|intros H; injection H as <-; eexists; split; reflexivity].
  destruct (do_penalize cfg hnum s2 val (v_token val * Z.of_N (c_fraction cfg) / 100)) as [[st' po]|]; [|discriminate].
  destruct (Z.ltb 0 (po_total po)); intros H; injection H as <-; eexists; split; reflexivity.
Qed.

Definition gap (res : result) : Z :=
  Z.of_nat (length (r_processed res)) - Z.of_nat (length (r_affected res)).

Lemma step_gap ev res res' : step_kind ev res res' -> gap res <= gap res'.
Proof.
  intros [Hc|a val st' po Hj Hn Hf Hp Hs Hpr _ Hpos Hzero]; unfold gap.
  - unfold core in Hc. injection Hc as _ -> _ -> _. lia.
  - rewrite Hpr, app_length. simpl. destruct (Z.ltb 0 (po_total po)) eqn:Et.
    + destruct Hpos as (_ & -> & _); [lia|]. rewrite app_length. simpl. lia.
    + destruct Hzero as (_ & -> & _); [lia|]. lia.
Qed.

Lemma process_from_gap : forall evs res res',
  process_from fx vf cfg ch parent hnum evs res = Some res' -> gap res <= gap res'.
Proof.
  induction evs as [|e evs IH]; intros res res' H.
  - simpl in H. injection H as <-. lia.
  - apply process_from_cons in H as (r1 & H1 & H2).
    apply process_ds_step in H1. apply step_gap in H1. apply IH in H2. lia.
Qed.

(* outside the zero-penalty class (or with the repair) a step either leaves the
   core alone or confirms its evidence *)
Lemma step_confirms ev res res' :
  step_kind ev res res' -> (fx_zero fx = true \/ gap res' = gap res) ->
  core res' = core res \/ r_confirmed res' = r_confirmed res ++ [ev].
Proof.
  intros [Hc|a val st' po Hj Hn Hf Hp Hs Hpr _ Hpos Hzero] Hout; [left; assumption|].
  right. destruct (Z.ltb 0 (po_total po)) eqn:Et.
  - destruct Hpos as (-> & _ & _); [lia|reflexivity].
  - destruct Hzero as (Hc & Ha & _); [lia|]. destruct Hout as [Hz|Hg].
    + rewrite Hz in Hc. assumption.
    + exfalso. unfold gap in Hg. rewrite Hpr, Ha, app_length in Hg. simpl in Hg. lia.
Qed.

Lemma replay_reproduces : forall evs rb rb' rv,
  process_from fx vf cfg ch parent hnum evs rb = Some rb' ->
  core rb = core rv ->
  (fx_zero fx = true \/ gap rb' = gap rb) ->
  exists newc rv',
    r_confirmed rb' = r_confirmed rb ++ newc /\
    process_from fx vf cfg ch parent hnum newc rv = Some rv' /\ core rb' = core rv'.
Proof.
  induction evs as [|e evs IH]; intros rb rb' rv H Hc Hout.
  - simpl in H. injection H as <-. exists [], rv. rewrite app_nil_r. simpl. auto.
  - apply process_from_cons in H as (r1 & H1 & H2).
    pose proof (process_ds_step _ _ _ H1) as Hk.
    pose proof (step_gap _ _ _ Hk) as Hg1. pose proof (process_from_gap _ _ _ H2) as Hg2.
    assert (Hout1 : fx_zero fx = true \/ gap r1 = gap rb) by (destruct Hout; [left; assumption|right; lia]).
    assert (Hout2 : fx_zero fx = true \/ gap rb' = gap r1) by (destruct Hout; [left; assumption|right; lia]).
    destruct (step_confirms _ _ _ Hk Hout1) as [Hsame|Hconf].
    + (* the builder's step changed nothing the validator would see *)
      destruct (IH r1 rb' rv H2 ltac:(congruence) Hout2) as (newc & rv' & E1 & E2 & E3).
      exists newc, rv'. split; [|auto].
      rewrite E1. unfold core in Hsame. injection Hsame as -> _ _ _ _. reflexivity.
    + (* the evidence was confirmed: the validator processes it from the same core *)
      destruct (process_ds_core _ _ _ _ Hc H1) as (rv1 & V1 & V2).
      destruct (IH r1 rb' rv1 H2 V2 Hout2) as (newc & rv' & E1 & E2 & E3).
      exists (e :: newc), rv'. split; [|split; [|assumption]].
      * rewrite E1, Hconf, <- app_assoc. reflexivity.
      * simpl. rewrite V1. assumption.
Qed.

End Pipeline.
