(* C05 - the honest-validator theorems with the "one vote per kind" hypothesis
   DISCHARGED: the honest vote set is what histories of the Voter model of C03
   post (any interleaving of context changes, vote messages, cache changes,
   server moves and restarts), and the bound comes from C03_voter_one_vote
   (which rests on C02_one_vote through the simulation onto the vote database).
   coq/C02 and coq/C03 are imported, not modified. *)
From Coq Require Import Lia ZArith NArith List Bool.
From VF.C02 Require Model.
From VF.C03 Require Model ProofsE Properties.
From VF.C05 Require Import Model ProofsPenalty ProofsEvidence ProofsHonest.
Import ListNotations.

Module C2 := VF.C02.Model.
Module C3 := VF.C03.Model.
Module C3E := VF.C03.ProofsE.

(* the vote kinds as the evidence (and both Go packages) number them *)
Definition kind_code (k : C2.kind) : N :=
  match k with C2.Prevote => 2 | C2.Precommit => 3 | C2.NextIndex => 4 | C2.Certificate => 5 end%N.

Lemma kind_code_inj a b : kind_code a = kind_code b -> a = b.
Proof. destruct a, b; simpl; intros H; try reflexivity; discriminate. Qed.

(* a voter history: the environment (own credentials, parameters) and the operations *)
Definition history := (C3.env * list C3.op)%type.

(* the history posted a vote of kind k for block h at (round r, index i) *)
Definition history_emits (hs : history) (k h r i : N) : Prop :=
  exists t p n, kind_code t = k /\
    In (C3.ESend t r i h p n) (C3E.all_events (fst hs) C3.init_voter (snd hs)).

(* ---- counting votes in a list of posted events --------------------------------------------- *)
Lemma count_app k p a b :
  C2.count_votes k p (a ++ b) = (C2.count_votes k p a + C2.count_votes k p b)%nat.
Proof. unfold C2.count_votes. rewrite filter_app, app_length. reflexivity. Qed.

Lemma kind_eqb_refl t : C2.kind_eqb t t = true.
Proof. destruct t; reflexivity. Qed.

Lemma count_send t r i h p n l :
  In (C3.ESend t r i h p n) l -> (1 <= C2.count_votes t (C2.enc r i) (C3E.sends l))%nat.
Proof.
  intros Hin. apply in_split in Hin as (l1 & l2 & ->).
  rewrite C3E.sends_app, count_app.
  change (C3E.sends (C3.ESend t r i h p n :: l2)) with ((t, C2.enc r i) :: C3E.sends l2).
  unfold C2.count_votes at 2. simpl. rewrite kind_eqb_refl, N.eqb_refl. simpl. lia.
Qed.

Lemma two_sends_count t r i h p n h' p' n' l :
  In (C3.ESend t r i h p n) l -> In (C3.ESend t r i h' p' n') l -> h <> h' ->
  (2 <= C2.count_votes t (C2.enc r i) (C3E.sends l))%nat.
Proof.
  intros H1 H2 Hne. apply in_split in H1 as (l1 & l2 & ->).
  rewrite C3E.sends_app, count_app.
  change (C3E.sends (C3.ESend t r i h p n :: l2)) with ((t, C2.enc r i) :: C3E.sends l2).
  assert (Hhere : (C2.count_votes t (C2.enc r i) ((t, C2.enc r i) :: C3E.sends l2)
                   = 1 + C2.count_votes t (C2.enc r i) (C3E.sends l2))%nat).
  { unfold C2.count_votes. simpl. rewrite kind_eqb_refl, N.eqb_refl. reflexivity. }
  rewrite Hhere.
  apply in_app_or in H2 as [H2|[H2|H2]].
  - pose proof (count_send _ _ _ _ _ _ _ H2). lia.
  - exfalso. injection H2 as E _ _. congruence.
  - pose proof (count_send _ _ _ _ _ _ _ H2). lia.
Qed.

(* C03_voter_one_vote, read on hashes: a history never posts two different
   blocks for one kind (other than next-index) at one round/index *)
Theorem history_one_vote_per_kind hs k h h' r i :
  k <> next_index -> history_emits hs k h r i -> history_emits hs k h' r i -> h = h'.
Proof.
  intros Hk (t & p & n & Hc & Hin) (t' & p' & n' & Hc' & Hin').
  assert (t' = t) by (apply kind_code_inj; congruence). subst t'.
  destruct (N.eq_dec h h') as [|Hne]; [assumption|exfalso].
  pose proof (two_sends_count _ _ _ _ _ _ _ _ _ _ Hin Hin' Hne) as H2.
  pose proof (VF.C03.Properties.C03_voter_one_vote (fst hs) (snd hs) t (C2.enc r i)) as H1.
  assert (C2.limit t = 1%nat).
  { destruct t; try reflexivity. exfalso. apply Hk. rewrite <- Hc. reflexivity. }
  lia.
Qed.

(* ---- honest validators = validators whose keys are driven by a voter history -------------- *)
Section VoterHonest.
(* each honest BLS key is used by one voter process with some history *)
Variable hist : N -> option history.

Definition voter_key (pk : N) : Prop := exists hs, hist pk = Some hs.
Definition voter_emits (pk k h r i : N) : Prop :=
  exists hs, hist pk = Some hs /\ history_emits hs k h r i.

Lemma voter_one_vote_per_kind pk k h h' r i :
  voter_key pk -> k <> next_index -> voter_emits pk k h r i -> voter_emits pk k h' r i -> h = h'.
Proof.
  intros _ Hk (hs & E1 & H1) (hs' & E2 & H2). rewrite E1 in E2. injection E2 as <-.
  eapply history_one_vote_per_kind; eassumption.
Qed.

Variable vf : vfun.
(* ideal signatures: the signatures that verify under a voter's key are exactly
   signatures over votes its history posted *)
Hypothesis ideal_signatures : forall pk h r i s,
  voter_key pk -> vf pk h r i s = true -> exists k, voter_emits pk k h r i.

Theorem voter_safe_outside fx cfg ch parent hnum evs st res' a :
  process_evidences fx vf cfg ch parent hnum evs st = Some res' ->
  (forall pk, registered ch a pk -> voter_key pk) ->
  In a (r_processed res') ->
  exists ev pk, In ev evs /\ registered ch a pk /\ finding_class fx voter_emits ev pk.
Proof.
  exact (honest_safe_outside fx vf voter_emits voter_key ideal_signatures voter_one_vote_per_kind
                             cfg ch parent hnum evs st res' a).
Qed.

Theorem voter_safe_outside_repaired fx cfg ch parent hnum evs st res' a :
  fx_distinct fx = true ->
  process_evidences fx vf cfg ch parent hnum evs st = Some res' ->
  (forall pk, registered ch a pk -> voter_key pk) ->
  In a (r_processed res') ->
  exists ev pk, In ev evs /\ registered ch a pk /\ cross_kind_class voter_emits ev pk.
Proof.
  exact (honest_safe_outside_repaired fx vf voter_emits voter_key ideal_signatures voter_one_vote_per_kind
                                      cfg ch parent hnum evs st res' a).
Qed.

Theorem voter_record_kept fx cfg ch parent hnum evs st res' a :
  process_evidences fx vf cfg ch parent hnum evs st = Some res' ->
  (forall pk, registered ch a pk -> voter_key pk) ->
  (forall ev pk, In ev evs -> registered ch a pk -> ~ finding_class fx voter_emits ev pk) ->
  find_val (s_vals (r_state res')) a = find_val (s_vals st) a /\ ~ In a (r_processed res').
Proof.
  exact (honest_record_kept fx vf voter_emits voter_key ideal_signatures voter_one_vote_per_kind
                            cfg ch parent hnum evs st res' a).
Qed.

End VoterHonest.

(* ---- a concrete voter history of the open class ------------------------------------------------ *)
(* the C03 voter at (7,1): prevotes its best block 1, sees a prevote quorum for
   block 2, precommits 2 *)
Definition x_env : C3.env :=
  C3.mkEnv 0 [(7, 1, C2.Prevote, (1, 4, C3.Chamber)); (7, 1, C2.Precommit, (1, 4, C3.Chamber))]%N true false true true false [(1, 7, 1, C2.Prevote, 2)]%N.
Definition x_ops : list C3.op :=
  [C3.Cache 1 true; C3.Cache 2 true; C3.Ctx 7 1 2 false (Some (1, 1));
   C3.Msg (C3.mkMsg C3.Same C2.Prevote 7 1 2 1 1 true 2 false (Some (4, C3.Chamber)) 1)]%N.
Definition x_hist : N -> option history := fun pk => if N.eqb pk 1 then Some (x_env, x_ops) else None.

Lemma x_history_events :
  C3E.all_events x_env C3.init_voter x_ops = [C3.ESend C2.Prevote 7 1 1 1 1; C3.ESend C2.Precommit 7 1 2 1 1]%N.
Proof. vm_compute. reflexivity. Qed.

(* ideal signatures for that history: signature 77 on block 1, 88 on block 2 *)
Definition x_vf : vfun := fun pk h r i s =>
  N.eqb pk 1 && N.eqb r 7 && N.eqb i 1 && ((N.eqb h 1 && N.eqb s 77) || (N.eqb h 2 && N.eqb s 88)).
Definition x_chain : chain := mkChain [(0%N, 0%N)] [[mkLb 9%N (Some 1%N)]].
Definition x_evidence : evidence := EvDS 7 1 0 2 [(1%N, 77%N); (2%N, 88%N)].

Lemma x_ideal : forall pk h r i s,
  voter_key x_hist pk -> x_vf pk h r i s = true -> exists k, voter_emits x_hist pk k h r i.
Proof.
  intros pk h r i s _ Hv. unfold x_vf in Hv.
  apply andb_prop in Hv as [Hv H4]. apply andb_prop in Hv as [Hv H3]. apply andb_prop in Hv as [H1 H2].
  apply N.eqb_eq in H1, H2, H3. subst pk r i.
  apply orb_prop in H4 as [H4|H4]; apply andb_prop in H4 as [H4 _]; apply N.eqb_eq in H4; subst h.
  - exists 2%N, (x_env, x_ops). split; [reflexivity|].
    exists C2.Prevote, 1%N, 1%N. split; [reflexivity|]. simpl fst. simpl snd. rewrite x_history_events. left. reflexivity.
  - exists 3%N, (x_env, x_ops). split; [reflexivity|].
    exists C2.Precommit, 1%N, 1%N. split; [reflexivity|]. simpl fst. simpl snd. rewrite x_history_events. right. left. reflexivity.
Qed.

Lemma x_accepted :
  exists res', process_evidences fx_now x_vf w_cfg x_chain 7 8 [x_evidence] w_state = Some res'
               /\ r_processed res' = [9%N].
Proof. eexists. split; vm_compute; reflexivity. Qed.

(* ---- the in-Coq check on real voter lives (Model.votes_ok) is the conclusion of C03_voter_one_vote --- *)
(* the harness hands every vote a real Voter process sent over a life with
   restarts and crashes to [votes_ok] (case mode MVotes); here: every history of
   the Voter model passes that test, so a real life that fails it is not a
   history of the model the composed theorems speak about *)
Definition votes_of (ev : list C3.event) : list (N * N * N * N) :=
  flat_map (fun e => match e with C3.ESend t r i h _ _ => [(kind_code t, r, i, h)] | _ => [] end) ev.

Lemma kind_eqb_code t t' : N.eqb (kind_code t) (kind_code t') = C2.kind_eqb t t'.
Proof. destruct t, t'; reflexivity. Qed.

Lemma slot_count_le t r i h : forall l,
  (length (filter (same_slot (kind_code t, r, i, h)) (votes_of l))
   <= C2.count_votes t (C2.enc r i) (C3E.sends l))%nat.
Proof.
  induction l as [|e l IH]; [simpl; lia|].
  change (e :: l) with ([e] ++ l).
  unfold votes_of. rewrite flat_map_app. fold (votes_of l). rewrite filter_app, app_length.
  rewrite C3E.sends_app, count_app.
  assert (Hh : (length (filter (same_slot (kind_code t, r, i, h)) (votes_of [e]))
                <= C2.count_votes t (C2.enc r i) (C3E.sends [e]))%nat).
  { destruct e as [t' r' i' h' p' n'| | | |]; try (simpl; lia).
    unfold votes_of, C3E.sends, C2.count_votes. simpl.
    rewrite kind_eqb_code.
    destruct (C2.kind_eqb t t') eqn:Ek; simpl.
    - assert (Ek' : C2.kind_eqb t' t = true) by (destruct t, t'; simpl in *; congruence). rewrite Ek'. simpl.
      destruct (N.eqb r r') eqn:Er; simpl; [|lia].
      destruct (N.eqb i i') eqn:Ei; simpl; [|lia].
      apply N.eqb_eq in Er, Ei. subst. rewrite N.eqb_refl. simpl. lia.
    - lia. }
  unfold votes_of in Hh. lia.
Qed.

Lemma vote_limit_code t : vote_limit (kind_code t) = C2.limit t.
Proof. destruct t; reflexivity. Qed.

Theorem history_votes_ok (hs : history) :
  votes_ok (votes_of (C3E.all_events (fst hs) C3.init_voter (snd hs))) = true.
Proof.
  unfold votes_ok. apply forallb_forall. intros v Hin.
  unfold votes_of in Hin. apply in_flat_map in Hin as (e & _ & He).
  destruct e as [t r i h p n| | | |]; simpl in He; try tauto.
  destruct He as [<-|[]]. simpl fst.
  apply Nat.leb_le. rewrite vote_limit_code.
  etransitivity; [apply slot_count_le|].
  apply (VF.C03.Properties.C03_voter_one_vote (fst hs) (snd hs) t (C2.enc r i)).
Qed.
