(* C05 - who can be slashed: honest validators (outside the finding classes),
   real equivocators (always), and the builder / validator agreement. *)
From Coq Require Import Lia ZArith NArith List Bool.
From Coq Require Import ZifyBool ZifyN ZifyNat.
From VF.C05 Require Import Model ProofsPenalty ProofsEvidence.
Local Open Scope Z_scope.

Definition next_index : N := 4%N.

(* the BLS key [pk] is registered for address [a] in some validator set of the chain *)
Definition registered (ch : chain) (a : addr) (pk : N) : Prop :=
  exists vs signer, In vs (ch_sets ch) /\ In signer vs /\ lb_addr signer = a /\ lb_pk signer = Some pk.

Lemma lookback_set_In ch cfg r c vs : lookback_set ch cfg r c = Some vs -> In vs (ch_sets ch).
Proof.
  unfold lookback_set.
  destruct (lookupN (ch_headers ch) _); [|discriminate].
  destruct (lookupN (ch_headers ch) _); [|discriminate].
  apply nthN_In.
Qed.

Lemma ds_signer_inv vf cfg ch r ri idx vt signs a :
  ds_signer vf cfg ch r ri idx vt signs = Some a ->
  exists vs signer pk,
    lookback_set ch cfg r (N.eqb vt vote_certificate) = Some vs /\ nthN vs idx = Some signer /\
    lb_pk signer = Some pk /\ lb_addr signer = a /\
    forallb (fun hs => vf pk (fst hs) r ri (snd hs)) signs = true.
Proof.
  unfold ds_signer.
  destruct (lookback_set ch cfg r (N.eqb vt vote_certificate)) as [vs|]; [|discriminate].
  destruct (nthN vs idx) as [signer|] eqn:En; [|discriminate].
  destruct (lb_pk signer) as [pk|] eqn:Ep; [|discriminate].
  destruct (forallb _ signs) eqn:Ef; [|discriminate].
  intros H; injection H as <-. exists vs, signer, pk. auto.
Qed.

Lemma two_hashes_inv signs :
  two_hashes signs = true ->
  exists h1 s1 h2 s2, In (h1, s1) signs /\ In (h2, s2) signs /\ h1 <> h2.
Proof.
  destruct signs as [|[h s] r]; simpl; [discriminate|].
  intros H. apply existsb_exists in H as ([h2 s2] & Hin & Hne). simpl in Hne.
  apply negb_true_iff, N.eqb_neq in Hne.
  exists h, s, h2, s2. auto.
Qed.

(* ---- honest validators ------------------------------------------------------------------ *)
Section Honest.
Variable fx : fixes.
Variable vf : vfun.
(* what protocol-following validators signed: key, vote kind, hash, round, index *)
Variable emits : N -> N -> N -> N -> N -> Prop.
Variable honest : N -> Prop.
(* ideal signatures: a signature that verifies under an honest key was made by its owner *)
Hypothesis unforgeable : forall pk h r i s, honest pk -> vf pk h r i s = true -> exists k, emits pk k h r i.
(* property C02: an honest validator signs at most one vote per kind and position
   (two for next-index votes) *)
Hypothesis one_vote_per_kind : forall pk k h h' r i,
  honest pk -> k <> next_index -> emits pk k h r i -> emits pk k h' r i -> h = h'.

(* the listed findings, as predicates on an accepted evidence *)
(* (b) two different hashes the validator really signed as votes of different
   kinds, or as its two next-index votes - OPEN: the signed payload has no kind *)
Definition cross_kind_class (ev : evidence) (pk : N) : Prop :=
  match ev with
  | EvDS r ri _ _ signs =>
    exists k1 k2 h1 h2 s1 s2,
      In (h1, s1) signs /\ In (h2, s2) signs /\ h1 <> h2 /\
      emits pk k1 h1 r ri /\ emits pk k2 h2 r ri /\ (k1 <> k2 \/ k1 = next_index)
  | _ => False
  end.

(* (a) one signed hash listed several times - possible only without the repair *)
Definition duplicate_class (ev : evidence) : Prop :=
  match ev with
  | EvDS _ _ _ _ signs => fx_distinct fx = false /\ two_hashes signs = false
  | _ => False
  end.

Definition finding_class (ev : evidence) (pk : N) : Prop :=
  duplicate_class ev \/ cross_kind_class ev pk.

Lemma justified_honest_is_finding cfg ch parent ev a :
  justifies fx vf cfg ch parent ev a ->
  (forall pk, registered ch a pk -> honest pk) ->
  exists pk, registered ch a pk /\ finding_class ev pk.
Proof.
  destruct ev as [r ri idx vt signs| |]; simpl; try tauto.
  intros (Hlen & Hdist & Hr & Hs & Ha) Hh.
  apply ds_signer_inv in Hs as (vs & signer & pk & Hlb & Hn & Hpk & Hadr & Hall).
  assert (Hreg : registered ch a pk).
  { exists vs, signer. repeat split; auto; [eapply lookback_set_In; eassumption|eapply nthN_In; eassumption]. }
  exists pk. split; [assumption|].
  unfold finding_class, duplicate_class, cross_kind_class.
  destruct (two_hashes signs) eqn:Et.
  - right. apply two_hashes_inv in Et as (h1 & s1 & h2 & s2 & I1 & I2 & Hne).
    rewrite forallb_forall in Hall.
    pose proof (Hall _ I1) as V1. pose proof (Hall _ I2) as V2. simpl in V1, V2.
    destruct (unforgeable _ _ _ _ _ (Hh _ Hreg) V1) as (k1 & E1).
    destruct (unforgeable _ _ _ _ _ (Hh _ Hreg) V2) as (k2 & E2).
    exists k1, k2, h1, h2, s1, s2. repeat split; auto.
    destruct (N.eq_dec k1 k2) as [->|Hk]; [|left; assumption].
    destruct (N.eq_dec k2 next_index) as [->|Hk2]; [right; reflexivity|].
    exfalso. apply Hne. eapply one_vote_per_kind; eauto.
  - left. split; [|reflexivity].
    destruct (fx_distinct fx); [|reflexivity]. specialize (Hdist eq_refl). congruence.
Qed.

Theorem honest_safe_outside cfg ch parent hnum evs st res' a :
  process_evidences fx vf cfg ch parent hnum evs st = Some res' ->
  (forall pk, registered ch a pk -> honest pk) ->
  In a (r_processed res') ->
  exists ev pk, In ev evs /\ registered ch a pk /\ finding_class ev pk.
Proof.
  unfold process_evidences. intros H Hh Hin.
  destruct (processed_justified _ _ _ _ _ _ _ _ _ _ H Hin) as (ev & Hev & Hj); [simpl; tauto|].
  destruct (justified_honest_is_finding _ _ _ _ _ Hj Hh) as (pk & Hreg & Hf).
  exists ev, pk. auto.
Qed.

(* with the repair (the tree as it is) only class (b) remains *)
Theorem honest_safe_outside_repaired cfg ch parent hnum evs st res' a :
  fx_distinct fx = true ->
  process_evidences fx vf cfg ch parent hnum evs st = Some res' ->
  (forall pk, registered ch a pk -> honest pk) ->
  In a (r_processed res') ->
  exists ev pk, In ev evs /\ registered ch a pk /\ cross_kind_class ev pk.
Proof.
  intros Hfx H Hh Hin.
  destruct (honest_safe_outside _ _ _ _ _ _ _ _ H Hh Hin) as (ev & pk & H1 & H2 & [Hd|Hc]).
  - exfalso. destruct ev; simpl in Hd; try tauto. destruct Hd as [Hd _]. congruence.
  - exists ev, pk. auto.
Qed.

(* the same, read on the ledger: a changed record implies a finding-class evidence *)
Theorem honest_record_kept cfg ch parent hnum evs st res' a :
  process_evidences fx vf cfg ch parent hnum evs st = Some res' ->
  (forall pk, registered ch a pk -> honest pk) ->
  (forall ev pk, In ev evs -> registered ch a pk -> ~ finding_class ev pk) ->
  find_val (s_vals (r_state res')) a = find_val (s_vals st) a /\ ~ In a (r_processed res').
Proof.
  intros H Hh Hno.
  assert (Hn : ~ In a (r_processed res')).
  { intros Hin. destruct (honest_safe_outside _ _ _ _ _ _ _ _ H Hh Hin) as (ev & pk & H1 & H2 & H3).
    exact (Hno _ _ H1 H2 H3). }
  split; [|assumption].
  unfold process_evidences in H. rewrite (unprocessed_frame _ _ _ _ _ _ _ _ _ _ H Hn). reflexivity.
Qed.

End Honest.

(* the full-strength clause: no evidence against a validator all of whose keys are honest is accepted *)
Definition honest_safe (fx : fixes) : Prop :=
  forall (vf : vfun) (emits : N -> N -> N -> N -> N -> Prop) (honest : N -> Prop),
    (forall pk h r i s, honest pk -> vf pk h r i s = true -> exists k, emits pk k h r i) ->
    (forall pk k h h' r i, honest pk -> k <> next_index -> emits pk k h r i -> emits pk k h' r i -> h = h') ->
    forall cfg ch parent hnum evs st res' a,
      process_evidences fx vf cfg ch parent hnum evs st = Some res' ->
      (forall pk, registered ch a pk -> honest pk) ->
      ~ In a (r_processed res').

(* witness: validator 9 (key 1) prevotes hash 5 and precommits hash 6 at round 10, index 1 *)
Definition w_vf : vfun := fun pk h r i s =>
  N.eqb pk 1 && N.eqb r 10 && N.eqb i 1 && ((N.eqb h 5 && N.eqb s 77) || (N.eqb h 6 && N.eqb s 88)).
Definition w_emits (pk k h r i : N) : Prop :=
  pk = 1%N /\ r = 10%N /\ i = 1%N /\ ((k = 2%N /\ h = 5%N) \/ (k = 3%N /\ h = 6%N)).
Definition w_cfg : config := mkCfg 2 100 120 8 65536 1000000000000000000 10000.
Definition w_chain : chain := mkChain [(2%N, 0%N)] [[mkLb 9%N (Some 1%N)]].
Definition w_val : validator := mkVal 9%N 1 false 0 10000000000000000000 10 10000000000000000000 10 0 [].
Definition w_state : state := mkSt [w_val] [] 0.
Definition w_cross_kind : evidence := EvDS 10 1 0 2 [(5%N, 77%N); (6%N, 88%N)].
Definition w_duplicate : evidence := EvDS 10 1 0 2 [(5%N, 77%N); (5%N, 77%N)].

Theorem honest_safe_refuted : forall fx, ~ honest_safe fx.
Proof.
  intros fx Hs.
  assert (Hrun : exists res', process_evidences fx w_vf w_cfg w_chain 10 11 [w_cross_kind] w_state = Some res'
                              /\ In 9%N (r_processed res')).
  { destruct fx as [[] []]; eexists; (split; [vm_compute; reflexivity|simpl; auto]). }
  destruct Hrun as (res' & Hrun & Hin).
  refine (Hs w_vf w_emits (fun pk => pk = 1%N) _ _ w_cfg w_chain 10%N 11%N [w_cross_kind] w_state res' 9%N Hrun _ Hin).
  - intros pk h r i s -> Hv. unfold w_vf in Hv.
    apply andb_prop in Hv as [Hv H4]. apply andb_prop in Hv as [Hv H3]. apply andb_prop in Hv as [_ H2].
    apply N.eqb_eq in H2, H3. apply orb_prop in H4 as [H4|H4]; apply andb_prop in H4 as [H4 _]; apply N.eqb_eq in H4.
    + exists 2%N. unfold w_emits. tauto.
    + exists 3%N. unfold w_emits. tauto.
  - intros pk k h h' r i _ Hk (_ & _ & _ & [[-> ->]|[-> ->]]) (_ & _ & _ & [[E ->]|[E ->]]); try reflexivity; discriminate.
  - intros pk (vs & signer & Hvs & Hsg & _ & Hpk). simpl in Hvs. destruct Hvs as [<-|[]].
    simpl in Hsg. destruct Hsg as [<-|[]]. simpl in Hpk. congruence.
Qed.

(* the duplicate class is a violation exactly as long as the hashes are not compared *)
Lemma duplicate_accepted_without_repair z :
  exists res', process_evidences (mkFix false z) w_vf w_cfg w_chain 10 11 [w_duplicate] w_state = Some res'
               /\ In 9%N (r_processed res').
Proof. destruct z; eexists; (split; [vm_compute; reflexivity|simpl; auto]). Qed.

Lemma duplicate_refused_with_repair z :
  exists res', process_evidences (mkFix true z) w_vf w_cfg w_chain 10 11 [w_duplicate] w_state = Some res'
               /\ r_processed res' = [] /\ r_state res' = w_state.
Proof. destruct z; eexists; (split; [vm_compute; reflexivity|simpl; auto]). Qed.

(* ---- real equivocation is always punished ----------------------------------------------------- *)
Lemma take_penalty_some cfg q val amount :
  v_stake val <> 0 -> exists po, take_penalty cfg q val amount = Some po.
Proof.
  intros Hs. unfold take_penalty. destruct (Z.eqb (v_stake val) 0) eqn:E; [lia|].
  match goal with |- context [withdraw_loop ?a ?b ?c ?d] => destruct (withdraw_loop a b c d) as [[q' s] wl] end.
  destruct (Z.ltb 0 (t_pa s)).
  - match goal with |- context [dlg_loop ?u ?m ?ds ?s0] => destruct (dlg_loop u m ds s0) as [[ds' s1] pl] end.
    eexists; reflexivity.
  - eexists; reflexivity.
Qed.

Lemma do_penalize_some cfg hnum st val amount :
  v_stake val <> 0 -> exists st' po, do_penalize cfg hnum st val amount = Some (st', po).
Proof.
  intros Hs. unfold do_penalize. destruct (Z.ltb 0 amount).
  - destruct (take_penalty_some cfg (s_queue st) val amount Hs) as (po & ->). eexists; eexists; reflexivity.
  - eexists; eexists; reflexivity.
Qed.

Section Equivocation.
Variable fx : fixes.
Variable vf : vfun.
Variable cfg : config.
Variable ch : chain.
Variables parent hnum : N.

Theorem real_equivocation_punished ri idx vt signs res vs signer pk val :
  (2 <= length signs)%nat -> two_hashes signs = true ->
  lookback_set ch cfg parent (N.eqb vt vote_certificate) = Some vs ->
  nthN vs idx = Some signer -> lb_pk signer = Some pk ->
  (forall h s, In (h, s) signs -> vf pk h parent ri s = true) ->
  lb_addr signer <> 0%N -> ~ In (lb_addr signer) (r_processed res) ->
  find_val (s_vals (r_state res)) (lb_addr signer) = Some val -> v_stake val <> 0 ->
  let ev := EvDS parent ri idx vt signs in
  exists res' val' st' po,
    process_ds fx vf cfg ch parent hnum ev res = Some res' /\
    do_penalize cfg hnum (r_state res) val (amount_of cfg val) = Some (st', po) /\ r_state res' = st' /\
    find_val (s_vals (r_state res')) (lb_addr signer) = Some val' /\
    v_status val' = 0%N /\ v_expelled val' = true /\ (hnum + c_expel cfg <= v_expire val')%N /\
    In (lb_addr signer) (r_processed res') /\
    (0 < po_total po -> In ev (r_confirmed res') /\ In (lb_addr signer) (r_affected res')).
Proof.
  intros Hlen Htwo Hlb Hn Hpk Hall Ha Hnp Hf Hst ev.
  destruct (do_penalize_some cfg hnum (r_state res) val (amount_of cfg val) Hst) as (st' & po & Hp).
  assert (Hsig : ds_signer vf cfg ch parent ri idx vt signs = Some (lb_addr signer)).
  { unfold ds_signer. rewrite Hlb, Hn, Hpk.
    assert (Hfa : forallb (fun hs => vf pk (fst hs) parent ri (snd hs)) signs = true).
    { apply forallb_forall. intros [h s] Hin. simpl. auto. }
    rewrite Hfa. reflexivity. }
  assert (Hrun : exists res', process_ds fx vf cfg ch parent hnum ev res = Some res').
  { unfold ev, process_ds.
    assert (E1 : Nat.ltb (length signs) 2 = false) by (apply Nat.ltb_ge; assumption).
    rewrite E1, Htwo, andb_false_r, N.eqb_refl, Hsig.
    apply N.eqb_neq in Ha. rewrite Ha.
    apply memN_false in Hnp. rewrite Hnp, Hf.
    unfold amount_of in Hp. rewrite Hp.
    destruct (Z.ltb 0 (po_total po)); eexists; reflexivity. }
  destruct Hrun as (res' & Hrun).
  pose proof (process_ds_step _ _ _ _ _ _ _ _ _ Hrun) as Hk.
  destruct Hk as [Hc|a val0 st0 po0 Hj Hn0 Hf0 Hp0 Hs0 Hpr _ Hpos _].
  - (* impossible: the step penalises *)
    exfalso. unfold ev, process_ds in Hrun.
    assert (E1 : Nat.ltb (length signs) 2 = false) by (apply Nat.ltb_ge; assumption).
    rewrite E1, Htwo, andb_false_r, N.eqb_refl, Hsig in Hrun.
    apply N.eqb_neq in Ha. rewrite Ha in Hrun.
    apply memN_false in Hnp. rewrite Hnp, Hf in Hrun.
    unfold amount_of in Hp. rewrite Hp in Hrun.
    unfold core in Hc. injection Hc as _ _ _ Hx _.
    destruct (Z.ltb 0 (po_total po)); injection Hrun as <-; simpl in Hx;
      apply (f_equal (@length _)) in Hx; rewrite app_length in Hx; simpl in Hx; lia.
  - simpl in Hj. destruct Hj as (_ & _ & _ & Hsa & _). rewrite Hsig in Hsa. injection Hsa as <-.
    rewrite Hf in Hf0. injection Hf0 as <-. rewrite Hp in Hp0. injection Hp0 as <- <-.
    pose proof (do_penalize_facts _ _ _ _ _ _ _ Hp) as F. destruct F.
    exists res', (po_val po), st', po. repeat split; auto.
    + rewrite Hs0, zf_vals. rewrite <- (find_val_addr _ _ _ Hf), <- zf_addr.
      eapply find_replace_same. rewrite zf_addr, (find_val_addr _ _ _ Hf). eassumption.
    + apply zf_expire.
    + rewrite Hpr. apply in_or_app. right. left. reflexivity.
    + destruct (Hpos H) as (-> & _ & _). apply in_or_app. right. left. reflexivity.
    + destruct (Hpos H) as (_ & -> & _). apply in_or_app. right. left. reflexivity.
Qed.

End Equivocation.

Section BuilderValidator.
Variable fx : fixes.
Variable vf : vfun.
Variable cfg : config.
Variable ch : chain.
Variable hnum : N.

(* ---- builder and validator -------------------------------------------------------------------- *)
Theorem builder_validator_agree pool st res pend sd :
  slashing fx vf cfg ch hnum pool st = Some (res, pend, sd) ->
  (fx_zero fx = true \/ length (r_processed res) = length (r_affected res)) ->
  exists res2,
    replay_slashing fx vf cfg ch hnum sd st = Some (res2, false) /\
    r_state res2 = r_state res /\ r_logs res2 = r_logs res /\
    r_affected res2 = r_affected res /\ r_confirmed res2 = r_confirmed res.
Proof.
  unfold slashing. destruct pool as [|e pool].
  { intros H _. injection H as <- _ <-. exists (empty_result st). simpl. auto. }
  destruct (process_evidences fx vf cfg ch (parent_of hnum) hnum (e :: pool) st) as [rb|] eqn:Hp; [|discriminate].
  intros H Hout. injection H as <- _ <-.
  unfold process_evidences in Hp.
  destruct (replay_reproduces fx vf cfg ch (parent_of hnum) hnum _ _ _ (empty_result st) Hp eq_refl) as (newc & rv' & E1 & E2 & E3).
  { destruct Hout as [Hz|Hl]; [left; assumption|right]. unfold gap. simpl. lia. }
  simpl in E1. unfold core in E3. injection E3 as Ec Ea El Epr Es.
  rewrite E1. destruct newc as [|c cs].
  - simpl in E2. injection E2 as <-. exists (empty_result st). simpl in *. auto.
  - exists rv'. unfold replay_slashing, process_evidences. rewrite E2. rewrite <- E1. auto.
Qed.


(* with the zero-penalty repair (the tree as it is) the agreement is unconditional *)
Theorem builder_validator_agree_repaired pool st res pend sd :
  fx_zero fx = true ->
  slashing fx vf cfg ch hnum pool st = Some (res, pend, sd) ->
  exists res2,
    replay_slashing fx vf cfg ch hnum sd st = Some (res2, false) /\
    r_state res2 = r_state res /\ r_logs res2 = r_logs res /\
    r_affected res2 = r_affected res /\ r_confirmed res2 = r_confirmed res.
Proof. intros Hz H. eapply builder_validator_agree; eauto. Qed.

(* with the two-hashes repair an evidence that names a single hash is inert,
   whatever else it contains and wherever it is placed *)
Theorem single_hash_evidence_inert parent r ri idx vt signs res :
  fx_distinct fx = true -> two_hashes signs = false ->
  process_ds fx vf cfg ch parent hnum (EvDS r ri idx vt signs) res = Some res.
Proof.
  intros Hfx Ht. unfold process_ds. rewrite Hfx, Ht. simpl.
  destruct (Nat.ltb (length signs) 2); reflexivity.
Qed.

End BuilderValidator.

(* the zero-penalty class: the builder expels, the slash data stays empty, the replay does nothing *)
Definition w_cfg0 : config := mkCfg 0 100 120 8 65536 1000000000000000000 10000.
Definition w_equivocation : evidence := EvDS 10 1 0 2 [(5%N, 77%N); (6%N, 88%N)].

Theorem builder_validator_refuted_without_repair d :
  exists res pend sd res2,
    slashing (mkFix d false) w_vf w_cfg0 w_chain 11 [w_equivocation] w_state = Some (res, pend, sd) /\
    replay_slashing (mkFix d false) w_vf w_cfg0 w_chain 11 sd w_state = Some (res2, false) /\
    find_val (s_vals (r_state res)) 9%N <> find_val (s_vals (r_state res2)) 9%N.
Proof.
  destruct d; do 4 eexists; (split; [vm_compute; reflexivity|split; [vm_compute; reflexivity|vm_compute; discriminate]]).
Qed.
