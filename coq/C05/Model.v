(* C05 - executable model of the double-sign evidence pipeline:
     staking/slash_youv5.go : processDoubleSignV5
     staking/slash.go       : slashing, replaySlashing, processEvidences,
                              doPenalize, takePenalty
     core/protocol_version_processor.go : LookBackVldReaderForRound (signer set)
   No proofs in this file.

   Conventions.  Addresses, hashes, BLS keys and signatures are opaque
   identifiers (N); address 0 is common.Address{}.  Amounts are Z (big.Int).
   BLS verification is a function argument [vf pk hash round rindex sig]: it
   answers whether [sig] decodes and verifies under key [pk] on the payload
   hash || be(round) || be32(rindex) (voter.go signVote signs exactly this,
   the vote kind is not part of it).  uint64 wrap-around is outside the model.

   Two switches describe two repairs that are in /repo since commits 0c3d6f7
   and e1d256e (the harness measures which behaviour the working tree has and
   passes it with every case; [fx_now] is the tree as it is):
     fx_distinct : the acceptance test also requires two different hashes among the signs
     fx_zero     : an evidence whose penalty ran is confirmed even if 0 was taken *)
From Coq Require Export List NArith ZArith Bool.
Export ListNotations.

Local Open Scope Z_scope.

Definition addr := N.

Record fixes := mkFix { fx_distinct : bool; fx_zero : bool }.
Definition fx_now : fixes := mkFix true true.

(* ---- ledger ------------------------------------------------------------ *)
Record dlg := mkDlg { d_from : addr; d_stake : Z; d_token : Z }.

Record validator := mkVal {
  v_addr : addr;
  v_status : N;            (* 1 online, 0 offline *)
  v_expelled : bool;
  v_expire : N;            (* ExpelExpired *)
  v_token : Z; v_stake : Z; v_self_token : Z; v_self_stake : Z;
  v_risk : N;              (* RiskObligation *)
  v_dlgs : list dlg        (* sorted by delegator, no duplicates *)
}.

Record wrec := mkW {
  w_delegator : addr;      (* 0 = the validator's own withdrawal *)
  w_validator : addr;
  w_finished : N;
  w_final : Z              (* FinalBalance *)
}.

Record state := mkSt {
  s_vals : list validator;
  s_queue : list wrec;
  s_penalty_to : Z         (* balance of config.PenaltyTo *)
}.

Record config := mkCfg {
  c_fraction : N;          (* PenaltyFractionForDoubleSign *)
  c_expel : N;             (* ExpelledRoundForDoubleSign *)
  c_max_expired : N;       (* MaxEvidenceExpiredIn *)
  c_stake_lb : N;          (* StakeLookBack *)
  c_cert_lb : N;           (* 2 * ACoCHTFrequency *)
  c_unit : Z;              (* params.StakeUint *)
  c_rate_base : N          (* params.CommissionRateBase *)
}.

(* ---- chain: look-back validator sets ------------------------------------ *)
Record lbval := mkLb { lb_addr : addr; lb_pk : option N }.  (* None: BlsPubKey does not decode *)

Record chain := mkChain {
  ch_headers : list (N * N);      (* number -> index of the validator set of its ValRoot *)
  ch_sets : list (list lbval)     (* each sorted the way state.Validators sorts *)
}.

Fixpoint lookupN {A} (l : list (N * A)) (k : N) : option A :=
  match l with
  | [] => None
  | (k', v) :: r => if N.eqb k' k then Some v else lookupN r k
  end.

(* list access by an N index (indexes come from uint32 fields: never convert them to nat) *)
Fixpoint nthN {A} (l : list A) (i : N) : option A :=
  match l with
  | [] => None
  | x :: r => if N.eqb i 0%N then Some x else nthN r (N.pred i)
  end.

Definition protocol_round_back : N := 8%N.

(* BlockChain.LookBackVldReaderForRound + GetValidators *)
Definition lookback_set (ch : chain) (cfg : config) (r : N) (is_cert : bool) : option (list lbval) :=
  let pr := if N.ltb protocol_round_back r then (r - protocol_round_back)%N else 0%N in
  match lookupN (ch_headers ch) pr with
  | None => None
  | Some _ =>
    let c := if is_cert then c_cert_lb cfg else c_stake_lb cfg in
    let lb := if N.ltb c r then (r - c)%N else 0%N in
    match lookupN (ch_headers ch) lb with
    | None => None
    | Some si => nthN (ch_sets ch) si
    end
  end.

(* ---- takePenalty --------------------------------------------------------- *)
Definition set_actual (source target : Z) : Z :=
  if Z.leb target source then target else source.

Fixpoint map_get (m : list (addr * Z)) (k : addr) : option Z :=
  match m with
  | [] => None
  | (k', v) :: r => if N.eqb k' k then Some v else map_get r k
  end.
Fixpoint map_set (m : list (addr * Z)) (k : addr) (v : Z) : list (addr * Z) :=
  match m with
  | [] => [(k, v)]
  | (k', v') :: r => if N.eqb k' k then (k, v) :: r else (k', v') :: map_set r k v
  end.

(* running values of takePenalty *)
Record tp := mkTp {
  t_pa : Z;                     (* penaltyAmount still to take *)
  t_tot : Z;                    (* totalPenalty *)
  t_self : Z;                   (* selfPenalty *)
  t_dmap : list (addr * Z);     (* dlgPenalty *)
  t_fw : Z                      (* the one big.Int shared by fromWithdraw / fromDeposit *)
}.

(* one entry of affectedRecords: position in the queue, FinalBalance after *)
Definition wlog := (N * Z)%type.

(* one iteration of the loop over the withdraw queue (the record is known to be
   reached, i.e. the amount still to take is positive) *)
Definition withdraw_step (va : addr) (pos : N) (r : wrec) (s : tp) : wrec * tp * list wlog :=
  if negb (N.eqb (w_validator r) va) || negb (N.eqb (w_finished r) 0%N) then (r, s, [])
  else
    let own := N.eqb (w_delegator r) 0%N in
    match (if own then Some (t_self s) else map_get (t_dmap s) (w_delegator r)) with
    | None => (r, s, [])
    | Some ra =>
      if Z.leb ra 0 then (r, s, [])
      else
        let f := set_actual (w_final r) ra in
        if Z.ltb 0 f then
          (mkW (w_delegator r) (w_validator r) (w_finished r) (w_final r - f),
           mkTp (t_pa s - f) (t_tot s + f)
                (if own then ra - f else t_self s)
                (if own then t_dmap s else map_set (t_dmap s) (w_delegator r) (ra - f)) f,
           [(pos, w_final r - f)])
        else (r, mkTp (t_pa s) (t_tot s) (t_self s) (t_dmap s) f, [])
    end.

Fixpoint withdraw_loop (va : addr) (pos : N) (q : list wrec) (s : tp) : list wrec * tp * list wlog :=
  match q with
  | [] => ([], s, [])
  | r :: rest =>
    if Z.leb (t_pa s) 0 then (q, s, [])
    else
      let '(r', s1, lg) := withdraw_step va pos r s in
      let '(q', s', l) := withdraw_loop va (pos + 1)%N rest s1 in
      (r' :: q', s', lg ++ l)
  end.

(* running values of the deposit phase: remaining amount, total, validator Token, Stake, shared var *)
Record dp := mkDp { p_pa : Z; p_tot : Z; p_token : Z; p_stake : Z; p_fw : Z }.

(* one iteration of the loop over the delegations: the delegation afterwards
   (None: it became empty and UpdateDelegationFrom removes it), running values,
   pRecords entry *)
Definition dlg_step (unit : Z) (dmap : list (addr * Z)) (d : dlg) (s : dp) : option dlg * dp * list (addr * Z) :=
  match map_get dmap (d_from d) with
  | None => (Some d, s, [])
  | Some ra =>
    if Z.leb ra 0 then (Some d, s, [])
    else
      let f := set_actual (d_token d) ra in
      if Z.ltb 0 f then
        let nt := d_token d - f in
        let ns := Z.div nt unit in
        let delta := d_stake d - ns in
        (if Z.eqb ns 0 && Z.eqb nt 0 then None else Some (mkDlg (d_from d) ns nt),
         mkDp (p_pa s - f) (p_tot s + f) (p_token s - f) (p_stake s - delta) f,
         [(d_from d, f)])
      else (Some d, mkDp (p_pa s) (p_tot s) (p_token s) (p_stake s) f, [])
  end.

Definition opt_cons {A} (o : option A) (l : list A) : list A :=
  match o with Some x => x :: l | None => l end.

Fixpoint dlg_loop (unit : Z) (dmap : list (addr * Z)) (ds : list dlg) (s : dp) : list dlg * dp * list (addr * Z) :=
  match ds with
  | [] => ([], s, [])
  | d :: rest =>
    if Z.leb (p_pa s) 0 then (ds, s, [])
    else
      let '(d', s1, lg) := dlg_step unit dmap d s in
      let '(ds', s', l) := dlg_loop unit dmap rest s1 in
      (opt_cons d' ds', s', lg ++ l)
  end.

Record penalty_out := mkPo {
  po_val : validator;           (* newVal *)
  po_queue : list wrec;
  po_total : Z;
  po_wlogs : list wlog;         (* affectedRecords *)
  po_shared : Z;                (* final value of the shared big.Int: every affectedRecords[i].Token aliases it *)
  po_precs : list (addr * Z)    (* pRecords *)
}.

(* takePenalty; None = the Go code panics (QuoRem by a zero Stake) *)
Definition take_penalty (cfg : config) (q : list wrec) (val : validator) (amount : Z) : option penalty_out :=
  let risk := v_risk val in
  let obligation :=
    if N.ltb 0%N risk && N.leb risk (c_rate_base cfg)
    then Z.div (amount * Z.of_N risk) (Z.of_N (c_rate_base cfg)) else 0%Z in
  let curr := (amount - obligation)%Z in
  if Z.eqb (v_stake val) 0 then None
  else
    let per := Z.quot curr (v_stake val) in
    let rem := Z.rem curr (v_stake val) in
    let selfp := (per * v_self_stake val + rem + obligation)%Z in
    let dmap := fold_left (fun m d => map_set m (d_from d) (per * d_stake d)%Z) (v_dlgs val) [] in
    let '(q', s, wl) := withdraw_loop (v_addr val) 0%N q (mkTp amount 0 selfp dmap 0) in
    if Z.ltb 0 (t_pa s) then
      (* second: take from the deposits *)
      let f0 := set_actual (v_self_token val) (t_self s) in
      let take_self := Z.ltb 0 (t_self s) && Z.ltb 0 f0 in
      let nst := if take_self then (v_self_token val - f0)%Z else v_self_token val in
      let nss := if take_self then Z.div nst (c_unit cfg) else v_self_stake val in
      let s0 :=
        if take_self then
          mkDp (t_pa s - f0) (t_tot s + f0) (v_token val - f0) (v_stake val - (v_self_stake val - nss)) f0
        else mkDp (t_pa s) (t_tot s) (v_token val) (v_stake val) (if Z.ltb 0 (t_self s) then f0 else t_fw s) in
      let '(ds', s1, pl) := dlg_loop (c_unit cfg) (t_dmap s) (v_dlgs val) s0 in
      Some (mkPo (mkVal (v_addr val) (v_status val) (v_expelled val) (v_expire val)
                        (p_token s1) (p_stake s1) nst nss (v_risk val) ds')
                 q' (p_tot s1) wl (p_fw s1)
                 ((if take_self then [(v_addr val, f0)] else []) ++ pl))
    else
      Some (mkPo val q' (t_tot s) wl (t_fw s) []).

(* ---- doPenalize ---------------------------------------------------------- *)
Fixpoint replace_val (l : list validator) (nv : validator) : list validator :=
  match l with
  | [] => []
  | v :: r => if N.eqb (v_addr v) (v_addr nv) then nv :: r else v :: replace_val r nv
  end.

Fixpoint find_val (l : list validator) (a : addr) : option validator :=
  match l with
  | [] => None
  | v :: r => if N.eqb (v_addr v) a then Some v else find_val r a
  end.

(* one slashing log: validator, Total, FromWithdraw, aliased Token, FromDeposit.
   [l_shared]: in the Go code every SlashWithdrawRecord.Token of one log points to
   the same big.Int, which ends up holding the last amount computed; the model
   carries that value but the correspondence does not compare it (repairing the
   aliasing does not touch the property). *)
Record slog := mkLog { l_addr : addr; l_total : Z; l_from_w : list wlog; l_shared : Z; l_from_d : list (addr * Z) }.

Definition do_penalize (cfg : config) (hnum : N) (st : state) (val : validator) (amount : Z)
  : option (state * penalty_out) :=
  let po :=
    if Z.ltb 0 amount then take_penalty cfg (s_queue st) val amount
    else Some (mkPo val (s_queue st) amount [] 0 []) in
  match po with
  | None => None
  | Some po =>
    let nv := po_val po in
    let e := (hnum + c_expel cfg)%N in
    let nv' := mkVal (v_addr nv) 0%N true (if N.ltb (v_expire nv) e then e else v_expire nv)
                     (v_token nv) (v_stake nv) (v_self_token nv) (v_self_stake nv) (v_risk nv) (v_dlgs nv) in
    Some (mkSt (replace_val (s_vals st) nv') (po_queue po) (s_penalty_to st + po_total po),
          mkPo nv' (po_queue po) (po_total po) (po_wlogs po) (po_shared po) (po_precs po))
  end.

(* ---- evidences ------------------------------------------------------------ *)
Inductive evidence :=
| EvDS (round rindex signer_idx vote_type : N) (signs : list (N * N))   (* (hash, signature) *)
| EvOther                 (* any other Type string *)
| EvBadData.              (* Type doublesignv5, Data does not decode *)

Definition vote_certificate : N := 5%N.

Record result := mkRes {
  r_confirmed : list evidence;
  r_pending : list evidence;
  r_affected : list addr;
  r_logs : list slog;
  r_processed : list addr;       (* doubleSignedValidators, in order of insertion *)
  r_state : state
}.

Fixpoint memN (a : N) (l : list N) : bool :=
  match l with [] => false | x :: r => N.eqb x a || memN a r end.

(* the evidence names at least two different hashes *)
Definition two_hashes (l : list (N * N)) : bool :=
  match l with
  | [] => false
  | (h, _) :: r => existsb (fun hs => negb (N.eqb (fst hs) h)) r
  end.

Definition vfun := N -> N -> N -> N -> N -> bool.   (* pk hash round rindex sig *)

(* the acceptance test of processDoubleSignV5 up to the signer address:
   Some a = all signatures verified under the key of validator [a] *)
Definition ds_signer (vf : vfun) (cfg : config) (ch : chain)
           (r ri idx vt : N) (signs : list (N * N)) : option addr :=
  match lookback_set ch cfg r (N.eqb vt vote_certificate) with
  | None => None
  | Some vs =>
    match nthN vs idx with
    | None => None
    | Some signer =>
      match lb_pk signer with
      | None => None
      | Some pk =>
        if forallb (fun hs => vf pk (fst hs) r ri (snd hs)) signs
        then Some (lb_addr signer) else None
      end
    end
  end.

(* processDoubleSignV5; None = panic *)
Definition process_ds (fx : fixes) (vf : vfun) (cfg : config) (ch : chain) (parent hnum : N)
           (ev : evidence) (res : result) : option result :=
  match ev with
  | EvDS r ri idx vt signs =>
    if Nat.ltb (length signs) 2 then Some res
    else if fx_distinct fx && negb (two_hashes signs) then Some res
    else if N.eqb r parent then
      match ds_signer vf cfg ch r ri idx vt signs with
      | None => Some res
      | Some a =>
        if N.eqb a 0%N then Some res
        else if memN a (r_processed res) then Some res
        else
          match find_val (s_vals (r_state res)) a with
          | None => Some res
          | Some val =>
            let amount := Z.div (v_token val * Z.of_N (c_fraction cfg)) 100 in
            match do_penalize cfg hnum (r_state res) val amount with
            | None => None
            | Some (st', po) =>
              let processed := r_processed res ++ [a] in
              if Z.ltb 0 (po_total po) then
                Some (mkRes (r_confirmed res ++ [ev]) (r_pending res) (r_affected res ++ [a])
                            (r_logs res ++ [mkLog a (po_total po) (po_wlogs po) (po_shared po) (po_precs po)])
                            processed st')
              else
                Some (mkRes (if fx_zero fx then r_confirmed res ++ [ev] else r_confirmed res)
                            (r_pending res) (r_affected res) (r_logs res) processed st')
            end
          end
      end
    else if N.ltb parent r then
      Some (mkRes (r_confirmed res) (r_pending res ++ [ev]) (r_affected res) (r_logs res) (r_processed res) (r_state res))
    else if N.leb (parent - r)%N (c_max_expired cfg) then
      Some (mkRes (r_confirmed res) (r_pending res ++ [ev]) (r_affected res) (r_logs res) (r_processed res) (r_state res))
    else Some res
  | EvOther => Some res
  | EvBadData => Some res
  end.

Definition empty_result (st : state) : result := mkRes [] [] [] [] [] st.

(* processEvidences *)
Fixpoint process_from (fx : fixes) (vf : vfun) (cfg : config) (ch : chain) (parent hnum : N)
         (evs : list evidence) (res : result) : option result :=
  match evs with
  | [] => Some res
  | e :: r =>
    match process_ds fx vf cfg ch parent hnum e res with
    | None => None
    | Some res' => process_from fx vf cfg ch parent hnum r res'
    end
  end.

Definition process_evidences fx vf cfg ch parent hnum evs st :=
  process_from fx vf cfg ch parent hnum evs (empty_result st).

(* header.SlashData *)
Inductive slashdata := SDNone | SDGarbage | SDList (evs : list evidence).

(* the height evidences are judged against: the block's own parent,
   header.Number - 1 (not the local chain head; header numbers are >= 1) *)
Definition parent_of (hnum : N) : N := N.pred hnum.

(* Staking.slashing (block builder): result, the builder's new pending list, header.SlashData *)
Definition slashing fx vf cfg ch hnum (pool : list evidence) (st : state)
  : option (result * list evidence * slashdata) :=
  match pool with
  | [] => Some (empty_result st, [], SDNone)
  | _ =>
    match process_evidences fx vf cfg ch (parent_of hnum) hnum pool st with
    | None => None
    | Some res =>
      Some (res, r_pending res, match r_confirmed res with [] => SDNone | c => SDList c end)
    end
  end.

(* Staking.replaySlashing (block validator): bool = error returned *)
Definition replay_slashing fx vf cfg ch hnum (sd : slashdata) (st : state) : option (result * bool) :=
  match sd with
  | SDNone => Some (empty_result st, false)
  | SDGarbage => Some (empty_result st, true)
  | SDList [] => Some (empty_result st, true)
  | SDList evs =>
    match process_evidences fx vf cfg ch (parent_of hnum) hnum evs st with
    | None => None
    | Some res => Some (res, false)
    end
  end.

(* ---- correspondence runner ------------------------------------------------ *)
Fixpoint table_vf (t : list (N * N * N * N * N)) (pk h r ri s : N) : bool :=
  match t with
  | [] => false
  | (pk', h', r', ri', s') :: rest =>
    (N.eqb pk' pk && N.eqb h' h && N.eqb r' r && N.eqb ri' ri && N.eqb s' s) || table_vf rest pk h r ri s
  end.

Inductive mode :=
| MBuild (pool : list evidence)          (* Staking.slashing on this pool *)
| MReplay (sd : slashdata)               (* Staking.replaySlashing on this header.SlashData *)
| MPenal (a : addr) (amount : Z)         (* doPenalize on validator a with this amount *)
| MVotes (vs : list (N * N * N * N)).    (* every vote one protocol-following validator process sent over its
                                            life (restarts, crashes): kind, round, index, block hash *)

(* what C02 / C03 prove of every voter history (C03_voter_one_vote): per kind
   and (round, index) at most one vote, two for next-index (kind 4) *)
Definition vote_limit (k : N) : nat := if N.eqb k 4%N then 2%nat else 1%nat.
Definition same_slot (a b : N * N * N * N) : bool :=
  let '(k, r, i, _) := a in let '(k', r', i', _) := b in N.eqb k k' && N.eqb r r' && N.eqb i i'.
Definition votes_ok (vs : list (N * N * N * N)) : bool :=
  forallb (fun v => Nat.leb (length (filter (same_slot v) vs)) (vote_limit (fst (fst (fst v))))) vs.

Record obs := mkObs {
  o_panic : bool;
  o_err : bool;
  o_confirmed : list N;      (* indexes into the input list *)
  o_pending : list N;
  o_affected : list addr;
  o_logs : list slog;
  o_state : state;
  o_total : Z                (* MPenal: totalPenalty *)
}.

Record case := mkCase {
  k_fix : fixes; k_cfg : config; k_chain : chain;
  k_valid : list (N * N * N * N * N);    (* (pk, hash, round, rindex, sig) accepted by real BLS *)
  k_head : N;   (* number of the local chain head: must not matter *)
  k_hnum : N; k_state : state; k_mode : mode; k_obs : obs
}.

Definition dlg_eqb (a b : dlg) : bool :=
  N.eqb (d_from a) (d_from b) && Z.eqb (d_stake a) (d_stake b) && Z.eqb (d_token a) (d_token b).

Fixpoint list_eqb {A} (eqb : A -> A -> bool) (a b : list A) : bool :=
  match a, b with
  | [], [] => true
  | x :: a', y :: b' => eqb x y && list_eqb eqb a' b'
  | _, _ => false
  end.

Definition val_eqb (a b : validator) : bool :=
  N.eqb (v_addr a) (v_addr b) && N.eqb (v_status a) (v_status b) && Bool.eqb (v_expelled a) (v_expelled b)
  && N.eqb (v_expire a) (v_expire b) && Z.eqb (v_token a) (v_token b) && Z.eqb (v_stake a) (v_stake b)
  && Z.eqb (v_self_token a) (v_self_token b) && Z.eqb (v_self_stake a) (v_self_stake b)
  && N.eqb (v_risk a) (v_risk b) && list_eqb dlg_eqb (v_dlgs a) (v_dlgs b).

Definition wrec_eqb (a b : wrec) : bool :=
  N.eqb (w_delegator a) (w_delegator b) && N.eqb (w_validator a) (w_validator b)
  && N.eqb (w_finished a) (w_finished b) && Z.eqb (w_final a) (w_final b).

Definition state_eqb (a b : state) : bool :=
  list_eqb val_eqb (s_vals a) (s_vals b) && list_eqb wrec_eqb (s_queue a) (s_queue b)
  && Z.eqb (s_penalty_to a) (s_penalty_to b).

Definition pairNN_eqb (a b : N * N) : bool := N.eqb (fst a) (fst b) && N.eqb (snd a) (snd b).
Definition pairNZ_eqb (a b : N * Z) : bool := N.eqb (fst a) (fst b) && Z.eqb (snd a) (snd b).

Definition slog_eqb (a b : slog) : bool :=
  N.eqb (l_addr a) (l_addr b) && Z.eqb (l_total a) (l_total b)
  && list_eqb pairNZ_eqb (l_from_w a) (l_from_w b)   (* l_shared is not compared: see Model comment *)
  && list_eqb pairNZ_eqb (l_from_d a) (l_from_d b).

Definition evidence_eqb (a b : evidence) : bool :=
  match a, b with
  | EvDS r ri i vt s, EvDS r' ri' i' vt' s' =>
    N.eqb r r' && N.eqb ri ri' && N.eqb i i' && N.eqb vt vt' && list_eqb pairNN_eqb s s'
  | EvOther, EvOther => true
  | EvBadData, EvBadData => true
  | _, _ => false
  end.

Definition pick (evs : list evidence) (idx : list N) : list evidence :=
  map (fun i => match nthN evs i with Some e => e | None => EvOther end) idx.

Definition res_matches (evs : list evidence) (res : result) (o : obs) : bool :=
  list_eqb evidence_eqb (r_confirmed res) (pick evs (o_confirmed o))
  && list_eqb evidence_eqb (r_pending res) (pick evs (o_pending o))
  && list_eqb N.eqb (r_affected res) (o_affected o)
  && list_eqb slog_eqb (r_logs res) (o_logs o)
  && state_eqb (r_state res) (o_state o).

Definition case_ok (c : case) : bool :=
  let vf := table_vf (k_valid c) in
  let o := k_obs c in
  match k_mode c with
  | MBuild pool =>
    match slashing (k_fix c) vf (k_cfg c) (k_chain c) (k_hnum c) pool (k_state c) with
    | None => o_panic o
    | Some (res, _, _) => negb (o_panic o) && negb (o_err o) && res_matches pool res o
    end
  | MReplay sd =>
    match replay_slashing (k_fix c) vf (k_cfg c) (k_chain c) (k_hnum c) sd (k_state c) with
    | None => o_panic o
    | Some (res, err) =>
      negb (o_panic o) && Bool.eqb err (o_err o)
      && res_matches (match sd with SDList e => e | _ => [] end) res o
    end
  | MVotes vs => negb (o_panic o) && votes_ok vs
  | MPenal a amount =>
    match find_val (s_vals (k_state c)) a with
    | None => false
    | Some val =>
      match do_penalize (k_cfg c) (k_hnum c) (k_state c) val amount with
      | None => o_panic o
      | Some (st', po) =>
        negb (o_panic o) && state_eqb st' (o_state o) && Z.eqb (po_total po) (o_total o)
        && list_eqb slog_eqb [mkLog a (po_total po) (po_wlogs po) (po_shared po) (po_precs po)] (o_logs o)
      end
    end
  end.

Fixpoint mismatches_from (i : N) (l : list case) : list N :=
  match l with
  | [] => []
  | c :: r => if case_ok c then mismatches_from (i + 1)%N r else i :: mismatches_from (i + 1)%N r
  end.
Definition mismatches := mismatches_from 0%N.
