(* C05 - Only real equivocation is slashable, and it is slashed exactly once.
   Property theorems only: each is closed by [exact] of a lemma of Proofs*.v /
   Bridge.v and followed by Print Assumptions.

   Reading guide.  [process_evidences fx vf cfg ch parent hnum evs st] is
   Staking.processEvidences on the evidence list [evs] (the builder's pool or
   the decoded header.SlashData), [vf] is BLS verification, [ch] the chain's
   look-back validator sets, [st] the ledger (validators, withdraw queue,
   penalty account).  [r_processed] of the result is the set of validators on
   which doPenalize ran (doubleSignedValidators).  [fx] says which of the two
   repairs the code under test contains; /repo contains both since 0c3d6f7 and
   e1d256e, i.e. it is [fx_now = mkFix true true] (measured by the harness on
   every run and passed with every correspondence case).  The main theorems are
   stated for the tree as it is; the versions for arbitrary [fx] are kept. *)
From Coq Require Import Lia ZArith NArith List Bool.
From VF.C05 Require Import Model ProofsPenalty ProofsShares ProofsEvidence ProofsHonest ProofsVoter Bridge.
Local Open Scope Z_scope.

(* ---- 1. honest validators ---------------------------------------------------------- *)

(* Full statement (the property's first sentence): no evidence is accepted
   against a validator all of whose registered BLS keys are honest.  It is FALSE
   for the code as it is and stays false with the local repair, because the
   signed payload carries no vote kind. *)
Definition C05_honest_safe_full (fx : fixes) : Prop := honest_safe fx.

Theorem C05_honest_safe_refuted : forall fx, ~ C05_honest_safe_full fx.
Proof. exact honest_safe_refuted. Qed.
Print Assumptions C05_honest_safe_refuted.

(* What does hold, for every evidence list, ledger, chain and signature oracle:
   if doPenalize runs on a validator whose keys are honest, then the list
   contains an evidence of one of the listed finding classes - (a) one signed
   hash listed several times (only without the repair), (b) two different
   hashes the validator signed as votes of different kinds or as its two
   next-index votes.  Any other way of slashing an honest validator contradicts
   this theorem. *)
Theorem C05_honest_safe_outside :
  forall (fx : fixes) (vf : vfun) (emits : N -> N -> N -> N -> N -> Prop) (honest : N -> Prop),
    (forall pk h r i s, honest pk -> vf pk h r i s = true -> exists k, emits pk k h r i) ->
    (forall pk k h h' r i, honest pk -> k <> next_index -> emits pk k h r i -> emits pk k h' r i -> h = h') ->
    forall cfg ch parent hnum evs st res' a,
      process_evidences fx vf cfg ch parent hnum evs st = Some res' ->
      (forall pk, registered ch a pk -> honest pk) ->
      In a (r_processed res') ->
      exists ev pk, In ev evs /\ registered ch a pk /\ finding_class fx emits ev pk.
Proof. exact honest_safe_outside. Qed.
Print Assumptions C05_honest_safe_outside.

(* MAIN (tree as it is, fx_distinct = true): only class (b) is left.  An honest
   validator is slashed only if the evidence list holds two different hashes it
   really signed at that round/index as votes of different kinds or as its two
   next-index votes (open finding: the vote kind is not signed). *)
Theorem C05_honest_safe_outside_now :
  forall (vf : vfun) (emits : N -> N -> N -> N -> N -> Prop) (honest : N -> Prop),
    (forall pk h r i s, honest pk -> vf pk h r i s = true -> exists k, emits pk k h r i) ->
    (forall pk k h h' r i, honest pk -> k <> next_index -> emits pk k h r i -> emits pk k h' r i -> h = h') ->
    forall cfg ch parent hnum evs st res' a,
      process_evidences fx_now vf cfg ch parent hnum evs st = Some res' ->
      (forall pk, registered ch a pk -> honest pk) ->
      In a (r_processed res') ->
      exists ev pk, In ev evs /\ registered ch a pk /\ cross_kind_class emits ev pk.
Proof.
  exact (fun vf emits honest Hu Ho cfg ch parent hnum evs st res' a =>
           honest_safe_outside_repaired fx_now vf emits honest Hu Ho cfg ch parent hnum evs st res' a eq_refl).
Qed.
Print Assumptions C05_honest_safe_outside_now.

(* MAIN: an evidence that names a single hash (one vote listed any number of
   times) does nothing, wherever it is placed (repair 0c3d6f7) *)
Theorem C05_single_hash_evidence_inert :
  forall vf cfg ch parent hnum r ri idx vt signs res,
    two_hashes signs = false ->
    process_ds fx_now vf cfg ch parent hnum (EvDS r ri idx vt signs) res = Some res.
Proof.
  exact (fun vf cfg ch parent hnum r ri idx vt signs res =>
           single_hash_evidence_inert fx_now vf cfg ch hnum parent r ri idx vt signs res eq_refl).
Qed.
Print Assumptions C05_single_hash_evidence_inert.

(* ---- 1b. the same with the honest vote set INSTANTIATED by the Voter model of C03 ------------
   [hist pk = Some (E, ops)]: the BLS key pk is used by one voter process whose
   whole life is the history ops (context changes, vote messages, cache and
   server moves, restarts - any interleaving) in environment E.
   [voter_emits hist pk k h r i]: that history posted a vote of kind k for
   block h at (r, i) (an ESend event of [all_events]).  The one-vote-per-kind
   bound is no longer a hypothesis: it is C03_voter_one_vote (simulation onto
   C02's vote database + C02_one_vote).  What remains assumed is only the
   ideal-signature hypothesis. *)

(* the bound, read on block hashes *)
Theorem C05_voter_one_vote_per_kind :
  forall (hs : history) k h h' r i,
    k <> next_index -> history_emits hs k h r i -> history_emits hs k h' r i -> h = h'.
Proof. exact history_one_vote_per_kind. Qed.
Print Assumptions C05_voter_one_vote_per_kind.

(* MAIN (tree as it is): if the signatures that verify under a validator's keys
   are exactly signatures over votes its voter histories posted, doPenalize
   runs on that validator only if the evidence list holds an evidence of the
   OPEN class: two different hashes the voter model really posted at that
   round/index under different kinds, or as its two next-index votes. *)
Theorem C05_voter_safe_outside_now :
  forall (hist : N -> option history) (vf : vfun),
    (forall pk h r i s, voter_key hist pk -> vf pk h r i s = true -> exists k, voter_emits hist pk k h r i) ->
    forall cfg ch parent hnum evs st res' a,
      process_evidences fx_now vf cfg ch parent hnum evs st = Some res' ->
      (forall pk, registered ch a pk -> voter_key hist pk) ->
      In a (r_processed res') ->
      exists ev pk, In ev evs /\ registered ch a pk /\ cross_kind_class (voter_emits hist) ev pk.
Proof.
  exact (fun hist vf Hi cfg ch parent hnum evs st res' a =>
           voter_safe_outside_repaired hist vf Hi fx_now cfg ch parent hnum evs st res' a eq_refl).
Qed.
Print Assumptions C05_voter_safe_outside_now.

(* general version (any repair setting): the finding classes *)
Theorem C05_voter_safe_outside :
  forall (hist : N -> option history) (vf : vfun),
    (forall pk h r i s, voter_key hist pk -> vf pk h r i s = true -> exists k, voter_emits hist pk k h r i) ->
    forall fx cfg ch parent hnum evs st res' a,
      process_evidences fx vf cfg ch parent hnum evs st = Some res' ->
      (forall pk, registered ch a pk -> voter_key hist pk) ->
      In a (r_processed res') ->
      exists ev pk, In ev evs /\ registered ch a pk /\ finding_class fx (voter_emits hist) ev pk.
Proof. exact voter_safe_outside. Qed.
Print Assumptions C05_voter_safe_outside.

(* ... and outside that class the voter's validator keeps its ledger record *)
Theorem C05_voter_record_kept :
  forall (hist : N -> option history) (vf : vfun),
    (forall pk h r i s, voter_key hist pk -> vf pk h r i s = true -> exists k, voter_emits hist pk k h r i) ->
    forall fx cfg ch parent hnum evs st res' a,
      process_evidences fx vf cfg ch parent hnum evs st = Some res' ->
      (forall pk, registered ch a pk -> voter_key hist pk) ->
      (forall ev pk, In ev evs -> registered ch a pk -> ~ finding_class fx (voter_emits hist) ev pk) ->
      find_val (s_vals (r_state res')) a = find_val (s_vals st) a /\ ~ In a (r_processed res').
Proof. exact voter_record_kept. Qed.
Print Assumptions C05_voter_record_kept.

(* The check run inside Coq on REAL voter lives (case mode MVotes: every vote a
   real Voter process on a real VoteDB sent over a life with restarts and
   crashes, [votes_ok]) is exactly the bound the composed theorems rest on:
   every history of the Voter model passes it.  A real life that fails it is
   outside the model - the harness then also feeds the offending pair to the
   real evidence path (oracle hit protocol-following-validator-slashed). *)
Theorem C05_voter_lives_pass_the_check :
  forall hs : history,
    votes_ok (votes_of (C3E.all_events (fst hs) C3.init_voter (snd hs))) = true.
Proof. exact history_votes_ok. Qed.
Print Assumptions C05_voter_lives_pass_the_check.

(* non-vacuity, and the open class exhibited INSIDE the voter model: the C03
   voter at (7,1) prevotes block 1 and - after a prevote quorum for block 2 -
   precommits block 2; with ideal signatures for exactly these two votes the
   evidence [(1, sig), (2, sig')] is accepted by the tree as it is *)
Example C05_nonvacuous_voter :
  C3E.all_events x_env C3.init_voter x_ops = [C3.ESend C2.Prevote 7 1 1 1 1; C3.ESend C2.Precommit 7 1 2 1 1]%N /\
  (forall pk h r i s, voter_key x_hist pk -> x_vf pk h r i s = true -> exists k, voter_emits x_hist pk k h r i) /\
  (exists res', process_evidences fx_now x_vf w_cfg x_chain 7 8 [x_evidence] w_state = Some res'
                /\ r_processed res' = [9%N]).
Proof. exact (conj x_history_events (conj x_ideal x_accepted)). Qed.
Print Assumptions C05_nonvacuous_voter.

(* ... and a validator on which doPenalize did not run keeps its ledger record *)
Theorem C05_honest_record_kept :
  forall (fx : fixes) (vf : vfun) (emits : N -> N -> N -> N -> N -> Prop) (honest : N -> Prop),
    (forall pk h r i s, honest pk -> vf pk h r i s = true -> exists k, emits pk k h r i) ->
    (forall pk k h h' r i, honest pk -> k <> next_index -> emits pk k h r i -> emits pk k h' r i -> h = h') ->
    forall cfg ch parent hnum evs st res' a,
      process_evidences fx vf cfg ch parent hnum evs st = Some res' ->
      (forall pk, registered ch a pk -> honest pk) ->
      (forall ev pk, In ev evs -> registered ch a pk -> ~ finding_class fx emits ev pk) ->
      find_val (s_vals (r_state res')) a = find_val (s_vals st) a /\ ~ In a (r_processed res').
Proof. exact honest_record_kept. Qed.
Print Assumptions C05_honest_record_kept.

(* class (a) was open before repair 0c3d6f7 and is closed by it (regression
   witness corpus/C05/w1_same_signature_twice.json) *)
Theorem C05_duplicate_class :
  (forall z, exists res', process_evidences (mkFix false z) w_vf w_cfg w_chain 10 11 [w_duplicate] w_state = Some res'
                          /\ In 9%N (r_processed res')) /\
  (forall z, exists res', process_evidences (mkFix true z) w_vf w_cfg w_chain 10 11 [w_duplicate] w_state = Some res'
                          /\ r_processed res' = [] /\ r_state res' = w_state).
Proof. exact (conj duplicate_accepted_without_repair duplicate_refused_with_repair). Qed.
Print Assumptions C05_duplicate_class.

(* ---- 2. real equivocation ---------------------------------------------------------------- *)

(* Two or more signs with two different hashes, every signature valid under the
   key of the validator the evidence names in the look-back set of the parent
   round, the validator present in the ledger and not yet dealt with in this
   block: the evidence is acted upon - the validator is offline and expelled
   for at least ExpelledRoundForDoubleSign rounds - and whenever something was
   taken the evidence is confirmed (it reaches the slash data) and the
   validator is reported as affected. *)
Theorem C05_real_equivocation_punished :
  forall fx vf cfg ch parent hnum ri idx vt signs res vs signer pk val,
    (2 <= length signs)%nat -> two_hashes signs = true ->
    lookback_set ch cfg parent (N.eqb vt vote_certificate) = Some vs ->
    nthN vs idx = Some signer -> lb_pk signer = Some pk ->
    (forall h s, In (h, s) signs -> vf pk h parent ri s = true) ->
    lb_addr signer <> 0%N -> ~ In (lb_addr signer) (r_processed res) ->
    find_val (s_vals (r_state res)) (lb_addr signer) = Some val -> v_stake val <> 0 ->
    let ev := EvDS parent ri idx vt signs in
    exists res' val' st' po,
      process_ds fx vf cfg ch parent hnum ev res = Some res' /\
      do_penalize cfg hnum (r_state res) val (amount_of cfg val) = Some (st', po) /\ r_state res' = st' /\
      find_val (s_vals (r_state res')) (lb_addr signer) = Some val' /\
      v_status val' = 0%N /\ v_expelled val' = true /\ (hnum + c_expel cfg <= v_expire val')%N /\
      In (lb_addr signer) (r_processed res') /\
      (0 < po_total po -> In ev (r_confirmed res') /\ In (lb_addr signer) (r_affected res')).
Proof. exact real_equivocation_punished. Qed.
Print Assumptions C05_real_equivocation_punished.

(* ---- 3. once ---------------------------------------------------------------------------------- *)

(* In one block doPenalize runs at most once per validator, each affected
   validator is reported once and has exactly one slashing log. *)
Theorem C05_once :
  forall fx vf cfg ch parent hnum evs st res',
    process_evidences fx vf cfg ch parent hnum evs st = Some res' ->
    NoDup (r_processed res') /\
    (forall a, In a (r_affected res') -> In a (r_processed res')) /\
    NoDup (r_affected res') /\ map l_addr (r_logs res') = r_affected res'.
Proof.
  exact (fun fx vf cfg ch parent hnum evs st res' H =>
           process_from_once fx vf cfg ch parent hnum evs _ _ H (once_inv_empty st)).
Qed.
Print Assumptions C05_once.

(* Whatever the evidence list (any number of evidences naming the validator,
   valid or not, in any order): a well-formed validator record loses at most
   floor(Token * PenaltyFractionForDoubleSign / 100) of its Token in one block. *)
Theorem C05_once_token_bound :
  forall fx vf cfg ch parent hnum evs st res' a v,
    process_evidences fx vf cfg ch parent hnum evs st = Some res' ->
    find_val (s_vals st) a = Some v -> wf_val v ->
    exists v', find_val (s_vals (r_state res')) a = Some v' /\
               v_token v' <= v_token v /\ v_token v - v_token v' <= Z.max 0 (amount_of cfg v).
Proof.
  exact (fun fx vf cfg ch parent hnum evs st res' a v H Hf Hwf =>
           token_bound fx vf cfg ch parent hnum evs _ _ a v H (NoDup_nil _) Hf Hwf).
Qed.
Print Assumptions C05_once_token_bound.

(* An evidence acts at one height only: unless its round is the parent's
   number, processing it leaves ledger, logs, confirmed and affected lists alone. *)
Theorem C05_one_height :
  forall fx vf cfg ch parent hnum r ri idx vt signs res res',
    r <> parent ->
    process_ds fx vf cfg ch parent hnum (EvDS r ri idx vt signs) res = Some res' ->
    (r_confirmed res', r_affected res', r_logs res', r_processed res', r_state res')
    = (r_confirmed res, r_affected res, r_logs res, r_processed res, r_state res).
Proof. exact other_round_no_effect. Qed.
Print Assumptions C05_one_height.

(* ---- 4. the bound ------------------------------------------------------------------------------- *)

(* takePenalty on a well-formed record (Stake > 0, Stake >= SelfStake + sum of
   delegation stakes, stakes non-negative, delegators distinct) with a positive
   amount: 0 <= total <= amount; total = what left the validator's Token plus
   what left the withdraw queue; every queue entry keeps its identity, only
   unfinished entries of this validator change, no balance grows, none turns
   negative; self token and every delegation only decrease and stay >= 0. *)
Theorem C05_bound :
  forall cfg q val amount po,
    wf_val val -> 0 < amount ->
    take_penalty cfg q val amount = Some po ->
    penalty_facts q val amount po.
Proof. exact take_penalty_facts. Qed.
Print Assumptions C05_bound.

(* ... and every party pays at most its share: the validator's own sources
   (self token + its own unfinished withdrawals) lose at most
   per*SelfStake + remainder + risk obligation, the sources of delegator k
   (delegation + k's unfinished withdrawals from this validator) at most
   per*stake_k, where per = (amount - obligation) quo Stake. *)
Theorem C05_shares :
  forall cfg q val amount po,
    wf_val val -> 0 < amount ->
    take_penalty cfg q val amount = Some po ->
    let va := v_addr val in
    (v_self_token val - v_self_token (po_val po)) + (qsum_k va 0%N q - qsum_k va 0%N (po_queue po))
      <= self_share cfg val amount /\
    forall k, k <> 0%N ->
      (dtok (v_dlgs val) k - dtok (v_dlgs (po_val po)) k) + (qsum_k va k q - qsum_k va k (po_queue po))
      <= per_of cfg val amount * sstake (v_dlgs val) k.
Proof. exact take_penalty_shares. Qed.
Print Assumptions C05_shares.

(* doPenalize: the validator ends offline and expelled until at least
   header+ExpelledRoundForDoubleSign, only its record is replaced, and the
   penalty account receives exactly totalPenalty. *)
Theorem C05_penalize_effects :
  forall cfg hnum st val amount st' po,
    do_penalize cfg hnum st val amount = Some (st', po) ->
    penalize_facts cfg hnum st val amount st' po.
Proof. exact do_penalize_facts. Qed.
Print Assumptions C05_penalize_effects.

(* ---- 5. builder and validator ------------------------------------------------------------------- *)

(* MAIN (tree as it is, fx_zero = true, repair e1d256e; parent height taken
   from the header, ec9154c): for every pool, ledger and chain the validator's
   replay of the slash data the builder wrote, on the same parent state, yields
   the same ledger, logs, affected and confirmed lists. *)
Theorem C05_builder_validator :
  forall vf cfg ch hnum pool st res pend sd,
    slashing fx_now vf cfg ch hnum pool st = Some (res, pend, sd) ->
    exists res2,
      replay_slashing fx_now vf cfg ch hnum sd st = Some (res2, false) /\
      r_state res2 = r_state res /\ r_logs res2 = r_logs res /\
      r_affected res2 = r_affected res /\ r_confirmed res2 = r_confirmed res.
Proof.
  exact (fun vf cfg ch hnum pool st res pend sd =>
           builder_validator_agree_repaired fx_now vf cfg ch hnum pool st res pend sd eq_refl).
Qed.
Print Assumptions C05_builder_validator.

(* general version: without the repair it holds provided doPenalize never ran
   with nothing taken (every processed validator is an affected one) *)
Theorem C05_builder_validator_outside :
  forall fx vf cfg ch hnum pool st res pend sd,
    slashing fx vf cfg ch hnum pool st = Some (res, pend, sd) ->
    (fx_zero fx = true \/ length (r_processed res) = length (r_affected res)) ->
    exists res2,
      replay_slashing fx vf cfg ch hnum sd st = Some (res2, false) /\
      r_state res2 = r_state res /\ r_logs res2 = r_logs res /\
      r_affected res2 = r_affected res /\ r_confirmed res2 = r_confirmed res.
Proof. exact builder_validator_agree. Qed.
Print Assumptions C05_builder_validator_outside.

(* ... and was false without it: penalty fraction 0, a real equivocation - the
   builder expels validator 9, the replay does not (regression witness
   corpus/C05/w4_zero_penalty_builder_only.json) *)
Theorem C05_builder_validator_refuted_before_repair :
  forall d, exists res pend sd res2,
    slashing (mkFix d false) w_vf w_cfg0 w_chain 11 [w_equivocation] w_state = Some (res, pend, sd) /\
    replay_slashing (mkFix d false) w_vf w_cfg0 w_chain 11 sd w_state = Some (res2, false) /\
    find_val (s_vals (r_state res)) 9%N <> find_val (s_vals (r_state res2)) 9%N.
Proof. exact builder_validator_refuted_without_repair. Qed.
Print Assumptions C05_builder_validator_refuted_before_repair.

(* ---- 6. bridge: the constants of the working tree ------------------------------------------------ *)
Theorem C05_real_params_ok :
  (0 < real_stake_unit) /\ (0 < real_rate_base)%N /\
  forall f, In f real_fractions -> (f <= 100)%N.
Proof. exact real_params_ok. Qed.
Print Assumptions C05_real_params_ok.

Theorem C05_vote_kinds_agree :
  real_kinds_ucon = real_kinds_staking /\
  real_kinds_staking = [2%N; 3%N; 4%N; vote_certificate].
Proof. exact real_kinds_agree. Qed.
Print Assumptions C05_vote_kinds_agree.

(* the tree under test is the repaired setting the main theorems are stated for
   (measured by the harness on the real code before every build) *)
Theorem C05_tree_is_repaired : mkFix real_fx_distinct real_fx_zero = fx_now.
Proof. exact real_tree_is_repaired. Qed.
Print Assumptions C05_tree_is_repaired.

(* ---- non-vacuity ------------------------------------------------------------------------------------ *)

(* the hypotheses on signatures and honest emissions are satisfiable together
   with an accepted finding-class evidence and a refused forgery *)
Example C05_nonvacuous_honest :
  (forall pk h r i s, pk = 1%N -> w_vf pk h r i s = true -> exists k, w_emits pk k h r i) /\
  (exists res', process_evidences (mkFix true true) w_vf w_cfg w_chain 10 11 [w_cross_kind] w_state = Some res'
                /\ r_processed res' = [9%N]) /\
  (exists res', process_evidences (mkFix true true) w_vf w_cfg w_chain 10 11
                  [EvDS 10 1 0 2 [(5%N, 77%N); (6%N, 99%N)]] w_state = Some res'
                /\ r_processed res' = [] /\ r_state res' = w_state).
Proof.
  split; [|split].
  - intros pk h r i s -> Hv. unfold w_vf in Hv.
    apply andb_prop in Hv as [Hv H4]. apply andb_prop in Hv as [Hv H3]. apply andb_prop in Hv as [_ H2].
    apply N.eqb_eq in H2, H3. apply orb_prop in H4 as [H4|H4]; apply andb_prop in H4 as [H4 _]; apply N.eqb_eq in H4.
    + exists 2%N. unfold w_emits. tauto.
    + exists 3%N. unfold w_emits. tauto.
  - eexists; split; vm_compute; reflexivity.
  - eexists; split; [vm_compute; reflexivity|split; reflexivity].
Qed.
Print Assumptions C05_nonvacuous_honest.

(* a well-formed record with a delegation and queue entries of all kinds; 2 % are taken
   from the unfinished withdrawals first, then from self stake and delegation *)
Definition ex_val : validator :=
  mkVal 1%N 1 false 0 14000000000000000000 14 10000000000000000000 10 0
        [mkDlg 1001%N 4 4000000000000000000].
Definition ex_queue : list wrec :=
  [mkW 0%N 1%N 0 100000000000000000; mkW 1001%N 1%N 0 50000000000000000; mkW 0%N 1%N 1 7; mkW 0%N 2%N 0 9].
Example C05_nonvacuous_bound :
  wf_val ex_val /\
  exists po, take_penalty w_cfg ex_queue ex_val 280000000000000000 = Some po /\
             po_total po = 280000000000000000 /\
             po_queue po = [mkW 0%N 1%N 0 0; mkW 1001%N 1%N 0 0; mkW 0%N 1%N 1 7; mkW 0%N 2%N 0 9] /\
             v_token (po_val po) = 13870000000000000000 /\ v_stake (po_val po) = 12.
Proof.
  split.
  - unfold wf_val, ex_val. simpl. repeat split; try lia.
    + intros d [<-|[]]. simpl. lia.
    + constructor; [simpl; tauto|constructor].
  - eexists. split; [vm_compute; reflexivity|]. simpl. repeat split; reflexivity.
Qed.
Print Assumptions C05_nonvacuous_bound.

(* the builder confirms a real equivocation and the replay agrees *)
Example C05_nonvacuous_builder :
  exists res pend sd,
    slashing fx_now w_vf w_cfg w_chain 11 [w_equivocation; w_duplicate; w_equivocation] w_state = Some (res, pend, sd) /\
    sd = SDList [w_equivocation] /\ r_affected res = [9%N] /\
    length (r_processed res) = length (r_affected res) /\
    s_penalty_to (r_state res) = 200000000000000000.
Proof. do 3 eexists. split; [vm_compute; reflexivity|]. repeat split; reflexivity. Qed.
Print Assumptions C05_nonvacuous_builder.
