(* C05 - per-source shares: what takePenalty takes from the validator's own
   sources (self token + own unfinished withdrawals) and from each delegator's
   sources (delegation + that delegator's unfinished withdrawals) never exceeds
   the share computed for that party. *)
From Coq Require Import Lia ZArith NArith List Bool.
From Coq Require Import ZifyBool ZifyN ZifyNat.
From VF.C05 Require Import Model ProofsPenalty.
Local Open Scope Z_scope.

(* an unfinished withdrawal of validator va by party k (0 = the validator itself) *)
Definition own_rec (va k : addr) (r : wrec) : bool :=
  N.eqb (w_validator r) va && N.eqb (w_finished r) 0%N && N.eqb (w_delegator r) k.

Definition qsum_k (va k : addr) (q : list wrec) : Z :=
  fold_right (fun r a => (if own_rec va k r then w_final r else 0) + a) 0 q.

Definition dtok (ds : list dlg) (k : addr) : Z :=
  fold_right (fun d a => (if N.eqb (d_from d) k then d_token d else 0) + a) 0 ds.
Definition sstake (ds : list dlg) (k : addr) : Z :=
  fold_right (fun d a => (if N.eqb (d_from d) k then d_stake d else 0) + a) 0 ds.
Definition kcount (ds : list dlg) (k : addr) : Z :=
  fold_right (fun d a => (if N.eqb (d_from d) k then 1 else 0) + a) 0 ds.

Lemma getd_set_same m k v : getd (map_set m k v) k = v.
Proof.
  unfold getd. induction m as [|[k' v'] r IH]; simpl.
  - rewrite N.eqb_refl. reflexivity.
  - destruct (N.eqb k' k) eqn:E; simpl.
    + rewrite N.eqb_refl. reflexivity.
    + rewrite E. exact IH.
Qed.

Lemma getd_set_other m k v j : j <> k -> getd (map_set m k v) j = getd m j.
Proof.
  intros Hne. unfold getd. induction m as [|[k' v'] r IH]; simpl.
  - destruct (N.eqb k j) eqn:E; [apply N.eqb_eq in E; congruence|reflexivity].
  - destruct (N.eqb k' k) eqn:E; simpl.
    + apply N.eqb_eq in E. subst k'.
      destruct (N.eqb k j) eqn:E2; [apply N.eqb_eq in E2; congruence|reflexivity].
    + destruct (N.eqb k' j); [reflexivity|exact IH].
Qed.

(* ---- withdraw loop, per party ------------------------------------------------------- *)
Definition dec_k (va k : addr) (r r' : wrec) : Z :=
  if own_rec va k r then w_final r - w_final r' else 0.

Lemma withdraw_step_share va pos r s r' s' lg :
  withdraw_step va pos r s = (r', s', lg) ->
  (forall k, own_rec va k r' = own_rec va k r) /\
  t_self s' = t_self s - dec_k va 0%N r r' /\
  (0 <= t_self s -> 0 <= t_self s') /\
  (forall k, k <> 0%N ->
     getd (t_dmap s') k = getd (t_dmap s) k - dec_k va k r r' /\
     (0 <= getd (t_dmap s) k -> 0 <= getd (t_dmap s') k)).
Proof.
  unfold withdraw_step, dec_k, own_rec.
  destruct (negb (N.eqb (w_validator r) va) || negb (N.eqb (w_finished r) 0%N)) eqn:Eg.
  { intros H; injection H as <- <- <-.
    apply orb_true_iff in Eg.
    assert (Hf : N.eqb (w_validator r) va && N.eqb (w_finished r) 0%N = false).
    { destruct Eg as [Eg|Eg]; apply negb_true_iff in Eg; rewrite Eg; [reflexivity|apply andb_false_r]. }
    rewrite Hf. simpl. repeat split; intros; lia. }
  apply orb_false_elim in Eg as [Ev Ef].
  apply negb_false_iff in Ev, Ef. rewrite Ev, Ef. simpl.
  destruct (N.eqb (w_delegator r) 0%N) eqn:Eo.
  - (* the validator's own withdrawal *)
    assert (Hk : forall k, k <> 0%N -> N.eqb (w_delegator r) k = false).
    { intros k Hk. apply N.eqb_eq in Eo. apply N.eqb_neq. congruence. }
    destruct (Z.leb (t_self s) 0) eqn:E1.
    { intros H; injection H as <- <- <-. try rewrite Eo. repeat split; intros; try rewrite Hk by assumption; lia. }
    destruct (Z.ltb 0 (set_actual (w_final r) (t_self s))) eqn:E2; intros H; injection H as <- <- <-; simpl.
    + try rewrite Ev; try rewrite Ef; try rewrite Eo. simpl.
      unfold set_actual in *. destruct (Z.leb (t_self s) (w_final r)) eqn:E3;
        repeat split; intros; try rewrite Hk by assumption; lia.
    + try rewrite Eo. repeat split; intros; try rewrite Hk by assumption; lia.
  - (* a delegator's withdrawal *)
    apply N.eqb_neq in Eo.
    destruct (map_get (t_dmap s) (w_delegator r)) as [ra|] eqn:Eg.
    2:{ intros H; injection H as <- <- <-.
        assert (E0 : N.eqb (w_delegator r) 0%N = false) by (apply N.eqb_neq; assumption).
        try rewrite E0. repeat split; intros; try lia.
        destruct (N.eqb (w_delegator r) k); lia. }
    assert (E0 : N.eqb (w_delegator r) 0%N = false) by (apply N.eqb_neq; assumption).
    assert (Hra : getd (t_dmap s) (w_delegator r) = ra) by (unfold getd; rewrite Eg; reflexivity).
    destruct (Z.leb ra 0) eqn:E1.
    { intros H; injection H as <- <- <-. try rewrite E0. repeat split; intros; try lia.
      destruct (N.eqb (w_delegator r) k); lia. }
    destruct (Z.ltb 0 (set_actual (w_final r) ra)) eqn:E2; intros H; injection H as <- <- <-; simpl.
    + try rewrite Ev; try rewrite Ef; try rewrite E0. simpl. split; [reflexivity|]. split; [lia|]. split; [lia|].
      intros k Hk. destruct (N.eqb (w_delegator r) k) eqn:Ek.
      * apply N.eqb_eq in Ek. subst k. rewrite getd_set_same, Hra.
        unfold set_actual in *. destruct (Z.leb ra (w_final r)) eqn:E3; split; lia.
      * apply N.eqb_neq in Ek. rewrite getd_set_other by congruence. split; lia.
    + try rewrite E0. repeat split; intros; try lia.
      destruct (N.eqb (w_delegator r) k); lia.
Qed.

Lemma withdraw_loop_share va : forall q pos s q' s' l,
  withdraw_loop va pos q s = (q', s', l) ->
  t_self s' = t_self s - (qsum_k va 0%N q - qsum_k va 0%N q') /\
  (0 <= t_self s -> 0 <= t_self s') /\
  (forall k, k <> 0%N ->
     getd (t_dmap s') k = getd (t_dmap s) k - (qsum_k va k q - qsum_k va k q') /\
     (0 <= getd (t_dmap s) k -> 0 <= getd (t_dmap s') k)).
Proof.
  induction q as [|r rest IH]; intros pos s q' s' l H; simpl in H.
  - injection H as <- <- <-. simpl. repeat split; intros; lia.
  - destruct (Z.leb (t_pa s) 0) eqn:Ep.
    + injection H as <- <- <-. repeat split; intros; lia.
    + destruct (withdraw_step va pos r s) as [[r1 s1] lg] eqn:Es.
      destruct (withdraw_loop va (pos + 1)%N rest s1) as [[q1 s2] l1] eqn:El.
      injection H as <- <- <-.
      apply withdraw_step_share in Es as (Hown & Hs1 & Hn1 & Hd1).
      apply IH in El as (Hs2 & Hn2 & Hd2).
      unfold dec_k in *. simpl. rewrite !Hown.
      split; [|split].
      * destruct (own_rec va 0%N r); lia.
      * auto.
      * intros k Hk. rewrite Hown. destruct (Hd1 k Hk) as [A1 A2]. destruct (Hd2 k Hk) as [B1 B2].
        split; [destruct (own_rec va k r); lia|auto].
Qed.

(* ---- delegations loop, per delegator ---------------------------------------------------- *)
Lemma dlg_step_share unit dmap d s od s' lg k :
  dlg_step unit dmap d s = (od, s', lg) ->
  let before := if N.eqb (d_from d) k then d_token d else 0 in
  let after := match od with Some d' => if N.eqb (d_from d') k then d_token d' else 0 | None => 0 end in
  0 <= before - after /\
  before - after <= (if N.eqb (d_from d) k then max0 (getd dmap k) else 0).
Proof.
  intros H. pose proof (dlg_step_inv _ _ _ _ _ _ _ H) as (H0 & H1 & _ & _ & _ & _ & H6).
  simpl in *. destruct od as [d'|]; simpl in *.
  - rewrite H6. destruct (N.eqb (d_from d) k) eqn:E; [|lia].
    apply N.eqb_eq in E. subst k. lia.
  - destruct (N.eqb (d_from d) k) eqn:E; [|lia].
    apply N.eqb_eq in E. subst k. lia.
Qed.

Lemma dtok_opt_cons o l k :
  dtok (opt_cons o l) k = match o with Some d' => if N.eqb (d_from d') k then d_token d' else 0 | None => 0 end + dtok l k.
Proof. destruct o; simpl; lia. Qed.

Lemma dlg_loop_share unit dmap k : forall ds s ds' s' l,
  dlg_loop unit dmap ds s = (ds', s', l) ->
  0 <= dtok ds k - dtok ds' k /\ dtok ds k - dtok ds' k <= kcount ds k * max0 (getd dmap k).
Proof.
  induction ds as [|d rest IH]; intros s ds' s' l H; simpl in H.
  - injection H as <- <- <-. simpl. lia.
  - destruct (Z.leb (p_pa s) 0) eqn:Ep.
    + injection H as <- <- <-.
      assert (0 <= kcount (d :: rest) k).
      { clear. induction (d :: rest) as [|x r IH]; simpl; [lia|]. destruct (N.eqb (d_from x) k); lia. }
      pose proof (max0_nonneg (getd dmap k)). nia.
    + destruct (dlg_step unit dmap d s) as [[od s1] lg] eqn:Es.
      destruct (dlg_loop unit dmap rest s1) as [[ds1 s2] l1] eqn:El.
      injection H as <- <- <-.
      apply (dlg_step_share _ _ _ _ _ _ _ k) in Es. simpl in Es. destruct Es as [S1 S2].
      apply IH in El as [I1 I2].
      rewrite dtok_opt_cons. simpl.
      destruct (N.eqb (d_from d) k); lia.
Qed.

Lemma kcount_nodup ds k : NoDup (map d_from ds) -> 0 <= kcount ds k <= 1.
Proof.
  induction ds as [|d r IH]; simpl; intros Hnd; [lia|].
  inversion Hnd; subst. specialize (IH H2).
  destruct (N.eqb (d_from d) k) eqn:E; [|lia].
  apply N.eqb_eq in E. subst k.
  assert (kcount r (d_from d) = 0).
  { clear - H1. induction r as [|x r IH]; simpl; [reflexivity|].
    destruct (N.eqb (d_from x) (d_from d)) eqn:E.
    - apply N.eqb_eq in E. exfalso. apply H1. simpl. left. assumption.
    - rewrite IH; [reflexivity|]. intros Hin. apply H1. simpl. right. assumption. }
  lia.
Qed.

(* ---- the initial shares ------------------------------------------------------------------- *)
Lemma getd_fold_bound per k : 0 <= per -> forall ds m,
  (forall d, In d ds -> 0 <= d_stake d) -> 0 <= getd m k ->
  0 <= getd (fold_left (fun m d => map_set m (d_from d) (per * d_stake d)) ds m) k
  <= getd m k + per * sstake ds k.
Proof.
  intros Hp. induction ds as [|d r IH]; intros m Hall Hm; simpl.
  - lia.
  - assert (Hd : 0 <= d_stake d) by (apply Hall; left; reflexivity).
    destruct (N.eqb (d_from d) k) eqn:E.
    + apply N.eqb_eq in E. subst k.
      specialize (IH (map_set m (d_from d) (per * d_stake d))).
      rewrite getd_set_same in IH.
      destruct IH as [I1 I2]; [intros; apply Hall; right; assumption|nia|]. nia.
    + apply N.eqb_neq in E.
      specialize (IH (map_set m (d_from d) (per * d_stake d))).
      rewrite getd_set_other in IH by congruence.
      destruct IH as [I1 I2]; [intros; apply Hall; right; assumption|assumption|]. lia.
Qed.

(* ---- shares of takePenalty ------------------------------------------------------------------- *)
Definition obligation_of (cfg : config) (val : validator) (amount : Z) : Z :=
  if N.ltb 0 (v_risk val) && N.leb (v_risk val) (c_rate_base cfg)
  then amount * Z.of_N (v_risk val) / Z.of_N (c_rate_base cfg) else 0.
Definition per_of (cfg : config) (val : validator) (amount : Z) : Z :=
  Z.quot (amount - obligation_of cfg val amount) (v_stake val).
Definition self_share (cfg : config) (val : validator) (amount : Z) : Z :=
  per_of cfg val amount * v_self_stake val
  + Z.rem (amount - obligation_of cfg val amount) (v_stake val) + obligation_of cfg val amount.

Theorem take_penalty_shares cfg q val amount po :
  wf_val val -> 0 < amount ->
  take_penalty cfg q val amount = Some po ->
  let va := v_addr val in
  (* the validator's own sources *)
  (v_self_token val - v_self_token (po_val po)) + (qsum_k va 0%N q - qsum_k va 0%N (po_queue po))
    <= self_share cfg val amount /\
  (* every delegator's sources *)
  forall k, k <> 0%N ->
    (dtok (v_dlgs val) k - dtok (v_dlgs (po_val po)) k) + (qsum_k va k q - qsum_k va k (po_queue po))
    <= per_of cfg val amount * sstake (v_dlgs val) k.
Proof.
  intros (Hst & Hss & Hds & Hnd & Hsum) Ha.
  unfold take_penalty, self_share, per_of, obligation_of.
  set (obligation := if N.ltb 0 (v_risk val) && N.leb (v_risk val) (c_rate_base cfg)
                     then amount * Z.of_N (v_risk val) / Z.of_N (c_rate_base cfg) else 0).
  assert (Hob : 0 <= obligation <= amount).
  { unfold obligation. destruct (N.ltb 0 (v_risk val) && N.leb (v_risk val) (c_rate_base cfg)) eqn:E; [|lia].
    apply andb_prop in E as [E1 E2]. apply N.ltb_lt in E1. apply N.leb_le in E2.
    apply obligation_bounds; lia. }
  set (curr := amount - obligation).
  destruct (Z.eqb (v_stake val) 0) eqn:E0; [discriminate|].
  set (per := Z.quot curr (v_stake val)).
  set (rem := Z.rem curr (v_stake val)).
  assert (Hcurr : 0 <= curr) by (unfold curr; lia).
  assert (Hper : 0 <= per) by (apply Z.quot_pos; lia).
  assert (Hrem : 0 <= rem) by (apply Z.rem_nonneg; lia).
  set (selfp := per * v_self_stake val + rem + obligation).
  assert (Hselfp : 0 <= selfp) by (unfold selfp; nia).
  set (dmap := fold_left (fun m d => map_set m (d_from d) (per * d_stake d)) (v_dlgs val) []).
  assert (Hdm : forall k, 0 <= getd dmap k <= per * sstake (v_dlgs val) k).
  { intros k. pose proof (getd_fold_bound per k Hper (v_dlgs val) [] Hds) as H.
    assert (Hz : getd [] k = 0) by reflexivity. rewrite Hz in H.
    assert (H0 : 0 <= 0) by lia. specialize (H H0). fold dmap in H. lia. }
  destruct (withdraw_loop (v_addr val) 0%N q (mkTp amount 0 selfp dmap 0)) as [[q' s] wl] eqn:Ew.
  apply withdraw_loop_share in Ew as (Wself & Wnn & Wd). simpl in Wself, Wnn, Wd.
  specialize (Wnn Hselfp).
  destruct (Z.ltb 0 (t_pa s)) eqn:Epa.
  2:{ intros H; injection H as <-. simpl. split; [lia|].
      intros k Hk. destruct (Wd k Hk) as [W1 W2]. specialize (Hdm k). specialize (W2 ltac:(lia)). lia. }
  set (f0 := set_actual (v_self_token val) (t_self s)).
  set (take_self := Z.ltb 0 (t_self s) && Z.ltb 0 f0).
  match goal with |- context [dlg_loop ?u ?m ?ds ?s0] => destruct (dlg_loop u m ds s0) as [[ds' s1] pl] eqn:Ed end.
  intros H; injection H as <-. simpl. split.
  - destruct take_self eqn:Ets.
    + apply andb_prop in Ets as [T1 T2].
      assert (f0 <= t_self s).
      { unfold f0, set_actual. destruct (Z.leb (t_self s) (v_self_token val)) eqn:E; lia. }
      lia.
    + lia.
  - intros k Hk. destruct (Wd k Hk) as [W1 W2]. specialize (Hdm k). specialize (W2 ltac:(lia)).
    pose proof (dlg_loop_share _ _ k _ _ _ _ _ Ed) as [D1 D2].
    pose proof (kcount_nodup _ k Hnd) as Hc.
    assert (Hc01 : kcount (v_dlgs val) k = 0 \/ kcount (v_dlgs val) k = 1) by lia.
    clear - D1 D2 W1 W2 Hdm Hc01.
    unfold max0 in D2. destruct Hc01 as [Hc0|Hc1]; [rewrite Hc0 in D2|rewrite Hc1 in D2]; lia.
Qed.
