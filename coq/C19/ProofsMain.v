(* C19 - the property-level lemmas: closedness of the database at every point
   of every history, completeness when nothing is pending, identical content,
   rejection of unrequested data, and the witness of the finding class. *)
From VF.C19 Require Import Model Proofs ProofsInv.
From Coq Require Import Lia ZifyBool ZifyN ZifyNat.
Local Open Scope N_scope.

Section Main.
Variable H : blob -> hash.
Variable dec : blob -> option nodeview.
Variable cb0 : bool.
Variable root : hash.

(* everything reachable from h is present *)
Inductive Complete (l : store) : hash -> Prop :=
| Complete_node : forall h b, get l h = Some b ->
    (forall nv, dec b = Some nv -> forall c, In c (required cb0 nv) -> Complete l c) ->
    Complete l h.

Definition injective : Prop := forall b b', H b = H b' -> b = b'.
Definition hash_ok (l : store) : Prop := forall h b, get l h = Some b -> H b = h.

Lemma OC_In_hash : forall l h b, OC H dec cb0 l -> In (h, b) l -> H b = h.
Proof.
  induction l as [|[k b0] l IH]; intros h b O I; cbn [OC In] in *; [destruct I|].
  destruct O as (E & _ & O). destruct I as [I|I]; [injection I as <- <-; assumption | eauto].
Qed.

Lemma OC_hash_ok : forall l, OC H dec cb0 l -> hash_ok l.
Proof. intros l O h b G. eapply OC_In_hash; eauto. now apply get_In. Qed.

Lemma OC_complete_suffix : injective -> forall l, OC H dec cb0 l ->
  forall S A, l = A ++ S -> forall h, has S h = true -> Complete l h.
Proof.
  intros INJ l O. induction S as [|[k b] S1 IH]; intros A E h X.
  - discriminate X.
  - unfold has in X. cbn [get] in X. destruct (N.eqb k h) eqn:EK.
    + apply N.eqb_eq in EK. subst k.
      assert (HL : has l h = true).
      { rewrite E, has_app. unfold has at 2. cbn [get]. rewrite N.eqb_refl. apply orb_true_r. }
      destruct (has_get _ _ HL) as (b' & G).
      assert (b' = b).
      { apply INJ. rewrite (OC_In_hash l h b' O (get_In _ _ _ G)).
        symmetry. apply (OC_In_hash l h b O). rewrite E. apply in_or_app. right. now left. }
      subst b'. apply (Complete_node l h b G).
      intros nv Dn c I.
      assert (OS : OC H dec cb0 ((h, b) :: S1)) by (rewrite E in O; eapply OC_app_r; eauto).
      cbn [OC] in OS. destruct OS as (_ & Cl & _).
      apply (IH (A ++ [(h, b)])); [rewrite <- app_assoc; exact E | eapply Cl; eauto].
    + apply (IH (A ++ [(k, b)])); [rewrite <- app_assoc; exact E | exact X].
Qed.

Lemma OC_complete : injective -> forall l, OC H dec cb0 l ->
  forall h, has l h = true -> Complete l h.
Proof. intros INJ l O h X. apply (OC_complete_suffix INJ l O l []); auto. Qed.

(* reachability inside a store, and agreement of two stores on a closure *)
Inductive Reach (l : store) : hash -> hash -> Prop :=
| reach_refl : forall h, Reach l h h
| reach_step : forall h b nv c x, get l h = Some b -> dec b = Some nv ->
    In c (required cb0 nv) -> Reach l c x -> Reach l h x.

Lemma same_closure : injective -> forall db src, hash_ok db -> hash_ok src ->
  forall r, Complete db r -> Complete src r ->
  forall x, (Reach db r x <-> Reach src r x) /\ (Reach db r x -> get db x = get src x).
Proof.
  intros INJ db src HD HS r CD. induction CD as [h b G _ IH]. intros CS x.
  inversion CS as [h' b' G' K']; subst h'.
  assert (b' = b) by (apply INJ; rewrite (HD _ _ G), (HS _ _ G'); reflexivity). subst b'.
  assert (STEP : forall nv c, dec b = Some nv -> In c (required cb0 nv) ->
            (Reach db c x <-> Reach src c x) /\ (Reach db c x -> get db x = get src x)).
  { intros nv c Dn I. apply (IH nv Dn c I). eapply K'; eauto. }
  split; [split|].
  - intro R. inversion R as [|h0 b0 nv c x0 G0 Dn I R']; subst.
    + apply reach_refl.
    + rewrite G in G0. injection G0 as <-. eapply reach_step; eauto. now apply (STEP nv c Dn I).
  - intro R. inversion R as [|h0 b0 nv c x0 G0 Dn I R']; subst.
    + apply reach_refl.
    + rewrite G' in G0. injection G0 as <-. eapply reach_step; eauto. now apply (STEP nv c Dn I).
  - intro R. inversion R as [|h0 b0 nv c x0 G0 Dn I R']; subst.
    + congruence.
    + rewrite G in G0. injection G0 as <-. now apply (STEP nv c Dn I).
Qed.

(* ---- histories ------------------------------------------------------------------ *)
Hypothesis Hz : no_zero H.
Hypothesis K1 : raw_node_separate H dec cb0.
Hypothesis K2 : storage_account_separate H dec cb0.

Notation RUN db0 ops := (run H dec root cb0 db0 ops).

Lemma closed_always : forall db0 ops, OC H dec cb0 db0 -> Forall (honest_op H) ops ->
  OC H dec cb0 (store_of (RUN db0 ops)) /\
  forall k, OC H dec cb0 (rev (firstn k (s_mem (RUN db0 ops))) ++ s_db (RUN db0 ops)).
Proof.
  intros db0 ops O HO. pose proof (run_inv H dec cb0 root Hz K1 K2 db0 ops O HO) as W.
  pose proof (w_oc _ _ _ _ _ _ _ _ W) as OS. split; [assumption|].
  intro k. unfold store_of in OS.
  rewrite <- (firstn_skipn k (s_mem (RUN db0 ops))) in OS at 1.
  rewrite rev_app_distr, <- app_assoc in OS. eapply OC_app_r; eauto.
Qed.

Lemma never_partial : injective -> forall db0 ops, OC H dec cb0 db0 -> Forall (honest_op H) ops ->
  forall k h, has (rev (firstn k (s_mem (RUN db0 ops))) ++ s_db (RUN db0 ops)) h = true ->
    Complete (rev (firstn k (s_mem (RUN db0 ops))) ++ s_db (RUN db0 ops)) h.
Proof.
  intros INJ db0 ops O HO k h X. apply OC_complete; auto. now apply closed_always.
Qed.

Lemma complete_when_idle : injective -> forall db0 ops, OC H dec cb0 db0 -> Forall (honest_op H) ops ->
  pending (RUN db0 ops) = 0 ->
  root = empty_root \/ Complete (store_of (RUN db0 ops)) root.
Proof.
  intros INJ db0 ops O HO P. pose proof (run_inv H dec cb0 root Hz K1 K2 db0 ops O HO) as W.
  unfold pending in P. destruct (s_reqs (RUN db0 ops)) eqn:E; [|cbn [length] in P; lia].
  destruct (w_root _ _ _ _ _ _ _ _ W) as [X|[(r & X)|X]].
  - now left.
  - rewrite E in X. discriminate X.
  - right. apply OC_complete; auto. apply (w_oc _ _ _ _ _ _ _ _ W).
Qed.

Lemma complete_after_commit : injective -> forall db0 ops, OC H dec cb0 db0 -> Forall (honest_op H) ops ->
  pending (RUN db0 (ops ++ [OCommit None])) = 0 ->
  root = empty_root \/ Complete (s_db (RUN db0 (ops ++ [OCommit None]))) root.
Proof.
  intros INJ db0 ops O HO P.
  assert (HO' : Forall (honest_op H) (ops ++ [OCommit None])).
  { apply Forall_app. split; [assumption | constructor; [exact I | constructor]]. }
  destruct (complete_when_idle INJ db0 _ O HO' P) as [X|X]; [now left | right].
  assert (M : s_mem (RUN db0 (ops ++ [OCommit None])) = []).
  { unfold run. rewrite fold_left_app. cbn [fold_left step commit_db fst s_mem]. reflexivity. }
  unfold store_of in X. rewrite M in X. exact X.
Qed.

Lemma complete_both : injective -> forall db0 ops, OC H dec cb0 db0 -> Forall (honest_op H) ops ->
  (pending (RUN db0 ops) = 0 -> root = empty_root \/ Complete (store_of (RUN db0 ops)) root) /\
  (pending (RUN db0 (ops ++ [OCommit None])) = 0 ->
   root = empty_root \/ Complete (s_db (RUN db0 (ops ++ [OCommit None]))) root).
Proof.
  intros INJ db0 ops O HO. split; [now apply complete_when_idle | now apply complete_after_commit].
Qed.

End Main.

(* ---- wrong data: holds in every scheduler state ---------------------------------- *)

Lemma unrequested_rejected : forall H dec s b,
  find_req (s_reqs s) (H b) = None ->
  deliver H dec s b = (s, (false, 0, ENotRequested)).
Proof. intros H dec s b F. unfold deliver, process. cbn [process_from]. rewrite F. reflexivity. Qed.

Lemma undecodable_rejected : forall H dec s b r,
  find_req (s_reqs s) (H b) = Some r -> r_data r = None -> r_raw r = false -> dec b = None ->
  deliver H dec s b = (s, (false, 0, EDecode)).
Proof.
  intros H dec s b r F D R Dn. unfold deliver, process. cbn [process_from].
  rewrite F, D, R, Dn. reflexivity.
Qed.

Lemma duplicate_rejected : forall H dec s b r x,
  find_req (s_reqs s) (H b) = Some r -> r_data r = Some x ->
  deliver H dec s b = (s, (false, 0, EAlready)).
Proof.
  intros H dec s b r x F D. unfold deliver, process. cbn [process_from]. rewrite F, D. reflexivity.
Qed.

Lemma wrong_data_all : forall H dec s b,
    (find_req (s_reqs s) (H b) = None -> deliver H dec s b = (s, (false, 0, ENotRequested))) /\
    (forall r, find_req (s_reqs s) (H b) = Some r -> r_data r = None -> r_raw r = false -> dec b = None ->
               deliver H dec s b = (s, (false, 0, EDecode))) /\
    (forall r x, find_req (s_reqs s) (H b) = Some r -> r_data r = Some x ->
                 deliver H dec s b = (s, (false, 0, EAlready))).
Proof.
  intros H dec s b. split; [exact (unrequested_rejected H dec s b)|]. split.
  - intro r. exact (undecodable_rejected H dec s b r).
  - intros r x. exact (duplicate_rejected H dec s b r x).
Qed.

(* ---- the finding class: a raw entry whose bytes decode as a node with children ---- *)

Definition wH (b : blob) : hash := b + 10.
(* blob 1 = state root (two children), 2 = account A (code hash 14), 3 = account B
   (storage root 14), 4 = B's storage root node = A's code, 5 = the storage leaf *)
Definition wdec (b : blob) : option nodeview :=
  if N.eqb b 1 then Some (mkNode [12; 13] 1 None)
  else if N.eqb b 2 then Some (mkNode [] 63 (Some (PAcct (mkAcct empty_root 14 0 0))))
  else if N.eqb b 3 then Some (mkNode [] 63 (Some (PAcct (mkAcct 14 empty_state 0 0))))
  else if N.eqb b 4 then Some (mkNode [15] 1 None)
  else if N.eqb b 5 then Some (mkNode [] 63 (Some PErr))
  else None.
Definition wops : list op := [ODeliver 1; ODeliver 2; ODeliver 4; ODeliver 3; OCommit None].
Definition wrun : sync := run wH wdec 11 true [] wops.

Lemma witness_idle : pending wrun = 0 /\ s_mem wrun = [] /\ has (s_db wrun) 11 = true.
Proof. vm_compute. auto. Qed.

Lemma witness_incomplete : ~ Complete wdec true (s_db wrun) 11.
Proof.
  intro C.
  inversion C as [h b G K]; subst. vm_compute in G. injection G as <-.
  specialize (K _ eq_refl 13). cbn in K. specialize (K (or_intror (or_introl eq_refl))).
  inversion K as [h b G2 K2]; subst. vm_compute in G2. injection G2 as <-.
  specialize (K2 _ eq_refl 14). cbn in K2. specialize (K2 (or_introl eq_refl)).
  inversion K2 as [h b G3 K3]; subst. vm_compute in G3. injection G3 as <-.
  specialize (K3 _ eq_refl 15). cbn in K3. specialize (K3 (or_introl eq_refl)).
  inversion K3 as [h b G4 K4]; subst. vm_compute in G4. discriminate G4.
Qed.

Lemma wH_injective : injective wH.
Proof. unfold injective, wH. intros. lia. Qed.
Lemma wH_no_zero : no_zero wH.
Proof. unfold no_zero, wH, zero_hash. intros. lia. Qed.

(* the unrestricted statement and its refutation by the witness *)
Definition C19_full_statement : Prop :=
  forall H dec cb0 root db0 ops, injective H -> no_zero H -> OC H dec cb0 db0 ->
    Forall (honest_op H) ops ->
    pending (run H dec root cb0 db0 ops) = 0 ->
    root = empty_root \/ Complete dec cb0 (store_of (run H dec root cb0 db0 ops)) root.

Lemma full_statement_refuted : ~ C19_full_statement.
Proof.
  intro F.
  destruct (F wH wdec true 11 [] wops wH_injective wH_no_zero I) as [X|X].
  - repeat constructor.
  - apply witness_idle.
  - discriminate X.
  - apply witness_incomplete. destruct witness_idle as (_ & M & _).
    unfold store_of in X. fold wrun in X. rewrite M in X. exact X.
Qed.

(* ---- a world outside the finding class (non-vacuity of the hypotheses) ------------- *)

(* as the witness, but A's code is blob 6 (hash 16), which is not a trie node *)
Definition gdec (b : blob) : option nodeview :=
  if N.eqb b 1 then Some (mkNode [12; 13] 1 None)
  else if N.eqb b 2 then Some (mkNode [] 63 (Some (PAcct (mkAcct empty_root 16 0 0))))
  else if N.eqb b 3 then Some (mkNode [] 63 (Some (PAcct (mkAcct 14 empty_state 0 0))))
  else if N.eqb b 4 then Some (mkNode [15] 1 None)
  else if N.eqb b 5 then Some (mkNode [] 63 (Some PErr))
  else None.

Ltac gdec_cases b D :=
  unfold gdec in D;
  destruct (N.eqb_spec b 1); [subst b|
  destruct (N.eqb_spec b 2); [subst b|
  destruct (N.eqb_spec b 3); [subst b|
  destruct (N.eqb_spec b 4); [subst b|
  destruct (N.eqb_spec b 5); [subst b| discriminate D]]]]];
  injection D as <-.

Lemma g_rawhash : forall h, RawHash gdec h -> h = 16 \/ h = 2.
Proof.
  intros h (b & nv & a & D & V & X). gdec_cases b D; cbn [nv_val] in V; try discriminate V;
    injection V as <-; cbn [a_code a_dlen a_deleg] in X; destruct X as [X|(X & _)]; try discriminate X; auto.
Qed.

Lemma g_sto : forall h, Sto wH gdec h -> h = 1 \/ h = 14 \/ h = 15.
Proof.
  intros h S. induction S as [b nv a D V | b nv k S IH D I].
  - gdec_cases b D; cbn [nv_val] in V; try discriminate V; injection V as <-; cbn [a_root]; auto.
  - unfold wH in IH. gdec_cases b D; cbn [nv_kids] in I; try (exfalso; lia); try (destruct I as [<-|[]]; auto); try (destruct I).
Qed.

Lemma g_raw_node_separate : raw_node_separate wH gdec true.
Proof.
  intros _ b nv R D. apply g_rawhash in R. unfold wH in R.
  gdec_cases b D; exfalso; lia.
Qed.

Lemma g_storage_account_separate : storage_account_separate wH gdec true.
Proof.
  intros _ b nv a S D V. apply g_sto in S. unfold wH in S.
  gdec_cases b D; cbn [nv_val] in V; try discriminate V; lia.
Qed.

Definition gops : list op :=
  [ODeliver 1; ODeliver 7; ODeliver 2; ODeliver 6; ODeliver 3; ODeliver 3; OCommit (Some 1); ORestart;
   ODeliver 1; ODeliver 3; ODeliver 2; ODeliver 4; ODeliver 5; OCommit None].

Lemma g_world : no_zero wH /\ raw_node_separate wH gdec true /\ storage_account_separate wH gdec true /\ injective wH /\
  OC wH gdec true [] /\ Forall (honest_op wH) gops /\
  pending (run wH gdec 11 true [] gops) = 0 /\
  s_db (run wH gdec 11 true [] gops) = [(11, 1); (13, 3); (14, 4); (15, 5); (12, 2); (16, 6)] /\
  11 <> empty_root.
Proof.
  split; [exact wH_no_zero|]. split; [exact g_raw_node_separate|]. split; [exact g_storage_account_separate|].
  split; [exact wH_injective|]. split; [exact I|]. split; [repeat constructor|].
  split; [vm_compute; reflexivity|]. split; [vm_compute; reflexivity | discriminate].
Qed.
