(* C19 - basic facts about the list-based maps of the model and the
   definitions the theorems are stated with. *)
From VF.C19 Require Import Model.
From Coq Require Import Lia ZifyBool ZifyN ZifyNat.
Local Open Scope N_scope.

(* ---- store ---------------------------------------------------------------- *)

Lemma has_app : forall l1 l2 h, has (l1 ++ l2) h = has l1 h || has l2 h.
Proof.
  unfold has. induction l1 as [|[k b] l1 IH]; intros l2 h; cbn [get app].
  - reflexivity.
  - destruct (N.eqb k h); [reflexivity | apply IH].
Qed.

Lemma get_app : forall l1 l2 h,
  get (l1 ++ l2) h = match get l1 h with Some b => Some b | None => get l2 h end.
Proof.
  induction l1 as [|[k b] l1 IH]; intros l2 h; cbn [get app].
  - reflexivity.
  - destruct (N.eqb k h); [reflexivity | apply IH].
Qed.

Lemma has_In : forall l h, has l h = true <-> exists b, In (h, b) l.
Proof.
  unfold has. induction l as [|[k b] l IH]; intro h; cbn [get In].
  - split; [discriminate | intros [b []]].
  - destruct (N.eqb k h) eqn:E.
    + apply N.eqb_eq in E. subst. split; [intros _; exists b; now left | reflexivity].
    + rewrite IH. split.
      * intros [b' Hb]. exists b'. now right.
      * intros [b' [Hb|Hb]]; [inversion Hb; subst; rewrite N.eqb_refl in E; discriminate | now exists b'].
Qed.

Lemma get_In : forall l h b, get l h = Some b -> In (h, b) l.
Proof.
  induction l as [|[k b0] l IH]; intros h b; cbn [get In]; [discriminate|].
  destruct (N.eqb k h) eqn:E.
  - apply N.eqb_eq in E. intros [= <-]. subst. now left.
  - intro G. right. now apply IH.
Qed.

Lemma has_rev : forall l h, has (rev l) h = has l h.
Proof.
  intros l h. apply eq_true_iff_eq. rewrite !has_In.
  split; intros [b Hb]; exists b; [now apply in_rev | now apply in_rev in Hb].
Qed.

Lemma has_get : forall l h, has l h = true -> exists b, get l h = Some b.
Proof. unfold has. intros l h. destruct (get l h); [eauto | discriminate]. Qed.

Lemma get_has : forall l h b, get l h = Some b -> has l h = true.
Proof. unfold has. intros l h b ->. reflexivity. Qed.

(* ---- requests map --------------------------------------------------------- *)

Lemma find_req_hash : forall l h r, find_req l h = Some r -> r_hash r = h.
Proof.
  induction l as [|x l IH]; intros h r; cbn [find_req]; [discriminate|].
  destruct (N.eqb (r_hash x) h) eqn:E; [intros [= <-]; now apply N.eqb_eq | apply IH].
Qed.

Lemma find_req_In : forall l h r, find_req l h = Some r -> In r l.
Proof.
  induction l as [|x l IH]; intros h r; cbn [find_req]; [discriminate|].
  destruct (N.eqb (r_hash x) h); [intros [= <-]; now left | intro F; right; eapply IH; eauto].
Qed.

Lemma find_none_notin : forall l h, find_req l h = None -> ~ In h (map r_hash l).
Proof.
  induction l as [|x l IH]; intros h; cbn [find_req map In]; [tauto|].
  destruct (N.eqb (r_hash x) h) eqn:E; [discriminate|].
  intros F [A|A]; [subst; rewrite N.eqb_refl in E; discriminate | eapply IH; eauto].
Qed.

Lemma find_put : forall l r h,
  find_req (put_req l r) h =
  if N.eqb (r_hash r) h then match find_req l h with Some _ => Some r | None => None end
  else find_req l h.
Proof.
  induction l as [|x l IH]; intros r h; cbn [put_req find_req].
  - destruct (N.eqb (r_hash r) h); reflexivity.
  - destruct (N.eqb (r_hash x) (r_hash r)) eqn:E1.
    + apply N.eqb_eq in E1. cbn [find_req]. rewrite E1.
      destruct (N.eqb (r_hash r) h); reflexivity.
    + cbn [find_req]. rewrite IH.
      destruct (N.eqb (r_hash x) h) eqn:E2; [|reflexivity].
      apply N.eqb_eq in E2. subst h. rewrite N.eqb_sym, E1. reflexivity.
Qed.

Lemma find_del : forall l k h,
  find_req (del_req l k) h = if N.eqb k h then None else find_req l h.
Proof.
  induction l as [|x l IH]; intros k h; cbn [del_req find_req].
  - destruct (N.eqb k h); reflexivity.
  - destruct (N.eqb (r_hash x) k) eqn:E1.
    + apply N.eqb_eq in E1. rewrite IH. rewrite E1. destruct (N.eqb k h); reflexivity.
    + cbn [find_req]. rewrite IH. destruct (N.eqb (r_hash x) h) eqn:E2; [|reflexivity].
      apply N.eqb_eq in E2. subst h. rewrite N.eqb_sym, E1. reflexivity.
Qed.

Lemma keys_put : forall l r, map r_hash (put_req l r) = map r_hash l.
Proof.
  induction l as [|x l IH]; intro r; cbn [put_req map]; [reflexivity|].
  destruct (N.eqb (r_hash x) (r_hash r)) eqn:E.
  - apply N.eqb_eq in E. cbn [map]. now rewrite E.
  - cbn [map]. now rewrite IH.
Qed.

Lemma keys_del_incl : forall l k h, In h (map r_hash (del_req l k)) -> In h (map r_hash l).
Proof.
  induction l as [|x l IH]; intros k h; cbn [del_req map In]; [tauto|].
  destruct (N.eqb (r_hash x) k); cbn [map In]; intros A.
  - right. eapply IH; eauto.
  - destruct A; [now left | right; eapply IH; eauto].
Qed.

Lemma nodup_del : forall l k, NoDup (map r_hash l) -> NoDup (map r_hash (del_req l k)).
Proof.
  induction l as [|x l IH]; intros k N; cbn [del_req map]; [constructor|].
  cbn [map] in N. inversion N as [|? ? N1 N2]; subst.
  destruct (N.eqb (r_hash x) k); [now apply IH|].
  cbn [map]. constructor; [|now apply IH].
  intro A. apply N1. eapply keys_del_incl; eauto.
Qed.

(* ---- counting parent references ------------------------------------------------ *)

Definition occ (h : hash) (l : list hash) : Z := Z.of_nat (count_occ N.eq_dec l h).

Fixpoint count_refs (l : list request) (h : hash) : Z :=
  match l with
  | [] => 0%Z
  | r :: t => (occ h (r_parents r) + count_refs t h)%Z
  end.

Lemma occ_nonneg : forall h l, (0 <= occ h l)%Z.
Proof. unfold occ. lia. Qed.

Lemma occ_cons : forall h p l, occ h (p :: l) = ((if N.eqb p h then 1 else 0) + occ h l)%Z.
Proof.
  intros. unfold occ. cbn [count_occ].
  destruct (N.eq_dec p h) as [->|N]; [rewrite N.eqb_refl; lia|].
  apply N.eqb_neq in N. rewrite N. lia.
Qed.

Lemma occ_nil : forall h, occ h [] = 0%Z.
Proof. reflexivity. Qed.

Lemma occ_app : forall h l1 l2, occ h (l1 ++ l2) = (occ h l1 + occ h l2)%Z.
Proof. intros. unfold occ. rewrite count_occ_app. apply Nat2Z.inj_add. Qed.

Lemma occ_pos_In : forall h l, In h l <-> (1 <= occ h l)%Z.
Proof.
  intros. unfold occ. rewrite (count_occ_In N.eq_dec). lia.
Qed.

Lemma count_refs_nonneg : forall l h, (0 <= count_refs l h)%Z.
Proof. induction l; intros; cbn [count_refs]; [lia|]. pose proof (occ_nonneg h (r_parents a)). specialize (IHl h). lia. Qed.

Lemma count_refs_del : forall l k r h, NoDup (map r_hash l) -> find_req l k = Some r ->
  count_refs (del_req l k) h = (count_refs l h - occ h (r_parents r))%Z.
Proof.
  induction l as [|x l IH]; intros k r h N F; cbn [find_req] in F; [discriminate|].
  cbn [map] in N. inversion N as [|? ? N1 N2]; subst.
  cbn [del_req count_refs]. destruct (N.eqb (r_hash x) k) eqn:E.
  - injection F as <-. apply N.eqb_eq in E.
    assert (D : del_req l k = l).
    { clear - N1 E. subst k. induction l as [|y l IH]; [reflexivity|]. cbn [del_req].
      cbn [map In] in N1. destruct (N.eqb (r_hash y) (r_hash x)) eqn:E.
      - apply N.eqb_eq in E. exfalso. apply N1. now left.
      - f_equal. apply IH. tauto. }
    rewrite D. lia.
  - cbn [count_refs]. rewrite (IH k r h N2 F). lia.
Qed.

Lemma count_refs_put : forall l r old h, NoDup (map r_hash l) -> find_req l (r_hash r) = Some old ->
  count_refs (put_req l r) h = (count_refs l h - occ h (r_parents old) + occ h (r_parents r))%Z.
Proof.
  induction l as [|x l IH]; intros r old h N F; cbn [find_req] in F; [discriminate|].
  cbn [map] in N. inversion N as [|? ? N1 N2]; subst.
  cbn [put_req]. destruct (N.eqb (r_hash x) (r_hash r)) eqn:E.
  - injection F as <-. cbn [count_refs]. lia.
  - cbn [count_refs]. rewrite (IH r old h N2 F). lia.
Qed.

Lemma count_refs_witness : forall l h, (1 <= count_refs l h)%Z -> NoDup (map r_hash l) ->
  exists q r, find_req l q = Some r /\ In h (r_parents r).
Proof.
  induction l as [|x l IH]; intros h C N; cbn [count_refs] in C; [lia|].
  cbn [map] in N. inversion N as [|? ? N1 N2]; subst.
  destruct (Z.leb 1 (occ h (r_parents x))) eqn:E.
  - exists (r_hash x), x. cbn [find_req]. rewrite N.eqb_refl. split; [reflexivity|].
    apply occ_pos_In. lia.
  - destruct (IH h) as (q & r & F & I); [pose proof (occ_nonneg h (r_parents x)); lia | assumption |].
    exists q, r. split; [|assumption]. cbn [find_req].
    destruct (N.eqb (r_hash x) q) eqn:E2; [|assumption].
    apply N.eqb_eq in E2. exfalso. apply N1. rewrite E2.
    apply find_req_hash in F as F'. rewrite <- F'. apply in_map. eapply find_req_In; eauto.
Qed.

Lemma count_refs_ge : forall l q r h, find_req l q = Some r -> In h (r_parents r) -> (1 <= count_refs l h)%Z.
Proof.
  induction l as [|x l IH]; intros q r h F I; cbn [find_req] in F; [discriminate|].
  cbn [count_refs]. destruct (N.eqb (r_hash x) q).
  - injection F as <-. apply occ_pos_In in I. pose proof (count_refs_nonneg l h). lia.
  - specialize (IH _ _ _ F I). pose proof (occ_nonneg h (r_parents x)). lia.
Qed.
