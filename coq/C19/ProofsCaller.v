(* C19 - the caller (trieSync + runTrieSync of you/downloader/triesync.go) as a
   state machine over the Sync model: whatever the peers do, the scheduler
   invariant holds after every event; blobs whose hash is not pending change
   nothing; unanswered tasks are queued again; the deferred commit(true)
   flushes everything. *)
From VF.C19 Require Import Model Proofs ProofsInv ProofsMain ProofsCollide.
From Coq Require Import Lia ZifyBool ZifyN ZifyNat.
Local Open Scope N_scope.

(* ---- bookkeeping facts (no hypotheses) --------------------------------------- *)

Lemma task_get_set_same : forall t h a, task_get (task_set t h a) h = Some a.
Proof. intros. unfold task_set. cbn [task_get]. now rewrite N.eqb_refl. Qed.

Lemma task_get_del_other : forall t k h, k <> h -> task_get (task_del t k) h = task_get t h.
Proof.
  induction t as [|[x a] t IH]; intros k h N; cbn [task_del task_get]; [reflexivity|].
  destruct (N.eqb x k) eqn:E1.
  - apply N.eqb_eq in E1. subst x. rewrite IH by assumption.
    destruct (N.eqb k h) eqn:E2; [apply N.eqb_eq in E2; congruence | reflexivity].
  - cbn [task_get]. destruct (N.eqb x h); [reflexivity | now apply IH].
Qed.

Lemma task_get_set_other : forall t k a h, k <> h -> task_get (task_set t k a) h = task_get t h.
Proof.
  intros. unfold task_set. cbn [task_get].
  destruct (N.eqb k h) eqn:E; [apply N.eqb_eq in E; congruence | now apply task_get_del_other].
Qed.

Lemma In_task_del : forall t k h a, In (h, a) t -> h <> k -> In (h, a) (task_del t k).
Proof.
  induction t as [|[x b] t IH]; intros k h a I N; cbn [task_del]; [destruct I|].
  destruct I as [I|I].
  - injection I as -> ->. destruct (N.eqb h k) eqn:E; [apply N.eqb_eq in E; congruence | now left].
  - destruct (N.eqb x k); [now apply IH | right; now apply IH].
Qed.

Lemma tried_remove : forall p a, tried p (remove_peer p a) = false.
Proof.
  induction a as [|x a IH]; cbn [remove_peer]; [reflexivity|].
  destruct (N.eqb x p) eqn:E; [assumption|]. unfold tried in *. cbn [existsb].
  rewrite N.eqb_sym, E. exact IH.
Qed.

Definition requeue (qt t : tasks) : tasks := fold_left (fun t e => task_set t (fst e) (snd e)) qt t.

Lemma requeue_other : forall qt t h, (forall a, ~ In (h, a) qt) -> task_get (requeue qt t) h = task_get t h.
Proof.
  induction qt as [|[k a] qt IH]; intros t h N; cbn [requeue fold_left]; [reflexivity|].
  fold (requeue qt (task_set t k a)). rewrite IH.
  - cbn [fst snd]. apply task_get_set_other. intro E. subst k. apply (N a). now left.
  - intros a' I. apply (N a'). now right.
Qed.

Lemma requeue_has : forall qt t h a, In (h, a) qt ->
  exists a', In (h, a') qt /\ task_get (requeue qt t) h = Some a'.
Proof.
  induction qt as [|[k b] qt IH]; intros t h a I; [destruct I|].
  cbn [requeue fold_left]. fold (requeue qt (task_set t k b)). cbn [fst snd].
  destruct (existsb (fun e => N.eqb (fst e) h) qt) eqn:EX.
  - apply existsb_exists in EX. destruct EX as ([h' a'] & I' & E). cbn [fst] in E.
    apply N.eqb_eq in E. subst h'.
    destruct (IH (task_set t k b) h a' I') as (a2 & I2 & G). exists a2. split; [now right | assumption].
  - assert (NI : forall a', ~ In (h, a') qt).
    { intros a' I'. assert (X : existsb (fun e => N.eqb (fst e) h) qt = true).
      { apply existsb_exists. exists (h, a'). split; [assumption | cbn [fst]; apply N.eqb_refl]. }
      congruence. }
    destruct I as [I|I]; [|exfalso; eapply NI; eauto].
    injection I as -> ->. exists a. split; [now left|].
    rewrite requeue_other by assumption. apply task_get_set_same.
Qed.

Section Caller.
Variable H : blob -> hash.
Variable dec : blob -> option nodeview.
Variable blen : blob -> N.
Variable ideal : N.

(* a blob whose hash is not pending: the scheduler and the counters stay as they
   are; only the request's own task entry for that hash (if any) is dropped *)
Lemma proc_blob_unrequested : forall s t num bytes qt b r succ,
  find_req (s_reqs s) (H b) = None ->
  proc_blobs H dec blen (mkCaller s t num bytes) qt (b :: r) succ =
  proc_blobs H dec blen (mkCaller s t num bytes) (task_del qt (H b)) r succ.
Proof.
  intros s t num bytes qt b r succ F. cbn [proc_blobs c_sched c_tasks c_num c_bytes].
  rewrite (unrequested_rejected H dec s b F). reflexivity.
Qed.

(* an undecodable blob for a pending node request aborts the loop ("invalid trie
   node") without touching the scheduler *)
Lemma proc_blob_undecodable : forall s t num bytes qt b r succ rq,
  find_req (s_reqs s) (H b) = Some rq -> r_data rq = None -> r_raw rq = false -> dec b = None ->
  proc_blobs H dec blen (mkCaller s t num bytes) qt (b :: r) succ = (mkCaller s t num bytes, qt, succ, true).
Proof.
  intros s t num bytes qt b r succ rq F D R Dn. cbn [proc_blobs c_sched c_tasks c_num c_bytes].
  rewrite (undecodable_rejected H dec s b rq F D R Dn). reflexivity.
Qed.

(* packets from a peer without an active request are dropped *)
Lemma unsolicited_dropped : forall m p blobs, active_get (m_active m) p = None ->
  mstep H dec blen ideal m (EPack p blobs) = m.
Proof. intros m p blobs A. cbn [mstep]. unfold finish_req. now rewrite A. Qed.

(* what the blob loop leaves of the request's tasks, and that it never touches s.tasks *)
Lemma proc_blobs_shape : forall blobs c qt succ c' qt' succ',
  proc_blobs H dec blen c qt blobs succ = (c', qt', succ', false) ->
  c_tasks c' = c_tasks c /\ qt' = fold_left task_del (map H blobs) qt.
Proof.
  induction blobs as [|b r IH]; intros c qt succ c' qt' succ' E; cbn [proc_blobs] in E.
  - injection E as <- <- <-. auto.
  - destruct (deliver H dec (c_sched c) b) as [s' [[x y] e]].
    destruct e; try discriminate E;
      apply IH in E; cbn [c_tasks] in E; destruct E as (E1 & E2); cbn [map fold_left]; auto.
Qed.

Lemma In_fold_del : forall ks qt h a, In (h, a) qt -> ~ In h ks -> In (h, a) (fold_left task_del ks qt).
Proof.
  induction ks as [|k ks IH]; intros qt h a I N; cbn [fold_left]; [assumption|].
  apply IH; [apply In_task_del; [assumption | intro E; apply N; now left] | intro X; apply N; now right].
Qed.

(* a task of the request that no blob of the response answers is queued again,
   and unless the peer answered with an explicitly empty packet it may be asked
   again (timeouts and dropped peers: resp = None) *)
Lemma unanswered_requeued : forall c req resp npeers c' succ,
  cprocess H dec blen c req resp npeers = (c', (succ, CNone)) ->
  forall h a, In (h, a) (q_tasks req) ->
    ~ In h (map H (match resp with Some l => l | None => [] end)) ->
    exists a', task_get (c_tasks c') h = Some a' /\
               (resp <> Some [] -> tried (q_peer req) a' = false).
Proof.
  intros c req resp npeers c' succ E h a I NA. unfold cprocess in E.
  destruct (proc_blobs H dec blen c (q_tasks req) (match resp with Some l => l | None => [] end) 0)
    as [[[c1 qt] s1] bad] eqn:PB.
  destruct bad; [discriminate E|].
  destruct (proc_blobs_shape _ _ _ _ _ _ _ PB) as (T1 & Q).
  set (retry := match resp with Some [] => false | _ => true end) in E.
  set (qt' := map (fun e => (fst e, if retry then remove_peer (q_peer req) (snd e) else snd e)) qt) in E.
  destruct (existsb (fun e => N.leb npeers (N.of_nat (length (snd e)))) qt'); [discriminate E|].
  injection E as <- _.
  assert (IQ : In (h, a) qt) by (rewrite Q; now apply In_fold_del).
  assert (IQ' : In (h, if retry then remove_peer (q_peer req) a else a) qt').
  { unfold qt'. apply in_map_iff. exists (h, a). auto. }
  cbn [c_tasks]. fold (requeue qt' (c_tasks c1)).
  destruct (requeue_has qt' (c_tasks c1) h _ IQ') as (a2 & I2 & G).
  exists a2. split; [assumption|]. intro NE.
  unfold qt' in I2. apply in_map_iff in I2. destruct I2 as ([h0 a0] & EQ & _). cbn [fst snd] in EQ.
  injection EQ as _ <-.
  assert (R : retry = true).
  { unfold retry. destruct resp as [[|]|]; try reflexivity. congruence. }
  rewrite R. apply tried_remove.
Qed.

(* the deferred commit(true) leaves nothing in the membatch *)
Lemma cancel_flushes : forall m, s_mem (c_sched (m_c (mstep H dec blen ideal m ECancel))) = [].
Proof.
  intros m. cbn [mstep m_c]. unfold ccommit. cbn [negb andb].
  unfold commit_db. destruct (N.eqb (N.of_nat (length (s_mem (c_sched (m_c m))))) 0); reflexivity.
Qed.

(* the loop keeps going exactly while no error occurred and something is pending *)
Lemma loop_exit : forall m, running m = false -> m_err m = CNone -> pending (c_sched (m_c m)) = 0.
Proof.
  intros m R E. unfold running in R. rewrite E in R.
  destruct (N.eqb (pending (c_sched (m_c m))) 0) eqn:P; [now apply N.eqb_eq | discriminate].
Qed.

(* ---- the invariant along every event sequence --------------------------------- *)
Variable cb0 : bool.
Variable root : hash.
Hypothesis Hz : no_zero H.
Hypothesis K1 : raw_node_separate H dec cb0.
Hypothesis K2 : storage_account_separate H dec cb0.

Notation INV := (Inv H dec cb0 root).

Lemma missing_inv : forall s max got s', INV s -> missing s max got = Some s' -> INV s'.
Proof.
  intros s max got s' W M. unfold missing in M.
  destruct (N.eqb _ _); [|discriminate]. destruct (pop_all (s_queue s) got); [|discriminate].
  injection M as <-. eapply WInv_store_change with (s := s); [exact W | reflexivity | | auto].
  apply (w_oc _ _ _ _ _ _ _ _ W).
Qed.

Lemma deliver_inv : forall s b, INV s -> INV (fst (deliver H dec s b)).
Proof.
  intros s b W. unfold deliver, process. apply process_inv; auto.
  intros h' b' [E|[]]. injection E as <- <-. reflexivity.
Qed.

Lemma proc_blobs_inv : forall blobs c qt succ, INV (c_sched c) ->
  INV (c_sched (fst (fst (fst (proc_blobs H dec blen c qt blobs succ))))).
Proof.
  induction blobs as [|b r IH]; intros c qt succ W; cbn [proc_blobs]; [exact W|].
  pose proof (deliver_inv (c_sched c) b W) as W'.
  destruct (deliver H dec (c_sched c) b) as [s' [[x y] e]]. cbn [fst] in W'.
  destruct e; try (apply IH; exact W'); exact W'.
Qed.

Lemma cprocess_inv : forall c req resp npeers, INV (c_sched c) ->
  INV (c_sched (fst (cprocess H dec blen c req resp npeers))).
Proof.
  intros c req resp npeers W. unfold cprocess.
  pose proof (proc_blobs_inv (match resp with Some l => l | None => [] end) c (q_tasks req) 0 W) as W'.
  destruct (proc_blobs H dec blen c (q_tasks req) (match resp with Some l => l | None => [] end) 0)
    as [[[c1 qt] s1] bad]. cbn [fst] in W'.
  destruct bad; [exact W'|].
  destruct (existsb _ _); exact W'.
Qed.

Lemma ccommit_inv : forall c force, INV (c_sched c) -> INV (c_sched (ccommit ideal c force)).
Proof.
  intros c force W. unfold ccommit. destruct (negb force && N.ltb (c_bytes c) ideal); [exact W|].
  pose proof (commit_db_inv H dec cb0 root (c_sched c) None W) as W'.
  destruct (commit_db (c_sched c) None) as [s' [w f]]. cbn [fst] in W'.
  destruct (N.eqb w 0); exact W'.
Qed.

Lemma fill_tasks_inv : forall c p n got items c' req, INV (c_sched c) ->
  fill_tasks c p n got items = Some (c', req) -> INV (c_sched c').
Proof.
  intros c p n got items c' req W E. unfold fill_tasks in E.
  destruct (N.ltb (N.of_nat (length (c_tasks c))) n).
  - destruct (missing (c_sched c) _ _) as [s'|] eqn:M; [|discriminate].
    destruct (_ && _); [|discriminate]. injection E as <- _. cbn [c_sched]. eapply missing_inv; eauto.
  - destruct got; [|discriminate]. destruct (_ && _); [|discriminate]. injection E as <- _. exact W.
Qed.

Lemma mstep_inv : forall m e, INV (c_sched (m_c m)) -> INV (c_sched (m_c (mstep H dec blen ideal m e))).
Proof.
  intros m e W. destruct e as [p n got items|p blobs|p|p|np| |]; cbn [mstep].
  - destruct (running m); [|exact W].
    destruct (fill_tasks (m_c m) p n got items) as [[c' req]|] eqn:F; [|exact W].
    pose proof (fill_tasks_inv _ _ _ _ _ _ _ W F) as W'.
    destruct (q_tasks req); [exact W'|]. unfold finish_req. cbn [m_active m_c].
    destruct (active_get (m_active m) p); exact W'.
  - unfold finish_req. destruct (active_get (m_active m) p); exact W.
  - unfold finish_req. destruct (active_get (m_active m) p); exact W.
  - unfold finish_req. destruct (active_get (m_active m) p); exact W.
  - destruct (running m); [|exact W]. destruct (m_finished m) as [|f rest]; [exact W|].
    pose proof (cprocess_inv (m_c m) (f_req f) (f_resp f) np W) as W'.
    destruct (cprocess H dec blen (m_c m) (f_req f) (f_resp f) np) as [c' [x y]]. exact W'.
  - destruct (running m); [|exact W]. cbn [m_c]. now apply ccommit_inv.
  - cbn [m_c]. now apply ccommit_inv.
Qed.

Notation MRUN db0 evs := (mrun H dec blen ideal root cb0 db0 evs).

Lemma mrun_inv : forall db0 evs, OC H dec cb0 db0 -> INV (c_sched (m_c (MRUN db0 evs))).
Proof.
  intros db0 evs O. unfold mrun.
  assert (G : forall evs m, INV (c_sched (m_c m)) -> INV (c_sched (m_c (fold_left (mstep H dec blen ideal) evs m)))).
  { induction evs0 as [|e evs0 IH]; intros m W; cbn [fold_left]; [assumption|]. apply IH. now apply mstep_inv. }
  apply G. unfold new_mach. cbn [m_c c_sched]. now apply new_sync_inv.
Qed.

(* at ANY interruption point of the downloader - after any sequence of peer and
   loop events, with or without the deferred commit(true) - the database is
   ordered-closed, with any prefix of the membatch written *)
Lemma caller_closed : forall db0 evs, OC H dec cb0 db0 ->
  let s := c_sched (m_c (MRUN db0 evs)) in
  let s' := c_sched (m_c (MRUN db0 (evs ++ [ECancel]))) in
  (forall k, OC H dec cb0 (rev (firstn k (s_mem s)) ++ s_db s)) /\
  OC H dec cb0 (s_db s') /\ s_mem s' = [] /\
  ((forall h, has (s_db s') h = true -> Complete dec cb0 (s_db s') h) \/ collision_in H (s_db s')).
Proof.
  intros db0 evs O s s'. split; [|split; [|split]].
  - intro k. apply (inv_prefix_oc H dec cb0 root). now apply mrun_inv.
  - pose proof (inv_prefix_oc H dec cb0 root s' (mrun_inv db0 (evs ++ [ECancel]) O) 0) as X.
    cbn [firstn rev app] in X. exact X.
  - unfold s', mrun. rewrite fold_left_app. cbn [fold_left]. apply cancel_flushes.
  - pose proof (inv_never_partial_or_collision H dec cb0 root s' (mrun_inv db0 (evs ++ [ECancel]) O) 0) as X.
    cbn [firstn rev app] in X. exact X.
Qed.

(* the loop ends without error only when nothing is pending, and then - after the
   deferred commit(true) - the database holds the whole closure of the root, or
   two distinct blobs with equal hash are exhibited in it *)
Lemma caller_complete : forall db0 evs, OC H dec cb0 db0 ->
  let m := MRUN db0 evs in
  let s' := c_sched (m_c (MRUN db0 (evs ++ [ECancel]))) in
  running m = false -> m_err m = CNone ->
  pending s' = 0 /\
  (root = empty_root \/ Complete dec cb0 (s_db s') root \/ collision_in H (s_db s')).
Proof.
  intros db0 evs O m s' R E.
  assert (P : pending s' = 0).
  { pose proof (loop_exit m R E) as P. unfold s', mrun. rewrite fold_left_app. cbn [fold_left mstep m_c].
    fold (MRUN db0 evs). fold m. unfold ccommit. cbn [negb andb].
    unfold pending in *. destruct (commit_db (c_sched (m_c m)) None) as [s2 [w f]] eqn:CD.
    assert (s_reqs s2 = s_reqs (c_sched (m_c m))).
    { unfold commit_db in CD. injection CD as <- _ _. reflexivity. }
    destruct (N.eqb w 0); cbn [c_sched]; congruence. }
  split; [assumption|].
  pose proof (inv_complete_or_collision H dec cb0 root s' (mrun_inv db0 (evs ++ [ECancel]) O) P) as X.
  assert (M : s_mem s' = []) by (unfold s', mrun; rewrite fold_left_app; cbn [fold_left]; apply cancel_flushes).
  unfold store_of in X. rewrite M in X. exact X.
Qed.

(* ---- the launch machine -------------------------------------------------------- *)

Definition abs_state (st : lstate) : astate :=
  match st with
  | LQueued => AQueued
  | LFailedLaunch => ADone 1
  | LRunning _ => ARunning
  | LDone None _ => ADone 0
  | LDone (Some LCancelFetch) _ => ADone 1
  | LDone (Some LCanceled) _ => ADone 2
  | LDone (Some (LFailed _)) _ => ADone 3
  end.

(* the abstract event a concrete step amounts to (None = no visible change) *)
Definition abs_event (st : lstate) (e : levent) : option aev :=
  match st, e with
  | LQueued, LHandover => Some AHandover
  | LQueued, LQuit => Some AQuit
  | LRunning m, LCancelSeen => if running m then Some ACancelSeen else None
  | LRunning m, LStopSeen => if running m then Some AStopSeen else None
  | LRunning m, LGuard =>
    if running m then None
    else Some (AGuardFalse (match m_err m with CNone => false | _ => true end))
  | _, _ => None
  end.

Lemma launch_refines : forall db st e,
  abs_state (lstep H dec blen ideal root cb0 db st e) =
  match abs_event st e with Some a => astep (abs_state st) a | None => abs_state st end.
Proof.
  intros db st e. destruct st as [| |m|[[| |x]|] m]; destruct e as [| |ev| | |]; cbn [lstep abs_event abs_state astep]; try reflexivity.
  - destruct ev; reflexivity.
  - destruct (running m); reflexivity.
  - destruct (running m); reflexivity.
  - destruct (running m); [reflexivity|]. destruct (m_err m); reflexivity.
Qed.

(* done states are final; a task that was never handed over is never done without error *)
Lemma launch_done_final : forall db e m ev, lstep H dec blen ideal root cb0 db (LDone e m) ev = LDone e m.
Proof. intros. destruct ev; reflexivity. Qed.
Lemma launch_failed_final : forall db ev, lstep H dec blen ideal root cb0 db LFailedLaunch ev = LFailedLaunch.
Proof. intros. destruct ev; reflexivity. Qed.

Lemma launch_needs_handover : forall db evs, ~ In LHandover evs ->
  lrun H dec blen ideal root cb0 db evs = LQueued \/ lrun H dec blen ideal root cb0 db evs = LFailedLaunch.
Proof.
  intros db evs. unfold lrun.
  assert (G : forall evs st, (st = LQueued \/ st = LFailedLaunch) -> ~ In LHandover evs ->
            fold_left (lstep H dec blen ideal root cb0 db) evs st = LQueued \/
            fold_left (lstep H dec blen ideal root cb0 db) evs st = LFailedLaunch).
  { induction evs0 as [|e evs0 IH]; intros st S N; cbn [fold_left]; [assumption|].
    apply IH; [|intro X; apply N; now right].
    destruct S as [-> | ->]; destruct e; cbn [lstep]; auto. exfalso. apply N. now left. }
  intro N. apply G; auto.
Qed.

(* an interruption seen by the running loop ends the task with an error *)
Lemma launch_interrupted : forall db m, running m = true ->
  lstep H dec blen ideal root cb0 db (LRunning m) LCancelSeen = LDone (Some LCanceled) (mstep H dec blen ideal m ECancel) /\
  lstep H dec blen ideal root cb0 db (LRunning m) LStopSeen = LDone (Some LCancelFetch) (mstep H dec blen ideal m ECancel) /\
  lstep H dec blen ideal root cb0 db LQueued LQuit = LFailedLaunch.
Proof. intros db m R. cbn [lstep]. rewrite R. auto. Qed.

(* an error of process (invalid trie node / failed with all peers) ends the loop with
   that error, and nothing that happens afterwards can turn it into a success *)
Lemma mstep_keeps_error : forall m ev, m_err m <> CNone ->
  m_err (mstep H dec blen ideal m ev) = m_err m.
Proof.
  intros m ev E.
  assert (R : running m = false) by (unfold running; destruct (m_err m); [congruence | reflexivity | reflexivity]).
  destruct ev; cbn [mstep]; rewrite ?R; try reflexivity;
    unfold finish_req; destruct (active_get (m_active m) p); reflexivity.
Qed.

Lemma process_error_recorded : forall m f rest np c' succ e,
  running m = true -> m_finished m = f :: rest ->
  cprocess H dec blen (m_c m) (f_req f) (f_resp f) np = (c', (succ, e)) ->
  m_err (mstep H dec blen ideal m (ENext np)) = e.
Proof. intros m f rest np c' succ e R F C. cbn [mstep]. rewrite R, F, C. reflexivity. Qed.

Lemma launch_process_error : forall db m, m_err m <> CNone ->
  lstep H dec blen ideal root cb0 db (LRunning m) LGuard =
    LDone (Some (LFailed (m_err m))) (mstep H dec blen ideal m ECancel) /\
  forall evs m', fold_left (lstep H dec blen ideal root cb0 db) evs (LRunning m) <> LDone None m'.
Proof.
  intros db m E. split.
  - cbn [lstep]. unfold running. destruct (m_err m); [congruence | reflexivity | reflexivity].
  - intros evs. revert m E. induction evs as [|e evs IH]; intros m E m'; cbn [fold_left]; [discriminate|].
    assert (R : running m = false) by (unfold running; destruct (m_err m); [congruence | reflexivity | reflexivity]).
    assert (FIN : forall x mm, fold_left (lstep H dec blen ideal root cb0 db) evs (LDone (Some x) mm) <> LDone None m').
    { intros x mm. clear. induction evs as [|e' evs' IH']; cbn [fold_left]; [discriminate|].
      rewrite launch_done_final. exact IH'. }
    destruct e as [| |ev| | |]; cbn [lstep]; rewrite ?R; try (apply IH; exact E).
    + destruct ev; try (apply IH; rewrite mstep_keeps_error; assumption). apply IH; exact E.
    + destruct (m_err m) eqn:EM; [congruence | apply FIN | apply FIN].
Qed.

Definition launch_ok (st : lstate) : Prop :=
  match st with
  | LQueued | LFailedLaunch => True
  | LRunning m => INV (c_sched (m_c m))
  | LDone e m => INV (c_sched (m_c m)) /\ s_mem (c_sched (m_c m)) = [] /\
                 (e = None -> pending (c_sched (m_c m)) = 0)
  end.

Lemma pending_after_cancel : forall m,
  pending (c_sched (m_c (mstep H dec blen ideal m ECancel))) = pending (c_sched (m_c m)).
Proof.
  intro m. cbn [mstep m_c]. unfold ccommit. cbn [negb andb]. unfold pending.
  destruct (commit_db (c_sched (m_c m)) None) as [s2 [w f]] eqn:CD.
  assert (s_reqs s2 = s_reqs (c_sched (m_c m))) by (unfold commit_db in CD; injection CD as <- _ _; reflexivity).
  destruct (N.eqb w 0); cbn [c_sched]; congruence.
Qed.

Lemma lstep_ok : forall db st e, OC H dec cb0 db -> launch_ok st ->
  launch_ok (lstep H dec blen ideal root cb0 db st e).
Proof.
  intros db st e O L. destruct st as [| |m|x m]; destruct e as [| |ev| | |]; cbn [lstep launch_ok] in *; auto.
  - unfold new_mach. cbn [m_c c_sched]. now apply new_sync_inv.
  - destruct ev; cbn [launch_ok]; try exact L; now apply mstep_inv.
  - destruct (running m); cbn [launch_ok]; [|exact L].
    split; [now apply mstep_inv|]. split; [apply cancel_flushes | discriminate].
  - destruct (running m); cbn [launch_ok]; [|exact L].
    split; [now apply mstep_inv|]. split; [apply cancel_flushes | discriminate].
  - destruct (running m) eqn:R; cbn [launch_ok]; [exact L|].
    split; [now apply mstep_inv|]. split; [apply cancel_flushes|].
    intro E. rewrite pending_after_cancel. apply loop_exit; [assumption|].
    destruct (m_err m); [reflexivity | discriminate E | discriminate E].
Qed.

(* done with err == nil: the task was handed to the fetcher, the loop's guard found
   nothing pending, everything is flushed, and the database holds the closure of
   the root (or a collision is exhibited) *)
Lemma launch_done_nil : forall db evs m, OC H dec cb0 db ->
  lrun H dec blen ideal root cb0 db evs = LDone None m ->
  In LHandover evs /\
  pending (c_sched (m_c m)) = 0 /\ s_mem (c_sched (m_c m)) = [] /\
  (root = empty_root \/ Complete dec cb0 (s_db (c_sched (m_c m))) root \/ collision_in H (s_db (c_sched (m_c m)))).
Proof.
  intros db evs m O E. split.
  - set (ish := fun e : levent => match e with LHandover => true | _ => false end).
    destruct (existsb ish evs) eqn:EX.
    + apply existsb_exists in EX. destruct EX as (x & I & X). destruct x; try discriminate X. exact I.
    + assert (N : ~ In LHandover evs).
      { intro I. assert (Y : existsb ish evs = true) by (apply existsb_exists; exists LHandover; auto). congruence. }
      destruct (launch_needs_handover db evs N) as [X|X]; rewrite X in E; discriminate E.
  - assert (L : launch_ok (lrun H dec blen ideal root cb0 db evs)).
    { unfold lrun.
      assert (G : forall evs st, launch_ok st -> launch_ok (fold_left (lstep H dec blen ideal root cb0 db) evs st)).
      { induction evs0 as [|e evs0 IH]; intros st S; cbn [fold_left]; [assumption|]. apply IH. now apply lstep_ok. }
      apply G. exact I. }
    rewrite E in L. cbn [launch_ok] in L. destruct L as (W & M & P). specialize (P eq_refl).
    split; [assumption|]. split; [assumption|].
    pose proof (inv_complete_or_collision H dec cb0 root _ W P) as X.
    unfold store_of in X. rewrite M in X. exact X.
Qed.

End Caller.

(* ---- a concrete downloader run in the world of ProofsMain.v (non-vacuity) ------- *)
Definition g_blen (b : blob) : N := 100.
Definition g_ideal : N := 250.
(* two peers: an unsolicited packet, an unasked blob inside a response, a timeout
   followed by re-assignment, the loop's commit, a duplicate blob, a dropped peer *)
Definition gevs : list event :=
  [EAssign 0 1 [11] [11]; EPack 1 [4]; EPack 0 [1; 7]; ENext 2;
   EAssign 0 8 [12; 13] [12; 13]; ETimeout 0; ENext 2;
   EAssign 1 8 [] [12; 13]; EPack 1 [3; 2]; ENext 2; ECommit;
   EAssign 0 8 [16; 14] [16; 14]; EPack 0 [6; 4; 4]; ENext 2;
   EAssign 1 1 [15] [15]; EDrop 1; ENext 2; EAssign 0 1 [] [15]; EPack 0 [5]; ENext 2].

Lemma g_caller_run :
  let m := mrun wH gdec g_blen g_ideal 11 true [] gevs in
  let m7 := mrun wH gdec g_blen g_ideal 11 true [] (firstn 7 gevs) in
  let mc := mrun wH gdec g_blen g_ideal 11 true [] (gevs ++ [ECancel]) in
  running m = false /\ m_err m = CNone /\ pending (c_sched (m_c m)) = 0 /\
  s_db (c_sched (m_c m)) = [] /\ length (s_mem (c_sched (m_c m))) = 6%nat /\
  s_db (c_sched (m_c mc)) = [(11, 1); (13, 3); (14, 4); (15, 5); (12, 2); (16, 6)] /\
  (* after the timeout of peer 0 both tasks are queued again with no peer marked *)
  running m7 = true /\ c_tasks (m_c m7) = [(13, []); (12, [])] /\ m_active m7 = [].
Proof. vm_compute. repeat split; reflexivity. Qed.

Lemma g_launch_run :
  let full := LHandover :: map LLoop gevs ++ [LGuard; LCancelSeen] in
  let cut := LHandover :: map LLoop (firstn 7 gevs) ++ [LGuard; LCancelSeen; LGuard] in
  (exists m, lrun wH gdec g_blen g_ideal 11 true [] full = LDone None m /\
             s_db (c_sched (m_c m)) = [(11, 1); (13, 3); (14, 4); (15, 5); (12, 2); (16, 6)]) /\
  (exists m, lrun wH gdec g_blen g_ideal 11 true [] cut = LDone (Some LCanceled) m /\
             pending (c_sched (m_c m)) = 3 /\ s_db (c_sched (m_c m)) = []) /\
  lrun wH gdec g_blen g_ideal 11 true [] [LQuit; LHandover; LGuard] = LFailedLaunch /\
  lrun wH gdec g_blen g_ideal 11 true [] [LCancelSeen; LGuard] = LQueued.
Proof.
  cbv zeta. split; [|split; [|split]].
  - eexists. split; [vm_compute; reflexivity | vm_compute; reflexivity].
  - eexists. split; [vm_compute; reflexivity | split; vm_compute; reflexivity].
  - vm_compute. reflexivity.
  - vm_compute. reflexivity.
Qed.

(* the only peer answers the request for the root with an explicitly empty packet:
   process fails with "failed with all peers", the task ends with that error *)
Lemma g_launch_error :
  exists m, lrun wH gdec g_blen g_ideal 11 true []
              [LHandover; LLoop (EAssign 0 1 [11] [11]); LLoop (EPack 0 []); LLoop (ENext 1); LGuard; LGuard]
            = LDone (Some (LFailed CAllPeers)) m /\
            pending (c_sched (m_c m)) = 1 /\ s_db (c_sched (m_c m)) = [].
Proof. eexists. split; [vm_compute; reflexivity | split; vm_compute; reflexivity]. Qed.

(* ---- one database per trie kind ------------------------------------------------------
   core.BlockChain.TrieBackingDb gives every kind of trie its own database (the plain
   chain database for state / validator / staking, prefixed tables for CHT and BLT).
   In the model the database is a parameter of the sync (new_mach root cb db): a sync
   reads and writes the store it was created on and nothing else, so running a sync
   of kind k in a world of per-kind databases changes the database of k only. *)
Definition sync_in_world (H : blob -> hash) (dec : blob -> option nodeview) (blen : blob -> N) (ideal : N)
           (world : N -> store) (k : N) (root : hash) (cb : bool) (evs : list event) : N -> store :=
  fun k' => if N.eqb k' k
            then s_db (c_sched (m_c (mrun H dec blen ideal root cb (world k) (evs ++ [ECancel]))))
            else world k'.

Lemma sync_writes_only_its_own_database : forall H dec blen ideal world k root cb evs k',
  k' <> k -> sync_in_world H dec blen ideal world k root cb evs k' = world k'.
Proof. intros. unfold sync_in_world. apply N.eqb_neq in H0. now rewrite H0. Qed.
