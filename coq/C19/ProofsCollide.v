(* C19 - completeness and identical content in the disjunctive form: either the
   destination reads the identical content, or two distinct byte strings with
   equal hash are exhibited - computed from the stores of the run. *)
From VF.C19 Require Import Model Proofs ProofsInv ProofsMain.
From Coq Require Import Lia ZifyBool ZifyN ZifyNat.
Local Open Scope N_scope.

(* first entry of l stored under key k with a blob other than b *)
Fixpoint other_blob (l : store) (k : hash) (b : blob) : option blob :=
  match l with
  | [] => None
  | (k', b') :: r => if N.eqb k' k && negb (N.eqb b' b) then Some b' else other_blob r k b
  end.

(* a key stored with two different blobs *)
Fixpoint find_collision (l : store) : option (hash * blob * blob) :=
  match l with
  | [] => None
  | (k, b) :: r => match other_blob r k b with
                   | Some b' => Some (k, b, b')
                   | None => find_collision r
                   end
  end.

Definition key_consistent (l : store) : Prop :=
  forall k b b', In (k, b) l -> In (k, b') l -> b = b'.

Lemma other_blob_some : forall l k b b', other_blob l k b = Some b' -> In (k, b') l /\ b' <> b.
Proof.
  induction l as [|[k' x] l IH]; intros k b b' E; cbn [other_blob] in E; [discriminate|].
  destruct (N.eqb k' k && negb (N.eqb x b)) eqn:C.
  - injection E as <-. apply andb_true_iff in C. destruct C as (C1 & C2).
    apply N.eqb_eq in C1. subst k'. split; [now left|].
    intro X. subst x. rewrite N.eqb_refl in C2. discriminate.
  - destruct (IH _ _ _ E) as (A & B). split; [now right | assumption].
Qed.

Lemma other_blob_none : forall l k b, other_blob l k b = None -> forall b', In (k, b') l -> b' = b.
Proof.
  induction l as [|[k' x] l IH]; intros k b E b' I; cbn [other_blob] in E; [destruct I|].
  destruct (N.eqb k' k && negb (N.eqb x b)) eqn:C; [discriminate|].
  destruct I as [I|I]; [|eapply IH; eauto].
  injection I as -> ->. rewrite N.eqb_refl in C. cbn [andb] in C.
  destruct (N.eqb b' b) eqn:E2; [now apply N.eqb_eq | discriminate].
Qed.

Lemma find_collision_some : forall l k b b', find_collision l = Some (k, b, b') ->
  In (k, b) l /\ In (k, b') l /\ b <> b'.
Proof.
  induction l as [|[k0 x] l IH]; intros k b b' E; cbn [find_collision] in E; [discriminate|].
  destruct (other_blob l k0 x) as [y|] eqn:O.
  - injection E as <- <- <-. destruct (other_blob_some _ _ _ _ O) as (A & B).
    split; [now left|]. split; [now right | congruence].
  - destruct (IH _ _ _ E) as (A & B & C). split; [now right|]. split; [now right | assumption].
Qed.

Lemma find_collision_none : forall l, find_collision l = None -> key_consistent l.
Proof.
  induction l as [|[k0 x] l IH]; intros E k b b' I1 I2; [destruct I1|].
  cbn [find_collision] in E. destruct (other_blob l k0 x) as [y|] eqn:O; [discriminate|].
  specialize (IH E).
  destruct I1 as [I1|I1]; destruct I2 as [I2|I2].
  - congruence.
  - injection I1 as <- <-. symmetry. eapply other_blob_none; eauto.
  - injection I2 as <- <-. eapply other_blob_none; eauto.
  - eapply IH; eauto.
Qed.

Section Collide.
Variable H : blob -> hash.
Variable dec : blob -> option nodeview.
Variable cb0 : bool.
Variable root : hash.

Definition all_hash_ok (l : store) : Prop := forall k b, In (k, b) l -> H b = k.

(* two distinct blobs of the list l with equal hash *)
Definition collision_in (l : store) : Prop :=
  exists k b b', In (k, b) l /\ In (k, b') l /\ b <> b' /\ H b = H b'.

Lemma consistent_or_collision : forall l, all_hash_ok l -> key_consistent l \/ collision_in l.
Proof.
  intros l A. destruct (find_collision l) as [[[k b] b']|] eqn:E.
  - right. destruct (find_collision_some _ _ _ _ E) as (I1 & I2 & N).
    exists k, b, b'. repeat split; auto. rewrite (A _ _ I1), (A _ _ I2). reflexivity.
  - left. now apply find_collision_none.
Qed.

Lemma OC_all_hash_ok : forall l, OC H dec cb0 l -> all_hash_ok l.
Proof. intros l O k b I. eapply OC_In_hash; eauto. Qed.

(* OC_complete with consistency of the list instead of injectivity of H *)
Lemma OC_complete_consistent_suffix : forall l, key_consistent l -> OC H dec cb0 l ->
  forall S A, l = A ++ S -> forall h, has S h = true -> Complete dec cb0 l h.
Proof.
  intros l KC O. induction S as [|[k b] S1 IH]; intros A E h X.
  - discriminate X.
  - unfold has in X. cbn [get] in X. destruct (N.eqb k h) eqn:EK.
    + apply N.eqb_eq in EK. subst k.
      assert (HL : has l h = true).
      { rewrite E, has_app. unfold has at 2. cbn [get]. rewrite N.eqb_refl. apply orb_true_r. }
      destruct (has_get _ _ HL) as (b' & G).
      assert (b' = b).
      { apply (KC h); [now apply get_In|]. rewrite E. apply in_or_app. right. now left. }
      subst b'. apply (Complete_node dec cb0 l h b G).
      intros nv Dn c I.
      assert (OS : OC H dec cb0 ((h, b) :: S1)) by (rewrite E in O; eapply OC_app_r; eauto).
      cbn [OC] in OS. destruct OS as (_ & Cl & _).
      apply (IH (A ++ [(h, b)])); [rewrite <- app_assoc; exact E | eapply Cl; eauto].
    + apply (IH (A ++ [(k, b)])); [rewrite <- app_assoc; exact E | exact X].
Qed.

Lemma OC_complete_or_collision : forall l, OC H dec cb0 l ->
  (forall h, has l h = true -> Complete dec cb0 l h) \/ collision_in l.
Proof.
  intros l O. destruct (consistent_or_collision l (OC_all_hash_ok l O)) as [KC|C]; [left|now right].
  intros h X. apply (OC_complete_consistent_suffix l KC O l []); auto.
Qed.

(* from the invariant *)
Lemma inv_prefix_oc : forall s, Inv H dec cb0 root s ->
  forall k, OC H dec cb0 (rev (firstn k (s_mem s)) ++ s_db s).
Proof.
  intros s W k. pose proof (w_oc _ _ _ _ _ _ _ _ W) as OS. unfold store_of in OS.
  rewrite <- (firstn_skipn k (s_mem s)) in OS at 1.
  rewrite rev_app_distr, <- app_assoc in OS. eapply OC_app_r; eauto.
Qed.

Lemma inv_never_partial_or_collision : forall s, Inv H dec cb0 root s -> forall k,
  let l := rev (firstn k (s_mem s)) ++ s_db s in
  (forall h, has l h = true -> Complete dec cb0 l h) \/ collision_in l.
Proof. intros s W k l. apply OC_complete_or_collision. now apply inv_prefix_oc. Qed.

Lemma inv_complete_or_collision : forall s, Inv H dec cb0 root s -> pending s = 0 ->
  root = empty_root \/ Complete dec cb0 (store_of s) root \/ collision_in (store_of s).
Proof.
  intros s W P.
  unfold pending in P. destruct (s_reqs s) eqn:E; [|cbn [length] in P; lia].
  destruct (w_root _ _ _ _ _ _ _ _ W) as [X|[(r & X)|X]].
  - now left.
  - rewrite E in X. discriminate X.
  - right. destruct (OC_complete_or_collision _ (w_oc _ _ _ _ _ _ _ _ W)) as [C|C]; [left; now apply C | now right].
Qed.

(* identical content, disjunctive: the collision is between a blob of the
   destination and a blob of the source (searched in db ++ src) *)
Lemma same_closure_consistent : forall db src, key_consistent (db ++ src) ->
  forall r, Complete dec cb0 db r -> Complete dec cb0 src r ->
  forall x, (Reach dec cb0 db r x <-> Reach dec cb0 src r x) /\
            (Reach dec cb0 db r x -> get db x = get src x).
Proof.
  intros db src KC r CD. induction CD as [h b G _ IH]. intros CS x.
  inversion CS as [h' b' G' K']; subst h'.
  assert (b' = b).
  { apply (KC h); apply in_or_app; [right | left]; now apply get_In. }
  subst b'.
  assert (STEP : forall nv c, dec b = Some nv -> In c (required cb0 nv) ->
            (Reach dec cb0 db c x <-> Reach dec cb0 src c x) /\ (Reach dec cb0 db c x -> get db x = get src x)).
  { intros nv c Dn I. apply (IH nv Dn c I). eapply K'; eauto. }
  split; [split|].
  - intro R. inversion R as [|h0 b0 nv c x0 G0 Dn I R']; subst.
    + apply reach_refl.
    + rewrite G in G0. injection G0 as <-. eapply reach_step; eauto. now apply (STEP nv c Dn I).
  - intro R. inversion R as [|h0 b0 nv c x0 G0 Dn I R']; subst.
    + apply reach_refl.
    + rewrite G' in G0. injection G0 as <-. eapply reach_step; eauto. now apply (STEP nv c Dn I).
  - intro R. inversion R as [|h0 b0 nv c x0 G0 Dn I R']; subst.
    + congruence.
    + rewrite G in G0. injection G0 as <-. now apply (STEP nv c Dn I).
Qed.

Lemma same_closure_or_collision : forall db src, all_hash_ok db -> all_hash_ok src ->
  forall r, Complete dec cb0 db r -> Complete dec cb0 src r ->
  (forall x, (Reach dec cb0 db r x <-> Reach dec cb0 src r x) /\
             (Reach dec cb0 db r x -> get db x = get src x)) \/
  collision_in (db ++ src).
Proof.
  intros db src A1 A2 r C1 C2.
  assert (A : all_hash_ok (db ++ src)).
  { intros k b I. apply in_app_or in I. destruct I; [eapply A1 | eapply A2]; eauto. }
  destruct (consistent_or_collision _ A) as [KC|C]; [left | now right].
  now apply same_closure_consistent.
Qed.

(* ---- histories of Sync operations ------------------------------------------------ *)
Hypothesis Hz : no_zero H.
Hypothesis K1 : raw_node_separate H dec cb0.
Hypothesis K2 : storage_account_separate H dec cb0.

Lemma run_complete_or_collision : forall db0 ops, OC H dec cb0 db0 -> Forall (honest_op H) ops ->
  let s := run H dec root cb0 db0 ops in
  (pending s = 0 ->
     root = empty_root \/ Complete dec cb0 (store_of s) root \/ collision_in (store_of s)) /\
  (forall k, let l := rev (firstn k (s_mem s)) ++ s_db s in
     (forall h, has l h = true -> Complete dec cb0 l h) \/ collision_in l).
Proof.
  intros db0 ops O HO s. pose proof (run_inv H dec cb0 root Hz K1 K2 db0 ops O HO) as W. split.
  - now apply inv_complete_or_collision.
  - intro k. now apply inv_never_partial_or_collision.
Qed.

End Collide.
