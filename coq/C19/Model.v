(* C19 - executable model of trie.Sync (trie/sync.go), the state-sync leaf
   callback (core/state/sync.go) and the caller that hashes each delivered blob
   (you/downloader/triesync.go: processNodeData).  No proofs in this file.

   Abstractions (all checked by the correspondence harness):
   - hashes and blobs are interned as numbers; 0 = common.Hash{}, 1 = emptyRoot,
     2 = emptyState (Keccak of the empty string);
   - Keccak-256 is a function [H : blob -> hash], decodeNode is
     [dec : blob -> option nodeview] (None = decode error).  A [nodeview] is what
     Sync.children looks at: the hashNode children in walking order, the depth
     increment (len(Key) of a shortNode, 1 for a fullNode) and the valueNode
     child if there is one (a shortNode has one child; in a fullNode the value
     sits in slot 16, after all hash children; embedded children are skipped by
     Sync.children and cannot contain hash references);
   - a value payload is the result of rlp-decoding it as state.Account:
     PErr = decode error, PAcct = (Root, CodeHash, len(DelegationsHash),
     DelegationsHash as hash);
   - request objects are identified by their hash (parents []*request becomes
     a list of hashes; the requests map has one live object per hash);
   - syncMemBatch (map + completion order) is one association list in
     completion order, oldest first;
   - the database is an association list, newest write first;
   - the priority queue is a list of (hash, depth); which of several entries of
     equal priority Missing pops first is taken from the observation and only
     checked to be legal (highest priority first).
   The recursion of Sync.commit is bounded by fuel = number of pending requests
   + 1 (every nested call has deleted one pending request before). *)
From Coq Require Export List NArith ZArith Bool.
Export ListNotations.
Open Scope N_scope.

Definition hash := N.
Definition blob := N.
Definition zero_hash : hash := 0.
Definition empty_root : hash := 1.
Definition empty_state : hash := 2.

Record acct := mkAcct { a_root : hash; a_code : hash; a_dlen : N; a_deleg : hash }.
Inductive payload := PErr | PAcct (a : acct).
Record nodeview := mkNode { nv_kids : list hash; nv_inc : N; nv_val : option payload }.

(* ---- database / membatch ------------------------------------------------ *)
Definition store := list (hash * blob).

Fixpoint get (l : store) (h : hash) : option blob :=
  match l with
  | [] => None
  | (k, b) :: r => if N.eqb k h then Some b else get r h
  end.
Definition has (l : store) (h : hash) : bool :=
  match get l h with Some _ => true | None => false end.

(* ---- requests ----------------------------------------------------------- *)
Record request := mkReq {
  r_hash : hash;
  r_data : option blob;      (* request.data (None = nil) *)
  r_raw : bool;
  r_parents : list hash;
  r_depth : N;
  r_deps : Z;
  r_cb : bool                (* request.callback != nil (the state-sync callback) *)
}.

Definition with_data (r : request) (b : blob) : request :=
  mkReq (r_hash r) (Some b) (r_raw r) (r_parents r) (r_depth r) (r_deps r) (r_cb r).
Definition with_parents (r : request) (p : list hash) : request :=
  mkReq (r_hash r) (r_data r) (r_raw r) p (r_depth r) (r_deps r) (r_cb r).
Definition with_deps (r : request) (d : Z) : request :=
  mkReq (r_hash r) (r_data r) (r_raw r) (r_parents r) (r_depth r) d (r_cb r).

Fixpoint find_req (l : list request) (h : hash) : option request :=
  match l with
  | [] => None
  | r :: t => if N.eqb (r_hash r) h then Some r else find_req t h
  end.
Fixpoint del_req (l : list request) (h : hash) : list request :=
  match l with
  | [] => []
  | r :: t => if N.eqb (r_hash r) h then del_req t h else r :: del_req t h
  end.
(* overwrite the object stored under r's hash (no-op if it is not pending) *)
Fixpoint put_req (l : list request) (r : request) : list request :=
  match l with
  | [] => []
  | x :: t => if N.eqb (r_hash x) (r_hash r) then r :: t else x :: put_req t r
  end.

Record sync := mkSync {
  s_db : store;                  (* database (reader and writer are the same store) *)
  s_mem : store;                 (* membatch, completion order, oldest first *)
  s_reqs : list request;         (* requests map *)
  s_queue : list (hash * N)      (* queue: (hash, priority = depth) *)
}.

Definition set_reqs (s : sync) (l : list request) : sync :=
  mkSync (s_db s) (s_mem s) l (s_queue s).

(* Sync.schedule *)
Definition schedule (s : sync) (req : request) : sync :=
  match find_req (s_reqs s) (r_hash req) with
  | Some old => set_reqs s (put_req (s_reqs s) (with_parents old (r_parents old ++ r_parents req)))
  | None => mkSync (s_db s) (s_mem s) (req :: s_reqs s) (s_queue s ++ [(r_hash req, r_depth req)])
  end.

(* the parent link shared by AddSubTrie and AddRawEntry.  A missing ancestor is
   a panic in Go (unreachable: the parent is the request being processed); the
   model leaves the state unchanged there. *)
Definition link_and_schedule (s : sync) (req : request) (parent : hash) : sync :=
  if negb (N.eqb parent zero_hash) then
    match find_req (s_reqs s) parent with
    | None => s
    | Some anc =>
      let s1 := set_reqs s (put_req (s_reqs s) (with_deps anc (r_deps anc + 1))) in
      schedule s1 (with_parents req [parent])
    end
  else schedule s req.

Section Model.
Variable H : blob -> hash.                 (* Keccak-256 *)
Variable dec : blob -> option nodeview.    (* decodeNode *)

(* Sync.AddSubTrie *)
Definition add_sub_trie (s : sync) (root : hash) (depth : N) (parent : hash) (cb : bool) : sync :=
  if N.eqb root empty_root then s
  else if has (s_mem s) root then s
  else if match get (s_db s) root with
          | Some b => match dec b with Some _ => true | None => false end
          | None => false end then s
  else link_and_schedule s (mkReq root None false [] depth 0 cb) parent.

(* Sync.AddRawEntry *)
Definition add_raw_entry (s : sync) (h : hash) (depth : N) (parent : hash) : sync :=
  if N.eqb h empty_state then s
  else if has (s_mem s) h then s
  else if has (s_db s) h then s
  else link_and_schedule s (mkReq h None true [] depth 0 false) parent.

(* the callback of state.NewStateSync; None = error *)
Definition state_callback (s : sync) (p : payload) (parent : hash) : option sync :=
  match p with
  | PErr => None
  | PAcct a =>
    let s1 := add_sub_trie s (a_root a) 64 parent false in
    let s2 := add_raw_entry s1 (a_code a) 64 parent in
    Some (if N.eqb (a_dlen a) 32 then add_raw_entry s2 (a_deleg a) 64 parent else s2)
  end.

(* Sync.children: the child requests to schedule (not yet scheduled) and the
   state after the callback ran; None = callback error *)
Definition children (s : sync) (req : request) (nv : nodeview) : option (sync * list request) :=
  let unknown := filter (fun h => negb (has (s_mem s) h) && negb (has (s_db s) h)) (nv_kids nv) in
  let reqs := map (fun h => mkReq h None false [r_hash req] (r_depth req + nv_inc nv) 0 (r_cb req)) unknown in
  match (if r_cb req then nv_val nv else None) with
  | None => Some (s, reqs)
  | Some p => match state_callback s p (r_hash req) with
              | None => None
              | Some s' => Some (s', reqs)
              end
  end.

(* Sync.commit *)
Fixpoint commit (fuel : nat) (s : sync) (req : request) : sync :=
  match fuel with
  | O => s
  | S f =>
    let mem' := match r_data req with Some b => s_mem s ++ [(r_hash req, b)] | None => s_mem s end in
    let s1 := mkSync (s_db s) mem' (del_req (s_reqs s) (r_hash req)) (s_queue s) in
    fold_left (fun st p =>
      match find_req (s_reqs st) p with
      | None => st
      | Some pr =>
        let pr' := with_deps pr (r_deps pr - 1) in
        let st' := set_reqs st (put_req (s_reqs st) pr') in
        if Z.eqb (r_deps pr') 0 then commit f st' pr' else st'
      end) (r_parents req) s1
  end.

Definition fuel_of (s : sync) : nat := S (length (s_reqs s)).

Inductive perr := ENone | ENotRequested | EAlready | EDecode | ECallback.

(* Sync.Process; result = (committed, index, error) *)
Fixpoint process_from (i : N) (committed : bool) (s : sync) (items : list (hash * blob))
  : sync * (bool * N * perr) :=
  match items with
  | [] => (s, (committed, 0, ENone))
  | (h, b) :: rest =>
    match find_req (s_reqs s) h with
    | None => (s, (committed, i, ENotRequested))
    | Some r =>
      match r_data r with
      | Some _ => (s, (committed, i, EAlready))
      | None =>
        if r_raw r then
          let r1 := with_data r b in
          let s1 := set_reqs s (put_req (s_reqs s) r1) in
          process_from (i + 1) true (commit (fuel_of s1) s1 r1) rest
        else
          match dec b with
          | None => (s, (committed, i, EDecode))
          | Some nv =>
            let r1 := with_data r b in
            let s1 := set_reqs s (put_req (s_reqs s) r1) in
            match children s1 r1 nv with
            | None => (s1, (committed, i, ECallback))
            | Some (s2, reqs) =>
              (* the callback may have changed the request object (deps, parents) *)
              match find_req (s_reqs s2) h with
              | None => (s2, (committed, i, ENotRequested))   (* unreachable *)
              | Some r2 =>
                if (Nat.eqb (length reqs) 0) && Z.eqb (r_deps r2) 0 then
                  process_from (i + 1) true (commit (fuel_of s2) s2 r2) rest
                else
                  let r3 := with_deps r2 (r_deps r2 + Z.of_nat (length reqs)) in
                  let s3 := set_reqs s2 (put_req (s_reqs s2) r3) in
                  process_from (i + 1) committed (fold_left schedule reqs s3) rest
              end
            end
          end
      end
    end
  end.

Definition process (s : sync) (items : list (hash * blob)) := process_from 0 false s items.

(* trieSync.processNodeData: the caller hashes the blob *)
Definition deliver (s : sync) (b : blob) : sync * (bool * N * perr) := process s [(H b, b)].

(* trie.NewSync / state.NewStateSync *)
Definition new_sync (root : hash) (cb : bool) (db : store) : sync :=
  add_sub_trie (mkSync db [] [] []) root 0 zero_hash cb.

(* Sync.Commit into the database.  [lim = Some k]: the writer fails on the
   (k+1)-th Put; the first k writes stay, the membatch is kept.
   Result = (written / index, failed). *)
Definition commit_db (s : sync) (lim : option N) : sync * (N * bool) :=
  let n := N.of_nat (length (s_mem s)) in
  match lim with
  | Some k =>
    if N.ltb k n then
      (mkSync (rev (firstn (N.to_nat k) (s_mem s)) ++ s_db s) (s_mem s) (s_reqs s) (s_queue s), (k, true))
    else (mkSync (rev (s_mem s) ++ s_db s) [] (s_reqs s) (s_queue s), (n, false))
  | None => (mkSync (rev (s_mem s) ++ s_db s) [] (s_reqs s) (s_queue s), (n, false))
  end.

Definition pending (s : sync) : N := N.of_nat (length (s_reqs s)).

(* Sync.Missing, checked against the observed pops *)
Definition max_prio (q : list (hash * N)) : N := fold_left (fun m e => N.max m (snd e)) q 0.
Fixpoint remove_entry (q : list (hash * N)) (h : hash) (d : N) : option (list (hash * N)) :=
  match q with
  | [] => None
  | e :: t => if N.eqb (fst e) h && N.eqb (snd e) d then Some t
              else match remove_entry t h d with Some t' => Some (e :: t') | None => None end
  end.
Fixpoint pop_all (q : list (hash * N)) (got : list hash) : option (list (hash * N)) :=
  match got with
  | [] => Some q
  | g :: r => match remove_entry q g (max_prio q) with
              | Some q' => pop_all q' r
              | None => None
              end
  end.
Definition missing (s : sync) (max : N) (got : list hash) : option sync :=
  let n := N.of_nat (length (s_queue s)) in
  let want := if N.eqb max 0 then n else N.min max n in
  if N.eqb (N.of_nat (length got)) want then
    match pop_all (s_queue s) got with
    | Some q' => Some (mkSync (s_db s) (s_mem s) (s_reqs s) q')
    | None => None
    end
  else None.

(* ---- operations and histories ------------------------------------------ *)
Inductive op :=
| OProcess (items : list (hash * blob))
| ODeliver (b : blob)
| OCommit (lim : option N)
| ORestart.

Definition step (root : hash) (cb : bool) (s : sync) (o : op) : sync :=
  match o with
  | OProcess items => fst (process s items)
  | ODeliver b => fst (deliver s b)
  | OCommit lim => fst (commit_db s lim)
  | ORestart => new_sync root cb (s_db s)
  end.

Definition run (root : hash) (cb : bool) (db0 : store) (ops : list op) : sync :=
  fold_left (step root cb) ops (new_sync root cb db0).

End Model.

(* ---- the caller: trieSync and runTrieSync (you/downloader/triesync.go) ------
   trieSync keeps s.tasks (hash -> set of peers already tried), hands batches of
   tasks to peers (fillTasks), and feeds every blob of a response through
   processNodeData (process); unanswered tasks go back to s.tasks.  runTrieSync
   keeps one active request per peer and a FIFO of finished requests (answered,
   timed out, peer dropped, overwritten) that the loop processes one by one.
   Abstractions: peers are numbers; maps are association lists with unique
   keys; which eligible tasks a Go map iteration picks in fillTasks is taken
   from the observation and checked to be legal; on an aborting error of
   process the bookkeeping state is left as it is (the loop returns).
   [blen] = len(blob), [ideal] = youdb.IdealBatchSize. *)
Definition peer := N.
Definition tasks := list (hash * list peer).

Fixpoint task_get (t : tasks) (h : hash) : option (list peer) :=
  match t with
  | [] => None
  | (k, a) :: r => if N.eqb k h then Some a else task_get r h
  end.
Fixpoint task_del (t : tasks) (h : hash) : tasks :=
  match t with
  | [] => []
  | (k, a) :: r => if N.eqb k h then task_del r h else (k, a) :: task_del r h
  end.
Definition task_set (t : tasks) (h : hash) (a : list peer) : tasks := (h, a) :: task_del t h.

Fixpoint remove_peer (p : peer) (l : list peer) : list peer :=
  match l with
  | [] => []
  | x :: r => if N.eqb x p then remove_peer p r else x :: remove_peer p r
  end.
Definition tried (p : peer) (a : list peer) : bool := existsb (N.eqb p) a.

Fixpoint nodupb (l : list hash) : bool :=
  match l with
  | [] => true
  | x :: r => negb (existsb (N.eqb x) r) && nodupb r
  end.

Record treq := mkTreq { q_peer : peer; q_tasks : tasks }.      (* trieReq: peer, tasks (items = keys) *)
Record caller := mkCaller {
  c_sched : sync;      (* s.sched *)
  c_tasks : tasks;     (* s.tasks *)
  c_num : N;           (* numUncommitted *)
  c_bytes : N          (* bytesUncommitted *)
}.

(* insertion sort of the hashes Missing returned by their queue priority,
   highest first (the order in which the priority queue must have popped them) *)
Definition prio_of (q : list (hash * N)) (h : hash) : N :=
  match find (fun e => N.eqb (fst e) h) q with Some e => snd e | None => 0 end.
Fixpoint insert_prio (q : list (hash * N)) (h : hash) (l : list hash) : list hash :=
  match l with
  | [] => [h]
  | x :: r => if N.leb (prio_of q x) (prio_of q h) then h :: l else x :: insert_prio q h r
  end.
Definition sort_prio (q : list (hash * N)) (l : list hash) : list hash :=
  fold_right (insert_prio q) [] l.

Inductive cerr := CNone | CInvalid | CAllPeers.

Record fin := mkFin { f_req : treq; f_resp : option (list blob); f_dropped : bool }.
Record mach := mkMach {
  m_c : caller;
  m_active : list (peer * treq);     (* runTrieSync: active *)
  m_finished : list fin;             (* runTrieSync: finished *)
  m_err : cerr                       (* error the loop returned *)
}.

Inductive event :=
| EAssign (p : peer) (n : N) (got items : list hash)   (* assignTasks for one idle peer *)
| EPack (p : peer) (blobs : list blob)                 (* a node-data packet arrives from p *)
| EDrop (p : peer)                                      (* p disconnects *)
| ETimeout (p : peer)                                   (* p's current request times out *)
| ENext (npeers : N)                                    (* the loop takes the next finished request *)
| ECommit                                               (* the loop's commit(false) *)
| ECancel.                                              (* the loop ends: deferred commit(true) *)

Fixpoint active_get (a : list (peer * treq)) (p : peer) : option treq :=
  match a with
  | [] => None
  | (k, r) :: t => if N.eqb k p then Some r else active_get t p
  end.
Fixpoint active_del (a : list (peer * treq)) (p : peer) : list (peer * treq) :=
  match a with
  | [] => []
  | (k, r) :: t => if N.eqb k p then active_del t p else (k, r) :: active_del t p
  end.

Section Caller.
Variable H : blob -> hash.
Variable dec : blob -> option nodeview.
Variable blen : blob -> N.
Variable ideal : N.

(* trieSync.fillTasks *)
Definition fill_tasks (c : caller) (p : peer) (n : N) (got items : list hash) : option (caller * treq) :=
  let nt := N.of_nat (length (c_tasks c)) in
  match (if N.ltb nt n then
           match missing (c_sched c) (n - nt) (sort_prio (s_queue (c_sched c)) got) with
           | Some s' => Some (s', fold_left (fun t h => task_set t h []) got (c_tasks c))
           | None => None
           end
         else match got with [] => Some (c_sched c, c_tasks c) | _ => None end) with
  | None => None
  | Some (s', t1) =>
    let elig := filter (fun e => negb (tried p (snd e))) t1 in
    let want := N.min n (N.of_nat (length elig)) in
    if nodupb items && N.eqb (N.of_nat (length items)) want
       && forallb (fun h => match task_get t1 h with Some a => negb (tried p a) | None => false end) items
    then
      let qt := map (fun h => (h, p :: match task_get t1 h with Some a => a | None => [] end)) items in
      Some (mkCaller s' (fold_left task_del items t1) (c_num c) (c_bytes c), mkTreq p qt)
    else None
  end.

(* the blob loop of trieSync.process; the last component = aborted with
   "invalid trie node" *)
Fixpoint proc_blobs (c : caller) (qt : tasks) (blobs : list blob) (succ : N) : caller * tasks * N * bool :=
  match blobs with
  | [] => (c, qt, succ, false)
  | b :: r =>
    let '(s', (_, _, e)) := deliver H dec (c_sched c) b in
    match e with
    | ENone => proc_blobs (mkCaller s' (c_tasks c) (c_num c + 1) (c_bytes c + blen b)) (task_del qt (H b)) r (succ + 1)
    | ENotRequested | EAlready => proc_blobs (mkCaller s' (c_tasks c) (c_num c) (c_bytes c)) (task_del qt (H b)) r succ
    | _ => (mkCaller s' (c_tasks c) (c_num c) (c_bytes c), qt, succ, true)
    end
  end.

(* trieSync.process; resp = None: req.response == nil (timeout / drop) *)
Definition cprocess (c : caller) (req : treq) (resp : option (list blob)) (npeers : N) : caller * (N * cerr) :=
  let blobs := match resp with Some l => l | None => [] end in
  let '(c1, qt, succ, bad) := proc_blobs c (q_tasks req) blobs 0 in
  if bad then (c1, (succ, CInvalid))
  else
    let retry := match resp with Some [] => false | _ => true end in
    let qt' := map (fun e => (fst e, if retry then remove_peer (q_peer req) (snd e) else snd e)) qt in
    if existsb (fun e => N.leb npeers (N.of_nat (length (snd e)))) qt' then (c1, (succ, CAllPeers))
    else (mkCaller (c_sched c1) (fold_left (fun t e => task_set t (fst e) (snd e)) qt' (c_tasks c1))
                   (c_num c1) (c_bytes c1), (succ, CNone)).

(* trieSync.commit (through a database batch: all or nothing) *)
Definition ccommit (c : caller) (force : bool) : caller :=
  if negb force && N.ltb (c_bytes c) ideal then c
  else
    let '(s', (w, _)) := commit_db (c_sched c) None in
    if N.eqb w 0 then mkCaller s' (c_tasks c) (c_num c) (c_bytes c)
    else mkCaller s' (c_tasks c) 0 0.

Definition finish_req (m : mach) (p : peer) (resp : option (list blob)) (dropped : bool) : mach :=
  match active_get (m_active m) p with
  | None => m
  | Some req => mkMach (m_c m) (active_del (m_active m) p) (m_finished m ++ [mkFin req resp dropped]) (m_err m)
  end.

Definition running (m : mach) : bool :=
  match m_err m with CNone => negb (N.eqb (pending (c_sched (m_c m))) 0) | _ => false end.

(* one event of runTrieSync + trieSync.loop *)
Definition mstep (m : mach) (e : event) : mach :=
  match e with
  | EAssign p n got items =>
    if running m then
      match fill_tasks (m_c m) p n got items with
      | None => m
      | Some (c', req) =>
        match q_tasks req with
        | [] => mkMach c' (m_active m) (m_finished m) (m_err m)
        | _ =>
          (* trackTrieReq: a busy peer's old request is finished as dropped *)
          let m1 := finish_req (mkMach c' (m_active m) (m_finished m) (m_err m)) p None true in
          mkMach (m_c m1) ((p, req) :: m_active m1) (m_finished m1) (m_err m1)
        end
      end
    else m
  | EPack p blobs => finish_req m p (Some blobs) false     (* no active request: dropped *)
  | EDrop p => finish_req m p None true
  | ETimeout p => finish_req m p None false
  | ENext npeers =>
    if running m then
      match m_finished m with
      | [] => m
      | f :: rest =>
        let '(c', (_, e)) := cprocess (m_c m) (f_req f) (f_resp f) npeers in
        mkMach c' (m_active m) rest e
      end
    else m
  | ECommit => if running m then mkMach (ccommit (m_c m) false) (m_active m) (m_finished m) (m_err m) else m
  | ECancel => mkMach (ccommit (m_c m) true) (m_active m) (m_finished m) (m_err m)
  end.

Definition new_mach (root : hash) (cb : bool) (db : store) : mach :=
  mkMach (mkCaller (new_sync dec root cb db) [] 0 0) [] [] CNone.

Definition mrun (root : hash) (cb : bool) (db0 : store) (evs : list event) : mach :=
  fold_left mstep evs (new_mach root cb db0).

(* ---- launching a trie sync: launchTrieSync, trieFetcher, trieSync.run/loop ------
   A task is created (syncState / syncVldTrie / ...), handed to the single trie
   fetcher over an unbuffered channel (launchTrieSync) - or, if the downloader
   quits first, closed with errCancelTrieFetch - then run: loop() iterates while
   Pending() > 0 and leaves with errCanceled / errCancelTrieFetch when it sees
   the cancel channels, with the error of process, or with nil when its guard
   finds nothing pending; the deferred commit(true) runs on every exit and
   run() closes done.  Wait() returns the recorded error. *)
Inductive lerr := LCancelFetch | LCanceled | LFailed (e : cerr).
Inductive lstate :=
| LQueued                                   (* blocked in launchTrieSync *)
| LFailedLaunch                             (* done, errCancelTrieFetch, never ran *)
| LRunning (m : mach)
| LDone (e : option lerr) (m : mach).       (* done closed; e = None: err == nil *)
Inductive levent :=
| LHandover          (* the fetcher takes the task *)
| LQuit              (* launchTrieSync sees quitCh *)
| LLoop (e : event)  (* an event of the running loop / dispatcher *)
| LCancelSeen        (* the loop's select sees d.cancelCh *)
| LStopSeen          (* the loop's select sees s.cancel *)
| LGuard.            (* the loop evaluates its guard / returns *)

Definition lstep (root : hash) (cb : bool) (db : store) (st : lstate) (e : levent) : lstate :=
  match st, e with
  | LQueued, LHandover => LRunning (new_mach root cb db)
  | LQueued, LQuit => LFailedLaunch
  | LRunning m, LLoop ev => match ev with ECancel => st | _ => LRunning (mstep m ev) end
  | LRunning m, LCancelSeen => if running m then LDone (Some LCanceled) (mstep m ECancel) else st
  | LRunning m, LStopSeen => if running m then LDone (Some LCancelFetch) (mstep m ECancel) else st
  | LRunning m, LGuard =>
    if running m then st
    else LDone (match m_err m with CNone => None | x => Some (LFailed x) end) (mstep m ECancel)
  | _, _ => st
  end.

Definition lrun (root : hash) (cb : bool) (db : store) (evs : list levent) : lstate :=
  fold_left (lstep root cb db) evs LQueued.

End Caller.

(* the launch machine without the contents of the loop: what the harness can
   observe when it drives the real launchTrieSync / trieFetcher / loop *)
Inductive astate := AQueued | ARunning | ADone (err : N).   (* 0 nil, 1 errCancelTrieFetch, 2 errCanceled, 3 other *)
Inductive aev := AHandover | AQuit | ACancelSeen | AStopSeen | AGuardFalse (failed : bool).
Definition astep (st : astate) (e : aev) : astate :=
  match st, e with
  | AQueued, AHandover => ARunning
  | AQueued, AQuit => ADone 1
  | ARunning, ACancelSeen => ADone 2
  | ARunning, AStopSeen => ADone 1
  | ARunning, AGuardFalse failed => ADone (if failed then 3 else 0)
  | _, _ => st
  end.

(* ---- correspondence runner ---------------------------------------------- *)

Definition perr_code (e : perr) : N :=
  match e with ENone => 0 | ENotRequested => 1 | EAlready => 2 | EDecode => 3 | ECallback => 4 end.
Definition cerr_code (e : cerr) : N :=
  match e with CNone => 0 | CInvalid => 1 | CAllPeers => 2 end.

Record dreq := mkDreq {
  d_hash : hash; d_raw : bool; d_hasdata : bool; d_cb : bool;
  d_depth : N; d_deps : Z; d_parents : list hash }.

(* observed operations: inputs + what the implementation returned.
   X.. drive trie.Sync directly, Y.. drive it through trieSync (fillTasks,
   process, commit) with the dispatcher of runTrieSync in between. *)
Inductive oop :=
| XMissing (max : N) (got : list hash)
| XProcess (items : list (hash * blob)) (committed : bool) (idx : N) (err : N)
| XDeliver (b : blob) (h : hash) (committed : bool) (err : N)
| XCommit (lim : option N) (written : N) (failed : bool)
| XRestart
| XPending (n : N)
| XDump (reqs : list dreq) (memorder : list hash) (db : store)
| YAssign (p : peer) (n : N) (got items : list hash)
| YPack (p : peer) (blobs : list blob)
| YDrop (p : peer)
| YTimeout (p : peer)
| YNext (npeers : N) (ran : bool) (succ : N) (err : N)     (* ran = a finished request was processed *)
| YCommit (force : bool)
| YTasks (t : tasks) (num bytes : N)
(* one launch history on the real launchTrieSync / trieFetcher / loop: what the
   environment allowed (fetcher available, quitCh / cancelCh closed at some
   point, Pending()==0 resp. trie complete at the end), the explanation of the
   outcome as events of the launch machine, and the outcome *)
| ZLaunch (fetcher quit cancel pending0 : bool) (wit : list aev) (done : bool) (err : N).

Record case := mkCase {
  c_hash : list (blob * hash);         (* Keccak of every blob of the case *)
  c_dec : list (blob * nodeview);      (* decodeNode of every decodable blob *)
  c_len : list (blob * N);             (* len of every blob *)
  c_ideal : N;                         (* youdb.IdealBatchSize *)
  c_root : hash;
  c_cb : bool;                         (* state.NewStateSync (true) or trie.NewSync(.., nil) *)
  c_db0 : store;                       (* destination database before the sync *)
  c_ops : list oop }.

Fixpoint tbl_get {A} (t : list (N * A)) (k : N) : option A :=
  match t with
  | [] => None
  | (x, v) :: r => if N.eqb x k then Some v else tbl_get r k
  end.

Definition list_eqb {A} (e : A -> A -> bool) :=
  fix go (a b : list A) : bool :=
    match a, b with
    | [], [] => true
    | x :: a', y :: b' => e x y && go a' b'
    | _, _ => false
    end.

Definition dreq_ok (l : list request) (d : dreq) : bool :=
  match find_req l (d_hash d) with
  | None => false
  | Some r =>
    Bool.eqb (r_raw r) (d_raw d)
    && Bool.eqb (match r_data r with Some _ => true | None => false end) (d_hasdata d)
    && Bool.eqb (r_cb r) (d_cb d)
    && N.eqb (r_depth r) (d_depth d)
    && Z.eqb (r_deps r) (d_deps d)
    && list_eqb N.eqb (r_parents r) (d_parents d)
  end.

Definition store_ok (model obs : store) : bool :=
  forallb (fun e => match get model (fst e) with Some b => N.eqb b (snd e) | None => false end) obs
  && forallb (fun e => has obs (fst e)) model.

Definition set_eqb (a b : list N) : bool :=
  Nat.eqb (length a) (length b) && forallb (fun x => existsb (N.eqb x) b) a.
Definition tasks_ok (model obs : tasks) : bool :=
  Nat.eqb (length model) (length obs)
  && forallb (fun e => match task_get model (fst e) with Some a => set_eqb a (snd e) | None => false end) obs.

Definition with_sched (m : mach) (s : sync) : mach :=
  mkMach (mkCaller s (c_tasks (m_c m)) (c_num (m_c m)) (c_bytes (m_c m))) (m_active m) (m_finished m) (m_err m).

Definition ostep (H : blob -> hash) (dec : blob -> option nodeview) (blen : blob -> N) (ideal : N)
           (root : hash) (cb : bool) (m : mach) (o : oop) : option mach :=
  let s := c_sched (m_c m) in
  let ev := fun e => Some (mstep H dec blen ideal m e) in
  match o with
  | XMissing max got => option_map (with_sched m) (missing s max got)
  | XProcess items c i e =>
    let '(s', (c', i', e')) := process dec s items in
    if Bool.eqb c c' && N.eqb i i' && N.eqb e (perr_code e') then Some (with_sched m s') else None
  | XDeliver b h c e =>
    let '(s', (c', _, e')) := deliver H dec s b in
    if N.eqb h (H b) && Bool.eqb c c' && N.eqb e (perr_code e') then Some (with_sched m s') else None
  | XCommit lim w f =>
    let '(s', (w', f')) := commit_db s lim in
    if N.eqb w w' && Bool.eqb f f' then Some (with_sched m s') else None
  | XRestart => Some (new_mach dec root cb (s_db s))
  | XPending n => if N.eqb n (pending s) then Some m else None
  | XDump reqs order db =>
    if Nat.eqb (length reqs) (length (s_reqs s)) && forallb (dreq_ok (s_reqs s)) reqs
       && list_eqb N.eqb order (map fst (s_mem s)) && store_ok (s_db s) db
    then Some m else None
  | YAssign p n got items =>
    (* the harness only assigns while the loop runs; an illegal observation is a mismatch *)
    if running m then
      match fill_tasks (m_c m) p n got items with
      | Some _ => ev (EAssign p n got items)
      | None => None
      end
    else None
  | YPack p blobs => ev (EPack p blobs)
  | YDrop p => ev (EDrop p)
  | YTimeout p => ev (ETimeout p)
  | YNext npeers ran succ err =>
    if running m then
      match m_finished m with
      | [] => if ran then None else Some m
      | f :: _ =>
        let '(_, (succ', e')) := cprocess H dec blen (m_c m) (f_req f) (f_resp f) npeers in
        if ran && N.eqb succ succ' && N.eqb err (cerr_code e') then ev (ENext npeers) else None
      end
    else if ran then None else Some m
  | YCommit force =>
    Some (mkMach (ccommit ideal (m_c m) force) (m_active m) (m_finished m) (m_err m))
  | YTasks t num bytes =>
    if tasks_ok (c_tasks (m_c m)) t && N.eqb num (c_num (m_c m)) && N.eqb bytes (c_bytes (m_c m))
    then Some m else None
  | ZLaunch fetcher quit cancel pending0 wit done err =>
    let legal := fun a => match a with
                          | AHandover => fetcher
                          | AQuit => quit
                          | ACancelSeen => cancel
                          | AStopSeen => false
                          | AGuardFalse failed => failed || pending0
                          end in
    if forallb legal wit &&
       match fold_left astep wit AQueued with
       | ADone e => done && N.eqb e err
       | _ => negb done
       end
    then Some m else None
  end.

Fixpoint orun (H : blob -> hash) (dec : blob -> option nodeview) (blen : blob -> N) (ideal : N)
         (root : hash) (cb : bool) (m : mach) (ops : list oop) : bool :=
  match ops with
  | [] => true
  | o :: r => match ostep H dec blen ideal root cb m o with
              | Some m' => orun H dec blen ideal root cb m' r
              | None => false
              end
  end.

Definition case_ok (c : case) : bool :=
  let H := fun b => match tbl_get (c_hash c) b with Some h => h | None => zero_hash end in
  let dec := tbl_get (c_dec c) in
  let blen := fun b => match tbl_get (c_len c) b with Some n => n | None => 0 end in
  orun H dec blen (c_ideal c) (c_root c) (c_cb c) (new_mach dec (c_root c) (c_cb c) (c_db0 c)) (c_ops c).

Fixpoint mismatches_from (i : N) (l : list case) : list N :=
  match l with
  | [] => []
  | c :: r => if case_ok c then mismatches_from (i + 1) r else i :: mismatches_from (i + 1) r
  end.
Definition mismatches := mismatches_from 0.
