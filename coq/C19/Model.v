(* C19 - executable model of trie.Sync (trie/sync.go), the state-sync leaf
   callback (core/state/sync.go) and the caller that hashes each delivered blob
   (you/downloader/triesync.go: processNodeData).  No proofs in this file.

   Abstractions (all checked by the correspondence harness):
   - hashes and blobs are interned as numbers; 0 = common.Hash{}, 1 = emptyRoot,
     2 = emptyState (Keccak of the empty string);
   - Keccak-256 is a function [H : blob -> hash], decodeNode is
     [dec : blob -> option nodeview] (None = decode error).  A [nodeview] is what
     Sync.children looks at: the hashNode children in walking order, the depth
     increment (len(Key) of a shortNode, 1 for a fullNode) and the valueNode
     child if there is one (a shortNode has one child; in a fullNode the value
     sits in slot 16, after all hash children; embedded children are skipped by
     Sync.children and cannot contain hash references);
   - a value payload is the result of rlp-decoding it as state.Account:
     PErr = decode error, PAcct = (Root, CodeHash, len(DelegationsHash),
     DelegationsHash as hash);
   - request objects are identified by their hash (parents []*request becomes
     a list of hashes; the requests map has one live object per hash);
   - syncMemBatch (map + completion order) is one association list in
     completion order, oldest first;
   - the database is an association list, newest write first;
   - the priority queue is a list of (hash, depth); which of several entries of
     equal priority Missing pops first is taken from the observation and only
     checked to be legal (highest priority first).
   The recursion of Sync.commit is bounded by fuel = number of pending requests
   + 1 (every nested call has deleted one pending request before). *)
From Coq Require Export List NArith ZArith Bool.
Export ListNotations.
Open Scope N_scope.

Definition hash := N.
Definition blob := N.
Definition zero_hash : hash := 0.
Definition empty_root : hash := 1.
Definition empty_state : hash := 2.

Record acct := mkAcct { a_root : hash; a_code : hash; a_dlen : N; a_deleg : hash }.
Inductive payload := PErr | PAcct (a : acct).
Record nodeview := mkNode { nv_kids : list hash; nv_inc : N; nv_val : option payload }.

(* ---- database / membatch ------------------------------------------------ *)
Definition store := list (hash * blob).

Fixpoint get (l : store) (h : hash) : option blob :=
  match l with
  | [] => None
  | (k, b) :: r => if N.eqb k h then Some b else get r h
  end.
Definition has (l : store) (h : hash) : bool :=
  match get l h with Some _ => true | None => false end.

(* ---- requests ----------------------------------------------------------- *)
Record request := mkReq {
  r_hash : hash;
  r_data : option blob;      (* request.data (None = nil) *)
  r_raw : bool;
  r_parents : list hash;
  r_depth : N;
  r_deps : Z;
  r_cb : bool                (* request.callback != nil (the state-sync callback) *)
}.

Definition with_data (r : request) (b : blob) : request :=
  mkReq (r_hash r) (Some b) (r_raw r) (r_parents r) (r_depth r) (r_deps r) (r_cb r).
Definition with_parents (r : request) (p : list hash) : request :=
  mkReq (r_hash r) (r_data r) (r_raw r) p (r_depth r) (r_deps r) (r_cb r).
Definition with_deps (r : request) (d : Z) : request :=
  mkReq (r_hash r) (r_data r) (r_raw r) (r_parents r) (r_depth r) d (r_cb r).

Fixpoint find_req (l : list request) (h : hash) : option request :=
  match l with
  | [] => None
  | r :: t => if N.eqb (r_hash r) h then Some r else find_req t h
  end.
Fixpoint del_req (l : list request) (h : hash) : list request :=
  match l with
  | [] => []
  | r :: t => if N.eqb (r_hash r) h then del_req t h else r :: del_req t h
  end.
(* overwrite the object stored under r's hash (no-op if it is not pending) *)
Fixpoint put_req (l : list request) (r : request) : list request :=
  match l with
  | [] => []
  | x :: t => if N.eqb (r_hash x) (r_hash r) then r :: t else x :: put_req t r
  end.

Record sync := mkSync {
  s_db : store;                  (* database (reader and writer are the same store) *)
  s_mem : store;                 (* membatch, completion order, oldest first *)
  s_reqs : list request;         (* requests map *)
  s_queue : list (hash * N)      (* queue: (hash, priority = depth) *)
}.

Definition set_reqs (s : sync) (l : list request) : sync :=
  mkSync (s_db s) (s_mem s) l (s_queue s).

(* Sync.schedule *)
Definition schedule (s : sync) (req : request) : sync :=
  match find_req (s_reqs s) (r_hash req) with
  | Some old => set_reqs s (put_req (s_reqs s) (with_parents old (r_parents old ++ r_parents req)))
  | None => mkSync (s_db s) (s_mem s) (req :: s_reqs s) (s_queue s ++ [(r_hash req, r_depth req)])
  end.

(* the parent link shared by AddSubTrie and AddRawEntry.  A missing ancestor is
   a panic in Go (unreachable: the parent is the request being processed); the
   model leaves the state unchanged there. *)
Definition link_and_schedule (s : sync) (req : request) (parent : hash) : sync :=
  if negb (N.eqb parent zero_hash) then
    match find_req (s_reqs s) parent with
    | None => s
    | Some anc =>
      let s1 := set_reqs s (put_req (s_reqs s) (with_deps anc (r_deps anc + 1))) in
      schedule s1 (with_parents req [parent])
    end
  else schedule s req.

Section Model.
Variable H : blob -> hash.                 (* Keccak-256 *)
Variable dec : blob -> option nodeview.    (* decodeNode *)

(* Sync.AddSubTrie *)
Definition add_sub_trie (s : sync) (root : hash) (depth : N) (parent : hash) (cb : bool) : sync :=
  if N.eqb root empty_root then s
  else if has (s_mem s) root then s
  else if match get (s_db s) root with
          | Some b => match dec b with Some _ => true | None => false end
          | None => false end then s
  else link_and_schedule s (mkReq root None false [] depth 0 cb) parent.

(* Sync.AddRawEntry *)
Definition add_raw_entry (s : sync) (h : hash) (depth : N) (parent : hash) : sync :=
  if N.eqb h empty_state then s
  else if has (s_mem s) h then s
  else if has (s_db s) h then s
  else link_and_schedule s (mkReq h None true [] depth 0 false) parent.

(* the callback of state.NewStateSync; None = error *)
Definition state_callback (s : sync) (p : payload) (parent : hash) : option sync :=
  match p with
  | PErr => None
  | PAcct a =>
    let s1 := add_sub_trie s (a_root a) 64 parent false in
    let s2 := add_raw_entry s1 (a_code a) 64 parent in
    Some (if N.eqb (a_dlen a) 32 then add_raw_entry s2 (a_deleg a) 64 parent else s2)
  end.

(* Sync.children: the child requests to schedule (not yet scheduled) and the
   state after the callback ran; None = callback error *)
Definition children (s : sync) (req : request) (nv : nodeview) : option (sync * list request) :=
  let unknown := filter (fun h => negb (has (s_mem s) h) && negb (has (s_db s) h)) (nv_kids nv) in
  let reqs := map (fun h => mkReq h None false [r_hash req] (r_depth req + nv_inc nv) 0 (r_cb req)) unknown in
  match (if r_cb req then nv_val nv else None) with
  | None => Some (s, reqs)
  | Some p => match state_callback s p (r_hash req) with
              | None => None
              | Some s' => Some (s', reqs)
              end
  end.

(* Sync.commit *)
Fixpoint commit (fuel : nat) (s : sync) (req : request) : sync :=
  match fuel with
  | O => s
  | S f =>
    let mem' := match r_data req with Some b => s_mem s ++ [(r_hash req, b)] | None => s_mem s end in
    let s1 := mkSync (s_db s) mem' (del_req (s_reqs s) (r_hash req)) (s_queue s) in
    fold_left (fun st p =>
      match find_req (s_reqs st) p with
      | None => st
      | Some pr =>
        let pr' := with_deps pr (r_deps pr - 1) in
        let st' := set_reqs st (put_req (s_reqs st) pr') in
        if Z.eqb (r_deps pr') 0 then commit f st' pr' else st'
      end) (r_parents req) s1
  end.

Definition fuel_of (s : sync) : nat := S (length (s_reqs s)).

Inductive perr := ENone | ENotRequested | EAlready | EDecode | ECallback.

(* Sync.Process; result = (committed, index, error) *)
Fixpoint process_from (i : N) (committed : bool) (s : sync) (items : list (hash * blob))
  : sync * (bool * N * perr) :=
  match items with
  | [] => (s, (committed, 0, ENone))
  | (h, b) :: rest =>
    match find_req (s_reqs s) h with
    | None => (s, (committed, i, ENotRequested))
    | Some r =>
      match r_data r with
      | Some _ => (s, (committed, i, EAlready))
      | None =>
        if r_raw r then
          let r1 := with_data r b in
          let s1 := set_reqs s (put_req (s_reqs s) r1) in
          process_from (i + 1) true (commit (fuel_of s1) s1 r1) rest
        else
          match dec b with
          | None => (s, (committed, i, EDecode))
          | Some nv =>
            let r1 := with_data r b in
            let s1 := set_reqs s (put_req (s_reqs s) r1) in
            match children s1 r1 nv with
            | None => (s1, (committed, i, ECallback))
            | Some (s2, reqs) =>
              (* the callback may have changed the request object (deps, parents) *)
              match find_req (s_reqs s2) h with
              | None => (s2, (committed, i, ENotRequested))   (* unreachable *)
              | Some r2 =>
                if (Nat.eqb (length reqs) 0) && Z.eqb (r_deps r2) 0 then
                  process_from (i + 1) true (commit (fuel_of s2) s2 r2) rest
                else
                  let r3 := with_deps r2 (r_deps r2 + Z.of_nat (length reqs)) in
                  let s3 := set_reqs s2 (put_req (s_reqs s2) r3) in
                  process_from (i + 1) committed (fold_left schedule reqs s3) rest
              end
            end
          end
      end
    end
  end.

Definition process (s : sync) (items : list (hash * blob)) := process_from 0 false s items.

(* trieSync.processNodeData: the caller hashes the blob *)
Definition deliver (s : sync) (b : blob) : sync * (bool * N * perr) := process s [(H b, b)].

(* trie.NewSync / state.NewStateSync *)
Definition new_sync (root : hash) (cb : bool) (db : store) : sync :=
  add_sub_trie (mkSync db [] [] []) root 0 zero_hash cb.

(* Sync.Commit into the database.  [lim = Some k]: the writer fails on the
   (k+1)-th Put; the first k writes stay, the membatch is kept.
   Result = (written / index, failed). *)
Definition commit_db (s : sync) (lim : option N) : sync * (N * bool) :=
  let n := N.of_nat (length (s_mem s)) in
  match lim with
  | Some k =>
    if N.ltb k n then
      (mkSync (rev (firstn (N.to_nat k) (s_mem s)) ++ s_db s) (s_mem s) (s_reqs s) (s_queue s), (k, true))
    else (mkSync (rev (s_mem s) ++ s_db s) [] (s_reqs s) (s_queue s), (n, false))
  | None => (mkSync (rev (s_mem s) ++ s_db s) [] (s_reqs s) (s_queue s), (n, false))
  end.

Definition pending (s : sync) : N := N.of_nat (length (s_reqs s)).

(* Sync.Missing, checked against the observed pops *)
Definition max_prio (q : list (hash * N)) : N := fold_left (fun m e => N.max m (snd e)) q 0.
Fixpoint remove_entry (q : list (hash * N)) (h : hash) (d : N) : option (list (hash * N)) :=
  match q with
  | [] => None
  | e :: t => if N.eqb (fst e) h && N.eqb (snd e) d then Some t
              else match remove_entry t h d with Some t' => Some (e :: t') | None => None end
  end.
Fixpoint pop_all (q : list (hash * N)) (got : list hash) : option (list (hash * N)) :=
  match got with
  | [] => Some q
  | g :: r => match remove_entry q g (max_prio q) with
              | Some q' => pop_all q' r
              | None => None
              end
  end.
Definition missing (s : sync) (max : N) (got : list hash) : option sync :=
  let n := N.of_nat (length (s_queue s)) in
  let want := if N.eqb max 0 then n else N.min max n in
  if N.eqb (N.of_nat (length got)) want then
    match pop_all (s_queue s) got with
    | Some q' => Some (mkSync (s_db s) (s_mem s) (s_reqs s) q')
    | None => None
    end
  else None.

(* ---- operations and histories ------------------------------------------ *)
Inductive op :=
| OProcess (items : list (hash * blob))
| ODeliver (b : blob)
| OCommit (lim : option N)
| ORestart.

Definition step (root : hash) (cb : bool) (s : sync) (o : op) : sync :=
  match o with
  | OProcess items => fst (process s items)
  | ODeliver b => fst (deliver s b)
  | OCommit lim => fst (commit_db s lim)
  | ORestart => new_sync root cb (s_db s)
  end.

Definition run (root : hash) (cb : bool) (db0 : store) (ops : list op) : sync :=
  fold_left (step root cb) ops (new_sync root cb db0).

End Model.

(* ---- correspondence runner ---------------------------------------------- *)

Definition perr_code (e : perr) : N :=
  match e with ENone => 0 | ENotRequested => 1 | EAlready => 2 | EDecode => 3 | ECallback => 4 end.

Record dreq := mkDreq {
  d_hash : hash; d_raw : bool; d_hasdata : bool; d_cb : bool;
  d_depth : N; d_deps : Z; d_parents : list hash }.

(* observed operations: inputs + what the implementation returned *)
Inductive oop :=
| XMissing (max : N) (got : list hash)
| XProcess (items : list (hash * blob)) (committed : bool) (idx : N) (err : N)
| XDeliver (b : blob) (h : hash) (committed : bool) (err : N)
| XCommit (lim : option N) (written : N) (failed : bool)
| XRestart
| XPending (n : N)
| XDump (reqs : list dreq) (memorder : list hash) (db : store).

Record case := mkCase {
  c_hash : list (blob * hash);         (* Keccak of every blob of the case *)
  c_dec : list (blob * nodeview);      (* decodeNode of every decodable blob *)
  c_root : hash;
  c_cb : bool;                         (* state.NewStateSync (true) or trie.NewSync(.., nil) *)
  c_db0 : store;                       (* destination database before the sync *)
  c_ops : list oop }.

Fixpoint tbl_get {A} (t : list (N * A)) (k : N) : option A :=
  match t with
  | [] => None
  | (x, v) :: r => if N.eqb x k then Some v else tbl_get r k
  end.

Definition list_eqb {A} (e : A -> A -> bool) :=
  fix go (a b : list A) : bool :=
    match a, b with
    | [], [] => true
    | x :: a', y :: b' => e x y && go a' b'
    | _, _ => false
    end.

Definition dreq_ok (l : list request) (d : dreq) : bool :=
  match find_req l (d_hash d) with
  | None => false
  | Some r =>
    Bool.eqb (r_raw r) (d_raw d)
    && Bool.eqb (match r_data r with Some _ => true | None => false end) (d_hasdata d)
    && Bool.eqb (r_cb r) (d_cb d)
    && N.eqb (r_depth r) (d_depth d)
    && Z.eqb (r_deps r) (d_deps d)
    && list_eqb N.eqb (r_parents r) (d_parents d)
  end.

Definition store_ok (model obs : store) : bool :=
  forallb (fun e => match get model (fst e) with Some b => N.eqb b (snd e) | None => false end) obs
  && forallb (fun e => has obs (fst e)) model.

Definition ostep (H : blob -> hash) (dec : blob -> option nodeview) (root : hash) (cb : bool)
           (s : sync) (o : oop) : option sync :=
  match o with
  | XMissing max got => missing s max got
  | XProcess items c i e =>
    let '(s', (c', i', e')) := process dec s items in
    if Bool.eqb c c' && N.eqb i i' && N.eqb e (perr_code e') then Some s' else None
  | XDeliver b h c e =>
    let '(s', (c', _, e')) := deliver H dec s b in
    if N.eqb h (H b) && Bool.eqb c c' && N.eqb e (perr_code e') then Some s' else None
  | XCommit lim w f =>
    let '(s', (w', f')) := commit_db s lim in
    if N.eqb w w' && Bool.eqb f f' then Some s' else None
  | XRestart => Some (new_sync dec root cb (s_db s))
  | XPending n => if N.eqb n (pending s) then Some s else None
  | XDump reqs order db =>
    if Nat.eqb (length reqs) (length (s_reqs s)) && forallb (dreq_ok (s_reqs s)) reqs
       && list_eqb N.eqb order (map fst (s_mem s)) && store_ok (s_db s) db
    then Some s else None
  end.

Fixpoint orun (H : blob -> hash) (dec : blob -> option nodeview) (root : hash) (cb : bool)
         (s : sync) (ops : list oop) : bool :=
  match ops with
  | [] => true
  | o :: r => match ostep H dec root cb s o with
              | Some s' => orun H dec root cb s' r
              | None => false
              end
  end.

Definition case_ok (c : case) : bool :=
  let H := fun b => match tbl_get (c_hash c) b with Some h => h | None => zero_hash end in
  let dec := tbl_get (c_dec c) in
  orun H dec (c_root c) (c_cb c) (new_sync dec (c_root c) (c_cb c) (c_db0 c)) (c_ops c).

Fixpoint mismatches_from (i : N) (l : list case) : list N :=
  match l with
  | [] => []
  | c :: r => if case_ok c then mismatches_from (i + 1) r else i :: mismatches_from (i + 1) r
  end.
Definition mismatches := mismatches_from 0.
