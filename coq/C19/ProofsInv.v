(* C19 - the scheduler invariant and its preservation by Sync.commit. *)
From VF.C19 Require Import Model Proofs.
From Coq Require Import Lia ZifyBool ZifyN ZifyNat.
Local Open Scope N_scope.

Section Inv.
Variable H : blob -> hash.
Variable dec : blob -> option nodeview.
Variable cb0 : bool.     (* the sync was created with the state callback *)
Variable root : hash.

(* what the callback asks for on behalf of an account leaf *)
Definition acct_targets (a : acct) : list hash :=
  (if N.eqb (a_root a) empty_root then [] else [a_root a]) ++
  (if N.eqb (a_code a) empty_state then [] else [a_code a]) ++
  (if N.eqb (a_dlen a) 32 && negb (N.eqb (a_deleg a) empty_state) then [a_deleg a] else []).

Definition val_targets (v : option payload) : list hash :=
  match v with Some (PAcct a) => acct_targets a | _ => [] end.

(* everything a stored node needs next to it *)
Definition required (nv : nodeview) : list hash :=
  nv_kids nv ++ (if cb0 then val_targets (nv_val nv) else []).

Definition Closed1 (l : store) (b : blob) : Prop :=
  forall nv, dec b = Some nv -> forall c, In c (required nv) -> has l c = true.

(* ordered closedness: every entry hashes to its key and everything it needs
   is in the OLDER part of the list *)
Fixpoint OC (l : store) : Prop :=
  match l with
  | [] => True
  | (h, b) :: l1 => H b = h /\ Closed1 l1 b /\ OC l1
  end.

Definition store_of (s : sync) : store := rev (s_mem s) ++ s_db s.

(* hashes asked for as raw entries / as nodes of a storage trie by some account *)
Definition RawHash (h : hash) : Prop :=
  exists b nv a, dec b = Some nv /\ nv_val nv = Some (PAcct a) /\
                 (h = a_code a \/ (a_dlen a = 32 /\ h = a_deleg a)).

Inductive Sto : hash -> Prop :=
| sto_root : forall b nv a, dec b = Some nv -> nv_val nv = Some (PAcct a) -> Sto (a_root a)
| sto_kid : forall b nv k, Sto (H b) -> dec b = Some nv -> In k (nv_kids nv) -> Sto k.

(* the hypotheses that exclude the finding class (see Properties.v) *)
Definition no_zero : Prop := forall b, H b <> zero_hash.
Definition raw_node_separate : Prop :=
  cb0 = true -> forall b nv, RawHash (H b) -> dec b = Some nv -> required nv = [].
Definition storage_account_separate : Prop :=
  cb0 = true -> forall b nv a, Sto (H b) -> dec b = Some nv -> nv_val nv <> Some (PAcct a).

Hypothesis Hz : no_zero.
Hypothesis K1 : raw_node_separate.
Hypothesis K2 : storage_account_separate.

Definition stuck (r : request) (nv : nodeview) : Prop := r_cb r = true /\ nv_val nv = Some PErr.
Definition expanded (r : request) : Prop :=
  exists b nv, r_data r = Some b /\ dec b = Some nv /\ ~ stuck r nv.

Definition mode_ok (r : request) : Prop :=
  (cb0 = false -> r_cb r = false /\ r_raw r = false) /\
  (cb0 = true -> (r_cb r = false -> r_raw r = false -> Sto (r_hash r)) /\
                 (r_raw r = true -> RawHash (r_hash r))).

Record WInv (extra : hash -> Z) (eps : list hash) (pend : hash -> hash -> Prop) (s : sync) : Prop := mkWInv {
  w_oc : OC (store_of s);
  w_uniq : NoDup (map r_hash (s_reqs s));
  w_extra : forall q, (0 <= extra q)%Z;
  w_refs : forall q r, find_req (s_reqs s) q = Some r ->
           (count_refs (s_reqs s) q + extra q <= r_deps r)%Z;
  w_par : forall q r p, find_req (s_reqs s) q = Some r -> In p (r_parents r) ->
           exists pr, find_req (s_reqs s) p = Some pr /\ expanded pr;
  w_eps : forall p pr, In p eps -> find_req (s_reqs s) p = Some pr -> expanded pr;
  w_kids : forall q r b, find_req (s_reqs s) q = Some r -> r_data r = Some b ->
           H b = q /\ r_raw r = false /\
           exists nv, dec b = Some nv /\
             (stuck r nv \/
              forall c, In c (required nv) ->
                has (store_of s) c = true \/
                (exists rc, find_req (s_reqs s) c = Some rc /\ In q (r_parents rc)) \/
                pend q c);
  w_mode : forall q r, find_req (s_reqs s) q = Some r -> mode_ok r;
  w_root : root = empty_root \/ (exists r, find_req (s_reqs s) root = Some r) \/
           has (store_of s) root = true
}.

Definition nopend : hash -> hash -> Prop := fun _ _ => False.
Definition pendL (h : hash) (todo : list hash) : hash -> hash -> Prop :=
  fun q c => q = h /\ In c todo.
Definition ex0 : hash -> Z := fun _ => 0%Z.
Definition exh (h : hash) (n : Z) : hash -> Z := fun q => if N.eqb q h then n else 0%Z.
Definition addocc (extra : hash -> Z) (ps : list hash) : hash -> Z := fun q => (extra q + occ q ps)%Z.

Definition Inv (s : sync) : Prop := WInv ex0 [] nopend s.

Lemma WInv_weaken : forall extra eps pend extra' eps' (pend' : hash -> hash -> Prop) s,
  WInv extra eps pend s ->
  (forall q, 0 <= extra' q <= extra q)%Z -> incl eps' eps ->
  (forall q c, pend q c -> pend' q c) ->
  WInv extra' eps' pend' s.
Proof.
  intros extra eps pend extra' eps' pend' s W E I P. destruct W.
  constructor; try assumption.
  - intro q. apply E.
  - intros q r F. specialize (w_refs0 q r F). specialize (E q). lia.
  - intros p pr A F. eapply w_eps0; eauto.
  - intros q r b F D. destruct (w_kids0 q r b F D) as (A & B & nv & C & K).
    split; [assumption|]. split; [assumption|]. exists nv. split; [assumption|].
    destruct K as [K|K]; [now left|right].
    intros c I'. destruct (K c I') as [X|[X|X]]; auto.
Qed.

(* ---- OC facts ---------------------------------------------------------------- *)

Lemma Closed1_mono : forall l l' b, (forall c, has l c = true -> has l' c = true) ->
  Closed1 l b -> Closed1 l' b.
Proof. intros l l' b M C nv D c I. apply M. eapply C; eauto. Qed.

Lemma OC_app_r : forall l1 l2, OC (l1 ++ l2) -> OC l2.
Proof. induction l1 as [|[k b] l1 IH]; intros l2 O; cbn [app OC] in *; [assumption | apply IH; tauto]. Qed.

Lemma OC_insert : forall A B C, OC (A ++ C) -> OC (B ++ C) -> OC (A ++ B ++ C).
Proof.
  induction A as [|[k b] A IH]; intros B C O1 O2; cbn [app OC] in *; [assumption|].
  destruct O1 as (E & Cl & O). split; [assumption|]. split; [|now apply IH].
  eapply Closed1_mono; [|exact Cl].
  intros c. rewrite !has_app. intro X. apply orb_true_iff in X. destruct X as [X|X]; rewrite X.
  - reflexivity.
  - rewrite !orb_true_r. reflexivity.
Qed.

(* ---- the head of Sync.commit: store the data, delete the request ------------- *)

Definition head (s : sync) (h : hash) (b : blob) : sync :=
  mkSync (s_db s) (s_mem s ++ [(h, b)]) (del_req (s_reqs s) h) (s_queue s).

Lemma store_head : forall s h b, store_of (head s h b) = (h, b) :: store_of s.
Proof. intros. unfold store_of, head. cbn [s_mem s_db]. rewrite rev_app_distr. reflexivity. Qed.

Lemma has_store_head : forall s h b c, has (store_of s) c = true -> has (store_of (head s h b)) c = true.
Proof.
  intros s h b c X. rewrite store_head. unfold has in *. cbn [get].
  destruct (N.eqb h c); [reflexivity | assumption].
Qed.

Lemma has_head_self : forall s h b, has (store_of (head s h b)) h = true.
Proof. intros. rewrite store_head. unfold has. cbn [get]. now rewrite N.eqb_refl. Qed.

Lemma head_inv : forall extra eps s h r b,
  WInv extra eps nopend s ->
  find_req (s_reqs s) h = Some r ->
  count_refs (s_reqs s) h = 0%Z ->
  H b = h -> Closed1 (store_of s) b ->
  WInv (addocc extra (r_parents r)) (r_parents r ++ eps) nopend (head s h b).
Proof.
  intros extra eps s h r b W F C0 Hb Cl.
  assert (NP : forall q rq, find_req (s_reqs s) q = Some rq -> ~ In h (r_parents rq)).
  { intros q rq Fq I. pose proof (count_refs_ge _ _ _ _ Fq I). lia. }
  destruct W.
  constructor.
  - rewrite store_head. cbn [OC]. auto.
  - cbn [head s_reqs]. now apply nodup_del.
  - intro q. unfold addocc. pose proof (occ_nonneg q (r_parents r)). specialize (w_extra0 q). lia.
  - cbn [head s_reqs]. intros q rq Fq. rewrite find_del in Fq.
    destruct (N.eqb h q) eqn:E; [discriminate|].
    rewrite (count_refs_del _ _ _ _ w_uniq0 F). unfold addocc.
    specialize (w_refs0 q rq Fq). lia.
  - cbn [head s_reqs]. intros q rq p Fq I. rewrite find_del in Fq.
    destruct (N.eqb h q) eqn:E; [discriminate|].
    destruct (w_par0 q rq p Fq I) as (pr & Fp & X). exists pr. split; [|assumption].
    rewrite find_del. destruct (N.eqb h p) eqn:E2; [|assumption].
    apply N.eqb_eq in E2. subst p. exfalso. exact (NP _ _ Fq I).
  - cbn [head s_reqs]. intros p pr I Fp. rewrite find_del in Fp.
    destruct (N.eqb h p) eqn:E; [discriminate|].
    apply in_app_or in I. destruct I as [I|I].
    + destruct (w_par0 h r p F I) as (pr' & Fp' & X). congruence.
    + eapply w_eps0; eauto.
  - cbn [head s_reqs]. intros q rq bq Fq D. rewrite find_del in Fq.
    destruct (N.eqb h q) eqn:E; [discriminate|].
    destruct (w_kids0 q rq bq Fq D) as (A & B & nv & Dn & K).
    split; [assumption|]. split; [assumption|]. exists nv. split; [assumption|].
    destruct K as [K|K]; [now left|right].
    intros c I. destruct (K c I) as [X|[(rc & Fc & Ic)|[]]].
    + left. now apply has_store_head.
    + destruct (N.eqb h c) eqn:E2.
      * apply N.eqb_eq in E2. subst c. left. apply has_head_self.
      * right. left. exists rc. split; [|assumption]. rewrite find_del, E2. assumption.
  - cbn [head s_reqs]. intros q rq Fq. rewrite find_del in Fq.
    destruct (N.eqb h q) eqn:E; [discriminate|]. eapply w_mode0; eauto.
  - destruct w_root0 as [X|[(rr & X)|X]]; [now left | | right; right; now apply has_store_head].
    destruct (N.eqb h root) eqn:E.
    + apply N.eqb_eq in E. subst. right. right. apply has_head_self.
    + right. left. exists rr. cbn [head s_reqs]. rewrite find_del, E. assumption.
Qed.

(* changing only the dependency counter of one pending request *)
Lemma put_deps_inv : forall extra extra' eps pend s p pr d,
  WInv extra eps pend s ->
  find_req (s_reqs s) p = Some pr ->
  (forall q, 0 <= extra' q)%Z ->
  (forall q, q <> p -> extra' q <= extra q)%Z ->
  (count_refs (s_reqs s) p + extra' p <= d)%Z ->
  WInv extra' eps pend (set_reqs s (put_req (s_reqs s) (with_deps pr d))).
Proof.
  intros extra extra' eps pend s p pr d W F E0 E1 E2.
  pose proof (find_req_hash _ _ _ F) as HP.
  assert (FP : forall q, find_req (put_req (s_reqs s) (with_deps pr d)) q =
                         if N.eqb p q then Some (with_deps pr d) else find_req (s_reqs s) q).
  { intro q. rewrite find_put. cbn [with_deps r_hash]. rewrite HP.
    destruct (N.eqb p q) eqn:E; [|reflexivity]. apply N.eqb_eq in E. subst q. now rewrite F. }
  assert (CR : forall q, count_refs (put_req (s_reqs s) (with_deps pr d)) q = count_refs (s_reqs s) q).
  { intro q. destruct W. rewrite (count_refs_put _ _ pr q w_uniq0); [cbn [with_deps r_parents]; lia|].
    cbn [with_deps r_hash]. now rewrite HP. }
  assert (EX : forall r, expanded r -> expanded (with_deps r d)).
  { intros r (b & nv & A & B & C). exists b, nv. auto. }
  destruct W. constructor; cbn [set_reqs s_reqs]; unfold store_of in *; cbn [set_reqs s_mem s_db] in *.
  - assumption.
  - now rewrite keys_put.
  - assumption.
  - intros q r Fq. rewrite FP in Fq. rewrite CR. destruct (N.eqb p q) eqn:E.
    + apply N.eqb_eq in E. subst q. injection Fq as <-. cbn [with_deps r_deps]. assumption.
    + apply N.eqb_neq in E. specialize (w_refs0 q r Fq). specialize (E1 q). lia.
  - intros q r p' Fq I. rewrite FP in Fq.
    assert (exists r0, find_req (s_reqs s) q = Some r0 /\ r_parents r0 = r_parents r) as (r0 & F0 & P0).
    { destruct (N.eqb p q) eqn:E.
      - apply N.eqb_eq in E. subst q. injection Fq as <-. exists pr. auto.
      - exists r. auto. }
    rewrite <- P0 in I. destruct (w_par0 q r0 p' F0 I) as (pr' & Fp' & X).
    rewrite FP. destruct (N.eqb p p') eqn:E.
    + apply N.eqb_eq in E. subst p'. exists (with_deps pr d). split; [reflexivity|]. apply EX. congruence.
    + exists pr'. auto.
  - intros p' pr' I Fp'. rewrite FP in Fp'. destruct (N.eqb p p') eqn:E.
    + apply N.eqb_eq in E. subst p'. injection Fp' as <-. apply EX. eapply w_eps0; eauto.
    + eapply w_eps0; eauto.
  - intros q r b Fq D. rewrite FP in Fq.
    assert (exists r0, find_req (s_reqs s) q = Some r0 /\ r_data r0 = Some b /\ r_raw r0 = r_raw r /\ r_cb r0 = r_cb r) as (r0 & F0 & D0 & R0 & C0).
    { destruct (N.eqb p q) eqn:E.
      - apply N.eqb_eq in E. subst q. injection Fq as <-. exists pr. auto.
      - exists r. auto. }
    destruct (w_kids0 q r0 b F0 D0) as (A & B & nv & Dn & K).
    split; [assumption|]. split; [congruence|]. exists nv. split; [assumption|].
    destruct K as [K|K]; [left; unfold stuck in *; rewrite <- C0; assumption|right].
    intros c I. destruct (K c I) as [X|[(rc & Fc & Ic)|X]]; auto.
    right. left. rewrite FP. destruct (N.eqb p c) eqn:E.
    + apply N.eqb_eq in E. subst c. exists (with_deps pr d). split; [reflexivity|].
      cbn [with_deps r_parents]. congruence.
    + exists rc. auto.
  - intros q r Fq. rewrite FP in Fq. destruct (N.eqb p q) eqn:E.
    + injection Fq as <-. specialize (w_mode0 p pr F). unfold mode_ok in *. cbn [with_deps r_cb r_raw r_hash]. assumption.
    + eapply w_mode0; eauto.
  - destruct w_root0 as [X|[(rr & X)|X]]; auto. right. left. rewrite FP.
    destruct (N.eqb p root); eauto.
Qed.

(* a pending, expanded request that nobody waits for has everything it needs *)
Lemma zero_refs_closed : forall extra eps s p pr,
  WInv extra eps nopend s ->
  find_req (s_reqs s) p = Some pr -> expanded pr ->
  count_refs (s_reqs s) p = 0%Z ->
  exists b, r_data pr = Some b /\ H b = p /\ Closed1 (store_of s) b.
Proof.
  intros extra eps s p pr W F (b & nv & D & Dn & NS) C0.
  exists b. split; [assumption|].
  destruct (w_kids _ _ _ _ W p pr b F D) as (A & B & nv' & Dn' & K).
  split; [assumption|]. rewrite Dn in Dn'. injection Dn' as <-.
  destruct K as [K|K]; [contradiction|].
  intros nv' Dn' c I. rewrite Dn in Dn'. injection Dn' as <-.
  destruct (K c I) as [X|[(rc & Fc & Ic)|[]]]; [assumption|].
  pose proof (count_refs_ge _ _ _ _ Fc Ic). lia.
Qed.

(* ---- Sync.commit ---------------------------------------------------------------- *)

Definition notify_step (f : nat) (st : sync) (p : hash) : sync :=
  match find_req (s_reqs st) p with
  | None => st
  | Some pr =>
    let pr' := with_deps pr (r_deps pr - 1) in
    let st' := set_reqs st (put_req (s_reqs st) pr') in
    if Z.eqb (r_deps pr') 0 then commit f st' pr' else st'
  end.

Lemma commit_S : forall f s req b, r_data req = Some b ->
  commit (S f) s req = fold_left (notify_step f) (r_parents req) (head s (r_hash req) b).
Proof. intros f s req b D. cbn [commit]. rewrite D. reflexivity. Qed.

Lemma del_put : forall l r, del_req (put_req l r) (r_hash r) = del_req l (r_hash r).
Proof.
  induction l as [|x l IH]; intro r; cbn [put_req del_req]; [reflexivity|].
  destruct (N.eqb (r_hash x) (r_hash r)) eqn:E.
  - cbn [del_req]. rewrite N.eqb_refl. reflexivity.
  - cbn [del_req]. rewrite E, IH. reflexivity.
Qed.

Definition commit_spec (f : nat) : Prop :=
  forall st p pr extra eps, (forall q, 0 <= extra q)%Z ->
    WInv extra eps nopend st -> find_req (s_reqs st) p = Some pr -> expanded pr ->
    count_refs (s_reqs st) p = 0%Z ->
    WInv extra eps nopend (commit f st pr).

Definition notify_spec (f : nat) : Prop :=
  forall ps st extra eps, (forall q, 0 <= extra q)%Z ->
    WInv (addocc extra ps) (ps ++ eps) nopend st ->
    WInv extra eps nopend (fold_left (notify_step f) ps st).

Lemma expanded_with_deps : forall r d, expanded r -> expanded (with_deps r d).
Proof. intros r d (b & nv & A & B & C). exists b, nv. auto. Qed.

Lemma notify_from_commit : forall f, commit_spec f -> notify_spec f.
Proof.
  intros f CS. unfold notify_spec.
  induction ps as [|p ps IH]; intros st extra eps E0 W; cbn [fold_left].
  - eapply WInv_weaken; eauto.
    + intro q. unfold addocc. rewrite occ_nil. specialize (E0 q). lia.
    + apply incl_refl.
  - apply IH; [assumption|]. unfold notify_step.
    destruct (find_req (s_reqs st) p) as [pr|] eqn:F.
    + assert (W' : WInv (addocc extra ps) (ps ++ eps) nopend
                     (set_reqs st (put_req (s_reqs st) (with_deps pr (r_deps pr - 1))))).
      { eapply put_deps_inv with (extra := addocc extra (p :: ps)).
        - eapply WInv_weaken; eauto.
          + intro q. pose proof (w_extra _ _ _ _ W q). lia.
          + cbn [app]. apply incl_tl, incl_refl.
        - exact F.
        - intro q. unfold addocc. pose proof (occ_nonneg q ps). specialize (E0 q). lia.
        - intros q NE. unfold addocc. rewrite occ_cons.
          destruct (N.eqb p q) eqn:E; [apply N.eqb_eq in E; congruence | lia].
        - pose proof (w_refs _ _ _ _ W p pr F) as X. unfold addocc in *. rewrite occ_cons, N.eqb_refl in X. lia. }
      destruct (Z.eqb (r_deps (with_deps pr (r_deps pr - 1))) 0) eqn:EZ; [|exact W'].
      apply Z.eqb_eq in EZ.
      assert (FP : find_req (s_reqs (set_reqs st (put_req (s_reqs st) (with_deps pr (r_deps pr - 1))))) p
                   = Some (with_deps pr (r_deps pr - 1))).
      { cbn [set_reqs s_reqs]. rewrite find_put. cbn [with_deps r_hash].
        rewrite (find_req_hash _ _ _ F), N.eqb_refl, F. reflexivity. }
      apply CS with (p := p); try assumption.
      * intro q. unfold addocc. pose proof (occ_nonneg q ps). specialize (E0 q). lia.
      * apply expanded_with_deps. eapply (w_eps _ _ _ _ W p pr); [now left | assumption].
      * pose proof (w_refs _ _ _ _ W' p _ FP) as X. rewrite EZ in X.
        pose proof (count_refs_nonneg (s_reqs (set_reqs st (put_req (s_reqs st) (with_deps pr (r_deps pr - 1))))) p).
        unfold addocc in X. pose proof (occ_nonneg p ps). specialize (E0 p). lia.
    + eapply WInv_weaken; eauto.
      * intro q. unfold addocc. rewrite occ_cons. pose proof (occ_nonneg q ps). specialize (E0 q).
        destruct (N.eqb p q); lia.
      * cbn [app]. apply incl_tl, incl_refl.
Qed.

Lemma commit_from_notify : forall f, notify_spec f -> commit_spec (S f).
Proof.
  intros f NS st p pr extra eps E0 W F X C0.
  destruct (zero_refs_closed _ _ _ _ _ W F X C0) as (b & D & Hb & Cl).
  rewrite (commit_S _ _ _ _ D). rewrite (find_req_hash _ _ _ F).
  apply NS; [assumption|]. eapply head_inv; eauto.
Qed.

Lemma commit_spec_all : forall f, commit_spec f.
Proof.
  induction f as [|f IH].
  - intros st p pr extra eps E0 W F X C0. exact W.
  - apply commit_from_notify, notify_from_commit, IH.
Qed.


Lemma notify_spec_all : forall f, notify_spec f.
Proof. intro f. apply notify_from_commit, commit_spec_all. Qed.

(* ---- scheduling ---------------------------------------------------------------- *)

Definition live (s : sync) (q : hash) : Prop := exists r, find_req (s_reqs s) q = Some r.

Lemma WInv_pend_known : forall extra eps h c todo s,
  WInv extra eps (pendL h (c :: todo)) s -> has (store_of s) c = true ->
  WInv extra eps (pendL h todo) s.
Proof.
  intros extra eps h c todo s W X. destruct W. constructor; try assumption.
  intros q r b Fq D. destruct (w_kids0 q r b Fq D) as (A & B & nv & Dn & K).
  split; [assumption|]. split; [assumption|]. exists nv. split; [assumption|].
  destruct K as [K|K]; [now left|right]. intros c' I.
  destruct (K c' I) as [Y|[Y|(Y1 & [Y2|Y2])]]; auto.
  - subst c'. now left.
  - right. right. split; assumption.
Qed.

Lemma WInv_add_eps : forall extra eps pend h s,
  WInv extra eps pend s -> (forall pr, find_req (s_reqs s) h = Some pr -> expanded pr) ->
  WInv extra (h :: eps) pend s.
Proof.
  intros extra eps pend h s W X. destruct W. constructor; try assumption.
  intros p pr [<-|I] F; [now apply X | eapply w_eps0; eauto].
Qed.

Lemma expanded_with_parents : forall r ps, expanded r -> expanded (with_parents r ps).
Proof. intros r ps (b & nv & A & B & C). exists b, nv. auto. Qed.

Lemma no_live_no_refs : forall extra eps pend s c,
  WInv extra eps pend s -> find_req (s_reqs s) c = None -> count_refs (s_reqs s) c = 0%Z.
Proof.
  intros extra eps pend s c W F.
  pose proof (count_refs_nonneg (s_reqs s) c).
  destruct (Z.leb 1 (count_refs (s_reqs s) c)) eqn:E; [|lia].
  destruct (count_refs_witness (s_reqs s) c) as (q & r & Fq & I); [lia | apply (w_uniq _ _ _ _ W) |].
  destruct (w_par _ _ _ _ W q r c Fq I) as (pr & Fc & _). congruence.
Qed.

Lemma schedule_inv : forall n todo st h c raw depth cb,
  WInv (exh h n) [h] (pendL h (c :: todo)) st ->
  (1 <= n)%Z -> live st h ->
  mode_ok (mkReq c None raw [h] depth 0 cb) ->
  WInv (exh h (n - 1)) [h] (pendL h todo) (schedule st (mkReq c None raw [h] depth 0 cb)) /\
  (forall q, live st q -> live (schedule st (mkReq c None raw [h] depth 0 cb)) q).
Proof.
  intros n todo st h c raw depth cb W N1 (rh & Fh) M.
  assert (EXH : expanded rh) by (eapply (w_eps _ _ _ _ W h rh); [now left | assumption]).
  unfold schedule. cbn [r_hash r_parents r_depth].
  destruct (find_req (s_reqs st) c) as [old|] eqn:Fc.
  - (* merge into the pending request *)
    pose proof (find_req_hash _ _ _ Fc) as HC.
    set (old' := with_parents old (r_parents old ++ [h])).
    assert (FP : forall q, find_req (put_req (s_reqs st) old') q =
                           if N.eqb c q then Some old' else find_req (s_reqs st) q).
    { intro q. rewrite find_put. unfold old'. cbn [with_parents r_hash]. rewrite HC.
      destruct (N.eqb c q) eqn:E; [|reflexivity]. apply N.eqb_eq in E. subst q. now rewrite Fc. }
    assert (CR : forall q, count_refs (put_req (s_reqs st) old') q =
                           (count_refs (s_reqs st) q + (if N.eqb h q then 1 else 0))%Z).
    { intro q. rewrite (count_refs_put _ _ old q (w_uniq _ _ _ _ W)).
      - unfold old'. cbn [with_parents r_parents]. rewrite occ_app, occ_cons, occ_nil. lia.
      - unfold old'. cbn [with_parents r_hash]. now rewrite HC. }
    split.
    + destruct W. constructor; cbn [set_reqs s_reqs]; unfold store_of in *; cbn [set_reqs s_mem s_db] in *.
      * assumption.
      * now rewrite keys_put.
      * intro q. unfold exh. destruct (N.eqb q h); lia.
      * intros q r Fq. rewrite FP in Fq. rewrite CR.
        assert (exists r0, find_req (s_reqs st) q = Some r0 /\ r_deps r0 = r_deps r) as (r0 & F0 & D0).
        { destruct (N.eqb c q) eqn:E.
          - apply N.eqb_eq in E. subst q. injection Fq as <-. exists old. auto.
          - exists r. auto. }
        specialize (w_refs0 q r0 F0). unfold exh in *. rewrite (N.eqb_sym h q).
        destruct (N.eqb q h); lia.
      * intros q r p Fq I. rewrite FP in Fq.
        assert (PL : exists pr, find_req (s_reqs st) p = Some pr /\ expanded pr).
        { destruct (N.eqb c q) eqn:E.
          - apply N.eqb_eq in E. subst q. injection Fq as <-. unfold old' in I. cbn [with_parents r_parents] in I.
            apply in_app_or in I. destruct I as [I|[<-|[]]]; [eapply w_par0; eauto | eauto].
          - eapply w_par0; eauto. }
        destruct PL as (pr & Fp & X). rewrite FP. destruct (N.eqb c p) eqn:E.
        -- apply N.eqb_eq in E. subst p. exists old'. split; [reflexivity|].
           apply expanded_with_parents. congruence.
        -- eauto.
      * intros p pr [<-|[]] Fp. rewrite FP in Fp. destruct (N.eqb c h) eqn:E.
        -- injection Fp as <-. apply expanded_with_parents. apply N.eqb_eq in E. subst c. congruence.
        -- congruence.
      * intros q r b Fq D. rewrite FP in Fq.
        assert (exists r0, find_req (s_reqs st) q = Some r0 /\ r_data r0 = Some b /\ r_raw r0 = r_raw r /\ r_cb r0 = r_cb r) as (r0 & F0 & D0 & R0 & C0).
        { destruct (N.eqb c q) eqn:E.
          - apply N.eqb_eq in E. subst q. injection Fq as <-. exists old. auto.
          - exists r. auto. }
        destruct (w_kids0 q r0 b F0 D0) as (A & B & nv & Dn & K).
        split; [assumption|]. split; [congruence|]. exists nv. split; [assumption|].
        destruct K as [K|K]; [left; unfold stuck in *; rewrite <- C0; assumption|right].
        intros c' I. destruct (K c' I) as [X|[(rc & Fc' & Ic)|(X1 & [X2|X2])]].
        -- now left.
        -- right. left. rewrite FP. destruct (N.eqb c c') eqn:E.
           ++ apply N.eqb_eq in E. subst c'. exists old'. split; [reflexivity|].
              unfold old'. cbn [with_parents r_parents]. apply in_or_app. left. congruence.
           ++ eauto.
        -- subst c' q. right. left. exists old'. rewrite FP, N.eqb_refl. split; [reflexivity|].
           unfold old'. cbn [with_parents r_parents]. apply in_or_app. right. now left.
        -- right. right. split; assumption.
      * intros q r Fq. rewrite FP in Fq. destruct (N.eqb c q) eqn:E.
        -- injection Fq as <-. specialize (w_mode0 c old Fc). unfold mode_ok in *. unfold old'.
           cbn [with_parents r_cb r_raw r_hash]. assumption.
        -- eapply w_mode0; eauto.
      * destruct w_root0 as [X|[(rr & X)|X]]; auto. right. left. rewrite FP.
        destruct (N.eqb c root); eauto.
    + intros q (rq & Fq). unfold live. cbn [set_reqs s_reqs]. rewrite FP. destruct (N.eqb c q); eauto.
  - (* a new request *)
    set (req := mkReq c None raw [h] depth 0 cb).
    assert (NE : N.eqb c h = false).
    { destruct (N.eqb c h) eqn:E; [|reflexivity]. apply N.eqb_eq in E. subst c. congruence. }
    assert (FP : forall q, find_req (req :: s_reqs st) q = if N.eqb c q then Some req else find_req (s_reqs st) q).
    { intro q. cbn [find_req]. reflexivity. }
    assert (CR : forall q, count_refs (req :: s_reqs st) q =
                           (count_refs (s_reqs st) q + (if N.eqb h q then 1 else 0))%Z).
    { intro q. cbn [count_refs]. unfold req. cbn [r_parents]. rewrite occ_cons, occ_nil. lia. }
    pose proof (no_live_no_refs _ _ _ _ _ W Fc) as C0.
    split.
    + destruct W. constructor; cbn [s_reqs]; unfold store_of in *; cbn [s_mem s_db] in *.
      * assumption.
      * cbn [map]. constructor; [|assumption]. unfold req. cbn [r_hash]. now apply find_none_notin.
      * intro q. unfold exh. destruct (N.eqb q h); lia.
      * intros q r Fq. rewrite FP in Fq. rewrite CR. destruct (N.eqb c q) eqn:E.
        -- apply N.eqb_eq in E. subst q. injection Fq as <-. unfold req. cbn [r_deps].
           unfold exh. rewrite NE. rewrite N.eqb_sym, NE. lia.
        -- specialize (w_refs0 q r Fq). unfold exh in *. rewrite (N.eqb_sym h q).
           destruct (N.eqb q h); lia.
      * intros q r p Fq I. rewrite FP in Fq.
        assert (PL : exists pr, find_req (s_reqs st) p = Some pr /\ expanded pr).
        { destruct (N.eqb c q) eqn:E.
          - injection Fq as <-. unfold req in I. cbn [r_parents] in I. destruct I as [<-|[]]. eauto.
          - eapply w_par0; eauto. }
        destruct PL as (pr & Fp & X). exists pr. split; [|assumption]. rewrite FP.
        destruct (N.eqb c p) eqn:E; [|assumption]. apply N.eqb_eq in E. subst p. congruence.
      * intros p pr [<-|[]] Fp. rewrite FP, NE in Fp. congruence.
      * intros q r b Fq D. rewrite FP in Fq. destruct (N.eqb c q) eqn:E.
        { injection Fq as <-. unfold req in D. cbn [r_data] in D. discriminate. }
        destruct (w_kids0 q r b Fq D) as (A & B & nv & Dn & K).
        split; [assumption|]. split; [assumption|]. exists nv. split; [assumption|].
        destruct K as [K|K]; [now left|right].
        intros c' I. destruct (K c' I) as [X|[(rc & Fc' & Ic)|(X1 & [X2|X2])]].
        -- now left.
        -- right. left. exists rc. split; [|assumption]. rewrite FP.
           destruct (N.eqb c c') eqn:E2; [|assumption]. apply N.eqb_eq in E2. subst c'. congruence.
        -- subst c' q. right. left. exists req. rewrite FP, N.eqb_refl. split; [reflexivity|].
           unfold req. cbn [r_parents]. now left.
        -- right. right. split; assumption.
      * intros q r Fq. rewrite FP in Fq. destruct (N.eqb c q) eqn:E.
        -- injection Fq as <-. exact M.
        -- eapply w_mode0; eauto.
      * destruct w_root0 as [X|[(rr & X)|X]]; auto. right. left. rewrite FP.
        destruct (N.eqb c root); eauto.
    + intros q (rq & Fq). unfold live. cbn [s_reqs]. rewrite FP. destruct (N.eqb c q); eauto.
Qed.

Lemma exh_weaken : forall eps pend h n m s, WInv (exh h n) eps pend s -> (0 <= m <= n)%Z -> WInv (exh h m) eps pend s.
Proof.
  intros eps pend h n m s W L. eapply WInv_weaken; eauto.
  - intro q. unfold exh. destruct (N.eqb q h); lia.
  - apply incl_refl.
Qed.

Lemma link_and_schedule_inv : forall todo st h c raw depth cb,
  WInv ex0 [h] (pendL h (c :: todo)) st -> h <> zero_hash -> live st h ->
  mode_ok (mkReq c None raw [h] depth 0 cb) ->
  WInv ex0 [h] (pendL h todo) (link_and_schedule st (mkReq c None raw [] depth 0 cb) h) /\
  (forall q, live st q -> live (link_and_schedule st (mkReq c None raw [] depth 0 cb) h) q).
Proof.
  intros todo st h c raw depth cb W NZ (anc & Fh) M.
  unfold link_and_schedule.
  assert (E : N.eqb h zero_hash = false) by now apply N.eqb_neq.
  rewrite E. cbn [negb]. rewrite Fh. unfold with_parents at 1. cbn [r_hash r_data r_raw r_depth r_deps r_cb].
  set (s1 := set_reqs st (put_req (s_reqs st) (with_deps anc (r_deps anc + 1)))).
  assert (W1 : WInv (exh h 1) [h] (pendL h (c :: todo)) s1).
  { eapply put_deps_inv; eauto.
    - intro q. unfold exh. destruct (N.eqb q h); lia.
    - intros q NE. unfold exh, ex0. apply N.eqb_neq in NE. rewrite NE. lia.
    - pose proof (w_refs _ _ _ _ W h anc Fh) as X. unfold ex0, exh in *. rewrite N.eqb_refl. lia. }
  assert (L1 : forall q, live st q -> live s1 q).
  { intros q (rq & Fq). unfold live, s1. cbn [set_reqs s_reqs]. rewrite find_put. cbn [with_deps r_hash].
    rewrite (find_req_hash _ _ _ Fh). destruct (N.eqb h q) eqn:E2; [|eauto].
    apply N.eqb_eq in E2. subst q. rewrite Fh. eauto. }
  destruct (schedule_inv 1 todo s1 h c raw depth cb W1) as (W2 & L2); [lia | apply L1; red; eauto | assumption |].
  split.
  - eapply WInv_weaken; eauto.
    + intro q. unfold exh, ex0. destruct (N.eqb q h); lia.
    + apply incl_refl.
  - intros q Lq. apply L2, L1, Lq.
Qed.

Lemma has_mem_store : forall s c, has (s_mem s) c = true -> has (store_of s) c = true.
Proof. intros s c X. unfold store_of. rewrite has_app, has_rev, X. reflexivity. Qed.
Lemma has_db_store : forall s c, has (s_db s) c = true -> has (store_of s) c = true.
Proof. intros s c X. unfold store_of. rewrite has_app, X. apply orb_true_r. Qed.

Lemma add_sub_trie_inv : forall todo st h c depth,
  WInv ex0 [h] (pendL h ((if N.eqb c empty_root then [] else [c]) ++ todo)) st ->
  h <> zero_hash -> live st h -> (cb0 = true -> Sto c) ->
  WInv ex0 [h] (pendL h todo) (add_sub_trie dec st c depth h false) /\
  (forall q, live st q -> live (add_sub_trie dec st c depth h false) q).
Proof.
  intros todo st h c depth W NZ L S. unfold add_sub_trie.
  destruct (N.eqb c empty_root); [cbn [app] in W; auto|]. cbn [app] in W.
  destruct (has (s_mem st) c) eqn:E1.
  { split; [|auto]. eapply WInv_pend_known; eauto. now apply has_mem_store. }
  destruct (get (s_db st) c) as [b|] eqn:E2.
  - destruct (dec b).
    + split; [|auto]. eapply WInv_pend_known; eauto. apply has_db_store. eapply get_has; eauto.
    + apply link_and_schedule_inv; auto.
      split; cbn [r_cb r_raw r_hash]; auto. intros C. split; [auto | discriminate].
  - apply link_and_schedule_inv; auto.
    split; cbn [r_cb r_raw r_hash]; auto. intros C. split; [auto | discriminate].
Qed.

Lemma add_raw_entry_inv : forall todo st h c depth,
  WInv ex0 [h] (pendL h ((if N.eqb c empty_state then [] else [c]) ++ todo)) st ->
  h <> zero_hash -> live st h -> cb0 = true -> RawHash c ->
  WInv ex0 [h] (pendL h todo) (add_raw_entry st c depth h) /\
  (forall q, live st q -> live (add_raw_entry st c depth h) q).
Proof.
  intros todo st h c depth W NZ L CB R. unfold add_raw_entry.
  destruct (N.eqb c empty_state); [cbn [app] in W; auto|]. cbn [app] in W.
  destruct (has (s_mem st) c) eqn:E1.
  { split; [|auto]. eapply WInv_pend_known; eauto. now apply has_mem_store. }
  destruct (has (s_db st) c) eqn:E2.
  { split; [|auto]. eapply WInv_pend_known; eauto. now apply has_db_store. }
  apply link_and_schedule_inv; auto.
  split; cbn [r_cb r_raw r_hash]; [congruence|]. intros _. split; [discriminate | auto].
Qed.

Lemma state_callback_inv : forall todo st h a b nv s',
  WInv ex0 [h] (pendL h (acct_targets a ++ todo)) st ->
  h <> zero_hash -> live st h -> cb0 = true ->
  dec b = Some nv -> nv_val nv = Some (PAcct a) ->
  state_callback dec st (PAcct a) h = Some s' ->
  WInv ex0 [h] (pendL h todo) s' /\ (forall q, live st q -> live s' q).
Proof.
  intros todo st h a b nv s' W NZ L CB D V E. cbn [state_callback] in E. injection E as <-.
  unfold acct_targets in W. rewrite <- !app_assoc in W.
  destruct (add_sub_trie_inv _ _ _ _ 64 W NZ L) as (W1 & L1).
  { intros _. eapply sto_root; eauto. }
  destruct (add_raw_entry_inv _ _ _ _ 64 W1 NZ (L1 _ L) CB) as (W2 & L2).
  { exists b, nv, a. auto. }
  destruct (N.eqb (a_dlen a) 32) eqn:E32.
  - cbn [andb] in W2.
    assert (W2' : WInv ex0 [h] (pendL h ((if N.eqb (a_deleg a) empty_state then [] else [a_deleg a]) ++ todo))
                    (add_raw_entry (add_sub_trie dec st (a_root a) 64 h false) (a_code a) 64 h)).
    { destruct (N.eqb (a_deleg a) empty_state); exact W2. }
    destruct (add_raw_entry_inv _ _ _ _ 64 W2' NZ (L2 _ (L1 _ L)) CB) as (W3 & L3).
    { exists b, nv, a. apply N.eqb_eq in E32. auto. }
    split; [assumption|]. intros q Lq. apply L3, L2, L1, Lq.
  - cbn [andb app] in W2. split; [assumption|]. intros q Lq. apply L2, L1, Lq.
Qed.


(* ---- Sync.Process ---------------------------------------------------------------- *)

Lemma WInv_store_change : forall extra eps pend s s',
  WInv extra eps pend s -> s_reqs s' = s_reqs s -> OC (store_of s') ->
  (forall c, has (store_of s) c = true -> has (store_of s') c = true) ->
  WInv extra eps pend s'.
Proof.
  intros extra eps pend s s' W R O M. destruct W. constructor; rewrite ?R; try assumption.
  - intros q r b Fq D. destruct (w_kids0 q r b Fq D) as (A & B & nv & Dn & K).
    split; [assumption|]. split; [assumption|]. exists nv. split; [assumption|].
    destruct K as [K|K]; [now left|right]. intros c I. destruct (K c I) as [X|[X|X]]; auto.
  - destruct w_root0 as [X|[X|X]]; auto.
Qed.

Lemma unexpanded_no_refs : forall extra eps pend s h r,
  WInv extra eps pend s -> find_req (s_reqs s) h = Some r -> r_data r = None ->
  count_refs (s_reqs s) h = 0%Z.
Proof.
  intros extra eps pend s h r W F D.
  pose proof (count_refs_nonneg (s_reqs s) h).
  destruct (Z.leb 1 (count_refs (s_reqs s) h)) eqn:E; [|lia].
  destruct (count_refs_witness (s_reqs s) h) as (q & rq & Fq & I); [lia | apply (w_uniq _ _ _ _ W) |].
  destruct (w_par _ _ _ _ W q rq h Fq I) as (pr & Fh & (b & nv & X & _)). congruence.
Qed.

Lemma put_data_inv : forall s h r b nv L,
  Inv s -> find_req (s_reqs s) h = Some r -> r_data r = None -> r_raw r = false ->
  H b = h -> dec b = Some nv ->
  (stuck (with_data r b) nv \/
   forall c, In c (required nv) -> has (store_of s) c = true \/ In c L) ->
  WInv ex0 [] (pendL h L) (set_reqs s (put_req (s_reqs s) (with_data r b))).
Proof.
  intros s h r b nv L W F D0 R0 Hb Dn KK.
  pose proof (find_req_hash _ _ _ F) as HP.
  set (r1 := with_data r b).
  assert (FP : forall q, find_req (put_req (s_reqs s) r1) q =
                         if N.eqb h q then Some r1 else find_req (s_reqs s) q).
  { intro q. rewrite find_put. unfold r1. cbn [with_data r_hash]. rewrite HP.
    destruct (N.eqb h q) eqn:E; [|reflexivity]. apply N.eqb_eq in E. subst q. now rewrite F. }
  assert (CR : forall q, count_refs (put_req (s_reqs s) r1) q = count_refs (s_reqs s) q).
  { intro q. rewrite (count_refs_put _ _ r q (w_uniq _ _ _ _ W)); [unfold r1; cbn [with_data r_parents]; lia|].
    unfold r1. cbn [with_data r_hash]. now rewrite HP. }
  unfold Inv in W. destruct W.
  constructor; cbn [set_reqs s_reqs]; unfold store_of in *; cbn [set_reqs s_mem s_db] in *.
  - assumption.
  - now rewrite keys_put.
  - assumption.
  - intros q rq Fq. rewrite FP in Fq. rewrite CR. destruct (N.eqb h q) eqn:E.
    + apply N.eqb_eq in E. subst q. injection Fq as <-. unfold r1. cbn [with_data r_deps]. eapply w_refs0; eauto.
    + eapply w_refs0; eauto.
  - intros q rq p Fq I. rewrite FP in Fq.
    assert (exists r0, find_req (s_reqs s) q = Some r0 /\ r_parents r0 = r_parents rq) as (r0 & F0 & P0).
    { destruct (N.eqb h q) eqn:E.
      - apply N.eqb_eq in E. subst q. injection Fq as <-. exists r. auto.
      - exists rq. auto. }
    rewrite <- P0 in I. destruct (w_par0 q r0 p F0 I) as (pr & Fp & X).
    exists pr. split; [|assumption]. rewrite FP. destruct (N.eqb h p) eqn:E; [|assumption].
    apply N.eqb_eq in E. subst p. destruct X as (b' & nv' & X & _). congruence.
  - intros p pr [].
  - intros q rq bq Fq D. rewrite FP in Fq. destruct (N.eqb h q) eqn:E.
    + apply N.eqb_eq in E. subst q. injection Fq as <-. unfold r1 in D. cbn [with_data r_data] in D.
      injection D as <-. split; [assumption|]. split; [exact R0|]. exists nv. split; [assumption|].
      destruct KK as [KK|KK]; [now left|right]. intros c I. destruct (KK c I) as [X|X]; [now left|].
      right. right. split; [reflexivity | assumption].
    + destruct (w_kids0 q rq bq Fq D) as (A & B & nv' & Dn' & K).
      split; [assumption|]. split; [assumption|]. exists nv'. split; [assumption|].
      destruct K as [K|K]; [now left|right]. intros c I. destruct (K c I) as [X|[(rc & Fc & Ic)|[]]]; [now left|].
      right. left. rewrite FP. destruct (N.eqb h c) eqn:E2.
      * apply N.eqb_eq in E2. subst c. exists r1. split; [reflexivity|]. unfold r1. cbn [with_data r_parents]. congruence.
      * eauto.
  - intros q rq Fq. rewrite FP in Fq. destruct (N.eqb h q) eqn:E.
    + injection Fq as <-. specialize (w_mode0 h r F). unfold mode_ok in *. unfold r1. cbn [with_data r_cb r_raw r_hash]. assumption.
    + eapply w_mode0; eauto.
  - destruct w_root0 as [X|[(rr & X)|X]]; auto. right. left. rewrite FP. destruct (N.eqb h root); eauto.
Qed.

Definition mk_kid (h : hash) (depth : N) (cb : bool) (k : hash) : request :=
  mkReq k None false [h] depth 0 cb.

Lemma children_inv : forall s h r b nv,
  Inv s -> find_req (s_reqs s) h = Some r -> r_data r = None -> r_raw r = false ->
  H b = h -> dec b = Some nv ->
  let r1 := with_data r b in
  let s1 := set_reqs s (put_req (s_reqs s) r1) in
  match children dec s1 r1 nv with
  | None => Inv s1
  | Some (s2, reqs) =>
    exists unknown, reqs = map (mk_kid h (r_depth r + nv_inc nv) (r_cb r)) unknown /\
      (forall k, In k unknown -> In k (nv_kids nv)) /\
      WInv ex0 [h] (pendL h unknown) s2 /\ live s2 h
  end.
Proof.
  intros s h r b nv W F D0 R0 Hb Dn r1 s1.
  pose proof (find_req_hash _ _ _ F) as HP.
  pose proof (w_mode _ _ _ _ W h r F) as M.
  assert (NZ : h <> zero_hash) by (rewrite <- Hb; apply Hz).
  set (unknown := filter (fun k => negb (has (s_mem s1) k) && negb (has (s_db s1) k)) (nv_kids nv)).
  assert (KN : forall k, In k (nv_kids nv) -> has (store_of s) k = true \/ In k unknown).
  { intros k I. destruct (negb (has (s_mem s1) k) && negb (has (s_db s1) k)) eqn:E.
    - right. unfold unknown. apply filter_In. auto.
    - left. unfold store_of. rewrite has_app, has_rev. unfold s1 in E. cbn [set_reqs s_mem s_db] in E.
      destruct (has (s_mem s) k); [reflexivity|]. destruct (has (s_db s) k); [reflexivity | discriminate]. }
  assert (L1 : live s1 h).
  { exists r1. unfold s1. cbn [set_reqs s_reqs]. rewrite find_put. unfold r1. cbn [with_data r_hash].
    rewrite HP, N.eqb_refl, F. reflexivity. }
  assert (EXP : ~ stuck r1 nv -> forall pr, find_req (s_reqs s1) h = Some pr -> expanded pr).
  { intros NS pr Fp. unfold s1 in Fp. cbn [set_reqs s_reqs] in Fp. rewrite find_put in Fp.
    unfold r1 in Fp. cbn [with_data r_hash] in Fp. rewrite HP, N.eqb_refl, F in Fp. injection Fp as <-.
    exists b, nv. auto. }
  assert (REQS : map (fun k => mkReq k None false [r_hash r1] (r_depth r1 + nv_inc nv) 0 (r_cb r1)) unknown
                 = map (mk_kid h (r_depth r + nv_inc nv) (r_cb r)) unknown).
  { unfold r1. cbn [with_data r_hash r_depth r_cb]. rewrite HP. reflexivity. }
  unfold children. fold unknown. rewrite REQS.
  assert (CB1 : r_cb r1 = r_cb r) by reflexivity. rewrite CB1.
  destruct (r_cb r) eqn:CB.
  - (* the state callback runs on the value child *)
    assert (CB0 : cb0 = true).
    { destruct (Bool.bool_dec cb0 true) as [|N]; [assumption|]. apply Bool.not_true_is_false in N.
      destruct M as (M1 & _). destruct (M1 N). congruence. }
    destruct (nv_val nv) as [[|a]|] eqn:V.
    + (* not an account: the callback fails, the request stays as it is *)
      cbn [state_callback].
      eapply WInv_weaken; [eapply (put_data_inv s h r b nv []); eauto| | apply incl_refl |].
      * left. split; [exact CB | exact V].
      * intro q. unfold ex0. lia.
      * intros q c (_ & []).
    + assert (NS : ~ stuck r1 nv) by (intros (_ & X); congruence).
      assert (W1 : WInv ex0 [h] (pendL h (acct_targets a ++ unknown)) s1).
      { apply WInv_add_eps; [|now apply EXP].
        eapply (put_data_inv s h r b nv); eauto. right. intros c I. unfold required in I.
        rewrite CB0, V in I. cbn [val_targets] in I. apply in_app_or in I. destruct I as [I|I].
        - destruct (KN c I); [now left | right; apply in_or_app; now right].
        - right. apply in_or_app. now left. }
      destruct (state_callback dec s1 (PAcct a) (r_hash r1)) as [s2|] eqn:E; [|discriminate E].
      unfold r1 in E. cbn [with_data r_hash] in E. rewrite HP in E.
      destruct (state_callback_inv unknown s1 h a b nv s2 W1 NZ L1 CB0 Dn V E) as (W2 & L2).
      exists unknown. split; [reflexivity|]. split; [|split; [assumption | now apply L2]].
      intros k I. unfold unknown in I. apply filter_In in I. tauto.
    + assert (NS : ~ stuck r1 nv) by (intros (_ & X); congruence).
      exists unknown. split; [reflexivity|]. split; [|split; [|assumption]].
      * intros k I. unfold unknown in I. apply filter_In in I. tauto.
      * apply WInv_add_eps; [|now apply EXP].
        eapply (put_data_inv s h r b nv); eauto. right. intros c I. unfold required in I.
        rewrite V in I. cbn [val_targets] in I.
        assert (X : (if cb0 then @nil hash else []) = []) by (destruct cb0; reflexivity).
        rewrite X, app_nil_r in I. now apply KN.
  - (* no callback *)
    assert (NS : ~ stuck r1 nv) by (intros (X & _); unfold r1 in X; cbn [with_data r_cb] in X; congruence).
    exists unknown. split; [reflexivity|]. split; [|split; [|assumption]].
    + intros k I. unfold unknown in I. apply filter_In in I. tauto.
    + apply WInv_add_eps; [|now apply EXP].
      eapply (put_data_inv s h r b nv); eauto. right. intros c I. unfold required in I.
      apply in_app_or in I. destruct I as [I|I]; [now apply KN|].
      destruct (Bool.bool_dec cb0 true) as [CB0|CB0];
        [|apply Bool.not_true_is_false in CB0; rewrite CB0 in I; destruct I].
      rewrite CB0 in I.
      destruct M as (_ & M2). destruct (M2 CB0) as (M3 & _).
      specialize (M3 CB R0). rewrite HP, <- Hb in M3.
      destruct (nv_val nv) as [[|a]|] eqn:V; cbn [val_targets] in I; try destruct I.
      exfalso. eapply (K2 CB0 b nv a); eauto.
Qed.

Lemma fold_schedule_inv : forall h depth cb unknown st,
  WInv (exh h (Z.of_nat (length unknown))) [h] (pendL h unknown) st -> live st h ->
  (forall k, In k unknown -> mode_ok (mk_kid h depth cb k)) ->
  WInv ex0 [h] nopend (fold_left schedule (map (mk_kid h depth cb) unknown) st).
Proof.
  intros h depth cb. induction unknown as [|k u IH]; intros st W L M; cbn [map fold_left].
  - eapply WInv_weaken; eauto.
    + intro q. unfold exh, ex0. cbn [length Z.of_nat]. destruct (N.eqb q h); lia.
    + apply incl_refl.
    + intros q c (_ & []).
  - unfold mk_kid at 2.
    destruct (schedule_inv (Z.of_nat (length (k :: u))) u st h k false depth cb W) as (W1 & L1).
    + cbn [length]. lia.
    + assumption.
    + apply (M k). now left.
    + apply IH.
      * eapply exh_weaken; eauto. cbn [length]. lia.
      * now apply L1.
      * intros k' I. apply M. now right.
Qed.

Lemma raw_commit_inv : forall s h r b,
  Inv s -> find_req (s_reqs s) h = Some r -> r_data r = None -> r_raw r = true -> H b = h ->
  let r1 := with_data r b in
  let s1 := set_reqs s (put_req (s_reqs s) r1) in
  Inv (commit (fuel_of s1) s1 r1).
Proof.
  intros s h r b W F D0 R1 Hb r1 s1.
  pose proof (find_req_hash _ _ _ F) as HP.
  unfold fuel_of. rewrite (commit_S _ _ _ b); [|reflexivity].
  assert (HD : head s1 (r_hash r1) b = head s h b).
  { unfold head, s1. cbn [set_reqs s_db s_mem s_reqs s_queue]. rewrite del_put.
    unfold r1. cbn [with_data r_hash]. rewrite HP. reflexivity. }
  rewrite HD. unfold r1 at 1. cbn [with_data r_parents].
  apply notify_spec_all; [intro q; unfold ex0; lia|].
  eapply head_inv; eauto.
  - eapply unexpanded_no_refs; eauto.
  - intros nv Dn c I. exfalso.
    pose proof (w_mode _ _ _ _ W h r F) as (M1 & M2).
    destruct (Bool.bool_dec cb0 true) as [CB0|CB0].
    + destruct (M2 CB0) as (_ & M3). specialize (M3 R1). rewrite HP, <- Hb in M3.
      rewrite (K1 CB0 b nv M3 Dn) in I. destruct I.
    + apply Bool.not_true_is_false in CB0. destruct (M1 CB0). congruence.
Qed.

Definition honest (items : list (hash * blob)) : Prop := forall h b, In (h, b) items -> H b = h.

Lemma process_inv : forall items i c s, Inv s -> honest items ->
  Inv (fst (process_from dec i c s items)).
Proof.
  induction items as [|[h b] items IH]; intros i c s W HO; cbn [process_from]; [exact W|].
  assert (Hb : H b = h) by (apply HO; now left).
  assert (HO' : honest items) by (intros h' b' I; apply HO; now right).
  destruct (find_req (s_reqs s) h) as [r|] eqn:F; [|exact W].
  destruct (r_data r) eqn:D0; [exact W|].
  destruct (r_raw r) eqn:R0.
  - apply IH; [|assumption]. exact (raw_commit_inv s h r b W F D0 R0 Hb).
  - destruct (dec b) as [nv|] eqn:Dn; [|exact W].
    pose proof (children_inv s h r b nv W F D0 R0 Hb Dn) as CH. cbv zeta in CH.
    destruct (children dec (set_reqs s (put_req (s_reqs s) (with_data r b))) (with_data r b) nv) as [[s2 reqs]|]; [|exact CH].
    destruct CH as (unknown & -> & UK & W2 & (r2 & F2)).
    rewrite F2.
    pose proof (w_mode _ _ _ _ W h r F) as M.
    pose proof (find_req_hash _ _ _ F) as HP.
    destruct (Nat.eqb (length (map (mk_kid h (r_depth r + nv_inc nv) (r_cb r)) unknown)) 0 && Z.eqb (r_deps r2) 0) eqn:E.
    + apply andb_true_iff in E. destruct E as (E1 & E2). apply Nat.eqb_eq in E1. apply Z.eqb_eq in E2.
      rewrite map_length in E1. destruct unknown; [|discriminate E1].
      apply IH; [|assumption].
      assert (W2' : WInv ex0 [h] nopend s2).
      { eapply WInv_weaken; eauto; [intro q; unfold ex0; lia | apply incl_refl | intros q c' (_ & [])]. }
      eapply WInv_weaken; [eapply (commit_spec_all (fuel_of s2) s2 h r2 ex0 [h]); eauto| | |].
      * intro q. unfold ex0. lia.
      * eapply (w_eps _ _ _ _ W2'); [now left | eassumption].
      * pose proof (w_refs _ _ _ _ W2' h r2 F2) as X. pose proof (count_refs_nonneg (s_reqs s2) h). unfold ex0 in X. lia.
      * intro q. unfold ex0. lia.
      * intros q I. destruct I.
      * auto.
    + apply IH; [|assumption].
      set (n := Z.of_nat (length (map (mk_kid h (r_depth r + nv_inc nv) (r_cb r)) unknown))).
      set (s3 := set_reqs s2 (put_req (s_reqs s2) (with_deps r2 (r_deps r2 + n)))).
      assert (W3 : WInv (exh h (Z.of_nat (length unknown))) [h] (pendL h unknown) s3).
      { unfold s3. eapply put_deps_inv; eauto.
        - intro q. unfold exh. destruct (N.eqb q h); lia.
        - intros q NE. unfold exh, ex0. apply N.eqb_neq in NE. rewrite NE. lia.
        - pose proof (w_refs _ _ _ _ W2 h r2 F2) as X. unfold ex0, exh in *. rewrite N.eqb_refl.
          unfold n. rewrite map_length. lia. }
      assert (L3 : live s3 h).
      { exists (with_deps r2 (r_deps r2 + n)). unfold s3. cbn [set_reqs s_reqs]. rewrite find_put.
        cbn [with_deps r_hash]. rewrite (find_req_hash _ _ _ F2), N.eqb_refl, F2. reflexivity. }
      eapply WInv_weaken; [eapply fold_schedule_inv; eauto| | |]; auto.
      * intros k I. unfold mk_kid, mode_ok. cbn [r_cb r_raw r_hash]. destruct M as (M1 & M2). split.
        -- intro C0. destruct (M1 C0). auto.
        -- intro C0. destruct (M2 C0) as (M3 & _). split; [|discriminate].
           intros CB _. specialize (M3 CB R0). rewrite HP, <- Hb in M3. eapply sto_kid; eauto.
      * intro q. unfold ex0. lia.
      * intros q I. destruct I.
Qed.

(* ---- Sync.Commit, NewSync, histories ------------------------------------------ *)

Lemma commit_db_inv : forall s lim, Inv s -> Inv (fst (commit_db s lim)).
Proof.
  intros s lim W.
  assert (FULL : Inv (mkSync (rev (s_mem s) ++ s_db s) [] (s_reqs s) (s_queue s))).
  { eapply WInv_store_change with (s := s); [exact W | reflexivity | |].
    - unfold store_of; cbn [s_mem s_db rev app]. apply (w_oc _ _ _ _ W).
    - unfold store_of; cbn [s_mem s_db rev app]. auto. }
  unfold commit_db. destruct lim as [k|]; [|exact FULL].
  destruct (N.ltb k (N.of_nat (length (s_mem s)))); [|exact FULL]. cbn [fst].
  eapply WInv_store_change with (s := s); [exact W | reflexivity | |]; unfold store_of; cbn [s_mem s_db].
  - pose proof (w_oc _ _ _ _ W) as O. unfold store_of in O.
    apply OC_insert; [assumption|].
    rewrite <- (firstn_skipn (N.to_nat k) (s_mem s)) in O at 1.
    rewrite rev_app_distr, <- app_assoc in O. eapply OC_app_r; eauto.
  - intro c. rewrite !has_app. intro X. apply orb_true_iff in X. destruct X as [X|X]; rewrite X;
      [reflexivity | rewrite !orb_true_r; reflexivity].
Qed.

Lemma new_sync_inv : forall db, OC db -> Inv (new_sync dec root cb0 db).
Proof.
  intros db O.
  assert (EMPTY : (root = empty_root \/ has db root = true) -> Inv (mkSync db [] [] [])).
  { intro RT. constructor; unfold store_of; cbn [s_mem s_db s_reqs rev app find_req map].
    - assumption.
    - constructor.
    - intro q. unfold ex0. lia.
    - intros q r Fq. discriminate Fq.
    - intros q r p Fq. discriminate Fq.
    - intros p pr [].
    - intros q r b Fq. discriminate Fq.
    - intros q r Fq. discriminate Fq.
    - destruct RT; auto. }
  unfold new_sync, add_sub_trie. cbn [s_mem s_db].
  destruct (N.eqb root empty_root) eqn:E1; [apply EMPTY; left; now apply N.eqb_eq|].
  cbn [has get].
  assert (NEW : Inv (link_and_schedule (mkSync db [] [] []) (mkReq root None false [] 0 0 cb0) zero_hash)).
  { unfold link_and_schedule. rewrite N.eqb_refl. cbn [negb]. unfold schedule. cbn [s_reqs find_req r_hash].
    constructor; unfold store_of; cbn [s_mem s_db s_reqs rev app r_hash r_depth s_queue].
    - assumption.
    - cbn [map r_hash]. constructor; [intros [] | constructor].
    - intro q. unfold ex0. lia.
    - intros q r Fq. cbn [find_req r_hash] in Fq. cbn [count_refs r_parents]. rewrite occ_nil.
      destruct (N.eqb root q); [|discriminate]. injection Fq as <-. cbn [r_deps]. unfold ex0. lia.
    - intros q r p Fq I. cbn [find_req r_hash] in Fq. destruct (N.eqb root q); [|discriminate].
      injection Fq as <-. destruct I.
    - intros p pr [].
    - intros q r b Fq D. cbn [find_req r_hash] in Fq. destruct (N.eqb root q); [|discriminate].
      injection Fq as <-. discriminate D.
    - intros q r Fq. cbn [find_req r_hash] in Fq. destruct (N.eqb root q); [|discriminate].
      injection Fq as <-. unfold mode_ok. cbn [r_cb r_raw r_hash]. split.
      + intro C. auto.
      + intro C. split; [intros C1; congruence | discriminate].
    - right. left. cbn [find_req r_hash]. rewrite N.eqb_refl. eauto. }
  destruct (get db root) as [b|] eqn:G; [|exact NEW].
  destruct (dec b); [|exact NEW].
  apply EMPTY. right. eapply get_has; eauto.
Qed.

Definition honest_op (o : op) : Prop :=
  match o with OProcess items => honest items | _ => True end.

Lemma step_inv : forall s o, Inv s -> honest_op o -> Inv (step H dec root cb0 s o).
Proof.
  intros s o W HO. destruct o as [items|b|lim|]; cbn [step].
  - now apply process_inv.
  - unfold deliver, process. apply process_inv; [assumption|].
    intros h' b' [E|[]]. injection E as <- <-. reflexivity.
  - now apply commit_db_inv.
  - apply new_sync_inv. pose proof (w_oc _ _ _ _ W) as O. unfold store_of in O. eapply OC_app_r; eauto.
Qed.

Lemma run_inv : forall db0 ops, OC db0 -> Forall honest_op ops -> Inv (run H dec root cb0 db0 ops).
Proof.
  intros db0 ops O HO. unfold run.
  assert (G : forall ops s, Inv s -> Forall honest_op ops -> Inv (fold_left (step H dec root cb0) ops s)).
  { induction ops0 as [|o ops0 IH]; intros s W F; cbn [fold_left]; [assumption|].
    inversion F; subst. apply IH; [now apply step_inv | assumption]. }
  apply G; [now apply new_sync_inv | assumption].
Qed.

End Inv.
