(* C19 - property theorems only.  Each is closed by [exact] of a lemma of the
   proof files and followed by Print Assumptions.

   Reading guide.  [H] is Keccak-256, [dec] is decodeNode (both arbitrary
   functions: every theorem is quantified over them).  A history is a list of
   operations [OProcess items | ODeliver blob | OCommit limit | ORestart]
   applied to [new_sync root cb db0]: responses in any order and batching,
   duplicates, data nobody asked for, undecodable data, writers failing after
   [limit] puts, and restarts on the database as it is.  [honest_op] only says
   that the hash passed along with a blob is the blob's hash - which is what the
   caller (trieSync.processNodeData, modelled by [ODeliver]) guarantees; the
   blob itself is arbitrary.  [OC l] (ordered closedness) says: every entry of
   the list hashes to its key and everything it needs - hash children, and for
   account leaves of a state sync the storage root, the code and the
   delegations blob - is in the OLDER part of the list.  The database is the
   list of writes, newest first.

   Finding class (fixes/C19_raw_entry_satisfies_node_request.md): requests, the
   membatch and the database are keyed by hash only, so a blob requested as a
   raw entry (contract code) also satisfies a trie-node request for the same
   hash without its children being fetched.  The theorems hold outside this
   class, described by two hypotheses on [H]/[dec]:
     raw_node_separate         - a blob whose hash some account uses as code or
                                 delegations hash does not decode to a node that
                                 needs anything;
     storage_account_separate  - no node of a storage trie carries a value that
                                 decodes as an account (the callback-less
                                 request would win the merge).
   [C19_complete_refuted] shows that without them the statement is false. *)
From VF.C19 Require Import Model Proofs ProofsInv ProofsMain ProofsCollide ProofsCaller.
Local Open Scope N_scope.

(* 1. closed at every point: after every history - hence after every Commit,
   after every prefix of a commit's writes (also [forall k] below: the first k
   membatch entries written, in membatch order), at every restart - the
   database is hash-consistent and ordered-closed.  No assumption on hash
   collisions is needed. *)
Theorem C19_closed_holds_outside :
  forall H dec cb root, no_zero H -> raw_node_separate H dec cb -> storage_account_separate H dec cb ->
  forall db0 ops, OC H dec cb db0 -> Forall (honest_op H) ops ->
    OC H dec cb (store_of (run H dec root cb db0 ops)) /\
    forall k, OC H dec cb (rev (firstn k (s_mem (run H dec root cb db0 ops)))
                             ++ s_db (run H dec root cb db0 ops)).
Proof. exact closed_always. Qed.
Print Assumptions C19_closed_holds_outside.

(* 2. an interrupted sync never presents a partially filled trie as complete:
   whatever is present in the database - at any point, with any prefix of the
   pending membatch written - has its whole closure present. *)
Theorem C19_never_partial_holds_outside :
  forall H dec cb root, no_zero H -> raw_node_separate H dec cb -> storage_account_separate H dec cb ->
  injective H ->
  forall db0 ops, OC H dec cb db0 -> Forall (honest_op H) ops ->
  forall k h,
    has (rev (firstn k (s_mem (run H dec root cb db0 ops))) ++ s_db (run H dec root cb db0 ops)) h = true ->
    Complete dec cb (rev (firstn k (s_mem (run H dec root cb db0 ops))) ++ s_db (run H dec root cb db0 ops)) h.
Proof. exact never_partial. Qed.
Print Assumptions C19_never_partial_holds_outside.

(* 3. completion: Pending() = 0 means the closure of the requested root is in
   membatch + database, and after the final Commit in the database *)
Theorem C19_complete_holds_outside :
  forall H dec cb root, no_zero H -> raw_node_separate H dec cb -> storage_account_separate H dec cb ->
  injective H ->
  forall db0 ops, OC H dec cb db0 -> Forall (honest_op H) ops ->
    (pending (run H dec root cb db0 ops) = 0 ->
     root = empty_root \/ Complete dec cb (store_of (run H dec root cb db0 ops)) root) /\
    (pending (run H dec root cb db0 (ops ++ [OCommit None])) = 0 ->
     root = empty_root \/ Complete dec cb (s_db (run H dec root cb db0 (ops ++ [OCommit None]))) root).
Proof. exact complete_both. Qed.
Print Assumptions C19_complete_holds_outside.

(* 4. identical content: a complete, hash-consistent database and a complete,
   hash-consistent source agree on the whole closure of the root - the same set
   of reachable hashes and the same bytes under each *)
Theorem C19_identical_content :
  forall H dec cb, injective H ->
  forall db src, hash_ok H db -> hash_ok H src ->
  forall r, Complete dec cb db r -> Complete dec cb src r ->
  forall x, (Reach dec cb db r x <-> Reach dec cb src r x) /\
            (Reach dec cb db r x -> get db x = get src x).
Proof. exact same_closure. Qed.
Print Assumptions C19_identical_content.

Theorem C19_database_hash_consistent :
  forall H dec cb l, OC H dec cb l -> hash_ok H l.
Proof. exact OC_hash_ok. Qed.
Print Assumptions C19_database_hash_consistent.

(* 5. wrong data: in EVERY scheduler state a blob that does not hash to a
   pending request is rejected and changes nothing; so is a blob that hashes to
   a pending node request but does not decode, and a second copy of a node
   that is waiting for its children *)
Theorem C19_wrong_data :
  forall H dec s b,
    (find_req (s_reqs s) (H b) = None -> deliver H dec s b = (s, (false, 0, ENotRequested))) /\
    (forall r, find_req (s_reqs s) (H b) = Some r -> r_data r = None -> r_raw r = false -> dec b = None ->
               deliver H dec s b = (s, (false, 0, EDecode))) /\
    (forall r x, find_req (s_reqs s) (H b) = Some r -> r_data r = Some x ->
                 deliver H dec s b = (s, (false, 0, EAlready))).
Proof. exact wrong_data_all. Qed.
Print Assumptions C19_wrong_data.

(* 6. the statement without the two hypotheses is false: contract code equal to
   the RLP of a storage root node (witness world of ProofsMain.v) *)
Theorem C19_complete_refuted : ~ C19_full_statement.
Proof. exact full_statement_refuted. Qed.
Print Assumptions C19_complete_refuted.

(* 7. completeness and "never partial" in the disjunctive form of the property:
   no assumption on the hash function; either the closure is present or two
   distinct blobs with equal hash are exhibited among the entries of the run's
   own store ([collision_in]: found by the executable search [find_collision]) *)
Theorem C19_complete_or_collision_holds_outside :
  forall H dec cb root, no_zero H -> raw_node_separate H dec cb -> storage_account_separate H dec cb ->
  forall db0 ops, OC H dec cb db0 -> Forall (honest_op H) ops ->
  let s := run H dec root cb db0 ops in
  (pending s = 0 ->
     root = empty_root \/ Complete dec cb (store_of s) root \/ collision_in H (store_of s)) /\
  (forall k, let l := rev (firstn k (s_mem s)) ++ s_db s in
     (forall h, has l h = true -> Complete dec cb l h) \/ collision_in H l).
Proof. exact run_complete_or_collision. Qed.
Print Assumptions C19_complete_or_collision_holds_outside.

(* identical content, disjunctive: a complete destination and a complete source
   whose entries hash to their keys agree on the whole closure of the root, or a
   collision is exhibited among their entries *)
Theorem C19_identical_content_or_collision :
  forall H dec cb db src, all_hash_ok H db -> all_hash_ok H src ->
  forall r, Complete dec cb db r -> Complete dec cb src r ->
  (forall x, (Reach dec cb db r x <-> Reach dec cb src r x) /\
             (Reach dec cb db r x -> get db x = get src x)) \/
  collision_in H (db ++ src).
Proof. exact same_closure_or_collision. Qed.
Print Assumptions C19_identical_content_or_collision.

(* 8. the caller (trieSync.fillTasks / process / commit and the dispatcher of
   runTrieSync) as a state machine over the Sync model; events: a peer is assigned
   tasks, a packet arrives, a peer drops, a request times out, the loop processes
   the next finished request, the loop commits, the loop ends (commit(true)).
   8a. whatever arrives, only blobs whose hash is pending reach the scheduler
   with any effect: a blob with another hash leaves scheduler and counters as
   they are; an undecodable one aborts the loop; a packet from a peer without an
   active request is dropped whole *)
Theorem C19_caller_unrequested_blob_ignored :
  forall H dec blen s t num bytes qt b r succ,
  find_req (s_reqs s) (H b) = None ->
  proc_blobs H dec blen (mkCaller s t num bytes) qt (b :: r) succ =
  proc_blobs H dec blen (mkCaller s t num bytes) (task_del qt (H b)) r succ.
Proof. exact proc_blob_unrequested. Qed.
Print Assumptions C19_caller_unrequested_blob_ignored.

Theorem C19_caller_unsolicited_packet_dropped :
  forall H dec blen ideal m p blobs, active_get (m_active m) p = None ->
  mstep H dec blen ideal m (EPack p blobs) = m.
Proof. exact unsolicited_dropped. Qed.
Print Assumptions C19_caller_unsolicited_packet_dropped.

(* 8b. a task nobody answered is queued again, and unless the peer answered with
   an explicitly empty packet (timeout, drop: resp = None) that peer is no longer
   marked as tried, i.e. fillTasks may hand it the task again; the only other
   outcome of process is an error that ends the loop *)
Theorem C19_caller_unanswered_requeued :
  forall H dec blen c req resp npeers c' succ,
  cprocess H dec blen c req resp npeers = (c', (succ, CNone)) ->
  forall h a, In (h, a) (q_tasks req) ->
    ~ In h (map H (match resp with Some l => l | None => [] end)) ->
    exists a', task_get (c_tasks c') h = Some a' /\
               (resp <> Some [] -> tried (q_peer req) a' = false).
Proof. exact unanswered_requeued. Qed.
Print Assumptions C19_caller_unanswered_requeued.

(* 8c / 9. interruption at the downloader's real flush points: after ANY event
   sequence the database is ordered-closed with any prefix of the membatch
   written (crash), and after the deferred commit(true) (cancel, error, normal
   end) the membatch is empty, the database ordered-closed and whatever it holds
   has its closure (or a collision is exhibited) *)
Theorem C19_caller_closed_holds_outside :
  forall H dec blen ideal cb root, no_zero H -> raw_node_separate H dec cb -> storage_account_separate H dec cb ->
  forall db0 evs, OC H dec cb db0 ->
  let s := c_sched (m_c (mrun H dec blen ideal root cb db0 evs)) in
  let s' := c_sched (m_c (mrun H dec blen ideal root cb db0 (evs ++ [ECancel]))) in
  (forall k, OC H dec cb (rev (firstn k (s_mem s)) ++ s_db s)) /\
  OC H dec cb (s_db s') /\ s_mem s' = [] /\
  ((forall h, has (s_db s') h = true -> Complete dec cb (s_db s') h) \/ collision_in H (s_db s')).
Proof. exact caller_closed. Qed.
Print Assumptions C19_caller_closed_holds_outside.

(* 8d. the loop ends without error only with Pending() = 0, and then the
   database (after commit(true)) holds the closure of the root, or a collision
   is exhibited in it *)
Theorem C19_caller_complete_holds_outside :
  forall H dec blen ideal cb root, no_zero H -> raw_node_separate H dec cb -> storage_account_separate H dec cb ->
  forall db0 evs, OC H dec cb db0 ->
  let m := mrun H dec blen ideal root cb db0 evs in
  let s' := c_sched (m_c (mrun H dec blen ideal root cb db0 (evs ++ [ECancel]))) in
  running m = false -> m_err m = CNone ->
  pending s' = 0 /\
  (root = empty_root \/ Complete dec cb (s_db s') root \/ collision_in H (s_db s')).
Proof. exact caller_complete. Qed.
Print Assumptions C19_caller_complete_holds_outside.

(* 10. launching: launchTrieSync -> trieFetcher -> trieSync.run/loop -> done/Wait.
   A task is queued until the fetcher takes it (LHandover) or the downloader quits
   (LQuit: done with errCancelTrieFetch); the running loop takes dispatcher / loop
   events, sees d.cancelCh (errCanceled) or s.cancel (errCancelTrieFetch), or
   evaluates its guard.
   10a. done with err == nil (what FetchVldTrie, fetchStakingTrie, stateSync.Wait()
   and the callers selecting on sync.done read as success) happens only if the task
   WAS handed to the fetcher and the loop's guard found Pending() = 0; then the
   membatch is flushed and the database holds the closure of the root (or a
   collision is exhibited).  In particular a task interrupted while queued can
   never report completion. *)
Theorem C19_launch_done_only_after_loop :
  forall H dec blen ideal cb root, no_zero H -> raw_node_separate H dec cb -> storage_account_separate H dec cb ->
  forall db evs m, OC H dec cb db ->
  lrun H dec blen ideal root cb db evs = LDone None m ->
  In LHandover evs /\
  pending (c_sched (m_c m)) = 0 /\ s_mem (c_sched (m_c m)) = [] /\
  (root = empty_root \/ Complete dec cb (s_db (c_sched (m_c m))) root \/ collision_in H (s_db (c_sched (m_c m)))).
Proof. exact launch_done_nil. Qed.
Print Assumptions C19_launch_done_only_after_loop.

(* 10b. interruption => error or not done: without a hand-over the task is still
   queued or failed; a cancel / stop seen by the running loop and a quit seen while
   queued end it with an error; done states are final *)
Theorem C19_launch_not_done_without_handover :
  forall H dec blen ideal cb root db evs, ~ In LHandover evs ->
  lrun H dec blen ideal root cb db evs = LQueued \/ lrun H dec blen ideal root cb db evs = LFailedLaunch.
Proof. exact launch_needs_handover. Qed.
Print Assumptions C19_launch_not_done_without_handover.

Theorem C19_launch_interrupted_is_error :
  forall H dec blen ideal cb root db m, running m = true ->
  lstep H dec blen ideal root cb db (LRunning m) LCancelSeen = LDone (Some LCanceled) (mstep H dec blen ideal m ECancel) /\
  lstep H dec blen ideal root cb db (LRunning m) LStopSeen = LDone (Some LCancelFetch) (mstep H dec blen ideal m ECancel) /\
  lstep H dec blen ideal root cb db LQueued LQuit = LFailedLaunch.
Proof. exact launch_interrupted. Qed.
Print Assumptions C19_launch_interrupted_is_error.

Theorem C19_launch_done_final :
  forall H dec blen ideal cb root db e m ev, lstep H dec blen ideal root cb db (LDone e m) ev = LDone e m.
Proof. exact launch_done_final. Qed.
Print Assumptions C19_launch_done_final.

(* 10b'. an error of process ("invalid trie node ...", "state node ... failed with
   all peers") is an interruption too: the loop's next guard ends the task with
   exactly that error, and no later event can turn it into done-without-error *)
Theorem C19_launch_process_error_is_error :
  forall H dec blen ideal cb root db m, m_err m <> CNone ->
  lstep H dec blen ideal root cb db (LRunning m) LGuard =
    LDone (Some (LFailed (m_err m))) (mstep H dec blen ideal m ECancel) /\
  forall evs m', fold_left (lstep H dec blen ideal root cb db) evs (LRunning m) <> LDone None m'.
Proof. exact launch_process_error. Qed.
Print Assumptions C19_launch_process_error_is_error.

(* the error is the one process returned *)
Theorem C19_launch_process_error_recorded :
  forall H dec blen ideal m f rest np c' succ e,
  running m = true -> m_finished m = f :: rest ->
  cprocess H dec blen (m_c m) (f_req f) (f_resp f) np = (c', (succ, e)) ->
  m_err (mstep H dec blen ideal m (ENext np)) = e.
Proof. exact process_error_recorded. Qed.
Print Assumptions C19_launch_process_error_recorded.

(* 11. one database per trie kind (core.BlockChain.TrieBackingDb): in the model the
   database is a parameter of each sync, so a sync of kind k leaves the database of
   every other kind untouched.  This holds by construction of the model; that the
   implementation writes through a batch of the CURRENT sync's backing database is
   checked by the launch campaign's oracle (several syncs of different kinds on one
   downloader: whole trie readable from the kind's namespace, no key written
   outside it), not proved. *)
Theorem C19_sync_writes_only_its_own_database :
  forall H dec blen ideal world k root cb evs k',
  k' <> k -> sync_in_world H dec blen ideal world k root cb evs k' = world k'.
Proof. exact sync_writes_only_its_own_database. Qed.
Print Assumptions C19_sync_writes_only_its_own_database.

(* 10c. the launch machine the harness checks observed outcomes against (astep,
   without the contents of the loop) is the projection of the full one *)
Theorem C19_launch_refines :
  forall H dec blen ideal cb root db st e,
  abs_state (lstep H dec blen ideal root cb db st e) =
  match abs_event st e with Some a => astep (abs_state st) a | None => abs_state st end.
Proof. exact launch_refines. Qed.
Print Assumptions C19_launch_refines.

(* ---- non-vacuity ------------------------------------------------------------------- *)

(* a world that meets every hypothesis, with a history containing an unrequested
   blob, a duplicate, a writer failing after one put, a restart and a completion *)
Example C19_nonvacuous_world :
  no_zero wH /\ raw_node_separate wH gdec true /\ storage_account_separate wH gdec true /\ injective wH /\
  OC wH gdec true [] /\ Forall (honest_op wH) gops /\
  pending (run wH gdec 11 true [] gops) = 0 /\
  s_db (run wH gdec 11 true [] gops) = [(11, 1); (13, 3); (14, 4); (15, 5); (12, 2); (16, 6)] /\
  11 <> empty_root.
Proof. exact g_world. Qed.
Print Assumptions C19_nonvacuous_world.

(* the interrupted prefix of that history: three requests pending, one entry on
   disk (the writer failed after the first put), two in the membatch *)
Example C19_nonvacuous_interrupted :
  let s := run wH gdec 11 true [] (firstn 7 gops) in
  pending s = 3 /\ s_db s = [(16, 6)] /\ s_mem s = [(16, 6); (12, 2)] /\
  has (s_db s) 11 = false.
Proof. vm_compute. auto. Qed.
Print Assumptions C19_nonvacuous_interrupted.

(* wrong data in a concrete busy state: blob 7 (hash 17) was never requested *)
Example C19_nonvacuous_wrong_data :
  let s := run wH gdec 11 true [] (firstn 5 gops) in
  pending s = 3 /\ find_req (s_reqs s) (wH 7) = None /\
  deliver wH gdec s 7 = (s, (false, 0, ENotRequested)).
Proof. vm_compute. auto. Qed.
Print Assumptions C19_nonvacuous_wrong_data.

(* the witness of the finding: the sync reports completion, the root is on disk,
   the storage trie below hash 14 is not *)
Example C19_nonvacuous_witness :
  pending wrun = 0 /\ s_mem wrun = [] /\ has (s_db wrun) 11 = true /\ has (s_db wrun) 15 = false.
Proof. vm_compute. auto. Qed.
Print Assumptions C19_nonvacuous_witness.

(* a downloader run in the same world: unsolicited packet, unasked blob, timeout
   and re-assignment, duplicate blob, dropped peer, completion and the final flush *)
Example C19_nonvacuous_caller :
  let m := mrun wH gdec g_blen g_ideal 11 true [] gevs in
  let m7 := mrun wH gdec g_blen g_ideal 11 true [] (firstn 7 gevs) in
  let mc := mrun wH gdec g_blen g_ideal 11 true [] (gevs ++ [ECancel]) in
  running m = false /\ m_err m = CNone /\ pending (c_sched (m_c m)) = 0 /\
  s_db (c_sched (m_c m)) = [] /\ length (s_mem (c_sched (m_c m))) = 6%nat /\
  s_db (c_sched (m_c mc)) = [(11, 1); (13, 3); (14, 4); (15, 5); (12, 2); (16, 6)] /\
  running m7 = true /\ c_tasks (m_c m7) = [(13, []); (12, [])] /\ m_active m7 = [].
Proof. exact g_caller_run. Qed.
Print Assumptions C19_nonvacuous_caller.

(* launch histories in the same world: completion through hand-over and guard; a
   cancel after seven loop events (error, three requests pending, nothing on disk);
   quit while queued; a cancel while queued does not end the task *)
Example C19_nonvacuous_launch :
  let full := LHandover :: map LLoop gevs ++ [LGuard; LCancelSeen] in
  let cut := LHandover :: map LLoop (firstn 7 gevs) ++ [LGuard; LCancelSeen; LGuard] in
  (exists m, lrun wH gdec g_blen g_ideal 11 true [] full = LDone None m /\
             s_db (c_sched (m_c m)) = [(11, 1); (13, 3); (14, 4); (15, 5); (12, 2); (16, 6)]) /\
  (exists m, lrun wH gdec g_blen g_ideal 11 true [] cut = LDone (Some LCanceled) m /\
             pending (c_sched (m_c m)) = 3 /\ s_db (c_sched (m_c m)) = []) /\
  lrun wH gdec g_blen g_ideal 11 true [] [LQuit; LHandover; LGuard] = LFailedLaunch /\
  lrun wH gdec g_blen g_ideal 11 true [] [LCancelSeen; LGuard] = LQueued.
Proof. exact g_launch_run. Qed.
Print Assumptions C19_nonvacuous_launch.

(* a launch that ends with the error of process: the only peer has nothing *)
Example C19_nonvacuous_launch_error :
  exists m, lrun wH gdec g_blen g_ideal 11 true []
              [LHandover; LLoop (EAssign 0 1 [11] [11]); LLoop (EPack 0 []); LLoop (ENext 1); LGuard; LGuard]
            = LDone (Some (LFailed CAllPeers)) m /\
            pending (c_sched (m_c m)) = 1 /\ s_db (c_sched (m_c m)) = [].
Proof. exact g_launch_error. Qed.
Print Assumptions C19_nonvacuous_launch_error.
