From VF.C19 Require Import Model.
Local Open Scope N_scope.
Example C19_nonvacuous_stub : pending (new_sync (fun _ => None) 5 false []) = 1.
Proof. vm_compute. reflexivity. Qed.
Print Assumptions C19_nonvacuous_stub.
