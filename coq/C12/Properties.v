(* C12 - property theorems only.  Each is closed by [exact] of a lemma of
   Proofs.v / Bridge.v and followed by Print Assumptions. *)
From VF.C12 Require Import Model Proofs Bridge.
From VF.gen Require Import C12Tables.
Local Open Scope N_scope.

(* Full statement, part 1: along any chain of headers (oldest first) that starts
   without a live proposal and whose every link the verifier accepts, if the
   active version differs between two consecutive headers h, h' then the chain
   contains the run of headers that justifies it (see [justified_switch]):
   a proposal introduced right after a proposal-free header p, announcing
   exactly this version and exactly this round, unchanged in every header
   since; window end = introduction round + vote rounds; switch round within
   [window end + min wait, window end + max wait]; approvals start at 1 and
   grow by at most one per block and only at rounds inside the window; and
   some header inside the window already carries >= threshold approvals. *)
Theorem C12_switch_only_by_quorum :
  forall t l h h', table_ok t = true -> Clean (hd h l) ->
    valid_chain t (l ++ [h; h']) = true -> cur h' <> cur h ->
    justified_switch t l h h'.
Proof. exact switch_justified. Qed.
Print Assumptions C12_switch_only_by_quorum.

(* part 2: no other accepted link changes the version *)
Theorem C12_version_constant_otherwise :
  forall t h h', verify_vs t h h' = Ok -> nso h <> num h' -> cur h' = cur h.
Proof. exact version_constant_otherwise. Qed.
Print Assumptions C12_version_constant_otherwise.

(* part 3: every header the builder derives from a reachable parent verifies
   (or the builder switches to a version unknown locally, where the verifier
   of the same node stops the process: logging.Crit) *)
Theorem C12_builder_accepted :
  forall t l h curr, table_ok t = true -> Clean (hd h l) ->
    valid_chain t (l ++ [h]) = true -> process_vs t h = Some curr ->
    verify_vs t h curr = Ok \/
    (nso h = num curr /\ lookup t (nv h) = None /\ verify_vs t h curr = Crit).
Proof. exact builder_accepted_chain. Qed.
Print Assumptions C12_builder_accepted.

(* part 4: whole chains produced by honest builders.  Starting from any
   proposal-free header and letting ProcessYouVersionState derive header after
   header (as long as it returns no error), every link is accepted by the
   verifier: the builder never produces a header the network rejects, across
   proposals, approvals, failed proposals and version switches. *)
Theorem C12_builder_chain_valid :
  forall t h n, table_ok t = true -> Clean h -> valid_chain t (build_chain t h n) = true.
Proof. exact builder_chain_valid. Qed.
Print Assumptions C12_builder_chain_valid.

(* bridge: the guard holds for every table regenerated from params.Versions *)
Theorem C12_real_tables_meet_guard : forall t, In t all_tables -> table_ok t = true.
Proof. exact real_tables_meet_guard. Qed.
Print Assumptions C12_real_tables_meet_guard.

(* non-vacuity: a concrete accepted chain with a version switch, and a builder step *)
Definition ex_tbl : table := [(1, mkProto 2 2 1 2 2 0); (2, mkProto 2 2 1 2 0 0)].
Definition ex_chain : list hdr :=
  [mkHdr 4 1 0 0 0 0; mkHdr 5 1 2 7 8 1; mkHdr 6 1 2 7 8 2; mkHdr 7 1 2 7 8 2; mkHdr 8 2 0 0 0 0].
Example C12_nonvacuous_switch :
  table_ok ex_tbl = true /\ Clean (hd (mkHdr 0 0 0 0 0 0) ex_chain) /\
  valid_chain ex_tbl ex_chain = true /\ cur (mkHdr 8 2 0 0 0 0) <> cur (mkHdr 7 1 2 7 8 2).
Proof. repeat split; try reflexivity. vm_compute. discriminate. Qed.
Print Assumptions C12_nonvacuous_switch.

Example C12_nonvacuous_builder_chain :
  map cur (build_chain ex_tbl (mkHdr 4 1 0 0 0 0) 4) = [1; 1; 1; 1; 2].
Proof. vm_compute. reflexivity. Qed.
Print Assumptions C12_nonvacuous_builder_chain.

Example C12_nonvacuous_builder :
  process_vs ex_tbl (mkHdr 4 1 0 0 0 0) = Some (mkHdr 5 1 2 7 8 1) /\
  process_vs ex_tbl (mkHdr 7 1 2 7 8 2) = Some (mkHdr 8 2 0 0 0 0).
Proof. split; vm_compute; reflexivity. Qed.
Print Assumptions C12_nonvacuous_builder.

(* The chain-level verifier every imported batch goes through
   (BlockChain.VerifyYouVersionState / VerifyYouVersionState2) accepts a batch
   exactly when every link - the first header against the canonical header below
   the batch, then each header against its predecessor IN THE BATCH - is accepted
   by the pairwise verifier; all theorems above about [valid_chain] therefore
   apply to every chain imported batch by batch, however the batches overlap what
   the node already has. *)
Theorem C12_batch_verifier_is_link_by_link :
  forall t p l, consecutive (p :: l) = true ->
    (verify_batch t p l = None <-> valid_chain t (p :: l) = true).
Proof. exact verify_batch_none_iff. Qed.
Print Assumptions C12_batch_verifier_is_link_by_link.

(* ... and when it rejects, the index it reports is the first rejected link. *)
Theorem C12_batch_verifier_reports_first_bad_link :
  forall t p l i, verify_batch t p l = Some i ->
    exists pre h post q,
      l = pre ++ h :: post /\ N.of_nat (length pre) = i /\
      q = last (p :: pre) p /\
      verify_batch t p pre = None /\ verdict_eqb (verify_vs t q h) Ok = false.
Proof. exact verify_batch_some. Qed.
Print Assumptions C12_batch_verifier_reports_first_bad_link.
