(* C12 - invariants of chains accepted by the version-state verifier. *)
From Coq Require Import Lia.
From VF.C12 Require Import Model.

Local Open Scope N_scope.

(* ---- guard on parameter tables ---------------------------------------- *)
Definition proto_ok (p : proto) : bool :=
  N.leb 1 (vote_rounds p) && N.leb 1 (min_wait p) && N.leb (min_wait p) (max_wait p).
Definition table_ok (t : table) : bool := forallb (fun kp => proto_ok (snd kp)) t.

Lemma lookup_ok t v p : table_ok t = true -> lookup t v = Some p ->
  1 <= vote_rounds p /\ 1 <= min_wait p /\ min_wait p <= max_wait p.
Proof.
  induction t as [|[k q] r IH]; simpl; intros Hok Hl; [discriminate|].
  apply andb_prop in Hok as [Hq Hr].
  destruct (N.eqb k v).
  - injection Hl as <-. unfold proto_ok in Hq.
    apply andb_prop in Hq as [Hq H3]. apply andb_prop in Hq as [H1 H2].
    apply N.leb_le in H1, H2, H3. auto.
  - auto.
Qed.

(* ---- case analysis of an accepted link -------------------------------- *)
Definition Clean (h : hdr) : Prop := nv h = 0 /\ nvb h = 0 /\ nso h = 0 /\ na h = 0.

Inductive link (pp : proto) (prev curr : hdr) : Prop :=
| L_switch : nso prev = num curr -> cur curr = nv prev -> Clean curr -> link pp prev curr
| L_fail : nso prev <> num curr -> cur curr = cur prev -> nv prev <> 0 ->
    nvb prev = num curr -> na prev < threshold pp -> Clean curr -> link pp prev curr
| L_ongoing : nso prev <> num curr -> cur curr = cur prev -> nv prev <> 0 ->
    nv curr = nv prev -> nvb curr = nvb prev -> nso curr = nso prev ->
    (na curr < threshold pp -> num curr < nvb curr) ->
    (na curr = na prev \/ (na curr = na prev + 1 /\ num curr < nvb prev)) ->
    link pp prev curr
| L_new : nso prev <> num curr -> cur curr = cur prev -> nv prev = 0 -> nv curr <> 0 ->
    nvb curr = num curr + vote_rounds pp ->
    nvb curr + min_wait pp <= nso curr -> nso curr <= nvb curr + max_wait pp ->
    na curr = 1 -> link pp prev curr
| L_none : nso prev <> num curr -> cur curr = cur prev -> nv prev = 0 -> Clean curr ->
    link pp prev curr.

Ltac bool_hyps :=
  repeat match goal with
  | H : _ && _ = true |- _ => apply andb_prop in H; destruct H
  | H : _ && _ = false |- _ => apply andb_false_iff in H; destruct H
  | H : true = false |- _ => discriminate H
  | H : false = true |- _ => discriminate H
  | H : negb _ = true |- _ => apply negb_true_iff in H
  | H : negb _ = false |- _ => apply negb_false_iff in H
  | H : N.eqb _ _ = true |- _ => apply N.eqb_eq in H
  | H : N.eqb _ _ = false |- _ => apply N.eqb_neq in H
  | H : N.ltb _ _ = true |- _ => apply N.ltb_lt in H
  | H : N.ltb _ _ = false |- _ => apply N.ltb_ge in H
  | H : N.leb _ _ = true |- _ => apply N.leb_le in H
  | H : N.leb _ _ = false |- _ => apply N.leb_gt in H
  end.

Lemma verify_ok_inv t prev curr :
  verify_vs t prev curr = Ok ->
  exists pp, lookup t (cur prev) = Some pp /\ link pp prev curr.
Proof.
  unfold verify_vs. destruct (lookup t (cur prev)) as [pp|]; [|discriminate].
  intros H. exists pp. split; [reflexivity|].
  destruct (N.eqb (nso prev) (num curr)) eqn:Esw.
  - destruct (negb (N.eqb (nv prev) (cur curr))) eqn:E1; [discriminate|].
    match type of H with (if negb ?b then _ else _) = _ => destruct b eqn:E2 end;
      simpl in H; [|discriminate].
    bool_hyps. apply L_switch; unfold Clean; auto.
  - destruct (negb (N.eqb (cur curr) (cur prev))) eqn:Ec; [discriminate|].
    match type of H with (if ?b then _ else _) = _ => destruct b eqn:Ev end; [|discriminate].
    clear H. bool_hyps.
    destruct (negb (N.eqb (nv prev) 0)) eqn:Ep.
    + destruct (N.eqb (nv curr) 0) eqn:En.
      * bool_hyps. apply L_fail; unfold Clean; auto.
      * bool_hyps. apply L_ongoing; auto.
        -- intros Hlt. apply N.ltb_lt in Hlt.
           match goal with Hi : (if N.ltb (na curr) _ then _ else _) = true |- _ =>
             rewrite Hlt in Hi; apply N.ltb_lt in Hi; exact Hi end.
        -- match goal with Hi : (_ || _) = true |- _ => apply orb_prop in Hi; destruct Hi end;
             bool_hyps; auto.
    + destruct (negb (N.eqb (nv curr) 0)) eqn:En.
      * bool_hyps. apply L_new; auto.
      * bool_hyps. apply L_none; unfold Clean; auto.
Qed.

(* ---- chains ------------------------------------------------------------ *)
Lemma valid_chain_app_inv t l1 l2 :
  valid_chain t (l1 ++ l2) = true -> valid_chain t l1 = true /\ valid_chain t l2 = true.
Proof.
  induction l1 as [|h r IH]; intros H; [split; [reflexivity|exact H]|].
  destruct r as [|h' r'].
  - split; [reflexivity|]. destruct l2 as [|x l2]; [reflexivity|].
    simpl in H. apply andb_prop in H as [_ H]. exact H.
  - change ((h :: h' :: r') ++ l2) with (h :: (h' :: r') ++ l2) in H.
    simpl in H. apply andb_prop in H as [H1 H2].
    destruct (IH H2) as [Ha Hb]. split; [|exact Hb].
    simpl. rewrite H1. exact Ha.
Qed.

Lemma valid_chain_snoc2 t l h h' :
  valid_chain t (l ++ [h; h']) = true ->
  valid_chain t (l ++ [h]) = true /\ num h' = num h + 1 /\ verify_vs t h h' = Ok.
Proof.
  intros H. split.
  - replace (l ++ [h; h']) with ((l ++ [h]) ++ [h']) in H by (rewrite <- app_assoc; reflexivity).
    apply valid_chain_app_inv in H. tauto.
  - apply valid_chain_app_inv in H as [_ H]. simpl in H.
    bool_hyps. split; [assumption|].
    destruct (verify_vs t h h'); simpl in *; try discriminate; reflexivity.
Qed.

(* consecutive steps inside a proposal run; [vb] is the end of the window *)
Fixpoint steps (vb : N) (prev : hdr) (seg : list hdr) : Prop :=
  match seg with
  | [] => True
  | x :: r =>
    num x = num prev + 1 /\
    (nv prev = 0 -> na x = 1) /\
    (nv prev <> 0 -> na x = na prev \/ (na x = na prev + 1 /\ num x < vb)) /\
    steps vb x r
  end.

Lemma last_cons {A} (r : list A) (y p : A) : last (y :: r) p = last r y.
Proof.
  revert y p. induction r as [|a r IH]; intros y p; [reflexivity|].
  change (last (y :: a :: r) p) with (last (a :: r) p). rewrite (IH a p), (IH a y). reflexivity.
Qed.

Lemma steps_snoc vb p seg x :
  steps vb p (seg ++ [x]) <->
  steps vb p seg /\
  (num x = num (last seg p) + 1 /\
   (nv (last seg p) = 0 -> na x = 1) /\
   (nv (last seg p) <> 0 -> na x = na (last seg p) \/ (na x = na (last seg p) + 1 /\ num x < vb))).
Proof.
  revert p. induction seg as [|y r IH]; intros p.
  - simpl. tauto.
  - change ((y :: r) ++ [x]) with (y :: (r ++ [x])).
    cbn [steps]. rewrite IH.
    rewrite last_cons.
    tauto.
Qed.

(* what every header carrying the proposal looks like *)
Definition carries (pp : proto) (p : hdr) (v vb so : N) (x : hdr) : Prop :=
  cur x = cur p /\ nv x = v /\ nvb x = vb /\ nso x = so /\ num x < so /\ 1 <= na x /\
  (vb <= num x -> threshold pp <= na x).

(* a proposal introduced right after the clean header [p], carried by [seg] *)
Definition run (pp : proto) (p : hdr) (seg : list hdr) (v vb so : N) : Prop :=
  v <> 0 /\ vb = num p + 1 + vote_rounds pp /\
  vb + min_wait pp <= so /\ so <= vb + max_wait pp /\
  Forall (carries pp p v vb so) seg /\ steps vb p seg /\
  (vb <= num (last seg p) ->
     exists w, In w seg /\ num w < vb /\ threshold pp <= na w).

Definition Live (t : table) (l : list hdr) (h : hdr) : Prop :=
  exists pre p seg pp v vb so,
    l = pre ++ p :: seg /\ seg <> [] /\ last seg p = h /\ Clean p /\
    lookup t (cur p) = Some pp /\ run pp p seg v vb so.

Definition Inv (t : table) (l : list hdr) (h : hdr) : Prop := Clean h \/ Live t l h.

Lemma last_snoc {A} (l : list A) (x d : A) : last (l ++ [x]) d = x.
Proof. induction l as [|a r IH]; [reflexivity|]. simpl. destruct (r ++ [x]) eqn:E; [destruct r; discriminate|]. exact IH. Qed.

Lemma inv_step t l h h' :
  table_ok t = true ->
  Inv t (l ++ [h]) h -> num h' = num h + 1 -> verify_vs t h h' = Ok ->
  Inv t (l ++ [h; h']) h'.
Proof.
  intros Hok HI Hn Hv.
  apply verify_ok_inv in Hv as (pp & Hpp & Hl).
  destruct (lookup_ok _ _ _ Hok Hpp) as (Hvr & Hmin & Hmm).
  destruct Hl as [Hsw Hc Hcl | Hsw Hc Hp Hb Hth Hcl | Hsw Hc Hp Hnv Hvb Hso Hw Hst
                 | Hsw Hc Hp Hn' Hvb Hlo Hhi Hna | Hsw Hc Hp Hcl].
  - left; exact Hcl.
  - left; exact Hcl.
  - (* ongoing *)
    right. destruct HI as [(Hz & _) | HL]; [contradiction|].
    destruct HL as (pre & p & seg & pp' & v & vb & so & El & Hne & Hlast & Hclp & Hpp' & Hrun).
    destruct Hrun as (Hv0 & Evb & Hlo & Hhi & Hall & Hsteps & HW).
    assert (Hh : carries pp' p v vb so h).
    { rewrite Forall_forall in Hall. apply Hall. rewrite <- Hlast.
      destruct seg as [|s0 sr]; [contradiction|]. apply (@exists_last _ (s0 :: sr)) in Hne.
      destruct Hne as (q & z & ->). rewrite last_snoc. apply in_or_app; right; left; reflexivity. }
    destruct Hh as (Hcur & Hnvh & Hnvbh & Hnsoh & Hlt & Hge1 & Hthr).
    assert (pp' = pp) as -> by (rewrite Hcur in Hpp; congruence).
    exists pre, p, (seg ++ [h']), pp, v, vb, so.
    split; [replace (l ++ [h; h']) with ((l ++ [h]) ++ [h']) by (rewrite <- app_assoc; reflexivity);
            rewrite El, <- app_assoc; reflexivity|].
    split; [destruct seg; discriminate|].
    split; [apply last_snoc|].
    split; [exact Hclp|]. split; [exact Hpp'|].
    unfold run. repeat split; try assumption.
    + apply Forall_app; split; [exact Hall|]. constructor; [|constructor].
      unfold carries. repeat split; try congruence; try lia.
    + apply steps_snoc. split; [exact Hsteps|]. rewrite Hlast.
      split; [exact Hn|]. split; [intros; contradiction|]. intros _.
      destruct Hst as [|[? ?]]; [left; assumption|right; split; [assumption|lia]].
    + rewrite last_snoc. intros Hge.
      destruct (N.lt_ge_cases (num h) vb) as [Hin|Hout].
      * (* h is the last header of the window *)
        exists h. split.
        { apply in_or_app; left. rewrite <- Hlast.
          destruct seg as [|s0 sr]; [contradiction|]. apply (@exists_last _ (s0 :: sr)) in Hne.
          destruct Hne as (q & z & ->). rewrite last_snoc. apply in_or_app; right; left; reflexivity. }
        split; [exact Hin|].
        destruct (N.lt_ge_cases (na h') (threshold pp)) as [Hlt'|Hge'].
        { specialize (Hw Hlt'). lia. }
        destruct Hst as [He|[He Hlt']]; [lia|lia].
      * rewrite Hlast in HW. destruct (HW Hout) as (w & Hin & Hw1 & Hw2).
        exists w. split; [apply in_or_app; left; exact Hin|]. split; assumption.
  - (* new proposal *)
    right. exists l, h, [h'], pp, (nv h'), (nvb h'), (nso h').
    assert (Hclh : Clean h).
    { destruct HI as [Hcl | HL]; [exact Hcl|].
      destruct HL as (pre & p & seg & pp' & v & vb & so & El & Hne & Hlast & Hclp & Hpp' & Hrun).
      destruct Hrun as (Hv0 & Evb & Hlo' & Hhi' & Hall & _).
      exfalso. rewrite Forall_forall in Hall.
      assert (Hin : In h seg).
      { rewrite <- Hlast. destruct seg as [|s0 sr]; [contradiction|].
        apply (@exists_last _ (s0 :: sr)) in Hne. destruct Hne as (q & z & ->).
        rewrite last_snoc. apply in_or_app; right; left; reflexivity. }
      destruct (Hall _ Hin) as (_ & Hnvh & _). congruence. }
    split; [reflexivity|]. split; [discriminate|]. split; [reflexivity|].
    split; [exact Hclh|]. split; [exact Hpp|].
    unfold run. repeat split; try assumption; try lia.
    + constructor; [|constructor]. unfold carries. repeat split; try assumption; try reflexivity; try lia.
    + simpl. intros Hge. lia.
  - left; exact Hcl.
Qed.

Lemma inv_chain t l h :
  table_ok t = true -> valid_chain t (l ++ [h]) = true ->
  Clean (hd h l) -> Inv t (l ++ [h]) h.
Proof.
  intros Hok. revert h. induction l as [|x l IH] using rev_ind; intros h Hv Hcl.
  - left. exact Hcl.
  - rewrite <- app_assoc in Hv |- *. simpl in Hv |- *.
    apply valid_chain_snoc2 in Hv as (Hv1 & Hn & Hver).
    apply inv_step; try assumption. apply IH; [exact Hv1|].
    destruct l; exact Hcl.
Qed.

(* ---- the version only changes at an announced, approved switch --------- *)
Definition justified_switch (t : table) (l : list hdr) (h h' : hdr) : Prop :=
  exists pre p seg pp vb,
    l ++ [h] = pre ++ p :: seg /\ seg <> [] /\ last seg p = h /\
    Clean p /\ lookup t (cur p) = Some pp /\
    (* announced: every header since the proposal carries the same target,
       window end and switch round, and the switch round is this block *)
    Forall (fun x => cur x = cur p /\ nv x = cur h' /\ nvb x = vb /\ nso x = num h') seg /\
    nv h <> 0 /\
    vb = num p + 1 + vote_rounds pp /\
    (* minimum wait after the window closes, and maximum *)
    vb + min_wait pp <= num h' /\ num h' <= vb + max_wait pp /\
    (* one approval per block at most, only inside the window, starting at 1 *)
    steps vb p seg /\
    (* threshold reached inside the window *)
    (exists w, In w seg /\ num w < vb /\ threshold pp <= na w) /\
    threshold pp <= na h.

Lemma switch_justified t l h h' :
  table_ok t = true -> Clean (hd h l) ->
  valid_chain t (l ++ [h; h']) = true ->
  cur h' <> cur h -> justified_switch t l h h'.
Proof.
  intros Hok Hcl Hv Hne.
  apply valid_chain_snoc2 in Hv as (Hv1 & Hn & Hver).
  pose proof (inv_chain t l h Hok Hv1 Hcl) as HI.
  apply verify_ok_inv in Hver as (pp & Hpp & Hl).
  destruct Hl as [Hsw Hc Hclc | ? Hc | ? Hc | ? Hc | ? Hc]; try (exfalso; apply Hne; exact Hc).
  destruct HI as [(Hz & Hz1 & Hz2 & Hz3) | HL]; [lia|].
  destruct HL as (pre & p & seg & pp' & v & vb & so & El & Hnes & Hlast & Hclp & Hpp' & Hrun).
  destruct Hrun as (Hv0 & Evb & Hlo & Hhi & Hall & Hsteps & HW).
  destruct (lookup_ok _ _ _ Hok Hpp') as (Hvr & Hmin & Hmm).
  assert (Hh : carries pp' p v vb so h).
  { rewrite Forall_forall in Hall. apply Hall. rewrite <- Hlast.
    destruct seg as [|s0 sr]; [contradiction|]. apply (@exists_last _ (s0 :: sr)) in Hnes.
    destruct Hnes as (q & z & ->). rewrite last_snoc. apply in_or_app; right; left; reflexivity. }
  destruct Hh as (Hcur & Hnvh & Hnvbh & Hnsoh & Hlt & Hge1 & Hthr).
  assert (so = num h') as -> by congruence.
  exists pre, p, seg, pp', vb.
  pose proof Hclp as (? & ? & ? & ?).
  repeat split; try assumption; try lia.
  - rewrite Forall_forall in Hall |- *. intros x Hx.
    destruct (Hall x Hx) as (? & ? & ? & ? & _). repeat split; congruence.
  - rewrite Hlast in HW. apply HW. lia.
Qed.

(* ---- every honestly derived header is accepted ------------------------- *)
(* what the verifier's own invariant guarantees about a reachable parent *)
Definition Reach (t : table) (h : hdr) : Prop :=
  Clean h \/
  (nv h <> 0 /\ num h < nso h /\
   exists pp, lookup t (cur h) = Some pp /\
     nvb h + min_wait pp <= nso h /\ (nvb h <= num h -> threshold pp <= na h)).

Lemma inv_reach t l h : Inv t l h -> Reach t h.
Proof.
  intros [Hc|HL]; [left; exact Hc|right].
  destruct HL as (pre & p & seg & pp' & v & vb & so & El & Hnes & Hlast & Hclp & Hpp' & Hrun).
  destruct Hrun as (Hv0 & Evb & Hlo & Hhi & Hall & Hsteps & HW).
  assert (Hh : carries pp' p v vb so h).
  { rewrite Forall_forall in Hall. apply Hall. rewrite <- Hlast.
    destruct seg as [|s0 sr]; [contradiction|]. apply (@exists_last _ (s0 :: sr)) in Hnes.
    destruct Hnes as (q & z & ->). rewrite last_snoc. apply in_or_app; right; left; reflexivity. }
  destruct Hh as (Hcur & Hnvh & Hnvbh & Hnsoh & Hlt & Hge1 & Hthr).
  split; [congruence|]. split; [lia|]. exists pp'. split; [congruence|]. split; [lia|].
  intros; apply Hthr; lia.
Qed.

Ltac fields := cbn [num cur nv nvb nso na clear_upgrade andb orb negb] in *.

Ltac break_in H :=
  repeat (fields;
          match type of H with
          | context [match lookup ?t ?v with _ => _ end] => destruct (lookup t v) eqn:?
          | context [if ?b then _ else _] => destruct b eqn:?
          end);
  fields.

Ltac prune := bool_hyps; try (exfalso; lia).
Ltac break_goal :=
  fields;
  match goal with
  | |- context [N.eqb ?a ?b] => destruct (N.eqb a b) eqn:?; prune; break_goal
  | |- context [N.ltb ?a ?b] => destruct (N.ltb a b) eqn:?; prune; break_goal
  | |- context [N.leb ?a ?b] => destruct (N.leb a b) eqn:?; prune; break_goal
  | |- context [match lookup ?t ?v with _ => _ end] => destruct (lookup t v) eqn:?; break_goal
  | _ => idtac
  end.

Lemma builder_accepted t prev curr :
  table_ok t = true -> Reach t prev -> process_vs t prev = Some curr ->
  verify_vs t prev curr = Ok \/
  (nso prev = num curr /\ lookup t (nv prev) = None /\ verify_vs t prev curr = Crit).
Proof.
  intros Hok HR HP. unfold process_vs in HP.
  destruct (lookup t (cur prev)) as [pp|] eqn:Hpp; [|discriminate].
  destruct (lookup_ok _ _ _ Hok Hpp) as (Hvr & Hmin & Hmm).
  unfold verify_vs. rewrite Hpp.
  destruct HR as [(Hz & Hz1 & Hz2 & Hz3) | (Hnz & Hlt & pp' & Hpp' & Hlo & Hthr)].
  - rewrite Hz, ?Hz1, ?Hz2, ?Hz3 in *.
    break_in HP; try discriminate; injection HP as <-; fields;
      prune; break_goal;
      try (left; reflexivity); try congruence.
  - assert (pp' = pp) as -> by congruence.
    break_in HP; try discriminate; injection HP as <-; fields;
      prune; break_goal;
      try (left; reflexivity); try congruence;
      try (right; repeat split; (reflexivity || lia || congruence)).
Qed.

(* version is constant across every accepted link that is not a switch *)
Lemma version_constant_otherwise t h h' :
  verify_vs t h h' = Ok -> nso h <> num h' -> cur h' = cur h.
Proof.
  intros Hv Hn. apply verify_ok_inv in Hv as (pp & _ & Hl).
  destruct Hl; try assumption. contradiction.
Qed.

Lemma builder_accepted_chain t l h curr :
  table_ok t = true -> Clean (hd h l) -> valid_chain t (l ++ [h]) = true ->
  process_vs t h = Some curr ->
  verify_vs t h curr = Ok \/
  (nso h = num curr /\ lookup t (nv h) = None /\ verify_vs t h curr = Crit).
Proof.
  intros Hok Hcl Hv HP. apply builder_accepted; try assumption.
  eapply inv_reach. apply inv_chain; eassumption.
Qed.

(* ---- chains built by honest builders only -------------------------------- *)
Fixpoint build_chain (t : table) (h : hdr) (n : nat) : list hdr :=
  match n with
  | O => [h]
  | S n' => match process_vs t h with
            | Some c => h :: build_chain t c n'
            | None => [h]
            end
  end.

Lemma process_num t h c : process_vs t h = Some c -> num c = num h + 1.
Proof.
  unfold process_vs. intros HP.
  destruct (lookup t (cur h)) as [pp|]; [|discriminate].
  break_in HP; try discriminate; injection HP as <-; reflexivity.
Qed.

Lemma process_nv_known t h c :
  process_vs t h = Some c ->
  (nv h <> 0 -> lookup t (nv h) <> None) ->
  nv c <> 0 -> lookup t (nv c) <> None.
Proof.
  unfold process_vs. intros HP Hk.
  destruct (lookup t (cur h)) as [pp|]; [|discriminate].
  break_in HP; try discriminate; injection HP as <-; fields; bool_hyps;
    intros Hn; try (exfalso; apply Hn; reflexivity); try congruence;
    try (apply Hk; assumption); try (apply Hk; lia);
    try (exfalso; apply (Hk Hn); reflexivity);
    try (exfalso; assert (Hnz : nv h <> 0) by lia; apply (Hk Hnz); reflexivity).
Qed.

Lemma valid_chain_snoc t l h c :
  valid_chain t (l ++ [h]) = true -> num c = num h + 1 -> verify_vs t h c = Ok ->
  valid_chain t (l ++ [h; c]) = true.
Proof.
  induction l as [|x r IH]; intros Hv Hn Hok.
  - simpl. rewrite Hn, N.eqb_refl, Hok. reflexivity.
  - destruct r as [|y r'].
    + simpl in Hv |- *. apply andb_prop in Hv as [H1 _]. rewrite H1. simpl.
      rewrite Hn, N.eqb_refl, Hok. reflexivity.
    + change ((x :: y :: r') ++ [h]) with (x :: (y :: r') ++ [h]) in Hv.
      change ((x :: y :: r') ++ [h; c]) with (x :: (y :: r') ++ [h; c]).
      cbn [valid_chain app] in Hv |- *. apply andb_prop in Hv as [H1 H2].
      rewrite H1. cbn [andb]. apply IH; assumption.
Qed.

Lemma builder_chain_gen t n : table_ok t = true -> forall l h,
  Clean (hd h l) -> valid_chain t (l ++ [h]) = true ->
  (nv h <> 0 -> lookup t (nv h) <> None) ->
  valid_chain t (l ++ build_chain t h n) = true.
Proof.
  intros Hok. induction n as [|n IH]; intros l h Hcl Hv Hk; cbn [build_chain]; [exact Hv|].
  destruct (process_vs t h) as [c|] eqn:HP; [|exact Hv].
  pose proof (process_num _ _ _ HP) as Hn.
  assert (Hver : verify_vs t h c = Ok).
  { destruct (builder_accepted_chain t l h c Hok Hcl Hv HP) as [H|(Hs & Hnone & _)]; [exact H|].
    exfalso. destruct (N.eq_dec (nv h) 0) as [Hz|Hnz].
    - (* no proposal: nso h = num c is impossible for a reachable parent *)
      pose proof (inv_reach _ _ _ (inv_chain t l h Hok Hv Hcl)) as [(_ & _ & Hso & _)|(Hnz' & _)]; [lia|contradiction].
    - exact (Hk Hnz Hnone). }
  replace (l ++ h :: build_chain t c n) with ((l ++ [h]) ++ build_chain t c n)
    by (rewrite <- app_assoc; reflexivity).
  apply IH.
  - destruct l; exact Hcl.
  - rewrite <- app_assoc. apply valid_chain_snoc; assumption.
  - apply (process_nv_known t h c HP Hk).
Qed.

(* every chain produced by honest builders from a proposal-free header verifies link by link *)
Lemma builder_chain_valid t h n :
  table_ok t = true -> Clean h -> valid_chain t (build_chain t h n) = true.
Proof.
  intros Hok Hcl. apply (builder_chain_gen t n Hok [] h); [exact Hcl|reflexivity|].
  destruct Hcl as (Hz & _). intros; contradiction.
Qed.

(* ---- the chain-level verifier is the link-by-link check ------------------ *)

Lemma verify_batch_none_iff t p l :
  consecutive (p :: l) = true ->
  (verify_batch t p l = None <-> valid_chain t (p :: l) = true).
Proof.
  revert p; induction l as [|h r IH]; intros p Hc.
  - cbn. split; reflexivity.
  - cbn [consecutive] in Hc. apply andb_true_iff in Hc as [Hn Hc].
    cbn [verify_batch valid_chain].
    rewrite Hn. cbn [andb].
    destruct (verdict_eqb (verify_vs t p h) Ok) eqn:Hv; cbn [andb].
    + specialize (IH h Hc). split.
      * intro H. apply IH. destruct (verify_batch t h r); [discriminate|reflexivity].
      * intro H. apply IH in H. rewrite H. reflexivity.
    + split; discriminate.
Qed.

(* the index the chain-level verifier reports is the first rejected link: every
   link before it is accepted, the link at it is rejected *)
Lemma verify_batch_some t p l i :
  verify_batch t p l = Some i ->
  exists pre h post q,
    l = pre ++ h :: post /\ N.of_nat (length pre) = i /\
    q = last (p :: pre) p /\
    verify_batch t p pre = None /\ verdict_eqb (verify_vs t q h) Ok = false.
Proof.
  revert p i; induction l as [|h r IH]; intros p i H; [discriminate|].
  cbn [verify_batch] in H.
  destruct (verdict_eqb (verify_vs t p h) Ok) eqn:Hv.
  - destruct (verify_batch t h r) as [j|] eqn:Hr; [|discriminate].
    cbn in H. injection H as <-.
    destruct (IH h j Hr) as (pre & x & post & q & -> & Hl & Hq & Hpre & Hx).
    exists (h :: pre), x, post, q. repeat split.
    + cbn [length]. rewrite Nat2N.inj_succ, Hl. reflexivity.
    + rewrite Hq. rewrite !last_cons. reflexivity.
    + cbn [verify_batch]. rewrite Hv, Hpre. reflexivity.
    + exact Hx.
  - injection H as <-. exists [], h, r, p. repeat split; cbn; auto.
Qed.
