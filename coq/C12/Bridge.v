(* C12 - the regenerated real parameter tables satisfy the guard the theorems assume. *)
From VF.C12 Require Import Model Proofs.
From VF.gen Require Import C12Tables.

Lemma real_tables_ok : forallb table_ok all_tables = true.
Proof. vm_compute. reflexivity. Qed.

Lemma real_tables_meet_guard : forall t, In t all_tables -> table_ok t = true.
Proof. apply forallb_forall. exact real_tables_ok. Qed.
