(* C12 - executable model of core/protocol_version_processor.go
   (ProcessYouVersionState / VerifyYouVersionState / clearUpgradeState).
   No proofs in this file.  Numbers are unbounded N: uint64 wrap-around of
   round numbers is outside the model (rounds < 2^63 assumed). *)
From Coq Require Export List NArith Bool.
Export ListNotations.
Open Scope N_scope.

Record proto := mkProto {
  vote_rounds : N;   (* UpgradeVoteRounds *)
  threshold   : N;   (* UpgradeThreshold *)
  min_wait    : N;   (* MinUpgradeWaitRounds *)
  max_wait    : N;   (* MaxUpgradeWaitRounds *)
  approved    : N;   (* ApprovedUpgradeVersion (0 = none) *)
  wait_rounds : N    (* UpgradeWaitRounds (read from the *next* protocol) *)
}.

Definition table := list (N * proto).   (* params.Versions *)

Fixpoint lookup (t : table) (v : N) : option proto :=
  match t with
  | [] => None
  | (k, p) :: r => if N.eqb k v then Some p else lookup r v
  end.

(* the six header fields the two functions read or write *)
Record hdr := mkHdr {
  num : N;   (* Number *)
  cur : N;   (* CurrVersion *)
  nv  : N;   (* NextVersion *)
  nvb : N;   (* NextVoteBefore *)
  nso : N;   (* NextSwitchOn *)
  na  : N    (* NextApprovals *)
}.

Definition clear_upgrade (h : hdr) : hdr :=
  mkHdr (num h) (cur h) 0 0 0 0.

(* ProcessYouVersionState: None = error return.  The current header's number
   is prev.Number+1 (set by the caller before the call). *)
Definition process_vs (t : table) (prev : hdr) : option hdr :=
  match lookup t (cur prev) with
  | None => None
  | Some pp =>
    let round := num prev + 1 in
    (* upgradeVote := (ProposedVersion, WaitRounds, UpgradeApprove) *)
    let vote : option (N * N * bool) :=
      if N.eqb (nv prev) 0 then
        if N.ltb 0 (approved pp) then
          match lookup t (approved pp) with
          | None => None
          | Some np =>
            if N.ltb (min_wait pp) (wait_rounds np) then
              if N.ltb (max_wait pp) (wait_rounds np) then None
              else Some (approved pp, wait_rounds np, true)
            else Some (approved pp, min_wait pp, true)
          end
        else Some (0, 0, false)
      else
        if N.ltb round (nvb prev) then
          Some (0, 0, match lookup t (nv prev) with Some _ => true | None => false end)
        else Some (0, 0, false)
    in
    match vote with
    | None => None
    | Some (proposed, wait, approve) =>
      let c0 :=
        if N.ltb 0 proposed then
          let vb := round + vote_rounds pp in
          mkHdr round (cur prev) proposed vb (vb + wait) 1
        else if N.ltb 0 (nv prev) then
          mkHdr round (cur prev) (nv prev) (nvb prev) (nso prev)
                (if N.ltb round (nvb prev) && approve then na prev + 1 else na prev)
        else mkHdr round (cur prev) 0 0 0 0 in
      let c1 := if N.eqb round (nvb c0) && N.ltb (na c0) (threshold pp)
                then clear_upgrade c0 else c0 in
      let c2 := if N.eqb round (nso c1)
                then clear_upgrade (mkHdr (num c1) (nv c1) (nv c1) (nvb c1) (nso c1) (na c1))
                else c1 in
      Some c2
    end
  end.

Inductive verdict := Ok | Invalid | Crit.

Definition verdict_eqb (a b : verdict) : bool :=
  match a, b with Ok, Ok | Invalid, Invalid | Crit, Crit => true | _, _ => false end.

(* VerifyYouVersionState.  Crit = logging.Crit (process exits). *)
Definition verify_vs (t : table) (prev curr : hdr) : verdict :=
  match lookup t (cur prev) with
  | None => Crit
  | Some pp =>
    let r := num curr in
    if N.eqb (nso prev) r then
      (* 1. an upgrade *)
      if negb (N.eqb (nv prev) (cur curr)) then Invalid
      else if negb (N.eqb (nv curr) 0 && N.eqb (nvb curr) 0 && N.eqb (nso curr) 0 && N.eqb (na curr) 0)
      then Invalid
      else match lookup t (cur curr) with Some _ => Ok | None => Crit end
    else if negb (N.eqb (cur curr) (cur prev)) then Invalid
    else
      let valid :=
        if negb (N.eqb (nv prev) 0) then
          if N.eqb (nv curr) 0 then
            (* 2.1 failed proposal *)
            N.eqb (nvb prev) r && N.ltb (na prev) (threshold pp)
            && N.eqb (na curr) 0 && N.eqb (nvb curr) 0 && N.eqb (nso curr) 0
          else
            (* 2.2 still on-going *)
            N.eqb (nv curr) (nv prev)
            && N.eqb (nvb curr) (nvb prev)
            && (if N.ltb (na curr) (threshold pp) then N.ltb r (nvb curr) else true)
            && (N.eqb (na curr) (na prev)
                || (N.eqb (na curr) (na prev + 1) && N.ltb r (nvb prev)))
            && N.eqb (nso curr) (nso prev)
        else
          if negb (N.eqb (nv curr) 0) then
            (* 3. new proposal *)
            N.eqb (nvb curr) (r + vote_rounds pp)
            && N.leb (nvb curr + min_wait pp) (nso curr)
            && N.leb (nso curr) (nvb curr + max_wait pp)
            && N.eqb (na curr) 1
          else
            (* 4. no proposal *)
            N.eqb (na curr) 0 && N.eqb (nvb curr) 0 && N.eqb (nso curr) 0
      in if valid then Ok else Invalid
  end.

(* A chain of headers (oldest first) every link of which the verifier accepts,
   with consecutive numbers (enforced elsewhere by header verification). *)
Fixpoint valid_chain (t : table) (l : list hdr) : bool :=
  match l with
  | [] => true
  | h :: r =>
    match r with
    | [] => true
    | h' :: _ => N.eqb (num h') (num h + 1) && verdict_eqb (verify_vs t h h') Ok
                 && valid_chain t r
    end
  end.

(* The chain-level verifier used for every imported batch
   (BlockChain.VerifyYouVersionState / VerifyYouVersionState2 in Go): the headers of
   the batch are checked link by link, the first one against the canonical
   header just below the batch; the result is the index of the first rejected
   header, if any.  Whether an element is already known to the node plays no
   role. *)
Fixpoint verify_batch (t : table) (parent : hdr) (l : list hdr) : option N :=
  match l with
  | [] => None
  | h :: r => if verdict_eqb (verify_vs t parent h) Ok
              then option_map N.succ (verify_batch t h r)
              else Some 0
  end.

Fixpoint consecutive (l : list hdr) : bool :=
  match l with
  | [] => true
  | h :: r => match r with
              | [] => true
              | h' :: _ => N.eqb (num h') (num h + 1) && consecutive r
              end
  end.

(* ---- correspondence runner --------------------------------------------- *)

(* one case: table, prev, curr, observed verify verdict (0 ok / 1 invalid),
   observed process result on prev *)
Record case := mkCase {
  c_tbl : table; c_prev : hdr; c_curr : hdr;
  c_verify : N;                 (* 0 = nil error, 1 = error *)
  c_process : option hdr        (* None = error *)
}.

Definition hdr_eqb (a b : hdr) : bool :=
  N.eqb (num a) (num b) && N.eqb (cur a) (cur b) && N.eqb (nv a) (nv b)
  && N.eqb (nvb a) (nvb b) && N.eqb (nso a) (nso b) && N.eqb (na a) (na b).

Definition case_ok (c : case) : bool :=
  (match verify_vs (c_tbl c) (c_prev c) (c_curr c), c_verify c with
   | Ok, 0 => true | Invalid, 1 => true | _, _ => false end)
  && (match process_vs (c_tbl c) (c_prev c), c_process c with
      | None, None => true
      | Some a, Some b => hdr_eqb a b
      | _, _ => false end).

Fixpoint mismatches_from (i : N) (l : list case) : list N :=
  match l with
  | [] => []
  | c :: r => if case_ok c then mismatches_from (i + 1) r else i :: mismatches_from (i + 1) r
  end.
Definition mismatches := mismatches_from 0.

(* a batch case: table, the canonical header below the batch, the batch, and the
   observed result of the chain-level verifier (None = accepted, Some i = index
   of the rejected element) *)
Record bcase := mkBCase {
  b_tbl : table; b_parent : hdr; b_chain : list hdr; b_res : option N
}.
Definition bcase_ok (c : bcase) : bool :=
  match verify_batch (b_tbl c) (b_parent c) (b_chain c), b_res c with
  | None, None => true
  | Some a, Some b => N.eqb a b
  | _, _ => false
  end.
Fixpoint bmismatches_from (i : N) (l : list bcase) : list N :=
  match l with
  | [] => []
  | c :: r => if bcase_ok c then bmismatches_from (i + 1) r else i :: bmismatches_from (i + 1) r
  end.
