(* C03 - property theorems only.  Each is closed by [exact] of a lemma of
   Proofs*.v and followed by Print Assumptions.

   Reading guide.  [run_state E Hp] is the voter after the history Hp (any list
   of context changes, cache changes, server moves and delivered vote messages
   with any status / signature / stake / credential outcome); [step] executes
   one more op and returns the events the voter posts.  [Quorum E H r i t h]
   (ProofsB, unpacked by C03_quorum_meaning) says: there is a sound tally of
   chamber votes of type t at (r, i), each backed by the history H, whose
   count for block h is at least uint32(float64(threshold) * 0.685) (0.585
   for certificate votes), the threshold being the one a delivered message's
   stake look-up or the voter's own step view supplied. *)
From VF.C03 Require Import Model ProofsA ProofsB ProofsC ProofsD ProofsE Bridge.
From VF.gen Require Import C03Locks.
Local Open Scope N_scope.

(* 1. a precommit goes out only on a counted prevote quorum for exactly that
   block at exactly the voter's round/index *)
Theorem C03_precommit_needs_quorum : forall E Hp o v' ev c r i h p n,
  step E (run_state E Hp) o = (v', ev, c) ->
  In (ESend V.Precommit r i h p n) ev ->
  r = round_of v' /\ i = v_idx v' /\ Quorum E (Hp ++ [o]) r i V.Prevote h.
Proof. exact precommit_needs_quorum. Qed.
Print Assumptions C03_precommit_needs_quorum.

(* 2. a commit is announced only after precommits for that block reached their
   quorum and, when the context is a certificate round, certificate votes too *)
Theorem C03_commit_needs_quorum : forall E Hp o v' ev c r i h cp hp cc,
  step E (run_state E Hp) o = (v', ev, c) ->
  In (ECommit r i h cp hp cc) ev ->
  r = round_of v' /\ i = v_idx v' /\
  Quorum E (Hp ++ [o]) r i V.Precommit h /\
  (v_cert v' = true -> Quorum E (Hp ++ [o]) r i V.Certificate h).
Proof. exact commit_needs_quorum. Qed.
Print Assumptions C03_commit_needs_quorum.

(* what a quorum consists of: pairwise distinct senders; each vote was delivered
   for exactly (r, i, type, block) with a signature recovering to the claimed
   sender, a successful chamber stake look-up and an accepted credential - or is
   the voter's own vote; each sender is recorded for this block and unflagged in
   the tally; the kept count is the wrapped sum of the seats and reaches the quorum *)
Theorem C03_quorum_meaning : forall E H r i t h,
  Quorum E H r i t h ->
  exists (s : votesta) (l : list (N * N)) (thr : N),
    l = sta_votes s h /\
    NoDup (map fst l) /\
    (forall a n, In (a, n) l ->
       Counted E H r i t Chamber h a n /\ aget (vs_addrs s) a = Some (mkAS h false)) /\
    thr_src E H r i t thr /\
    cnt s h = w32 (seat_sum l) /\
    quorum (is_pos t) thr <= w32 (seat_sum l).
Proof. exact Quorum_unpack. Qed.
Print Assumptions C03_quorum_meaning.

(* 3a. a sender recorded for one block that votes for another one in the same
   step is flagged ... *)
Theorem C03_equivocation_flags : forall E v m thr k w s h0,
  m_status m = Same -> m_novote m = false ->
  m_round m = round_of v -> m_idx m = v_idx v ->
  (m_type m = V.Certificate -> certp_ok E = true) ->
  m_sig m = true -> m_stake m = Some (thr, k) -> cred_ok E v m = true ->
  get_wrapper (v_ws v) (m_round m, m_idx m) = Some w ->
  wsta w k (m_type m) = Some s ->
  aget (vs_addrs s) (m_sender m) = Some (mkAS h0 false) ->
  h0 <> m_hash m -> m_type m <> V.NextIndex ->
  exists w' s',
    get_wrapper (v_ws (fst (fst (process E v m)))) (m_round m, m_idx m) = Some w' /\
    wsta w' k (m_type m) = Some s' /\ dv_in s' (m_sender m).
Proof. exact equivocation_flags. Qed.
Print Assumptions C03_equivocation_flags.

(* 3b. ... and in every reachable state a flagged sender has no recorded vote in
   that tally, whose counts are exactly the sums of the recorded seats: the
   equivocator's weight is in no count *)
Theorem C03_equivocator_zero : forall E ops key w k t s a,
  In (key, w) (v_ws (run_state E ops)) -> wsta w k t = Some s -> dv_in s a ->
  (forall e, In e (vs_info s) -> e_addr e <> a) /\
  (forall h, cnt s h = w32 (sum_for h (vs_info s))).
Proof. exact flagged_weighs_nothing. Qed.
Print Assumptions C03_equivocator_zero.

(* 3c. ... and the flag is never lost while a wrapper for that (round, index)
   is kept: over any op, and hence over any further history during which the
   wrapper is never evicted, every wrapper kept for the key still has the
   sender flagged - so it is never re-added to a count (3b) *)
Theorem C03_equivocator_never_readded : forall E ops v key k t a,
  kept E v ops key -> flagged_all v key k t a -> flagged_all (run_on E v ops) key k t a.
Proof. exact flag_kept_run. Qed.
Print Assumptions C03_equivocator_never_readded.

(* 4. the vote set attached to a commit verifies - partial: proved for commits
   outside certificate contexts that are not triggered by a certificate vote.
   Hypothesis (same look-back set): the verifier recovers the same signer from
   each packed vote and accepts every credential the voter's check accepted. *)
Theorem C03_commit_verifies_partial : forall E Hp o v' ev c r i h cp hp cc (view : N * N -> pvote),
  step E (run_state E Hp) o = (v', ev, c) ->
  In (ECommit r i h cp hp cc) ev ->
  strict_of o = true -> v_cert v' = false ->
  (forall a n, Counted E (Hp ++ [o]) r i V.Precommit Chamber h a n -> view (a, n) = mkPV (Some a) n true) ->
  exists thr, thr_src E (Hp ++ [o]) r i V.Precommit thr /\ verify_votes (map view cp) thr true = true.
Proof. exact commit_verifies_noncert. Qed.
Print Assumptions C03_commit_verifies_partial.

(* the full clause - every commit's precommit set verifies - is false for a
   tree without the repair fixes/C03_latched_quorum_decayed.diff
   (fix_latch E = false; the harness reads the flag off the implementation):
   in a certificate round the precommit quorum is latched (voteOver) and a later
   double vote removes weight before the certificate quorum triggers the commit *)
Definition C03_commit_verifies_full : Prop := commit_verifies_full false.

Theorem C03_commit_verifies_refuted : ~ C03_commit_verifies_full.
Proof. exact commit_verifies_refuted. Qed.
Print Assumptions C03_commit_verifies_refuted.

(* 5. credentials.  The weight recorded for a vote is the seat count the message
   claims; the voter accepts the message only if its credential check
   (verifySortitionFn) does.  [cred_weight E m] is the weight the sortition
   verifier computes from the credential itself (key, round, index, step, proof) -
   an output of the verifier, not an input of the message.  With
   Server.verifySortition in that place and without the repair
   fixes/C03_stale_credential_accepted.diff (fix_stale E = false) the check also
   accepts an unverifiable credential when the message is older than the
   server's own (round, index); it is sound for fresh messages, and for all
   messages with the repair: the accepted claim is then exactly the verified weight. *)
Definition C03_credentials_full : Prop := credentials_full false.

Theorem C03_credentials_refuted : ~ C03_credentials_full.
Proof. exact credentials_refuted. Qed.
Print Assumptions C03_credentials_refuted.

Theorem C03_credentials_hold_outside : forall E v m,
  cred_ok E v m = true ->
  fst (v_srv v) <= m_round m -> snd (v_srv v) <= m_idx m ->
  cred_weight E m = Some (m_votes m) /\ 0 < m_votes m.
Proof. exact fresh_credential_sound. Qed.
Print Assumptions C03_credentials_hold_outside.

(* with the repair (or any verifier without the stale rule) every weight counted
   for a delivered vote - hence every weight in a quorum of C03_quorum_meaning -
   is the weight the verifier computes for that vote's credential *)
Theorem C03_counted_weight_is_verified_weight : forall E H r i t k h a n,
  fix_stale E = true \/ srv_rule E = false ->
  counted_by_msg E H r i t k h a n ->
  exists m, In (Msg m) H /\ m_sender m = a /\ m_round m = r /\ m_idx m = i /\ m_type m = t /\ m_hash m = h /\
            cred_weight E m = Some (m_votes m) /\ 0 < m_votes m /\ n = w32 (m_votes m).
Proof. exact counted_weight_verified. Qed.
Print Assumptions C03_counted_weight_is_verified_weight.

Theorem C03_credentials_with_repair : credentials_full true.
Proof. exact credentials_repaired. Qed.
Print Assumptions C03_credentials_with_repair.

(* 6. the tie to C02: the voter never signs two conflicting votes, even across
   restarts.  Histories now also contain [Restart] (NewVoter over the same
   database: all volatile state is re-initialised, the vote database is
   NewVoteDB on the same store).  [all_events E init_voter ops] are all events
   the voter posts over the history, in order; [sends] keeps the votes
   (SendMessageEvent) as (kind, position), position = enc round index. *)

(* simulation: the operations the voter performs on its vote database over any
   history form an op list of C02's model (Ctx / Vote / Restart) that lets out
   exactly the voter's votes, in the same order, and ends in the voter's database *)
Theorem C03_voter_is_votedb_history : forall E ops,
  exists dops, V.emitted (snd (V.run V.init dops)) = sends (all_events E init_voter ops)
               /\ fst (V.run V.init dops) = v_db (run_on E init_voter ops).
Proof. exact voter_is_votedb_history. Qed.
Print Assumptions C03_voter_is_votedb_history.

(* hence, by C02_one_vote: per kind and (round, index) at most one vote goes out
   (two for next-index), for every history with any number of restarts - so never
   two different blocks for one kind at one position *)
Theorem C03_voter_one_vote : forall E ops k p,
  (V.count_votes k p (sends (all_events E init_voter ops)) <= V.limit k)%nat.
Proof. exact voter_one_vote. Qed.
Print Assumptions C03_voter_one_vote.

(* persist before post.  Function level: vote() returns nil only after
   UpdateVoteData succeeded; the store it returned holds the record, the
   SendMessageEvent is the first event of that branch and everything later
   proceeds from that store (a crash between the two loses the message, never
   the record) *)
Theorem C03_vote_persists_first : forall E v t h p v' ev,
  vote E v t h p = (v', ev, true) ->
  exists d sl n rest,
    V.update_vote_data (v_db v) t (V.enc (round_of v) (v_idx v)) = (d, true) /\
    V.kind_of sl = t /\ V.st d sl = Some (V.enc (round_of v) (v_idx v)) /\
    ev = ESend t (round_of v) (v_idx v) h p n :: rest.
Proof. exact vote_persists_first. Qed.
Print Assumptions C03_vote_persists_first.

(* history level: in the database history induced by any voter history, every
   vote that is let out comes out of an UpdateVoteData whose store holds the record *)
Theorem C03_voter_persist_before_post : forall E ops,
  exists dops,
    V.emitted (snd (V.run V.init dops)) = sends (all_events E init_voter ops) /\
    forall d1 o d2 k q d',
      dops = d1 ++ o :: d2 ->
      V.step (fst (V.run V.init d1)) o = (d', V.OEmit k q) ->
      exists sl, V.kind_of sl = k /\ V.st d' sl = Some q.
Proof. exact voter_persist_before_post. Qed.
Print Assumptions C03_voter_persist_before_post.

(* non-vacuity: the voter prevotes and precommits at (7,1), restarts, re-enters
   (7,1): the prevote is refused by the replayed database; at (7,2) it votes again *)
Example C03_nonvacuous_restart :
  let E := mkEnv 0 [(7, 1, V.Prevote, (1, 4, Chamber)); (7, 1, V.Precommit, (1, 4, Chamber));
                    (7, 2, V.Prevote, (1, 4, Chamber))] true false true true false
                   [(1, 7, 1, V.Prevote, 1); (2, 7, 1, V.Prevote, 2)] in
  sends (all_events E init_voter
           [Cache 1 true; Ctx 7 1 2 false (Some (1, 1));
            Msg (mkMsg Same V.Prevote 7 1 1 1 1 true 1 false (Some (4, Chamber)) 1);
            Restart; Ctx 7 1 2 false (Some (1, 2));
            Msg (mkMsg Same V.Prevote 7 1 2 1 2 true 2 false (Some (4, Chamber)) 1);
            Ctx 7 2 2 false (Some (1, 2))])
  = [(V.Prevote, V.enc 7 1); (V.Precommit, V.enc 7 1); (V.Prevote, V.enc 7 2)].
Proof. vm_compute. reflexivity. Qed.
Print Assumptions C03_nonvacuous_restart.

(* 6b. house validators.  House votes are tallied apart, with their own
   threshold; every quorum of the theorems above is a CHAMBER quorum: *)
Theorem C03_house_votes_do_not_count_for_chamber :
  (* every vote in a chamber tally, hence in any quorum of C03_quorum_meaning, was
     delivered with a chamber stake look-up or is the voter's own chamber vote *)
  (forall E H r i t h a n, Counted E H r i t Chamber h a n ->
     (exists m thr, In (Msg m) H /\ m_sender m = a /\ m_round m = r /\ m_idx m = i /\ m_type m = t /\
                    m_hash m = h /\ m_stake m = Some (thr, Chamber))
     \/ (a = self E /\ exists n0 thr, own_view (own E) r i t = Some (n0, thr, Chamber)))
  (* recording a house vote or flagging a house double voter leaves the chamber tallies untouched *)
  /\ (forall w t a h n,
        w_chamber (fst (fst (w_new_vote w t House a h n))) = w_chamber w
        /\ w_chamber (fst (fst (w_addr_info w t House a h))) = w_chamber w)
  (* and a house quorum sets no chamber latch (voteOver is kept per validator kind) *)
  /\ (forall s t t', vst_status (vst_update s t House) t' Chamber = vst_status s t' Chamber).
Proof. exact (conj counted_chamber_is_chamber (conj house_vote_leaves_chamber house_quorum_sets_no_chamber_latch)). Qed.
Print Assumptions C03_house_votes_do_not_count_for_chamber.

(* non-vacuity: certificate round, chamber threshold 10 (precommit quorum 6,
   certificate quorum 5), house threshold 4 (quorum 2): 2 chamber and 3 house
   precommits, then 5 chamber certificate seats - no commit is announced *)
Example C03_nonvacuous_house :
  let E := mkEnv 0 [] true false true true false
                 [(1, 32768, 1, V.Precommit, 1); (2, 32768, 1, V.Precommit, 1);
                  (7, 32768, 1, V.Precommit, 1); (8, 32768, 1, V.Precommit, 1); (9, 32768, 1, V.Precommit, 1);
                  (1, 32768, 1, V.Certificate, 3); (2, 32768, 1, V.Certificate, 2)] in
  let m t a n k thr := Msg (mkMsg Same t 32768 1 1 1 a true n false (Some (thr, k)) 1) in
  sends (all_events E init_voter
    [Cache 1 true; Ctx 32768 1 4 true None;
     m V.Precommit 1 1 Chamber 10; m V.Precommit 2 1 Chamber 10;
     m V.Precommit 7 1 House 4; m V.Precommit 8 1 House 4; m V.Precommit 9 1 House 4;
     m V.Certificate 1 3 Chamber 10; m V.Certificate 2 2 Chamber 10]) = []
  /\ flat_map fst (run_from E init_voter
    [Cache 1 true; Ctx 32768 1 4 true None;
     m V.Precommit 1 1 Chamber 10; m V.Precommit 2 1 Chamber 10;
     m V.Precommit 7 1 House 4; m V.Precommit 8 1 House 4; m V.Precommit 9 1 House 4;
     m V.Certificate 1 3 Chamber 10; m V.Certificate 2 2 Chamber 10]) = [].
Proof. split; vm_compute; reflexivity. Qed.
Print Assumptions C03_nonvacuous_house.

(* 7. schedules.  The harness also requests a second event (a context change or
   another vote) on another goroutine while a vote's authentication callbacks
   run.  [During m o2] stands for that; its meaning is its linearisation
   [Msg m; o2] ([flatten]) - justified by the lock discipline read off voter.go on
   every run: processVoteMsg and updateContext hold v.lock from their first
   statement to their return, and no method that can run without the lock writes
   voter state.  Releasing the lock between the round/index guard and the count
   breaks the first obligation below. *)
Theorem C03_processVoteMsg_holds_lock : locked_entry c03_voter_methods n_processVoteMsg = true.
Proof. exact processVoteMsg_holds_lock. Qed.
Print Assumptions C03_processVoteMsg_holds_lock.

Theorem C03_updateContext_holds_lock : locked_entry c03_voter_methods n_updateContext = true.
Proof. exact updateContext_holds_lock. Qed.
Print Assumptions C03_updateContext_holds_lock.

Theorem C03_lock_discipline :
  forall e, In e c03_voter_methods -> exposed c03_voter_methods e = true -> touches (e_writes e) = false.
Proof. exact unlocked_methods_write_nothing. Qed.
Print Assumptions C03_lock_discipline.

(* every theorem above is about arbitrary op lists, hence about the linearisation
   of any schedule; spelled out for two of them *)
Theorem C03_schedule_precommit_needs_quorum : forall E (sch : list sop) o v' ev c r i h p n,
  step E (run_state E (flatten sch)) o = (v', ev, c) ->
  In (ESend V.Precommit r i h p n) ev ->
  r = round_of v' /\ i = v_idx v' /\ Quorum E (flatten sch ++ [o]) r i V.Prevote h.
Proof. exact (fun E sch => precommit_needs_quorum E (flatten sch)). Qed.
Print Assumptions C03_schedule_precommit_needs_quorum.

Theorem C03_schedule_one_vote : forall E (sch : list sop) k p,
  (V.count_votes k p (sends (all_events E init_voter (flatten sch))) <= V.limit k)%nat.
Proof. exact (fun E sch => voter_one_vote E (flatten sch)). Qed.
Print Assumptions C03_schedule_one_vote.

(* non-vacuity: three members with one seat each, threshold 5 (quorum 3); the
   round-index change to (10,2) is requested while the third prevote is being
   authenticated: the vote is judged in (10,1), the precommit is for (10,1) *)
Example C03_nonvacuous_schedule :
  let E := mkEnv 0 [(10, 1, V.Precommit, (1, 5, Chamber)); (10, 2, V.Precommit, (1, 5, Chamber))] true false true true false
                 [(1, 10, 1, V.Prevote, 1); (2, 10, 1, V.Prevote, 1); (3, 10, 1, V.Prevote, 1)] in
  let pv a := mkMsg Same V.Prevote 10 1 1 1 a true 1 false (Some (5, Chamber)) 1 in
  let sch := [P (Cache 1 true); P (Ctx 10 1 2 false None); P (Msg (pv 1)); P (Msg (pv 2));
              During (pv 3) (Ctx 10 2 0 false None)] in
  sends (all_events E init_voter (flatten sch)) = [(V.Precommit, V.enc 10 1)].
Proof. vm_compute. reflexivity. Qed.
Print Assumptions C03_nonvacuous_schedule.

(* ---- non-vacuity ------------------------------------------------------------------ *)
(* a history in which prevotes reach the quorum exactly (2 of threshold 4), the
   voter precommits, precommits reach the quorum and the block is committed *)
Definition nv_env : env :=
  mkEnv 0 [(7, 1, V.Prevote, (1, 4, Chamber)); (7, 1, V.Precommit, (1, 4, Chamber))] true false false false false
        [(1, 7, 1, V.Prevote, 1); (2, 7, 1, V.Prevote, 1); (2, 7, 1, V.Precommit, 1)].
Definition nv_msg (t : vtype) (h a n : N) : op :=
  Msg (mkMsg Same t 7 1 h 1 a true n false (Some (4, Chamber)) 1).
Definition nv_hist : list op :=
  [Cache 1 true; Ctx 7 1 2 false (Some (1, 1)); nv_msg V.Prevote 1 1 1].

Example C03_nonvacuous_precommit :
  snd (fst (step nv_env (run_state nv_env [Cache 1 true; Ctx 7 1 2 false (Some (1, 1))]) (nv_msg V.Prevote 1 1 1)))
  = [ESend V.Precommit 7 1 1 1 1]
  /\ snd (fst (step nv_env (run_state nv_env [Cache 1 true; Ctx 7 1 2 false (Some (1, 1))]) (nv_msg V.Prevote 1 1 0)))
  = [].
Proof. split; vm_compute; reflexivity. Qed.
Print Assumptions C03_nonvacuous_precommit.

Example C03_nonvacuous_commit_events :
  exists cp, In (ECommit 7 1 1 cp [] [])
    (snd (fst (step nv_env (run_state nv_env (nv_hist ++ [Ctx 7 1 4 false None])) (nv_msg V.Precommit 1 2 1))))
  /\ v_cert (fst (fst (step nv_env (run_state nv_env (nv_hist ++ [Ctx 7 1 4 false None])) (nv_msg V.Precommit 1 2 1)))) = false.
Proof. eexists. split; [vm_compute; left; reflexivity | vm_compute; reflexivity]. Qed.
Print Assumptions C03_nonvacuous_commit_events.

(* an equivocator: sender 1 prevotes block 1 then block 2; its seat leaves the count *)
Example C03_nonvacuous_equivocator :
  let v := run_state nv_env [Ctx 7 1 2 false None; nv_msg V.Prevote 1 1 1; nv_msg V.Prevote 1 2 1; nv_msg V.Prevote 2 1 1] in
  match get_wrapper (v_ws v) (7, 1) with
  | Some w => cnt (mget (w_chamber w) V.Prevote) 1 = 1 /\ cnt (mget (w_chamber w) V.Prevote) 2 = 0
              /\ dv_in (mget (w_chamber w) V.Prevote) 1
  | None => False
  end.
Proof. vm_compute. split; [reflexivity|]. split; [reflexivity|]. eexists. split; reflexivity. Qed.
Print Assumptions C03_nonvacuous_equivocator.

(* the stale credential end to end: the server is at (5, 2), the voter still at
   (5, 1); one prevote with an invalid VRF credential and 100 claimed seats makes
   the voter precommit *)
Example C03_stale_credential_witness :
  let E := mkEnv 0 [(5, 1, V.Precommit, (1, 4, Chamber))] true false false false true [] in
  snd (fst (step E (run_state E [Cache 1 true; Srv 5 2; Ctx 5 1 2 false None])
                 (Msg (mkMsg Same V.Prevote 5 1 1 1 1 true 100 false (Some (4, Chamber)) 2))))
  = [ESend V.Precommit 5 1 1 1 1].
Proof. vm_compute. reflexivity. Qed.
Print Assumptions C03_stale_credential_witness.

(* with the two repairs the two witnesses no longer escalate *)
Example C03_repaired_witnesses :
  let E1 := mkEnv 0 [] true false true false false (creds w_env) in
  let E2 := mkEnv 0 [(5, 1, V.Precommit, (1, 4, Chamber))] true false false true true [] in
  snd (fst (step E1 (run_state E1 w_hist) w_last)) = []
  /\ step E2 (run_state E2 [Cache 1 true; Srv 5 2; Ctx 5 1 2 false None])
           (Msg (mkMsg Same V.Prevote 5 1 1 1 1 true 100 false (Some (4, Chamber)) 2))
      = (run_state E2 [Cache 1 true; Srv 5 2; Ctx 5 1 2 false None], [], ret_ok).
Proof. split; vm_compute; reflexivity. Qed.
Print Assumptions C03_repaired_witnesses.

(* a vote that arrives early (future status: verified, not counted) and is
   re-sent with the same proof and an inflated seat claim is rejected; re-sent
   unchanged it is counted with the verified weight *)
Example C03_inflated_resend_rejected :
  let E := mkEnv 0 [(7, 1, V.Precommit, (1, 4, Chamber))] true false true true false [(1, 7, 1, V.Prevote, 1)] in
  let early := Msg (mkMsg Future V.Prevote 7 1 1 1 1 true 1 false (Some (4, Chamber)) 1) in
  let pre := [Cache 1 true; Ctx 7 1 2 false None; early] in
  step E (run_state E pre) (Msg (mkMsg Same V.Prevote 7 1 1 1 1 true 100 false (Some (4, Chamber)) 1))
    = (run_state E pre, [], ret_bad)
  /\ count_for (fst (fst (step E (run_state E pre) (Msg (mkMsg Same V.Prevote 7 1 1 1 1 true 1 false (Some (4, Chamber)) 1)))))
               (Msg (mkMsg Same V.Prevote 7 1 1 1 1 true 1 false (Some (4, Chamber)) 1)) = 1.
Proof. split; vm_compute; reflexivity. Qed.
Print Assumptions C03_inflated_resend_rejected.

(* the quorum function at the boundary values used in the protocol tables *)
Example C03_quorum_values :
  quorum true 2000 = 1370 /\ quorum false 4000 = 2340 /\ quorum true 200 = 137 /\ quorum true 4 = 2
  /\ quorum true 0 = 0 /\ over_threshold 1369 2000 true = false /\ over_threshold 1370 2000 true = true.
Proof. vm_compute. repeat split; reflexivity. Qed.
Print Assumptions C03_quorum_values.
