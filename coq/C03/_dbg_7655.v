(* C03 - lemmas about one vote tally (VoteSta): the incrementally kept count is
   the (wrapped) sum of the recorded seats, senders are distinct, a recorded
   sender is unflagged, a flagged sender has no recorded vote and stays flagged. *)
From VF.C03 Require Import Model.
From Coq Require Import ZArith Lia ZifyBool ZifyN ZifyNat.
Local Open Scope N_scope.

Ltac Zify.zify_post_hook ::= Z.div_mod_to_equations.

(* ---- association lists ---------------------------------------------------- *)
Lemma aget_cons {A} (l : list (N * A)) k v k' :
  aget ((k, v) :: l) k' = if k =? k' then Some v else aget l k'.
Proof. reflexivity. Qed.

(* ---- sums of seats ---------------------------------------------------------- *)
Fixpoint sum_for (h : N) (l : list entry) : N :=
  match l with
  | [] => 0
  | e :: r => if e_hash e =? h then e_votes e + sum_for h r else sum_for h r
  end.

Definition dv_in (s : votesta) (a : N) : Prop :=
  exists st, aget (vs_addrs s) a = Some st /\ as_dv st = true.

Record sta_ok (s : votesta) : Prop := mkStaOk {
  ok_count : forall h, cnt s h = w32 (sum_for h (vs_info s));
  ok_nodup : NoDup (map e_addr (vs_info s));
  ok_addr  : forall e, In e (vs_info s) -> aget (vs_addrs s) (e_addr e) = Some (mkAS (e_hash e) false);
  ok_small : forall e, In e (vs_info s) -> e_votes e < two32
}.

Lemma sta_empty_ok : sta_ok sta_empty.
Proof.
  split; cbn; intros; try contradiction.
  - reflexivity.
  - constructor.
Qed.

Lemma w32_lt x : w32 x < two32.
Proof. unfold w32, two32. apply N.mod_lt. discriminate. Qed.

Lemma w32_idem x : w32 (w32 x) = w32 x.
Proof. unfold w32, two32. rewrite N.mod_mod; [reflexivity|discriminate]. Qed.

Lemma w32_add_l x y : w32 (w32 x + y) = w32 (x + y).
Proof. unfold w32, two32. rewrite N.add_mod_idemp_l; [reflexivity|discriminate]. Qed.

Lemma w32_small x : x < two32 -> w32 x = x.
Proof. intros. unfold w32. apply N.mod_small. assumption. Qed.

(* the count after removing v seats, as the Go code computes it on uint32 *)
Lemma w32_sub s v : v <= s -> v < two32 -> w32 (w32 s + two32 - v) = w32 (s - v).
Proof.
  unfold w32, two32. intros Hle Hlt.
  assert (H1 : (s mod 4294967296 + 4294967296 - v) = (s - v) + (4294967296 - (s - s mod 4294967296))
               \/ True) by (right; exact I).
  clear H1. lia.
Qed.

Lemma sum_for_filter_other h h0 a l :
  h <> h0 -> sum_for h (filter (fun e => negb (is_entry h0 a e)) l) = sum_for h l.
Proof.
  intros Hne. induction l as [|e r IH]; cbn; [reflexivity|].
  unfold is_entry at 1.
  destruct (e_hash e =? h0) eqn:E0; cbn.
  - destruct (e_addr e =? a) eqn:Ea; cbn.
    + assert (e_hash e =? h = false) as -> by lia. exact IH.
    + rewrite IH. reflexivity.
  - rewrite IH. reflexivity.
Qed.

Lemma filter_noaddr a h0 l :
  ~ In a (map e_addr l) -> filter (fun e => negb (is_entry h0 a e)) l = l.
Proof.
  induction l as [|e r IH]; cbn; intros Hn; [reflexivity|].
  unfold is_entry at 1.
  destruct (e_addr e =? a) eqn:Ea.
  - exfalso. apply Hn. left. lia.
  - rewrite andb_false_r. cbn. rewrite IH; [reflexivity|]. intros Hi. apply Hn. right. exact Hi.
Qed.

Lemma is_entry_true h a e : is_entry h a e = true <-> e_hash e = h /\ e_addr e = a.
Proof. unfold is_entry. lia. Qed.

Lemma sum_for_remove h0 a l e :
  NoDup (map e_addr l) -> find (is_entry h0 a) l = Some e ->
  sum_for h0 l = e_votes e + sum_for h0 (filter (fun e => negb (is_entry h0 a e)) l)
  /\ In e l /\ e_hash e = h0 /\ e_addr e = a.
Proof.
  induction l as [|x r IH]; cbn [find filter map sum_for]; intros Hnd Hf; [discriminate|].
  inversion Hnd as [|? ? Hni Hnd']; subst.
  destruct (is_entry h0 a x) eqn:Ex; cbn [negb].
  - inversion Hf; subst x. apply is_entry_true in Ex. destruct Ex as (Hh & Ha).
    rewrite filter_noaddr by (rewrite <- Ha; exact Hni).
    assert (e_hash e =? h0 = true) as -> by lia.
    repeat split; try assumption. left; reflexivity.
  - destruct (IH Hnd' Hf) as (Hs & Hi & Hh & Ha).
    cbn [sum_for].
    destruct (e_hash x =? h0) eqn:E0.
    + repeat split; try assumption; [lia | right; exact Hi].
    + repeat split; try assumption. right; exact Hi.
Qed.

Lemma in_filter_sub {A} (f : A -> bool) l x : In x (filter f l) -> In x l.
Proof. intros H. apply filter_In in H. tauto. Qed.

Lemma nodup_map_filter {A B} (g : A -> B) (f : A -> bool) l :
  NoDup (map g l) -> NoDup (map g (filter f l)).
Proof.
  induction l as [|x r IH]; cbn; intros H; [constructor|].
  inversion H as [|? ? Hn Hd]; subst.
  destruct (f x); cbn.
  - constructor; [|apply IH; exact Hd].
    intros Hi. apply Hn. apply in_map_iff in Hi. destruct Hi as (y & Hy & Hin).
    apply in_map_iff. exists y. split; [exact Hy|]. eapply in_filter_sub; exact Hin.
  - apply IH; exact Hd.
Qed.

(* ---- newVote ------------------------------------------------------------------ *)
Lemma sta_new_vote_spec s a h n s' add c :
  sta_ok s -> sta_new_vote s a h n = (s', add, c) ->
  sta_ok s' /\ c = cnt s' h
  /\ (forall e, In e (vs_info s') -> In e (vs_info s) \/ e = mkE h a (w32 n))
  /\ (forall x, dv_in s x -> dv_in s' x).
Proof.
  intros Hok Hnv. unfold sta_new_vote in Hnv.
  destruct (aget (vs_addrs s) a) as [st|] eqn:Ea.
  - inversion Hnv; subst. repeat split; try apply Hok; auto.
  - inversion Hnv; subst; clear Hnv.
    assert (Hna : ~ In a (map e_addr (vs_info s))).
    { intros Hi. apply in_map_iff in Hi. destruct Hi as (e & He & Hin).
      pose proof (ok_addr _ Hok e Hin) as Hx. rewrite He, Ea in Hx. discriminate. }
    rewrite (filter_noaddr a h _ Hna).
    repeat split.
    + intros h'. unfold cnt at 1. cbn [vs_counts vs_info]. rewrite aget_cons.
      cbn [sum_for e_hash e_votes].
      destruct (h =? h') eqn:Eh.
      * assert (h' = h) by lia. subst h'. rewrite (ok_count _ Hok h).
        rewrite w32_add_l. f_equal. lia.
      * fold (cnt s h'). apply (ok_count _ Hok).
    + cbn. constructor; [exact Hna | apply Hok].
    + cbn [vs_info vs_addrs]. intros e [He|He].
      * subst e. cbn. rewrite N.eqb_refl. reflexivity.
      * rewrite aget_cons.
        destruct (a =? e_addr e) eqn:Eae.
        -- exfalso. apply Hna. apply in_map_iff. exists e. split; [lia|exact He].
        -- apply Hok. exact He.
    + cbn [vs_info]. intros e [He|He]; [subst e; cbn; apply w32_lt | apply Hok; exact He].
    + unfold cnt. cbn. rewrite N.eqb_refl. reflexivity.
    + cbn [vs_info]. intros e [He|He]; [right; symmetry; exact He | left; exact He].
    + intros x (st & Hst & Hdv). exists st. cbn [vs_addrs]. rewrite aget_cons.
      destruct (a =? x) eqn:Eax; [|split; assumption].
      assert (x = a) by lia. subst x. rewrite Ea in Hst. discriminate.
Qed.

(* ---- addrVoteInfo -------------------------------------------------------------- *)
Lemma sta_addr_info_spec s isn a h s' r old :
  sta_ok s -> sta_addr_info s isn a h = (s', r, old) ->
  sta_ok s'
  /\ (forall e, In e (vs_info s') -> In e (vs_info s))
  /\ (forall x, dv_in s x -> dv_in s' x)
  /\ (r = ANotVoted -> aget (vs_addrs s') a = None /\ s' = s)
  /\ (r = ADifferent -> dv_in s' a).
Proof.
  intros Hok Hai. unfold sta_addr_info in Hai.
  destruct (aget (vs_addrs s) a) as [st|] eqn:Ea.
Show.
