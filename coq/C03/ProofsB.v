(* C03 - the invariant of the voter over all histories: every recorded vote is
   justified by the history (a delivered message that passed the signature,
   stake and credential checks for exactly that round/index/type/block/sender,
   or the voter's own vote), every tally is sound (ProofsA), every quorum latch
   was backed by such a tally; and what that implies for each posted event. *)
From VF.C03 Require Import Model ProofsA.
From Coq Require Import ZArith Lia ZifyBool ZifyN ZifyNat.
Local Open Scope N_scope.

(* ---- small facts about the containers --------------------------------------- *)
Lemma key_eqb_eq a b : key_eqb a b = true -> a = b.
Proof. destruct a, b. unfold key_eqb. cbn. intros. f_equal; lia. Qed.

Lemma key_eqb_refl a : key_eqb a a = true.
Proof. destruct a. unfold key_eqb. cbn. lia. Qed.

Lemma get_wrapper_in l k w : get_wrapper l k = Some w -> In (k, w) l.
Proof.
  induction l as [|[k' w'] r IH]; cbn; [discriminate|].
  destruct (key_eqb k' k) eqn:Ek.
  - intros Hx. inversion Hx; subst. apply key_eqb_eq in Ek. subst. left; reflexivity.
  - intros Hx. right. apply IH. exact Hx.
Qed.

Lemma set_wrapper_in l k w k' w' :
  In (k', w') (set_wrapper l k w) -> In (k', w') l \/ (k' = k /\ w' = w).
Proof.
  induction l as [|[k0 w0] r IH]; cbn; [tauto|].
  destruct (key_eqb k0 k) eqn:Ek; cbn.
  - intros [Hx|Hx].
    + inversion Hx; subst. apply key_eqb_eq in Ek. right. split; [exact Ek|reflexivity].
    + left. right. exact Hx.
  - intros [Hx|Hx]; [left; left; exact Hx|].
    destruct (IH Hx) as [Hy|Hy]; [left; right; exact Hy | right; exact Hy].
Qed.

Lemma get_set_wrapper l k w w0 :
  get_wrapper l k = Some w0 -> get_wrapper (set_wrapper l k w) k = Some w.
Proof.
  induction l as [|[k' w'] r IH]; cbn; [discriminate|].
  destruct (key_eqb k' k) eqn:Ek; cbn; rewrite Ek; [reflexivity|exact IH].
Qed.

Lemma new_wrapper_in l k k' w' :
  In (k', w') (new_wrapper l k) -> In (k', w') l \/ w' = wrapper_empty.
Proof.
  unfold new_wrapper. destruct (get_wrapper l k); [tauto|].
  destruct (Nat.ltb (length l) max_vote_cache); intros Hx; apply in_app_or in Hx.
  - destruct Hx as [Hx|[Hx|[]]]; [left; exact Hx | inversion Hx; right; reflexivity].
  - destruct Hx as [Hx|[Hx|[]]]; [left; destruct l; [destruct Hx | right; exact Hx] | inversion Hx; right; reflexivity].
Qed.

Lemma vt_eqb_eq a b : vt_eqb a b = true <-> a = b.
Proof. destruct a, b; cbn; split; intros Hx; try reflexivity; try discriminate. Qed.

Lemma vt_eqb_refl a : vt_eqb a a = true.
Proof. destruct a; reflexivity. Qed.

Lemma vk_eqb_eq a b : vk_eqb a b = true <-> a = b.
Proof. destruct a, b; cbn; split; intros Hx; try reflexivity; try discriminate. Qed.

Lemma mget_mset m t s t' : mget (mset m t s) t' = if vt_eqb t t' then s else mget m t'.
Proof. destruct t, t'; reflexivity. Qed.

Lemma wsta_wput w k t s k' t' :
  k <> KOther ->
  wsta (wput w k t s) k' t' = if vk_eqb k k' && vt_eqb t t' then Some s else wsta w k' t'.
Proof.
  intros Hk. destruct k, k'; cbn; try congruence; try reflexivity;
    rewrite mget_mset; destruct (vt_eqb t t'); reflexivity.
Qed.

Lemma vst_status_update s t k t' :
  vst_status (vst_update s t k) t' Chamber =
  (vk_eqb k Chamber && vt_eqb t' t) || vst_status s t' Chamber.
Proof. destruct k; cbn; try reflexivity. Qed.

(* ---- the history predicates ---------------------------------------------------- *)
Section WithEnv.
Variable E : env.

(* a recorded vote (round, index, type, kind, block, sender, seats) is backed by the history *)
Definition counted_by_msg (H : list op) (r i : N) (t : vtype) (k : vkind) (h a n : N) : Prop :=
  exists H1 H2 m thr,
    H = H1 ++ Msg m :: H2 /\
    m_round m = r /\ m_idx m = i /\ m_type m = t /\ m_hash m = h /\ m_sender m = a /\
    w32 (m_votes m) = n /\ m_sig m = true /\ m_stake m = Some (thr, k) /\
    cred_ok (run_state E H1) m = true.

Definition counted_own (r i : N) (t : vtype) (k : vkind) (a n : N) : Prop :=
  a = self E /\ exists n0 thr, own_view (own E) r i t = Some (n0, thr, k) /\ n = w32 n0.

Definition Counted H r i t k h a n : Prop :=
  counted_by_msg H r i t k h a n \/ counted_own r i t k a n.

(* the threshold a quorum is measured against comes from the stake look-up of a
   delivered message of that round/index/type, or from the voter's own step view *)
Definition thr_src (H : list op) (r i : N) (t : vtype) (thr : N) : Prop :=
  (exists m, In (Msg m) H /\ m_round m = r /\ m_idx m = i /\ m_type m = t /\ m_stake m = Some (thr, Chamber))
  \/ (exists n0, own_view (own E) r i t = Some (n0, thr, Chamber)).

Definition sta_just H r i t k (s : votesta) : Prop :=
  forall e, In e (vs_info s) -> Counted H r i t k (e_hash e) (e_addr e) (e_votes e).

Definition is_pos (t : vtype) : bool := negb (vt_eqb t V.Certificate).

(* "votes of type t for block h at (r, i) reached their quorum": a sound tally of
   backed chamber votes whose count for h is at least the quorum *)
Definition Quorum H r i t h : Prop :=
  exists s thr, sta_ok s /\ sta_just H r i t Chamber s /\ thr_src H r i t thr /\
                over_threshold (cnt s h) thr (is_pos t) = true.

Definition wrapper_ok H (key : wkey) (w : wrapper) : Prop :=
  forall k t s, wsta w k t = Some s -> sta_ok s /\ sta_just H (fst key) (snd key) t k s.

Definition Inv H (v : voter) : Prop :=
  (forall key w, In (key, w) (v_ws v) -> wrapper_ok H key w)
  /\ (forall h t, vst_status (over_get v h) t Chamber = true -> Quorum H (round_of v) (v_idx v) t h).

(* ---- monotonicity in the history ----------------------------------------------- *)
Lemma Counted_mono H X r i t k h a n : Counted H r i t k h a n -> Counted (H ++ X) r i t k h a n.
Proof.
  intros [(H1 & H2 & m & thr & HH & Hr)|Ho]; [left|right; exact Ho].
  exists H1, (H2 ++ X), m, thr. split; [|exact Hr].
  rewrite HH. rewrite <- app_assoc. reflexivity.
Qed.

Lemma thr_src_mono H X r i t thr : thr_src H r i t thr -> thr_src (H ++ X) r i t thr.
Proof.
  intros [(m & Hin & Hr)|Ho]; [left|right; exact Ho].
  exists m. split; [apply in_or_app; left; exact Hin | exact Hr].
Qed.

Lemma sta_just_mono H X r i t k s : sta_just H r i t k s -> sta_just (H ++ X) r i t k s.
Proof. intros Hj e He. apply Counted_mono. apply Hj. exact He. Qed.

Lemma Quorum_mono H X r i t h : Quorum H r i t h -> Quorum (H ++ X) r i t h.
Proof.
  intros (s & thr & Hok & Hj & Ht & Hov). exists s, thr.
  split; [exact Hok|]. split; [apply sta_just_mono; exact Hj|]. split; [apply thr_src_mono; exact Ht | exact Hov].
Qed.

Lemma Inv_mono H X v : Inv H v -> Inv (H ++ X) v.
Proof.
  intros (I1 & I2). split.
  - intros key w Hin k t s Hs. destruct (I1 key w Hin k t s Hs) as (Hok & Hj).
    split; [exact Hok | apply sta_just_mono; exact Hj].
  - intros h t Hst. apply Quorum_mono. apply I2. exact Hst.
Qed.

Lemma wrapper_empty_ok H key : wrapper_ok H key wrapper_empty.
Proof.
  intros k t s Hs.
  assert (s = sta_empty) as -> by (destruct k, t; cbn in Hs; inversion Hs; reflexivity).
  split; [apply sta_empty_ok | intros e []].
Qed.

Lemma Inv_init H : Inv H init_voter.
Proof.
  split.
  - intros key w [].
  - intros h t Hs. cbn in Hs. discriminate.
Qed.

(* ---- what every posted event means ----------------------------------------------- *)
Section Step.
Variable H : list op.     (* the history up to and including the op being executed *)

Definition EvOK (strict : bool) (v : voter) (e : event) : Prop :=
  match e with
  | ESend t r i h _ _ =>
    t = V.Precommit -> r = round_of v /\ i = v_idx v /\ Quorum H r i V.Prevote h
  | ECommit r i h cp hp cc =>
    r = round_of v /\ i = v_idx v /\ Quorum H r i V.Precommit h
    /\ (v_cert v = true -> Quorum H r i V.Certificate h)
    /\ (strict = true -> v_cert v = false ->
        exists s thr, sta_ok s /\ sta_just H r i V.Precommit Chamber s /\ thr_src H r i V.Precommit thr
                      /\ cp = sta_votes s h /\ over_threshold (cnt s h) thr true = true)
  | _ => True
  end.

Definition frame (v v' : voter) : Prop :=
  v_round v' = v_round v /\ v_idx v' = v_idx v /\ v_cert v' = v_cert v.

Definition good (strict : bool) (v v' : voter) (ev : list event) : Prop :=
  Inv H v' /\ frame v v' /\ Forall (EvOK strict v) ev.

Lemma frame_refl v : frame v v.
Proof. repeat split. Qed.

Lemma frame_trans a b c : frame a b -> frame b c -> frame a c.
Proof. unfold frame. intros (?&?&?) (?&?&?). repeat split; congruence. Qed.

Lemma EvOK_frame st v v' e : frame v v' -> EvOK st v' e -> EvOK st v e.
Proof.
  intros (Hr & Hi & Hc). unfold EvOK, round_of. rewrite Hr, Hi, Hc. tauto.
Qed.

Lemma EvOK_weaken v e : EvOK true v e -> EvOK false v e.
Proof.
  destruct e; cbn; try tauto.
Qed.

Lemma good_weaken st v v' ev : good true v v' ev -> good st v v' ev.
Proof.
  destruct st; [tauto|]. intros (Hi & Hf & He). split; [exact Hi|]. split; [exact Hf|].
  eapply Forall_impl; [|exact He]. intros e. apply EvOK_weaken.
Qed.

Lemma good_nil st v : Inv H v -> good st v v [].
Proof. intros Hi. split; [exact Hi|]. split; [apply frame_refl | constructor]. Qed.

Lemma good_app st v v1 v2 e1 e2 :
  good st v v1 e1 -> good st v1 v2 e2 -> good st v v2 (e1 ++ e2).
Proof.
  intros (I1 & F1 & E1) (I2 & F2 & E2). split; [exact I2|]. split; [eapply frame_trans; eassumption|].
  apply Forall_app. split; [exact E1|].
  eapply Forall_impl; [|exact E2]. intros e. apply EvOK_frame. exact F1.
Qed.

(* changing fields the invariant does not read *)
Lemma Inv_same v v' :
  v_ws v' = v_ws v -> v_over v' = v_over v -> v_round v' = v_round v -> v_idx v' = v_idx v ->
  Inv H v -> Inv H v'.
Proof.
  intros Hw Ho Hr Hi (I1 & I2). unfold Inv, over_get, round_of. rewrite Hw, Ho, Hr, Hi.
  split; assumption.
Qed.

Lemma good_same st v v1 v2 ev :
  v_ws v2 = v_ws v1 -> v_over v2 = v_over v1 -> v_round v2 = v_round v1 -> v_idx v2 = v_idx v1 ->
  v_cert v2 = v_cert v1 ->
  good st v v1 ev -> good st v v2 ev.
Proof.
  intros Hw Ho Hr Hi Hc (I1 & (F1 & F2 & F3) & E1).
  split; [eapply Inv_same; eassumption|]. split; [|exact E1].
  unfold frame. repeat split; congruence.
Qed.

(* ---- specifications of the mutually recursive functions ----------------------------- *)
Definition cur_w (v : voter) : wrapper :=
  match get_wrapper (v_ws v) (cur_key v) with Some w => w | None => wrapper_empty end.

Definition JPre (v : voter) (t : vtype) (c thr h : N) (k : vkind) : Prop :=
  k = Chamber ->
  thr_src H (round_of v) (v_idx v) t thr /\ cnt (mget (w_chamber (cur_w v)) t) h = c.

Lemma cur_w_ok v : Inv H v -> wrapper_ok H (cur_key v) (cur_w v).
Proof.
  intros (I1 & _). unfold cur_w. destruct (get_wrapper (v_ws v) (cur_key v)) eqn:Hg.
  - apply I1. apply get_wrapper_in. exact Hg.
  - apply wrapper_empty_ok.
Qed.

Definition JudgeSpec (J : voter -> vtype -> N -> N -> N -> N -> vkind -> voter * list event) : Prop :=
  forall v t c thr h p k v' ev,
    Inv H v -> JPre v t c thr h k -> J v t c thr h p k = (v', ev) -> good (is_pos t) v v' ev.

Definition VoteSpec (VT : vote_fn) : Prop :=
  forall v t h p v' ev ok,
    Inv H v -> (t = V.Precommit -> Quorum H (round_of v) (v_idx v) V.Prevote h) ->
    VT v t h p = (v', ev, ok) -> good (is_pos t) v v' ev.

Definition MarkedSpec (SM : marked_fn) : Prop :=
  forall v h p v' ev, Inv H v -> SM v h p = (v', ev) -> good true v v' ev.

Lemma vote_none_spec : VoteSpec vote_none.
Proof. intros v t h p v' ev ok Hi _ Hx. inversion Hx; subst. apply good_nil. exact Hi. Qed.

Lemma marked_none_spec : MarkedSpec marked_none.
Proof. intros v h p v' ev Hi Hx. inversion Hx; subst. apply good_nil. exact Hi. Qed.

(* a count that passes the threshold test is a quorum *)
Lemma JPre_quorum v t c thr h :
  Inv H v -> JPre v t c thr h Chamber -> over_threshold c thr (is_pos t) = true ->
  Quorum H (round_of v) (v_idx v) t h.
Proof.
  intros Hi Hp Hov. destruct (Hp eq_refl) as (Hts & Hc).
  destruct (cur_w_ok v Hi Chamber t _ eq_refl) as (Hok & Hj).
  exists (mget (w_chamber (cur_w v)) t), thr. subst c. tauto.
Qed.

Lemma over_get_set_over v h new h' :
  over_get (set_over v ((h, new) :: v_over v)) h' = if h =? h' then new else over_get v h'.
Proof. unfold over_get. cbn. destruct (h =? h'); reflexivity. Qed.

Lemma Inv_set_over v h t k :
  Inv H v ->
  (k = Chamber -> Quorum H (round_of v) (v_idx v) t h) ->
  Inv H (set_over v ((h, vst_update (over_get v h) t k) :: v_over v)).
Proof.
  intros (I1 & I2) Hq. split; [exact I1|].
  intros h' t' Hst. rewrite over_get_set_over in Hst.
  change (round_of (set_over v _)) with (round_of v). change (v_idx (set_over v _)) with (v_idx v).
  destruct (h =? h') eqn:Eh.
  - assert (h' = h) by lia. subst h'. rewrite vst_status_update in Hst.
    apply orb_true_iff in Hst. destruct Hst as [Hst|Hst]; [|apply I2; exact Hst].
    apply andb_true_iff in Hst. destruct Hst as (Hk & Ht).
    apply vk_eqb_eq in Hk. apply vt_eqb_eq in Ht. subst. apply Hq. reflexivity.
  - apply I2. exact Hst.
Qed.

(* ---- commit ---------------------------------------------------------------------------- *)
Lemma commit_spec v h p v' ev st :
  Inv H v ->
  Quorum H (round_of v) (v_idx v) V.Precommit h ->
  (v_cert v = true -> Quorum H (round_of v) (v_idx v) V.Certificate h) ->
  (st = true -> v_cert v = false ->
   exists thr, thr_src H (round_of v) (v_idx v) V.Precommit thr /\
               over_threshold (cnt (mget (w_chamber (cur_w v)) V.Precommit) h) thr true = true) ->
  commit v h p = (v', ev) -> good st v v' ev.
Proof.
  intros Hi Hq Hc Hs Hx. unfold commit in Hx.
  destruct (negb (in_cache v h)); inversion Hx; subst; clear Hx; [apply good_nil; exact Hi|].
  split; [eapply Inv_same; try eassumption; reflexivity|]. split; [repeat split|].
  constructor; [|constructor]. cbn.
  repeat split; try assumption.
  intros Hst Hcf. destruct (Hs Hst Hcf) as (thr & Hts & Hov).
  destruct (cur_w_ok v Hi Chamber V.Precommit _ eq_refl) as (Hok & Hj).
  exists (mget (w_chamber (cur_w v)) V.Precommit), thr.
  split; [exact Hok|]. split; [exact Hj|]. split; [exact Hts|]. split; [|exact Hov].
  unfold w_votes, cur_w. reflexivity.
Qed.

(* ---- judgeVoteCount ---------------------------------------------------------------------- *)
Lemma judge_gen_spec VT SM : VoteSpec VT -> MarkedSpec SM -> JudgeSpec (judge_gen VT SM).
Proof.
  intros HVT HSM v t c thr h p k v' ev Hi Hp Hx. unfold judge_gen in Hx.
  destruct (over_threshold c thr (negb (vt_eqb t V.Certificate))) eqn:Hov; cbn [negb orb] in Hx.
  2:{ inversion Hx; subst. apply good_nil. exact Hi. }
  destruct (v_committed v && negb (vt_eqb t V.Precommit)) eqn:Hc1.
  { inversion Hx; subst. apply good_nil. exact Hi. }
  destruct (v_committed v && vt_eqb t V.Precommit) eqn:Hc2.
  { inversion Hx; subst. split; [eapply Inv_same; try eassumption; reflexivity|].
    split; [repeat split | constructor]. }
  set (v0 := set_over v ((h, vst_update (over_get v h) t k) :: v_over v)) in *.
  assert (Hq : k = Chamber -> Quorum H (round_of v) (v_idx v) t h).
  { intros ->. eapply JPre_quorum; eassumption. }
  assert (Hi0 : Inv H v0) by (apply Inv_set_over; assumption).
  assert (Hf0 : frame v v0) by (repeat split).
  assert (Hg0 : forall st, good st v v0 []).
  { intros st. split; [exact Hi0|]. split; [exact Hf0|constructor]. }
  destruct (vk_eqb k Chamber) eqn:Hk; cbn [negb] in Hx.
  2:{ inversion Hx; subst. apply Hg0. }
  apply vk_eqb_eq in Hk. subst k. specialize (Hq eq_refl).
  assert (Hlatch : forall t', vst_status (over_get v0 h) t' Chamber = true ->
                              Quorum H (round_of v) (v_idx v) t' h).
  { intros t' Hs. destruct Hi0 as (_ & I2). apply (I2 h t' Hs). }
  destruct t.
  - (* Prevote *)
    destruct (v_precommitted v0); cbn [negb] in Hx.
    { inversion Hx; subst. apply Hg0. }
    destruct (VT v0 V.Precommit h p) as [[v1 e1] ok] eqn:Hvt.
    destruct (SM (if ok then set_precommitted v1 true else v1) h p) as [v3 e3] eqn:Hsm.
    inversion Hx; subst; clear Hx.
    pose proof (HVT v0 V.Precommit h p v1 e1 ok Hi0 (fun _ => Hq) Hvt) as G1.
    assert (G2 : good true v0 (if ok then set_precommitted v1 true else v1) e1).
    { destruct ok; [|exact G1]. eapply good_same; try exact G1; reflexivity. }
    pose proof (HSM _ h p v3 e3 (proj1 G2) Hsm) as G3.
    eapply good_app; [apply Hg0|]. eapply good_app; eassumption.
  - (* Precommit *)
    destruct (v_cert v0) eqn:Hcert; cbn [negb] in Hx.
    + destruct (v_certificated v0); cbn [negb] in Hx.
      * destruct (vst_status (over_get v0 h) V.Certificate Chamber) eqn:Hl.
        -- destruct (commit v0 h p) as [v1 e1] eqn:Hcm.
           destruct (SM v1 h p) as [v2 e2] eqn:Hsm. inversion Hx; subst; clear Hx.
           assert (G1 : good true v0 v1 e1).
           { eapply commit_spec; try eassumption.
             - intros _. apply Hlatch. exact Hl.
             - intros _ Hcf. change (v_cert v0) with (v_cert v) in Hcert. congruence. }
           pose proof (HSM v1 h p v2 e2 (proj1 G1) Hsm) as G2.
           eapply good_app; [apply Hg0|]. eapply good_app; eassumption.
        -- inversion Hx; subst. apply Hg0.
      * destruct (VT v0 V.Certificate h p) as [[v1 e1] ok] eqn:Hvt. inversion Hx; subst; clear Hx.
        pose proof (HVT v0 V.Certificate h p v1 e1 ok Hi0 (fun Hd => ltac:(discriminate Hd)) Hvt) as G1.
        cbn [is_pos vt_eqb negb] in G1 |- *.
        assert (G1' : good true v0 v1 e1).
        { destruct G1 as (A & B & C). split; [exact A|]. split; [exact B|].
          eapply Forall_impl; [|exact C]. intros e He.
          destruct e; cbn in He |- *; try exact He.
          destruct He as (?&?&?&?&_). repeat split; try assumption.
          intros _ Hcf. change (v_cert v0) with (v_cert v) in Hcert. congruence. }
        eapply good_app with (e1 := []); [apply Hg0|].
        destruct ok; [|exact G1']. eapply good_same; try exact G1'; reflexivity.
    + destruct (commit v0 h p) as [v1 e1] eqn:Hcm.
      destruct (SM v1 h p) as [v2 e2] eqn:Hsm. inversion Hx; subst; clear Hx.
      assert (G1 : good true v0 v1 e1).
      { eapply commit_spec; try eassumption.
        - intros Hct. change (v_cert v0) with (v_cert v) in Hcert. congruence.
        - intros _ _. destruct (Hp eq_refl) as (Hts & Hc).
          exists thr. split; [exact Hts|]. change (cur_w v0) with (cur_w v). rewrite Hc. exact Hov. }
      pose proof (HSM v1 h p v2 e2 (proj1 G1) Hsm) as G2.
      eapply good_app; [apply Hg0|]. eapply good_app; eassumption.
  - (* NextIndex *)
    destruct (v_sent v0); inversion Hx; subst; clear Hx; [apply Hg0|].
    split; [eapply Inv_same; try exact Hi0; reflexivity|]. split; [repeat split|].
    constructor; [exact I|constructor].
  - (* Certificate *)
    destruct (vst_status (over_get v0 h) V.Precommit Chamber) eqn:Hl.
    + destruct (commit v0 h p) as [v1 e1] eqn:Hcm.
      destruct (SM v1 h p) as [v2 e2] eqn:Hsm. inversion Hx; subst; clear Hx.
      assert (G1 : good false v0 v1 e1).
      { eapply commit_spec; try eassumption.
        - apply Hlatch. exact Hl.
        - intros _. exact Hq.
        - intros Hd; discriminate Hd. }
      pose proof (HSM v1 h p v2 e2 (proj1 G1) Hsm) as G2.
      eapply good_app; [apply Hg0|]. eapply good_app; [exact G1|]. apply good_weaken. exact G2.
    + inversion Hx; subst. apply Hg0.
Qed.

End Step.
End WithEnv.
