(* C03 - the invariant of the voter over all histories: every recorded vote is
   justified by the history (a delivered message that passed the signature,
   stake and credential checks for exactly that round/index/type/block/sender,
   or the voter's own vote), every tally is sound (ProofsA), every quorum latch
   was backed by such a tally; and what that implies for each posted event. *)
From VF.C03 Require Import Model ProofsA.
From Coq Require Import ZArith Lia ZifyBool ZifyN ZifyNat.
Local Open Scope N_scope.

(* ---- small facts about the containers --------------------------------------- *)
Lemma key_eqb_eq a b : key_eqb a b = true -> a = b.
Proof. destruct a, b. unfold key_eqb. cbn. intros. f_equal; lia. Qed.

Lemma key_eqb_refl a : key_eqb a a = true.
Proof. destruct a. unfold key_eqb. cbn. lia. Qed.

Lemma get_wrapper_in l k w : get_wrapper l k = Some w -> In (k, w) l.
Proof.
  induction l as [|[k' w'] r IH]; cbn; [discriminate|].
  destruct (key_eqb k' k) eqn:Ek.
  - intros Hx. inversion Hx; subst. apply key_eqb_eq in Ek. subst. left; reflexivity.
  - intros Hx. right. apply IH. exact Hx.
Qed.

Lemma set_wrapper_in l k w k' w' :
  In (k', w') (set_wrapper l k w) -> In (k', w') l \/ (k' = k /\ w' = w).
Proof.
  induction l as [|[k0 w0] r IH]; cbn; [tauto|].
  destruct (key_eqb k0 k) eqn:Ek; cbn.
  - intros [Hx|Hx].
    + inversion Hx; subst. apply key_eqb_eq in Ek. right. split; [exact Ek|reflexivity].
    + left. right. exact Hx.
  - intros [Hx|Hx]; [left; left; exact Hx|].
    destruct (IH Hx) as [Hy|Hy]; [left; right; exact Hy | right; exact Hy].
Qed.

Lemma get_set_wrapper l k w w0 :
  get_wrapper l k = Some w0 -> get_wrapper (set_wrapper l k w) k = Some w.
Proof.
  induction l as [|[k' w'] r IH]; cbn; [discriminate|].
  destruct (key_eqb k' k) eqn:Ek; cbn; rewrite Ek; [reflexivity|exact IH].
Qed.

Lemma new_wrapper_in l k k' w' :
  In (k', w') (new_wrapper l k) -> In (k', w') l \/ w' = wrapper_empty.
Proof.
  unfold new_wrapper. destruct (get_wrapper l k); [tauto|].
  destruct (Nat.ltb (length l) max_vote_cache); intros Hx; apply in_app_or in Hx.
  - destruct Hx as [Hx|[Hx|[]]]; [left; exact Hx | inversion Hx; right; reflexivity].
  - destruct Hx as [Hx|[Hx|[]]]; [left; destruct l; [destruct Hx | right; exact Hx] | inversion Hx; right; reflexivity].
Qed.

Lemma vt_eqb_eq a b : vt_eqb a b = true <-> a = b.
Proof. destruct a, b; cbn; split; intros Hx; try reflexivity; try discriminate. Qed.

Lemma vt_eqb_refl a : vt_eqb a a = true.
Proof. destruct a; reflexivity. Qed.

Lemma vk_eqb_eq a b : vk_eqb a b = true <-> a = b.
Proof. destruct a, b; cbn; split; intros Hx; try reflexivity; try discriminate. Qed.

Lemma mget_mset m t s t' : mget (mset m t s) t' = if vt_eqb t t' then s else mget m t'.
Proof. destruct t, t'; reflexivity. Qed.

Lemma wsta_wput w k t s k' t' :
  k <> KOther ->
  wsta (wput w k t s) k' t' = if vk_eqb k k' && vt_eqb t t' then Some s else wsta w k' t'.
Proof.
  intros Hk. destruct k, k'; cbn; try congruence; try reflexivity;
    rewrite mget_mset; destruct (vt_eqb t t'); reflexivity.
Qed.

Lemma vst_status_update s t k t' :
  vst_status (vst_update s t k) t' Chamber =
  (vk_eqb k Chamber && vt_eqb t' t) || vst_status s t' Chamber.
Proof. destruct k; cbn; try reflexivity. Qed.

Lemma vst_status_clear s t k t' :
  vst_status (vst_clear s t k) t' Chamber = true -> vst_status s t' Chamber = true.
Proof.
  destruct k; cbn; try tauto.
  intros Hx. apply existsb_exists in Hx. destruct Hx as (x & Hin & Hx).
  apply filter_In in Hin. apply existsb_exists. exists x. tauto.
Qed.

(* ---- the history predicates ---------------------------------------------------- *)
Section WithEnv.
Variable E : env.

(* a recorded vote (round, index, type, kind, block, sender, seats) is backed by the history *)
Definition counted_by_msg (H : list op) (r i : N) (t : vtype) (k : vkind) (h a n : N) : Prop :=
  exists H1 H2 m thr,
    H = H1 ++ Msg m :: H2 /\
    m_round m = r /\ m_idx m = i /\ m_type m = t /\ m_hash m = h /\ m_sender m = a /\
    w32 (m_votes m) = n /\ m_sig m = true /\ m_stake m = Some (thr, k) /\
    cred_ok E (run_state E H1) m = true.

Definition counted_own (r i : N) (t : vtype) (k : vkind) (a n : N) : Prop :=
  a = self E /\ exists n0 thr, own_view (own E) r i t = Some (n0, thr, k) /\ n = w32 n0.

Definition Counted H r i t k h a n : Prop :=
  counted_by_msg H r i t k h a n \/ counted_own r i t k a n.

(* the threshold a quorum is measured against comes from the stake look-up of a
   delivered message of that round/index/type, or from the voter's own step view *)
Definition thr_src (H : list op) (r i : N) (t : vtype) (thr : N) : Prop :=
  (exists m, In (Msg m) H /\ m_round m = r /\ m_idx m = i /\ m_type m = t /\ m_stake m = Some (thr, Chamber))
  \/ (exists n0, own_view (own E) r i t = Some (n0, thr, Chamber)).

Definition sta_just H r i t k (s : votesta) : Prop :=
  forall e, In e (vs_info s) -> Counted H r i t k (e_hash e) (e_addr e) (e_votes e).

Definition is_pos (t : vtype) : bool := negb (vt_eqb t V.Certificate).

(* "votes of type t for block h at (r, i) reached their quorum": a sound tally of
   backed chamber votes whose count for h is at least the quorum *)
Definition Quorum H r i t h : Prop :=
  exists s thr, sta_ok s /\ sta_just H r i t Chamber s /\ thr_src H r i t thr /\
                over_threshold (cnt s h) thr (is_pos t) = true.

Definition wrapper_ok H (key : wkey) (w : wrapper) : Prop :=
  forall k t s, wsta w k t = Some s -> sta_ok s /\ sta_just H (fst key) (snd key) t k s.

Definition Inv H (v : voter) : Prop :=
  (forall key w, In (key, w) (v_ws v) -> wrapper_ok H key w)
  /\ (forall h t, vst_status (over_get v h) t Chamber = true -> Quorum H (round_of v) (v_idx v) t h).

(* ---- monotonicity in the history ----------------------------------------------- *)
Lemma Counted_mono H X r i t k h a n : Counted H r i t k h a n -> Counted (H ++ X) r i t k h a n.
Proof.
  intros [(H1 & H2 & m & thr & HH & Hr)|Ho]; [left|right; exact Ho].
  exists H1, (H2 ++ X), m, thr. split; [|exact Hr].
  rewrite HH. rewrite <- app_assoc. reflexivity.
Qed.

Lemma thr_src_mono H X r i t thr : thr_src H r i t thr -> thr_src (H ++ X) r i t thr.
Proof.
  intros [(m & Hin & Hr)|Ho]; [left|right; exact Ho].
  exists m. split; [apply in_or_app; left; exact Hin | exact Hr].
Qed.

Lemma sta_just_mono H X r i t k s : sta_just H r i t k s -> sta_just (H ++ X) r i t k s.
Proof. intros Hj e He. apply Counted_mono. apply Hj. exact He. Qed.

Lemma Quorum_mono H X r i t h : Quorum H r i t h -> Quorum (H ++ X) r i t h.
Proof.
  intros (s & thr & Hok & Hj & Ht & Hov). exists s, thr.
  split; [exact Hok|]. split; [apply sta_just_mono; exact Hj|]. split; [apply thr_src_mono; exact Ht | exact Hov].
Qed.

Lemma Inv_mono H X v : Inv H v -> Inv (H ++ X) v.
Proof.
  intros (I1 & I2). split.
  - intros key w Hin k t s Hs. destruct (I1 key w Hin k t s Hs) as (Hok & Hj).
    split; [exact Hok | apply sta_just_mono; exact Hj].
  - intros h t Hst. apply Quorum_mono. apply I2. exact Hst.
Qed.

Lemma wrapper_empty_ok H key : wrapper_ok H key wrapper_empty.
Proof.
  intros k t s Hs.
  assert (s = sta_empty) as -> by (destruct k, t; cbn in Hs; inversion Hs; reflexivity).
  split; [apply sta_empty_ok | intros e []].
Qed.

Lemma Inv_init H : Inv H init_voter.
Proof.
  split.
  - intros key w [].
  - intros h t Hs. cbn in Hs. discriminate.
Qed.

(* ---- what every posted event means ----------------------------------------------- *)
Section Step.
Variable H : list op.     (* the history up to and including the op being executed *)

Definition EvOK (strict : bool) (v : voter) (e : event) : Prop :=
  match e with
  | ESend t r i h _ _ =>
    t = V.Precommit -> r = round_of v /\ i = v_idx v /\ Quorum H r i V.Prevote h
  | ECommit r i h cp hp cc =>
    r = round_of v /\ i = v_idx v /\ Quorum H r i V.Precommit h
    /\ (v_cert v = true -> Quorum H r i V.Certificate h)
    /\ (strict = true -> v_cert v = false ->
        exists s thr, sta_ok s /\ sta_just H r i V.Precommit Chamber s /\ thr_src H r i V.Precommit thr
                      /\ cp = sta_votes s h /\ over_threshold (cnt s h) thr true = true)
  | _ => True
  end.

Definition frame (v v' : voter) : Prop :=
  v_round v' = v_round v /\ v_idx v' = v_idx v /\ v_cert v' = v_cert v.

Definition good (strict : bool) (v v' : voter) (ev : list event) : Prop :=
  Inv H v' /\ frame v v' /\ Forall (EvOK strict v) ev.

Lemma frame_refl v : frame v v.
Proof. repeat split. Qed.

Lemma frame_trans a b c : frame a b -> frame b c -> frame a c.
Proof. unfold frame. intros (?&?&?) (?&?&?). repeat split; congruence. Qed.

Lemma EvOK_frame st v v' e : frame v v' -> EvOK st v' e -> EvOK st v e.
Proof.
  intros (Hr & Hi & Hc). unfold EvOK, round_of. rewrite Hr, Hi, Hc. tauto.
Qed.

Lemma EvOK_weaken v e : EvOK true v e -> EvOK false v e.
Proof.
  destruct e; cbn; try tauto.
Qed.

Lemma good_weaken st v v' ev : good true v v' ev -> good st v v' ev.
Proof.
  destruct st; [tauto|]. intros (Hi & Hf & He). split; [exact Hi|]. split; [exact Hf|].
  eapply Forall_impl; [|exact He]. intros e. apply EvOK_weaken.
Qed.

Lemma good_nil st v : Inv H v -> good st v v [].
Proof. intros Hi. split; [exact Hi|]. split; [apply frame_refl | constructor]. Qed.

Lemma good_app st v v1 v2 e1 e2 :
  good st v v1 e1 -> good st v1 v2 e2 -> good st v v2 (e1 ++ e2).
Proof.
  intros (I1 & F1 & E1) (I2 & F2 & E2). split; [exact I2|]. split; [eapply frame_trans; eassumption|].
  apply Forall_app. split; [exact E1|].
  eapply Forall_impl; [|exact E2]. intros e. apply EvOK_frame. exact F1.
Qed.

Lemma good_pre st v v0 v2 ev : good st v v0 [] -> good st v0 v2 ev -> good st v v2 ev.
Proof. intros G0 G. exact (good_app st v v0 v2 [] ev G0 G). Qed.

(* changing fields the invariant does not read *)
Lemma Inv_same v v' :
  v_ws v' = v_ws v -> v_over v' = v_over v -> v_round v' = v_round v -> v_idx v' = v_idx v ->
  Inv H v -> Inv H v'.
Proof.
  intros Hw Ho Hr Hi (I1 & I2). unfold Inv, over_get, round_of. rewrite Hw, Ho, Hr, Hi.
  split; assumption.
Qed.

Lemma good_same st v v1 v2 ev :
  v_ws v2 = v_ws v1 -> v_over v2 = v_over v1 -> v_round v2 = v_round v1 -> v_idx v2 = v_idx v1 ->
  v_cert v2 = v_cert v1 ->
  good st v v1 ev -> good st v v2 ev.
Proof.
  intros Hw Ho Hr Hi Hc (I1 & (F1 & F2 & F3) & E1).
  split; [eapply Inv_same; eassumption|]. split; [|exact E1].
  unfold frame. repeat split; congruence.
Qed.

(* ---- specifications of the mutually recursive functions ----------------------------- *)
Definition cur_w (v : voter) : wrapper :=
  match get_wrapper (v_ws v) (cur_key v) with Some w => w | None => wrapper_empty end.

Definition JPre (v : voter) (t : vtype) (c thr h : N) (k : vkind) : Prop :=
  k = Chamber ->
  thr_src H (round_of v) (v_idx v) t thr /\ cnt (mget (w_chamber (cur_w v)) t) h = c.

Lemma cur_w_ok v : Inv H v -> wrapper_ok H (cur_key v) (cur_w v).
Proof.
  intros (I1 & _). unfold cur_w. destruct (get_wrapper (v_ws v) (cur_key v)) eqn:Hg.
  - apply I1. apply get_wrapper_in. exact Hg.
  - apply wrapper_empty_ok.
Qed.

Definition JudgeSpec (J : voter -> vtype -> N -> N -> N -> N -> vkind -> voter * list event) : Prop :=
  forall v t c thr h p k v' ev,
    Inv H v -> JPre v t c thr h k -> J v t c thr h p k = (v', ev) -> good (is_pos t) v v' ev.

Definition VoteSpec (VT : vote_fn) : Prop :=
  forall v t h p v' ev ok,
    Inv H v -> (t = V.Precommit -> Quorum H (round_of v) (v_idx v) V.Prevote h) ->
    VT v t h p = (v', ev, ok) -> good (is_pos t) v v' ev.

Definition MarkedSpec (SM : marked_fn) : Prop :=
  forall v h p v' ev, Inv H v -> SM v h p = (v', ev) -> good true v v' ev.

Lemma vote_none_spec : VoteSpec vote_none.
Proof. intros v t h p v' ev ok Hi _ Hx. inversion Hx; subst. apply good_nil. exact Hi. Qed.

Lemma marked_none_spec : MarkedSpec marked_none.
Proof. intros v h p v' ev Hi Hx. inversion Hx; subst. apply good_nil. exact Hi. Qed.

(* a count that passes the threshold test is a quorum *)
Lemma JPre_quorum v t c thr h :
  Inv H v -> JPre v t c thr h Chamber -> over_threshold c thr (is_pos t) = true ->
  Quorum H (round_of v) (v_idx v) t h.
Proof.
  intros Hi Hp Hov. destruct (Hp eq_refl) as (Hts & Hc).
  destruct (cur_w_ok v Hi Chamber t _ eq_refl) as (Hok & Hj).
  exists (mget (w_chamber (cur_w v)) t), thr. subst c. tauto.
Qed.

Lemma over_get_set_over v h new h' :
  over_get (set_over v ((h, new) :: v_over v)) h' = if h =? h' then new else over_get v h'.
Proof. unfold over_get. cbn. destruct (h =? h'); reflexivity. Qed.

Lemma Inv_set_over v h t k :
  Inv H v ->
  (k = Chamber -> Quorum H (round_of v) (v_idx v) t h) ->
  Inv H (set_over v ((h, vst_update (over_get v h) t k) :: v_over v)).
Proof.
  intros (I1 & I2) Hq. split; [exact I1|].
  intros h' t' Hst. rewrite over_get_set_over in Hst.
  change (round_of (set_over v _)) with (round_of v). change (v_idx (set_over v _)) with (v_idx v).
  destruct (h =? h') eqn:Eh.
  - assert (h' = h) by lia. subst h'. rewrite vst_status_update in Hst.
    apply orb_true_iff in Hst. destruct Hst as [Hst|Hst]; [|apply I2; exact Hst].
    apply andb_true_iff in Hst. destruct Hst as (Hk & Ht).
    apply vk_eqb_eq in Hk. apply vt_eqb_eq in Ht. subst. apply Hq. reflexivity.
  - apply I2. exact Hst.
Qed.

(* ---- commit ---------------------------------------------------------------------------- *)
Lemma commit_spec v h p v' ev st :
  Inv H v ->
  Quorum H (round_of v) (v_idx v) V.Precommit h ->
  (v_cert v = true -> Quorum H (round_of v) (v_idx v) V.Certificate h) ->
  (st = true -> v_cert v = false ->
   exists thr, thr_src H (round_of v) (v_idx v) V.Precommit thr /\
               over_threshold (cnt (mget (w_chamber (cur_w v)) V.Precommit) h) thr true = true) ->
  commit v h p = (v', ev) -> good st v v' ev.
Proof.
  intros Hi Hq Hc Hs Hx. unfold commit in Hx.
  destruct (negb (in_cache v h)); inversion Hx; subst; clear Hx; [apply good_nil; exact Hi|].
  split; [eapply Inv_same; try eassumption; reflexivity|]. split; [repeat split|].
  constructor; [|constructor]. cbn.
  repeat split; try assumption.
  intros Hst Hcf. destruct (Hs Hst Hcf) as (thr & Hts & Hov).
  destruct (cur_w_ok v Hi Chamber V.Precommit _ eq_refl) as (Hok & Hj).
  exists (mget (w_chamber (cur_w v)) V.Precommit), thr.
  split; [exact Hok|]. split; [exact Hj|]. split; [exact Hts|]. split; [|exact Hov].
  unfold w_votes, cur_w. reflexivity.
Qed.

(* ---- judgeVoteCount ---------------------------------------------------------------------- *)
Lemma judge_gen_spec VT SM : VoteSpec VT -> MarkedSpec SM -> JudgeSpec (judge_gen VT SM).
Proof.
  intros HVT HSM v t c thr h p k v' ev Hi Hp Hx. unfold judge_gen in Hx.
  destruct (over_threshold c thr (negb (vt_eqb t V.Certificate))) eqn:Hov; cbn [negb orb] in Hx.
  2:{ inversion Hx; subst. apply good_nil. exact Hi. }
  destruct (v_committed v && negb (vt_eqb t V.Precommit)) eqn:Hc1.
  { inversion Hx; subst. apply good_nil. exact Hi. }
  destruct (v_committed v && vt_eqb t V.Precommit) eqn:Hc2.
  { inversion Hx; subst. split; [eapply Inv_same; try eassumption; reflexivity|].
    split; [repeat split | constructor]. }
  set (v0 := set_over v ((h, vst_update (over_get v h) t k) :: v_over v)) in *.
  assert (Hq : k = Chamber -> Quorum H (round_of v) (v_idx v) t h).
  { intros ->. eapply JPre_quorum; eassumption. }
  assert (Hi0 : Inv H v0) by (apply Inv_set_over; assumption).
  assert (Hf0 : frame v v0) by (repeat split).
  assert (Hg0 : forall st, good st v v0 []).
  { intros st. split; [exact Hi0|]. split; [exact Hf0|constructor]. }
  destruct (vk_eqb k Chamber) eqn:Hk; cbn [negb] in Hx.
  2:{ inversion Hx; subst. apply Hg0. }
  apply vk_eqb_eq in Hk. subst k. specialize (Hq eq_refl).
  assert (Hlatch : forall t', vst_status (over_get v0 h) t' Chamber = true ->
                              Quorum H (round_of v) (v_idx v) t' h).
  { intros t' Hs. destruct Hi0 as (_ & I2). apply (I2 h t' Hs). }
  destruct t.
  - (* Prevote *)
    destruct (v_precommitted v0); cbn [negb] in Hx.
    { inversion Hx; subst. apply Hg0. }
    destruct (VT v0 V.Precommit h p) as [[v1 e1] ok] eqn:Hvt.
    destruct (SM (if ok then set_precommitted v1 true else v1) h p) as [v3 e3] eqn:Hsm.
    injection Hx as Hv' Hev'; subst v' ev.
    pose proof (HVT v0 V.Precommit h p v1 e1 ok Hi0 (fun _ => Hq) Hvt) as G1.
    assert (G2 : good true v0 (if ok then set_precommitted v1 true else v1) e1).
    { destruct ok; [|exact G1]. eapply good_same; try exact G1; reflexivity. }
    pose proof (HSM _ h p v3 e3 (proj1 G2) Hsm) as G3.
    eapply good_pre; [apply Hg0|]. eapply good_app; eassumption.
  - (* Precommit *)
    destruct (v_cert v0) eqn:Hcert; cbn [negb] in Hx.
    + destruct (v_certificated v0); cbn [negb] in Hx.
      * destruct (vst_status (over_get v0 h) V.Certificate Chamber) eqn:Hl.
        -- destruct (commit v0 h p) as [v1 e1] eqn:Hcm.
           destruct (SM v1 h p) as [v2 e2] eqn:Hsm. injection Hx as Hv' Hev'; subst v' ev.
           assert (G1 : good true v0 v1 e1).
           { apply (commit_spec v0 h p v1 e1 true Hi0);
               [exact Hq | intros _; apply Hlatch; exact Hl
                | intros _ Hcf; rewrite Hcert in Hcf; discriminate Hcf | exact Hcm]. }
           pose proof (HSM v1 h p v2 e2 (proj1 G1) Hsm) as G2.
           eapply good_pre; [apply Hg0|]. eapply good_app; eassumption.
        -- inversion Hx; subst. apply Hg0.
      * destruct (VT v0 V.Certificate h p) as [[v1 e1] ok] eqn:Hvt. injection Hx as Hv' Hev'; subst v' ev.
        pose proof (HVT v0 V.Certificate h p v1 e1 ok Hi0 (fun Hd => ltac:(discriminate Hd)) Hvt) as G1.
        cbn [is_pos vt_eqb negb] in G1 |- *.
        assert (G1' : good true v0 v1 e1).
        { destruct G1 as (A & B & C). split; [exact A|]. split; [exact B|].
          eapply Forall_impl; [|exact C]. intros e He.
          destruct e; cbn in He |- *; try exact He.
          destruct He as (?&?&?&?&_). repeat split; try assumption.
          intros _ Hcf. change (v_cert v) with (v_cert v0) in Hcf. rewrite Hcert in Hcf. discriminate Hcf. }
        eapply good_pre; [apply Hg0|].
        destruct ok; [|exact G1']. eapply good_same; try exact G1'; reflexivity.
    + destruct (commit v0 h p) as [v1 e1] eqn:Hcm.
      destruct (SM v1 h p) as [v2 e2] eqn:Hsm. injection Hx as Hv' Hev'; subst v' ev.
      assert (G1 : good true v0 v1 e1).
      { apply (commit_spec v0 h p v1 e1 true Hi0);
          [exact Hq | intros Hct; rewrite Hcert in Hct; discriminate Hct | | exact Hcm].
        intros _ _. destruct (Hp eq_refl) as (Hts & Hc).
        exists thr. split; [exact Hts|]. change (cur_w v0) with (cur_w v). rewrite Hc. exact Hov. }
      pose proof (HSM v1 h p v2 e2 (proj1 G1) Hsm) as G2.
      eapply good_pre; [apply Hg0|]. eapply good_app; eassumption.
  - (* NextIndex *)
    destruct (v_sent v0); inversion Hx; subst; clear Hx; [apply Hg0|].
    split; [eapply Inv_same; try exact Hi0; reflexivity|]. split; [repeat split|].
    constructor; [exact I|constructor].
  - (* Certificate *)
    destruct (vst_status (over_get v0 h) V.Precommit Chamber) eqn:Hl.
    + destruct (commit v0 h p) as [v1 e1] eqn:Hcm.
      destruct (SM v1 h p) as [v2 e2] eqn:Hsm. injection Hx as Hv' Hev'; subst v' ev.
      assert (G1 : good false v0 v1 e1).
      { apply (commit_spec v0 h p v1 e1 false Hi0);
          [apply Hlatch; exact Hl | intros _; exact Hq | intros Hd; discriminate Hd | exact Hcm]. }
      pose proof (HSM v1 h p v2 e2 (proj1 G1) Hsm) as G2.
      eapply good_pre; [apply Hg0|]. eapply good_app; [exact G1|]. apply good_weaken. exact G2.
    + inversion Hx; subst. apply Hg0.
Qed.

Lemma EvOK_frame_rev st v v' e : frame v v' -> EvOK st v e -> EvOK st v' e.
Proof.
  intros (Hr & Hi & Hc). unfold EvOK, round_of. rewrite Hr, Hi, Hc. tauto.
Qed.

(* ---- recording a vote in a wrapper --------------------------------------------------- *)
Lemma wrapper_ok_new_vote key w t k a h n w' add c :
  wrapper_ok H key w ->
  Counted H (fst key) (snd key) t k h a (w32 n) ->
  w_new_vote w t k a h n = (w', add, c) ->
  wrapper_ok H key w' /\ (k = Chamber -> cnt (mget (w_chamber w') t) h = c).
Proof.
  intros Hw Hc Hx. unfold w_new_vote in Hx.
  destruct (wsta w k t) as [s|] eqn:Hs.
  2:{ inversion Hx; subst. split; [exact Hw|]. intros ->. discriminate Hs. }
  destruct (sta_new_vote s a h n) as [[s' add'] c'] eqn:Hnv. inversion Hx; subst; clear Hx.
  destruct (Hw k t s Hs) as (Hok & Hj).
  destruct (sta_new_vote_spec _ _ _ _ _ _ _ Hok Hnv) as (Hok' & Hc' & Hent & _).
  assert (Hk : k <> KOther) by (intros ->; discriminate Hs).
  split.
  - intros k' t' s'' Hs''. rewrite wsta_wput in Hs'' by exact Hk.
    destruct (vk_eqb k k' && vt_eqb t t') eqn:Ekt.
    + apply andb_true_iff in Ekt. destruct Ekt as (Ek & Et).
      apply vk_eqb_eq in Ek. apply vt_eqb_eq in Et. subst k' t'. inversion Hs''; subst s''.
      split; [exact Hok'|]. intros e He. destruct (Hent e He) as [Ho|Hn].
      * apply Hj. exact Ho.
      * subst e. cbn. exact Hc.
    + apply Hw. exact Hs''.
  - intros ->. cbn. rewrite mget_mset, vt_eqb_refl. symmetry. exact Hc'.
Qed.

Lemma wrapper_ok_addr_info key w t k a h w' r old :
  wrapper_ok H key w -> w_addr_info w t k a h = (w', r, old) -> wrapper_ok H key w'.
Proof.
  intros Hw Hx. unfold w_addr_info in Hx.
  destruct (wsta w k t) as [s|] eqn:Hs.
  2:{ inversion Hx; subst. exact Hw. }
  destruct (sta_addr_info s (vt_eqb t V.NextIndex) a h) as [[s' r'] old'] eqn:Hai.
  inversion Hx; subst; clear Hx.
  destruct (Hw k t s Hs) as (Hok & Hj).
  destruct (sta_addr_info_spec _ _ _ _ _ _ _ Hok Hai) as (Hok' & Hent & _).
  assert (Hk : k <> KOther) by (intros ->; discriminate Hs).
  intros k' t' s'' Hs''. rewrite wsta_wput in Hs'' by exact Hk.
  destruct (vk_eqb k k' && vt_eqb t t') eqn:Ekt.
  - apply andb_true_iff in Ekt. destruct Ekt as (Ek & Et).
    apply vk_eqb_eq in Ek. apply vt_eqb_eq in Et. subst k' t'. inversion Hs''; subst s''.
    split; [exact Hok'|]. intros e He. apply Hj. apply Hent. exact He.
  - apply Hw. exact Hs''.
Qed.

Lemma Inv_set_ws v ws :
  Inv H v -> (forall key w, In (key, w) ws -> wrapper_ok H key w) -> Inv H (set_ws v ws).
Proof. intros (I1 & I2) Hw. split; [exact Hw | exact I2]. Qed.

Lemma set_wrapper_ok ws key w :
  (forall k' w', In (k', w') ws -> wrapper_ok H k' w') -> wrapper_ok H key w ->
  forall k' w', In (k', w') (set_wrapper ws key w) -> wrapper_ok H k' w'.
Proof.
  intros Hws Hw k' w' Hin. destruct (set_wrapper_in _ _ _ _ _ Hin) as [Ho|(-> & ->)];
    [apply Hws; exact Ho | exact Hw].
Qed.

Lemma new_wrapper_ok ws key :
  (forall k' w', In (k', w') ws -> wrapper_ok H k' w') ->
  forall k' w', In (k', w') (new_wrapper ws key) -> wrapper_ok H k' w'.
Proof.
  intros Hws k' w' Hin. destruct (new_wrapper_in _ _ _ _ Hin) as [Ho| ->];
    [apply Hws; exact Ho | apply wrapper_empty_ok].
Qed.

Lemma get_wrapper_app_none l k w :
  get_wrapper l k = None -> get_wrapper (l ++ [(k, w)]) k = Some w.
Proof.
  induction l as [|[k' w'] r IH]; cbn.
  - rewrite key_eqb_refl. reflexivity.
  - destruct (key_eqb k' k); [discriminate | exact IH].
Qed.

Lemma get_wrapper_tl_none l k : get_wrapper l k = None -> get_wrapper (tl l) k = None.
Proof.
  destruct l as [|[k' w'] r]; cbn; [reflexivity|]. destruct (key_eqb k' k); [discriminate|tauto].
Qed.

Lemma get_new_wrapper l k : exists w, get_wrapper (new_wrapper l k) k = Some w.
Proof.
  unfold new_wrapper. destruct (get_wrapper l k) as [w|] eqn:Hg; [exists w; exact Hg|].
  exists wrapper_empty. destruct (Nat.ltb (length l) max_vote_cache).
  - apply get_wrapper_app_none. exact Hg.
  - apply get_wrapper_app_none. apply get_wrapper_tl_none. exact Hg.
Qed.

(* ---- vote ------------------------------------------------------------------------------ *)
Lemma vote_gen_spec J : JudgeSpec J -> VoteSpec (vote_gen E J).
Proof.
  intros HJ v t h p v' ev ok Hi Hpre Hx. unfold vote_gen in Hx.
  destruct (own_view (own E) (round_of v) (v_idx v) t) as [[[seats thr] k]|] eqn:Hown.
  2:{ inversion Hx; subst. apply good_nil. exact Hi. }
  destruct (vt_eqb t V.NextIndex && match v_next_voted v with Some _ => true | None => false end
            && V.already_voted (v_db v) V.NextIndex (V.enc (round_of v) (v_idx v))).
  { inversion Hx; subst. apply good_nil. exact Hi. }
  destruct (vt_eqb t V.Certificate && negb (certp_ok E)).
  { inversion Hx; subst. apply good_nil. exact Hi. }
  destruct (V.update_vote_data (v_db v) t (V.enc (round_of v) (v_idx v))) as [d okd].
  destruct okd; cbn [negb] in Hx.
  2:{ inversion Hx; subst. apply good_nil. exact Hi. }
  set (v1 := set_db v d) in *.
  assert (Hi1 : Inv H v1) by (eapply Inv_same; try exact Hi; reflexivity).
  assert (Hts : k = Chamber -> thr_src H (round_of v) (v_idx v) t thr).
  { intros ->. right. exists seats. exact Hown. }
  destruct (get_wrapper (v_ws v1) (cur_key v1)) as [w|] eqn:Hg.
  - destruct (w_new_vote w t k (self E) h seats) as [[w' add] c] eqn:Hnv.
    set (v2 := set_ws v1 (set_wrapper (v_ws v1) (cur_key v1) w')) in *.
    destruct (J v2 t c thr h p k) as [v3 e3] eqn:Hj. injection Hx as Hv' Hev' Hok'; subst v' ev ok.
    pose proof (get_wrapper_in _ _ _ Hg) as Hin.
    destruct Hi1 as (I1 & I2).
    assert (Hcnt : Counted H (fst (cur_key v1)) (snd (cur_key v1)) t k h (self E) (w32 seats)).
    { right. split; [reflexivity|]. exists seats, thr. split; [exact Hown|reflexivity]. }
    destruct (wrapper_ok_new_vote _ _ _ _ _ _ _ _ _ _ (I1 _ _ Hin) Hcnt Hnv) as (Hw' & Hc).
    assert (Hi2 : Inv H v2).
    { apply Inv_set_ws; [split; assumption|]. apply set_wrapper_ok; assumption. }
    assert (Hp2 : JPre v2 t c thr h k).
    { intros Hk. split; [apply Hts; exact Hk|].
      unfold cur_w. change (cur_key v2) with (cur_key v1). cbn [v2 set_ws v_ws].
      rewrite (get_set_wrapper _ _ w' _ Hg). apply Hc. exact Hk. }
    destruct (HJ v2 t c thr h p k v3 e3 Hi2 Hp2 Hj) as (Hi3 & Hf3 & He3).
    split; [exact Hi3|]. split; [exact Hf3|].
    constructor.
    + cbn. intros ->. split; [reflexivity|]. split; [reflexivity|]. apply Hpre. reflexivity.
    + eapply Forall_impl; [|exact He3]. intros e. apply EvOK_frame. repeat split.
  - destruct (J v1 t 0 thr h p k) as [v3 e3] eqn:Hj. injection Hx as Hv' Hev' Hok'; subst v' ev ok.
    assert (Hp1 : JPre v1 t 0 thr h k).
    { intros Hk. split; [apply Hts; exact Hk|]. unfold cur_w. rewrite Hg. destruct t; reflexivity. }
    destruct (HJ v1 t 0 thr h p k v3 e3 Hi1 Hp1 Hj) as (Hi3 & Hf3 & He3).
    split; [exact Hi3|]. split; [exact Hf3|].
    constructor.
    + cbn. intros ->. split; [reflexivity|]. split; [reflexivity|]. apply Hpre. reflexivity.
    + eapply Forall_impl; [|exact He3]. intros e. apply EvOK_frame. repeat split.
Qed.

(* ---- setMarkedBlock ---------------------------------------------------------------------- *)
Lemma set_marked_gen_spec VT : VoteSpec VT -> MarkedSpec (set_marked_gen VT).
Proof.
  intros HVT v h p v' ev Hi Hx. unfold set_marked_gen in Hx.
  destruct (match v_next_voted v with
            | Some (nh, _) => negb (nh =? 0) || (nh =? h) || (h =? 0)
            | None => false end).
  { inversion Hx; subst. apply good_nil. exact Hi. }
  destruct (negb (in_cache v h) && negb (h =? 0)).
  { inversion Hx; subst. apply good_nil. exact Hi. }
  destruct (v_step v <? 4).
  { inversion Hx; subst; clear Hx.
    destruct ((match v_next_marked v with None => true | Some _ => false end) && negb (h =? 0));
      [|apply good_nil; exact Hi].
    split; [eapply Inv_same; try exact Hi; reflexivity|]. split; [repeat split|constructor]. }
  destruct (VT v V.NextIndex h p) as [[v1 e1] ok] eqn:Hvt. injection Hx as Hv' Hev'; subst v' ev.
  pose proof (HVT v V.NextIndex h p v1 e1 ok Hi (fun Hd => ltac:(discriminate Hd)) Hvt) as G1.
  cbn [is_pos vt_eqb negb] in G1.
  destruct ok; [exact G1|]. eapply good_same; try exact G1; reflexivity.
Qed.

(* ---- the four layers ----------------------------------------------------------------------- *)
Lemma vote0_spec : VoteSpec (vote0 E).
Proof. apply vote_gen_spec, judge_gen_spec; [apply vote_none_spec | apply marked_none_spec]. Qed.
Lemma set_marked_spec : MarkedSpec (set_marked E).
Proof. apply set_marked_gen_spec, vote0_spec. Qed.
Lemma vote1_spec : VoteSpec (vote1 E).
Proof. apply vote_gen_spec, judge_gen_spec; [apply vote0_spec | apply set_marked_spec]. Qed.
Lemma vote2_spec : VoteSpec (vote2 E).
Proof. apply vote_gen_spec, judge_gen_spec; [apply vote1_spec | apply set_marked_spec]. Qed.
Lemma judge_spec : JudgeSpec (judge E).
Proof. apply judge_gen_spec; [apply vote2_spec | apply set_marked_spec]. Qed.
Lemma vote_spec : VoteSpec (vote E).
Proof. apply vote_gen_spec, judge_spec. Qed.

(* ---- updateContext ------------------------------------------------------------------------- *)
Lemma update_context_spec v r i stp cert maxp v' ev :
  Inv H v -> update_context E v r i stp cert maxp = (v', ev) ->
  Inv H v' /\ Forall (EvOK true v') ev.
Proof.
  intros Hi Hx. unfold update_context in Hx.
  set (changed := match v_round v with
                  | Some r0 => negb (r0 =? r) || negb (v_idx v =? i)
                  | None => true end) in *.
  match type of Hx with
  | context [let '(va, ea) := ?X in _] => destruct X as [va ea] eqn:Hva
  end.
  set (vb := mkVoter (Some r) i stp cert (v_precommitted va) (v_committed va) (v_sent va) (v_certificated va)
                     (v_next_marked va) (v_cur_marked va) (v_next_voted va) (v_over va) (v_ws va) (v_upd va)
                     (V.update_context (v_db va) (V.enc r i)) (v_cache va) (v_srv va)) in *.
  assert (Hib : Inv H vb).
  { destruct changed eqn:Hch.
    - inversion Hva; subst va ea; clear Hva. destruct Hi as (I1 & I2). split.
      + cbn [vb v_ws]. apply new_wrapper_ok. exact I1.
      + intros h t Hs. cbn in Hs. discriminate Hs.
    - inversion Hva; subst va ea; clear Hva.
      assert (Hr : v_round v = Some r /\ v_idx v = i).
      { unfold changed in Hch. destruct (v_round v) as [r0|]; [|discriminate Hch].
        split; [f_equal|]; lia. }
      destruct Hr as (Hr1 & Hr2). destruct Hi as (I1 & I2). split; [exact I1|].
      intros h t Hs. specialize (I2 h t Hs). unfold round_of in I2 |- *. cbn [vb v_round v_idx].
      rewrite Hr1, Hr2 in I2. exact I2. }
  assert (Hea : Forall (EvOK true v') ea).
  { destruct changed; inversion Hva; subst va ea; [|constructor].
    destruct (v_upd v) as [[[ur ui] uh]|]; [|constructor].
    destruct (get_wrapper (v_ws v) (ur, ui)); constructor; [exact I|constructor]. }
  assert (Hfin : forall vc ec, good true vb vc ec -> vc = v' -> Inv H v' /\ Forall (EvOK true v') (ea ++ ec)).
  { intros vc ec (A & B & C) ->. split; [exact A|]. apply Forall_app. split; [exact Hea|].
    eapply Forall_impl; [|exact C]. intros e. apply EvOK_frame_rev. exact B. }
  assert (Hnil : vb = v' -> ev = ea -> Inv H v' /\ Forall (EvOK true v') ev).
  { intros <- ->. split; [exact Hib|exact Hea]. }
  destruct (stp =? 2).
  - destruct (match v_cur_marked vb with
              | Some (h, p) => if negb (h =? 0) then Some (h, p) else None
              | None => None end) as [[h p]|].
    + destruct (vote E vb V.Prevote h p) as [[vc ec] okc] eqn:Hv. injection Hx as Hv' Hev'. subst ev.
      apply (Hfin vc ec); [|exact Hv'].
      apply (vote_spec vb V.Prevote h p vc ec okc Hib (fun Hd => ltac:(discriminate Hd)) Hv).
    + destruct maxp as [[p h]|].
      * destruct (vote E vb V.Prevote h p) as [[vc ec] okc] eqn:Hv. injection Hx as Hv' Hev'. subst ev.
        apply (Hfin vc ec); [|exact Hv'].
        apply (vote_spec vb V.Prevote h p vc ec okc Hib (fun Hd => ltac:(discriminate Hd)) Hv).
      * injection Hx as Hv' Hev'. apply Hnil; congruence.
  - destruct ((stp =? 4) || (stp =? 5)).
    + destruct (v_committed vb || v_sent vb).
      * injection Hx as Hv' Hev'. apply Hnil; congruence.
      * destruct (match v_next_marked vb with
                  | Some (h, p) => set_marked E vb h p
                  | None => set_marked E vb 0 0 end) as [vc ec] eqn:Hsm.
        injection Hx as Hv' Hev'. subst ev. apply (Hfin vc ec); [|exact Hv'].
        destruct (v_next_marked vb) as [[h p]|]; eapply set_marked_spec; eassumption.
    + injection Hx as Hv' Hev'. apply Hnil; congruence.
Qed.

End Step.

(* ---- processVoteMsg ---------------------------------------------------------------------------- *)
Lemma process_spec Hp v m v' ev c :
  v = run_state E Hp -> Inv (Hp ++ [Msg m]) v -> process E v m = (v', ev, c) ->
  good (Hp ++ [Msg m]) (is_pos (m_type m)) v v' ev.
Proof.
  intros Hv Hi Hx. set (H := Hp ++ [Msg m]) in *. unfold process in Hx.
  set (same := match m_status m with Same => true | _ => false end) in *.
  destruct (same && m_novote m). { inversion Hx; subst v' ev. apply good_nil. exact Hi. }
  destruct (same && (negb (m_round m =? round_of v) || negb (m_idx m =? v_idx v))) eqn:Hctx.
  { inversion Hx; subst v' ev. apply good_nil. exact Hi. }
  destruct (vt_eqb (m_type m) V.Certificate && negb (certp_ok E)).
  { inversion Hx; subst v' ev. apply good_nil. exact Hi. }
  destruct (m_sig m) eqn:Hsig; cbn [negb] in Hx.
  2:{ inversion Hx; subst v' ev. apply good_nil. exact Hi. }
  destruct (m_stake m) as [[thr k]|] eqn:Hstake.
  2:{ inversion Hx; subst v' ev. apply good_nil. exact Hi. }
  destruct (cred_verdict E v m) eqn:Hverdict;
    try (inversion Hx; subst v' ev; apply good_nil; exact Hi).
  assert (Hcred : cred_ok E v m = true) by (unfold cred_ok; rewrite Hverdict; reflexivity).
  assert (Hcnt : Counted H (m_round m) (m_idx m) (m_type m) k (m_hash m) (m_sender m) (w32 (m_votes m))).
  { left. exists Hp, [], m, thr. subst v. repeat split; try assumption; reflexivity. }
  assert (Hmain :
    (fun z => z = (v', ev, c) -> good H (is_pos (m_type m)) v v' ev)
    (let key := (m_round m, m_idx m) in
          let t := m_type m in
          let ow := get_wrapper (v_ws v) key in
          if negb same && ((match ow with None => true | Some _ => false end) || negb (vt_eqb t V.Precommit))
          then (v, [], ret_ok)
          else
            let ws := match ow with Some _ => v_ws v | None => new_wrapper (v_ws v) key end in
            let w := match get_wrapper ws key with Some w => w | None => wrapper_empty end in
            let '(w1, res, oldh) := w_addr_info w t k (m_sender m) (m_hash m) in
            match res with
            | ANotVoted =>
              let '(w2, add, total) := w_new_vote w1 t k (m_sender m) (m_hash m) (m_votes m) in
              let v1 := set_ws v (set_wrapper ws key w2) in
              if negb add then (v1, [], ret_ok)
              else if same then
                let '(v2, e2) := judge E v1 t total thr (m_hash m) (m_prio m) k in (v2, e2, ret_ok)
              else if over_threshold total thr false then
                (v1, [EUpdate (m_round m) (m_idx m) (m_hash m)
                              (w_votes w2 V.Precommit Chamber (m_hash m))
                              (w_votes w2 V.Precommit House (m_hash m))], ret_ok)
              else (v1, [], ret_ok)
            | ADifferent =>
              let v0 := set_ws v (set_wrapper ws key w1) in
              let v1 :=
                match oldh with
                | Some h0 =>
                  if fix_latch E && negb (vt_eqb t V.NextIndex) && key_eqb key (cur_key v)
                     && negb (over_threshold (match wsta w1 k t with Some s => cnt s h0 | None => 0 end)
                                             thr (negb (vt_eqb t V.Certificate)))
                  then set_over v0 ((h0, vst_clear (over_get v0 h0) t k) :: v_over v0)
                  else v0
                | None => v0
                end in
              match oldh with
              | Some h0 =>
                if negb (vt_eqb t V.NextIndex) && evid_on E
                then (v1, [EEvidence (m_round m) (m_idx m) t h0 (m_hash m)], ret_ok)
                else (v1, [], ret_ok)
              | None => (v1, [], ret_ok)
              end
            | _ => (set_ws v (set_wrapper ws key w1), [], ret_ok)
            end)).
  { cbv zeta.
    set (key := (m_round m, m_idx m)).
    destruct (negb same && ((match get_wrapper (v_ws v) key with None => true | Some _ => false end)
                            || negb (vt_eqb (m_type m) V.Precommit))) eqn:Hold.
    { intros Hz; inversion Hz; subst v' ev. apply good_nil. exact Hi. }
    set (ws := match get_wrapper (v_ws v) key with Some _ => v_ws v | None => new_wrapper (v_ws v) key end).
    assert (Hws : forall k' w', In (k', w') ws -> wrapper_ok H k' w').
    { destruct Hi as (I1 & _). subst ws. destruct (get_wrapper (v_ws v) key); [exact I1|].
      apply new_wrapper_ok. exact I1. }
    assert (Hgw : exists w, get_wrapper ws key = Some w).
    { subst ws. destruct (get_wrapper (v_ws v) key) as [w|] eqn:Hg; [exists w; exact Hg|].
      apply get_new_wrapper. }
    destruct Hgw as (w & Hgw). rewrite Hgw.
    assert (Hw : wrapper_ok H key w) by (apply Hws; apply get_wrapper_in; exact Hgw).
    destruct (w_addr_info w (m_type m) k (m_sender m) (m_hash m)) as [[w1 res] oldh] eqn:Hai.
    pose proof (wrapper_ok_addr_info H key _ _ _ _ _ _ _ _ Hw Hai) as Hw1.
    assert (Hset : forall wx, wrapper_ok H key wx -> Inv H (set_ws v (set_wrapper ws key wx))).
    { intros wx Hwx. apply Inv_set_ws; [exact Hi|]. apply set_wrapper_ok; assumption. }
    assert (Hplain : forall wx evs, wrapper_ok H key wx ->
               Forall (EvOK H (is_pos (m_type m)) v) evs ->
               good H (is_pos (m_type m)) v (set_ws v (set_wrapper ws key wx)) evs).
    { intros wx evs Hwx Hev. split; [apply Hset; exact Hwx|]. split; [repeat split|exact Hev]. }
    destruct res.
    - intros Hz; inversion Hz; subst v' ev. apply Hplain; [exact Hw1|constructor].
    - destruct (w_new_vote w1 (m_type m) k (m_sender m) (m_hash m) (m_votes m)) as [[w2 add] total] eqn:Hnv.
      destruct (wrapper_ok_new_vote H key _ _ _ _ _ _ _ _ _ Hw1 Hcnt Hnv) as (Hw2 & Hc2).
      destruct add; cbn [negb].
      2:{ intros Hz; inversion Hz; subst v' ev. apply Hplain; [exact Hw2|constructor]. }
      destruct same eqn:Hsame.
      + set (v1 := set_ws v (set_wrapper ws key w2)).
        destruct (judge E v1 (m_type m) total thr (m_hash m) (m_prio m) k) as [v2 e2] eqn:Hj.
        intros Hz; inversion Hz; subst v' ev.
        cbn [andb] in Hctx. apply orb_false_iff in Hctx. destruct Hctx as (Hcr & Hci).
        assert (Hkey : cur_key v1 = key).
        { unfold cur_key, key. change (round_of v1) with (round_of v). change (v_idx v1) with (v_idx v).
          f_equal; lia. }
        assert (Hp1 : JPre H v1 (m_type m) total thr (m_hash m) k).
        { intros ->. split.
          - left. exists m. unfold H. split; [apply in_or_app; right; left; reflexivity|].
            change (round_of v1) with (round_of v). change (v_idx v1) with (v_idx v).
            split; [lia|]. split; [lia|]. split; [reflexivity|exact Hstake].
          - unfold cur_w. rewrite Hkey. cbn [v1 set_ws v_ws].
            rewrite (get_set_wrapper _ _ w2 _ Hgw). apply Hc2. reflexivity. }
        pose proof (judge_spec H v1 (m_type m) total thr (m_hash m) (m_prio m) k v2 e2
                               (Hset w2 Hw2) Hp1 Hj) as G.
        eapply good_pre; [|exact G]. apply Hplain; [exact Hw2|constructor].
      + destruct (over_threshold total thr false); intros Hz; inversion Hz; subst v' ev;
          (apply Hplain; [exact Hw2|]); [constructor; [exact I|constructor] | constructor].
    - intros Hz; inversion Hz; subst v' ev. apply Hplain; [exact Hw1|constructor].
    - destruct oldh as [h0|].
      + set (v0 := set_ws v (set_wrapper ws key w1)).
        assert (Hclr : forall evs, Forall (EvOK H (is_pos (m_type m)) v) evs ->
                  good H (is_pos (m_type m)) v
                       (set_over v0 ((h0, vst_clear (over_get v0 h0) (m_type m) k) :: v_over v0)) evs).
        { intros evs Hev. destruct (Hset w1 Hw1) as (J1 & J2). split; [|split; [repeat split|exact Hev]].
          split; [exact J1|]. intros h' t' Hs. rewrite over_get_set_over in Hs.
          change (round_of (set_over v0 _)) with (round_of v0). change (v_idx (set_over v0 _)) with (v_idx v0).
          destruct (h0 =? h') eqn:Eh; [|apply J2; exact Hs].
          assert (h' = h0) by lia. subst h'. apply vst_status_clear in Hs. apply J2. exact Hs. }
        destruct (fix_latch E && negb (vt_eqb (m_type m) V.NextIndex) && key_eqb key (cur_key v)
                  && negb (over_threshold (match wsta w1 k (m_type m) with Some s => cnt s h0 | None => 0 end)
                                          thr (negb (vt_eqb (m_type m) V.Certificate))));
          destruct (negb (vt_eqb (m_type m) V.NextIndex) && evid_on E); intros Hz; inversion Hz; subst v' ev;
          first [ apply Hclr | apply Hplain; [exact Hw1|] ]; first [constructor; [exact I|constructor] | constructor].
      + intros Hz; inversion Hz; subst v' ev. apply Hplain; [exact Hw1|constructor].
    - intros Hz; inversion Hz; subst v' ev. apply Hplain; [exact Hw1|constructor]. }
  destruct (m_status m) eqn:Hst; try (apply Hmain; exact Hx);
    inversion Hx; subst v' ev; apply good_nil; exact Hi.
Qed.

(* ---- one step, and all histories ----------------------------------------------------------------- *)
Definition strict_of (o : op) : bool :=
  match o with Msg m => is_pos (m_type m) | _ => true end.

Lemma step_spec Hp v o v' ev c :
  v = run_state E Hp -> Inv Hp v -> step E v o = (v', ev, c) ->
  Inv (Hp ++ [o]) v' /\ Forall (EvOK (Hp ++ [o]) (strict_of o) v') ev.
Proof.
  intros Hv Hi Hx. apply (Inv_mono Hp [o]) in Hi. destruct o as [r i s cert maxp|m|h b|r i|]; cbn in Hx.
  - destruct (update_context E v r i s cert maxp) as [v1 e1] eqn:Hu. inversion Hx; subst v' ev.
    eapply update_context_spec; eassumption.
  - destruct (process_spec Hp v m v' ev c Hv Hi Hx) as (A & B & C). split; [exact A|].
    eapply Forall_impl; [|exact C]. intros e. apply EvOK_frame_rev. exact B.
  - destruct b; inversion Hx; subst v' ev; (split; [eapply Inv_same; try exact Hi; reflexivity|constructor]).
  - inversion Hx; subst v' ev. split; [eapply Inv_same; try exact Hi; reflexivity|constructor].
  - inversion Hx; subst v' ev. split; [|constructor]. split.
    + intros key w [].
    + intros h t Hs. cbn in Hs. discriminate Hs.
Qed.

Lemma run_state_snoc Hp o : run_state E (Hp ++ [o]) = fst (fst (step E (run_state E Hp) o)).
Proof. unfold run_state. rewrite fold_left_app. reflexivity. Qed.

Theorem Inv_all : forall ops, Inv ops (run_state E ops).
Proof.
  intros ops. induction ops as [|o Hp IH] using rev_ind.
  - apply Inv_init.
  - rewrite run_state_snoc.
    destruct (step E (run_state E Hp) o) as [[v' ev] c] eqn:Hs.
    exact (proj1 (step_spec Hp _ o v' ev c eq_refl IH Hs)).
Qed.

Theorem events_ok : forall Hp o v' ev c,
  step E (run_state E Hp) o = (v', ev, c) ->
  Forall (EvOK (Hp ++ [o]) (strict_of o) v') ev.
Proof.
  intros Hp o v' ev c Hs. exact (proj2 (step_spec Hp _ o v' ev c eq_refl (Inv_all Hp) Hs)).
Qed.

End WithEnv.
