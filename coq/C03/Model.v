(* C03 - executable model of vote counting and escalation in consensus/ucon:
     votes_mgr.go : VoteSta (newVote, addrVoteInfo, getVotesInfo), VotesManager,
                    VotesWrapper, VotesWrapperList (GetWrapper, NewWrapper)
     voter.go     : updateContext, judgeVoteCount, vote, setMarkedBlock, commit,
                    processVoteMsg, OverThreshold, VoteStatus
     sortition_verifier.go : Server.verifySortition (its decision, [server_verify])
     consensus.go : verifyVotes, secp256k1 path ([verify_votes])
   The vote database that gates every outgoing vote (vote_cache.go) is the
   model of property C02 ([V.update_vote_data] ...).
   No proofs in this file.

   Conventions.  Block hashes, priorities and addresses are numbers (N); hash 0
   is common.Hash{} (CompareCommonHash(h, empty) > 0  <->  h <> 0).  Rounds are
   uint64 and round indexes uint32 values held in N.  Counts are uint32 and wrap
   ([w32]).  Signature recovery, the stake look-up (getStakeFn), the credential
   check (verifySortitionFn), isValidatorFn, getMaxPriorityFn, blockInCacheFn and
   the parameter manager are oracles: their answers are fields of the op that
   triggers the call, or of [env] / the environment part of the state.  The
   credential check is the table [creds] of the environment applied to the
   message's credential (sender, round, index, type, proof) and compared with the
   seat count the message claims: the weight that gets recorded is the verifier's
   output for the credential, never an input taken on trust.

   Pointer structure.  v.votesMgr always aliases
   votesWrappers.GetWrapper(v.round, v.roundIndex) (it is assigned from it in
   updateContext and in processVoteMsg's wrapper==nil branch, and NewWrapper
   only re-uses the evicted object after re-keying it), so the model looks the
   current wrapper up by key.  VotesManager.round/roundIndex always equal the
   key of the wrapper in the list (set only by clearVotesInfo from NewWrapper),
   so the round/index guards inside VotesManager.newVote/addrVoteInfo are the
   key look-up.  Go mutexes: one op = one critical section of Voter.lock.
   Events are values: ECommit / EUpdate carry the vote sets as lists fixed when the
   event is posted.  That the Go events (which Server.commit packs later, on
   another goroutine) do not alias the voter's live maps - getVotesInfo copies -
   cannot be expressed here; the harness checks it on the implementation by
   keeping every posted event by reference and re-examining it after later ops. *)
From Coq Require Export List NArith Bool.
From VF.C02 Require Model.
Export ListNotations.
Open Scope N_scope.

Module V := VF.C02.Model.
Notation vtype := V.kind.            (* Prevote | Precommit | NextIndex | Certificate *)
Notation vt_eqb := V.kind_eqb.

Inductive vkind := Chamber | House | KOther.   (* params.KindChamber / KindHouse / anything else *)
Definition vk_eqb (a b : vkind) : bool :=
  match a, b with Chamber, Chamber | House, House | KOther, KOther => true | _, _ => false end.

Inductive status := OldRound | OldIdx | Same | Future | Invalid.   (* MsgReceivedStatus *)

Definition two32 : N := 4294967296.
Definition w32 (x : N) : N := x mod two32.

(* ---- OverThreshold ------------------------------------------------------ *)
(* uint32(float64(threshold) * th): exact IEEE-754 binary64 arithmetic.
   [rne53 x] rounds a positive integer to 53 significant bits, ties to even,
   and returns (mantissa, dropped bits). *)
Definition rne53 (x : N) : N * N :=
  let bits := N.size x in
  if bits <=? 53 then (x, 0)
  else
    let sh := bits - 53 in
    let q := N.shiftr x sh in
    let rem := x - N.shiftl q sh in
    let half := N.shiftl 1 (sh - 1) in
    let q' := if (half <? rem) || ((rem =? half) && N.odd q) then q + 1 else q in
    (q', sh).

(* the two proportions as binary64: mantissa * 2^-53 *)
Definition m685 : N := 6169931489497580.   (* 0.685 *)
Definition m585 : N := 5269211564023480.   (* 0.585 *)

(* floor(float64(t) * (m * 2^-53)), then the amd64 conversion to uint32 *)
Definition fmul_floor (t m : N) : N :=
  let '(tm, tsh) := rne53 t in           (* float64(t) = tm * 2^tsh *)
  let '(q, sh) := rne53 (tm * m) in      (* product = q * 2^(sh + tsh - 53) *)
  let e := sh + tsh in
  if 53 <=? e then N.shiftl q (e - 53) else N.shiftr q (53 - e).

Definition quorum (is_pos : bool) (threshold : N) : N :=
  w32 (fmul_floor threshold (if is_pos then m685 else m585)).

Definition over_threshold (count threshold : N) (is_pos : bool) : bool :=
  quorum is_pos threshold <=? count.

(* ---- association lists keyed by N (newest binding first) ----------------- *)
Fixpoint aget {A} (l : list (N * A)) (k : N) : option A :=
  match l with
  | [] => None
  | (k', v) :: r => if k' =? k then Some v else aget r k
  end.

(* ---- VoteSta -------------------------------------------------------------- *)
Record entry := mkE { e_hash : N; e_addr : N; e_votes : N }.   (* votesInfo[hash][addr] = vote *)
Record astat := mkAS { as_hash : N; as_dv : bool }.            (* AddrVoteStatus *)
Record votesta := mkVS {
  vs_info   : list entry;          (* votesInfo *)
  vs_counts : list (N * N);        (* voteCounts *)
  vs_addrs  : list (N * astat)     (* addressVotes *)
}.
Definition sta_empty : votesta := mkVS [] [] [].

Definition cnt (s : votesta) (h : N) : N :=
  match aget (vs_counts s) h with Some c => c | None => 0 end.

Definition is_entry (h a : N) (e : entry) : bool := (e_hash e =? h) && (e_addr e =? a).

(* VoteSta.newVote: (state, add, voteCounts[hash]); vote.Votes is a uint32 *)
Definition sta_new_vote (s : votesta) (a h n0 : N) : votesta * bool * N :=
  match aget (vs_addrs s) a with
  | Some _ => (s, false, cnt s h)
  | None =>
    let n := w32 n0 in
    let c := w32 (cnt s h + n) in
    (mkVS (mkE h a n :: filter (fun e => negb (is_entry h a e)) (vs_info s))
          ((h, c) :: vs_counts s)
          ((a, mkAS h false) :: vs_addrs s), true, c)
  end.

Inductive avt := ANone | ANotVoted | AExist | ADifferent | ADoubleVoted.   (* AddrVoteType *)

(* VoteSta.addrVoteInfo: (state, result, hash recorded for the address) *)
Definition sta_addr_info (s : votesta) (is_next : bool) (a h : N) : votesta * avt * option N :=
  match aget (vs_addrs s) a with
  | None => (s, ANotVoted, None)
  | Some st =>
    if as_dv st then (s, ADoubleVoted, Some (as_hash st))
    else if (as_hash st =? h) || is_next then (s, AExist, Some (as_hash st))
    else
      let h0 := as_hash st in
      let addrs' := (a, mkAS h0 true) :: vs_addrs s in
      match find (is_entry h0 a) (vs_info s) with
      | Some e =>
        (mkVS (filter (fun e => negb (is_entry h0 a e)) (vs_info s))
              ((h0, w32 (cnt s h0 + two32 - e_votes e)) :: vs_counts s)
              addrs', ADifferent, Some h0)
      | None => (mkVS (vs_info s) (vs_counts s) addrs', ADifferent, Some h0)
      end
  end.

(* VoteSta.getVotesInfo: the (address, seats) pairs recorded for a hash *)
Definition sta_votes (s : votesta) (h : N) : list (N * N) :=
  map (fun e => (e_addr e, e_votes e)) (filter (fun e => e_hash e =? h) (vs_info s)).

(* ---- VotesManager / VotesWrapper ---------------------------------------- *)
Record manager := mkM { m_pv : votesta; m_pc : votesta; m_nx : votesta; m_ce : votesta }.
Definition mgr_empty : manager := mkM sta_empty sta_empty sta_empty sta_empty.

Definition mget (m : manager) (t : vtype) : votesta :=
  match t with V.Prevote => m_pv m | V.Precommit => m_pc m | V.NextIndex => m_nx m | V.Certificate => m_ce m end.
Definition mset (m : manager) (t : vtype) (s : votesta) : manager :=
  match t with
  | V.Prevote => mkM s (m_pc m) (m_nx m) (m_ce m)
  | V.Precommit => mkM (m_pv m) s (m_nx m) (m_ce m)
  | V.NextIndex => mkM (m_pv m) (m_pc m) s (m_ce m)
  | V.Certificate => mkM (m_pv m) (m_pc m) (m_nx m) s
  end.

Record wrapper := mkW { w_chamber : manager; w_house : manager }.
Definition wrapper_empty : wrapper := mkW mgr_empty mgr_empty.

Definition wsta (w : wrapper) (k : vkind) (t : vtype) : option votesta :=
  match k with Chamber => Some (mget (w_chamber w) t) | House => Some (mget (w_house w) t) | KOther => None end.
Definition wput (w : wrapper) (k : vkind) (t : vtype) (s : votesta) : wrapper :=
  match k with
  | Chamber => mkW (mset (w_chamber w) t s) (w_house w)
  | House => mkW (w_chamber w) (mset (w_house w) t s)
  | KOther => w
  end.

(* VotesWrapper.newVote *)
Definition w_new_vote (w : wrapper) (t : vtype) (k : vkind) (a h n : N) : wrapper * bool * N :=
  match wsta w k t with
  | None => (w, false, 0)
  | Some s => let '(s', add, c) := sta_new_vote s a h n in (wput w k t s', add, c)
  end.

(* VotesWrapper.addrVoteInfo *)
Definition w_addr_info (w : wrapper) (t : vtype) (k : vkind) (a h : N) : wrapper * avt * option N :=
  match wsta w k t with
  | None => (w, ANone, None)
  | Some s =>
    let '(s', r, old) := sta_addr_info s (vt_eqb t V.NextIndex) a h in (wput w k t s', r, old)
  end.

(* VotesWrapper.getVotes *)
Definition w_votes (w : wrapper) (t : vtype) (k : vkind) (h : N) : list (N * N) :=
  match wsta w k t with None => [] | Some s => sta_votes s h end.

(* ---- VotesWrapperList ------------------------------------------------------ *)
Definition wkey := (N * N)%type.    (* GenerateRoundIndexHash(round, index) *)
Definition key_eqb (a b : wkey) : bool := (fst a =? fst b) && (snd a =? snd b).
Definition wlist := list (wkey * wrapper).   (* contexts[i], wrappers[i] *)
Definition max_vote_cache : nat := 4.        (* params.MaxVoteCacheCount *)

Fixpoint get_wrapper (l : wlist) (k : wkey) : option wrapper :=
  match l with
  | [] => None
  | (k', w) :: r => if key_eqb k' k then Some w else get_wrapper r k
  end.

Fixpoint set_wrapper (l : wlist) (k : wkey) (w : wrapper) : wlist :=
  match l with
  | [] => []
  | (k', w') :: r => if key_eqb k' k then (k', w) :: r else (k', w') :: set_wrapper r k w
  end.

Definition new_wrapper (l : wlist) (k : wkey) : wlist :=
  match get_wrapper l k with
  | Some _ => l
  | None =>
    if Nat.ltb (length l) max_vote_cache then l ++ [(k, wrapper_empty)]
    else tl l ++ [(k, wrapper_empty)]
  end.

(* ---- Voter ------------------------------------------------------------------ *)
Record vstatus := mkVSt { st_chamber : list vtype; st_house : list vtype }.   (* VoteStatus *)
Definition vst_empty : vstatus := mkVSt [] [].
Definition vst_update (s : vstatus) (t : vtype) (k : vkind) : vstatus :=
  match k with
  | Chamber => mkVSt (t :: st_chamber s) (st_house s)
  | House => mkVSt (st_chamber s) (t :: st_house s)
  | KOther => s
  end.
Definition vst_clear (s : vstatus) (t : vtype) (k : vkind) : vstatus :=      (* VoteStatus.clear (repair) *)
  match k with
  | Chamber => mkVSt (filter (fun x => negb (vt_eqb t x)) (st_chamber s)) (st_house s)
  | House => mkVSt (st_chamber s) (filter (fun x => negb (vt_eqb t x)) (st_house s))
  | KOther => s
  end.
Definition vst_status (s : vstatus) (t : vtype) (k : vkind) : bool :=
  match k with
  | Chamber => existsb (vt_eqb t) (st_chamber s)
  | House => existsb (vt_eqb t) (st_house s)
  | KOther => false
  end.

Definition marked := (N * N)%type.   (* MarkedBlockInfo: (BlockHash, Priority) *)

Record voter := mkVoter {
  v_round : option N;            (* nil before the first context *)
  v_idx : N;
  v_step : N;
  v_cert : bool;                 (* shouldCert *)
  v_precommitted : bool;
  v_committed : bool;
  v_sent : bool;                 (* sentChangeEvent *)
  v_certificated : bool;
  v_next_marked : option marked;
  v_cur_marked : option marked;
  v_next_voted : option marked;
  v_over : list (N * vstatus);   (* voteOver *)
  v_ws : wlist;                  (* votesWrappers *)
  v_upd : option (N * N * N);    (* votesUpdateEv: round, index, hash *)
  v_db : V.vdb;                  (* voteCache *)
  (* environment *)
  v_cache : list N;              (* hashes for which blockInCacheFn returns a block *)
  v_srv : N * N                  (* the server's (currentRound, roundIndex) *)
}.

Definition init_voter : voter :=
  mkVoter None 0 0 false false false false false None None None [] [] None V.init [] (0, 0).

(* static part of the environment *)
Record env := mkEnv {
  self : N;                                       (* v.addr *)
  own : list (N * N * vtype * (N * N * vkind));   (* isValidatorFn: (round, index, type) -> SubUsers, Threshold, ValidatorType *)
  certp_ok : bool;                                (* paramsMgr.CertificateParams succeeds *)
  evid_on : bool;                                 (* CurrentYouParams: Version >= YouV5 && EnableBls *)
  (* which of two listed repairs the tree under test contains; the harness reads
     both off the implementation by replaying the two witnesses before it
     generates anything (fixes/C03_*.md) *)
  fix_latch : bool;   (* processVoteMsg clears a latched quorum that a double voter's removal broke *)
  fix_stale : bool;   (* verifySortition no longer reports a stale invalid credential as verified *)
  (* the sortition verifier *)
  srv_rule : bool;    (* verifySortitionFn is Server.verifySortition (its rule for stale messages applies) *)
  creds : list (N * N * N * vtype * N)
      (* VrfVerifySortition as a table: (sender, round, index, type) -> the seat count the
         sender's own sortition proof for that step yields (absent = no seat) *)
}.

Fixpoint own_view (l : list (N * N * vtype * (N * N * vkind))) (r i : N) (t : vtype) : option (N * N * vkind) :=
  match l with
  | [] => None
  | (r', i', t', x) :: rest =>
    if (r' =? r) && (i' =? i) && vt_eqb t' t then Some x else own_view rest r i t
  end.

Inductive event :=
| ESend (t : vtype) (r i h p n : N)                       (* SendMessageEvent: type, round, index, block, priority, seats *)
| ECommit (r i h : N) (cp hp cc : list (N * N))           (* CommitEvent: chamber/house precommits, chamber certs *)
| EChange (r i h p : N)                                   (* RoundIndexChangeEvent *)
| EUpdate (r i h : N) (cp hp : list (N * N))              (* UpdateExistedHeaderEvent *)
| EEvidence (r i : N) (t : vtype) (h1 h2 : N).            (* staking.Evidence (double sign) *)

Definition round_of (v : voter) : N := match v_round v with Some r => r | None => 0 end.
Definition cur_key (v : voter) : wkey := (round_of v, v_idx v).
Definition in_cache (v : voter) (h : N) : bool := existsb (N.eqb h) (v_cache v).
Definition over_get (v : voter) (h : N) : vstatus :=
  match aget (v_over v) h with Some s => s | None => vst_empty end.

Definition set_ws (v : voter) (ws : wlist) : voter :=
  mkVoter (v_round v) (v_idx v) (v_step v) (v_cert v) (v_precommitted v) (v_committed v) (v_sent v)
          (v_certificated v) (v_next_marked v) (v_cur_marked v) (v_next_voted v) (v_over v) ws (v_upd v)
          (v_db v) (v_cache v) (v_srv v).
Definition set_db (v : voter) (d : V.vdb) : voter :=
  mkVoter (v_round v) (v_idx v) (v_step v) (v_cert v) (v_precommitted v) (v_committed v) (v_sent v)
          (v_certificated v) (v_next_marked v) (v_cur_marked v) (v_next_voted v) (v_over v) (v_ws v) (v_upd v)
          d (v_cache v) (v_srv v).
Definition set_over (v : voter) (o : list (N * vstatus)) : voter :=
  mkVoter (v_round v) (v_idx v) (v_step v) (v_cert v) (v_precommitted v) (v_committed v) (v_sent v)
          (v_certificated v) (v_next_marked v) (v_cur_marked v) (v_next_voted v) o (v_ws v) (v_upd v)
          (v_db v) (v_cache v) (v_srv v).
Definition set_precommitted (v : voter) (b : bool) : voter :=
  mkVoter (v_round v) (v_idx v) (v_step v) (v_cert v) b (v_committed v) (v_sent v)
          (v_certificated v) (v_next_marked v) (v_cur_marked v) (v_next_voted v) (v_over v) (v_ws v) (v_upd v)
          (v_db v) (v_cache v) (v_srv v).
Definition set_committed (v : voter) (b : bool) : voter :=
  mkVoter (v_round v) (v_idx v) (v_step v) (v_cert v) (v_precommitted v) b (v_sent v)
          (v_certificated v) (v_next_marked v) (v_cur_marked v) (v_next_voted v) (v_over v) (v_ws v) (v_upd v)
          (v_db v) (v_cache v) (v_srv v).
Definition set_sent (v : voter) (b : bool) : voter :=
  mkVoter (v_round v) (v_idx v) (v_step v) (v_cert v) (v_precommitted v) (v_committed v) b
          (v_certificated v) (v_next_marked v) (v_cur_marked v) (v_next_voted v) (v_over v) (v_ws v) (v_upd v)
          (v_db v) (v_cache v) (v_srv v).
Definition set_certificated (v : voter) (b : bool) : voter :=
  mkVoter (v_round v) (v_idx v) (v_step v) (v_cert v) (v_precommitted v) (v_committed v) (v_sent v)
          b (v_next_marked v) (v_cur_marked v) (v_next_voted v) (v_over v) (v_ws v) (v_upd v)
          (v_db v) (v_cache v) (v_srv v).
Definition set_next_marked (v : voter) (m : option marked) : voter :=
  mkVoter (v_round v) (v_idx v) (v_step v) (v_cert v) (v_precommitted v) (v_committed v) (v_sent v)
          (v_certificated v) m (v_cur_marked v) (v_next_voted v) (v_over v) (v_ws v) (v_upd v)
          (v_db v) (v_cache v) (v_srv v).
Definition set_next_voted (v : voter) (m : option marked) : voter :=
  mkVoter (v_round v) (v_idx v) (v_step v) (v_cert v) (v_precommitted v) (v_committed v) (v_sent v)
          (v_certificated v) (v_next_marked v) (v_cur_marked v) m (v_over v) (v_ws v) (v_upd v)
          (v_db v) (v_cache v) (v_srv v).
Definition set_upd (v : voter) (u : option (N * N * N)) : voter :=
  mkVoter (v_round v) (v_idx v) (v_step v) (v_cert v) (v_precommitted v) (v_committed v) (v_sent v)
          (v_certificated v) (v_next_marked v) (v_cur_marked v) (v_next_voted v) (v_over v) (v_ws v) u
          (v_db v) (v_cache v) (v_srv v).

(* the signatures of the two mutually recursive Go methods, seen as values *)
Definition vote_fn := voter -> vtype -> N -> N -> voter * list event * bool.          (* (state, events, err == nil) *)
Definition marked_fn := voter -> N -> N -> voter * list event.

(* Voter.commit *)
Definition commit (v : voter) (h p : N) : voter * list event :=
  if negb (in_cache v h) then (v, [])
  else
    let w := match get_wrapper (v_ws v) (cur_key v) with Some w => w | None => wrapper_empty end in
    let cc := if v_cert v then w_votes w V.Certificate Chamber h else [] in
    (set_committed v true,
     [ECommit (round_of v) (v_idx v) h (w_votes w V.Precommit Chamber h) (w_votes w V.Precommit House h) cc]).

(* Voter.judgeVoteCount, with the vote and setMarkedBlock it calls passed in *)
Definition judge_gen (VT : vote_fn) (SM : marked_fn)
           (v : voter) (t : vtype) (count threshold h p : N) (k : vkind) : voter * list event :=
  let r := over_threshold count threshold (negb (vt_eqb t V.Certificate)) in
  if negb r || (v_committed v && negb (vt_eqb t V.Precommit)) then (v, [])
  else if v_committed v && vt_eqb t V.Precommit then
    (set_upd v (Some (round_of v, v_idx v, h)), [])
  else
    let v0 := set_over v ((h, vst_update (over_get v h) t k) :: v_over v) in
    if negb (vk_eqb k Chamber) then (v0, [])
    else
      match t with
      | V.Prevote =>
        if negb (v_precommitted v0) then
          let '(v1, e1, ok) := VT v0 V.Precommit h p in
          let v2 := if ok then set_precommitted v1 true else v1 in
          let '(v3, e3) := SM v2 h p in
          (v3, e1 ++ e3)
        else (v0, [])
      | V.Precommit =>
        if negb (v_cert v0) then
          let '(v1, e1) := commit v0 h p in
          let '(v2, e2) := SM v1 h p in (v2, e1 ++ e2)
        else if negb (v_certificated v0) then
          let '(v1, e1, ok) := VT v0 V.Certificate h p in
          ((if ok then set_certificated v1 true else v1), e1)
        else if vst_status (over_get v0 h) V.Certificate Chamber then
          let '(v1, e1) := commit v0 h p in
          let '(v2, e2) := SM v1 h p in (v2, e1 ++ e2)
        else (v0, [])
      | V.Certificate =>
        if vst_status (over_get v0 h) V.Precommit Chamber then
          let '(v1, e1) := commit v0 h p in
          let '(v2, e2) := SM v1 h p in (v2, e1 ++ e2)
        else (v0, [])
      | V.NextIndex =>
        if v_sent v0 then (v0, [])
        else (set_sent v0 true, [EChange (round_of v0) (v_idx v0) h p])
      end.

(* Voter.vote (signVote inlined: it fails only when CertificateParams fails) *)
Definition vote_gen (E : env) (J : voter -> vtype -> N -> N -> N -> N -> vkind -> voter * list event)
           (v : voter) (t : vtype) (h p : N) : voter * list event * bool :=
  match own_view (own E) (round_of v) (v_idx v) t with
  | None => (v, [], false)                                    (* not a validator *)
  | Some (seats, threshold, k) =>
    let pos := V.enc (round_of v) (v_idx v) in
    if vt_eqb t V.NextIndex && (match v_next_voted v with Some _ => true | None => false end)
       && V.already_voted (v_db v) V.NextIndex pos
    then (v, [], false)                                       (* already voted *)
    else if vt_eqb t V.Certificate && negb (certp_ok E) then (v, [], false)
    else
      let '(d, ok) := V.update_vote_data (v_db v) t pos in
      if negb ok then (v, [], false)
      else
        let v1 := set_db v d in
        let '(v2, count) :=
          match get_wrapper (v_ws v1) (cur_key v1) with
          | None => (v1, 0)
          | Some w =>
            let '(w', _, c) := w_new_vote w t k (self E) h seats in
            (set_ws v1 (set_wrapper (v_ws v1) (cur_key v1) w'), c)
          end in
        let '(v3, e3) := J v2 t count threshold h p k in
        (v3, ESend t (round_of v) (v_idx v) h p seats :: e3, true)
  end.

(* Voter.setMarkedBlock *)
Definition set_marked_gen (VT : vote_fn) (v : voter) (h p : N) : voter * list event :=
  if (match v_next_voted v with
      | Some (nh, _) => negb (nh =? 0) || (nh =? h) || (h =? 0)
      | None => false end)
  then (v, [])
  else if negb (in_cache v h) && negb (h =? 0) then (v, [])
  else if v_step v <? 4 then
    ((if (match v_next_marked v with None => true | Some _ => false end) && negb (h =? 0)
      then set_next_marked v (Some (h, p)) else v), [])
  else
    let '(v1, e1, ok) := VT v V.NextIndex h p in
    ((if ok then v1 else set_next_voted v1 (Some (h, p))), e1).

(* The call graph  vote(Prevote) -> judge -> vote(Precommit) -> judge ->
   vote(Certificate) -> judge -> setMarkedBlock -> vote(NextIndex) -> judge
   is acyclic, so the recursion is unfolded in four layers. *)
Definition vote_none : vote_fn := fun v _ _ _ => (v, [], false).
Definition marked_none : marked_fn := fun v _ _ => (v, []).

Definition vote0 (E : env) : vote_fn := vote_gen E (judge_gen vote_none marked_none).   (* NextIndex *)
Definition set_marked (E : env) : marked_fn := set_marked_gen (vote0 E).
Definition vote1 (E : env) : vote_fn := vote_gen E (judge_gen (vote0 E) (set_marked E)). (* Certificate, NextIndex *)
Definition vote2 (E : env) : vote_fn := vote_gen E (judge_gen (vote1 E) (set_marked E)). (* + Precommit *)
Definition judge (E : env) := judge_gen (vote2 E) (set_marked E).
Definition vote (E : env) : vote_fn := vote_gen E (judge E).                              (* all four *)

(* Voter.updateContext *)
Definition update_context (E : env) (v : voter) (r i step : N) (cert : bool) (maxp : option (N * N))
  : voter * list event :=
  let changed := match v_round v with
                 | None => true
                 | Some r0 => negb (r0 =? r) || negb (v_idx v =? i) end in
  let '(va, ea) :=
    if changed then
      let eu := match v_upd v with
                | Some (ur, ui, uh) =>
                  match get_wrapper (v_ws v) (ur, ui) with
                  | Some w => [EUpdate ur ui uh (w_votes w V.Precommit Chamber uh) (w_votes w V.Precommit House uh)]
                  | None => []
                  end
                | None => []
                end in
      (mkVoter (v_round v) (v_idx v) (v_step v) (v_cert v) false false false false
               None (if i =? 1 then None else v_next_voted v) None []
               (new_wrapper (v_ws v) (r, i)) None (v_db v) (v_cache v) (v_srv v), eu)
    else (v, []) in
  let vb := mkVoter (Some r) i step cert (v_precommitted va) (v_committed va) (v_sent va) (v_certificated va)
                    (v_next_marked va) (v_cur_marked va) (v_next_voted va) (v_over va) (v_ws va) (v_upd va)
                    (V.update_context (v_db va) (V.enc r i)) (v_cache va) (v_srv va) in
  if step =? 2 then
    match (match v_cur_marked vb with
           | Some (h, p) => if negb (h =? 0) then Some (h, p) else None
           | None => None end) with
    | Some (h, p) => let '(vc, ec, _) := vote E vb V.Prevote h p in (vc, ea ++ ec)
    | None =>
      match maxp with
      | None => (vb, ea)
      | Some (p, h) => let '(vc, ec, _) := vote E vb V.Prevote h p in (vc, ea ++ ec)
      end
    end
  else if (step =? 4) || (step =? 5) then
    if v_committed vb || v_sent vb then (vb, ea)
    else
      let '(vc, ec) := match v_next_marked vb with
                       | None => set_marked E vb 0 0
                       | Some (h, p) => set_marked E vb h p
                       end in
      (vc, ea ++ ec)
  else (vb, ea).

(* Server.verifySortition: the VRF verdict is overridden for "old" messages *)
Definition server_verify (vrf_ok : bool) (mr mi : N) (srv : N * N) : bool :=
  vrf_ok || (mr <? fst srv) || (mi <? snd srv).

Record msg := mkMsg {
  m_status : status;
  m_type : vtype;
  m_round : N; m_idx : N;
  m_hash : N; m_prio : N;
  m_sender : N;            (* address recovered from the vote's signature over (hash, round, index) *)
  m_sig : bool;            (* the signature recovers and the address equals the message's sender *)
  m_votes : N;             (* Vote.Votes *)
  m_novote : bool;         (* msg.Vote == nil *)
  m_stake : option (N * vkind);   (* getStakeFn: threshold, kind; None = error *)
  m_proof : N              (* Vote.Proof: 1 = the sender's sortition proof for (round, index, type);
                              anything else (garbage, a proof for another step) does not verify *)
}.

(* the weight the sortition verifier computes from the message's credential
   (key, round, index, step, proof) - not the weight the message claims *)
Fixpoint cred_lookup (l : list (N * N * N * vtype * N)) (a r i : N) (t : vtype) : option N :=
  match l with
  | [] => None
  | (a', r', i', t', w) :: rest =>
    if (a' =? a) && (r' =? r) && (i' =? i) && vt_eqb t' t then Some w else cred_lookup rest a r i t
  end.

Definition cred_weight (E : env) (m : msg) : option N :=
  if m_proof m =? 1 then cred_lookup (creds E) (m_sender m) (m_round m) (m_idx m) (m_type m) else None.

(* VrfVerifySortition: the proof verifies, wins at least one seat, and the
   claimed seat count is exactly the computed one *)
Definition cred_valid (E : env) (m : msg) : bool :=
  match cred_weight E m with
  | Some w => (0 <? w) && (w =? m_votes m)
  | None => false
  end.

(* the voter's view of verifySortitionFn's answer: accepted, rejected (the
   sender is reported invalid), or - only with the repair - dropped silently *)
Inductive cverdict := CvOk | CvBad | CvDrop.

Definition cred_verdict (E : env) (v : voter) (m : msg) : cverdict :=
  if cred_valid E m then CvOk
  else if srv_rule E && server_verify false (m_round m) (m_idx m) (v_srv v)
       then (if fix_stale E then CvDrop else CvOk)
       else CvBad.

Definition cred_ok (E : env) (v : voter) (m : msg) : bool :=
  match cred_verdict E v m with CvOk => true | _ => false end.

(* return value of processVoteMsg: 0 = (nil, false), 1 = (err, true) *)
Definition ret_ok : N := 0.
Definition ret_bad : N := 1.

(* Voter.processVoteMsg *)
Definition process (E : env) (v : voter) (m : msg) : voter * list event * N :=
  let same := match m_status m with Same => true | _ => false end in
  if same && m_novote m then (v, [], ret_bad)
  else if same && (negb (m_round m =? round_of v) || negb (m_idx m =? v_idx v)) then (v, [], ret_ok)
  else if vt_eqb (m_type m) V.Certificate && negb (certp_ok E) then (v, [], ret_bad)
  else if negb (m_sig m) then (v, [], ret_bad)
  else
    match m_stake m with
    | None => (v, [], ret_bad)
    | Some (threshold, k) =>
      match cred_verdict E v m with
      | CvBad => (v, [], ret_bad)
      | CvDrop => (v, [], ret_ok)
      | CvOk =>
        match m_status m with
        | Future | Invalid => (v, [], ret_ok)
        | _ =>
          let key := (m_round m, m_idx m) in
          let t := m_type m in
          let ow := get_wrapper (v_ws v) key in
          if negb same && ((match ow with None => true | Some _ => false end) || negb (vt_eqb t V.Precommit))
          then (v, [], ret_ok)                 (* msgOldRound / msgOldRoundIndex *)
          else
            let ws := match ow with Some _ => v_ws v | None => new_wrapper (v_ws v) key end in
            let w := match get_wrapper ws key with Some w => w | None => wrapper_empty end in
            let '(w1, res, oldh) := w_addr_info w t k (m_sender m) (m_hash m) in
            match res with
            | ANotVoted =>
              let '(w2, add, total) := w_new_vote w1 t k (m_sender m) (m_hash m) (m_votes m) in
              let v1 := set_ws v (set_wrapper ws key w2) in
              if negb add then (v1, [], ret_ok)
              else if same then
                let '(v2, e2) := judge E v1 t total threshold (m_hash m) (m_prio m) k in (v2, e2, ret_ok)
              else if over_threshold total threshold false then
                (v1, [EUpdate (m_round m) (m_idx m) (m_hash m)
                              (w_votes w2 V.Precommit Chamber (m_hash m))
                              (w_votes w2 V.Precommit House (m_hash m))], ret_ok)
              else (v1, [], ret_ok)
            | ADifferent =>
              let v0 := set_ws v (set_wrapper ws key w1) in
              (* repair: the double voter's weight has just left the block it voted
                 for first; forget a latched quorum that no longer holds *)
              let v1 :=
                match oldh with
                | Some h0 =>
                  if fix_latch E && negb (vt_eqb t V.NextIndex) && key_eqb key (cur_key v)
                     && negb (over_threshold (match wsta w1 k t with Some s => cnt s h0 | None => 0 end)
                                             threshold (negb (vt_eqb t V.Certificate)))
                  then set_over v0 ((h0, vst_clear (over_get v0 h0) t k) :: v_over v0)
                  else v0
                | None => v0
                end in
              match oldh with
              | Some h0 =>
                if negb (vt_eqb t V.NextIndex) && evid_on E
                then (v1, [EEvidence (m_round m) (m_idx m) t h0 (m_hash m)], ret_ok)
                else (v1, [], ret_ok)
              | None => (v1, [], ret_ok)
              end
            | _ => (set_ws v (set_wrapper ws key w1), [], ret_ok)
            end
        end
      end
    end.

(* ---- histories ------------------------------------------------------------ *)
Inductive op :=
| Ctx (r i step : N) (cert : bool) (maxp : option (N * N))   (* ContextChangeEvent + getMaxPriorityFn's answer (priority, hash) *)
| Msg (m : msg)                                              (* a vote message reaches processVoteMsg *)
| Cache (h : N) (present : bool)                             (* a proposed block enters / leaves the proposal cache *)
| Srv (r i : N)                                              (* the server moves to (round, index) *)
| Restart.                                                   (* the process restarts: NewVoter over the same database *)

Definition set_cache (v : voter) (c : list N) : voter :=
  mkVoter (v_round v) (v_idx v) (v_step v) (v_cert v) (v_precommitted v) (v_committed v) (v_sent v)
          (v_certificated v) (v_next_marked v) (v_cur_marked v) (v_next_voted v) (v_over v) (v_ws v) (v_upd v)
          (v_db v) c (v_srv v).
Definition set_srv (v : voter) (s : N * N) : voter :=
  mkVoter (v_round v) (v_idx v) (v_step v) (v_cert v) (v_precommitted v) (v_committed v) (v_sent v)
          (v_certificated v) (v_next_marked v) (v_cur_marked v) (v_next_voted v) (v_over v) (v_ws v) (v_upd v)
          (v_db v) (v_cache v) s.

(* NewVoter: every field of the Voter is re-initialised (round nil, latches
   false, no marked blocks, empty voteOver, a fresh VotesWrapperList, no
   pending header update); the vote database is NewVoteDB over the same store,
   which replays the persisted records.  The block cache and the server's
   context belong to the environment and are left as they are. *)
Definition restart (v : voter) : voter :=
  mkVoter None 0 0 false false false false false None None None [] [] None
          (V.new_votedb (V.st (v_db v))) (v_cache v) (v_srv v).

Definition step (E : env) (v : voter) (o : op) : voter * list event * N :=
  match o with
  | Ctx r i s cert maxp => let '(v', e) := update_context E v r i s cert maxp in (v', e, ret_ok)
  | Msg m => process E v m
  | Cache h true => (set_cache v (h :: v_cache v), [], ret_ok)
  | Cache h false => (set_cache v (filter (fun x => negb (x =? h)) (v_cache v)), [], ret_ok)
  | Srv r i => (set_srv v (r, i), [], ret_ok)
  | Restart => (restart v, [], ret_ok)
  end.

(* the state after a history, and the trace of (op, events) *)
Definition run_state (E : env) (ops : list op) : voter :=
  fold_left (fun v o => fst (fst (step E v o))) ops init_voter.

Fixpoint run_from (E : env) (v : voter) (ops : list op) : list (list event * N) :=
  match ops with
  | [] => []
  | o :: r => let '(v', e, c) := step E v o in (e, c) :: run_from E v' r
  end.

(* ---- the header verifier's vote check (consensus.go verifyVotes, secp256k1 path) ---- *)
(* one packed vote as the verifier sees it: the address its signature over
   (header hash, round, index) recovers to (None = recovery fails), whether that
   address is in the look-back set, the claimed seats and VrfVerifySortition's verdict *)
Record pvote := mkPV { pv_addr : option N; pv_seats : N; pv_sort : bool }.

Fixpoint verify_count (seen : list N) (l : list pvote) : N :=
  match l with
  | [] => 0
  | x :: r =>
    match pv_addr x with
    | None => verify_count seen r
    | Some a =>
      if existsb (N.eqb a) seen then verify_count seen r
      else if pv_sort x then pv_seats x + verify_count (a :: seen) r
      else verify_count seen r
    end
  end.

Definition verify_votes (l : list pvote) (threshold : N) (is_pos : bool) : bool :=
  over_threshold (w32 (verify_count [] l)) threshold is_pos.

(* ---- correspondence runner -------------------------------------------------- *)
(* latches observed after every op *)
Record latch := mkL {
  l_pre : bool; l_com : bool; l_sent : bool; l_cert : bool;
  l_next_marked : N; l_cur_marked : N; l_next_voted : N   (* block hash + 1, 0 = nil *)
}.
Definition mk_hash (m : option marked) : N := match m with Some (h, _) => h + 1 | None => 0 end.
Definition latch_of (v : voter) : latch :=
  mkL (v_precommitted v) (v_committed v) (v_sent v) (v_certificated v)
      (mk_hash (v_next_marked v)) (mk_hash (v_cur_marked v)) (mk_hash (v_next_voted v)).
Definition latch_eqb (a b : latch) : bool :=
  Bool.eqb (l_pre a) (l_pre b) && Bool.eqb (l_com a) (l_com b) && Bool.eqb (l_sent a) (l_sent b)
  && Bool.eqb (l_cert a) (l_cert b) && (l_next_marked a =? l_next_marked b)
  && (l_cur_marked a =? l_cur_marked b) && (l_next_voted a =? l_next_voted b).

(* what the harness records per op: return code, events (any order; vote sets
   sorted by address), latches, and for Msg ops the count now held for the
   message's (round, index, type, kind, hash) *)
Record obs := mkObs { o_ret : N; o_events : list event; o_latch : latch; o_count : N }.

(* Schedules.  The harness may request a second event (a context change or
   another vote delivery) on another goroutine WHILE the authentication callbacks
   of a vote message run.  Voter.lock serialises updateContext and
   processVoteMsg, and processVoteMsg holds it from its first statement to its
   return (Bridge.v: processVoteMsg_holds_lock, read off voter.go on every run),
   so the second event takes effect after the first has completed: a schedule
   is its linearisation, and every theorem about op lists applies to
   [flatten] of any schedule. *)
Inductive sop :=
| P (o : op)                        (* one event at a time *)
| During (m : msg) (o2 : op).       (* o2 requested during the authentication of Msg m *)

Definition flatten1 (s : sop) : list op :=
  match s with P o => [o] | During m o2 => [Msg m; o2] end.
Definition flatten (l : list sop) : list op := flat_map flatten1 l.

Record case := mkCase { c_env : env; c_ops : list sop; c_obs : list obs }.

Fixpoint insert_pair (x : N * N) (l : list (N * N)) : list (N * N) :=
  match l with
  | [] => [x]
  | y :: r => if fst x <=? fst y then x :: l else y :: insert_pair x r
  end.
Definition sort_pairs (l : list (N * N)) : list (N * N) := fold_right insert_pair [] l.

Fixpoint pairs_eqb (a b : list (N * N)) : bool :=
  match a, b with
  | [], [] => true
  | (x, y) :: a', (x', y') :: b' => (x =? x') && (y =? y') && pairs_eqb a' b'
  | _, _ => false
  end.
Definition set_eqb (a b : list (N * N)) : bool := pairs_eqb (sort_pairs a) (sort_pairs b).

Definition event_eqb (a b : event) : bool :=
  match a, b with
  | ESend t r i h p n, ESend t' r' i' h' p' n' =>
    vt_eqb t t' && (r =? r') && (i =? i') && (h =? h') && (p =? p') && (n =? n')
  | ECommit r i h cp hp cc, ECommit r' i' h' cp' hp' cc' =>
    (r =? r') && (i =? i') && (h =? h') && set_eqb cp cp' && set_eqb hp hp' && set_eqb cc cc'
  | EChange r i h p, EChange r' i' h' p' => (r =? r') && (i =? i') && (h =? h') && (p =? p')
  | EUpdate r i h cp hp, EUpdate r' i' h' cp' hp' =>
    (r =? r') && (i =? i') && (h =? h') && set_eqb cp cp' && set_eqb hp hp'
  | EEvidence r i t h1 h2, EEvidence r' i' t' h1' h2' =>
    (r =? r') && (i =? i') && vt_eqb t t' && (h1 =? h1') && (h2 =? h2')
  | _, _ => false
  end.

Definition count_ev (e : event) (l : list event) : nat := length (filter (event_eqb e) l).
Definition events_eqb (a b : list event) : bool :=
  Nat.eqb (length a) (length b)
  && forallb (fun e => Nat.eqb (count_ev e a) (count_ev e b)) a.

Definition count_for (v : voter) (o : op) : N :=
  match o with
  | Msg m =>
    match m_stake m, get_wrapper (v_ws v) (m_round m, m_idx m) with
    | Some (_, k), Some w =>
      match wsta w k (m_type m) with Some s => cnt s (m_hash m) | None => 0 end
    | _, _ => 0
    end
  | _ => 0
  end.

(* a During pair is observed as a whole: the first record holds the message's
   return code, the events of both (any order), the latches after both and the
   message's count after both; the second the other event's return code and count *)
Fixpoint check_from (E : env) (v : voter) (ops : list sop) (os : list obs) : bool :=
  match ops, os with
  | [], [] => true
  | P o :: r, x :: xs =>
    let '(v', e, c) := step E v o in
    (c =? o_ret x) && events_eqb e (o_events x) && latch_eqb (latch_of v') (o_latch x)
    && (count_for v' o =? o_count x) && check_from E v' r xs
  | During m o2 :: r, x :: y :: xs =>
    let '(v1, e1, c1) := step E v (Msg m) in
    let '(v2, e2, c2) := step E v1 o2 in
    (c1 =? o_ret x) && events_eqb (e1 ++ e2) (o_events x) && latch_eqb (latch_of v2) (o_latch x)
    && (count_for v2 (Msg m) =? o_count x)
    && (c2 =? o_ret y) && (count_for v2 o2 =? o_count y) && check_from E v2 r xs
  | _, _ => false
  end.

(* diagnostic: index of the first schedule op whose observations differ, with the model's own *)
Fixpoint first_bad_from (E : env) (v : voter) (i : N) (ops : list sop) (os : list obs)
  : option (N * (N * list event * latch * N)) :=
  match ops, os with
  | P o :: r, x :: xs =>
    let '(v', e, c) := step E v o in
    if (c =? o_ret x) && events_eqb e (o_events x) && latch_eqb (latch_of v') (o_latch x)
       && (count_for v' o =? o_count x)
    then first_bad_from E v' (i + 1) r xs
    else Some (i, (c, e, latch_of v', count_for v' o))
  | During m o2 :: r, x :: y :: xs =>
    let '(v1, e1, c1) := step E v (Msg m) in
    let '(v2, e2, c2) := step E v1 o2 in
    if (c1 =? o_ret x) && events_eqb (e1 ++ e2) (o_events x) && latch_eqb (latch_of v2) (o_latch x)
       && (count_for v2 (Msg m) =? o_count x) && (c2 =? o_ret y) && (count_for v2 o2 =? o_count y)
    then first_bad_from E v2 (i + 1) r xs
    else Some (i, (c1, e1 ++ e2, latch_of v2, count_for v2 (Msg m)))
  | _, _ => None
  end.
Definition first_bad (c : case) := first_bad_from (c_env c) init_voter 0 (c_ops c) (c_obs c).

Definition case_ok (c : case) : bool := check_from (c_env c) init_voter (c_ops c) (c_obs c).

Fixpoint mismatches_from (i : N) (l : list case) : list N :=
  match l with
  | [] => []
  | c :: r => if case_ok c then mismatches_from (i + 1) r else i :: mismatches_from (i + 1) r
  end.
Definition mismatches := mismatches_from 0.
