(* C03 - a double voter's flag is never lost while the tally it was set in is
   kept: over any op, for any (round, index) whose wrapper is still in the
   list afterwards, every sender flagged before is flagged after (and by
   ProofsC.flagged_weighs_nothing has no recorded vote and no weight). *)
From VF.C03 Require Import Model ProofsA ProofsB.
From Coq Require Import ZArith Lia ZifyBool ZifyN ZifyNat.
Local Open Scope N_scope.

Definition flagged_w (w : wrapper) (k : vkind) (t : vtype) (a : N) : Prop :=
  exists s, wsta w k t = Some s /\ dv_in s a.

Definition w_mono (w w' : wrapper) : Prop := forall k t a, flagged_w w k t a -> flagged_w w' k t a.

Definition has_key (ws : wlist) (key : wkey) : Prop := exists w, In (key, w) ws.

(* the list keeps its keys; every wrapper only gains flags *)
Definition ws_grow (ws ws' : wlist) : Prop :=
  forall key w', In (key, w') ws' -> exists w, In (key, w) ws /\ w_mono w w'.

(* one op: additionally a fresh, empty wrapper may appear for a key that was absent *)
Definition ws_step (ws ws' : wlist) : Prop :=
  forall key w', In (key, w') ws' -> (exists w, In (key, w) ws /\ w_mono w w') \/ ~ has_key ws key.

Lemma w_mono_refl w : w_mono w w.
Proof. intros k t a Hf. exact Hf. Qed.

Lemma w_mono_trans a b c : w_mono a b -> w_mono b c -> w_mono a c.
Proof. intros H1 H2 k t x Hf. apply H2, H1, Hf. Qed.

Lemma ws_grow_refl ws : ws_grow ws ws.
Proof. intros key w Hin. exists w. split; [exact Hin | apply w_mono_refl]. Qed.

Lemma ws_grow_trans a b c : ws_grow a b -> ws_grow b c -> ws_grow a c.
Proof.
  intros H1 H2 key w'' Hin. destruct (H2 key w'' Hin) as (w' & Hin' & Hm').
  destruct (H1 key w' Hin') as (w & Hin0 & Hm). exists w. split; [exact Hin0|].
  eapply w_mono_trans; eassumption.
Qed.

Lemma ws_step_grow a b c : ws_step a b -> ws_grow b c -> ws_step a c.
Proof.
  intros H1 H2 key w'' Hin. destruct (H2 key w'' Hin) as (w' & Hin' & Hm').
  destruct (H1 key w' Hin') as [(w & Hin0 & Hm)|Hn]; [left|right; exact Hn].
  exists w. split; [exact Hin0|]. eapply w_mono_trans; eassumption.
Qed.

Lemma ws_grow_step a b : ws_grow a b -> ws_step a b.
Proof. intros Hg key w' Hin. left. apply Hg. exact Hin. Qed.

(* ---- the two tally operations keep flags ------------------------------------------- *)
Lemma sta_new_vote_dv s a h n s' add c x :
  sta_new_vote s a h n = (s', add, c) -> dv_in s x -> dv_in s' x.
Proof.
  unfold sta_new_vote. destruct (aget (vs_addrs s) a) eqn:Ea; intros Hx; inversion Hx; subst; [tauto|].
  intros (st & Hst & Hdv). exists st. cbn [vs_addrs]. rewrite aget_cons.
  destruct (a =? x) eqn:Eax; [|split; assumption].
  assert (x = a) by lia. subst x. rewrite Ea in Hst. discriminate.
Qed.

Lemma sta_addr_info_dv s isn a h s' r old x :
  sta_addr_info s isn a h = (s', r, old) -> dv_in s x -> dv_in s' x.
Proof.
  unfold sta_addr_info. destruct (aget (vs_addrs s) a) as [st|] eqn:Ea.
  2:{ intros Hx; inversion Hx; subst; tauto. }
  destruct (as_dv st). { intros Hx; inversion Hx; subst; tauto. }
  destruct ((as_hash st =? h) || isn). { intros Hx; inversion Hx; subst; tauto. }
  assert (Hm : forall info cnts, dv_in s x ->
             dv_in (mkVS info cnts ((a, mkAS (as_hash st) true) :: vs_addrs s)) x).
  { intros info cnts (st0 & Hst0 & Hd0). unfold dv_in. cbn [vs_addrs]. rewrite aget_cons.
    destruct (a =? x); [eexists; split; reflexivity | exists st0; split; assumption]. }
  destruct (find (is_entry (as_hash st) a) (vs_info s)); intros Hx; inversion Hx; subst; apply Hm.
Qed.

Lemma wput_mono w k t s s' :
  wsta w k t = Some s -> (forall x, dv_in s x -> dv_in s' x) -> w_mono w (wput w k t s').
Proof.
  intros Hs Hdv k' t' a (s0 & Hs0 & Hd0).
  assert (Hk : k <> KOther) by (intros ->; discriminate Hs).
  unfold flagged_w. rewrite wsta_wput by exact Hk.
  destruct (vk_eqb k k' && vt_eqb t t') eqn:Ekt.
  - apply andb_true_iff in Ekt. destruct Ekt as (Ek & Et).
    apply vk_eqb_eq in Ek. apply vt_eqb_eq in Et. subst k' t'.
    rewrite Hs in Hs0. inversion Hs0; subst s0. exists s'. split; [reflexivity | apply Hdv; exact Hd0].
  - exists s0. split; assumption.
Qed.

Lemma w_new_vote_mono w t k a h n w' add c : w_new_vote w t k a h n = (w', add, c) -> w_mono w w'.
Proof.
  unfold w_new_vote. destruct (wsta w k t) as [s|] eqn:Hs.
  2:{ intros Hx; inversion Hx; subst. apply w_mono_refl. }
  destruct (sta_new_vote s a h n) as [[s' add'] c'] eqn:Hnv. intros Hx; inversion Hx; subst.
  eapply wput_mono; [exact Hs|]. intros x. eapply sta_new_vote_dv; exact Hnv.
Qed.

Lemma w_addr_info_mono w t k a h w' r old : w_addr_info w t k a h = (w', r, old) -> w_mono w w'.
Proof.
  unfold w_addr_info. destruct (wsta w k t) as [s|] eqn:Hs.
  2:{ intros Hx; inversion Hx; subst. apply w_mono_refl. }
  destruct (sta_addr_info s (vt_eqb t V.NextIndex) a h) as [[s' r'] old'] eqn:Hai.
  intros Hx; inversion Hx; subst.
  eapply wput_mono; [exact Hs|]. intros x. eapply sta_addr_info_dv; exact Hai.
Qed.

(* ---- the list operations ---------------------------------------------------------------- *)
Lemma in_get_wrapper l k w : In (k, w) l -> get_wrapper l k <> None.
Proof.
  induction l as [|[k' w'] r IH]; cbn; [tauto|].
  intros [Hx|Hx].
  - inversion Hx; subst. rewrite key_eqb_refl. discriminate.
  - destruct (key_eqb k' k); [discriminate | apply IH; exact Hx].
Qed.

Lemma set_wrapper_grow ws key w w' :
  get_wrapper ws key = Some w -> w_mono w w' -> ws_grow ws (set_wrapper ws key w').
Proof.
  intros Hg Hm k' w'' Hin. destruct (set_wrapper_in _ _ _ _ _ Hin) as [Ho|(-> & ->)].
  - exists w''. split; [exact Ho | apply w_mono_refl].
  - exists w. split; [apply get_wrapper_in; exact Hg | exact Hm].
Qed.

Lemma set_wrapper_none ws key w' : get_wrapper ws key = None -> set_wrapper ws key w' = ws.
Proof.
  induction ws as [|[k' w''] r IH]; cbn; [reflexivity|].
  destruct (key_eqb k' key); [discriminate|]. intros Hx. rewrite IH by exact Hx. reflexivity.
Qed.

Lemma new_wrapper_step ws key : ws_step ws (new_wrapper ws key).
Proof.
  intros k' w' Hin. unfold new_wrapper in Hin.
  destruct (get_wrapper ws key) eqn:Hg.
  { left. exists w'. split; [exact Hin | apply w_mono_refl]. }
  assert (Hfresh : ~ has_key ws key).
  { intros (w0 & Hw0). exact (in_get_wrapper _ _ _ Hw0 Hg). }
  destruct (Nat.ltb (length ws) max_vote_cache); apply in_app_or in Hin.
  - destruct Hin as [Hin|[Hin|[]]].
    + left. exists w'. split; [exact Hin | apply w_mono_refl].
    + inversion Hin; subst. right. exact Hfresh.
  - destruct Hin as [Hin|[Hin|[]]].
    + left. exists w'. split; [|apply w_mono_refl]. destruct ws; [destruct Hin | right; exact Hin].
    + inversion Hin; subst. right. exact Hfresh.
Qed.

(* ---- the voter's functions only grow the list ------------------------------------------------ *)
Definition grow (v v' : voter) : Prop := ws_grow (v_ws v) (v_ws v').

Lemma grow_refl v : grow v v.
Proof. apply ws_grow_refl. Qed.
Lemma grow_trans a b c : grow a b -> grow b c -> grow a c.
Proof. apply ws_grow_trans. Qed.
Lemma grow_same a b c : v_ws c = v_ws b -> grow a b -> grow a c.
Proof. unfold grow. intros ->. tauto. Qed.

Ltac gr := unfold grow; cbn [fst]; exact (ws_grow_refl _).

Section Grow.
Variable E : env.

Definition GrowV (VT : vote_fn) : Prop := forall v t h p, grow v (fst (fst (VT v t h p))).
Definition GrowJ (J : voter -> vtype -> N -> N -> N -> N -> vkind -> voter * list event) : Prop :=
  forall v t c thr h p k, grow v (fst (J v t c thr h p k)).
Definition GrowM (SM : marked_fn) : Prop := forall v h p, grow v (fst (SM v h p)).

Lemma commit_grow v h p : grow v (fst (commit v h p)).
Proof. unfold commit. destruct (negb (in_cache v h)); cbn [fst]; gr. Qed.

Lemma judge_gen_grow VT SM : GrowV VT -> GrowM SM -> GrowJ (judge_gen VT SM).
Proof.
  intros HV HM v t c thr h p k. unfold judge_gen.
  destruct (negb (over_threshold c thr (negb (vt_eqb t V.Certificate))) || v_committed v && negb (vt_eqb t V.Precommit));
    [gr|].
  destruct (v_committed v && vt_eqb t V.Precommit); [gr|].
  set (v0 := set_over v _).
  assert (H0 : grow v v0) by (unfold grow; exact (ws_grow_refl _)).
  destruct (negb (vk_eqb k Chamber)); [exact H0|].
  destruct t.
  - destruct (negb (v_precommitted v0)); [|exact H0].
    pose proof (HV v0 V.Precommit h p) as G1.
    destruct (VT v0 V.Precommit h p) as [[v1 e1] ok]. cbn [fst] in G1.
    pose proof (HM (if ok then set_precommitted v1 true else v1) h p) as G2.
    destruct (SM (if ok then set_precommitted v1 true else v1) h p) as [v3 e3]. cbn [fst] in *.
    eapply grow_trans; [exact H0|]. eapply grow_trans; [|exact G2]. destruct ok; exact G1.
  - destruct (negb (v_cert v0)).
    + pose proof (commit_grow v0 h p) as G1. destruct (commit v0 h p) as [v1 e1].
      pose proof (HM v1 h p) as G2. destruct (SM v1 h p) as [v2 e2]. cbn [fst] in *.
      eapply grow_trans; [exact H0|]. eapply grow_trans; eassumption.
    + destruct (negb (v_certificated v0)).
      * pose proof (HV v0 V.Certificate h p) as G1.
        destruct (VT v0 V.Certificate h p) as [[v1 e1] ok]. cbn [fst] in *.
        eapply grow_trans; [exact H0|]. destruct ok; exact G1.
      * destruct (vst_status (over_get v0 h) V.Certificate Chamber); [|exact H0].
        pose proof (commit_grow v0 h p) as G1. destruct (commit v0 h p) as [v1 e1].
        pose proof (HM v1 h p) as G2. destruct (SM v1 h p) as [v2 e2]. cbn [fst] in *.
        eapply grow_trans; [exact H0|]. eapply grow_trans; eassumption.
  - destruct (v_sent v0); exact H0.
  - destruct (vst_status (over_get v0 h) V.Precommit Chamber); [|exact H0].
    pose proof (commit_grow v0 h p) as G1. destruct (commit v0 h p) as [v1 e1].
    pose proof (HM v1 h p) as G2. destruct (SM v1 h p) as [v2 e2]. cbn [fst] in *.
    eapply grow_trans; [exact H0|]. eapply grow_trans; eassumption.
Qed.

Lemma vote_gen_grow J : GrowJ J -> GrowV (vote_gen E J).
Proof.
  intros HJ v t h p. unfold vote_gen.
  destruct (own_view (own E) (round_of v) (v_idx v) t) as [[[seats thr] k]|]; [|gr].
  destruct (vt_eqb t V.NextIndex && match v_next_voted v with Some _ => true | None => false end
            && V.already_voted (v_db v) V.NextIndex (V.enc (round_of v) (v_idx v))); [gr|].
  destruct (vt_eqb t V.Certificate && negb (certp_ok E)); [gr|].
  destruct (V.update_vote_data (v_db v) t (V.enc (round_of v) (v_idx v))) as [d okd].
  destruct (negb okd); [gr|].
  set (v1 := set_db v d).
  destruct (get_wrapper (v_ws v1) (cur_key v1)) as [w|] eqn:Hg.
  - destruct (w_new_vote w t k (self E) h seats) as [[w' add] c] eqn:Hnv.
    set (v2 := set_ws v1 (set_wrapper (v_ws v1) (cur_key v1) w')).
    pose proof (HJ v2 t c thr h p k) as G. destruct (J v2 t c thr h p k) as [v3 e3]. cbn [fst] in *.
    eapply grow_trans; [|exact G]. unfold grow. cbn [v2 set_ws v_ws v1 set_db].
    eapply set_wrapper_grow; [exact Hg | eapply w_new_vote_mono; exact Hnv].
  - pose proof (HJ v1 t 0 thr h p k) as G. destruct (J v1 t 0 thr h p k) as [v3 e3]. cbn [fst] in *. exact G.
Qed.

Lemma set_marked_gen_grow VT : GrowV VT -> GrowM (set_marked_gen VT).
Proof.
  intros HV v h p. unfold set_marked_gen.
  destruct (match v_next_voted v with
            | Some (nh, _) => negb (nh =? 0) || (nh =? h) || (h =? 0)
            | None => false end); [gr|].
  destruct (negb (in_cache v h) && negb (h =? 0)); [gr|].
  destruct (v_step v <? 4).
  { cbn [fst]. destruct ((match v_next_marked v with None => true | Some _ => false end) && negb (h =? 0));
      gr. }
  pose proof (HV v V.NextIndex h p) as G. destruct (VT v V.NextIndex h p) as [[v1 e1] ok]. cbn [fst] in *.
  destruct ok; exact G.
Qed.

Lemma vote_none_grow : GrowV vote_none.
Proof. intros v t h p. gr. Qed.
Lemma marked_none_grow : GrowM marked_none.
Proof. intros v h p. gr. Qed.

Lemma vote0_grow : GrowV (vote0 E).
Proof. apply vote_gen_grow, judge_gen_grow; [apply vote_none_grow | apply marked_none_grow]. Qed.
Lemma set_marked_grow : GrowM (set_marked E).
Proof. apply set_marked_gen_grow, vote0_grow. Qed.
Lemma vote1_grow : GrowV (vote1 E).
Proof. apply vote_gen_grow, judge_gen_grow; [apply vote0_grow | apply set_marked_grow]. Qed.
Lemma vote2_grow : GrowV (vote2 E).
Proof. apply vote_gen_grow, judge_gen_grow; [apply vote1_grow | apply set_marked_grow]. Qed.
Lemma judge_grow : GrowJ (judge E).
Proof. apply judge_gen_grow; [apply vote2_grow | apply set_marked_grow]. Qed.
Lemma vote_grow : GrowV (vote E).
Proof. apply vote_gen_grow, judge_grow. Qed.

(* ---- one op ---------------------------------------------------------------------------------- *)
Lemma update_context_step v r i stp cert maxp :
  ws_step (v_ws v) (v_ws (fst (update_context E v r i stp cert maxp))).
Proof.
  unfold update_context.
  set (changed := match v_round v with
                  | Some r0 => negb (r0 =? r) || negb (v_idx v =? i)
                  | None => true end).
  match goal with
  | |- context [let '(va, ea) := ?X in _] => destruct X as [va ea] eqn:Hva
  end.
  assert (Ha : ws_step (v_ws v) (v_ws va)).
  { destruct changed; inversion Hva; subst va ea; cbn [v_ws].
    - apply new_wrapper_step.
    - apply ws_grow_step, ws_grow_refl. }
  set (vb := mkVoter (Some r) i stp cert _ _ _ _ _ _ _ _ _ _ _ _ _).
  assert (Hb : ws_step (v_ws v) (v_ws vb)) by exact Ha.
  destruct (stp =? 2).
  - destruct (match v_cur_marked vb with
              | Some (h, p) => if negb (h =? 0) then Some (h, p) else None
              | None => None end) as [[h p]|].
    + pose proof (vote_grow vb V.Prevote h p) as G.
      destruct (vote E vb V.Prevote h p) as [[vc ec] okc]. cbn [fst] in *.
      eapply ws_step_grow; eassumption.
    + destruct maxp as [[p h]|]; [|exact Hb].
      pose proof (vote_grow vb V.Prevote h p) as G.
      destruct (vote E vb V.Prevote h p) as [[vc ec] okc]. cbn [fst] in *.
      eapply ws_step_grow; eassumption.
  - destruct ((stp =? 4) || (stp =? 5)); [|exact Hb].
    destruct (v_committed vb || v_sent vb); [exact Hb|].
    destruct (v_next_marked vb) as [[h p]|].
    + pose proof (set_marked_grow vb h p) as G. destruct (set_marked E vb h p) as [vc ec]. cbn [fst] in *.
      eapply ws_step_grow; eassumption.
    + pose proof (set_marked_grow vb 0 0) as G. destruct (set_marked E vb 0 0) as [vc ec]. cbn [fst] in *.
      eapply ws_step_grow; eassumption.
Qed.

Lemma process_step v m : ws_step (v_ws v) (v_ws (fst (fst (process E v m)))).
Proof.
  assert (Hr : ws_step (v_ws v) (v_ws v)) by apply ws_grow_step, ws_grow_refl.
  unfold process.
  destruct (match m_status m with Same => true | _ => false end && m_novote m); [exact Hr|].
  destruct (match m_status m with Same => true | _ => false end
            && (negb (m_round m =? round_of v) || negb (m_idx m =? v_idx v))); [exact Hr|].
  destruct (vt_eqb (m_type m) V.Certificate && negb (certp_ok E)); [exact Hr|].
  destruct (negb (m_sig m)); [exact Hr|].
  destruct (m_stake m) as [[thr k]|]; [|exact Hr].
  destruct (cred_verdict E v m); try exact Hr.
  assert (Hmain : ws_step (v_ws v) (v_ws (fst (fst
    (let key := (m_round m, m_idx m) in
          let t := m_type m in
          let ow := get_wrapper (v_ws v) key in
          if negb (match m_status m with Same => true | _ => false end)
             && ((match ow with None => true | Some _ => false end) || negb (vt_eqb t V.Precommit))
          then (v, [], ret_ok)
          else
            let ws := match ow with Some _ => v_ws v | None => new_wrapper (v_ws v) key end in
            let w := match get_wrapper ws key with Some w => w | None => wrapper_empty end in
            let '(w1, res, oldh) := w_addr_info w t k (m_sender m) (m_hash m) in
            match res with
            | ANotVoted =>
              let '(w2, add, total) := w_new_vote w1 t k (m_sender m) (m_hash m) (m_votes m) in
              let v1 := set_ws v (set_wrapper ws key w2) in
              if negb add then (v1, [], ret_ok)
              else if match m_status m with Same => true | _ => false end then
                let '(v2, e2) := judge E v1 t total thr (m_hash m) (m_prio m) k in (v2, e2, ret_ok)
              else if over_threshold total thr false then
                (v1, [EUpdate (m_round m) (m_idx m) (m_hash m)
                              (w_votes w2 V.Precommit Chamber (m_hash m))
                              (w_votes w2 V.Precommit House (m_hash m))], ret_ok)
              else (v1, [], ret_ok)
            | ADifferent =>
              let v0 := set_ws v (set_wrapper ws key w1) in
              let v1 :=
                match oldh with
                | Some h0 =>
                  if fix_latch E && negb (vt_eqb t V.NextIndex) && key_eqb key (cur_key v)
                     && negb (over_threshold (match wsta w1 k t with Some s => cnt s h0 | None => 0 end)
                                             thr (negb (vt_eqb t V.Certificate)))
                  then set_over v0 ((h0, vst_clear (over_get v0 h0) t k) :: v_over v0)
                  else v0
                | None => v0
                end in
              match oldh with
              | Some h0 =>
                if negb (vt_eqb t V.NextIndex) && evid_on E
                then (v1, [EEvidence (m_round m) (m_idx m) t h0 (m_hash m)], ret_ok)
                else (v1, [], ret_ok)
              | None => (v1, [], ret_ok)
              end
            | _ => (set_ws v (set_wrapper ws key w1), [], ret_ok)
            end))))).
  { cbv zeta. set (key := (m_round m, m_idx m)).
    destruct (negb (match m_status m with Same => true | _ => false end)
              && ((match get_wrapper (v_ws v) key with None => true | Some _ => false end)
                  || negb (vt_eqb (m_type m) V.Precommit))); [exact Hr|].
    set (ws := match get_wrapper (v_ws v) key with Some _ => v_ws v | None => new_wrapper (v_ws v) key end).
    assert (Hws : ws_step (v_ws v) ws).
    { subst ws. destruct (get_wrapper (v_ws v) key); [exact Hr | apply new_wrapper_step]. }
    assert (Hset : forall w w', get_wrapper ws key = Some w -> w_mono w w' ->
                                ws_step (v_ws v) (set_wrapper ws key w')).
    { intros w w' Hg Hm. eapply ws_step_grow; [exact Hws|]. eapply set_wrapper_grow; eassumption. }
    destruct (get_wrapper ws key) as [w|] eqn:Hgw.
    2:{ (* no wrapper: set_wrapper is the identity *)
      destruct (w_addr_info wrapper_empty (m_type m) k (m_sender m) (m_hash m)) as [[w1 res] oldh].
      assert (Hid : forall wx, set_wrapper ws key wx = ws) by (intros; apply set_wrapper_none; exact Hgw).
      destruct res; try (cbn [fst v_ws set_ws]; rewrite Hid; exact Hws).
      - destruct (w_new_vote w1 (m_type m) k (m_sender m) (m_hash m) (m_votes m)) as [[w2 add] total].
        destruct (negb add); [cbn [fst v_ws set_ws]; rewrite Hid; exact Hws|].
        destruct (match m_status m with Same => true | _ => false end).
        + pose proof (judge_grow (set_ws v (set_wrapper ws key w2)) (m_type m) total thr (m_hash m) (m_prio m) k) as G.
          destruct (judge E (set_ws v (set_wrapper ws key w2)) (m_type m) total thr (m_hash m) (m_prio m) k) as [v2 e2].
          cbn [fst] in *. eapply ws_step_grow; [|exact G]. cbn [v_ws set_ws]. rewrite Hid. exact Hws.
        + destruct (over_threshold total thr false); cbn [fst v_ws set_ws]; rewrite Hid; exact Hws.
      - destruct oldh;
          [match goal with |- context [if ?c then set_over _ _ else _] => destruct c end;
           destruct (negb (vt_eqb (m_type m) V.NextIndex) && evid_on E)|];
          cbn [fst v_ws set_ws set_over]; rewrite Hid; exact Hws. }
    destruct (w_addr_info w (m_type m) k (m_sender m) (m_hash m)) as [[w1 res] oldh] eqn:Hai.
    pose proof (w_addr_info_mono _ _ _ _ _ _ _ _ Hai) as Hm1.
    destruct res; try (cbn [fst v_ws set_ws]; eapply Hset; [reflexivity|exact Hm1]).
    - destruct (w_new_vote w1 (m_type m) k (m_sender m) (m_hash m) (m_votes m)) as [[w2 add] total] eqn:Hnv.
      pose proof (w_new_vote_mono _ _ _ _ _ _ _ _ _ Hnv) as Hm2.
      assert (Hm12 : w_mono w w2) by (eapply w_mono_trans; eassumption).
      destruct (negb add); [cbn [fst v_ws set_ws]; eapply Hset; [reflexivity|exact Hm12]|].
      destruct (match m_status m with Same => true | _ => false end).
      + pose proof (judge_grow (set_ws v (set_wrapper ws key w2)) (m_type m) total thr (m_hash m) (m_prio m) k) as G.
        destruct (judge E (set_ws v (set_wrapper ws key w2)) (m_type m) total thr (m_hash m) (m_prio m) k) as [v2 e2].
        cbn [fst] in *. eapply ws_step_grow; [|exact G]. cbn [v_ws set_ws]. eapply Hset; [reflexivity|exact Hm12].
      + destruct (over_threshold total thr false); cbn [fst v_ws set_ws]; eapply Hset; try reflexivity; exact Hm12.
    - destruct oldh;
        [match goal with |- context [if ?c then set_over _ _ else _] => destruct c end;
         destruct (negb (vt_eqb (m_type m) V.NextIndex) && evid_on E)|];
        cbn [fst v_ws set_ws set_over]; eapply Hset; try reflexivity; exact Hm1. }
  destruct (m_status m); try exact Hmain; exact Hr.
Qed.

Theorem step_ws_step v o : ws_step (v_ws v) (v_ws (fst (fst (step E v o)))).
Proof.
  destruct o as [r i s cert maxp|m|h b|r i|]; cbn [step].
  - pose proof (update_context_step v r i s cert maxp) as G.
    destruct (update_context E v r i s cert maxp) as [v' e]. exact G.
  - apply process_step.
  - destruct b; apply ws_grow_step, ws_grow_refl.
  - apply ws_grow_step, ws_grow_refl.
  - intros key w' [].
Qed.

(* the flag is kept: if every wrapper kept for [key] has [a] flagged in its
   (k, t) tally and such a wrapper exists, then after any op every wrapper
   kept for [key] (if any is left) still has [a] flagged *)
Definition flagged_all (v : voter) (key : wkey) (k : vkind) (t : vtype) (a : N) : Prop :=
  forall w, In (key, w) (v_ws v) -> flagged_w w k t a.

Theorem flag_kept : forall v o key k t a,
  has_key (v_ws v) key -> flagged_all v key k t a ->
  flagged_all (fst (fst (step E v o))) key k t a.
Proof.
  intros v o key k t a Hk Hf w' Hin.
  destruct (step_ws_step v o key w' Hin) as [(w & Hw & Hm)|Hn]; [|contradiction].
  apply Hm. apply Hf. exact Hw.
Qed.

(* over any further history during which a wrapper for [key] is kept at every step *)
Fixpoint kept (v : voter) (ops : list op) (key : wkey) : Prop :=
  match ops with
  | [] => True
  | o :: r => has_key (v_ws v) key /\ kept (fst (fst (step E v o))) r key
  end.

Definition run_on (v : voter) (ops : list op) : voter :=
  fold_left (fun v o => fst (fst (step E v o))) ops v.

Theorem flag_kept_run : forall ops v key k t a,
  kept v ops key -> flagged_all v key k t a -> flagged_all (run_on v ops) key k t a.
Proof.
  induction ops as [|o r IH]; intros v key k t a Hk Hf; [exact Hf|].
  destruct Hk as (Hk1 & Hk2). cbn [run_on fold_left]. apply IH; [exact Hk2|].
  apply flag_kept; assumption.
Qed.

End Grow.
