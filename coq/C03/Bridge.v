(* C03 - facts about coq/gen/C03Locks.v, the lock inventory of
   consensus/ucon/voter.go regenerated on every run.  Model.v takes one op
   (one updateContext, one processVoteMsg) as one atomic step and a schedule in
   which a second event is requested during a message's authentication as its
   linearisation.  That rests on the lock discipline proved here from the
   source: processVoteMsg and updateContext hold v.lock from their first
   statement to their return (in particular from the round/index guard of
   processVoteMsg to the count), and nothing that writes the voter's state can
   run without that lock. *)
From Coq Require Import List String Bool Arith.
From VF.gen Require Import C03Locks.
Import ListNotations.
Open Scope string_scope.

Definition entry := (string * bool * bool * nat * list string * list string * list string)%type.
Definition e_name (e : entry) := let '(n, _, _, _, _, _, _) := e in n.
Definition e_exported (e : entry) := let '(_, x, _, _, _, _, _) := e in x.
Definition e_whole (e : entry) := let '(_, _, w, _, _, _, _) := e in w.
Definition e_other (e : entry) := let '(_, _, _, o, _, _, _) := e in o.
Definition e_writes (e : entry) := let '(_, _, _, _, w, _, _) := e in w.
Definition e_reads (e : entry) := let '(_, _, _, _, _, r, _) := e in r.
Definition e_calls (e : entry) := let '(_, _, _, _, _, _, c) := e in c.

Definition mem (s : string) (l : list string) : bool := existsb (String.eqb s) l.

Fixpoint find_entry (t : list entry) (n : string) : option entry :=
  match t with
  | [] => None
  | e :: r => if String.eqb (e_name e) n then Some e else find_entry r n
  end.

(* the body is  v.lock.Lock(); defer v.lock.Unlock(); ...  and never touches the lock again:
   the method holds v.lock from its first statement to its return *)
Definition holds_lock (e : entry) : bool := e_whole e && Nat.eqb (e_other e) 0.

(* the voter state the model covers *)
Definition state_fields : list string :=
  ["round"; "roundIndex"; "step"; "shouldCert"; "precommitted"; "committed"; "sentChangeEvent"; "certificated";
   "nextMarked"; "curMarked"; "nextVoted"; "voteOver"; "votesMgr"; "votesWrappers"; "votesUpdateEv"].
Definition touches (l : list string) : bool := existsb (fun f => mem f state_fields) l.

(* a method can be entered from outside this file: exported, or no caller in the file *)
Definition root (t : list entry) (e : entry) : bool :=
  e_exported e || negb (existsb (fun c => mem (e_name e) (e_calls c)) t).

(* the methods that may run at a moment where v.lock is not held: least fixed
   point, by iteration over the set of names *)
Definition grow_exposed (t : list entry) (set : list string) : list string :=
  map e_name
      (filter (fun e => negb (holds_lock e)
                        && (root t e || existsb (fun c => mem (e_name e) (e_calls c) && mem (e_name c) set) t)) t).

Fixpoint exposed_set (fuel : nat) (t : list entry) : list string :=
  match fuel with
  | O => []
  | S f => grow_exposed t (exposed_set f t)
  end.

Definition exposed (t : list entry) (e : entry) : bool :=
  mem (e_name e) (exposed_set (S (List.length t)) t).

(* unlocked readers of voter state that exist in the tree and are outside the
   property (Server.processTimeout / startVote read one field each; PackVotes
   reads v.round for an error message) *)
Definition known_unlocked_readers : list string :=
  ["getMarkedBlock"; "existHashOverVotesThreshold"; "PackVotes"].

Definition discipline_ok (t : list entry) : bool :=
  forallb (fun e =>
    negb (exposed t e)
    || (negb (touches (e_writes e))
        && (negb (touches (e_reads e)) || mem (e_name e) known_unlocked_readers))) t
  (* and only the two locked entry points plus removeMarkedBlock ever take the lock *)
  && forallb (fun e => holds_lock e || (negb (e_whole e) && Nat.eqb (e_other e) 0)) t.

Definition locked_entry (t : list entry) (n : string) : bool :=
  match find_entry t n with Some e => holds_lock e | None => false end.

Definition n_processVoteMsg : string := "processVoteMsg".
Definition n_updateContext : string := "updateContext".

Lemma processVoteMsg_holds_lock : locked_entry c03_voter_methods n_processVoteMsg = true.
Proof. vm_compute. reflexivity. Qed.

Lemma updateContext_holds_lock : locked_entry c03_voter_methods n_updateContext = true.
Proof. vm_compute. reflexivity. Qed.

Lemma lock_discipline_holds : discipline_ok c03_voter_methods = true.
Proof. vm_compute. reflexivity. Qed.

(* the methods that can run without the lock, by name (a changed inventory shows here) *)
Lemma exposed_methods :
  exposed_set (S (List.length c03_voter_methods)) c03_voter_methods =
  ["PackVotes"; "RecoverSignerInfo"; "SetLookBackMgr"; "Start"; "Stop"; "eventLoop";
   "existHashOverVotesThreshold"; "getMarkedBlock"].
Proof. vm_compute. reflexivity. Qed.

(* spelled out: a method that can run without v.lock writes no voter state *)
Lemma unlocked_methods_write_nothing :
  forall e, In e c03_voter_methods ->
            exposed c03_voter_methods e = true ->
            touches (e_writes e) = false.
Proof.
  intros e Hin Hex. pose proof lock_discipline_holds as H. unfold discipline_ok in H.
  apply andb_true_iff in H. destruct H as (H & _). rewrite forallb_forall in H.
  specialize (H e Hin). rewrite Hex in H. cbn [negb orb] in H.
  apply andb_true_iff in H. destruct H as (H & _). destruct (touches (e_writes e)); [discriminate H|reflexivity].
Qed.
