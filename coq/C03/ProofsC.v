(* C03 - the property-level consequences of the invariant (ProofsB), the
   equivocation lemmas, the credential decision of Server.verifySortition, and
   the two witnesses of the listed findings. *)
From VF.C03 Require Import Model ProofsA ProofsB.
From Coq Require Import ZArith Lia ZifyBool ZifyN ZifyNat.
Local Open Scope N_scope.

Definition seat_sum (l : list (N * N)) : N := fold_right (fun p acc => snd p + acc) 0 l.

(* what "reached the quorum" says in plain terms *)
Lemma Quorum_unpack E H r i t h :
  Quorum E H r i t h ->
  exists (s : votesta) (l : list (N * N)) (thr : N),
    l = sta_votes s h /\
    NoDup (map fst l) /\
    (forall a n, In (a, n) l ->
       Counted E H r i t Chamber h a n /\ aget (vs_addrs s) a = Some (mkAS h false)) /\
    thr_src E H r i t thr /\
    cnt s h = w32 (seat_sum l) /\
    quorum (is_pos t) thr <= w32 (seat_sum l).
Proof.
  intros (s & thr & Hok & Hj & Hts & Hov). exists s, (sta_votes s h), thr.
  split; [reflexivity|]. split; [apply sta_votes_nodup; exact Hok|]. split.
  - intros a n Hin. unfold sta_votes in Hin. apply in_map_iff in Hin.
    destruct Hin as (e & He & Hin). apply filter_In in Hin. destruct Hin as (Hin & Hh).
    inversion He; subst a n. assert (e_hash e = h) by lia. subst h.
    split; [apply Hj; exact Hin | apply Hok; exact Hin].
  - split; [exact Hts|].
    assert (Hc : cnt s h = w32 (seat_sum (sta_votes s h))).
    { rewrite (ok_count _ Hok). unfold seat_sum. rewrite <- sta_votes_sum. reflexivity. }
    split; [exact Hc|]. rewrite <- Hc. unfold over_threshold in Hov. lia.
Qed.

Section Top.
Variable E : env.

Theorem precommit_needs_quorum : forall Hp o v' ev c r i h p n,
  step E (run_state E Hp) o = (v', ev, c) ->
  In (ESend V.Precommit r i h p n) ev ->
  r = round_of v' /\ i = v_idx v' /\ Quorum E (Hp ++ [o]) r i V.Prevote h.
Proof.
  intros Hp o v' ev c r i h p n Hs Hin.
  pose proof (events_ok E Hp o v' ev c Hs) as Hall.
  rewrite Forall_forall in Hall. specialize (Hall _ Hin). cbn in Hall. apply Hall. reflexivity.
Qed.

Theorem commit_needs_quorum : forall Hp o v' ev c r i h cp hp cc,
  step E (run_state E Hp) o = (v', ev, c) ->
  In (ECommit r i h cp hp cc) ev ->
  r = round_of v' /\ i = v_idx v' /\
  Quorum E (Hp ++ [o]) r i V.Precommit h /\
  (v_cert v' = true -> Quorum E (Hp ++ [o]) r i V.Certificate h).
Proof.
  intros Hp o v' ev c r i h cp hp cc Hs Hin.
  pose proof (events_ok E Hp o v' ev c Hs) as Hall.
  rewrite Forall_forall in Hall. specialize (Hall _ Hin). cbn in Hall. tauto.
Qed.

(* the commit's precommit set, re-counted by a verifier that recovers the same
   signers and accepts the credentials the voter's check accepted *)
Theorem commit_verifies_noncert : forall Hp o v' ev c r i h cp hp cc (view : N * N -> pvote),
  step E (run_state E Hp) o = (v', ev, c) ->
  In (ECommit r i h cp hp cc) ev ->
  strict_of o = true -> v_cert v' = false ->
  (forall a n, Counted E (Hp ++ [o]) r i V.Precommit Chamber h a n -> view (a, n) = mkPV (Some a) n true) ->
  exists thr, thr_src E (Hp ++ [o]) r i V.Precommit thr /\ verify_votes (map view cp) thr true = true.
Proof.
  intros Hp o v' ev c r i h cp hp cc view Hs Hin Hst Hcert Hview.
  pose proof (events_ok E Hp o v' ev c Hs) as Hall.
  rewrite Forall_forall in Hall. specialize (Hall _ Hin). cbn in Hall.
  destruct Hall as (_ & _ & _ & _ & Hstrict).
  destruct (Hstrict Hst Hcert) as (s & thr & Hok & Hj & Hts & Hcp & Hov).
  exists thr. split; [exact Hts|].
  assert (Hm : map view cp = map pv_of cp).
  { apply map_ext_in. intros [a n] Hi. rewrite Hview; [reflexivity|].
    subst cp. unfold sta_votes in Hi. apply in_map_iff in Hi.
    destruct Hi as (e & He & Hi). apply filter_In in Hi. destruct Hi as (Hi & Hh).
    inversion He; subst a n. assert (e_hash e = h) by lia. subst h. apply Hj. exact Hi. }
  rewrite Hm, Hcp. apply recorded_set_verifies; assumption.
Qed.

(* ---- equivocation ---------------------------------------------------------------------- *)
(* in every reachable state a flagged sender has no recorded vote in that tally,
   and every count of the tally is the (wrapped) sum of the recorded seats *)
Theorem flagged_weighs_nothing : forall ops key w k t s a,
  In (key, w) (v_ws (run_state E ops)) -> wsta w k t = Some s -> dv_in s a ->
  (forall e, In e (vs_info s) -> e_addr e <> a) /\
  (forall h, cnt s h = w32 (sum_for h (vs_info s))).
Proof.
  intros ops key w k t s a Hin Hs Hdv.
  destruct (Inv_all E ops) as (I1 & _). destruct (I1 key w Hin k t s Hs) as (Hok & _).
  split; [apply flagged_has_no_entry; assumption | apply Hok].
Qed.

(* a second vote for a different block flags the sender *)
Lemma w_addr_info_different w t k a h s h0 :
  wsta w k t = Some s -> aget (vs_addrs s) a = Some (mkAS h0 false) ->
  h0 <> h -> t <> V.NextIndex ->
  exists w1 s1, w_addr_info w t k a h = (w1, ADifferent, Some h0) /\
                wsta w1 k t = Some s1 /\ dv_in s1 a.
Proof.
  intros Hs Ha Hne Hnx.
  assert (Hk : k <> KOther) by (intros ->; discriminate Hs).
  assert (Hnx' : vt_eqb t V.NextIndex = false).
  { destruct (vt_eqb t V.NextIndex) eqn:Et; [|reflexivity]. apply vt_eqb_eq in Et. contradiction. }
  unfold w_addr_info. rewrite Hs. unfold sta_addr_info. rewrite Ha. cbn [as_dv as_hash].
  rewrite Hnx'. assert ((h0 =? h) = false) as -> by lia. cbn [orb].
  assert (Hw : forall s1, wsta (wput w k t s1) k t = Some s1).
  { intros s1. rewrite wsta_wput by exact Hk.
    rewrite (proj2 (vk_eqb_eq k k) eq_refl), vt_eqb_refl. reflexivity. }
  destruct (find (is_entry h0 a) (vs_info s)) as [e|].
  - eexists. eexists. split; [reflexivity|]. split; [apply Hw|].
    unfold dv_in. cbn [vs_addrs]. rewrite aget_cons, N.eqb_refl. eexists. split; reflexivity.
  - eexists. eexists. split; [reflexivity|]. split; [apply Hw|].
    unfold dv_in. cbn [vs_addrs]. rewrite aget_cons, N.eqb_refl. eexists. split; reflexivity.
Qed.

Theorem equivocation_flags : forall v m thr k w s h0,
  m_status m = Same -> m_novote m = false ->
  m_round m = round_of v -> m_idx m = v_idx v ->
  (m_type m = V.Certificate -> certp_ok E = true) ->
  m_sig m = true -> m_stake m = Some (thr, k) -> cred_ok E v m = true ->
  get_wrapper (v_ws v) (m_round m, m_idx m) = Some w ->
  wsta w k (m_type m) = Some s ->
  aget (vs_addrs s) (m_sender m) = Some (mkAS h0 false) ->
  h0 <> m_hash m -> m_type m <> V.NextIndex ->
  exists w' s',
    get_wrapper (v_ws (fst (fst (process E v m)))) (m_round m, m_idx m) = Some w' /\
    wsta w' k (m_type m) = Some s' /\ dv_in s' (m_sender m).
Proof.
  intros v m thr k w s h0 Hst Hnv Hr Hi Hcp Hsig Hstake Hcred Hg Hs Ha Hne Hnx.
  destruct (w_addr_info_different w (m_type m) k (m_sender m) (m_hash m) s h0 Hs Ha Hne Hnx)
    as (w1 & s1 & Hai & Hs1 & Hdv).
  exists w1, s1. split; [|split; assumption].
  assert (Hverdict : cred_verdict E v m = CvOk).
  { unfold cred_ok in Hcred. destruct (cred_verdict E v m); [reflexivity|discriminate|discriminate]. }
  unfold process. rewrite Hst, Hnv, Hsig, Hstake, Hverdict, Hr, Hi, !N.eqb_refl. cbn [andb negb orb].
  assert (Hc : vt_eqb (m_type m) V.Certificate && negb (certp_ok E) = false).
  { destruct (vt_eqb (m_type m) V.Certificate) eqn:Et; [|reflexivity].
    apply vt_eqb_eq in Et. rewrite (Hcp Et). reflexivity. }
  rewrite Hc. rewrite <- Hr, <- Hi. rewrite Hg. cbn [andb negb orb]. rewrite Hg. rewrite Hai.
  match goal with
  | |- context [if ?c then set_over _ _ else _] => destruct c
  end;
  destruct (negb (vt_eqb (m_type m) V.NextIndex) && evid_on E); cbn [fst v_ws set_ws set_over];
    apply (get_set_wrapper _ _ _ _ Hg).
Qed.

End Top.

(* ---- the sortition verifier ------------------------------------------------------------------ *)
(* an accepted credential is one whose claimed seat count is the weight the
   verifier computes from the credential - or, without the repair and under
   Server.verifySortition's rule, a stale one *)
Lemma accepted_credential E v m :
  cred_ok E v m = true ->
  (cred_weight E m = Some (m_votes m) /\ 0 < m_votes m)
  \/ (srv_rule E = true /\ fix_stale E = false /\ (m_round m < fst (v_srv v) \/ m_idx m < snd (v_srv v))).
Proof.
  unfold cred_ok, cred_verdict, cred_valid.
  destruct (cred_weight E m) as [w|].
  - destruct ((0 <? w) && (w =? m_votes m)) eqn:Hv.
    + intros _. left. assert (w = m_votes m) by lia. subst w. split; [reflexivity|lia].
    + destruct (srv_rule E); cbn [andb]; [|discriminate].
      unfold server_verify. cbn [orb].
      destruct ((m_round m <? fst (v_srv v)) || (m_idx m <? snd (v_srv v))) eqn:Hs; [|discriminate].
      destruct (fix_stale E); [discriminate|]. intros _. right. repeat split; try reflexivity. lia.
  - destruct (srv_rule E); cbn [andb]; [|discriminate].
    unfold server_verify. cbn [orb].
    destruct ((m_round m <? fst (v_srv v)) || (m_idx m <? snd (v_srv v))) eqn:Hs; [|discriminate].
    destruct (fix_stale E); [discriminate|]. intros _. right. repeat split; try reflexivity. lia.
Qed.

Lemma fresh_credential_sound E v m :
  cred_ok E v m = true ->
  fst (v_srv v) <= m_round m -> snd (v_srv v) <= m_idx m ->
  cred_weight E m = Some (m_votes m) /\ 0 < m_votes m.
Proof.
  intros Hc Hr Hi. destruct (accepted_credential E v m Hc) as [Hv|(_ & _ & Hs)]; [exact Hv|lia].
Qed.

Lemma repaired_credential_sound E v m :
  fix_stale E = true -> cred_ok E v m = true -> cred_weight E m = Some (m_votes m) /\ 0 < m_votes m.
Proof.
  intros Hfix Hc. destruct (accepted_credential E v m Hc) as [Hv|(_ & Hf & _)]; [exact Hv|congruence].
Qed.

Lemma stub_credential_sound E v m :
  srv_rule E = false -> cred_ok E v m = true -> cred_weight E m = Some (m_votes m) /\ 0 < m_votes m.
Proof.
  intros Hs Hc. destruct (accepted_credential E v m Hc) as [Hv|(Hf & _)]; [exact Hv|congruence].
Qed.

Lemma stale_credential_accepted : forall mr mi sr si,
  mr < sr \/ mi < si -> server_verify false mr mi (sr, si) = true.
Proof. intros. unfold server_verify. cbn. lia. Qed.

(* preservation of the flag by the two tally operations *)
Lemma new_vote_keeps_flag s a h n s' add c x :
  sta_ok s -> sta_new_vote s a h n = (s', add, c) -> dv_in s x -> dv_in s' x.
Proof.
  intros Hok Hnv. exact (proj2 (proj2 (proj2 (sta_new_vote_spec s a h n s' add c Hok Hnv))) x).
Qed.

Lemma addr_info_keeps_flag s isn a h s' r old x :
  sta_ok s -> sta_addr_info s isn a h = (s', r, old) -> dv_in s x -> dv_in s' x.
Proof.
  intros Hok Hai. destruct (sta_addr_info_spec s isn a h s' r old Hok Hai) as (_ & _ & Hm & _). exact (Hm x).
Qed.

(* ---- the two findings ------------------------------------------------------------------------- *)
Definition commit_verifies_full (repaired : bool) : Prop :=
  forall E Hp o v' ev c r i h cp hp cc,
    fix_latch E = repaired ->
    step E (run_state E Hp) o = (v', ev, c) ->
    In (ECommit r i h cp hp cc) ev ->
    exists thr, thr_src E (Hp ++ [o]) r i V.Precommit thr /\ verify_votes (map pv_of cp) thr true = true.

Definition w_env : env :=
  mkEnv 0 [] true false false false false
        [(1, 32768, 1, V.Precommit, 1); (2, 32768, 1, V.Precommit, 1); (3, 32768, 1, V.Certificate, 2)].
Definition w_msg (t : vtype) (h a n : N) : op :=
  Msg (mkMsg Same t 32768 1 h 1 a true n false (Some (4, Chamber)) 1).
Definition w_hist : list op :=
  [Cache 1 true; Ctx 32768 1 4 true None;
   w_msg V.Precommit 1 1 1; w_msg V.Precommit 1 2 1;     (* precommits for block 1: 2 seats = quorum of 4 *)
   w_msg V.Precommit 2 1 1].                             (* sender 1 equivocates: 1 seat left *)
Definition w_last : op := w_msg V.Certificate 1 3 2.     (* certificate quorum: commit *)

Lemma commit_verifies_refuted : ~ commit_verifies_full false.
Proof.
  intros Hf.
  remember (step w_env (run_state w_env w_hist) w_last) as res eqn:Hs.
  assert (Hev : snd (fst res) = [ECommit 32768 1 1 [(2, 1)] [] [(3, 2)]]).
  { rewrite Hs. vm_compute. reflexivity. }
  destruct res as [[v' ev] c]. cbn in Hev. subst ev. symmetry in Hs.
  destruct (Hf w_env _ _ _ _ _ _ _ _ _ _ _ eq_refl Hs (or_introl eq_refl)) as (thr & Hsrc & Hv).
  assert (thr = 4) as ->.
  { destruct Hsrc as [(m & Hin & _ & _ & _ & Hst)|(n0 & Ho)]; [|discriminate Ho].
    cbn in Hin.
    repeat (destruct Hin as [Hm|Hin];
            [try discriminate Hm; inversion Hm; subst m; cbn in Hst; inversion Hst; reflexivity|]).
    destruct Hin. }
  vm_compute in Hv. discriminate Hv.
Qed.

(* every weight the voter's check accepts is the weight the sortition verifier
   computes for that credential - for trees with / without the repair *)
Definition credentials_full (repaired : bool) : Prop :=
  forall E v m, fix_stale E = repaired -> cred_ok E v m = true ->
                cred_weight E m = Some (m_votes m) /\ 0 < m_votes m.

Lemma credentials_refuted : ~ credentials_full false.
Proof.
  intros Hf.
  destruct (Hf (mkEnv 0 [] true false false false true []) (set_srv init_voter (5, 2))
               (mkMsg Same V.Prevote 5 1 1 1 1 true 100 false (Some (4, Chamber)) 2)
               eq_refl eq_refl) as (Hw & _).
  discriminate Hw.
Qed.

Lemma credentials_repaired : credentials_full true.
Proof. intros E v m Hfix. apply repaired_credential_sound. exact Hfix. Qed.

(* the weight recorded for a delivered vote is the verifier's weight for its credential *)
Lemma counted_weight_verified E H r i t k h a n :
  fix_stale E = true \/ srv_rule E = false ->
  counted_by_msg E H r i t k h a n ->
  exists m, In (Msg m) H /\ m_sender m = a /\ m_round m = r /\ m_idx m = i /\ m_type m = t /\ m_hash m = h /\
            cred_weight E m = Some (m_votes m) /\ 0 < m_votes m /\ n = w32 (m_votes m).
Proof.
  intros Hmode (H1 & H2 & m & thr & HH & Hr & Hi & Ht & Hh & Ha & Hn & _ & _ & Hc).
  exists m. split; [rewrite HH; apply in_or_app; right; left; reflexivity|].
  assert (Hw : cred_weight E m = Some (m_votes m) /\ 0 < m_votes m).
  { destruct Hmode as [Hf|Hs]; [eapply repaired_credential_sound | eapply stub_credential_sound]; eassumption. }
  destruct Hw as (Hw1 & Hw2). repeat split; try assumption. symmetry. exact Hn.
Qed.

(* ---- house votes ------------------------------------------------------------------------------ *)
(* a vote recorded in a chamber tally was delivered with a chamber stake look-up
   (or is the voter's own chamber vote): a house member's vote is never in it *)
Lemma counted_chamber_is_chamber E H r i t h a n :
  Counted E H r i t Chamber h a n ->
  (exists m thr, In (Msg m) H /\ m_sender m = a /\ m_round m = r /\ m_idx m = i /\ m_type m = t /\
                 m_hash m = h /\ m_stake m = Some (thr, Chamber))
  \/ (a = self E /\ exists n0 thr, own_view (own E) r i t = Some (n0, thr, Chamber)).
Proof.
  intros [(H1 & H2 & m & thr & HH & Hr & Hi & Ht & Hh & Ha & _ & _ & Hst & _)|(Ha & n0 & thr & Ho & _)].
  - left. exists m, thr. split; [rewrite HH; apply in_or_app; right; left; reflexivity|]. tauto.
  - right. split; [exact Ha|]. exists n0, thr. exact Ho.
Qed.

(* recording a house vote, or flagging a house double voter, leaves every chamber
   tally as it is; a house quorum never sets a chamber latch *)
Lemma house_vote_leaves_chamber w t a h n :
  w_chamber (fst (fst (w_new_vote w t House a h n))) = w_chamber w
  /\ w_chamber (fst (fst (w_addr_info w t House a h))) = w_chamber w.
Proof.
  unfold w_new_vote, w_addr_info. cbn [wsta].
  destruct (sta_new_vote (mget (w_house w) t) a h n) as [[s1 b1] c1].
  destruct (sta_addr_info (mget (w_house w) t) (vt_eqb t V.NextIndex) a h) as [[s2 r2] o2].
  split; reflexivity.
Qed.

Lemma house_quorum_sets_no_chamber_latch s t t' :
  vst_status (vst_update s t House) t' Chamber = vst_status s t' Chamber.
Proof. reflexivity. Qed.
