(* C03 / C02 tie - the voter never signs two conflicting votes.
   Every step of the voter model (including restarts: NewVoter over the same
   store) performs on its vote database a list of operations of C02's model
   (Ctx for VoteDB.UpdateContext, Vote for UpdateVoteData, Restart for
   NewVoteDB) whose emissions are exactly, and in the same order, the votes the
   voter posts (SendMessageEvent).  C02's theorem over all op lists then bounds
   the voter's votes per (kind, round, index); and every posted vote comes out
   of an UpdateVoteData whose store already holds the record. *)
From VF.C03 Require Import Model ProofsD.
From VF.C02 Require Proofs.
From Coq Require Import ZArith Lia.
Local Open Scope N_scope.

Module P := VF.C02.Proofs.

(* the votes among the posted events, as C02 writes them: (kind, position) *)
Definition sends (ev : list event) : list (vtype * N) :=
  flat_map (fun e => match e with ESend t r i _ _ _ => [(t, V.enc r i)] | _ => [] end) ev.

Lemma sends_app a b : sends (a ++ b) = sends a ++ sends b.
Proof. unfold sends. apply flat_map_app. Qed.

(* ---- two facts about C02's runner (kept here: coq/C02 is not touched) ------------ *)
Lemma vrun_app d a b :
  V.run d (a ++ b) =
  let '(d1, o1) := V.run d a in let '(d2, o2) := V.run d1 b in (d2, o1 ++ o2).
Proof.
  revert d. induction a as [|x a IH]; intros d; cbn [app V.run].
  - destruct (V.run d b). reflexivity.
  - destruct (V.step d x) as [d1 x1]. rewrite IH.
    destruct (V.run d1 a) as [d2 o2]. destruct (V.run d2 b) as [d3 o3]. reflexivity.
Qed.

Lemma vemitted_app a b : V.emitted (a ++ b) = V.emitted a ++ V.emitted b.
Proof. unfold V.emitted. apply flat_map_app. Qed.

(* ---- the simulation relation ----------------------------------------------------------- *)
(* from database d the op list dops leads to d' and lets out exactly [em] *)
Definition db_run (d : V.vdb) (dops : list V.op) (d' : V.vdb) (em : list (vtype * N)) : Prop :=
  fst (V.run d dops) = d' /\ V.emitted (snd (V.run d dops)) = em.

Definition DbSim (v v' : voter) (ev : list event) : Prop :=
  exists dops, db_run (v_db v) dops (v_db v') (sends ev).

Lemma db_run_nil d : db_run d [] d [].
Proof. split; reflexivity. Qed.

Lemma db_run_app d a d1 e1 b d2 e2 :
  db_run d a d1 e1 -> db_run d1 b d2 e2 -> db_run d (a ++ b) d2 (e1 ++ e2).
Proof.
  intros (A1 & A2) (B1 & B2). unfold db_run. rewrite vrun_app.
  destruct (V.run d a) as [x1 o1]. cbn [fst snd] in *. subst x1.
  destruct (V.run d1 b) as [x2 o2]. cbn [fst snd] in *. subst x2.
  split; [reflexivity|]. rewrite vemitted_app. congruence.
Qed.

Lemma DbSim_refl v v' : v_db v' = v_db v -> DbSim v v' [].
Proof. intros Hd. exists []. rewrite Hd. apply db_run_nil. Qed.

Lemma DbSim_trans a b c e1 e2 : DbSim a b e1 -> DbSim b c e2 -> DbSim a c (e1 ++ e2).
Proof.
  intros (d1 & H1) (d2 & H2). exists (d1 ++ d2). rewrite sends_app. eapply db_run_app; eassumption.
Qed.

Lemma DbSim_same a b c ev : v_db c = v_db b -> DbSim a b ev -> DbSim a c ev.
Proof. intros Hd (dops & H). exists dops. rewrite Hd. exact H. Qed.

Lemma DbSim_pre a b c ev : DbSim a b [] -> DbSim b c ev -> DbSim a c ev.
Proof. intros H1 H2. exact (DbSim_trans a b c [] ev H1 H2). Qed.

Ltac sim_id := apply DbSim_refl; reflexivity.

Section Sim.
Variable E : env.

Definition SimV (VT : vote_fn) : Prop :=
  forall v t h p, DbSim v (fst (fst (VT v t h p))) (snd (fst (VT v t h p))).
Definition SimJ (J : voter -> vtype -> N -> N -> N -> N -> vkind -> voter * list event) : Prop :=
  forall v t c thr h p k, DbSim v (fst (J v t c thr h p k)) (snd (J v t c thr h p k)).
Definition SimM (SM : marked_fn) : Prop :=
  forall v h p, DbSim v (fst (SM v h p)) (snd (SM v h p)).

Lemma commit_sim v h p : DbSim v (fst (commit v h p)) (snd (commit v h p)).
Proof.
  unfold commit. destruct (negb (in_cache v h)); cbn [fst snd]; [sim_id|].
  exists []. split; reflexivity.
Qed.

Lemma judge_gen_sim VT SM : SimV VT -> SimM SM -> SimJ (judge_gen VT SM).
Proof.
  intros HV HM v t c thr h p k. unfold judge_gen.
  destruct (negb (over_threshold c thr (negb (vt_eqb t V.Certificate))) || v_committed v && negb (vt_eqb t V.Precommit));
    [cbn [fst snd]; sim_id|].
  destruct (v_committed v && vt_eqb t V.Precommit); [cbn [fst snd]; sim_id|].
  set (v0 := set_over v _).
  assert (H0 : DbSim v v0 []) by sim_id.
  destruct (negb (vk_eqb k Chamber)); [exact H0|].
  destruct t.
  - destruct (negb (v_precommitted v0)); [|exact H0].
    pose proof (HV v0 V.Precommit h p) as G1.
    destruct (VT v0 V.Precommit h p) as [[v1 e1] ok]. cbn [fst snd] in G1.
    pose proof (HM (if ok then set_precommitted v1 true else v1) h p) as G2.
    destruct (SM (if ok then set_precommitted v1 true else v1) h p) as [v3 e3]. cbn [fst snd] in *.
    eapply DbSim_pre; [exact H0|]. eapply DbSim_trans; [|exact G2].
    destruct ok; [eapply DbSim_same; [|exact G1]; reflexivity | exact G1].
  - destruct (negb (v_cert v0)).
    + pose proof (commit_sim v0 h p) as G1. destruct (commit v0 h p) as [v1 e1].
      pose proof (HM v1 h p) as G2. destruct (SM v1 h p) as [v2 e2]. cbn [fst snd] in *.
      eapply DbSim_pre; [exact H0|]. eapply DbSim_trans; eassumption.
    + destruct (negb (v_certificated v0)).
      * pose proof (HV v0 V.Certificate h p) as G1.
        destruct (VT v0 V.Certificate h p) as [[v1 e1] ok]. cbn [fst snd] in *.
        eapply DbSim_pre; [exact H0|].
        destruct ok; [eapply DbSim_same; [|exact G1]; reflexivity | exact G1].
      * destruct (vst_status (over_get v0 h) V.Certificate Chamber); [|exact H0].
        pose proof (commit_sim v0 h p) as G1. destruct (commit v0 h p) as [v1 e1].
        pose proof (HM v1 h p) as G2. destruct (SM v1 h p) as [v2 e2]. cbn [fst snd] in *.
        eapply DbSim_pre; [exact H0|]. eapply DbSim_trans; eassumption.
  - destruct (v_sent v0); [exact H0|]. cbn [fst snd]. exists []. split; reflexivity.
  - destruct (vst_status (over_get v0 h) V.Precommit Chamber); [|exact H0].
    pose proof (commit_sim v0 h p) as G1. destruct (commit v0 h p) as [v1 e1].
    pose proof (HM v1 h p) as G2. destruct (SM v1 h p) as [v2 e2]. cbn [fst snd] in *.
    eapply DbSim_pre; [exact H0|]. eapply DbSim_trans; eassumption.
Qed.

(* one successful UpdateVoteData is one Vote op of C02's model, letting the vote out *)
Lemma vote_op_run d t r i d' :
  V.update_vote_data d t (V.enc r i) = (d', true) ->
  db_run d [V.Vote t r i] d' [(t, V.enc r i)].
Proof.
  intros Hu. unfold db_run. cbn [V.run V.step]. rewrite Hu. cbn. split; reflexivity.
Qed.

Lemma vote_gen_sim J : SimJ J -> SimV (vote_gen E J).
Proof.
  intros HJ v t h p. unfold vote_gen.
  destruct (own_view (own E) (round_of v) (v_idx v) t) as [[[seats thr] k]|]; [|cbn [fst snd]; sim_id].
  destruct (vt_eqb t V.NextIndex && match v_next_voted v with Some _ => true | None => false end
            && V.already_voted (v_db v) V.NextIndex (V.enc (round_of v) (v_idx v))); [cbn [fst snd]; sim_id|].
  destruct (vt_eqb t V.Certificate && negb (certp_ok E)); [cbn [fst snd]; sim_id|].
  destruct (V.update_vote_data (v_db v) t (V.enc (round_of v) (v_idx v))) as [d okd] eqn:Hu.
  destruct okd; cbn [negb]; [|cbn [fst snd]; sim_id].
  set (v1 := set_db v d).
  assert (Hfirst : forall v2 v3 e3, v_db v2 = d -> DbSim v2 v3 e3 ->
            DbSim v v3 (ESend t (round_of v) (v_idx v) h p seats :: e3)).
  { intros v2 v3 e3 Hd (dops & Hr). exists ([V.Vote t (round_of v) (v_idx v)] ++ dops).
    change (sends (ESend t (round_of v) (v_idx v) h p seats :: e3))
      with ([(t, V.enc (round_of v) (v_idx v))] ++ sends e3).
    eapply db_run_app; [apply vote_op_run; exact Hu|]. rewrite <- Hd. exact Hr. }
  destruct (get_wrapper (v_ws v1) (cur_key v1)) as [w|].
  - destruct (w_new_vote w t k (self E) h seats) as [[w' add] c].
    set (v2 := set_ws v1 (set_wrapper (v_ws v1) (cur_key v1) w')).
    pose proof (HJ v2 t c thr h p k) as G. destruct (J v2 t c thr h p k) as [v3 e3]. cbn [fst snd] in *.
    apply (Hfirst v2); [reflexivity|exact G].
  - pose proof (HJ v1 t 0 thr h p k) as G. destruct (J v1 t 0 thr h p k) as [v3 e3]. cbn [fst snd] in *.
    apply (Hfirst v1); [reflexivity|exact G].
Qed.

Lemma set_marked_gen_sim VT : SimV VT -> SimM (set_marked_gen VT).
Proof.
  intros HV v h p. unfold set_marked_gen.
  destruct (match v_next_voted v with
            | Some (nh, _) => negb (nh =? 0) || (nh =? h) || (h =? 0)
            | None => false end); [cbn [fst snd]; sim_id|].
  destruct (negb (in_cache v h) && negb (h =? 0)); [cbn [fst snd]; sim_id|].
  destruct (v_step v <? 4).
  { cbn [fst snd]. destruct ((match v_next_marked v with None => true | Some _ => false end) && negb (h =? 0));
      sim_id. }
  pose proof (HV v V.NextIndex h p) as G. destruct (VT v V.NextIndex h p) as [[v1 e1] ok]. cbn [fst snd] in *.
  destruct ok; [exact G | eapply DbSim_same; [|exact G]; reflexivity].
Qed.

Lemma vote_none_sim : SimV vote_none.
Proof. intros v t h p. cbn. sim_id. Qed.
Lemma marked_none_sim : SimM marked_none.
Proof. intros v h p. cbn. sim_id. Qed.

Lemma vote0_sim : SimV (vote0 E).
Proof. apply vote_gen_sim, judge_gen_sim; [apply vote_none_sim | apply marked_none_sim]. Qed.
Lemma set_marked_sim : SimM (set_marked E).
Proof. apply set_marked_gen_sim, vote0_sim. Qed.
Lemma vote1_sim : SimV (vote1 E).
Proof. apply vote_gen_sim, judge_gen_sim; [apply vote0_sim | apply set_marked_sim]. Qed.
Lemma vote2_sim : SimV (vote2 E).
Proof. apply vote_gen_sim, judge_gen_sim; [apply vote1_sim | apply set_marked_sim]. Qed.
Lemma judge_sim : SimJ (judge E).
Proof. apply judge_gen_sim; [apply vote2_sim | apply set_marked_sim]. Qed.
Lemma vote_sim : SimV (vote E).
Proof. apply vote_gen_sim, judge_sim. Qed.

(* ---- updateContext: VoteDB.UpdateContext is C02's Ctx op ------------------------------------- *)
Lemma update_context_sim v r i stp cert maxp :
  DbSim v (fst (update_context E v r i stp cert maxp)) (snd (update_context E v r i stp cert maxp)).
Proof.
  unfold update_context.
  match goal with
  | |- context [let '(va, ea) := ?X in _] => destruct X as [va ea] eqn:Hva
  end.
  assert (Hda : v_db va = v_db v /\ sends ea = []).
  { destruct (match v_round v with
              | Some r0 => negb (r0 =? r) || negb (v_idx v =? i)
              | None => true end); inversion Hva; subst va ea; [|split; reflexivity].
    split; [reflexivity|].
    destruct (v_upd v) as [[[ur ui] uh]|]; [|reflexivity].
    destruct (get_wrapper (v_ws v) (ur, ui)); reflexivity. }
  destruct Hda as (Hda & Hea).
  set (vb := mkVoter (Some r) i stp cert _ _ _ _ _ _ _ _ _ _ _ _ _).
  assert (Hb : forall vc ec, DbSim vb vc ec -> DbSim v vc (ea ++ ec)).
  { intros vc ec (dops & Hr). exists ([V.Ctx r i] ++ dops). rewrite sends_app, Hea.
    change ([] ++ sends ec) with ([] ++ sends ec). eapply db_run_app; [|exact Hr].
    unfold db_run. cbn [V.run V.step fst snd vb v_db]. rewrite Hda. split; reflexivity. }
  assert (Hnil : DbSim v vb ea).
  { rewrite <- (app_nil_r ea). apply Hb. sim_id. }
  destruct (stp =? 2).
  - destruct (match v_cur_marked vb with
              | Some (h, p) => if negb (h =? 0) then Some (h, p) else None
              | None => None end) as [[h p]|].
    + pose proof (vote_sim vb V.Prevote h p) as G.
      destruct (vote E vb V.Prevote h p) as [[vc ec] okc]. cbn [fst snd] in *. apply Hb. exact G.
    + destruct maxp as [[p h]|]; [|exact Hnil].
      pose proof (vote_sim vb V.Prevote h p) as G.
      destruct (vote E vb V.Prevote h p) as [[vc ec] okc]. cbn [fst snd] in *. apply Hb. exact G.
  - destruct ((stp =? 4) || (stp =? 5)); [|exact Hnil].
    destruct (v_committed vb || v_sent vb); [exact Hnil|].
    destruct (v_next_marked vb) as [[h p]|].
    + pose proof (set_marked_sim vb h p) as G. destruct (set_marked E vb h p) as [vc ec]. cbn [fst snd] in *.
      apply Hb. exact G.
    + pose proof (set_marked_sim vb 0 0) as G. destruct (set_marked E vb 0 0) as [vc ec]. cbn [fst snd] in *.
      apply Hb. exact G.
Qed.

(* ---- processVoteMsg touches the database only through judgeVoteCount ---------------------------- *)
Lemma process_sim v m : DbSim v (fst (fst (process E v m))) (snd (fst (process E v m))).
Proof.
  assert (Hr : DbSim v v []) by sim_id.
  unfold process.
  destruct (match m_status m with Same => true | _ => false end && m_novote m); [exact Hr|].
  destruct (match m_status m with Same => true | _ => false end
            && (negb (m_round m =? round_of v) || negb (m_idx m =? v_idx v))); [exact Hr|].
  destruct (vt_eqb (m_type m) V.Certificate && negb (certp_ok E)); [exact Hr|].
  destruct (negb (m_sig m)); [exact Hr|].
  destruct (m_stake m) as [[thr k]|]; [|exact Hr].
  destruct (cred_verdict E v m); try exact Hr.
  assert (Hmain : forall same : bool,
    (fun z : voter * list event * N => DbSim v (fst (fst z)) (snd (fst z)))
    (let key := (m_round m, m_idx m) in
          let t := m_type m in
          let ow := get_wrapper (v_ws v) key in
          if negb same && ((match ow with None => true | Some _ => false end) || negb (vt_eqb t V.Precommit))
          then (v, [], ret_ok)
          else
            let ws := match ow with Some _ => v_ws v | None => new_wrapper (v_ws v) key end in
            let w := match get_wrapper ws key with Some w => w | None => wrapper_empty end in
            let '(w1, res, oldh) := w_addr_info w t k (m_sender m) (m_hash m) in
            match res with
            | ANotVoted =>
              let '(w2, add, total) := w_new_vote w1 t k (m_sender m) (m_hash m) (m_votes m) in
              let v1 := set_ws v (set_wrapper ws key w2) in
              if negb add then (v1, [], ret_ok)
              else if same then
                let '(v2, e2) := judge E v1 t total thr (m_hash m) (m_prio m) k in (v2, e2, ret_ok)
              else if over_threshold total thr false then
                (v1, [EUpdate (m_round m) (m_idx m) (m_hash m)
                              (w_votes w2 V.Precommit Chamber (m_hash m))
                              (w_votes w2 V.Precommit House (m_hash m))], ret_ok)
              else (v1, [], ret_ok)
            | ADifferent =>
              let v0 := set_ws v (set_wrapper ws key w1) in
              let v1 :=
                match oldh with
                | Some h0 =>
                  if fix_latch E && negb (vt_eqb t V.NextIndex) && key_eqb key (cur_key v)
                     && negb (over_threshold (match wsta w1 k t with Some s => cnt s h0 | None => 0 end)
                                             thr (negb (vt_eqb t V.Certificate)))
                  then set_over v0 ((h0, vst_clear (over_get v0 h0) t k) :: v_over v0)
                  else v0
                | None => v0
                end in
              match oldh with
              | Some h0 =>
                if negb (vt_eqb t V.NextIndex) && evid_on E
                then (v1, [EEvidence (m_round m) (m_idx m) t h0 (m_hash m)], ret_ok)
                else (v1, [], ret_ok)
              | None => (v1, [], ret_ok)
              end
            | _ => (set_ws v (set_wrapper ws key w1), [], ret_ok)
            end)).
  { intros same. cbv zeta. set (key := (m_round m, m_idx m)).
    destruct (negb same && ((match get_wrapper (v_ws v) key with None => true | Some _ => false end)
                            || negb (vt_eqb (m_type m) V.Precommit))); [exact Hr|].
    set (ws := match get_wrapper (v_ws v) key with Some _ => v_ws v | None => new_wrapper (v_ws v) key end).
    set (w := match get_wrapper ws key with Some w => w | None => wrapper_empty end).
    destruct (w_addr_info w (m_type m) k (m_sender m) (m_hash m)) as [[w1 res] oldh].
    destruct res; try (cbn [fst snd]; sim_id).
    - destruct (w_new_vote w1 (m_type m) k (m_sender m) (m_hash m) (m_votes m)) as [[w2 add] total].
      destruct (negb add); [cbn [fst snd]; sim_id|].
      destruct same.
      + pose proof (judge_sim (set_ws v (set_wrapper ws key w2)) (m_type m) total thr (m_hash m) (m_prio m) k) as G.
        destruct (judge E (set_ws v (set_wrapper ws key w2)) (m_type m) total thr (m_hash m) (m_prio m) k) as [v2 e2].
        cbn [fst snd] in *. eapply DbSim_pre; [|exact G]. sim_id.
      + destruct (over_threshold total thr false); cbn [fst snd]; [exists []; split; reflexivity | sim_id].
    - destruct oldh;
        [match goal with |- context [if ?c then set_over _ _ else _] => destruct c end;
         destruct (negb (vt_eqb (m_type m) V.NextIndex) && evid_on E)|];
        cbn [fst snd]; first [sim_id | exists []; split; reflexivity]. }
  destruct (m_status m); try exact Hr;
    first [exact (Hmain true) | exact (Hmain false)].
Qed.

Theorem step_sim v o : DbSim v (fst (fst (step E v o))) (snd (fst (step E v o))).
Proof.
  destruct o as [r i s cert maxp|m|h b|r i|]; cbn [step].
  - pose proof (update_context_sim v r i s cert maxp) as G.
    destruct (update_context E v r i s cert maxp) as [v' e]. exact G.
  - apply process_sim.
  - destruct b; cbn [fst snd]; sim_id.
  - cbn [fst snd]. sim_id.
  - cbn [fst snd]. exists [V.Restart]. split; reflexivity.
Qed.

(* ---- whole histories ------------------------------------------------------------------------------ *)
(* every event the voter posts over a history, in order *)
Definition all_events (v : voter) (ops : list op) : list event :=
  flat_map fst (run_from E v ops).

Lemma run_sim : forall ops v, DbSim v (run_on E v ops) (all_events v ops).
Proof.
  induction ops as [|o r IH]; intros v.
  - cbn. sim_id.
  - pose proof (step_sim v o) as G. pose proof (IH (fst (fst (step E v o)))) as G2.
    unfold all_events in *. cbn [run_from run_on fold_left].
    destruct (step E v o) as [[v1 e1] c1]. cbn [fst snd flat_map] in *.
    eapply DbSim_trans; eassumption.
Qed.

(* the simulation: the history of the voter is a history of the vote database
   with exactly the same votes let out *)
Theorem voter_is_votedb_history : forall ops,
  exists dops, V.emitted (snd (V.run V.init dops)) = sends (all_events init_voter ops)
               /\ fst (V.run V.init dops) = v_db (run_on E init_voter ops).
Proof.
  intros ops. destruct (run_sim ops init_voter) as (dops & H1 & H2).
  exists dops. split; [exact H2 | exact H1].
Qed.

(* at most one vote per kind and (round, index), two for next-index, over any
   history with any number of restarts *)
Theorem voter_one_vote : forall ops k p,
  (V.count_votes k p (sends (all_events init_voter ops)) <= V.limit k)%nat.
Proof.
  intros ops k p. destruct (voter_is_votedb_history ops) as (dops & He & _).
  rewrite <- He. apply P.one_vote.
Qed.

(* persist before post, function level: a vote goes out (err == nil) only in the
   branch after UpdateVoteData succeeded; the store it returned holds the record,
   the SendMessageEvent is the first event of that branch, and everything later
   (newVote, judgeVoteCount, the returned state) proceeds from that store *)
Theorem vote_persists_first : forall v t h p v' ev,
  vote E v t h p = (v', ev, true) ->
  exists d sl n rest,
    V.update_vote_data (v_db v) t (V.enc (round_of v) (v_idx v)) = (d, true) /\
    V.kind_of sl = t /\ V.st d sl = Some (V.enc (round_of v) (v_idx v)) /\
    ev = ESend t (round_of v) (v_idx v) h p n :: rest.
Proof.
  intros v t h p v' ev Hx. unfold vote, vote_gen in Hx.
  destruct (own_view (own E) (round_of v) (v_idx v) t) as [[[seats thr] k]|]; [|discriminate Hx].
  destruct (vt_eqb t V.NextIndex && match v_next_voted v with Some _ => true | None => false end
            && V.already_voted (v_db v) V.NextIndex (V.enc (round_of v) (v_idx v))); [discriminate Hx|].
  destruct (vt_eqb t V.Certificate && negb (certp_ok E)); [discriminate Hx|].
  destruct (V.update_vote_data (v_db v) t (V.enc (round_of v) (v_idx v))) as [d okd] eqn:Hu.
  destruct okd; cbn [negb] in Hx; [|discriminate Hx].
  assert (Hst : V.step (v_db v) (V.Vote t (round_of v) (v_idx v)) = (d, V.OEmit t (V.enc (round_of v) (v_idx v)))).
  { cbn [V.step]. rewrite Hu. reflexivity. }
  destruct (P.persisted_when_emitted _ _ _ _ _ Hst) as (sl & Hk & Hs).
  exists d, sl, seats.
  destruct (get_wrapper (v_ws (set_db v d)) (cur_key (set_db v d))) as [w|].
  - destruct (w_new_vote w t k (self E) h seats) as [[w' add] c].
    match type of Hx with context [judge E ?a ?b ?c0 ?d0 ?e ?f ?g] => destruct (judge E a b c0 d0 e f g) as [v3 e3] end.
    inversion Hx; subst. exists e3. repeat split; assumption.
  - match type of Hx with context [judge E ?a ?b ?c0 ?d0 ?e ?f ?g] => destruct (judge E a b c0 d0 e f g) as [v3 e3] end.
    inversion Hx; subst. exists e3. repeat split; assumption.
Qed.

(* persist before post, history level: in the database history the voter's
   history induces, every vote that is let out comes out of an UpdateVoteData
   whose resulting store holds the record *)
Theorem voter_persist_before_post : forall ops,
  exists dops,
    V.emitted (snd (V.run V.init dops)) = sends (all_events init_voter ops) /\
    forall d1 o d2 k q d',
      dops = d1 ++ o :: d2 ->
      V.step (fst (V.run V.init d1)) o = (d', V.OEmit k q) ->
      exists sl, V.kind_of sl = k /\ V.st d' sl = Some q.
Proof.
  intros ops. destruct (voter_is_votedb_history ops) as (dops & He & _).
  exists dops. split; [exact He|].
  intros d1 o d2 k q d' _ Hs. destruct o as [r i|k0 r i|k0 r i| |k0 r i]; cbn [V.step] in Hs.
  - inversion Hs.
  - destruct (V.update_vote_data (fst (V.run V.init d1)) k0 (V.enc r i)) as [dd ok] eqn:Hu.
    destruct ok; inversion Hs; subst.
    apply (P.persisted_when_emitted (fst (V.run V.init d1)) k r i d').
    cbn [V.step]. rewrite Hu. reflexivity.
  - inversion Hs.
  - inversion Hs.
  - destruct (V.already_voted (fst (V.run V.init d1)) k0 (V.enc r i)); inversion Hs.
Qed.

End Sim.
