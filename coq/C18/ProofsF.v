(* C18 - Schedule and Results preserve the bookkeeping invariant; the invariant
   of whole legal histories; nothing is lost, the cache index never overflows. *)
From Coq Require Import Lia ZifyBool ZifyN ZifyNat Permutation Sorted.
From VF.C18 Require Import Model ProofsA ProofsB ProofsC ProofsD ProofsE.
Local Open Scope N_scope.

Section Histories.
Variable derive : list N -> N.
Variable empty_root : N.
Hypothesis derive_nil : derive [] = empty_root.
Variable cache_len : nat.
Variable start : N.

Notation SI := (SI derive cache_len).
Notation Cfacts := (Cfacts derive cache_len).

(* ---- Schedule ---------------------------------------------------------------------- *)
Lemma schedule_loop_queue hs : forall from s s' ins,
  schedule_loop hs from s = (s', ins) ->
  Permutation (tqueue s') (ins ++ tqueue s) /\ (sortedq (tqueue s) -> sortedq (tqueue s')).
Proof.
  induction hs as [|h hs IH]; simpl; intros from s s' ins H.
  - injection H as <- <-. simpl. auto.
  - destruct (negb (h_num h =? from)); [injection H as <- <-; simpl; auto|].
    destruct (negb (head s =? 0) && negb (head s =? h_parent h)); [injection H as <- <-; simpl; auto|].
    destruct (memN (h_hash h) (tpool s)); [eauto|].
    destruct (schedule_loop hs (from + 1) _) as [s2 ins2] eqn:E.
    injection H as <- <-. apply IH in E as (A & B). simpl in *. split.
    + rewrite A, qpush_perm. symmetry. apply Permutation_middle.
    + intros Hs. apply B, qpush_sorted; auto.
Qed.

Lemma schedule_SI g U hs from s s' ins :
  SI g U s -> schedule_loop hs from s = (s', ins) -> Ufacts (g ++ ins) (U ++ ins) s' ->
  SI (g ++ ins) (U ++ ins) s'.
Proof.
  intros [A B C D E F] H Hu.
  pose proof (schedule_loop_frame _ _ _ _ _ H) as (F1 & F2 & F3 & F4 & F5).
  pose proof (schedule_loop_queue _ _ _ _ _ H) as (Q1 & Q2).
  assert (Hcp : completed s' = completed s) by (apply completed_same; auto).
  constructor; auto.
  - destruct B as [B1 B2 B3 B4 B5 B6]. constructor.
    + eapply slot_ok_same; eauto.
    + intros i r. rewrite F1. intros Hr. eapply slot_good_mono; [|eapply B2; eauto]. apply incl_appl, incl_refl.
    + congruence.
    + rewrite F1; auto.
    + intros i r. rewrite F1. intros Hr. apply in_or_app. left. eapply B5; eauto.
    + unfold done_ok. rewrite F4, Hcp. auto.
  - rewrite Q1, F3, Hcp. rewrite <- C. rewrite <- app_assoc. apply Permutation_app_comm.
  - rewrite F3; auto.
  - intros h Hh. rewrite F3, Hcp in Hh. apply (slotted_same s); auto.
Qed.

(* ---- Results ------------------------------------------------------------------------- *)
Lemma cplt_map_Some rs : Forall (fun r => (r_pending r <= 0)%Z) rs -> cplt (map Some rs) = map r_hdr rs.
Proof.
  unfold cplt. induction 1 as [|r rs Hr _ IH]; simpl; auto.
  unfold complete at 1. replace (r_pending r <=? 0)%Z with true by lia. simpl. f_equal; auto.
Qed.

Lemma In_fold_delN (rs : list result) : forall d x,
  In x (fold_left (fun d r => delN (h_hash (r_hdr r)) d) rs d) <->
  In x d /\ ~ In x (map (fun r => h_hash (r_hdr r)) rs).
Proof.
  induction rs as [|r rs IH]; simpl; intros d x; [tauto|].
  rewrite IH, In_delN. intuition.
Qed.

Lemma nth_shift n (c : list (option result)) j :
  (n <= length c)%nat ->
  nth j (skipn n c ++ repeat None n) None = if Nat.ltb (n + j) (length c) then nth (n + j) c None else None.
Proof.
  intros Hn. destruct (Nat.ltb (n + j) (length c)) eqn:L.
  - apply Nat.ltb_lt in L. rewrite app_nth1 by (rewrite skipn_length; lia). apply nth_skipn'.
  - apply Nat.ltb_ge in L. rewrite app_nth2 by (rewrite skipn_length; lia).
    destruct (nth_in_or_default (j - length (skipn n c)) (repeat None n) (@None result)) as [Hin|Hd]; auto.
    apply repeat_spec in Hin; auto.
Qed.

Lemma perm_rot {A} (a b c d : list A) : Permutation (a ++ b ++ c ++ d) (b ++ c ++ a ++ d).
Proof.
  replace (a ++ b ++ c ++ d) with ((a ++ (b ++ c)) ++ d) by (rewrite <- !app_assoc; reflexivity).
  replace (b ++ c ++ a ++ d) with (((b ++ c) ++ a) ++ d) by (rewrite <- !app_assoc; reflexivity).
  apply Permutation_app_tail, Permutation_app_comm.
Qed.

Lemma NoDup_app_disj {A} (a b : list A) x : NoDup (a ++ b) -> In x a -> In x b -> False.
Proof.
  induction a as [|y a IH]; simpl; intros Hn Ha Hb; auto.
  inversion Hn as [|? ? Hy Hn']; subst. destruct Ha as [->|Ha]; auto.
  apply Hy. apply in_or_app; auto.
Qed.

Lemma results_SI g U U' s :
  SI g U s ->
  let s' := fst (results s) in
  let rs := snd (results s) in
  U = map r_hdr rs ++ U' -> Ufacts g U' s' -> SI g U' s'.
Proof.
  intros Hsi s' rs HU Hu'. destruct Hsi as [A B C D E F].
  pose proof (results_released s (c_slot _ _ _ _ _ B)) as HR.
  unfold s', rs in *. clear s' rs. unfold results in *.
  set (n := Nat.min (count_proc (cache s)) max_results) in *.
  destruct (count_proc_some (cache s) n) as (rs & H1 & H2 & H3); [lia|].
  rewrite H1, somes_map_Some in *. cbn [fst snd] in *.
  destruct HR as (R1 & R2 & R3 & R4 & R5).
  assert (Hn : (n <= length (cache s))%nat) by (pose proof (count_proc_le (cache s)); lia).
  assert (Hcache : cache s = map Some rs ++ skipn n (cache s)) by (rewrite <- H1; symmetry; apply firstn_skipn).
  assert (Hcp : completed s = map r_hdr rs ++ cplt (skipn n (cache s))).
  { unfold completed. rewrite Hcache at 1. rewrite cplt_app, cplt_map_Some; auto. }
  set (c' := skipn n (cache s) ++ repeat None n).
  assert (Hcp' : cplt c' = cplt (skipn n (cache s))).
  { unfold c'. rewrite cplt_app. unfold cplt at 2. rewrite somes_repeat_None. simpl. apply app_nil_r. }
  assert (Hperm : Permutation (tqueue s ++ flat (pend s) ++ cplt c') U').
  { rewrite Hcp' . rewrite Hcp, HU in C.
    apply (Permutation_app_inv_l (map r_hdr rs)). rewrite <- C. apply perm_rot. }
  assert (HinU' : forall h, In h U' -> offset s + N.of_nat n <= h_num h).
  { intros h Hh. pose proof (U_range _ _ _ _ Hu' Hh) as Hr. simpl in Hr. lia. }
  assert (Hnth : forall j, nth j c' None = if Nat.ltb (n + j) (length (cache s)) then nth (n + j) (cache s) None else None)
    by (intros j; apply nth_shift; auto).
  constructor; auto.
  - destruct B as [B1 B2 B3 B4 B5 B6]. constructor; auto.
    + intros j r. cbn [cache]. fold c'. rewrite Hnth. destruct (Nat.ltb (n + j) _); [apply B2|discriminate].
    + rewrite <- B3. exact R4.
    + cbn [cache]. fold c'. intros a b Hab. rewrite !Hnth.
      destruct (Nat.ltb (n + a) _) eqn:La, (Nat.ltb (n + b) _) eqn:Lb; auto.
      * apply B4. lia.
      * apply Nat.ltb_lt in Lb. apply Nat.ltb_ge in La. lia.
    + cbn [cache]. fold c'. intros j r. rewrite Hnth. destruct (Nat.ltb (n + j) _); [|discriminate].
      intros Hr. pose proof (B5 _ _ Hr) as HinU. rewrite HU in HinU. apply in_app_or in HinU as [Hin|Hin]; auto.
      exfalso. apply in_map_iff in Hin as (r0 & Hr0 & Hin0).
      assert (Hnum : In (rnum r0) (Nseq (offset s) (length rs))) by (rewrite <- R1; apply in_map; auto).
      apply In_Nseq in Hnum. apply B1 in Hr. unfold rnum in *. rewrite Hr0 in Hnum. lia.
    + unfold done_ok, completed. cbn [done cache]. fold c'. intros x. rewrite In_fold_delN.
      rewrite (B6 x), Hcp, Hcp', map_app, in_app_iff.
      assert (Hdisj : In x (map h_hash (cplt (skipn n (cache s)))) ->
                      ~ In x (map (fun r => h_hash (r_hdr r)) rs)).
      { intros Hx Hy. pose proof (u_hash _ _ _ A) as Hnd. rewrite HU, map_app in Hnd.
        rewrite <- map_map in Hy.
        eapply (NoDup_app_disj _ _ x Hnd); eauto.
        apply in_map_iff in Hx as (h & <- & Hh). apply in_map.
        eapply Permutation_in; [exact Hperm|]. rewrite Hcp' . rewrite !in_app_iff. auto. }
      rewrite <- (map_map r_hdr h_hash) in *. tauto.
  - intros h Hh. cbn [pend] in Hh. unfold completed in Hh; cbn [cache] in Hh. fold c' in Hh.
    assert (HhU' : In h U') by (eapply Permutation_in; [exact Hperm|rewrite in_app_iff; auto]).
    specialize (HinU' h HhU').
    assert (Hs : slotted s h).
    { apply F. rewrite Hcp, Hcp' in *. rewrite !in_app_iff in *. tauto. }
    destruct Hs as [Hb Hne]. destruct (index_ok_nat _ _ Hb) as [Hnum Hlt].
    unfold slotted, idx, index_bad, slot_index in *. cbn [offset cache]. fold c'.
    assert (Hlen : length c' = length (cache s)) by (unfold c'; rewrite app_length, skipn_length, repeat_length; lia).
    rewrite Hlen. split; [lia|].
    rewrite Hnth.
    replace (n + Z.to_nat (Z.of_N (h_num h) - Z.of_N (offset s + N.of_nat n)))%nat
      with (Z.to_nat (Z.of_N (h_num h) - Z.of_N (offset s))) by lia.
    apply Nat.ltb_lt in Hlt. rewrite Hlt. auto.
Qed.

End Histories.
