(* C18 - histories in which the caller of Schedule keeps the downloader's
   numbering discipline (and CancelBodies is only given headers that were
   scheduled): what is released is a prefix of what was scheduled, with
   matching bodies. *)
From Coq Require Import Lia ZifyBool ZifyN ZifyNat.
From VF.C18 Require Import Model ProofsA.
Local Open Scope N_scope.

Definition flat_pend (s : state) : list header := concat (map snd (pend s)).

Lemma In_flat_pend s h : In h (flat_pend s) <-> exists p hs, In (p, hs) (pend s) /\ In h hs.
Proof.
  unfold flat_pend. rewrite in_concat. split.
  - intros (l & Hl & Hh). apply in_map_iff in Hl as ([p hs] & <- & Hin). eauto.
  - intros (p & hs & Hin & Hh). exists hs. split; auto. apply in_map_iff. exists (p, hs); auto.
Qed.

(* numbers identify the headers of a list *)
Definition uniq (g : list header) : Prop :=
  forall a b, In a g -> In b g -> h_num a = h_num b -> a = b.

Lemma In_Nseq x a n : In x (Nseq a n) <-> a <= x < a + N.of_nat n.
Proof.
  unfold Nseq. rewrite in_map_iff. split.
  - intros (k & <- & Hk). apply in_seq in Hk. lia.
  - intros Hx. exists (N.to_nat (x - a)). split; [lia|]. apply in_seq. lia.
Qed.

Lemma NoDup_Nseq a n : NoDup (Nseq a n).
Proof.
  revert a; induction n as [|n IH]; intros a.
  - constructor.
  - rewrite Nseq_S. constructor; auto. rewrite In_Nseq. lia.
Qed.

Lemma uniq_of_nums g a : map h_num g = Nseq a (length g) -> uniq g.
Proof.
  revert a; induction g as [|x g IH]; intros a Hm.
  - intros ? ? [].
  - simpl in Hm. rewrite Nseq_S in Hm. injection Hm as Hx Hg.
    assert (Hlt : forall y, In y g -> h_num y <> h_num x).
    { intros y Hy. assert (Hi : In (h_num y) (map h_num g)) by (apply in_map; auto).
      rewrite Hg, In_Nseq in Hi. lia. }
    intros u v [->|Hu] [->|Hv] E; auto.
    + symmetry in E. apply Hlt in E; tauto.
    + apply Hlt in E; tauto.
    + eapply IH; eauto.
Qed.

(* a list of headers of g carrying the first numbers is the prefix of g *)
Lemma prefix_by_numbers l : forall g a,
  map h_num g = Nseq a (length g) -> incl l g -> map h_num l = Nseq a (length l) ->
  l = firstn (length l) g.
Proof.
  induction l as [|h l IH]; intros g a Hg Hin Hl; simpl; auto.
  destruct g as [|x g]; [destruct (Hin h); simpl; auto|].
  simpl in Hg, Hl. rewrite Nseq_S in Hg, Hl. injection Hg as Hx Hg. injection Hl as Hh Hl.
  assert (Hgt : forall y, In y g -> h_num y <> a).
  { intros y Hy. assert (Hi : In (h_num y) (map h_num g)) by (apply in_map; auto).
    rewrite Hg, In_Nseq in Hi. lia. }
  assert (h = x).
  { destruct (Hin h) as [E|E]; simpl; auto. apply Hgt in E; tauto. }
  subst x. simpl. f_equal. eapply IH; eauto.
  intros y Hy. destruct (Hin y) as [E|E]; simpl; auto.
  subst y. assert (Hi : In (h_num h) (map h_num l)) by (apply in_map; auto).
  rewrite Hl, In_Nseq in Hi. lia.
Qed.

Section Weak.
Variable derive : list N -> N.
Variable empty_root : N.
Hypothesis derive_nil : derive [] = empty_root.
Variable start : N.

Definition slot_good (g : list header) (r : result) : Prop :=
  In (r_hdr r) g /\ (r_pending r <= 1)%Z /\ r_hash r = h_hash (r_hdr r) /\
  ((r_pending r = 1)%Z -> r_txs r = []) /\
  ((r_pending r <= 0)%Z -> derive (r_txs r) = h_root (r_hdr r)).

Definition cache_good (g : list header) (s : state) : Prop :=
  forall i r, nth i (cache s) None = Some r -> slot_good g r.

(* state part of the invariant, relative to the list g of scheduled headers *)
Definition WS (g : list header) (s : state) : Prop :=
  slot_ok s /\ cache_good g s /\ incl (tqueue s) g /\ incl (flat_pend s) g.

Lemma slot_good_mono g g' r : incl g g' -> slot_good g r -> slot_good g' r.
Proof. intros Hi (A & B). split; auto. Qed.

Lemma WS_mono g g' s : incl g g' -> WS g s -> WS g' s.
Proof.
  intros Hi (A & B & C & D). split; [|split; [|split]]; auto.
  - intros i r Hr. eapply slot_good_mono; eauto.
  - eapply incl_tran; eauto.
  - eapply incl_tran; eauto.
Qed.

Lemma WS_of g s0 s :
  cache s = cache s0 -> offset s = offset s0 -> slot_ok s0 -> cache_good g s0 ->
  incl (tqueue s) g -> incl (concat (map snd (pend s))) g -> WS g s.
Proof.
  intros Hc Ho A B C D. split; [|split; [|split]]; auto.
  - eapply slot_ok_same; eauto.
  - intros i r. rewrite Hc. apply B.
Qed.

(* ---- Schedule ------------------------------------------------------------ *)
Lemma schedule_loop_spec hs : forall from s s' ins,
  schedule_loop hs from s = (s', ins) ->
  map h_num ins = Nseq from (length ins) /\
  (forall h, In h (tqueue s') <-> In h ins \/ In h (tqueue s)) /\
  incl ins hs.
Proof.
  induction hs as [|h hs IH]; simpl; intros from s s' ins H.
  - injection H as <- <-. simpl. split; [|split]; auto. intuition. intros ? [].
  - destruct (negb (h_num h =? from)) eqn:E1; [injection H as <- <-; simpl; split; [|split]; [auto|intuition|intros ? []]|].
    destruct (negb (head s =? 0) && negb (head s =? h_parent h));
      [injection H as <- <-; simpl; split; [|split]; [auto|intuition|intros ? []]|].
    destruct (memN (h_hash h) (tpool s)).
    + apply IH in H as (A & B & C). split; [|split]; auto. apply incl_tl; auto.
    + destruct (schedule_loop hs (from + 1) _) as [s2 ins2] eqn:E.
      injection H as <- <-. apply IH in E as (A & B & C). simpl in B.
      split; [|split].
      * simpl. rewrite Nseq_S, A. f_equal. lia.
      * intros x. rewrite B, In_qpush. simpl. intuition.
      * intros x [->|Hx]; simpl; auto.
Qed.

(* ---- Reserve --------------------------------------------------------------- *)
Lemma cache_good_ensure g s h :
  cache_good g s -> In h g -> index_bad s (slot_index s h) = false ->
  cache_good g (ensure_slot s h (Z.to_nat (slot_index s h))).
Proof.
  intros Hc Hh Hb j r. destruct (index_ok_nat _ _ Hb) as [Hn Hl].
  rewrite ensure_slot_nth by auto.
  destruct (Nat.eqb _ j) eqn:E; [|apply Hc].
  destruct (nth _ (cache s) None) eqn:En.
  - intros [= <-]. eapply Hc; eauto.
  - intros [= <-]. unfold slot_good; simpl. repeat split; auto; lia.
Qed.

(* the slot of a scheduled header holds that header *)
Lemma slot_holds g s h r :
  uniq g -> slot_ok s -> cache_good g s -> In h g ->
  index_bad s (slot_index s h) = false ->
  nth (Z.to_nat (slot_index s h)) (cache s) None = Some r -> r_hdr r = h.
Proof.
  intros Hu Hs Hc Hh Hb Hr. destruct (index_ok_nat _ _ Hb) as [Hn Hl].
  apply Hu; auto.
  - apply Hc in Hr. apply Hr.
  - apply Hs in Hr. unfold rnum in Hr. congruence.
Qed.

Lemma cache_good_noop g s h i :
  uniq g -> slot_ok s -> cache_good g s -> In h g ->
  index_bad s (slot_index s h) = false -> (h_root h =? empty_root) = true ->
  i = Z.to_nat (slot_index s h) ->
  cache_good g (complete_noop s h i).
Proof.
  intros Hu Hs Hc Hh Hb Hroot -> j r. apply N.eqb_eq in Hroot. simpl. rewrite nth_upd.
  destruct (Nat.eqb _ j && _) eqn:E; [|apply Hc].
  intros Hr. apply dec_pending_hdr in Hr as (r0 & Hr0 & Hh0 & Hhash & Htx & Hp).
  pose proof (slot_holds g s h r0 Hu Hs Hc Hh Hb Hr0) as Hhd.
  destruct (Hc _ _ Hr0) as (G1 & G2 & G3 & G4 & G5).
  unfold slot_good. rewrite Hh0, Hhash, Htx, Hp. repeat split; auto; try lia.
  intros _. rewrite Hhd, Hroot.
  destruct (Z.eq_dec (r_pending r0) 1) as [E1|E1].
  - rewrite G4; auto.
  - rewrite G5 by lia. rewrite Hhd; auto.
Qed.

Lemma cache_good_accept g s h b :
  uniq g -> slot_ok s -> cache_good g s -> In h g ->
  index_bad s (slot_index s h) = false -> (derive b =? h_root h) = true ->
  cache_good g (accept_body s h (Z.to_nat (slot_index s h)) b).
Proof.
  intros Hu Hs Hc Hh Hb Hroot j r. apply N.eqb_eq in Hroot. simpl. rewrite nth_upd.
  destruct (Nat.eqb _ j && _) eqn:E; [|apply Hc].
  intros Hr. apply set_body_hdr in Hr as (r0 & Hr0 & Hh0 & Hhash & Htx & Hp).
  pose proof (slot_holds g s h r0 Hu Hs Hc Hh Hb Hr0) as Hhd.
  destruct (Hc _ _ Hr0) as (G1 & G2 & G3 & G4 & G5).
  unfold slot_good. rewrite Hh0, Hhash, Htx, Hp. repeat split; auto; try lia.
  intros _. rewrite Hhd; auto.
Qed.

Definition rl_ok_lists (g : list header) (r : rl_res) : Prop :=
  match r with
  | RLerr _ => True
  | RLok _ send skip _ => incl send g /\ incl skip g
  end.

Lemma reserve_loop_W g p count q : forall s proc space send skip progress,
  uniq g -> slot_ok s -> cache_good g s -> incl q g -> incl send g -> incl skip g ->
  let r := reserve_loop empty_root p count q s proc space send skip progress in
  cache_good g (rl_state r) /\ incl (tqueue (rl_state r)) g /\ pend (rl_state r) = pend s /\
  rl_ok_lists g r.
Proof.
  induction q as [|h q IH]; intros s proc space send skip progress Hu Hs Hc Hq Hse Hsk; simpl.
  - split; [exact Hc|]. split; [apply incl_nil_l|]. split; [reflexivity|]. split; auto.
  - assert (Hh : In h g) by (apply Hq; simpl; auto).
    assert (Hq' : incl q g) by (intros x Hx; apply Hq; simpl; auto).
    destruct ((proc <? space)%Z && (N.of_nat (length send) <? count)); simpl;
      [|split; [exact Hc|]; simpl; repeat split; auto].
    destruct (index_bad s (slot_index s h)) eqn:Hb; simpl; [split; [exact Hc|]; simpl; repeat split; auto|].
    set (i := Z.to_nat (slot_index s h)).
    pose proof (slot_ok_ensure s h Hs Hb) as Hs1.
    pose proof (cache_good_ensure g s h Hc Hh Hb) as Hc1.
    destruct (ensure_slot_frame s h i) as (_&_&_&Hp&_&Ho&_&Hl).
    assert (Hb1 : index_bad (ensure_slot s h i) (slot_index (ensure_slot s h i) h) = false).
    { unfold index_bad, slot_index in *. rewrite Ho, Hl. auto. }
    assert (Hi1 : Z.to_nat (slot_index (ensure_slot s h i) h) = i).
    { unfold slot_index. rewrite Ho. reflexivity. }
    fold i in Hs1, Hc1.
    destruct (h_root h =? empty_root) eqn:Hroot.
    + assert (Hs2 : slot_ok (complete_noop (ensure_slot s h i) h i)) by (apply slot_ok_noop; exact Hs1).
      assert (Hc2 : cache_good g (complete_noop (ensure_slot s h i) h i)) by (apply cache_good_noop; auto).
      pose proof (IH _ proc (space - 1)%Z send skip true Hu Hs2 Hc2 Hq' Hse Hsk) as X.
      cbv zeta in X. destruct X as (A & B & C & D).
      split; [exact A|]. split; [exact B|]. split; [rewrite C; simpl; auto|exact D].
    + destruct (lacks_mem p (h_hash h) _).
      * assert (Hsk2 : incl (skip ++ [h]) g) by (apply incl_app; auto; intros x [<-|[]]; auto).
        pose proof (IH _ (proc + 1)%Z space send (skip ++ [h]) progress Hu Hs1 Hc1 Hq' Hse Hsk2) as X.
        cbv zeta in X. destruct X as (A & B & C & D).
        split; [exact A|]. split; [exact B|]. split; [congruence|exact D].
      * assert (Hse2 : incl (send ++ [h]) g) by (apply incl_app; auto; intros x [<-|[]]; auto).
        pose proof (IH _ (proc + 1)%Z space (send ++ [h]) skip progress Hu Hs1 Hc1 Hq' Hse2 Hsk) as X.
        cbv zeta in X. destruct X as (A & B & C & D).
        split; [exact A|]. split; [exact B|]. split; [congruence|exact D].
Qed.

Lemma incl_qpush_all hs q g : incl hs g -> incl q g -> incl (qpush_all hs q) g.
Proof. intros A B x Hx. apply In_qpush_all in Hx as [Hx|Hx]; auto. Qed.

Lemma flat_pend_cons s p hs l : pend s = (p, hs) :: l -> forall h, In h (flat_pend s) <-> In h hs \/ In h (concat (map snd l)).
Proof. intros E h. unfold flat_pend. rewrite E. simpl. rewrite in_app_iff. tauto. Qed.

Lemma reserve_W g p count limit s :
  uniq g -> WS g s -> WS g (fst (reserve empty_root p count limit s)).
Proof.
  intros Hu (Hs & Hc & Hq & Hp). unfold reserve.
  destruct (tqueue s) eqn:Eq; [simpl; unfold WS; rewrite Eq; auto|]. rewrite <- Eq in *.
  destruct (pend_get p (pend s)); [simpl; unfold WS; auto|].
  pose proof (reserve_loop_slot_ok empty_root p count (tqueue s) s 0 (result_slots s limit) [] [] false Hs) as (S1 & S2 & S3).
  pose proof (reserve_loop_W g p count (tqueue s) s 0%Z (result_slots s limit) [] [] false Hu Hs Hc Hq) as H.
  destruct H as (A & B & C & D); try (intros ? []).
  destruct (reserve_loop _ _ _ _ _ _ _ _ _ _) as [s'|s' send skip progress]; simpl in *.
  - apply (WS_of g s'); auto. rewrite C. exact Hp.
  - destruct D as [D1 D2].
    assert (Hq2 : incl (qpush_all skip (tqueue s')) g) by (apply incl_qpush_all; auto).
    destruct send as [|x send]; simpl.
    + apply (WS_of g s'); auto. simpl. rewrite C. exact Hp.
    + apply (WS_of g s'); auto. cbn [pend set_pend set_tqueue map snd concat]. rewrite C.
      change ((x :: send) ++ concat (map snd (pend s))) with ((x :: send) ++ flat_pend s).
      apply incl_app; auto.
Qed.

(* ---- Deliver ---------------------------------------------------------------- *)
Lemma deliver_loop_W g hs : forall bs s acc s' rest acc' f,
  uniq g -> slot_ok s -> cache_good g s -> incl hs g ->
  deliver_loop derive hs bs s acc = (s', rest, acc', f) ->
  cache_good g s' /\ incl rest g /\ tqueue s' = tqueue s /\ pend s' = pend s.
Proof.
  induction hs as [|h hs IH]; intros bs s acc s' rest acc' f Hu Hs Hc Hi H; simpl in H.
  - injection H as <- <- _ _. split; [exact Hc|split; [apply incl_nil_l|split; reflexivity]].
  - destruct bs as [|b bs]; [injection H as <- <- _ _; split; [exact Hc|split; [exact Hi|split; reflexivity]]|].
    destruct (index_bad s (slot_index s h)) eqn:Hb;
      [injection H as <- <- _ _; split; [exact Hc|split; [exact Hi|split; reflexivity]]|].
    destruct (nth _ (cache s) None) eqn:En;
      [|injection H as <- <- _ _; split; [exact Hc|split; [exact Hi|split; reflexivity]]].
    destruct (negb (derive b =? h_root h)) eqn:Hd;
      [injection H as <- <- _ _; split; [exact Hc|split; [exact Hi|split; reflexivity]]|].
    apply negb_false_iff in Hd.
    assert (Hh : In h g) by (apply Hi; simpl; auto).
    apply IH in H; auto.
    + apply slot_ok_accept; auto.
    + apply cache_good_accept; auto.
    + intros x Hx. apply Hi; simpl; auto.
Qed.

Lemma incl_flat_pend_del s p g l :
  incl (flat_pend s) g -> pend_del p (pend s) = l -> incl (concat (map snd l)) g.
Proof.
  intros Hi <- h Hh. apply in_concat in Hh as (x & Hx & Hh).
  apply in_map_iff in Hx as ([q hs] & <- & Hin). apply In_pend_del in Hin as [Hin _].
  apply Hi. apply In_flat_pend. eauto.
Qed.

Lemma deliver_W g p bs s :
  uniq g -> WS g s -> WS g (fst (deliver derive p bs s)).
Proof.
  intros Hu (Hs & Hc & Hq & Hp). unfold deliver.
  destruct (pend_get p (pend s)) as [hs|] eqn:Eg; [|simpl; unfold WS; auto].
  assert (Hhs : incl hs g).
  { intros h Hh. apply Hp. apply In_flat_pend. exists p, hs. split; auto. apply pend_get_In; auto. }
  set (s0 := set_pend s (pend_del p (pend s))).
  set (s1 := match bs with
             | [] => set_lacks s0 (map (fun h => (p, h_hash h)) hs ++ lacks s0)
             | _ => s0 end).
  assert (H1 : slot_ok s1 /\ cache_good g s1 /\ tqueue s1 = tqueue s /\ pend s1 = pend_del p (pend s))
    by (unfold s1; destruct bs; simpl; auto).
  clearbody s1. destruct H1 as (A1 & B1 & C1 & D1).
  destruct (deliver_loop derive hs bs s1 0) as [[[s2 rest] acc] f] eqn:E.
  pose proof (deliver_loop_slot_ok derive _ _ _ _ _ _ _ _ A1 E) as (S1 & S2 & _).
  apply deliver_loop_W with (g := g) in E; auto.
  destruct E as (A & B & C & D). simpl.
  apply (WS_of g s2); auto.
  - simpl. apply incl_qpush_all; auto. rewrite C, C1; auto.
  - simpl. rewrite D, D1. eapply incl_flat_pend_del; eauto.
Qed.

(* ---- Cancel / Expire / Revoke ------------------------------------------------- *)
Lemma cancel_W g p hs s : incl hs g -> WS g s -> WS g (cancel p hs s).
Proof.
  intros Hh (Hs & Hc & Hq & Hp). unfold cancel. apply (WS_of g s); auto.
  - simpl. apply incl_qpush_all; auto.
  - simpl. eapply incl_flat_pend_del; eauto.
Qed.

Lemma revoke_W g p s : WS g s -> WS g (revoke p s).
Proof.
  intros H. unfold revoke. destruct (pend_get p (pend s)) as [hs|] eqn:Eg; auto.
  apply (cancel_W g p hs s); auto.
  intros h Hh. destruct H as (_ & _ & _ & Hp). apply Hp. apply In_flat_pend. exists p, hs.
  split; auto. apply pend_get_In; auto.
Qed.

Lemma incl_fold_qpush g (ex : list (N * list header)) : forall q,
  incl q g -> (forall kv, In kv ex -> incl (snd kv) g) ->
  incl (fold_left (fun q kv => qpush_all (snd kv) q) ex q) g.
Proof.
  induction ex as [|kv ex IH]; simpl; intros q Hq Hex; auto.
  apply IH; auto. apply incl_qpush_all; auto.
Qed.

Lemma expire_W g ps s : WS g s -> WS g (fst (expire ps s)).
Proof.
  intros (Hs & Hc & Hq & Hp). unfold expire; simpl. apply (WS_of g s); auto.
  - simpl. apply incl_fold_qpush; auto. intros [k hs] Hin h Hh. simpl in Hh.
    apply filter_In in Hin as [Hin _]. apply Hp. apply In_flat_pend. eauto.
  - simpl. intros h Hh. apply in_concat in Hh as (x & Hx & Hh).
    apply in_map_iff in Hx as ([q hs] & <- & Hin). apply filter_In in Hin as [Hin _].
    apply Hp. apply In_flat_pend. eauto.
Qed.

(* ---- Results -------------------------------------------------------------------- *)
Lemma firstn_In_nth {A} n (c : list (option A)) rs r :
  firstn n c = map Some rs -> In r rs -> exists i, nth i c None = Some r.
Proof.
  intros Hf Hr. apply In_nth with (d := r) in Hr as (i & Hi & Hn).
  exists i. rewrite <- (firstn_skipn n c), Hf, app_nth1 by (rewrite map_length; auto).
  rewrite (nth_indep _ None (Some r)) by (rewrite map_length; auto).
  rewrite map_nth. congruence.
Qed.

Lemma results_W g s :
  WS g s ->
  let (s', rs) := results s in
  WS g s' /\ Forall (fun r => In (r_hdr r) g /\ derive (r_txs r) = h_root (r_hdr r)) rs.
Proof.
  intros (Hs & Hc & Hq & Hp).
  pose proof (results_released s Hs) as H. unfold results in *.
  set (n := Nat.min (count_proc (cache s)) max_results) in *.
  destruct (count_proc_some (cache s) n) as (rs & H1 & H2 & H3); [lia|].
  rewrite H1, somes_map_Some in *. destruct H as (R1 & R2 & R3 & R4 & R5).
  split.
  - split; [exact R3|]. split; [|split; [exact Hq|exact Hp]].
    intros i r. simpl. intros Hr.
    destruct (Nat.ltb i (length (cache s) - n)) eqn:L.
    + apply Nat.ltb_lt in L. rewrite app_nth1 in Hr by (rewrite skipn_length; auto).
      rewrite nth_skipn' in Hr. eapply Hc; eauto.
    + apply Nat.ltb_ge in L. rewrite app_nth2 in Hr by (rewrite skipn_length; auto).
      destruct (nth_in_or_default (i - length (skipn n (cache s))) (repeat None n) (@None result)) as [Hin|Hd].
      * apply repeat_spec in Hin. congruence.
      * congruence.
  - apply Forall_forall. intros r Hr.
    rewrite Forall_forall in H3. specialize (H3 r Hr).
    destruct (firstn_In_nth n (cache s) rs r H1 Hr) as (i & Hi).
    destruct (Hc _ _ Hi) as (G1 & G2 & G3 & G4 & G5). auto.
Qed.

(* ---- legality and the trace invariant --------------------------------------------- *)
Definition weak_legal_op (t : trace) (o : op) : Prop :=
  match o with
  | Schedule hs from => from = start + N.of_nat (length (t_scheduled t))
  | Cancel p hs => incl hs (t_scheduled t)
  | _ => True
  end.

Fixpoint legal_from (L : trace -> op -> Prop) (t : trace) (ops : list op) : Prop :=
  match ops with
  | [] => True
  | o :: r => L t o /\ legal_from L (step_trace derive empty_root t o) r
  end.

Definition winv (t : trace) : Prop :=
  map h_num (t_scheduled t) = Nseq start (length (t_scheduled t)) /\
  WS (t_scheduled t) (t_state t) /\
  Forall (fun r => In (r_hdr r) (t_scheduled t) /\ derive (r_txs r) = h_root (r_hdr r)) (t_released t).

Lemma winv_step t o : winv t -> weak_legal_op t o -> winv (step_trace derive empty_root t o).
Proof.
  intros (Hn & Hw & Hr) Hl. pose proof (uniq_of_nums _ _ Hn) as Hu.
  unfold step_trace, winv.
  destruct o as [hs from|p count limit|p bs|p hs|ps|p|]; cbn [step].
  - destruct (schedule_loop hs from (t_state t)) as [s' ins] eqn:E. cbn [t_state t_released t_scheduled].
    pose proof (schedule_loop_frame _ _ _ _ _ E) as (F1 & F2 & F3 & F4 & F5).
    apply schedule_loop_spec in E as (A & B & C).
    simpl in Hl. subst from.
    assert (Hi : incl (t_scheduled t) (t_scheduled t ++ ins)) by (apply incl_appl, incl_refl).
    split; [|split].
    + rewrite map_app, app_length, Nseq_app, Hn, A. auto.
    + destruct Hw as (W1 & W2 & W3 & W4). apply (WS_of _ (t_state t)); auto.
      * intros i r Hi'. eapply slot_good_mono; eauto.
      * intros h Hh. apply B in Hh as [Hh|Hh]; apply in_or_app; auto.
      * rewrite F3. eapply incl_tran; eauto.
    + eapply Forall_impl; [|exact Hr]. simpl. intros r [X Y]. split; auto.
  - pose proof (reserve_W _ p count limit _ Hu Hw) as H.
    destruct (reserve empty_root p count limit (t_state t)) as [s' [[req pr] e]]. simpl in *. auto.
  - pose proof (deliver_W _ p bs _ Hu Hw) as H.
    destruct (deliver derive p bs (t_state t)) as [s' [a e]]. simpl in *. auto.
  - simpl. split; [|split]; auto. apply cancel_W; auto.
  - pose proof (expire_W _ ps _ Hw) as H. destruct (expire ps (t_state t)) as [s' l]. simpl in *. auto.
  - simpl. split; [|split]; auto. apply revoke_W; auto.
  - pose proof (results_W _ _ Hw) as H. destruct (results (t_state t)) as [s' rs].
    destruct H as [H1 H2]. simpl. split; [|split]; auto. apply Forall_app; auto.
Qed.

Lemma winv_init cache_len : winv (T (init cache_len start) [] []).
Proof.
  unfold winv; simpl. split; [reflexivity|]. split; [|constructor].
  destruct (order_inv_init cache_len start) as (A & _).
  split; [exact A|]. split; [|split; intros ? []].
  intros i r Hr. simpl in Hr.
  destruct (nth_in_or_default i (repeat None cache_len) (@None result)) as [Hin|Hd].
  - apply repeat_spec in Hin. congruence.
  - congruence.
Qed.

Lemma winv_run ops : forall t, winv t -> legal_from weak_legal_op t ops ->
  winv (fold_left (step_trace derive empty_root) ops t).
Proof.
  induction ops as [|o ops IH]; simpl; intros t Hw Hl; auto.
  destruct Hl as [Hl1 Hl2]. apply IH; auto. apply winv_step; auto.
Qed.

(* what is handed to the importer is a prefix of what Schedule accepted, in
   Schedule's order, and every block carries a body matching its root *)
Theorem released_prefix_matching cache_len ops :
  legal_from weak_legal_op (T (init cache_len start) [] []) ops ->
  let t := run derive empty_root cache_len start ops in
  map r_hdr (t_released t) = firstn (length (t_released t)) (t_scheduled t) /\
  map h_num (t_scheduled t) = Nseq start (length (t_scheduled t)) /\
  Forall (fun r => derive (r_txs r) = h_root (r_hdr r)) (t_released t).
Proof.
  intros Hl t.
  pose proof (winv_run ops _ (winv_init cache_len) Hl) as (Hn & Hw & Hr).
  fold (run derive empty_root cache_len start ops) in *. fold t in Hn, Hw, Hr.
  split; [|split]; auto.
  - pose proof (released_in_order derive empty_root cache_len start ops) as Ho. fold t in Ho.
    rewrite <- (map_length r_hdr (t_released t)).
    eapply prefix_by_numbers; eauto.
    + intros h Hh. apply in_map_iff in Hh as (r & <- & Hin).
      rewrite Forall_forall in Hr. apply Hr; auto.
    + rewrite map_map, map_length. exact Ho.
  - eapply Forall_impl; [|exact Hr]. simpl. tauto.
Qed.

End Weak.
