(* C18 - executable model of the body-download part of you/downloader/queue.go
   (FullSync: one component per result).  Function by function mirror of
   Schedule, resultSlots, reserveHeaders (ReserveBodies), deliver
   (DeliverBodies), cancel (CancelBodies), Revoke, expire (ExpireBodies),
   Results/countProcessableItems, Prepare/newQueue, peerConnection.Lacks /
   MarkLacking.  No proofs in this file.

   Conventions.
   - a header is (number, hash, parent hash, tx root); the hash is a field: the
     harness numbers distinct 32-byte hashes 1,2,3..; 0 is common.Hash{}.
   - a body is a list of transaction ids; [derive] stands for types.DeriveSha
     and [empty_root] for types.EmptyRootHash (Section variables).
   - every exported queue method is one atomic step (it holds q.lock).
   - the clock is an input: [Expire ps] expires exactly the requests of [ps].
   - the memory throttle of resultSlots depends on a float moving average of
     block sizes; its outcome [limit] (number of usable cache slots) is an
     input of [Reserve].
   - blockTaskQueue is a multiset popped at the smallest number; it is kept as
     a list sorted by number (order among equal numbers is not modelled).
   - peer lacking sets never reach maxLackingHashes (no eviction). *)
From Coq Require Export List NArith ZArith Bool.
Export ListNotations.
Open Scope N_scope.

Record header := H { h_num : N; h_hash : N; h_parent : N; h_root : N }.

(* fetchResult *)
Record result := R { r_pending : Z; r_hash : N; r_hdr : header; r_txs : list N }.

Record state := St {
  head   : N;                        (* headerHead, 0 = zero hash *)
  tpool  : list N;                   (* blockTaskPool (keys) *)
  tqueue : list header;              (* blockTaskQueue *)
  pend   : list (N * list header);   (* blockPendPool: peer -> request.Headers *)
  done   : list N;                   (* blockDonePool *)
  cache  : list (option result);     (* resultCache, fixed length *)
  offset : N;                        (* resultOffset *)
  lacks  : list (N * N)              (* (peer, hash): peerConnection.lacking *)
}.

Definition set_tqueue s q := St (head s) (tpool s) q (pend s) (done s) (cache s) (offset s) (lacks s).
Definition set_pend s p := St (head s) (tpool s) (tqueue s) p (done s) (cache s) (offset s) (lacks s).
Definition set_cache s c := St (head s) (tpool s) (tqueue s) (pend s) (done s) c (offset s) (lacks s).
Definition set_lacks s l := St (head s) (tpool s) (tqueue s) (pend s) (done s) (cache s) (offset s) l.

Definition memN (x : N) (l : list N) : bool := existsb (N.eqb x) l.
Definition delN (x : N) (l : list N) : list N := filter (fun y => negb (y =? x)) l.

(* prque.Push(header, -number) *)
Fixpoint qpush (h : header) (q : list header) : list header :=
  match q with
  | [] => [h]
  | x :: r => if h_num h <? h_num x then h :: q else x :: qpush h r
  end.
Definition qpush_all (hs : list header) (q : list header) : list header :=
  fold_left (fun q h => qpush h q) hs q.

Fixpoint pend_get (p : N) (l : list (N * list header)) : option (list header) :=
  match l with
  | [] => None
  | (k, v) :: r => if k =? p then Some v else pend_get p r
  end.
Definition pend_del (p : N) (l : list (N * list header)) : list (N * list header) :=
  filter (fun kv => negb (fst kv =? p)) l.

Definition lacks_mem (p h : N) (l : list (N * N)) : bool :=
  existsb (fun kv => (fst kv =? p) && (snd kv =? h)) l.

Fixpoint upd {A} (i : nat) (f : A -> A) (l : list A) : list A :=
  match l, i with
  | [], _ => []
  | x :: r, O => f x :: r
  | x :: r, S j => x :: upd j f r
  end.

(* newQueue + Prepare(start, FullSync): the sync starts at block [start] *)
Definition init (cache_len : nat) (start : N) : state :=
  St 0 [] [] [] [] (repeat None cache_len) start [].

(* ---- Schedule ----------------------------------------------------------- *)
Fixpoint schedule_loop (hs : list header) (from : N) (s : state) : state * list header :=
  match hs with
  | [] => (s, [])
  | h :: r =>
    if negb (h_num h =? from) then (s, [])
    else if negb (head s =? 0) && negb (head s =? h_parent h) then (s, [])
    else if memN (h_hash h) (tpool s) then schedule_loop r from s
    else
      let s1 := St (h_hash h) (h_hash h :: tpool s) (qpush h (tqueue s)) (pend s) (done s)
                   (cache s) (offset s) (lacks s) in
      let (s2, ins) := schedule_loop r (from + 1) s1 in (s2, h :: ins)
  end.

(* ---- resultSlots --------------------------------------------------------- *)
Fixpoint finished_count (c : list (option result)) (d : list N) : Z :=
  match c with
  | Some r :: c' => ((if memN (r_hash r) d then 1 else 0) + finished_count c' d)%Z
  | _ => 0%Z
  end.
Definition count_below (bound : N) (hs : list header) : Z :=
  Z.of_nat (length (filter (fun h => h_num h <? bound) hs)).
Definition pending_count (pp : list (N * list header)) (bound : N) : Z :=
  fold_right (fun kv acc => (count_below bound (snd kv) + acc)%Z) 0%Z pp.
Definition result_slots (s : state) (limit : N) : Z :=
  (Z.of_N limit - finished_count (firstn (N.to_nat limit) (cache s)) (done s)
   - pending_count (pend s) (offset s + limit))%Z.

Section Model.
Variable derive : list N -> N.     (* types.DeriveSha on a transaction list *)
Variable empty_root : N.           (* types.EmptyRootHash *)

(* ---- reserveHeaders ------------------------------------------------------ *)
Inductive rl_res :=
| RLerr (s : state)                                       (* errInvalidChain *)
| RLok (s : state) (send skip : list header) (progress : bool).

Definition slot_index (s : state) (h : header) : Z := (Z.of_N (h_num h) - Z.of_N (offset s))%Z.
Definition index_bad (s : state) (index : Z) : bool :=
  (index >=? Z.of_nat (length (cache s)))%Z || (index <? 0)%Z.
Definition dec_pending (o : option result) : option result :=
  match o with
  | Some r => Some (R (r_pending r - 1) (r_hash r) (r_hdr r) (r_txs r))
  | None => None
  end.

(* "if q.resultCache[index] == nil { q.resultCache[index] = &fetchResult{...} }" *)
Definition ensure_slot (s : state) (h : header) (i : nat) : state :=
  match nth i (cache s) None with
  | None => set_cache s (upd i (fun _ => Some (R 1 (h_hash h) h [])) (cache s))
  | Some _ => s
  end.
(* the isNoop branch: donePool[hash] = {}; delete(taskPool, hash); Pending-- *)
Definition complete_noop (s : state) (h : header) (i : nat) : state :=
  St (head s) (delN (h_hash h) (tpool s)) (tqueue s) (pend s)
     (h_hash h :: done s) (upd i dec_pending (cache s)) (offset s) (lacks s).

(* the for loop; [q] is the not yet popped part of the task queue *)
Fixpoint reserve_loop (p count : N) (q : list header) (s : state) (proc space : Z)
         (send skip : list header) (progress : bool) : rl_res :=
  match q with
  | [] => RLok (set_tqueue s []) send skip progress
  | h :: q' =>
    if (proc <? space)%Z && (N.of_nat (length send) <? count) then
      let index := slot_index s h in
      if index_bad s index then RLerr (set_tqueue s q')
      else
        let i := Z.to_nat index in
        let s1 := ensure_slot s h i in
        if h_root h =? empty_root then
          reserve_loop p count q' (complete_noop s1 h i) proc (space - 1) send skip true
        else if lacks_mem p (h_hash h) (lacks s1) then
          reserve_loop p count q' s1 (proc + 1) space send (skip ++ [h]) progress
        else
          reserve_loop p count q' s1 (proc + 1) space (send ++ [h]) skip progress
    else RLok (set_tqueue s q) send skip progress
  end.

(* ReserveBodies: (request, progress, error) *)
Definition reserve (p count limit : N) (s : state) : state * (option (list header) * bool * bool) :=
  match tqueue s with
  | [] => (s, (None, false, false))
  | _ =>
    match pend_get p (pend s) with
    | Some _ => (s, (None, false, false))
    | None =>
      let space := result_slots s limit in
      match reserve_loop p count (tqueue s) s 0 space [] [] false with
      | RLerr s' => (s', (None, false, true))
      | RLok s' send skip progress =>
        let s'' := set_tqueue s' (qpush_all skip (tqueue s')) in
        match send with
        | [] => (s'', (None, progress, false))
        | _ => (set_pend s'' ((p, send) :: pend s''), (Some send, progress, false))
        end
      end
    end
  end.

(* ---- deliver ------------------------------------------------------------- *)
(* failure: 0 none, 2 errInvalidChain, 3 errInvalidBody *)
Definition set_body (b : list N) (o : option result) : option result :=
  match o with
  | Some r => Some (R (r_pending r - 1) (r_hash r) (r_hdr r) b)
  | None => None
  end.

(* a body passed reconstruct: donePool[hash] = {}; Pending--; delete(taskPool, hash) *)
Definition accept_body (s : state) (h : header) (i : nat) (b : list N) : state :=
  St (head s) (delN (h_hash h) (tpool s)) (tqueue s) (pend s)
     (h_hash h :: done s) (upd i (set_body b) (cache s)) (offset s) (lacks s).

Fixpoint deliver_loop (hs : list header) (bs : list (list N)) (s : state) (acc : N)
  : state * list header * N * N :=
  match hs, bs with
  | [], _ => (s, [], acc, 0)
  | _, [] => (s, hs, acc, 0)
  | h :: hs', b :: bs' =>
    let index := slot_index s h in
    if index_bad s index then (s, hs, acc, 2)
    else
      let i := Z.to_nat index in
      match nth i (cache s) None with
      | None => (s, hs, acc, 2)
      | Some _ =>
        if negb (derive b =? h_root h) then (s, hs, acc, 3)
        else deliver_loop hs' bs' (accept_body s h i b) (acc + 1)
      end
  end.

(* error enum of DeliverBodies: 0 nil, 1 errNoFetchesPending, 2 errInvalidChain,
   3 "partial failure: ...", 4 errStaleDelivery *)
Definition deliver (p : N) (bs : list (list N)) (s : state) : state * (N * N) :=
  match pend_get p (pend s) with
  | None => (s, (0, 1))
  | Some hs =>
    let s0 := set_pend s (pend_del p (pend s)) in
    let s1 := match bs with
              | [] => set_lacks s0 (map (fun h => (p, h_hash h)) hs ++ lacks s0)
              | _ => s0
              end in
    match deliver_loop hs bs s1 0 with
    | (s2, rest, acc, failure) =>
      let s3 := set_tqueue s2 (qpush_all rest (tqueue s2)) in
      let err := if failure =? 0 then 0
                 else if failure =? 2 then 2
                 else if 0 <? acc then 3 else 4 in
      (s3, (acc, err))
    end
  end.

(* ---- cancel / Revoke / expire -------------------------------------------- *)
Definition cancel (p : N) (hs : list header) (s : state) : state :=
  set_pend (set_tqueue s (qpush_all hs (tqueue s))) (pend_del p (pend s)).

Definition revoke (p : N) (s : state) : state :=
  match pend_get p (pend s) with
  | Some hs => set_pend (set_tqueue s (qpush_all hs (tqueue s))) (pend_del p (pend s))
  | None => s
  end.

Definition expire (ps : list N) (s : state) : state * list (N * N) :=
  let ex := filter (fun kv => memN (fst kv) ps) (pend s) in
  let q := fold_left (fun q kv => qpush_all (snd kv) q) ex (tqueue s) in
  (set_pend (set_tqueue s q) (filter (fun kv => negb (memN (fst kv) ps)) (pend s)),
   map (fun kv => (fst kv, N.of_nat (length (snd kv)))) ex).

(* ---- Results (non blocking) ---------------------------------------------- *)
Fixpoint count_proc (c : list (option result)) : nat :=
  match c with
  | Some r :: c' => if (r_pending r >? 0)%Z then O else S (count_proc c')
  | _ => O
  end.
Definition max_results : nat := 2048.   (* maxResultsProcess *)

Fixpoint somes {A} (l : list (option A)) : list A :=
  match l with
  | Some x :: r => x :: somes r
  | None :: r => somes r
  | [] => []
  end.

Definition results (s : state) : state * list result :=
  let n := Nat.min (count_proc (cache s)) max_results in
  let rs := somes (firstn n (cache s)) in
  let d := fold_left (fun d r => delN (h_hash (r_hdr r)) d) rs (done s) in
  (St (head s) (tpool s) (tqueue s) (pend s) d (skipn n (cache s) ++ repeat None n)
      (offset s + N.of_nat n) (lacks s), rs).

(* ---- the step function --------------------------------------------------- *)
Inductive op :=
| Schedule (hs : list header) (from : N)
| Reserve (p count limit : N)
| Deliver (p : N) (bodies : list (list N))
| Cancel (p : N) (hs : list header)
| Expire (ps : list N)
| Revoke (p : N)
| Results.

Inductive out :=
| OSchedule (ins : list header)
| OReserve (req : option (list header)) (progress err : bool)
| ODeliver (acc err : N)
| OUnit
| OExpire (l : list (N * N))
| OResults (l : list result).

Definition step (s : state) (o : op) : state * out :=
  match o with
  | Schedule hs from => let (s', ins) := schedule_loop hs from s in (s', OSchedule ins)
  | Reserve p count limit =>
    match reserve p count limit s with (s', (req, pr, e)) => (s', OReserve req pr e) end
  | Deliver p bs => match deliver p bs s with (s', (a, e)) => (s', ODeliver a e) end
  | Cancel p hs => (cancel p hs s, OUnit)
  | Expire ps => let (s', l) := expire ps s in (s', OExpire l)
  | Revoke p => (revoke p s, OUnit)
  | Results => let (s', l) := results s in (s', OResults l)
  end.

(* a history: final state, everything handed to the importer (in order),
   every header accepted by Schedule (in order) *)
Record trace := T { t_state : state; t_released : list result; t_scheduled : list header }.

Definition step_trace (t : trace) (o : op) : trace :=
  let (s', out) := step (t_state t) o in
  T s'
    (match out with OResults l => t_released t ++ l | _ => t_released t end)
    (match out with OSchedule ins => t_scheduled t ++ ins | _ => t_scheduled t end).

Definition run (cache_len : nat) (start : N) (ops : list op) : trace :=
  fold_left step_trace ops (T (init cache_len start) [] []).

(* ---- sync cycles on one queue object -------------------------------------- *)
(* queue.Reset(): every body-download field is re-created; resultSize (the float
   behind Reserve's limit input) and the peers' lacking sets are not the queue's *)
Definition reset (s : state) : state :=
  St 0 [] [] [] [] (repeat None (length (cache s))) 0 (lacks s).
(* PeerSet.Reset() -> peerConnection.Reset(): lacking = make(map) for every peer *)
Definition reset_peers (s : state) : state := set_lacks s [].
(* queue.Prepare(offset, FullSync): the offset is only ever raised *)
Definition prepare (o : N) (s : state) : state :=
  if offset s <? o then St (head s) (tpool s) (tqueue s) (pend s) (done s) (cache s) o (lacks s) else s.

Inductive qop :=
| Op (o : op)          (* an operation inside a cycle *)
| QReset               (* synchronise(): d.queue.Reset() *)
| QResetPeers          (* synchronise(): d.peers.Reset() *)
| QPrepare (o : N).    (* syncWithPeer(): d.queue.Prepare(origin+1, mode) *)

Definition qstep (s : state) (q : qop) : state * out :=
  match q with
  | Op o => step s o
  | QReset => (reset s, OUnit)
  | QResetPeers => (reset_peers s, OUnit)
  | QPrepare o => (prepare o s, OUnit)
  end.

(* what synchronise() + syncWithPeer() do to the queue before a cycle from [o] *)
Definition new_cycle (s : state) (o : N) : state := prepare o (reset_peers (reset s)).

(* ---- fetchParts' bookkeeping of busy peers around the queue ----------------- *)
(* second component: the peers whose blockIdle flag is 1 (a request was sent) *)
Definition floop := (state * list N)%type.

(* "request, progress, err := reserve(peer, capacity(peer))" is only tried for idle
   peers; a request makes the peer busy (peerConnection.FetchBodies) *)
Definition f_reserve (p count limit : N) (f : floop) : floop :=
  if memN p (snd f) then f
  else match reserve p count limit (fst f) with
       | (s', (Some _, _, _)) => (s', p :: snd f)
       | (s', _) => (s', snd f)
       end.

(* "accepted, err := deliver(packet); if err != errStaleDelivery { setIdle(peer, accepted) }" *)
Definition f_deliver (p : N) (bs : list (list N)) (f : floop) : floop * N :=
  match deliver p bs (fst f) with
  | (s', (_, err)) => ((s', if err =? 4 then snd f else delN p (snd f)), err)
  end.

(* "for pid, fails := range expire() { ... }": the peer is idled (fails > 2) or dropped *)
Definition f_expire (ps : list N) (f : floop) : floop :=
  let (s', l) := expire ps (fst f) in
  (s', fold_left (fun b kv => delN (fst kv) b) l (snd f)).

End Model.

(* ---- correspondence runner ---------------------------------------------- *)

Fixpoint list_eqb {A B} (eqb : A -> B -> bool) (a : list A) (b : list B) : bool :=
  match a, b with
  | [], [] => true
  | x :: a', y :: b' => eqb x y && list_eqb eqb a' b'
  | _, _ => false
  end.
Definition pairN_eqb (a b : N * N) : bool := (fst a =? fst b) && (snd a =? snd b).
Definition listN_eqb := list_eqb N.eqb.

Fixpoint insert_by {A} (leb : A -> A -> bool) (x : A) (l : list A) : list A :=
  match l with
  | [] => [x]
  | y :: r => if leb x y then x :: l else y :: insert_by leb x r
  end.
Definition sort_by {A} (leb : A -> A -> bool) (l : list A) : list A :=
  fold_right (insert_by leb) [] l.
Fixpoint dedupN (l : list N) : list N :=   (* on a sorted list *)
  match l with
  | x :: (y :: _) as r => if x =? y then dedupN r else x :: dedupN r
  | _ => l
  end.
Definition pair_leb (a b : N * N) : bool :=
  (fst a <? fst b) || ((fst a =? fst b) && (snd a <=? snd b)).
Fixpoint dedupP (l : list (N * N)) : list (N * N) :=
  match l with
  | x :: (y :: _) as r => if pairN_eqb x y then dedupP r else x :: dedupP r
  | _ => l
  end.

(* tx-root table of one case: the roots of the transaction lists that occur *)
Fixpoint table_derive (t : list (list N * N)) (junk : N) (txs : list N) : N :=
  match t with
  | [] => junk
  | (k, v) :: r => if listN_eqb k txs then v else table_derive r junk txs
  end.

(* observations of the implementation, one per operation *)
Inductive obs :=
| XSchedule (ins : list N)                             (* hashes of the inserted headers *)
| XReserve (req : option (list N)) (progress err : bool)
| XDeliver (acc err : N)
| XUnit
| XExpire (l : list (N * N))                           (* sorted by peer *)
| XResults (l : list (N * list N)).                    (* (header hash, transactions) *)

Definition hashes (hs : list header) : list N := map h_hash hs.

Definition obs_eqb (o : out) (x : obs) : bool :=
  match o, x with
  | OSchedule ins, XSchedule l => listN_eqb (hashes ins) l
  | OReserve (Some r) p e, XReserve (Some l) p' e' =>
      listN_eqb (hashes r) l && Bool.eqb p p' && Bool.eqb e e'
  | OReserve None p e, XReserve None p' e' => Bool.eqb p p' && Bool.eqb e e'
  | ODeliver a e, XDeliver a' e' => (a =? a') && (e =? e')
  | OUnit, XUnit => true
  | OExpire l, XExpire l' => list_eqb pairN_eqb (sort_by pair_leb l) l'
  | OResults l, XResults l' =>
      list_eqb (fun (r : result) (y : N * list N) =>
                  (h_hash (r_hdr r) =? fst y) && listN_eqb (r_txs r) (snd y)) l l'
  | _, _ => false
  end.

(* digest after every operation:
   (PendingBlocks, len blockPendPool, len blockDonePool, resultOffset, countProcessableItems) *)
Definition digest := (N * N * N * N * N)%type.
Definition digest_of (s : state) : digest :=
  (N.of_nat (length (tqueue s)), N.of_nat (length (pend s)),
   N.of_nat (length (dedupN (sort_by N.leb (done s)))), offset s,
   N.of_nat (count_proc (cache s))).
Definition digest_eqb (a b : digest) : bool :=
  match a, b with
  | (a1, a2, a3, a4, a5), (b1, b2, b3, b4, b5) =>
    (a1 =? b1) && (a2 =? b2) && (a3 =? b3) && (a4 =? b4) && (a5 =? b5)
  end.

(* full projection of the final state *)
Record dump := D {
  d_head : N;
  d_tpool : list N;                       (* sorted *)
  d_queue : list N;                       (* hashes, by (number, hash) *)
  d_pend : list (N * list N);             (* sorted by peer *)
  d_done : list N;                        (* sorted *)
  d_cache : list (N * Z * N * list N);    (* non-nil slots: index, Pending, Hash, Transactions *)
  d_offset : N;
  d_lacks : list (N * N)                  (* sorted *)
}.

Fixpoint cache_dump (i : N) (c : list (option result)) : list (N * Z * N * list N) :=
  match c with
  | [] => []
  | Some r :: c' => (i, r_pending r, r_hash r, r_txs r) :: cache_dump (i + 1) c'
  | None :: c' => cache_dump (i + 1) c'
  end.

Definition dump_of (s : state) : dump :=
  D (head s)
    (dedupN (sort_by N.leb (tpool s)))
    (map h_hash (sort_by (fun a b => pair_leb (h_num a, h_hash a) (h_num b, h_hash b)) (tqueue s)))
    (map (fun kv => (fst kv, hashes (snd kv))) (sort_by (fun a b => fst a <=? fst b) (pend s)))
    (dedupN (sort_by N.leb (done s)))
    (cache_dump 0 (cache s))
    (offset s)
    (dedupP (sort_by pair_leb (lacks s))).

Definition slot_eqb (a b : N * Z * N * list N) : bool :=
  match a, b with
  | (i, p, h, t), (i', p', h', t') => (i =? i') && (p =? p')%Z && (h =? h') && listN_eqb t t'
  end.

Definition dump_eqb (a b : dump) : bool :=
  (d_head a =? d_head b) && listN_eqb (d_tpool a) (d_tpool b) && listN_eqb (d_queue a) (d_queue b)
  && list_eqb (fun x y => (fst x =? fst y) && listN_eqb (snd x) (snd y)) (d_pend a) (d_pend b)
  && listN_eqb (d_done a) (d_done b) && list_eqb slot_eqb (d_cache a) (d_cache b)
  && (d_offset a =? d_offset b) && list_eqb pairN_eqb (d_lacks a) (d_lacks b).

Record case := mkCase {
  c_len : nat;                            (* blockCacheItems *)
  c_start : N;                            (* Prepare(start) *)
  c_table : list (list N * N);            (* tx-root table; root 0 = EmptyRootHash *)
  c_steps : list (qop * obs * digest);     (* the scripted history: one or more sync cycles *)
  c_mid : dump;                            (* full state after it *)
  c_finish : list (qop * obs * digest);     (* all requests expire, a fresh honest peer answers *)
  c_final : dump
}.

Fixpoint run_steps (dv : list N -> N) (s : state) (l : list (qop * obs * digest)) : option state :=
  match l with
  | [] => Some s
  | (o, x, d) :: r =>
    let (s', out) := qstep dv 0 s o in
    if obs_eqb out x && digest_eqb (digest_of s') d then run_steps dv s' r else None
  end.

(* roots not in the table map to 1 (the harness never uses id 1 as a root) *)
Definition case_ok (c : case) : bool :=
  let dv := table_derive (c_table c) 1 in
  match run_steps dv (init (c_len c) (c_start c)) (c_steps c) with
  | Some s =>
    dump_eqb (dump_of s) (c_mid c) &&
    match run_steps dv s (c_finish c) with
    | Some s' => dump_eqb (dump_of s') (c_final c)
    | None => false
    end
  | None => false
  end.

Fixpoint mismatches_from (i : N) (l : list case) : list N :=
  match l with
  | [] => []
  | c :: r => if case_ok c then mismatches_from (i + 1) r else i :: mismatches_from (i + 1) r
  end.
Definition mismatches := mismatches_from 0.
