(* C18 - the bookkeeping invariant of legal histories and its preservation by
   ReserveBodies (including: the result cache index never leaves the cache). *)
From Coq Require Import Lia ZifyBool ZifyN ZifyNat Permutation Sorted.
From VF.C18 Require Import Model ProofsA ProofsB ProofsC.
Local Open Scope N_scope.

Section Strict.
Variable derive : list N -> N.
Variable empty_root : N.
Hypothesis derive_nil : derive [] = empty_root.
Variable cache_len : nat.

Definition idx (s : state) (h : header) : nat := Z.to_nat (slot_index s h).
Definition slotted (s : state) (h : header) : Prop :=
  index_bad s (slot_index s h) = false /\ nth (idx s h) (cache s) None <> None.

Definition done_ok (s : state) : Prop :=
  forall x, In x (done s) <-> In x (map h_hash (completed s)).

Definition below (bound : N) (h : header) : bool := h_num h <? bound.

(* facts about the list U of accepted, not yet released headers *)
Record Ufacts (g U : list header) (s : state) : Prop := {
  u_uniq : uniq g;
  u_g : incl U g;
  u_num : map h_num U = Nseq (offset s) (length U);
  u_hash : NoDup (map h_hash U)
}.

(* facts about the result cache *)
Record Cfacts (g U : list header) (s : state) : Prop := {
  c_slot : slot_ok s;
  c_good : cache_good derive g s;
  c_len : length (cache s) = cache_len;
  c_nil : nil_suffix (cache s);
  c_inU : forall i r, nth i (cache s) None = Some r -> In (r_hdr r) U;
  c_done : done_ok s
}.

(* the bookkeeping invariant: every accepted, unreleased header is in exactly
   one of task queue / one peer's request / completed slots *)
Record SI (g U : list header) (s : state) : Prop := {
  si_u : Ufacts g U s;
  si_c : Cfacts g U s;
  si_perm : Permutation (tqueue s ++ flat (pend s) ++ completed s) U;
  si_keys : NoDup (map fst (pend s));
  si_sorted : sortedq (tqueue s);
  si_slotted : forall h, In h (flat (pend s) ++ completed s) -> slotted s h
}.

Lemma perm_in_iff {A} (x : A) l l' : Permutation l l' -> (In x l <-> In x l').
Proof. intros H. split; apply Permutation_in; auto. symmetry; auto. Qed.

Lemma perm_filter {A} (f : A -> bool) l l' : Permutation l l' -> Permutation (filter f l) (filter f l').
Proof.
  induction 1; simpl; auto.
  - destruct (f x); auto.
  - destruct (f x), (f y); auto. apply perm_swap.
  - etransitivity; eauto.
Qed.

(* ---- consequences ------------------------------------------------------------ *)
Lemma U_NoDup g U s : Ufacts g U s -> NoDup U.
Proof.
  intros [_ _ Hn _]. apply (NoDup_map_inv h_num). rewrite Hn. apply NoDup_Nseq.
Qed.

Lemma U_range g U s h : Ufacts g U s -> In h U -> offset s <= h_num h < offset s + N.of_nat (length U).
Proof.
  intros [_ _ Hn _] Hh. apply In_Nseq. rewrite <- Hn. apply in_map; auto.
Qed.

Lemma U_uniq g U s : Ufacts g U s -> uniq U.
Proof. intros [_ _ Hn _]. eapply uniq_of_nums; eauto. Qed.

Lemma U_hash_inj g U s a b : Ufacts g U s -> In a U -> In b U -> h_hash a = h_hash b -> a = b.
Proof.
  intros [_ _ _ Hh] Ha Hb E.
  apply In_nth with (d := a) in Ha as (i & Hi & Ea). apply In_nth with (d := a) in Hb as (j & Hj & Eb).
  assert (i = j).
  { rewrite NoDup_nth with (d := h_hash a) in Hh. apply Hh; rewrite ?map_length; auto.
    rewrite !map_nth. congruence. }
  subst. congruence.
Qed.

Lemma slot_of_completed s h :
  In h (completed s) -> exists j r, nth j (cache s) None = Some r /\ complete r = true /\ r_hdr r = h.
Proof. apply In_cplt. Qed.

(* a header whose slot is occupied: the slot holds it *)
Lemma slot_holds_U g U s h r :
  Ufacts g U s -> Cfacts g U s -> In h U -> index_bad s (slot_index s h) = false ->
  nth (idx s h) (cache s) None = Some r -> r_hdr r = h.
Proof.
  intros Hu Hc Hh Hb Hr. destruct (index_ok_nat _ _ Hb) as [Hn Hl].
  apply (U_uniq _ _ _ Hu); auto.
  - eapply c_inU; eauto.
  - pose proof (c_slot _ _ _ Hc _ _ Hr) as E. unfold rnum in E. unfold idx in *. congruence.
Qed.

Lemma idx_of_slot g U s j r :
  Cfacts g U s -> nth j (cache s) None = Some r ->
  index_bad s (slot_index s (r_hdr r)) = false /\ idx s (r_hdr r) = j.
Proof.
  intros Hc Hr. pose proof (c_slot _ _ _ Hc _ _ Hr) as E. unfold rnum in E.
  assert (Hj : (j < length (cache s))%nat).
  { destruct (Nat.ltb j (length (cache s))) eqn:L; [apply Nat.ltb_lt in L; auto|].
    apply Nat.ltb_ge in L. rewrite nth_overflow in Hr by auto. discriminate. }
  unfold index_bad, idx, slot_index. rewrite E. split; lia.
Qed.

Lemma completed_slotted g U s h : Cfacts g U s -> In h (completed s) -> slotted s h.
Proof.
  intros Hc Hh. apply slot_of_completed in Hh as (j & r & Hr & _ & <-).
  destruct (idx_of_slot _ _ _ _ _ Hc Hr) as [A B]. split; auto. rewrite B, Hr. discriminate.
Qed.

(* ---- the loop invariant of reserveHeaders ---------------------------------------- *)
Record RJ (g U : list header) (L : nat) (s : state) (q send skip : list header) (proc space : Z) : Prop := {
  rj_u : Ufacts g U s;
  rj_c : Cfacts g U s;
  rj_perm : Permutation (q ++ send ++ skip ++ flat (pend s) ++ completed s) U;
  rj_sorted : sortedq q;
  rj_slotted : forall h, In h (send ++ skip ++ flat (pend s) ++ completed s) -> slotted s h;
  rj_count : (space - proc <= Z.of_nat L
              - Z.of_nat (length (filter (below (offset s + N.of_nat L)) (completed s)))
              - Z.of_nat (length send) - Z.of_nat (length skip)
              - pending_count (pend s) (offset s + N.of_nat L))%Z
}.

Lemma perm_in_U {q send skip fp cp U : list header} x :
  Permutation (q ++ send ++ skip ++ fp ++ cp) U -> In x U ->
  In x q \/ In x (send ++ skip ++ fp ++ cp).
Proof. intros Hp Hx. apply (Permutation_in _ (Permutation_sym Hp)) in Hx. apply in_app_or in Hx. auto. Qed.

(* other holders of numbers below the head of the queue *)
Lemma below_head_elsewhere g U L s h q send skip proc space n :
  RJ g U L s (h :: q) send skip proc space -> offset s <= n < h_num h ->
  exists u, h_num u = n /\ In u (send ++ skip ++ flat (pend s) ++ completed s).
Proof.
  intros J Hn. pose proof (rj_u _ _ _ _ _ _ _ _ _ J) as Hu.
  assert (HhU : In h U) by (eapply Permutation_in; [apply (rj_perm _ _ _ _ _ _ _ _ _ J)|simpl; auto]).
  pose proof (U_range _ _ _ _ Hu HhU) as Hr.
  destruct (In_nums_ex U (offset s) n (u_num _ _ _ Hu)) as (u & HuU & Hun); [lia|].
  exists u. split; auto.
  destruct (perm_in_U u (rj_perm _ _ _ _ _ _ _ _ _ J) HuU) as [[->|Hq]|Hrest]; auto; [lia|].
  pose proof (sorted_head_min _ _ _ (rj_sorted _ _ _ _ _ _ _ _ _ J) Hq). lia.
Qed.

(* A: while proc < space the popped header's index is inside the usable part of the cache *)
Lemma index_in_range g U L s h q send skip proc space :
  RJ g U L s (h :: q) send skip proc space -> (proc < space)%Z ->
  h_num h < offset s + N.of_nat L /\ offset s <= h_num h.
Proof.
  intros J Hlt. pose proof (rj_u _ _ _ _ _ _ _ _ _ J) as Hu. pose proof (rj_c _ _ _ _ _ _ _ _ _ J) as Hc.
  assert (HhU : In h U) by (eapply Permutation_in; [apply (rj_perm _ _ _ _ _ _ _ _ _ J)|simpl; auto]).
  pose proof (U_range _ _ _ _ Hu HhU) as Hr. split; [|lia].
  destruct (N.ltb (h_num h) (offset s + N.of_nat L)) eqn:E; [lia|]. exfalso.
  set (bound := offset s + N.of_nat L) in *.
  set (l := send ++ skip ++ filter (below bound) (flat (pend s)) ++ filter (below bound) (completed s)).
  assert (Hincl : incl (Nseq (offset s) L) (map h_num l)).
  { intros n Hn. apply In_Nseq in Hn.
    destruct (below_head_elsewhere _ _ _ _ _ _ _ _ _ _ n J) as (u & Hun & Hin); [lia|].
    apply in_map_iff. exists u. split; auto. unfold l.
    rewrite !in_app_iff in *. destruct Hin as [H|[H|[H|H]]]; auto.
    - right; right; left. apply filter_In. split; auto. unfold below, bound. lia.
    - right; right; right. apply filter_In. split; auto. unfold below, bound. lia. }
  apply count_holders in Hincl. unfold l in Hincl. rewrite !app_length in Hincl.
  pose proof (rj_count _ _ _ _ _ _ _ _ _ J) as Hcnt. fold bound in Hcnt.
  rewrite pending_count_flat in Hcnt. fold (below bound) in Hcnt. lia.
Qed.

(* B: all slots below the popped header's slot are occupied *)
Lemma below_head_occupied g U L s h q send skip proc space j :
  RJ g U L s (h :: q) send skip proc space -> offset s <= h_num h -> (j < idx s h)%nat ->
  nth j (cache s) None <> None.
Proof.
  intros J Hge Hj. unfold idx, slot_index in Hj.
  destruct (below_head_elsewhere _ _ _ _ _ _ _ _ _ _ (offset s + N.of_nat j) J) as (u & Hun & Hin); [lia|].
  destruct (rj_slotted _ _ _ _ _ _ _ _ _ J u Hin) as [A B].
  replace j with (idx s u); auto. unfold idx, slot_index. lia.
Qed.

(* C: the popped header is not completed *)
Lemma head_not_completed g U L s h q send skip proc space :
  RJ g U L s (h :: q) send skip proc space -> ~ In h (completed s).
Proof.
  intros J Hin. pose proof (U_NoDup _ _ _ (rj_u _ _ _ _ _ _ _ _ _ J)) as Hnd.
  rewrite <- (rj_perm _ _ _ _ _ _ _ _ _ J) in Hnd. simpl in Hnd.
  inversion Hnd as [|? ? Hx _]; subst. apply Hx. rewrite !in_app_iff. auto.
Qed.

Lemma head_slot_incomplete g U L s h q send skip proc space r :
  RJ g U L s (h :: q) send skip proc space -> index_bad s (slot_index s h) = false ->
  nth (idx s h) (cache s) None = Some r -> r_hdr r = h /\ complete r = false.
Proof.
  intros J Hb Hr.
  assert (HhU : In h U) by (eapply Permutation_in; [apply (rj_perm _ _ _ _ _ _ _ _ _ J)|simpl; auto]).
  pose proof (slot_holds_U _ _ _ _ _ (rj_u _ _ _ _ _ _ _ _ _ J) (rj_c _ _ _ _ _ _ _ _ _ J) HhU Hb Hr) as E.
  split; auto. destruct (complete r) eqn:Ec; auto. exfalso.
  apply (head_not_completed _ _ _ _ _ _ _ _ _ _ J). apply In_cplt. eauto.
Qed.

(* ---- frame lemmas for slot updates ----------------------------------------------- *)
Lemma slotted_mono s s' h :
  offset s' = offset s -> length (cache s') = length (cache s) ->
  (forall j, nth j (cache s) None <> None -> nth j (cache s') None <> None) ->
  slotted s h -> slotted s' h.
Proof.
  intros Ho Hl Hn [A B]. unfold slotted, idx, index_bad, slot_index in *. rewrite Ho, Hl. split; auto.
Qed.

Lemma nth_upd_keeps i f c j :
  (forall o, o <> None -> f o <> None) ->
  nth j c (@None result) <> None -> nth j (upd i f c) None <> None.
Proof.
  intros Hf Hj. rewrite nth_upd. destruct (Nat.eqb i j && Nat.ltb i (length c)) eqn:E; auto.
  apply andb_prop in E as [E _]. apply Nat.eqb_eq in E. subst. auto.
Qed.

Lemma dec_pending_keeps o : o <> None -> dec_pending o <> None.
Proof. destruct o; simpl; congruence. Qed.
Lemma set_body_keeps b o : o <> None -> set_body b o <> None.
Proof. destruct o; simpl; congruence. Qed.

Lemma nil_suffix_upd i f c :
  (forall o, f o = None <-> o = None) -> nil_suffix c -> nil_suffix (upd i f c).
Proof.
  intros Hf Hn a b Hab. rewrite !nth_upd.
  destruct (Nat.eqb i a && Nat.ltb i (length c)) eqn:Ea; destruct (Nat.eqb i b && Nat.ltb i (length c)) eqn:Eb.
  - auto.
  - apply andb_prop in Ea as [Ea _]. apply Nat.eqb_eq in Ea. subst. rewrite Hf. apply Hn; auto.
  - apply andb_prop in Eb as [Eb _]. apply Nat.eqb_eq in Eb. subst. rewrite Hf. apply Hn; auto.
  - apply Hn; auto.
Qed.

Lemma dec_pending_None o : dec_pending o = None <-> o = None.
Proof. destruct o; simpl; split; congruence. Qed.
Lemma set_body_None b o : set_body b o = None <-> o = None.
Proof. destruct o; simpl; split; congruence. Qed.

(* ensure_slot *)
Lemma ensure_slot_completed s h i :
  (i < length (cache s))%nat -> completed (ensure_slot s h i) = completed s.
Proof.
  intros Hi. unfold ensure_slot, completed. destruct (nth i (cache s) None) eqn:E; auto.
  simpl. apply cplt_upd_same.
  - intros r Hr. congruence.
  - intros _ _. eexists. split; eauto.
Qed.

Lemma ensure_slot_keeps s h i j :
  nth j (cache s) None <> None -> nth j (cache (ensure_slot s h i)) None <> None.
Proof.
  unfold ensure_slot. destruct (nth i (cache s) None) eqn:E; auto. simpl.
  intros Hj. rewrite nth_upd. destruct (Nat.eqb i j && _) eqn:Eb; auto. discriminate.
Qed.

Lemma RJ_ensure g U L s h q send skip proc space :
  RJ g U L s (h :: q) send skip proc space -> (proc < space)%Z -> (L <= cache_len)%nat ->
  let s1 := ensure_slot s h (idx s h) in
  RJ g U L s1 (h :: q) send skip proc space /\
  index_bad s (slot_index s h) = false /\ (idx s h < L)%nat /\
  idx s1 h = idx s h /\ index_bad s1 (slot_index s1 h) = false /\
  (exists r, nth (idx s h) (cache s1) None = Some r /\ r_hdr r = h /\ complete r = false).
Proof.
  intros J Hlt HL s1.
  pose proof (rj_u _ _ _ _ _ _ _ _ _ J) as Hu. pose proof (rj_c _ _ _ _ _ _ _ _ _ J) as Hc.
  destruct (index_in_range _ _ _ _ _ _ _ _ _ _ J Hlt) as [Hhi Hlo].
  assert (HhU : In h U) by (eapply Permutation_in; [apply (rj_perm _ _ _ _ _ _ _ _ _ J)|simpl; auto]).
  assert (Hi : (idx s h < L)%nat) by (unfold idx, slot_index; lia).
  assert (Hb : index_bad s (slot_index s h) = false).
  { unfold index_bad, slot_index. rewrite (c_len _ _ _ Hc). lia. }
  assert (Hil : (idx s h < length (cache s))%nat) by (rewrite (c_len _ _ _ Hc); lia).
  destruct (ensure_slot_frame s h (idx s h)) as (F1 & F2 & F3 & F4 & F5 & F6 & F7 & F8). fold s1 in F1, F2, F3, F4, F5, F6, F7, F8.
  assert (Hcp : completed s1 = completed s) by (apply ensure_slot_completed; auto).
  assert (Hidx : idx s1 h = idx s h) by (unfold idx, slot_index; rewrite F6; auto).
  assert (Hb1 : index_bad s1 (slot_index s1 h) = false).
  { unfold index_bad, slot_index in *. rewrite F6, F8. auto. }
  assert (Hnth : forall j, nth j (cache s1) None =
                           if Nat.eqb (idx s h) j then match nth (idx s h) (cache s) None with
                                                       | None => Some (R 1 (h_hash h) h [])
                                                       | Some r => Some r end
                           else nth j (cache s) None).
  { intros j. apply ensure_slot_nth; auto. }
  assert (J1 : RJ g U L s1 (h :: q) send skip proc space).
  { constructor.
    - destruct Hu as [A0 A B C]. constructor; auto. rewrite F6; auto.
    - destruct Hc as [A B C D E F]. constructor.
      + apply slot_ok_ensure; auto.
      + apply (cache_good_ensure derive empty_root derive_nil); auto. apply (u_g _ _ _ Hu); auto.
      + congruence.
      + (* nil suffix *)
        intros a b Hab. rewrite !Hnth.
        destruct (Nat.eqb (idx s h) a) eqn:Ea; [destruct (nth (idx s h) (cache s) None); discriminate|].
        destruct (Nat.eqb (idx s h) b) eqn:Eb.
        * intros Ha. exfalso. apply Nat.eqb_eq in Eb. apply Nat.eqb_neq in Ea. subst b.
          apply (below_head_occupied _ _ _ _ _ _ _ _ _ _ a J); auto. lia.
        * apply D; auto.
      + intros j r. rewrite Hnth. destruct (Nat.eqb (idx s h) j); [|apply E].
        destruct (nth (idx s h) (cache s) None) eqn:En.
        * intros [= <-]. eapply E; eauto.
        * intros [= <-]. simpl. auto.
      + unfold done_ok. rewrite F5, Hcp. auto.
    - rewrite F4, Hcp. apply (rj_perm _ _ _ _ _ _ _ _ _ J).
    - apply (rj_sorted _ _ _ _ _ _ _ _ _ J).
    - intros x Hx. rewrite F4, Hcp in Hx. apply (slotted_mono s s1); auto.
      + intros j. apply ensure_slot_keeps.
      + apply (rj_slotted _ _ _ _ _ _ _ _ _ J); auto.
    - rewrite F4, F6, Hcp. apply (rj_count _ _ _ _ _ _ _ _ _ J). }
  split; [exact J1|]. split; auto. split; auto. split; auto. split; auto.
  specialize (Hnth (idx s h)). rewrite Nat.eqb_refl in Hnth.
  destruct (nth (idx s h) (cache s) None) as [r|] eqn:En.
  - exists r. split; auto. eapply (head_slot_incomplete _ _ _ s); eauto.
  - eexists. split; eauto.
Qed.

(* ---- the loop --------------------------------------------------------------------- *)
Lemma perm_move_mid {A} (h : A) a b c : Permutation ((h :: a) ++ b ++ c) (a ++ (b ++ [h]) ++ c).
Proof.
  simpl. rewrite <- app_assoc. simpl.
  transitivity (a ++ h :: b ++ c).
  - apply Permutation_middle.
  - apply Permutation_app_head. apply Permutation_middle.
Qed.

Lemma perm_move_end {A} (h : A) a b c d e :
  Permutation ((h :: a) ++ b ++ c ++ d ++ e) (a ++ b ++ c ++ d ++ h :: e).
Proof.
  simpl. rewrite !app_assoc. apply Permutation_middle.
Qed.

Lemma perm_move_skip {A} (h : A) a b c d :
  Permutation ((h :: a) ++ b ++ c ++ d) (a ++ b ++ (c ++ [h]) ++ d).
Proof.
  simpl. rewrite <- (app_assoc c). simpl. rewrite !app_assoc. apply Permutation_middle.
Qed.

Lemma RJ_tq g U L s q send skip proc space x :
  RJ g U L s q send skip proc space -> RJ g U L (set_tqueue s x) q send skip proc space.
Proof.
  intros [[u0 u1 u2 u3] [c1 c2 c3 c4 c5 c6] P S SL CN].
  constructor; [constructor|constructor| | | |]; assumption.
Qed.

Lemma reserve_loop_RJ g U L p count q : forall s proc space send skip progress,
  (L <= cache_len)%nat -> RJ g U L s q send skip proc space ->
  match reserve_loop empty_root p count q s proc space send skip progress with
  | RLerr _ => False
  | RLok s' send' skip' _ =>
    (exists proc' space', RJ g U L s' (tqueue s') send' skip' proc' space') /\
    pend s' = pend s /\ offset s' = offset s /\ lacks s' = lacks s /\ head s' = head s /\
    (exists more, send' = send ++ more)
  end.
Proof.
  induction q as [|h q IH]; intros s proc space send skip progress HL J; simpl.
  - split; [|repeat split; auto; exists []; rewrite app_nil_r; auto]. exists proc, space. apply RJ_tq; exact J.
  - destruct ((proc <? space)%Z && (N.of_nat (length send) <? count)) eqn:Hcond; simpl.
    2:{ split; [|repeat split; auto; exists []; rewrite app_nil_r; auto]. exists proc, space. apply RJ_tq; exact J. }
    apply andb_prop in Hcond as [Hlt _]. apply Z.ltb_lt in Hlt.
    destruct (RJ_ensure _ _ _ _ _ _ _ _ _ _ J Hlt HL) as (J1 & Hb & Hi & Hidx & Hb1 & r & Hr & Hrh & Hrc).
    fold (idx s h). rewrite Hb. set (s1 := ensure_slot s h (idx s h)) in *.
    destruct (ensure_slot_frame s h (idx s h)) as (F1 & F2 & F3 & F4 & F5 & F6 & F7 & F8). fold s1 in F1, F2, F3, F4, F5, F6, F7, F8.
    pose proof (rj_u _ _ _ _ _ _ _ _ _ J1) as Hu. pose proof (rj_c _ _ _ _ _ _ _ _ _ J1) as Hc.
    assert (HhU : In h U) by (eapply Permutation_in; [apply (rj_perm _ _ _ _ _ _ _ _ _ J1)|simpl; auto]).
    assert (Hslot_h : slotted s1 h) by (split; auto; rewrite Hidx, Hr; discriminate).
    destruct (h_root h =? empty_root) eqn:Hroot.
    + (* empty block: completes at once *)
      set (s2 := complete_noop s1 h (idx s h)).
      assert (Hr' : dec_pending (Some r) = Some (R (r_pending r - 1) (r_hash r) (r_hdr r) (r_txs r))) by reflexivity.
      assert (Hgood : slot_good derive g r) by (eapply (c_good _ _ _ Hc); eauto).
      assert (Hcp : Permutation (completed s2) (h :: completed s1)).
      { assert (Hc' : complete (R (r_pending r - 1) (r_hash r) (r_hdr r) (r_txs r)) = true)
          by (unfold complete; simpl; destruct Hgood as (_ & Hp & _); lia).
        pose proof (cplt_upd_new (cache s1) (idx s h) dec_pending r _ Hr Hr' Hrc Hc') as X.
        simpl in X. rewrite Hrh in X. exact X. }
      assert (J2 : RJ g U L s2 q send skip proc (space - 1)%Z).
      { constructor.
        - destruct Hu as [A0 A B C]. constructor; auto.
        - destruct Hc as [A B C D E F]. constructor.
          + apply slot_ok_noop; auto.
          + apply (cache_good_noop derive empty_root derive_nil g s1 h (idx s h)); auto.
            * apply (u_uniq _ _ _ Hu).
            * apply (u_g _ _ _ Hu); auto.
          + unfold s2; simpl. rewrite length_upd; auto.
          + unfold s2; simpl. apply nil_suffix_upd; auto. apply dec_pending_None.
          + intros j r0. unfold s2; simpl. rewrite nth_upd.
            destruct (Nat.eqb (idx s h) j && _) eqn:Ej; [|apply E].
            intros Hd. apply dec_pending_hdr in Hd as (r1 & Hr1 & Hh1 & _). rewrite Hh1. eapply E; eauto.
          + unfold done_ok. intros x. unfold s2 at 1; simpl. rewrite (perm_in_iff x _ _ (Permutation_map h_hash Hcp)).
            simpl. rewrite (F x). tauto.
        - unfold s2 at 1; simpl pend. rewrite Hcp.
          rewrite <- (rj_perm _ _ _ _ _ _ _ _ _ J1). symmetry. apply perm_move_end.
        - eapply sorted_tail, (rj_sorted _ _ _ _ _ _ _ _ _ J1).
        - intros x Hx. apply (slotted_mono s1 s2); auto.
          + unfold s2; simpl. apply length_upd.
          + intros j. unfold s2; simpl. apply nth_upd_keeps. apply dec_pending_keeps.
          + unfold s2 in Hx at 1; simpl pend in Hx.
            rewrite !in_app_iff in Hx. destruct Hx as [Hx|[Hx|[Hx|Hx]]].
            * apply (rj_slotted _ _ _ _ _ _ _ _ _ J1). rewrite !in_app_iff; auto.
            * apply (rj_slotted _ _ _ _ _ _ _ _ _ J1). rewrite !in_app_iff; auto.
            * apply (rj_slotted _ _ _ _ _ _ _ _ _ J1). rewrite !in_app_iff; auto.
            * apply (Permutation_in _ Hcp) in Hx. destruct Hx as [<-|Hx]; auto.
              apply (rj_slotted _ _ _ _ _ _ _ _ _ J1). rewrite !in_app_iff; auto.
        - pose proof (rj_count _ _ _ _ _ _ _ _ _ J1) as Hcnt.
          unfold s2 at 1 2 3; simpl pend; simpl offset.
          assert (Hlen : length (filter (below (offset s1 + N.of_nat L)) (completed s2)) =
                         S (length (filter (below (offset s1 + N.of_nat L)) (completed s1)))).
          { rewrite (Permutation_length (perm_filter _ _ _ Hcp)). simpl.
            assert (Hbel : below (offset s1 + N.of_nat L) h = true).
            { unfold below. unfold idx, slot_index in Hi. rewrite F6.
              destruct (index_ok_nat _ _ Hb). lia. }
            rewrite Hbel. auto. }
          fold s2. rewrite Hlen. lia. }
      specialize (IH s2 proc (space - 1)%Z send skip true HL J2).
      destruct (reserve_loop empty_root p count q s2 proc (space - 1) send skip true); auto.
      destruct IH as (A & B & C & D & E & G). split; auto.
      unfold s2 in *; simpl in *. repeat split; try congruence.
    + destruct (lacks_mem p (h_hash h) (lacks s1)).
      * assert (J2 : RJ g U L s1 q send (skip ++ [h]) (proc + 1)%Z space).
        { constructor; try apply J1.
          - rewrite <- (rj_perm _ _ _ _ _ _ _ _ _ J1). apply Permutation_sym, perm_move_skip.
          - eapply sorted_tail, (rj_sorted _ _ _ _ _ _ _ _ _ J1).
          - intros x Hx. rewrite !in_app_iff in Hx. destruct Hx as [Hx|[[Hx|[<-|[]]]|[Hx|Hx]]]; auto;
              apply (rj_slotted _ _ _ _ _ _ _ _ _ J1); rewrite !in_app_iff; auto.
          - pose proof (rj_count _ _ _ _ _ _ _ _ _ J1) as Hcnt. rewrite app_length. simpl. lia. }
        specialize (IH s1 (proc + 1)%Z space send (skip ++ [h]) progress HL J2).
        destruct (reserve_loop empty_root p count q s1 (proc + 1) space send (skip ++ [h]) progress); auto.
        destruct IH as (A & B & C & D & E & G). split; auto. repeat split; try congruence.
      * assert (J2 : RJ g U L s1 q (send ++ [h]) skip (proc + 1)%Z space).
        { constructor; try apply J1.
          - rewrite <- (rj_perm _ _ _ _ _ _ _ _ _ J1). apply Permutation_sym, perm_move_mid.
          - eapply sorted_tail, (rj_sorted _ _ _ _ _ _ _ _ _ J1).
          - intros x Hx. rewrite !in_app_iff in Hx. destruct Hx as [[Hx|[<-|[]]]|[Hx|[Hx|Hx]]]; auto;
              apply (rj_slotted _ _ _ _ _ _ _ _ _ J1); rewrite !in_app_iff; auto.
          - pose proof (rj_count _ _ _ _ _ _ _ _ _ J1) as Hcnt. rewrite app_length. simpl. lia. }
        specialize (IH s1 (proc + 1)%Z space (send ++ [h]) skip progress HL J2).
        destruct (reserve_loop empty_root p count q s1 (proc + 1) space (send ++ [h]) skip progress); auto.
        destruct IH as (A & B & C & D & E & (more & ->)). split; auto. repeat split; try congruence.
        exists (h :: more). rewrite <- app_assoc. auto.
Qed.

End Strict.
