(* C18 - sequences of sync cycles on one queue object: after Reset, the peers'
   Reset and Prepare(o) the queue is exactly a fresh queue prepared at o, so
   every cycle - whatever the earlier cycles did or left behind - inherits all
   the theorems about histories from a fresh queue. *)
From Coq Require Import Lia ZifyBool ZifyN ZifyNat.
From VF.C18 Require Import Model ProofsA ProofsB ProofsC ProofsD ProofsE ProofsF ProofsG ProofsH ProofsI.
Local Open Scope N_scope.

(* the fields a new cycle depends on, and the values they must have *)
Lemma new_cycle_fields s o :
  let s' := new_cycle s o in
  head s' = 0 /\ tpool s' = [] /\ tqueue s' = [] /\ pend s' = [] /\ done s' = [] /\
  cache s' = repeat None (length (cache s)) /\ offset s' = o /\ lacks s' = [].
Proof.
  unfold new_cycle, prepare, reset_peers, reset. simpl.
  destruct (0 <? o) eqn:E; simpl; repeat split; auto. lia.
Qed.

Lemma new_cycle_fresh s o : new_cycle s o = init (length (cache s)) o.
Proof.
  unfold new_cycle, prepare, reset_peers, reset, init. simpl.
  destruct (0 <? o) eqn:E; simpl; auto. replace o with 0 by lia. reflexivity.
Qed.

Section Cycles.
Variable derive : list N -> N.
Variable empty_root : N.

(* the trace of one cycle: started from whatever state [s] the earlier cycles
   left (requests outstanding, results unretrieved, any offset), from origin o *)
Definition cycle (s : state) (o : N) (ops : list op) : trace :=
  fold_left (step_trace derive empty_root) ops (T (new_cycle s o) [] []).

Lemma cycle_is_fresh_run s o ops :
  cycle s o ops = run derive empty_root (length (cache s)) o ops.
Proof. unfold cycle, run. rewrite new_cycle_fresh. reflexivity. Qed.

(* the cache keeps its length through every operation, so all cycles of a queue
   object run with the same cache length *)
Lemma reset_length s : length (cache (reset s)) = length (cache s).
Proof. simpl. apply repeat_length. Qed.

End Cycles.

(* the state reached by any sequence of cycle operations and cycle switches *)
Definition qrun (derive : list N -> N) (empty_root : N) (s : state) (qs : list qop) : state :=
  fold_left (fun s q => fst (qstep derive empty_root s q)) qs s.

(* C18 for every cycle: the statement of C18_full, for the cycle that starts
   after ANY earlier history [before] (legal or not, cut anywhere) on a queue
   created with cache_len slots *)
Theorem every_cycle_full :
  forall (derive : list N -> N) (empty_root : N), derive [] = empty_root ->
  forall (s : state), (1 <= length (cache s))%nat ->
  forall (o : N) (ops : list op),
  legal_history derive empty_root (length (cache s)) o ops ->
  let t := cycle derive empty_root s o ops in
  let st := t_state t in
  map rnum (t_released t) = Nseq o (length (t_released t)) /\
  map r_hdr (t_released t) = firstn (length (t_released t)) (t_scheduled t) /\
  Forall (fun r => derive (r_txs r) = h_root (r_hdr r)) (t_released t) /\
  Permutation.Permutation (tqueue st ++ flat (pend st) ++ completed st)
              (skipn (length (t_released t)) (t_scheduled t)) /\
  (forall (body : header -> list N) (p : N),
     fresh p st -> (forall h, In h (t_scheduled t) -> derive (body h) = h_root h) ->
     exists ops',
       legal_from derive empty_root (strict_legal_op (length (cache s)) o) t ops' /\
       Forall (only_p p) ops' /\
       map r_hdr (t_released (cycle derive empty_root s o (ops ++ ops'))) = t_scheduled t).
Proof.
  intros derive empty_root Hd s Hc o ops Hl.
  rewrite cycle_is_fresh_run.
  pose proof (full_statement derive empty_root Hd (length (cache s)) Hc o ops Hl) as H.
  cbv zeta in H. destruct H as (A & B & C & D & E).
  cbv zeta. repeat split; auto.
  intros body p Hf Hb. destruct (E body p Hf Hb) as (ops' & X & Y & Z).
  exists ops'. rewrite cycle_is_fresh_run. auto.
Qed.

Theorem every_cycle_order_once :
  forall derive empty_root s o ops,
    map rnum (t_released (cycle derive empty_root s o ops)) =
    Nseq o (length (t_released (cycle derive empty_root s o ops))).
Proof. intros. rewrite cycle_is_fresh_run. apply released_in_order. Qed.
