(* C18 - the clauses of the property collected for legal histories. *)
From Coq Require Import Lia Permutation.
From VF.C18 Require Import Model ProofsA ProofsB ProofsC ProofsD ProofsE ProofsF ProofsG ProofsH.
Local Open Scope N_scope.

Definition C18_statement : Prop :=
  forall (derive : list N -> N) (empty_root : N), derive [] = empty_root ->
  forall (cache_len : nat), (1 <= cache_len)%nat ->
  forall (start : N) (ops : list op),
  legal_history derive empty_root cache_len start ops ->
  let t := run derive empty_root cache_len start ops in
  let s := t_state t in
  (* ascending, gap free, from the sync origin, each number once *)
  map rnum (t_released t) = Nseq start (length (t_released t)) /\
  (* exactly the accepted headers, in Schedule's order *)
  map r_hdr (t_released t) = firstn (length (t_released t)) (t_scheduled t) /\
  (* only with a matching body *)
  Forall (fun r => derive (r_txs r) = h_root (r_hdr r)) (t_released t) /\
  (* nothing accepted is lost or duplicated, whatever the peers did *)
  Permutation (tqueue s ++ flat (pend s) ++ completed s)
              (skipn (length (t_released t)) (t_scheduled t)) /\
  (* the rest completes as soon as one peer answers honestly *)
  (forall (body : header -> list N) (p : N),
     fresh p s -> (forall h, In h (t_scheduled t) -> derive (body h) = h_root h) ->
     exists ops',
       legal_from derive empty_root (strict_legal_op cache_len start) t ops' /\
       Forall (only_p p) ops' /\
       map r_hdr (t_released (run derive empty_root cache_len start (ops ++ ops'))) = t_scheduled t).

Lemma full_statement : C18_statement.
Proof.
  intros derive empty_root Hd cache_len Hc start ops Hl t s.
  pose proof (TI_legal derive empty_root Hd cache_len start ops Hl) as (Ho & Hw & Hsi).
  fold t in Ho, Hw, Hsi.
  destruct (prefix_inv derive empty_root Hd cache_len start t Ho Hw) as [Hpre _].
  split; [apply released_in_order|]. split; [exact Hpre|]. split.
  { destruct Hw as (_ & _ & Hr). eapply Forall_impl; [|exact Hr]. simpl; tauto. }
  split; [apply (nothing_lost derive empty_root Hd cache_len start ops Hl)|].
  intros body p Hf Hb.
  destruct (completion derive empty_root Hd cache_len Hc start body p ops Hl Hf Hb) as (ops' & A & B & C).
  exists ops'. split; auto. split; auto. apply C.
Qed.
