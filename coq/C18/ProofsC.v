(* C18 - list-level lemmas for the bookkeeping invariant: the task queue as a
   sorted multiset, the pending pool as a partition, the completed slots of the
   result cache, and the throttle arithmetic of resultSlots. *)
From Coq Require Import Lia ZifyBool ZifyN ZifyNat Permutation Sorted.
From VF.C18 Require Import Model ProofsA ProofsB.
Local Open Scope N_scope.

(* ---- task queue ----------------------------------------------------------- *)
Definition le_num (a b : header) : Prop := h_num a <= h_num b.
Definition sortedq (q : list header) : Prop := StronglySorted le_num q.

Lemma qpush_perm h q : Permutation (qpush h q) (h :: q).
Proof.
  induction q as [|x q IH]; simpl; auto.
  destruct (h_num h <? h_num x); auto.
  rewrite IH. apply perm_swap.
Qed.

Lemma qpush_all_perm hs : forall q, Permutation (qpush_all hs q) (hs ++ q).
Proof.
  unfold qpush_all. induction hs as [|h hs IH]; simpl; intros q; auto.
  rewrite IH, qpush_perm. symmetry. apply Permutation_middle.
Qed.

Lemma qpush_sorted h q : sortedq q -> sortedq (qpush h q).
Proof.
  unfold sortedq. induction q as [|x q IH]; simpl; intros Hs.
  - constructor; auto.
  - inversion Hs as [|? ? Hq Hx]; subst.
    destruct (h_num h <? h_num x) eqn:E.
    + constructor; auto. constructor.
      * unfold le_num. lia.
      * eapply Forall_impl; [|exact Hx]. unfold le_num. intros; lia.
    + constructor; auto.
      apply Forall_forall. intros y Hy. apply In_qpush in Hy as [->|Hy].
      * unfold le_num. lia.
      * rewrite Forall_forall in Hx. auto.
Qed.

Lemma qpush_all_sorted hs : forall q, sortedq q -> sortedq (qpush_all hs q).
Proof.
  unfold qpush_all. induction hs as [|h hs IH]; simpl; intros q Hq; auto.
  apply IH, qpush_sorted; auto.
Qed.

Lemma sorted_head_min h q x : sortedq (h :: q) -> In x q -> h_num h <= h_num x.
Proof.
  intros Hs Hx. inversion Hs as [|? ? _ Hf]; subst. rewrite Forall_forall in Hf. apply Hf; auto.
Qed.

Lemma sorted_tail h q : sortedq (h :: q) -> sortedq q.
Proof. intros Hs. inversion Hs; auto. Qed.

(* ---- pending pool ----------------------------------------------------------- *)
Definition flat (l : list (N * list header)) : list header := concat (map snd l).

Lemma pend_get_None p l : pend_get p l = None -> ~ In p (map fst l).
Proof.
  induction l as [|[k v] l IH]; simpl; auto.
  destruct (k =? p) eqn:E; [discriminate|]. apply N.eqb_neq in E. intros H [X|X]; auto. apply IH; auto.
Qed.

Lemma pend_del_notin p l : ~ In p (map fst l) -> pend_del p l = l.
Proof.
  induction l as [|[k v] l IH]; simpl; auto. intros H.
  destruct (k =? p) eqn:E; simpl.
  - apply N.eqb_eq in E. tauto.
  - f_equal. apply IH. tauto.
Qed.

Lemma pend_split p l hs :
  NoDup (map fst l) -> pend_get p l = Some hs ->
  Permutation (flat l) (hs ++ flat (pend_del p l)).
Proof.
  induction l as [|[k v] l IH]; simpl; [discriminate|]. intros Hn Hg.
  inversion Hn as [|? ? Hk Hn']; subst.
  destruct (k =? p) eqn:E; simpl.
  - injection Hg as <-. apply N.eqb_eq in E. subst k.
    rewrite pend_del_notin; auto.
  - unfold flat in *. simpl. rewrite (IH Hn' Hg).
    rewrite !app_assoc. apply Permutation_app_tail, Permutation_app_comm.
Qed.

Lemma NoDup_map_filter {A B} (f : A -> B) (g : A -> bool) l : NoDup (map f l) -> NoDup (map f (filter g l)).
Proof.
  induction l as [|x l IH]; simpl; auto. intros Hn. inversion Hn as [|? ? Hx Hn']; subst.
  destruct (g x); simpl; auto. constructor; auto.
  intros Hin. apply Hx. apply in_map_iff in Hin as (y & Hy & Hin). apply filter_In in Hin as [Hin _].
  apply in_map_iff. eauto.
Qed.

Lemma flat_filter_perm (g : N * list header -> bool) l :
  Permutation (flat l) (flat (filter g l) ++ flat (filter (fun x => negb (g x)) l)).
Proof.
  unfold flat. induction l as [|x l IH]; simpl; auto.
  destruct (g x); simpl.
  - rewrite <- app_assoc. apply Permutation_app_head; auto.
  - rewrite IH. rewrite !app_assoc. apply Permutation_app_tail, Permutation_app_comm.
Qed.

Lemma fold_push_perm (ex : list (N * list header)) : forall q,
  Permutation (fold_left (fun q kv => qpush_all (snd kv) q) ex q) (flat ex ++ q).
Proof.
  unfold flat. induction ex as [|kv ex IH]; simpl; intros q; auto.
  rewrite IH, qpush_all_perm. rewrite !app_assoc. apply Permutation_app_tail, Permutation_app_comm.
Qed.

Lemma fold_push_sorted (ex : list (N * list header)) : forall q,
  sortedq q -> sortedq (fold_left (fun q kv => qpush_all (snd kv) q) ex q).
Proof.
  induction ex as [|kv ex IH]; simpl; intros q Hq; auto. apply IH, qpush_all_sorted; auto.
Qed.

(* ---- completed slots of the result cache ---------------------------------------- *)
Definition complete (r : result) : bool := (r_pending r <=? 0)%Z.
Definition cplt (c : list (option result)) : list header := map r_hdr (filter complete (somes c)).
Definition completed (s : state) : list header := cplt (cache s).

Lemma somes_app {A} (a b : list (option A)) : somes (a ++ b) = somes a ++ somes b.
Proof. induction a as [|[x|] a IH]; simpl; auto. f_equal; auto. Qed.

Lemma somes_repeat_None {A} n : somes (repeat (@None A) n) = [].
Proof. induction n; simpl; auto. Qed.

Lemma cplt_app a b : cplt (a ++ b) = cplt a ++ cplt b.
Proof. unfold cplt. rewrite somes_app, filter_app, map_app; auto. Qed.

Lemma In_cplt c h : In h (cplt c) <-> exists j r, nth j c None = Some r /\ complete r = true /\ r_hdr r = h.
Proof.
  unfold cplt. induction c as [|[x|] c IH]; simpl.
  - split; [intros []|]. intros (j & r & H & _). destruct j; discriminate.
  - destruct (complete x) eqn:E; simpl.
    + split.
      * intros [<-|Hin]; [exists O, x; auto|].
        apply IH in Hin as (j & r & A & B & C). exists (S j), r; auto.
      * intros ([|j] & r & A & B & C); [injection A as <-; auto|]. right. apply IH. eauto.
    + rewrite IH. split.
      * intros (j & r & A & B & C). exists (S j), r; auto.
      * intros ([|j] & r & A & B & C); [injection A as <-; congruence|]. eauto.
  - rewrite IH. split.
    + intros (j & r & A & B & C). exists (S j), r; auto.
    + intros ([|j] & r & A & B & C); [discriminate|]. eauto.
Qed.

(* updating one slot *)
Lemma cplt_upd_same c : forall i (f : option result -> option result),
  (forall r, nth i c None = Some r -> exists r', f (Some r) = Some r' /\ complete r' = complete r /\ r_hdr r' = r_hdr r) ->
  (nth i c None = None -> (i < length c)%nat ->
     exists r', f None = Some r' /\ complete r' = false) ->
  cplt (upd i f c) = cplt c.
Proof.
  unfold cplt. induction c as [|x c IH]; intros [|i] f Hf Hn; simpl; auto.
  - destruct x as [r|].
    + destruct (Hf r eq_refl) as (r' & -> & Hc & Hh). simpl. rewrite Hc.
      destruct (complete r); simpl; congruence.
    + destruct Hn as (r' & -> & Hc); simpl; auto; try lia. rewrite Hc. auto.
  - destruct x as [r|]; simpl.
    + assert (E : map r_hdr (filter complete (somes (upd i f c))) = map r_hdr (filter complete (somes c))).
      { apply (IH i f); auto. intros H1 H2. apply Hn; simpl in *; auto. lia. }
      destruct (complete r); simpl; congruence.
    + apply (IH i f); auto. intros H1 H2. apply Hn; simpl in *; auto. lia.
Qed.

Lemma cplt_upd_new c : forall i (f : option result -> option result) r r',
  nth i c None = Some r -> f (Some r) = Some r' -> complete r = false -> complete r' = true ->
  Permutation (cplt (upd i f c)) (r_hdr r' :: cplt c).
Proof.
  unfold cplt. induction c as [|x c IH]; intros [|i] f r r' Hn Hf Hc Hc'; simpl in *; try discriminate.
  - subst x. rewrite Hf. simpl. rewrite Hc, Hc'. simpl. auto.
  - destruct x as [y|]; simpl.
    + destruct (complete y); simpl.
      * rewrite (IH i f r r'); auto. apply perm_swap.
      * apply (IH i f r r'); auto.
    + apply (IH i f r r'); auto.
Qed.

(* ---- throttle arithmetic ----------------------------------------------------------- *)
Definition nil_suffix (c : list (option result)) : Prop :=
  forall i j, (i <= j)%nat -> nth i c None = None -> nth j c None = None.

Lemma nil_suffix_tail x c : nil_suffix (x :: c) -> nil_suffix c.
Proof. intros H i j Hij Hi. apply (H (S i) (S j)); simpl; auto. lia. Qed.

Lemma nil_suffix_all_none c : nil_suffix (None :: c) -> somes c = [].
Proof.
  intros H. assert (Hall : forall j, nth j c None = None).
  { intros j. apply (H O (S j)); simpl; auto. lia. }
  clear H. induction c as [|[x|] c IH]; simpl; auto.
  - specialize (Hall O). discriminate.
  - apply IH. intros j. apply (Hall (S j)).
Qed.

Lemma nth_firstn {A} n : forall (l : list A) j d, nth j (firstn n l) d = if Nat.ltb j n then nth j l d else d.
Proof.
  induction n as [|n IH]; intros l j d; simpl.
  - destruct j; auto.
  - destruct l as [|x l]; simpl.
    + destruct j; destruct (Nat.ltb _ (S n)); auto.
    + destruct j; auto. rewrite IH. reflexivity.
Qed.

Lemma nil_suffix_firstn n c : nil_suffix c -> nil_suffix (firstn n c).
Proof.
  intros H i j Hij. rewrite !nth_firstn.
  destruct (Nat.ltb i n) eqn:Ei, (Nat.ltb j n) eqn:Ej; auto.
  - apply H; auto.
  - apply Nat.ltb_lt in Ej. apply Nat.ltb_ge in Ei. lia.
Qed.

Lemma finished_ge c d :
  nil_suffix c ->
  (forall j r, nth j c None = Some r -> complete r = true -> memN (r_hash r) d = true) ->
  (Z.of_nat (length (cplt c)) <= finished_count c d)%Z.
Proof.
  unfold cplt. induction c as [|[r|] c IH]; simpl; intros Hn Hd; try lia.
  - specialize (IH (nil_suffix_tail _ _ Hn) (fun j r => Hd (S j) r)).
    destruct (complete r) eqn:E; simpl.
    + rewrite (Hd O r eq_refl E). lia.
    + destruct (memN (r_hash r) d); lia.
  - rewrite (nil_suffix_all_none _ Hn). simpl. lia.
Qed.

Lemma finished_le c d : (0 <= finished_count c d <= Z.of_nat (length c))%Z.
Proof.
  induction c as [|[r|] c IH]; simpl; try lia.
  destruct (memN (r_hash r) d); lia.
Qed.

Lemma finished_first_not_done c d n :
  (match nth 0 c None with Some r => memN (r_hash r) d = false | None => True end) ->
  (1 <= n)%nat -> (n <= length c)%nat ->
  (finished_count (firstn n c) d <= Z.of_nat n - 1)%Z.
Proof.
  intros H0 Hn Hl. destruct n as [|n]; [lia|].
  destruct c as [|[r|] c]; cbn [nth firstn finished_count length] in *; try lia.
  rewrite H0. pose proof (finished_le (firstn n c) d) as H. rewrite firstn_length in H. lia.
Qed.

Lemma pending_count_flat pp bound :
  pending_count pp bound = Z.of_nat (length (filter (fun h => h_num h <? bound) (flat pp))).
Proof.
  unfold pending_count, flat, count_below. induction pp as [|kv pp IH]; simpl; auto.
  rewrite IH, filter_app, app_length. lia.
Qed.

(* L distinct numbers need L distinct holders *)
Lemma count_holders (l : list header) off L :
  incl (Nseq off L) (map h_num l) -> (L <= length l)%nat.
Proof.
  intros Hi. pose proof (NoDup_incl_length (NoDup_Nseq off L) Hi) as H.
  rewrite Nseq_length, map_length in H. auto.
Qed.

Lemma In_nums_ex (U : list header) off n :
  map h_num U = Nseq off (length U) -> off <= n < off + N.of_nat (length U) ->
  exists u, In u U /\ h_num u = n.
Proof.
  intros Hm Hn. assert (Hi : In n (map h_num U)) by (rewrite Hm; apply In_Nseq; auto).
  apply in_map_iff in Hi as (u & Hu & Hin). eauto.
Qed.
