(* C18 - preservation of the bookkeeping invariant by every operation of a
   legal history. *)
From Coq Require Import Lia ZifyBool ZifyN ZifyNat Permutation Sorted.
From VF.C18 Require Import Model ProofsA ProofsB ProofsC ProofsD.
Local Open Scope N_scope.

Section StrictOps.
Variable derive : list N -> N.
Variable empty_root : N.
Hypothesis derive_nil : derive [] = empty_root.
Variable cache_len : nat.

Notation SI := (SI derive cache_len).
Notation Cfacts := (Cfacts derive cache_len).
Notation RJ := (RJ derive cache_len).

Lemma Ufacts_same g U s s' : offset s' = offset s -> Ufacts g U s -> Ufacts g U s'.
Proof. intros Ho [A B C D]. constructor; auto. rewrite Ho; auto. Qed.

Lemma Cfacts_same g U s s' :
  offset s' = offset s -> cache s' = cache s -> done s' = done s -> Cfacts g U s -> Cfacts g U s'.
Proof.
  intros Ho Hc Hd [A B C D E F]. constructor; try (rewrite Hc; auto).
  - eapply slot_ok_same; eauto.
  - intros i r. rewrite Hc. apply B.
  - unfold done_ok, completed. rewrite Hd, Hc. apply F.
Qed.

Lemma slotted_same s s' h : offset s' = offset s -> cache s' = cache s -> slotted s h -> slotted s' h.
Proof. intros Ho Hc [A B]. unfold slotted, idx, index_bad, slot_index in *. rewrite Ho, Hc. auto. Qed.

Lemma completed_same s s' : cache s' = cache s -> completed s' = completed s.
Proof. unfold completed. intros ->; auto. Qed.

Lemma completed_set_tqueue s q : completed (set_tqueue s q) = completed s.
Proof. reflexivity. Qed.
Lemma completed_set_pend s q : completed (set_pend s q) = completed s.
Proof. reflexivity. Qed.
Lemma completed_set_lacks s q : completed (set_lacks s q) = completed s.
Proof. reflexivity. Qed.
Ltac csimp := simpl; rewrite ?completed_set_pend, ?completed_set_tqueue, ?completed_set_lacks.

(* ---- resultSlots never over-estimates the room -------------------------------- *)
Lemma filter_below_nil off (l : list header) :
  (forall h, In h l -> off <= h_num h) -> filter (below off) l = [].
Proof.
  induction l as [|x l IH]; simpl; intros H; auto.
  assert (Hx := H x (or_introl eq_refl)). unfold below at 1.
  destruct (h_num x <? off) eqn:E; [lia|]. apply IH. intros; apply H; auto.
Qed.

Lemma cplt_nums_ge c : forall off,
  (forall j r, nth j c None = Some r -> rnum r = off + N.of_nat j) ->
  forall h, In h (cplt c) -> off <= h_num h.
Proof.
  intros off Hc h Hh. apply In_cplt in Hh as (j & r & Hr & _ & <-).
  apply Hc in Hr. unfold rnum in Hr. lia.
Qed.

Lemma cplt_firstn c : forall off L,
  (forall j r, nth j c None = Some r -> rnum r = off + N.of_nat j) ->
  cplt (firstn L c) = filter (below (off + N.of_nat L)) (cplt c).
Proof.
  induction c as [|x c IH]; intros off L Hc.
  - rewrite firstn_nil. reflexivity.
  - destruct L as [|L].
    + simpl firstn. replace (off + N.of_nat 0) with off by lia.
      symmetry. apply filter_below_nil. apply cplt_nums_ge; auto.
    + assert (Hc' : forall j r, nth j c None = Some r -> rnum r = (off + 1) + N.of_nat j).
      { intros j r Hr. specialize (Hc (S j) r Hr). lia. }
      specialize (IH (off + 1) L Hc').
      replace (off + 1 + N.of_nat L) with (off + N.of_nat (S L)) in IH by lia.
      cbn [firstn]. destruct x as [r|]; unfold cplt in *; cbn [somes filter map]; auto.
      destruct (complete r) eqn:E; cbn [map filter]; auto.
      assert (Hr := Hc O r eq_refl). unfold rnum in Hr.
      assert (Hb : below (off + N.of_nat (S L)) (r_hdr r) = true) by (unfold below; lia).
      rewrite Hb. f_equal. exact IH.
Qed.

Lemma done_of_complete g U s j r :
  Cfacts g U s -> nth j (cache s) None = Some r -> complete r = true -> memN (r_hash r) (done s) = true.
Proof.
  intros Hc Hr Hcp. apply memN_In. apply (c_done _ _ _ _ _ Hc).
  destruct (c_good _ _ _ _ _ Hc _ _ Hr) as (_ & _ & -> & _).
  apply in_map. apply In_cplt. eauto.
Qed.

Lemma room_bound g U s limit :
  Cfacts g U s ->
  let L := N.to_nat limit in
  (result_slots s limit <= Z.of_nat L
     - Z.of_nat (length (filter (below (offset s + N.of_nat L)) (completed s)))
     - pending_count (pend s) (offset s + N.of_nat L))%Z.
Proof.
  intros Hc L. unfold result_slots. fold L.
  replace (offset s + limit) with (offset s + N.of_nat L) by lia.
  assert (H : (Z.of_nat (length (cplt (firstn L (cache s)))) <= finished_count (firstn L (cache s)) (done s))%Z).
  { apply finished_ge.
    - apply nil_suffix_firstn, (c_nil _ _ _ _ _ Hc).
    - intros j r. rewrite nth_firstn. destruct (Nat.ltb j L); [|discriminate].
      intros Hr Hcp. eapply done_of_complete; eauto. }
  rewrite (cplt_firstn (cache s) (offset s) L) in H by (apply (c_slot _ _ _ _ _ Hc)).
  unfold completed. lia.
Qed.

(* ---- Reserve ---------------------------------------------------------------------- *)
Lemma perm_after_reserve {A} (q send skip fp cp : list A) :
  Permutation ((skip ++ q) ++ (send ++ fp) ++ cp) (q ++ send ++ skip ++ fp ++ cp).
Proof.
  rewrite <- !app_assoc. rewrite (Permutation_app_comm skip (q ++ send ++ fp ++ cp)).
  rewrite <- !app_assoc. apply Permutation_app_head, Permutation_app_head.
  rewrite (Permutation_app_comm skip). rewrite <- !app_assoc. auto.
Qed.

Lemma reserve_SI g U p count limit s :
  SI g U s -> (N.to_nat limit <= cache_len)%nat ->
  let s' := fst (reserve empty_root p count limit s) in
  let req := fst (fst (snd (reserve empty_root p count limit s))) in
  let e := snd (snd (reserve empty_root p count limit s)) in
  SI g U s' /\ e = false /\ offset s' = offset s /\ lacks s' = lacks s /\
  match req with
  | None => pend s' = pend s
  | Some send => send <> [] /\ pend s' = (p, send) :: pend s /\ pend_get p (pend s) = None
  end.
Proof.
  intros Hsi HL. unfold reserve.
  destruct (tqueue s) as [|h0 q0] eqn:Eq; [simpl; auto|]. rewrite <- Eq.
  destruct (pend_get p (pend s)) eqn:Eg; [simpl; auto|].
  set (L := N.to_nat limit) in *.
  assert (J : RJ g U L s (tqueue s) [] [] 0%Z (result_slots s limit)).
  { destruct Hsi as [A B C D E F]. constructor; auto.
    pose proof (room_bound g U s limit B) as Hb. cbv zeta in Hb. fold L in Hb. cbn [length]. lia. }
  pose proof (reserve_loop_RJ derive empty_root derive_nil cache_len g U L p count (tqueue s) s 0%Z
                (result_slots s limit) [] [] false HL J) as H.
  destruct (reserve_loop empty_root p count (tqueue s) s 0 (result_slots s limit) [] [] false)
    as [s'|s' send skip progress]; [contradiction|].
  destruct H as ((proc' & space' & J') & Hp & Ho & Hl & Hh & _).
  destruct J' as [A B C D E F].
  assert (Hkeys : NoDup (map fst (pend s))) by apply (si_keys _ _ _ _ _ Hsi).
  assert (Hsort : sortedq (qpush_all skip (tqueue s'))) by (apply qpush_all_sorted; auto).
  destruct send as [|x send]; simpl.
  - split; [|auto]. constructor; csimp.
    + apply (Ufacts_same g U s'); auto.
    + apply (Cfacts_same g U s'); auto.
    + rewrite qpush_all_perm, <- C.
      apply (perm_after_reserve (tqueue s') [] skip (flat (pend s')) (completed s')).
    + rewrite Hp; auto.
    + auto.
    + intros y Hy. apply (slotted_same s'); auto. apply E. simpl. rewrite in_app_iff. auto.
  - split; [|repeat split; auto; try discriminate; try congruence]. constructor; csimp.
    + apply (Ufacts_same g U s'); auto.
    + apply (Cfacts_same g U s'); auto.
    + rewrite qpush_all_perm, <- C. unfold flat; simpl. fold (flat (pend s')).
      apply (perm_after_reserve (tqueue s') (x :: send) skip (flat (pend s')) (completed s')).
    + rewrite Hp. constructor; auto. apply pend_get_None; auto.
    + auto.
    + intros y Hy. apply (slotted_same s'); auto. apply E.
      unfold flat in *. simpl in *. rewrite !in_app_iff in *. tauto.
Qed.

(* ---- Deliver ------------------------------------------------------------------------ *)
Record DJ (g U : list header) (s : state) (hs : list header) : Prop := {
  dj_u : Ufacts g U s;
  dj_c : Cfacts g U s;
  dj_perm : Permutation (tqueue s ++ hs ++ flat (pend s) ++ completed s) U;
  dj_slotted : forall h, In h (hs ++ flat (pend s) ++ completed s) -> slotted s h
}.

Lemma accept_body_DJ g U s h hs b :
  DJ g U s (h :: hs) -> (derive b =? h_root h) = true ->
  DJ g U (accept_body s h (idx s h) b) hs /\
  exists r, nth (idx s h) (cache s) None = Some r /\ index_bad s (slot_index s h) = false.
Proof.
  intros J Hroot. destruct J as [Hu Hc Hp Hs].
  destruct (Hs h (or_introl eq_refl)) as [Hb Hn].
  destruct (nth (idx s h) (cache s) None) as [r|] eqn:Hr; [|congruence]. clear Hn.
  assert (HhU : In h U) by (eapply Permutation_in; [exact Hp|rewrite !in_app_iff; simpl; auto]).
  pose proof (slot_holds_U derive cache_len _ _ _ _ _ Hu Hc HhU Hb Hr) as Hrh.
  assert (Hnc : complete r = false).
  { destruct (complete r) eqn:Ec; auto. exfalso.
    pose proof (U_NoDup _ _ _ Hu) as Hnd. rewrite <- Hp in Hnd.
    apply NoDup_remove_2 in Hnd. apply Hnd. rewrite !in_app_iff. right; right; right.
    apply In_cplt. eauto. }
  assert (Hgood : slot_good derive g r) by (eapply (c_good _ _ _ _ _ Hc); eauto).
  set (s2 := accept_body s h (idx s h) b).
  assert (Hr' : set_body b (Some r) = Some (R (r_pending r - 1) (r_hash r) (r_hdr r) b)) by reflexivity.
  assert (Hcp : Permutation (completed s2) (h :: completed s)).
  { assert (Hc' : complete (R (r_pending r - 1) (r_hash r) (r_hdr r) b) = true)
      by (unfold complete; simpl; destruct Hgood as (_ & Hpd & _); lia).
    pose proof (cplt_upd_new (cache s) (idx s h) (set_body b) r _ Hr Hr' Hnc Hc') as X.
    simpl in X. rewrite Hrh in X. exact X. }
  split; [|eauto]. constructor.
  - destruct Hu as [A0 A B C]. constructor; auto.
  - destruct Hc as [A B C D E F]. constructor.
    + apply slot_ok_accept; auto.
    + apply (cache_good_accept derive empty_root derive_nil g s h b); auto.
      * apply (u_uniq _ _ _ Hu).
      * apply (u_g _ _ _ Hu); auto.
    + unfold s2; simpl. rewrite length_upd; auto.
    + unfold s2; simpl. apply nil_suffix_upd; auto. apply set_body_None.
    + intros j r0. unfold s2; simpl. rewrite nth_upd.
      destruct (Nat.eqb (idx s h) j && _) eqn:Ej; [|apply E].
      intros Hd. apply set_body_hdr in Hd as (r1 & Hr1 & Hh1 & _). rewrite Hh1. eapply E; eauto.
    + unfold done_ok. intros x. unfold s2 at 1; simpl. rewrite (perm_in_iff x _ _ (Permutation_map h_hash Hcp)).
      simpl. rewrite (F x). tauto.
  - unfold s2 at 1 2; simpl tqueue; simpl pend. rewrite Hcp. rewrite <- Hp.
    apply Permutation_app_head. simpl.
    rewrite !app_assoc. symmetry. apply Permutation_middle.
  - intros x Hx. apply (slotted_mono s s2); auto.
    + unfold s2; simpl. apply length_upd.
    + intros j. unfold s2; simpl. apply nth_upd_keeps. apply set_body_keeps.
    + unfold s2 in Hx at 1; simpl pend in Hx.
      rewrite !in_app_iff in Hx. destruct Hx as [Hx|[Hx|Hx]].
      * apply Hs. simpl. rewrite !in_app_iff; auto.
      * apply Hs. simpl. rewrite !in_app_iff; auto.
      * apply (Permutation_in _ Hcp) in Hx. destruct Hx as [<-|Hx].
        -- apply Hs; simpl; auto.
        -- apply Hs. simpl. rewrite !in_app_iff; auto.
Qed.

Lemma deliver_loop_DJ g U hs : forall bs s acc s' rest acc' f,
  DJ g U s hs -> deliver_loop derive hs bs s acc = (s', rest, acc', f) ->
  DJ g U s' rest /\ f <> 2 /\ tqueue s' = tqueue s /\ pend s' = pend s /\ lacks s' = lacks s /\
  offset s' = offset s /\ head s' = head s.
Proof.
  induction hs as [|h hs IH]; intros bs s acc s' rest acc' f J H; simpl in H.
  - injection H as <- <- _ <-. split; [exact J|split; [discriminate|repeat split; auto]].
  - destruct bs as [|b bs]; [injection H as <- <- _ <-; split; [exact J|split; [discriminate|repeat split; auto]]|].
    destruct (dj_slotted _ _ _ _ J h (or_introl eq_refl)) as [Hb Hn]. fold (idx s h) in H. rewrite Hb in H.
    destruct (nth (idx s h) (cache s) None) as [r|] eqn:Hr; [|congruence].
    destruct (negb (derive b =? h_root h)) eqn:Hd;
      [injection H as <- <- _ <-; split; [exact J|split; [discriminate|repeat split; auto]]|].
    apply negb_false_iff in Hd.
    destruct (accept_body_DJ _ _ _ _ _ _ J Hd) as [J2 _].
    apply IH in H; auto.
Qed.

Lemma deliver_SI g U p bs s :
  SI g U s ->
  let s' := fst (deliver derive p bs s) in
  let err := snd (snd (deliver derive p bs s)) in
  SI g U s' /\ err <> 2 /\ offset s' = offset s /\ pend s' = pend_del p (pend s) /\
  (bs <> [] -> lacks s' = lacks s).
Proof.
  intros Hsi. unfold deliver.
  destruct (pend_get p (pend s)) as [hs|] eqn:Eg.
  2:{ simpl. split; [exact Hsi|]. split; [discriminate|]. split; [reflexivity|]. split; [|reflexivity].
      symmetry. apply pend_del_notin, pend_get_None; auto. }
  set (s0 := set_pend s (pend_del p (pend s))).
  set (s1 := match bs with
             | [] => set_lacks s0 (map (fun h => (p, h_hash h)) hs ++ lacks s0)
             | _ => s0 end).
  assert (H1 : offset s1 = offset s /\ cache s1 = cache s /\ done s1 = done s /\ tqueue s1 = tqueue s /\
               pend s1 = pend_del p (pend s) /\ (bs <> [] -> lacks s1 = lacks s))
    by (unfold s1, s0; destruct bs; simpl; repeat split; auto; congruence).
  clearbody s1. destruct H1 as (O1 & C1 & D1 & Q1 & P1 & L1).
  destruct Hsi as [A B C D E F].
  pose proof (pend_split p (pend s) hs D Eg) as Hsplit.
  assert (J : DJ g U s1 hs).
  { constructor.
    - apply (Ufacts_same g U s); auto.
    - apply (Cfacts_same g U s); auto.
    - rewrite Q1, P1, (completed_same s s1 C1). rewrite <- C. apply Permutation_app_head.
      rewrite Hsplit. rewrite <- app_assoc. auto.
    - intros x Hx. apply (slotted_same s); auto. apply F.
      rewrite P1, (completed_same s s1 C1) in Hx.
      rewrite !in_app_iff in *. rewrite (perm_in_iff x _ _ Hsplit), in_app_iff. tauto. }
  destruct (deliver_loop derive hs bs s1 0) as [[[s2 rest] acc] f] eqn:El.
  apply (deliver_loop_DJ g U) in El; auto.
  destruct El as (J2 & Hf & Q2 & P2 & L2 & O2 & _). simpl.
  split; [|split; [|split; [|split]]].
  - destruct J2 as [A2 B2 C2 D2]. constructor; csimp.
    + apply (Ufacts_same g U s2); auto.
    + apply (Cfacts_same g U s2); auto.
    + rewrite qpush_all_perm, <- C2. rewrite <- !app_assoc. rewrite (app_assoc rest).
      rewrite (Permutation_app_comm rest (tqueue s2)). rewrite <- app_assoc. auto.
    + rewrite P2, P1. unfold pend_del. apply NoDup_map_filter; auto.
    + apply qpush_all_sorted. rewrite Q2, Q1. auto.
    + intros x Hx. apply (slotted_same s2); auto. apply D2. rewrite !in_app_iff in *. tauto.
  - destruct (f =? 0) eqn:E0; [discriminate|]. destruct (f =? 2) eqn:E2; [lia|].
    destruct (0 <? acc); discriminate.
  - congruence.
  - congruence.
  - intros Hbs. rewrite L2. auto.
Qed.

(* ---- Cancel / Revoke / Expire ---------------------------------------------------------- *)
Lemma cancel_SI g U p hs s :
  SI g U s -> pend_get p (pend s) = Some hs -> SI g U (cancel p hs s).
Proof.
  intros [A B C D E F] Eg. pose proof (pend_split p (pend s) hs D Eg) as Hsplit.
  unfold cancel. constructor; csimp.
  - apply (Ufacts_same g U s); auto.
  - apply (Cfacts_same g U s); auto.
  - rewrite qpush_all_perm, <- C. rewrite Hsplit. rewrite <- !app_assoc.
    rewrite (app_assoc hs). rewrite (Permutation_app_comm hs (tqueue s)). rewrite <- app_assoc. auto.
  - unfold pend_del. apply NoDup_map_filter; auto.
  - apply qpush_all_sorted; auto.
  - intros x Hx. apply (slotted_same s); auto. apply F.
    rewrite !in_app_iff in *. rewrite (perm_in_iff x _ _ Hsplit), in_app_iff. tauto.
Qed.

Lemma revoke_SI g U p s : SI g U s -> SI g U (revoke p s).
Proof.
  intros H. unfold revoke. destruct (pend_get p (pend s)) as [hs|] eqn:Eg; auto.
  apply (cancel_SI g U p hs s H Eg).
Qed.

Lemma expire_SI g U ps s : SI g U s -> SI g U (fst (expire ps s)).
Proof.
  intros [A B C D E F]. unfold expire; simpl.
  pose proof (flat_filter_perm (fun kv => memN (fst kv) ps) (pend s)) as Hsplit.
  constructor; csimp.
  - apply (Ufacts_same g U s); auto.
  - apply (Cfacts_same g U s); auto.
  - rewrite fold_push_perm, <- C. rewrite Hsplit. rewrite <- !app_assoc.
    rewrite (app_assoc (flat (filter _ (pend s))) (tqueue s)).
    rewrite (Permutation_app_comm (flat (filter _ (pend s))) (tqueue s)). rewrite <- app_assoc. auto.
  - apply NoDup_map_filter; auto.
  - apply fold_push_sorted; auto.
  - intros x Hx. apply (slotted_same s); auto. apply F.
    rewrite !in_app_iff in *. rewrite (perm_in_iff x _ _ Hsplit), in_app_iff. tauto.
Qed.

End StrictOps.
