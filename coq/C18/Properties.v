(* C18 - property theorems only.  Each is closed by [exact] of a lemma of
   Proofs*.v and followed by Print Assumptions. *)
From VF.C18 Require Import Model ProofsA.
Local Open Scope N_scope.

(* 1. Order, exactly once.  For every tx-root function, every cache size,
   every start number and EVERY sequence of operations (any peers, any
   interleaving of Schedule / Reserve / Deliver / Cancel / Expire / Revoke /
   Results with arbitrary arguments, legal or not): the numbers of the blocks
   handed out by all Results calls, concatenated, are start, start+1, start+2,
   ... - ascending, gap free, no number twice. *)
Theorem C18_order_once :
  forall derive empty_root cache_len start ops,
    map rnum (t_released (run derive empty_root cache_len start ops)) =
    Nseq start (length (t_released (run derive empty_root cache_len start ops))).
Proof. exact released_in_order. Qed.
Print Assumptions C18_order_once.
