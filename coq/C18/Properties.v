(* C18 - property theorems only.  Each is closed by [exact] of a lemma of
   Proofs*.v and followed by Print Assumptions.

   Vocabulary (Model.v / Proofs*.v):
   - [run derive empty_root cache_len start ops] is the history obtained from a
     fresh queue (newQueue + Prepare(start)) by the operations [ops]; it records
     the state, everything Results handed out ([t_released], in order) and
     every header Schedule accepted ([t_scheduled], in order).
   - [derive] is types.DeriveSha on a transaction list, [empty_root] is
     types.EmptyRootHash; both are universally quantified, the only fact used
     is [derive [] = empty_root].
   - the operations are Schedule / Reserve / Deliver / Cancel / Expire / Revoke /
     Results with arbitrary arguments: any number of peers, any bodies
     (complete, partial, empty, wrong, duplicated, unsolicited deliveries are
     all just values of [Deliver p bodies]).
   - [weak_legal_op]: Schedule is called with from = start + number of headers
     accepted so far (processHeaders aborts the sync otherwise), CancelBodies is
     given headers that were accepted by Schedule (possibly a stale request).
   - [strict_legal_op]: moreover CancelBodies is given the request that is
     pending for that peer, and resultSlots' item limit is <= the cache length.
   - [legal_history]: every operation is strictly legal and no two accepted
     headers share a hash (collision freedom of the header hash). *)
From Coq Require Import Permutation.
From VF.C18 Require Import Model ProofsA ProofsB ProofsC ProofsD ProofsE ProofsF ProofsG ProofsH ProofsI ProofsJ ProofsK ProofsL Bridge.
From VF.gen Require Import C18Locks.
Local Open Scope N_scope.

(* 1. Order, exactly once - for EVERY operation sequence, legal or not: the
   numbers of the blocks handed out by all Results calls, concatenated, are
   start, start+1, start+2, ... (ascending, gap free, no number twice). *)
Theorem C18_order_once :
  forall derive empty_root cache_len start ops,
    map rnum (t_released (run derive empty_root cache_len start ops)) =
    Nseq start (length (t_released (run derive empty_root cache_len start ops))).
Proof. exact released_in_order. Qed.
Print Assumptions C18_order_once.

(* 2. Matching body, the right header - for every history in which Schedule is
   called with the running number (stale or repeated CancelBodies, Revoke,
   Expire, lying peers ... all allowed): the headers handed out are exactly
   the first accepted headers in Schedule's order, accepted numbers are
   start, start+1, ..., and every block handed out carries a transaction list
   whose root equals the header's transaction root. *)
Theorem C18_prefix_with_matching_body :
  forall derive empty_root, derive [] = empty_root ->
  forall start cache_len ops,
    legal_from derive empty_root (weak_legal_op start) (T (init cache_len start) [] []) ops ->
    let t := run derive empty_root cache_len start ops in
    map r_hdr (t_released t) = firstn (length (t_released t)) (t_scheduled t) /\
    map h_num (t_scheduled t) = Nseq start (length (t_scheduled t)) /\
    Forall (fun r => derive (r_txs r) = h_root (r_hdr r)) (t_released t).
Proof. exact released_prefix_matching. Qed.
Print Assumptions C18_prefix_with_matching_body.

(* 3. Nothing is lost, nothing is duplicated - in every legal history the
   accepted, not yet released headers are, as a multiset, exactly: task queue
   + the requests of the peers + completed cache slots (so each is in exactly
   one place: they are pairwise distinct); at most one request per peer; the
   done pool names exactly the completed slots; every requested or completed
   header owns the cache slot number - offset. *)
Theorem C18_nothing_lost :
  forall derive empty_root, derive [] = empty_root ->
  forall cache_len start ops,
    legal_history derive empty_root cache_len start ops ->
    let t := run derive empty_root cache_len start ops in
    let s := t_state t in
    Permutation (tqueue s ++ flat (pend s) ++ completed s)
                (skipn (length (t_released t)) (t_scheduled t)) /\
    NoDup (skipn (length (t_released t)) (t_scheduled t)) /\
    NoDup (map fst (pend s)) /\
    (forall x, In x (done s) <-> In x (map h_hash (completed s))) /\
    (forall h, In h (flat (pend s) ++ completed s) ->
       exists r, nth (Z.to_nat (slot_index s h)) (cache s) None = Some r /\ r_hdr r = h).
Proof. exact nothing_lost. Qed.
Print Assumptions C18_nothing_lost.

(* 4. In every state of a legal history ReserveBodies never reaches "index
   allocation went beyond available resultCache space" (errInvalidChain), for
   any peer, count and throttle limit, and DeliverBodies never reports
   errInvalidChain, whatever is delivered. *)
Theorem C18_cache_index_in_range :
  forall derive empty_root, derive [] = empty_root ->
  forall cache_len start ops,
    legal_history derive empty_root cache_len start ops ->
    let s := t_state (run derive empty_root cache_len start ops) in
    (forall p count limit, (N.to_nat limit <= cache_len)%nat ->
       snd (snd (reserve empty_root p count limit s)) = false) /\
    (forall p bs, snd (snd (deliver derive p bs s)) <> 2).
Proof. exact never_invalid_chain. Qed.
Print Assumptions C18_cache_index_in_range.

(* 5. Completion - from every state of a legal history (any number of stalled,
   lying, failed or vanished peers holding requests): for any peer p the queue
   does not believe to lack data, and true bodies [body], there is a finite
   continuation made only of Expire (the stalled requests time out),
   Reserve p / Deliver p (p is asked and answers with the true bodies) and
   Results, all legal, after which every accepted header has been handed out. *)
Theorem C18_completion :
  forall derive empty_root, derive [] = empty_root ->
  forall cache_len, (1 <= cache_len)%nat ->
  forall start (body : header -> list N) p ops,
    legal_history derive empty_root cache_len start ops ->
    let t := run derive empty_root cache_len start ops in
    fresh p (t_state t) ->
    (forall h, In h (t_scheduled t) -> derive (body h) = h_root h) ->
    exists ops',
      legal_from derive empty_root (strict_legal_op cache_len start) t ops' /\
      Forall (only_p p) ops' /\
      let t' := run derive empty_root cache_len start (ops ++ ops') in
      t_scheduled t' = t_scheduled t /\ map r_hdr (t_released t') = t_scheduled t.
Proof. exact completion. Qed.
Print Assumptions C18_completion.

(* 6. Only an EMPTY answer makes the queue believe that a peer lacks data: a
   non-empty response - complete, truncated (soft response size limit) or even
   wrong - leaves every lacking set unchanged, so the undelivered tail of a
   truncated answer is offered to the same peer again. *)
Theorem C18_nonempty_answer_marks_nothing_lacking :
  forall derive p bs s, bs <> [] -> lacks (fst (deliver derive p bs s)) = lacks s.
Proof. exact deliver_nonempty_lacks. Qed.
Print Assumptions C18_nonempty_answer_marks_nothing_lacking.

(* 7. Completion, generalised: the finishing peer need not be new.  It is
   enough that the queue does not believe it to lack any block that is still
   needed ([avail]) ... *)
Theorem C18_completion_by_available_peer :
  forall derive empty_root, derive [] = empty_root ->
  forall cache_len, (1 <= cache_len)%nat ->
  forall start (body : header -> list N) p ops,
    legal_history derive empty_root cache_len start ops ->
    let t := run derive empty_root cache_len start ops in
    avail p t ->
    (forall h, In h (t_scheduled t) -> derive (body h) = h_root h) ->
    exists ops',
      legal_from derive empty_root (strict_legal_op cache_len start) t ops' /\
      Forall (only_p p) ops' /\
      let t' := run derive empty_root cache_len start (ops ++ ops') in
      t_scheduled t' = t_scheduled t /\ map r_hdr (t_released t') = t_scheduled t.
Proof. exact completion_avail. Qed.
Print Assumptions C18_completion_by_available_peer.

(* ... which holds in particular for every peer that took part in the history
   and never sent an empty answer - e.g. the single honest peer that always
   answers truthfully but truncates its responses while everybody else stalls. *)
Theorem C18_completion_by_nonempty_answerer :
  forall derive empty_root, derive [] = empty_root ->
  forall cache_len, (1 <= cache_len)%nat ->
  forall start (body : header -> list N) p ops,
    legal_history derive empty_root cache_len start ops ->
    never_answered_empty p ops ->
    let t := run derive empty_root cache_len start ops in
    (forall h, In h (t_scheduled t) -> derive (body h) = h_root h) ->
    exists ops',
      legal_from derive empty_root (strict_legal_op cache_len start) t ops' /\
      Forall (only_p p) ops' /\
      let t' := run derive empty_root cache_len start (ops ++ ops') in
      t_scheduled t' = t_scheduled t /\ map r_hdr (t_released t') = t_scheduled t.
Proof. exact completion_by_nonempty_answerer. Qed.
Print Assumptions C18_completion_by_nonempty_answerer.

(* 8. Bridge (regenerated from you/downloader/*.go on every run): "one operation
   of the model = one critical section of q.lock".  Every exported method of the
   queue touches shared fields only while holding q.lock - directly or through
   the queue methods it calls - except the three pinned Cancel* wrappers, which
   read pool references before cancel() locks and are never called in this fork;
   every operation the model uses is inside the discipline; the only unexported
   member used from another file is headerContCh (header download). *)
Theorem C18_lock_discipline : discipline_holds = true.
Proof. exact lock_discipline. Qed.
Print Assumptions C18_lock_discipline.

Theorem C18_lock_discipline_every_entry_point :
  forall e, In e c18_methods -> e_exported e = true ->
    needs_lock 8 c18_methods e = false \/ In (e_name e) pinned_exceptions.
Proof. exact lock_discipline_forall. Qed.
Print Assumptions C18_lock_discipline_every_entry_point.

(* 9. Sync cycles on one queue object.  synchronise()/syncWithPeer() start every
   cycle with queue.Reset(), peers.Reset() and queue.Prepare(origin+1).  Whatever
   state the earlier cycles left (requests outstanding, results unretrieved, an
   offset above the new origin after a rollback ...), the queue is then EXACTLY a
   fresh queue prepared at the new origin: head, task pool, task queue, pending
   pool, done pool, result cache and - because Prepare only ever raises it - the
   result offset must all be back at their initial values. *)
Theorem C18_new_cycle_is_fresh_queue :
  forall s o,
    new_cycle s o = init (length (cache s)) o /\
    (let s' := new_cycle s o in
     head s' = 0 /\ tpool s' = [] /\ tqueue s' = [] /\ pend s' = [] /\ done s' = [] /\
     cache s' = repeat None (length (cache s)) /\ offset s' = o /\ lacks s' = []).
Proof. exact (fun s o => conj (new_cycle_fresh s o) (new_cycle_fields s o)). Qed.
Print Assumptions C18_new_cycle_is_fresh_queue.

(* ... hence every cycle, after any earlier history (legal or not, cut anywhere),
   hands out start, start+1, ... relative to ITS OWN origin, *)
Theorem C18_every_cycle_order_once :
  forall derive empty_root s o ops,
    map rnum (t_released (cycle derive empty_root s o ops)) =
    Nseq o (length (t_released (cycle derive empty_root s o ops))).
Proof. exact every_cycle_order_once. Qed.
Print Assumptions C18_every_cycle_order_once.

(* ... and satisfies every clause of C18_full (prefix, matching bodies, nothing
   lost, completion) relative to its own origin. *)
Theorem C18_every_cycle_full :
  forall (derive : list N -> N) (empty_root : N), derive [] = empty_root ->
  forall (s : state), (1 <= length (cache s))%nat ->
  forall (o : N) (ops : list op),
  legal_history derive empty_root (length (cache s)) o ops ->
  let t := cycle derive empty_root s o ops in
  let st := t_state t in
  map rnum (t_released t) = Nseq o (length (t_released t)) /\
  map r_hdr (t_released t) = firstn (length (t_released t)) (t_scheduled t) /\
  Forall (fun r => derive (r_txs r) = h_root (r_hdr r)) (t_released t) /\
  Permutation (tqueue st ++ flat (pend st) ++ completed st)
              (skipn (length (t_released t)) (t_scheduled t)) /\
  (forall (body : header -> list N) (p : N),
     fresh p st -> (forall h, In h (t_scheduled t) -> derive (body h) = h_root h) ->
     exists ops',
       legal_from derive empty_root (strict_legal_op (length (cache s)) o) t ops' /\
       Forall (only_p p) ops' /\
       map r_hdr (t_released (cycle derive empty_root s o (ops ++ ops'))) = t_scheduled t).
Proof. exact every_cycle_full. Qed.
Print Assumptions C18_every_cycle_full.

(* Bridge: queue.Reset() of the working tree (re)initialises every Go field
   behind those state components (headerHead, blockTaskPool, blockTaskQueue,
   blockPendPool, blockDonePool, resultCache, resultOffset). *)
Theorem C18_reset_reinitialises_every_cycle_field :
  forall f, In f cycle_fields -> In f c18_reset_assigns.
Proof. exact reset_reinitialises_cycle_fields. Qed.
Print Assumptions C18_reset_reinitialises_every_cycle_field.

(* 10. The error KIND of a delivery and the fetch loop's busy/idle bookkeeping
   (fetchParts idles the sender after every delivery except a "stale" one).
   A packet from a peer with nothing pending is answered "no fetches pending"
   (kind 1), accepts nothing and leaves the queue untouched; "stale" (kind 4) is
   only ever said to a peer that had a request, and accepts nothing. *)
Theorem C18_unpending_delivery_is_no_fetches_pending :
  forall derive p bs s,
    (pend_get p (pend s) = None -> deliver derive p bs s = (s, (0, 1))) /\
    (snd (snd (deliver derive p bs s)) = 4 ->
       pend_get p (pend s) <> None /\ fst (snd (deliver derive p bs s)) = 0).
Proof. exact (fun derive p bs s => conj (deliver_unpending derive p bs s) (deliver_stale_had_request derive p bs s)). Qed.
Print Assumptions C18_unpending_delivery_is_no_fetches_pending.

(* Hence in the fetch loop (queue state + set of busy peers): a packet from a
   peer with nothing pending idles it, so a peer is never more than ONE packet
   away from being usable again - whatever its packets contain; *)
Theorem C18_peer_idle_after_its_next_packet :
  forall derive p bs1 bs2 f,
    (pend_get p (pend (fst f)) = None -> ~ In p (snd (fst (f_deliver derive p bs1 f)))) /\
    ~ In p (snd (fst (f_deliver derive p bs2 (fst (f_deliver derive p bs1 f))))).
Proof.
  exact (fun derive p bs1 bs2 f =>
           conj (packet_idles_unpending_peer derive p bs1 f) (second_packet_idles derive p bs1 bs2 f)).
Qed.
Print Assumptions C18_peer_idle_after_its_next_packet.

(* and the only way a peer gets "stuck" (busy for the loop, nothing pending in
   the queue, invisible to expiry) is its own stale delivery: handing out work,
   expiring requests and other peers' packets never do it. *)
Theorem C18_only_a_stale_delivery_sticks_its_sender :
  forall derive empty_root p q bs count limit ps f,
    (stuck q (fst (f_deliver derive p bs f)) ->
       stuck q f \/ (q = p /\ snd (f_deliver derive p bs f) = 4)) /\
    (stuck q (f_reserve empty_root p count limit f) -> stuck q f) /\
    (stuck q (f_expire ps f) -> stuck q f).
Proof.
  exact (fun derive empty_root p q bs count limit ps f =>
           conj (f_deliver_stuck derive p q bs f)
                (conj (f_reserve_stuck empty_root p q count limit f) (f_expire_stuck derive q ps f))).
Qed.
Print Assumptions C18_only_a_stale_delivery_sticks_its_sender.

(* Bridge: in the working tree queue.deliver returns errNoFetchesPending for a
   peer without a pending request, and fetchParts calls setIdle(peer, accepted)
   after a delivery unless the error is errStaleDelivery (and only then). *)
Theorem C18_idle_glue_in_the_code : idle_glue_holds = true.
Proof. exact idle_glue. Qed.
Print Assumptions C18_idle_glue_in_the_code.

(* The property, all clauses, for legal histories. *)
Definition C18_full : Prop :=
  forall (derive : list N -> N) (empty_root : N), derive [] = empty_root ->
  forall (cache_len : nat), (1 <= cache_len)%nat ->
  forall (start : N) (ops : list op),
  legal_history derive empty_root cache_len start ops ->
  let t := run derive empty_root cache_len start ops in
  let s := t_state t in
  map rnum (t_released t) = Nseq start (length (t_released t)) /\
  map r_hdr (t_released t) = firstn (length (t_released t)) (t_scheduled t) /\
  Forall (fun r => derive (r_txs r) = h_root (r_hdr r)) (t_released t) /\
  Permutation (tqueue s ++ flat (pend s) ++ completed s)
              (skipn (length (t_released t)) (t_scheduled t)) /\
  (forall (body : header -> list N) (p : N),
     fresh p s -> (forall h, In h (t_scheduled t) -> derive (body h) = h_root h) ->
     exists ops',
       legal_from derive empty_root (strict_legal_op cache_len start) t ops' /\
       Forall (only_p p) ops' /\
       map r_hdr (t_released (run derive empty_root cache_len start (ops ++ ops'))) = t_scheduled t).

Theorem C18_full_holds : C18_full.
Proof. exact full_statement. Qed.
Print Assumptions C18_full_holds.

(* ---- non-vacuity ------------------------------------------------------------------- *)
(* a tx-root function with derive [] = 0 *)
Definition ex_derive (txs : list N) : N :=
  match txs with [] => 0 | [a] => 10 + a | a :: _ => 100 + a end.

(* four headers from number 5: an empty block, two blocks with one transaction,
   an empty block *)
Definition h5 := H 5 1 9 0.
Definition h6 := H 6 2 1 11.
Definition h7 := H 7 3 2 12.
Definition h8 := H 8 4 3 0.
Definition ex_body (h : header) : list N :=
  if h_num h =? 6 then [1] else if h_num h =? 7 then [2] else [].

(* peer 1 takes 6 and 7 and stalls; its request expires; peer 2 takes them,
   delivers 6 correctly and lies about 7; peer 3 answers empty (is marked
   lacking) and is revoked; peer 1 holds 7 again while the empty block 8 completed *)
Definition ex_ops : list op :=
  [ Schedule [h5; h6; h7] 5; Reserve 1 3 3; Results; Schedule [h8] 8;
    Expire [1]; Reserve 2 2 3; Deliver 2 [[1]; [7]]; Results;
    Reserve 3 1 3; Deliver 3 []; Revoke 3; Reserve 1 3 3 ].

Definition ex_t := run ex_derive 0 3 5 ex_ops.

Example C18_nonvacuous_legal_history :
  legal_history ex_derive 0 3 5 ex_ops /\
  (* blocks 5 and 6 were handed out, 7 is requested from peer 1, 8 completed without a fetch *)
  map rnum (t_released ex_t) = [5; 6] /\
  pend (t_state ex_t) = [(1, [h7])] /\
  done (t_state ex_t) = [4] /\
  lacks (t_state ex_t) = [(3, 3)] /\
  t_scheduled ex_t = [h5; h6; h7; h8].
Proof.
  split; [|vm_compute; repeat split; reflexivity].
  split.
  - vm_compute. repeat split; auto.
  - vm_compute. repeat constructor; simpl; intuition discriminate.
Qed.
Print Assumptions C18_nonvacuous_legal_history.

(* the hypotheses of the completion theorem hold for peer 4 in that state, and
   the continuation indeed exists: one is exhibited *)
Example C18_nonvacuous_completion :
  fresh 4 (t_state ex_t) /\
  (forall h, In h (t_scheduled ex_t) -> ex_derive (ex_body h) = h_root h) /\
  let ops' := [Expire [1]; Reserve 4 1 3; Deliver 4 [[2]]; Results] in
  legal_from ex_derive 0 (strict_legal_op 3 5) ex_t ops' /\
  Forall (only_p 4) ops' /\
  map r_hdr (t_released (run ex_derive 0 3 5 (ex_ops ++ ops'))) = [h5; h6; h7; h8].
Proof.
  split; [intros h; vm_compute; destruct (h =? 3); reflexivity|].
  split.
  - vm_compute. intros h [<-|[<-|[<-|[<-|[]]]]]; reflexivity.
  - split; [vm_compute; repeat split; auto|].
    split; [repeat constructor|]. vm_compute. reflexivity.
Qed.
Print Assumptions C18_nonvacuous_completion.

(* a history outside the strict discipline but inside the weak one (a stale
   CancelBodies after the request expired: the header is queued twice): theorem
   2 still applies and both copies end in the same, correctly filled, slot *)
Definition ex_stale : list op :=
  [ Schedule [h5; h6] 5; Reserve 1 3 3; Expire [1]; Cancel 1 [h6];
    Reserve 2 3 3; Deliver 2 [[1]; [1]]; Results ].

Example C18_nonvacuous_stale_cancel :
  legal_from ex_derive 0 (weak_legal_op 5) (T (init 3 5) [] []) ex_stale /\
  ~ legal_from ex_derive 0 (strict_legal_op 3 5) (T (init 3 5) [] []) ex_stale /\
  map r_hdr (t_released (run ex_derive 0 3 5 ex_stale)) = [h5; h6] /\
  map r_pending (t_released (run ex_derive 0 3 5 ex_stale)) = [0; -1]%Z.
Proof.
  split; [vm_compute; repeat split; auto; intros ? [<-|[]]; auto|].
  split; [|vm_compute; auto].
  vm_compute. intros (_ & _ & _ & H & _). discriminate.
Qed.
Print Assumptions C18_nonvacuous_stale_cancel.

(* peer 1 holds nothing useful (block 5 is empty); peer 2 is asked for 6 and 7 and
   answers truthfully with a response truncated after block 6; nothing is marked lacking
   and the next request to the same peer contains block 7 again; peer 3 of
   [ex_ops] (one empty answer) is not covered by theorem 7's corollary *)
Definition ex_truncated : list op :=
  [ Schedule [h5; h6; h7] 5; Reserve 1 1 3; Reserve 2 3 3; Deliver 2 [[1]]; Results ].

Example C18_nonvacuous_truncated_answer :
  legal_history ex_derive 0 3 5 ex_truncated /\
  never_answered_empty 2 ex_truncated /\
  ~ never_answered_empty 3 ex_ops /\
  let s := t_state (run ex_derive 0 3 5 ex_truncated) in
  lacks s = [] /\ map h_hash (tqueue s) = [3] /\
  fst (fst (snd (reserve 0 2 3 3 s))) = Some [h7].
Proof.
  split; [split; [vm_compute; repeat split; auto|vm_compute; repeat constructor; simpl; intuition discriminate]|].
  split.
  - intros bs [H|[H|[H|[H|[H|[]]]]]]; try discriminate. injection H as <-. discriminate.
  - split; [|vm_compute; auto].
    intros H. apply (H []); [|reflexivity]. unfold ex_ops. simpl. tauto.
Qed.
Print Assumptions C18_nonvacuous_truncated_answer.

(* the offset is one of the fields that must be reset: with a Reset that keeps it,
   a second cycle starting below what the first one released (head rolled back to
   5 after 5 and 6 were handed out) pops its first task at a negative index and
   loses it; with the real reset the same cycle hands out block 6 again *)
Definition reset_keeping_offset (s : state) : state :=
  St 0 [] [] [] [] (repeat None (length (cache s))) (offset s) (lacks s).
Definition ex_cycle1 : state := t_state (run ex_derive 0 3 5 ex_ops).

Example C18_nonvacuous_second_cycle_below_released :
  offset ex_cycle1 = 7 /\
  (let s := prepare 6 (reset_peers (reset_keeping_offset ex_cycle1)) in
   offset s = 7 /\
   snd (snd (reserve 0 1 3 3 (fst (schedule_loop [h6; h7] 6 s)))) = true) /\
  map rnum (t_released (cycle ex_derive 0 ex_cycle1 6
              [Schedule [h6; h7] 6; Reserve 1 3 3; Deliver 1 [[1]; [2]]; Results])) = [6; 7].
Proof. vm_compute. auto. Qed.
Print Assumptions C18_nonvacuous_second_cycle_below_released.

(* the stuck state exists and is repaired by the sender's next packet: peer 2
   holds [h6;h7], a duplicate of an older reply ([[9]]: wrong first body) is stale,
   drops the request and leaves peer 2 busy with nothing pending; its real answer
   then finds nothing pending and idles it *)
Example C18_nonvacuous_stale_then_unpending :
  let f0 := f_reserve 0 2 3 3 (fst (schedule_loop [h5; h6; h7] 5 (init 3 5)), []) in
  snd f0 = [2] /\
  (let r1 := f_deliver ex_derive 2 [[9]] f0 in
   snd r1 = 4 /\ stuck 2 (fst r1) /\
   (let r2 := f_deliver ex_derive 2 [[1]; [2]] (fst r1) in
    snd r2 = 1 /\ snd (fst r2) = [])).
Proof. vm_compute. repeat split; auto. Qed.
Print Assumptions C18_nonvacuous_stale_then_unpending.
