(* C18 - completion: from every state of a legal history, once all requests
   have expired one peer that answers honestly drives the download to the end. *)
From Coq Require Import Lia ZifyBool ZifyN ZifyNat Permutation Sorted.
From VF.C18 Require Import Model ProofsA ProofsB ProofsC ProofsD ProofsE ProofsF ProofsG.
Local Open Scope N_scope.

Section Progress.
Variable derive : list N -> N.
Variable empty_root : N.
Hypothesis derive_nil : derive [] = empty_root.
Variable cache_len : nat.
Hypothesis cache_pos : (1 <= cache_len)%nat.
Variable start : N.
Variable body : header -> list N.       (* the true transaction list of a block *)

Notation SI := (SI derive cache_len).
Notation stept := (step_trace derive empty_root).
Notation TI := (TI derive cache_len start).
Notation legal := (legal_from derive empty_root (strict_legal_op cache_len start)).

(* a completed slot *)
Definition cslot (s : state) (j : nat) : Prop :=
  exists r, nth j (cache s) None = Some r /\ complete r = true.

Lemma count_proc_pos c : (0 < count_proc c)%nat <-> exists r, nth 0 c None = Some r /\ complete r = true.
Proof.
  destruct c as [|[r|] c]; simpl.
  - split; [lia|]. intros (r & H & _). discriminate.
  - unfold complete. destruct (r_pending r >? 0)%Z eqn:E.
    + split; [lia|]. intros (r' & [= <-] & H). lia.
    + split; [|lia]. intros _. exists r. split; auto. lia.
  - split; [lia|]. intros (r & H & _). discriminate.
Qed.

(* ---- completed slots stay completed ------------------------------------------------ *)
Lemma cslot_upd s s' i f j :
  cache s' = upd i f (cache s) ->
  (forall r, complete r = true -> exists r', f (Some r) = Some r' /\ complete r' = true) ->
  cslot s j -> cslot s' j.
Proof.
  intros Hc Hf (r & Hr & Hcp). unfold cslot. rewrite Hc, nth_upd.
  destruct (Nat.eqb i j && _) eqn:E; [|eauto].
  apply andb_prop in E as [E _]. apply Nat.eqb_eq in E. subst. rewrite Hr. apply Hf; auto.
Qed.

Lemma dec_keeps_complete r : complete r = true ->
  exists r', dec_pending (Some r) = Some r' /\ complete r' = true.
Proof. intros H. eexists. split; [reflexivity|]. unfold complete in *. simpl. lia. Qed.

Lemma body_keeps_complete b r : complete r = true ->
  exists r', set_body b (Some r) = Some r' /\ complete r' = true.
Proof. intros H. eexists. split; [reflexivity|]. unfold complete in *. simpl. lia. Qed.

Lemma cslot_ensure s h i j : (i < length (cache s))%nat -> cslot s j -> cslot (ensure_slot s h i) j.
Proof.
  intros Hi (r & Hr & Hc). unfold cslot. rewrite ensure_slot_nth by auto.
  destruct (Nat.eqb i j) eqn:E; [|eauto]. apply Nat.eqb_eq in E. subst. rewrite Hr. eauto.
Qed.

Lemma reserve_loop_cslot p count q j : forall s proc space send skip progress,
  cslot s j -> cslot (rl_state (reserve_loop empty_root p count q s proc space send skip progress)) j.
Proof.
  induction q as [|h q IH]; intros s proc space send skip progress Hc; simpl; auto.
  destruct ((proc <? space)%Z && (N.of_nat (length send) <? count)); simpl; auto.
  destruct (index_bad s (slot_index s h)) eqn:Hb; simpl; auto.
  destruct (index_ok_nat _ _ Hb) as [_ Hl].
  pose proof (cslot_ensure s h _ j Hl Hc) as Hc1.
  destruct (h_root h =? empty_root).
  - apply IH. eapply cslot_upd; [reflexivity| |exact Hc1]. apply dec_keeps_complete.
  - destruct (lacks_mem p (h_hash h) _); apply IH; auto.
Qed.

Lemma reserve_loop_send p count q : forall s proc space send skip progress,
  match reserve_loop empty_root p count q s proc space send skip progress with
  | RLok _ send' _ _ => exists more, send' = send ++ more
  | RLerr _ => True
  end.
Proof.
  induction q as [|h q IH]; intros s proc space send skip progress; simpl.
  - exists []. rewrite app_nil_r; auto.
  - destruct ((proc <? space)%Z && (N.of_nat (length send) <? count)); simpl;
      [|exists []; rewrite app_nil_r; auto].
    destruct (index_bad s (slot_index s h)); simpl; auto.
    destruct (h_root h =? empty_root); [apply IH|].
    destruct (lacks_mem p (h_hash h) _); [apply IH|].
    specialize (IH (ensure_slot s h (Z.to_nat (slot_index s h))) (proc + 1)%Z space (send ++ [h]) skip progress).
    destruct (reserve_loop _ _ _ _ _ _ _ _ _ _); auto.
    destruct IH as (more & ->). exists (h :: more). rewrite <- app_assoc. auto.
Qed.

(* ---- the head of the queue when nothing is processable ------------------------------- *)
Definition fresh (p : N) (s : state) : Prop := forall h, lacks_mem p h (lacks s) = false.
(* weaker: the queue does not believe p to lack any block that is still needed *)
Definition avail (p : N) (t : trace) : Prop :=
  forall h, In h (Uof t) -> lacks_mem p (h_hash h) (lacks (t_state t)) = false.

Lemma head_is_next g U s :
  SI g U s -> pend s = [] -> U <> [] -> count_proc (cache s) = O ->
  exists h0 q, tqueue s = h0 :: q /\ h_num h0 = offset s /\ In h0 U.
Proof.
  intros Hsi Hp HU Hcp.
  pose proof (si_u _ _ _ _ _ Hsi) as Hu. pose proof (si_c _ _ _ _ _ Hsi) as Hc.
  destruct (In_nums_ex U (offset s) (offset s) (u_num _ _ _ Hu)) as (u & HuU & Hun).
  { destruct U; [congruence|]. simpl. lia. }
  assert (Hperm := si_perm _ _ _ _ _ Hsi). rewrite Hp in Hperm. simpl in Hperm.
  assert (Hin : In u (tqueue s ++ completed s)) by (eapply Permutation_in; [symmetry; exact Hperm|auto]).
  apply in_app_or in Hin as [Hq|Hcd].
  - destruct (tqueue s) as [|h0 q] eqn:Eq; [destruct Hq|].
    assert (Hh0U : In h0 U) by (eapply Permutation_in; [exact Hperm|simpl; auto]).
    exists h0, q. split; auto.
    pose proof (U_range _ _ _ _ Hu Hh0U) as Hr.
    assert (Hle : h_num h0 <= h_num u).
    { destruct Hq as [->|Hq]; [lia|]. eapply sorted_head_min; eauto. rewrite <- Eq. apply (si_sorted _ _ _ _ _ Hsi). }
    split; auto. lia.
  - exfalso. apply slot_of_completed in Hcd as (j & r & Hr & Hcr & Hhd).
    pose proof (c_slot _ _ _ _ _ Hc _ _ Hr) as E. unfold rnum in E. rewrite Hhd, Hun in E.
    assert (j = O) by lia. subst j.
    assert (0 < count_proc (cache s))%nat by (apply count_proc_pos; eauto). lia.
Qed.

Lemma slot0_not_done g U s :
  SI g U s -> count_proc (cache s) = O ->
  match nth 0 (cache s) None with Some r => memN (r_hash r) (done s) = false | None => True end.
Proof.
  intros Hsi Hcp. pose proof (si_u _ _ _ _ _ Hsi) as Hu. pose proof (si_c _ _ _ _ _ Hsi) as Hc.
  destruct (nth 0 (cache s) None) as [r|] eqn:Hr; auto.
  destruct (memN (r_hash r) (done s)) eqn:Hm; auto. exfalso.
  apply memN_In in Hm. apply (c_done _ _ _ _ _ Hc) in Hm.
  apply in_map_iff in Hm as (h & Hh & Hin).
  pose proof (slot_of_completed _ _ Hin) as (j & r' & Hr' & Hcr' & Hhd').
  destruct (c_good _ _ _ _ _ Hc _ _ Hr) as (_ & _ & Hrh & _).
  assert (Heq : h = r_hdr r).
  { apply (U_hash_inj _ _ _ _ _ Hu); try congruence.
    - rewrite <- Hhd'. eapply (c_inU _ _ _ _ _ Hc); eauto.
    - eapply (c_inU _ _ _ _ _ Hc); eauto. }
  pose proof (c_slot _ _ _ _ _ Hc _ _ Hr) as E0. pose proof (c_slot _ _ _ _ _ Hc _ _ Hr') as Ej.
  unfold rnum in *. rewrite Hhd', Heq in Ej. assert (j = O) by lia. subst j.
  assert (0 < count_proc (cache s))%nat by (apply count_proc_pos; eauto). lia.
Qed.

(* Reserve for a fresh peer when slot 0 is not complete: either slot 0 completes
   (empty block) or the request contains the next block *)
Lemma reserve_head g U p s h0 q :
  SI g U s -> pend s = [] -> (forall h, In h U -> lacks_mem p (h_hash h) (lacks s) = false) ->
  In h0 U -> count_proc (cache s) = O ->
  tqueue s = h0 :: q -> h_num h0 = offset s ->
  let res := reserve empty_root p 1 (N.of_nat cache_len) s in
  snd (snd res) = false ->
  cslot (fst res) 0 \/ exists send, fst (fst (snd res)) = Some send /\ In h0 send.
Proof.
  intros Hsi Hp Hf Hh0U Hcp Hq Hn res.
  pose proof (si_c _ _ _ _ _ Hsi) as Hc.
  assert (Hlen : length (cache s) = cache_len) by apply (c_len _ _ _ _ _ Hc).
  assert (Hspace : (1 <= result_slots s (N.of_nat cache_len))%Z).
  { unfold result_slots. rewrite Hp. simpl pending_count.
    pose proof (finished_first_not_done (cache s) (done s) cache_len (slot0_not_done _ _ _ Hsi Hcp) cache_pos) as H.
    rewrite Nat2N.id. lia. }
  assert (Hidx : slot_index s h0 = 0%Z) by (unfold slot_index; lia).
  assert (Hb : index_bad s (slot_index s h0) = false) by (unfold index_bad; rewrite Hidx, Hlen; lia).
  unfold res, reserve. rewrite Hq, Hp. cbn [pend_get]. cbn [reserve_loop].
  replace ((0 <? result_slots s (N.of_nat cache_len))%Z && (N.of_nat (length (@nil header)) <? 1)) with true
    by (simpl; lia).
  rewrite Hb, Hidx. cbn [Z.to_nat].
  set (s1 := ensure_slot s h0 0).
  assert (Hl0 : (0 < length (cache s))%nat) by lia.
  destruct (h_root h0 =? empty_root) eqn:Hroot.
  - intros _. left.
    assert (Hc0 : cslot (complete_noop s1 h0 0) 0).
    { destruct (ensure_slot_frame s h0 0) as (_&_&_&_&_&_&_&Hl1). fold s1 in Hl1.
      pose proof (ensure_slot_nth s h0 0 0 Hl0) as Hn0. fold s1 in Hn0. simpl in Hn0.
      unfold cslot. cbn [complete_noop cache]. rewrite nth_upd_eq by lia. rewrite Hn0.
      destruct (nth 0 (cache s) None) as [r|] eqn:Hr.
      - eexists. split; [reflexivity|].
        destruct (c_good _ _ _ _ _ Hc _ _ Hr) as (_ & Hpd & _). unfold complete; simpl. lia.
      - eexists. split; [reflexivity|]. reflexivity. }
    pose proof (reserve_loop_cslot p 1 q 0 (complete_noop s1 h0 0) 0%Z
                  (result_slots s (N.of_nat cache_len) - 1)%Z [] [] true Hc0) as H.
    destruct (reserve_loop _ _ _ _ _ _ _ _ _ _) as [s'|s' send skip pr]; simpl in *; auto.
    destruct send; simpl; auto.
  - assert (Hlk : lacks_mem p (h_hash h0) (lacks s1) = false).
    { destruct (ensure_slot_frame s h0 0) as (_&_&_&_&_&_&Hl&_). fold s1 in Hl. rewrite Hl. apply Hf; auto. }
    rewrite Hlk.
    pose proof (reserve_loop_send p 1 q s1 (0 + 1)%Z (result_slots s (N.of_nat cache_len)) ([] ++ [h0]) [] false) as H.
    destruct (reserve_loop _ _ _ _ _ _ _ _ _ _) as [s'|s' send skip pr]; simpl in *; [discriminate|].
    intros _. right. destruct H as (more & ->). simpl. eexists. split; [reflexivity|]. simpl; auto.
Qed.

(* ---- an honest answer completes every requested slot ------------------------------------ *)
Notation DJ := (DJ derive cache_len).

Lemma deliver_loop_honest g U hs : forall s acc s' rest acc' f,
  DJ g U s hs -> (forall h, In h hs -> derive (body h) = h_root h) ->
  deliver_loop derive hs (map body hs) s acc = (s', rest, acc', f) ->
  (forall h, In h hs -> cslot s' (idx s h)) /\ (forall j, cslot s j -> cslot s' j).
Proof.
  induction hs as [|h hs IH]; intros s acc s' rest acc' f J Hb H; simpl in H.
  - injection H as <- _ _ _. split; auto. intros ? [].
  - destruct (dj_slotted _ _ _ _ _ _ J h (or_introl eq_refl)) as [Hbad Hn]. fold (idx s h) in H. rewrite Hbad in H.
    destruct (nth (idx s h) (cache s) None) as [r|] eqn:Hr; [|congruence].
    assert (Hd : (derive (body h) =? h_root h) = true) by (apply N.eqb_eq, Hb; simpl; auto).
    rewrite Hd in H. cbn [negb] in H.
    destruct (accept_body_DJ derive empty_root derive_nil cache_len _ _ _ _ _ _ J Hd) as [J2 _].
    set (s2 := accept_body s h (idx s h) (body h)) in *.
    assert (Hmono : forall j, cslot s j -> cslot s2 j).
    { intros j. apply (cslot_upd s s2 (idx s h) (set_body (body h))); [reflexivity|].
      intros r0. apply body_keeps_complete. }
    assert (Hh : cslot s2 (idx s h)).
    { destruct (index_ok_nat _ _ Hbad) as [_ Hl]. unfold cslot, s2. cbn [accept_body cache].
      fold (idx s h) in Hl. rewrite nth_upd_eq by auto. rewrite Hr. eexists. split; [reflexivity|].
      destruct (c_good _ _ _ _ _ (dj_c _ _ _ _ _ _ J) _ _ Hr) as (_ & Hpd & _). unfold complete; simpl. lia. }
    apply IH in H; auto.
    + destruct H as [A B]. split.
      * intros x [<-|Hx]; auto. specialize (A x Hx). unfold idx, slot_index in *. exact A.
      * auto.
    + intros x Hx. apply Hb; simpl; auto.
Qed.

Lemma deliver_honest g U p send s :
  SI g U s -> pend_get p (pend s) = Some send -> send <> [] ->
  (forall h, In h send -> derive (body h) = h_root h) ->
  let s' := fst (deliver derive p (map body send) s) in
  (forall h, In h send -> cslot s' (idx s h)) /\ (forall j, cslot s j -> cslot s' j).
Proof.
  intros Hsi Eg Hne Hb. unfold deliver. rewrite Eg.
  destruct (map body send) as [|b0 bs0] eqn:Em; [destruct send; simpl in Em; congruence|]. rewrite <- Em.
  set (s1 := set_pend s (pend_del p (pend s))).
  destruct Hsi as [A B C D E F].
  pose proof (pend_split p (pend s) send D Eg) as Hsplit.
  assert (J : DJ g U s1 send).
  { constructor.
    - apply (Ufacts_same g U s); auto.
    - apply (Cfacts_same derive cache_len g U s); auto.
    - unfold s1. simpl tqueue. simpl pend. rewrite completed_set_pend. rewrite <- C. apply Permutation_app_head.
      rewrite Hsplit. rewrite <- app_assoc. auto.
    - intros x Hx. apply (slotted_same s); auto. apply F.
      unfold s1 in Hx. simpl pend in Hx. rewrite completed_set_pend in Hx.
      rewrite !in_app_iff in *. rewrite (perm_in_iff x _ _ Hsplit), in_app_iff. tauto. }
  destruct (deliver_loop derive send (map body send) s1 0) as [[[s2 rest] acc] f] eqn:El.
  apply (deliver_loop_honest g U) in El; auto.
Qed.

(* ---- Results hands out at least one block when slot 0 is complete ---------------------------- *)
Lemma results_len s : length (snd (results s)) = Nat.min (count_proc (cache s)) max_results.
Proof.
  unfold results. cbn [snd].
  destruct (count_proc_some (cache s) (Nat.min (count_proc (cache s)) max_results)) as (rs & H1 & H2 & _); [lia|].
  rewrite H1, somes_map_Some. auto.
Qed.

Lemma filter_none {A} (f : A -> bool) l : (forall x, In x l -> f x = false) -> filter f l = [].
Proof.
  induction l as [|x l IH]; simpl; intros H; auto.
  rewrite (H x) by auto. apply IH. intros; apply H; auto.
Qed.

Lemma expire_all s : pend (fst (expire (map fst (pend s)) s)) = [].
Proof.
  unfold expire. cbn [fst pend set_pend]. apply filter_none.
  intros kv Hin. apply negb_false_iff, memN_In, in_map; auto.
Qed.

(* ---- step_trace, unfolded --------------------------------------------------------------------- *)
Lemma stept_reserve t q c l :
  stept t (Reserve q c l) = T (fst (reserve empty_root q c l (t_state t))) (t_released t) (t_scheduled t).
Proof. unfold step_trace; cbn [step]. destruct (reserve _ _ _ _ _) as [s' [[a b] e]]. reflexivity. Qed.

Lemma stept_deliver t q bs :
  stept t (Deliver q bs) = T (fst (deliver derive q bs (t_state t))) (t_released t) (t_scheduled t).
Proof. unfold step_trace; cbn [step]. destruct (deliver _ _ _ _) as [s' [a e]]. reflexivity. Qed.

Lemma stept_results t :
  stept t Results = T (fst (results (t_state t))) (t_released t ++ snd (results (t_state t))) (t_scheduled t).
Proof. unfold step_trace; cbn [step]. destruct (results _) as [s' rs]. reflexivity. Qed.

Lemma stept_expire t ps :
  stept t (Expire ps) = T (fst (expire ps (t_state t))) (t_released t) (t_scheduled t).
Proof. unfold step_trace; cbn [step]. destruct (expire _ _) as [s' l]. reflexivity. Qed.

(* ---- the finishing schedule --------------------------------------------------------------------- *)
Variable p : N.

Definition only_p (o : op) : Prop :=
  match o with
  | Reserve q _ _ => q = p
  | Deliver q _ => q = p
  | Results => True
  | Expire _ => True
  | _ => False
  end.

Definition finished (t t' : trace) : Prop :=
  t_scheduled t' = t_scheduled t /\ Uof t' = [].

Lemma finish_aux : forall n t,
  TI t -> NoDup (map h_hash (t_scheduled t)) ->
  (forall h, In h (t_scheduled t) -> derive (body h) = h_root h) ->
  pend (t_state t) = [] -> avail p t -> length (Uof t) = n ->
  exists ops', legal t ops' /\ Forall only_p ops' /\ finished t (fold_left stept ops' t).
Proof.
  induction n as [n IHn] using lt_wf_ind. intros t HT Hh Hb Hp Hf Hn.
  destruct n as [|n'].
  { exists []. simpl. repeat split; auto. destruct (Uof t); simpl in *; auto; lia. }
  set (n := S n') in *.
  (* A: slot 0 is complete: Results releases at least one block *)
  assert (HA : forall t1, TI t1 -> t_scheduled t1 = t_scheduled t -> pend (t_state t1) = [] ->
                 avail p t1 -> length (Uof t1) = n -> (0 < count_proc (cache (t_state t1)))%nat ->
                 exists ops', legal t1 ops' /\ Forall only_p ops' /\ finished t1 (fold_left stept ops' t1)).
  { intros t1 HT1 Hg1 Hp1 Hf1 Hn1 Hc1.
    set (t2 := stept t1 Results).
    assert (E2 : t2 = T (fst (results (t_state t1))) (t_released t1 ++ snd (results (t_state t1))) (t_scheduled t1))
      by apply stept_results.
    assert (HT2 : TI t2).
    { apply (TI_step derive empty_root derive_nil); auto. simpl; auto. fold t2. rewrite E2. simpl. rewrite Hg1. auto. }
    assert (Hk : (1 <= length (snd (results (t_state t1))))%nat).
    { rewrite results_len. unfold max_results. lia. }
    assert (Hn2 : (length (Uof t2) < n)%nat).
    { rewrite E2. unfold Uof in *. cbn [t_released t_scheduled]. rewrite app_length.
      rewrite skipn_length in *. lia. }
    destruct (IHn _ Hn2 t2 HT2) as (ops'' & L2 & O2 & G2 & U2); auto.
    - rewrite E2. simpl. congruence.
    - rewrite E2. simpl. rewrite Hg1. auto.
    - intros h Hh'. rewrite E2 in Hh' |- *. unfold Uof in Hh'. cbn [t_released t_scheduled] in Hh'.
      rewrite app_length, skipn_add in Hh'. apply incl_skipn in Hh'.
      cbn [t_state]. unfold results. cbn [fst lacks]. apply Hf1. exact Hh'.
    - exists (Results :: ops''). split; [|split; [|split]].
      + simpl. split; auto.
      + constructor; simpl; auto.
      + simpl. fold t2. rewrite G2, E2. reflexivity.
      + simpl. fold t2. auto. }
  destruct (count_proc (cache (t_state t))) as [|c] eqn:Hcp; [|apply HA; auto; lia].
  (* B: slot 0 is not complete: ask the honest peer for the next block *)
  destruct HT as (Ho & Hw & Hsi).
  assert (HU : Uof t <> []) by (intros E; rewrite E in Hn; simpl in Hn; lia).
  destruct (head_is_next _ _ _ Hsi Hp HU Hcp) as (h0 & q & Hq & Hnum & Hh0U).
  set (o1 := Reserve p 1 (N.of_nat cache_len)).
  set (t1 := stept t o1).
  assert (E1 : t1 = T (fst (reserve empty_root p 1 (N.of_nat cache_len) (t_state t))) (t_released t) (t_scheduled t))
    by apply stept_reserve.
  assert (HL1 : strict_legal_op cache_len start t o1) by (simpl; lia).
  assert (HT1 : TI t1).
  { apply (TI_step derive empty_root derive_nil); auto. split; auto. fold t1. rewrite E1. simpl. auto. }
  pose proof (reserve_SI derive empty_root derive_nil cache_len _ _ p 1 (N.of_nat cache_len) _ Hsi) as HR.
  specialize (HR ltac:(lia)). cbv zeta in HR. destruct HR as (Hsi1 & He & Ho1 & Hl1 & Hreq).
  pose proof (reserve_head _ _ p _ h0 q Hsi Hp Hf Hh0U Hcp Hq Hnum) as HH. cbv zeta in HH. specialize (HH He).
  set (res := reserve empty_root p 1 (N.of_nat cache_len) (t_state t)) in *.
  assert (HU1 : Uof t1 = Uof t) by (rewrite E1; reflexivity).
  assert (Hg1 : t_scheduled t1 = t_scheduled t) by (rewrite E1; reflexivity).
  assert (Hs1 : t_state t1 = fst res) by (rewrite E1; reflexivity).
  destruct (fst (fst (snd res))) as [send|] eqn:Ereq.
  - (* a request was handed out: answer it honestly *)
    destruct Hreq as (Hne & Hp1 & _). rewrite Hp in Hp1.
    set (o2 := Deliver p (map body send)).
    set (t2 := stept t1 o2).
    assert (E2 : t2 = T (fst (deliver derive p (map body send) (t_state t1))) (t_released t1) (t_scheduled t1))
      by apply stept_deliver.
    assert (HT2 : TI t2).
    { apply (TI_step derive empty_root derive_nil); auto. simpl; auto. fold t2. rewrite E2. simpl. rewrite Hg1. auto. }
    assert (Hg_send : pend_get p (pend (fst res)) = Some send) by (rewrite Hp1; simpl; rewrite N.eqb_refl; auto).
    assert (Hsend_g : forall h, In h send -> In h (t_scheduled t)).
    { intros h Hh'. apply (u_g _ _ _ (si_u _ _ _ _ _ Hsi1)).
      eapply Permutation_in; [apply (si_perm _ _ _ _ _ Hsi1)|].
      rewrite Hp1. unfold flat; simpl. rewrite !in_app_iff. auto. }
    pose proof (deliver_honest _ _ p send _ Hsi1 Hg_send Hne (fun h Hh' => Hb h (Hsend_g h Hh'))) as (HD1 & HD2).
    pose proof (deliver_SI derive empty_root derive_nil cache_len _ _ p (map body send) _ Hsi1) as HDS.
    cbv zeta in HDS. destruct HDS as (_ & _ & Ho2 & Hp2 & Hl2).
    assert (Hc2 : cslot (fst (deliver derive p (map body send) (fst res))) 0).
    { destruct HH as [H0|(send' & [= <-] & Hin)]; auto.
      specialize (HD1 h0 Hin). replace (idx (fst res) h0) with O in HD1; auto.
      unfold idx, slot_index. rewrite Ho1. lia. }
    destruct (HA t2 HT2) as (ops'' & L2 & O2 & G2 & U2).
    + rewrite E2. simpl. auto.
    + rewrite E2, Hs1. simpl. rewrite Hp2, Hp1. simpl. rewrite N.eqb_refl. reflexivity.
    + intros h Hh'. rewrite E2 in Hh' |- *. unfold Uof in Hh'. cbn [t_released t_scheduled] in Hh'.
      rewrite E1 in Hh'. cbn [t_released t_scheduled] in Hh'.
      cbn [t_state]. rewrite Hs1, Hl2, Hl1; [apply Hf; exact Hh'|destruct send; simpl; congruence].
    + rewrite E2. unfold Uof in *. simpl. rewrite Hg1. rewrite E1. simpl. auto.
    + rewrite E2, Hs1. simpl. apply count_proc_pos. exact Hc2.
    + exists (o1 :: o2 :: ops''). split; [|split; [|split]].
      * simpl. fold t1. fold t2. repeat split; auto.
      * repeat constructor; auto.
      * simpl. fold t1. fold t2. rewrite G2, E2. simpl. auto.
      * simpl. fold t1. fold t2. auto.
  - (* only empty blocks were found: slot 0 is complete *)
    rewrite Hp in Hreq.
    destruct HH as [H0|(send' & [=] & _)].
    destruct (HA t1 HT1) as (ops'' & L2 & O2 & G2 & U2); auto.
    + rewrite Hs1. auto.
    + intros h Hh'. rewrite HU1 in Hh'. rewrite Hs1, Hl1. apply Hf; auto.
    + rewrite HU1. auto.
    + rewrite Hs1. apply count_proc_pos. exact H0.
    + exists (o1 :: ops''). split; [|split; [|split]].
      * simpl. fold t1. split; auto.
      * constructor; simpl; auto.
      * simpl. fold t1. rewrite G2. auto.
      * simpl. fold t1. auto.
Qed.

(* from every state of a legal history: let every outstanding request expire,
   then ask one peer that lacks nothing and answers with the true bodies; after
   finitely many Reserve / Deliver / Results steps every accepted block has been
   handed to the importer *)
Theorem completion_avail ops :
  legal_history derive empty_root cache_len start ops ->
  let t := run derive empty_root cache_len start ops in
  avail p t ->
  (forall h, In h (t_scheduled t) -> derive (body h) = h_root h) ->
  exists ops',
    legal t ops' /\ Forall only_p ops' /\
    let t' := run derive empty_root cache_len start (ops ++ ops') in
    t_scheduled t' = t_scheduled t /\ map r_hdr (t_released t') = t_scheduled t.
Proof.
  intros Hl t Hf Hb. pose proof (TI_legal derive empty_root derive_nil cache_len start ops Hl) as HT.
  destruct Hl as [_ Hh]. fold t in HT, Hh.
  set (o0 := Expire (map fst (pend (t_state t)))).
  set (t0 := stept t o0).
  assert (E0 : t0 = T (fst (expire (map fst (pend (t_state t))) (t_state t))) (t_released t) (t_scheduled t))
    by apply stept_expire.
  assert (HT0 : TI t0).
  { apply (TI_step derive empty_root derive_nil); auto. exact I. }
  destruct (finish_aux (length (Uof t0)) t0 HT0) as (ops'' & L & Oo & G & U); auto.
  - rewrite E0. simpl. apply expire_all.
  - exists (o0 :: ops''). split; [|split].
    + simpl. fold t0. split; auto.
    + constructor; simpl; auto.
    + cbv zeta. unfold run. rewrite fold_left_app. fold (run derive empty_root cache_len start ops). fold t.
      simpl. fold t0. set (t' := fold_left stept ops'' t0) in *.
      assert (Hg' : t_scheduled t' = t_scheduled t) by (rewrite G, E0; reflexivity).
      split; auto.
      assert (HT' : TI t').
      { apply (TI_run derive empty_root derive_nil); auto. fold t'. rewrite Hg'. auto. }
      destruct HT' as (Ho' & Hw' & _).
      destruct (prefix_inv derive empty_root derive_nil cache_len start t' Ho' Hw') as [Hpre Hle].
      assert (Hlen : length (Uof t') = 0%nat) by (rewrite U; reflexivity).
      unfold Uof in Hlen. rewrite skipn_length in Hlen.
      rewrite Hpre, <- Hg'. apply firstn_all2. lia.
Qed.

Theorem completion ops :
  legal_history derive empty_root cache_len start ops ->
  let t := run derive empty_root cache_len start ops in
  fresh p (t_state t) ->
  (forall h, In h (t_scheduled t) -> derive (body h) = h_root h) ->
  exists ops',
    legal t ops' /\ Forall only_p ops' /\
    let t' := run derive empty_root cache_len start (ops ++ ops') in
    t_scheduled t' = t_scheduled t /\ map r_hdr (t_released t') = t_scheduled t.
Proof.
  intros Hl t Hf Hb. apply completion_avail; auto. intros h _. apply Hf.
Qed.

End Progress.
