(* C18 - the lacking set of a peer grows only through EMPTY answers: a peer all
   of whose answers were non-empty (complete or partial, right or wrong) is
   never believed to lack anything, so it stays eligible for every task. *)
From Coq Require Import Lia ZifyBool ZifyN ZifyNat.
From VF.C18 Require Import Model ProofsA ProofsB ProofsC ProofsD ProofsE ProofsF ProofsG ProofsH.
Local Open Scope N_scope.

Section Lacking.
Variable derive : list N -> N.
Variable empty_root : N.

Lemma deliver_loop_lacks hs : forall bs s acc s' rest acc' f,
  deliver_loop derive hs bs s acc = (s', rest, acc', f) -> lacks s' = lacks s.
Proof.
  induction hs as [|h hs IH]; intros bs s acc s' rest acc' f H; simpl in H.
  - injection H as <- _ _ _. auto.
  - destruct bs as [|b bs]; [injection H as <- _ _ _; auto|].
    destruct (index_bad s (slot_index s h)); [injection H as <- _ _ _; auto|].
    destruct (nth _ (cache s) None); [|injection H as <- _ _ _; auto].
    destruct (negb (derive b =? h_root h)); [injection H as <- _ _ _; auto|].
    apply IH in H. simpl in H. auto.
Qed.

(* a non-empty answer (whatever it contains) marks nothing as lacking *)
Lemma deliver_nonempty_lacks p bs s : bs <> [] -> lacks (fst (deliver derive p bs s)) = lacks s.
Proof.
  intros Hne. unfold deliver. destruct (pend_get p (pend s)) as [hs|]; auto.
  destruct bs as [|b bs]; [congruence|].
  destruct (deliver_loop derive hs (b :: bs) _ 0) as [[[s2 rest] acc] f] eqn:E.
  apply deliver_loop_lacks in E. simpl in *. auto.
Qed.

(* an empty answer of q marks only q *)
Lemma deliver_lacks_other p q bs s h :
  q <> p -> lacks_mem p h (lacks (fst (deliver derive q bs s))) = lacks_mem p h (lacks s).
Proof.
  intros Hq. destruct bs as [|b bs]; [|rewrite deliver_nonempty_lacks; auto; discriminate].
  unfold deliver. destruct (pend_get q (pend s)) as [hs|]; auto.
  destruct (deliver_loop derive hs [] _ 0) as [[[s2 rest] acc] f] eqn:E.
  apply deliver_loop_lacks in E. simpl in *. rewrite E.
  unfold lacks_mem. rewrite existsb_app.
  replace (existsb _ (map (fun h0 => (q, h_hash h0)) hs)) with false; auto.
  symmetry. clear E. induction hs as [|x hs IH]; simpl; auto. rewrite IH.
  replace (q =? p) with false by lia. auto.
Qed.

Lemma reserve_loop_lacks p count q : forall s proc space send skip progress,
  lacks (rl_state (reserve_loop empty_root p count q s proc space send skip progress)) = lacks s.
Proof.
  induction q as [|h q IH]; intros s proc space send skip progress; simpl; auto.
  destruct ((proc <? space)%Z && (N.of_nat (length send) <? count)); simpl; auto.
  destruct (index_bad s (slot_index s h)); simpl; auto.
  destruct (ensure_slot_frame s h (Z.to_nat (slot_index s h))) as (_&_&_&_&_&_&Hl&_).
  destruct (h_root h =? empty_root); [rewrite IH; simpl; auto|].
  destruct (lacks_mem p (h_hash h) _); rewrite IH; auto.
Qed.

Lemma reserve_lacks p count limit s : lacks (fst (reserve empty_root p count limit s)) = lacks s.
Proof.
  unfold reserve. destruct (tqueue s) eqn:Eq; auto. rewrite <- Eq.
  destruct (pend_get p (pend s)); auto.
  pose proof (reserve_loop_lacks p count (tqueue s) s 0%Z (result_slots s limit) [] [] false) as H.
  destruct (reserve_loop _ _ _ _ _ _ _ _ _ _) as [s'|s' send skip pr]; simpl in *; auto.
  destruct send; simpl; auto.
Qed.

(* one step keeps "p lacks nothing" unless it is an empty answer of p itself *)
Lemma step_fresh p s o :
  (forall bs, o = Deliver p bs -> bs <> []) -> fresh p s -> fresh p (fst (step derive empty_root s o)).
Proof.
  intros Ho Hf h. destruct o as [hs from|q count limit|q bs|q hs|ps|q|]; cbn [step].
  - destruct (schedule_loop hs from s) as [s' ins] eqn:E.
    apply schedule_loop_frame in E as (_ & _ & _ & _ & Hl). simpl. rewrite Hl. apply Hf.
  - pose proof (reserve_lacks q count limit s) as Hl.
    destruct (reserve empty_root q count limit s) as [s' [[a b] e]]. simpl in *. rewrite Hl. apply Hf.
  - destruct (N.eq_dec q p) as [->|Hq].
    + pose proof (deliver_nonempty_lacks p bs s (Ho bs eq_refl)) as Hl.
      destruct (deliver derive p bs s) as [s' [a e]]. simpl in *. rewrite Hl. apply Hf.
    + pose proof (deliver_lacks_other p q bs s h Hq) as Hl.
      destruct (deliver derive q bs s) as [s' [a e]]. simpl in *. rewrite Hl. apply Hf.
  - simpl. apply Hf.
  - unfold expire. simpl. apply Hf.
  - unfold revoke. destruct (pend_get q (pend s)); simpl; apply Hf.
  - unfold results. simpl. apply Hf.
Qed.

Definition never_answered_empty (p : N) (ops : list op) : Prop :=
  forall bs, In (Deliver p bs) ops -> bs <> [].

Lemma fresh_run p cache_len start ops :
  never_answered_empty p ops -> fresh p (t_state (run derive empty_root cache_len start ops)).
Proof.
  unfold run. intros Hn.
  assert (G : forall t, fresh p (t_state t) -> (forall bs, In (Deliver p bs) ops -> bs <> []) ->
                        fresh p (t_state (fold_left (step_trace derive empty_root) ops t))).
  { clear Hn. induction ops as [|o ops IH]; simpl; intros t Hf Hn; auto.
    apply IH; [|intros bs Hin; apply Hn; auto].
    unfold step_trace.
    pose proof (step_fresh p (t_state t) o) as Hs.
    destruct (step derive empty_root (t_state t) o) as [s' out]. simpl in *.
    apply Hs; auto. }
  apply G; auto. intros h. reflexivity.
Qed.

End Lacking.

(* completion by a peer that took part in the history: all it needs is never to
   have answered with an empty response (truncated answers are fine) *)
Theorem completion_by_nonempty_answerer :
  forall derive empty_root, derive [] = empty_root ->
  forall cache_len, (1 <= cache_len)%nat ->
  forall start (body : header -> list N) p ops,
    legal_history derive empty_root cache_len start ops ->
    never_answered_empty p ops ->
    let t := run derive empty_root cache_len start ops in
    (forall h, In h (t_scheduled t) -> derive (body h) = h_root h) ->
    exists ops',
      legal_from derive empty_root (strict_legal_op cache_len start) t ops' /\
      Forall (only_p p) ops' /\
      let t' := run derive empty_root cache_len start (ops ++ ops') in
      t_scheduled t' = t_scheduled t /\ map r_hdr (t_released t') = t_scheduled t.
Proof.
  intros derive empty_root Hd cache_len Hc start body p ops Hl Hn t Hb.
  apply (completion derive empty_root Hd cache_len Hc start body p ops Hl); auto.
  apply fresh_run; auto.
Qed.
