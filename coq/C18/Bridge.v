(* C18 - facts about coq/gen/C18Locks.v (regenerated from you/downloader/*.go on
   every run): the lock discipline under which "one operation of the model =
   one critical section of q.lock" covers every access to the queue's shared
   fields. *)
From Coq Require Import List String Bool.
From VF.gen Require Import C18Locks.
Import ListNotations.
Open Scope string_scope.

Definition entry := (string * bool * list string * list string * list string * list string)%type.
Definition e_name (e : entry) := let '(n, _, _, _, _, _) := e in n.
Definition e_exported (e : entry) := let '(_, x, _, _, _, _) := e in x.
Definition e_fields_unlocked (e : entry) := let '(_, _, f, _, _, _) := e in f.
Definition e_calls_unlocked (e : entry) := let '(_, _, _, c, _, _) := e in c.

Fixpoint find_entry (t : list entry) (n : string) : option entry :=
  match t with
  | [] => None
  | e :: r => if String.eqb (e_name e) n then Some e else find_entry r n
  end.

(* does running this method touch a shared field at a moment where neither its
   own body nor its caller's holds q.lock? *)
Fixpoint needs_lock (fuel : nat) (t : list entry) (e : entry) : bool :=
  match fuel with
  | O => true
  | S f =>
    negb (match e_fields_unlocked e with [] => true | _ => false end)
    || existsb (fun c => match find_entry t c with
                         | Some e' => needs_lock f t e'
                         | None => true
                         end) (e_calls_unlocked e)
  end.

Definition mem_str (x : string) (l : list string) : bool := existsb (String.eqb x) l.

(* entry points tolerated outside the discipline.  CancelHeaders / CancelBodies /
   CancelReceipts read the queue's pool references as arguments before cancel()
   takes the lock; nothing in this fork's downloader ever calls them (fetchParts
   receives CancelBodies but never invokes it). *)
Definition pinned_exceptions : list string := ["CancelBodies"; "CancelHeaders"; "CancelReceipts"].

(* unexported members reached from outside queue.go: fillHeaderSkeleton reads
   d.queue.headerContCh (header download, outside the body part modelled here) *)
Definition pinned_external : list string := ["downloader.go:headerContCh"].

Definition entry_ok (t : list entry) (e : entry) : bool :=
  negb (e_exported e) || negb (needs_lock 8 t e) || mem_str (e_name e) pinned_exceptions.

(* the body-download operations of the model *)
Definition modelled_ops : list string :=
  ["Schedule"; "ReserveBodies"; "DeliverBodies"; "ExpireBodies"; "Revoke"; "Results"; "Prepare";
   "PendingBlocks"; "InFlightBlocks"; "ShouldThrottleBlocks"; "Idle"; "Close"; "Reset"].

Definition discipline_holds : bool :=
  forallb (entry_ok c18_methods) c18_methods
  && forallb (fun n => match find_entry c18_methods n with
                       | Some e => e_exported e && negb (needs_lock 8 c18_methods e)
                       | None => false end) modelled_ops
  && forallb (fun x => mem_str x pinned_external) c18_external_unexported
  && forallb (fun n => match find_entry c18_methods n with Some _ => true | None => false end) pinned_exceptions.

Lemma lock_discipline : discipline_holds = true.
Proof. vm_compute. reflexivity. Qed.

(* every exported method of the queue either never touches a shared field
   outside q.lock (directly or through the queue methods it calls while not
   holding the lock), or is one of the three pinned, never-called Cancel* wrappers *)
Lemma lock_discipline_forall :
  forall e, In e c18_methods -> e_exported e = true ->
    needs_lock 8 c18_methods e = false \/ In (e_name e) pinned_exceptions.
Proof.
  intros e Hin Hex.
  assert (H : forallb (entry_ok c18_methods) c18_methods = true) by (vm_compute; reflexivity).
  rewrite forallb_forall in H. specialize (H e Hin). unfold entry_ok in H. rewrite Hex in H. cbn [negb orb] in H.
  apply orb_prop in H as [H|H].
  - left. apply negb_true_iff in H. exact H.
  - right. unfold mem_str in H. apply existsb_exists in H as (x & Hx & He).
    apply String.eqb_eq in He. subst. exact Hx.
Qed.

(* the Go fields behind the model's state components that new_cycle_fields
   requires to be back at their initial values (head, tpool, tqueue, pend, done,
   cache, offset): queue.Reset() must (re)initialise each of them *)
Definition cycle_fields : list string :=
  ["headerHead"; "blockTaskPool"; "blockTaskQueue"; "blockPendPool"; "blockDonePool"; "resultCache"; "resultOffset"].

Lemma reset_reinitialises_cycle_fields :
  forall f, In f cycle_fields -> In f c18_reset_assigns.
Proof.
  assert (H : forallb (fun f => mem_str f c18_reset_assigns) cycle_fields = true) by (vm_compute; reflexivity).
  intros f Hf. rewrite forallb_forall in H. specialize (H f Hf).
  unfold mem_str in H. apply existsb_exists in H as (x & Hx & He). apply String.eqb_eq in He. subst. exact Hx.
Qed.

(* the two cooperating sites behind "a peer with nothing pending is idled by its
   next packet": queue.deliver answers such a packet with errNoFetchesPending
   (error kind 1 of the model), and fetchParts calls setIdle(peer, accepted)
   after every delivery except an errStaleDelivery (kind 4) *)
Definition idle_glue_holds : bool :=
  String.eqb c18_deliver_unpending_error "errNoFetchesPending"
  && negb (mem_str c18_deliver_unpending_error c18_fetchparts_not_idled_on)
  && match c18_fetchparts_not_idled_on with ["errStaleDelivery"] => true | _ => false end.

Lemma idle_glue : idle_glue_holds = true.
Proof. vm_compute. reflexivity. Qed.
