(* C18 - the invariant of whole legal histories: nothing is lost, the result
   cache index never leaves the cache. *)
From Coq Require Import Lia ZifyBool ZifyN ZifyNat Permutation Sorted.
From VF.C18 Require Import Model ProofsA ProofsB ProofsC ProofsD ProofsE ProofsF.
Local Open Scope N_scope.

Section Legal.
Variable derive : list N -> N.
Variable empty_root : N.
Hypothesis derive_nil : derive [] = empty_root.
Variable cache_len : nat.
Variable start : N.

Notation SI := (SI derive cache_len).
Notation stept := (step_trace derive empty_root).

(* accepted and not yet released *)
Definition Uof (t : trace) : list header := skipn (length (t_released t)) (t_scheduled t).

(* the discipline of the downloader: Schedule continues the numbering,
   CancelBodies is given the request that is pending for the peer, the item
   limit computed by resultSlots never exceeds the cache *)
Definition strict_legal_op (t : trace) (o : op) : Prop :=
  match o with
  | Schedule hs from => from = start + N.of_nat (length (t_scheduled t))
  | Cancel p hs => pend_get p (pend (t_state t)) = Some hs
  | Reserve p count limit => (N.to_nat limit <= cache_len)%nat
  | _ => True
  end.

Definition TI (t : trace) : Prop :=
  order_inv cache_len start t /\ winv derive start t /\ SI (t_scheduled t) (Uof t) (t_state t).

(* ---- list facts ---------------------------------------------------------------- *)
Lemma skipn_Nseq k a n : skipn k (Nseq a n) = Nseq (a + N.of_nat k) (n - k).
Proof.
  revert a n; induction k as [|k IH]; intros a n.
  - simpl. replace (a + 0) with a by lia. replace (n - 0)%nat with n by lia. auto.
  - destruct n as [|n]; [reflexivity|]. rewrite Nseq_S. simpl skipn. rewrite IH.
    replace (a + 1 + N.of_nat k) with (a + N.of_nat (S k)) by lia. reflexivity.
Qed.

Lemma NoDup_skipn {A} k (l : list A) : NoDup l -> NoDup (skipn k l).
Proof.
  revert l; induction k as [|k IH]; intros l Hn; simpl; auto.
  destruct l; auto. inversion Hn; auto.
Qed.

Lemma incl_skipn {A} k (l : list A) : incl (skipn k l) l.
Proof.
  revert l; induction k as [|k IH]; intros l; simpl; [apply incl_refl|].
  destruct l; [apply incl_refl|]. apply incl_tl, IH.
Qed.

Lemma skipn_add {A} k n (l : list A) : skipn (k + n) l = skipn n (skipn k l).
Proof.
  revert l; induction k as [|k IH]; intros l; simpl; auto.
  destruct l; simpl; auto. destruct n; auto.
Qed.

Lemma prefix_inv t :
  order_inv cache_len start t -> winv derive start t ->
  map r_hdr (t_released t) = firstn (length (t_released t)) (t_scheduled t) /\
  (length (t_released t) <= length (t_scheduled t))%nat.
Proof.
  intros (_ & _ & _ & Ho) (Hn & _ & Hr).
  assert (E : map r_hdr (t_released t) = firstn (length (t_released t)) (t_scheduled t)).
  { rewrite <- (map_length r_hdr (t_released t)).
    eapply prefix_by_numbers; eauto.
    - intros h Hh. apply in_map_iff in Hh as (r & <- & Hin).
      rewrite Forall_forall in Hr. apply Hr; auto.
    - rewrite map_map, map_length. exact Ho. }
  split; auto.
  assert (L : length (map r_hdr (t_released t)) = length (firstn (length (t_released t)) (t_scheduled t))) by congruence.
  rewrite map_length, firstn_length in L. lia.
Qed.

Lemma Ufacts_of t :
  order_inv cache_len start t -> winv derive start t -> NoDup (map h_hash (t_scheduled t)) ->
  Ufacts (t_scheduled t) (Uof t) (t_state t).
Proof.
  intros Ho Hw Hh. destruct (prefix_inv t Ho Hw) as [_ Hle].
  destruct Ho as (_ & _ & Hoff & _). destruct Hw as (Hn & _ & _).
  unfold Uof. constructor.
  - eapply uniq_of_nums; eauto.
  - apply incl_skipn.
  - rewrite <- skipn_map, Hn, skipn_Nseq, skipn_length, Hoff. reflexivity.
  - rewrite <- skipn_map. apply NoDup_skipn; auto.
Qed.

(* ---- one step ------------------------------------------------------------------------ *)
Lemma strict_weak t o : TI t -> strict_legal_op t o -> weak_legal_op start t o.
Proof.
  intros (_ & _ & Hsi) H. destruct o; simpl in *; auto.
  intros h Hh.
  apply (u_g _ _ _ (si_u _ _ _ _ _ Hsi)).
  eapply Permutation_in; [apply (si_perm _ _ _ _ _ Hsi)|].
  rewrite !in_app_iff. right; left. unfold flat. apply in_concat. exists hs. split; auto.
  apply in_map_iff. exists (p, hs). split; auto. apply pend_get_In; auto.
Qed.

Lemma TI_step t o :
  TI t -> strict_legal_op t o -> NoDup (map h_hash (t_scheduled (stept t o))) -> TI (stept t o).
Proof.
  intros HT Hl Hh. pose proof (strict_weak t o HT Hl) as Hwl.
  destruct HT as (Ho & Hw & Hsi).
  pose proof (order_inv_step derive empty_root cache_len start t o Ho) as Ho'.
  pose proof (winv_step derive empty_root derive_nil start t o Hw Hwl) as Hw'.
  pose proof (Ufacts_of _ Ho' Hw' Hh) as Hu'.
  split; [exact Ho'|]. split; [exact Hw'|].
  destruct (prefix_inv t Ho Hw) as [Hpre Hle].
  destruct (prefix_inv _ Ho' Hw') as [Hpre' Hle'].
  revert Hu' Hpre' Hle'. clear Ho' Hw' Hh. unfold step_trace, Uof.
  destruct o as [hs from|p count limit|p bs|p hs|ps|p|]; cbn [step].
  - destruct (schedule_loop hs from (t_state t)) as [s' ins] eqn:E. cbn [t_state t_released t_scheduled].
    intros Hu' _ _.
    assert (Hsk : skipn (length (t_released t)) (t_scheduled t ++ ins) = Uof t ++ ins).
    { unfold Uof. rewrite skipn_app. replace (length (t_released t) - length (t_scheduled t))%nat with O by lia. auto. }
    rewrite Hsk in *. eapply schedule_SI; eauto.
  - pose proof (reserve_SI derive empty_root derive_nil cache_len _ _ p count limit _ Hsi Hl) as H.
    cbv zeta in H. destruct (reserve empty_root p count limit (t_state t)) as [s' [[req pr] e]].
    cbn [fst snd t_state t_released t_scheduled] in *. intros _ _ _. apply H.
  - pose proof (deliver_SI derive empty_root derive_nil cache_len _ _ p bs _ Hsi) as H.
    cbv zeta in H. destruct (deliver derive p bs (t_state t)) as [s' [a e]].
    cbn [fst snd t_state t_released t_scheduled] in *. intros _ _ _. apply H.
  - cbn [t_state t_released t_scheduled]. intros _ _ _. apply cancel_SI; auto.
  - pose proof (expire_SI derive cache_len _ _ ps _ Hsi) as H.
    destruct (expire ps (t_state t)) as [s' l]. cbn [fst t_state t_released t_scheduled] in *. intros _ _ _. auto.
  - cbn [t_state t_released t_scheduled]. intros _ _ _. apply revoke_SI; auto.
  - pose proof (results_SI derive empty_root derive_nil cache_len (t_scheduled t) (Uof t)) as H.
    specialize (H (skipn (length (t_released t ++ snd (results (t_state t)))) (t_scheduled t)) (t_state t) Hsi).
    cbv zeta in H. destruct (results (t_state t)) as [s' rs]. cbn [fst snd t_state t_released t_scheduled] in *.
    intros Hu' Hpre' Hle'. apply H; auto.
    rewrite app_length in *. rewrite skipn_add. fold (Uof t).
    rewrite <- (firstn_skipn (length rs) (Uof t)) at 1. f_equal.
    unfold Uof. rewrite firstn_skipn_comm, <- Hpre', map_app.
    rewrite skipn_app, skipn_all2 by (rewrite map_length; lia).
    rewrite map_length. replace (length (t_released t) - length (t_released t))%nat with O by lia. reflexivity.
Qed.

Lemma TI_init : TI (T (init cache_len start) [] []).
Proof.
  split; [apply order_inv_init|]. split; [apply winv_init|].
  destruct (order_inv_init cache_len start) as (Hs & Hl & _).
  unfold Uof; simpl. constructor; simpl.
  - constructor; simpl.
    + intros ? ? [].
    + apply incl_refl.
    + reflexivity.
    + constructor.
  - constructor; auto.
    + intros i r Hr. simpl in Hr.
      destruct (nth_in_or_default i (repeat None cache_len) (@None result)) as [Hin|Hd];
        [apply repeat_spec in Hin|]; congruence.
    + intros i j _ _. simpl.
      destruct (nth_in_or_default j (repeat None cache_len) (@None result)) as [Hin|Hd]; auto.
      apply repeat_spec in Hin; auto.
    + intros i r Hr. simpl in Hr.
      destruct (nth_in_or_default i (repeat None cache_len) (@None result)) as [Hin|Hd];
        [apply repeat_spec in Hin|]; congruence.
    + unfold done_ok, completed, cplt; simpl. rewrite somes_repeat_None. simpl. tauto.
  - unfold completed, cplt; simpl. rewrite somes_repeat_None. simpl. auto.
  - constructor.
  - constructor.
  - unfold completed, cplt; simpl. rewrite somes_repeat_None. simpl. intros ? [].
Qed.

Lemma scheduled_mono ops : forall t, exists more, t_scheduled (fold_left stept ops t) = t_scheduled t ++ more.
Proof.
  induction ops as [|o ops IH]; intros t; simpl.
  - exists []. rewrite app_nil_r; auto.
  - destruct (IH (stept t o)) as (more & ->).
    unfold step_trace. destruct (step derive empty_root (t_state t) o) as [s' out]. simpl.
    destruct out; try (exists more; reflexivity).
    exists (ins ++ more). rewrite app_assoc. reflexivity.
Qed.

Lemma NoDup_map_app_l {A B} (f : A -> B) a b : NoDup (map f (a ++ b)) -> NoDup (map f a).
Proof.
  rewrite map_app. generalize (map f a), (map f b). clear.
  intros l l'. induction l as [|x l IH]; simpl; intros Hn; [constructor|].
  inversion Hn as [|? ? Hx Hn']; subst. constructor; auto. intros Hin. apply Hx, in_or_app; auto.
Qed.

Lemma TI_run ops : forall t,
  TI t -> legal_from derive empty_root strict_legal_op t ops ->
  NoDup (map h_hash (t_scheduled (fold_left stept ops t))) ->
  TI (fold_left stept ops t).
Proof.
  induction ops as [|o ops IH]; simpl; intros t HT Hl Hh; auto.
  destruct Hl as [Hl1 Hl2]. apply IH; auto. apply TI_step; auto.
  destruct (scheduled_mono ops (stept t o)) as (more & E). rewrite E in Hh.
  eapply NoDup_map_app_l; eauto.
Qed.

Definition legal_history (ops : list op) : Prop :=
  legal_from derive empty_root strict_legal_op (T (init cache_len start) [] []) ops /\
  NoDup (map h_hash (t_scheduled (run derive empty_root cache_len start ops))).

Lemma TI_legal ops : legal_history ops -> TI (run derive empty_root cache_len start ops).
Proof. intros [Hl Hh]. apply TI_run; auto. apply TI_init. Qed.

(* ---- theorems --------------------------------------------------------------------------- *)
(* every accepted, unreleased header is in exactly one of: task queue, the
   request of exactly one peer, the completed slots; the done pool names exactly
   the completed ones; every requested or completed header owns its cache slot *)
Theorem nothing_lost ops :
  legal_history ops ->
  let t := run derive empty_root cache_len start ops in
  let s := t_state t in
  Permutation (tqueue s ++ flat (pend s) ++ completed s)
              (skipn (length (t_released t)) (t_scheduled t)) /\
  NoDup (skipn (length (t_released t)) (t_scheduled t)) /\
  NoDup (map fst (pend s)) /\
  (forall x, In x (done s) <-> In x (map h_hash (completed s))) /\
  (forall h, In h (flat (pend s) ++ completed s) ->
     exists r, nth (Z.to_nat (slot_index s h)) (cache s) None = Some r /\ r_hdr r = h).
Proof.
  intros Hl t s. destruct (TI_legal ops Hl) as (Ho & Hw & Hsi). fold t in Ho, Hw, Hsi. fold s in Hsi.
  split; [apply (si_perm _ _ _ _ _ Hsi)|]. split; [apply (U_NoDup _ _ _ (si_u _ _ _ _ _ Hsi))|].
  split; [apply (si_keys _ _ _ _ _ Hsi)|]. split; [apply (c_done _ _ _ _ _ (si_c _ _ _ _ _ Hsi))|].
  intros h Hh. destruct (si_slotted _ _ _ _ _ Hsi h Hh) as [Hb Hn].
  destruct (nth (idx s h) (cache s) None) as [r|] eqn:Hr; [|congruence].
  exists r. split; auto.
  apply (slot_holds_U derive cache_len (t_scheduled t) (Uof t) s h r
           (si_u _ _ _ _ _ Hsi) (si_c _ _ _ _ _ Hsi)); auto.
  eapply Permutation_in; [apply (si_perm _ _ _ _ _ Hsi)|]. rewrite !in_app_iff in *. tauto.
Qed.

(* the "index allocation went beyond available resultCache space" branch and
   errInvalidChain of deliver are unreachable *)
Theorem never_invalid_chain ops :
  legal_history ops ->
  let s := t_state (run derive empty_root cache_len start ops) in
  (forall p count limit, (N.to_nat limit <= cache_len)%nat ->
     snd (snd (reserve empty_root p count limit s)) = false) /\
  (forall p bs, snd (snd (deliver derive p bs s)) <> 2).
Proof.
  intros Hl s. destruct (TI_legal ops Hl) as (Ho & Hw & Hsi). fold s in Hsi. split.
  - intros p count limit HL.
    apply (reserve_SI derive empty_root derive_nil cache_len _ _ p count limit _ Hsi HL).
  - intros p bs. apply (deliver_SI derive empty_root derive_nil cache_len _ _ p bs _ Hsi).
Qed.

End Legal.
