(* C18 - basic lemmas and the unconditional ordering invariant:
   whatever the operations, Results hands out consecutive numbers. *)
From Coq Require Import Lia ZifyBool ZifyN ZifyNat.
From VF.C18 Require Import Model.
Local Open Scope N_scope.

(* ---- lists -------------------------------------------------------------- *)
Lemma length_upd {A} i (f : A -> A) l : length (upd i f l) = length l.
Proof. revert i; induction l as [|x l IH]; intros [|i]; simpl; auto. Qed.

Lemma nth_upd_eq {A} i (f : A -> A) l d : (i < length l)%nat -> nth i (upd i f l) d = f (nth i l d).
Proof.
  revert i; induction l as [|x l IH]; intros [|i]; simpl; intros Hl; try lia; auto.
  apply IH; lia.
Qed.

Lemma nth_upd_neq {A} i j (f : A -> A) l d : i <> j -> nth j (upd i f l) d = nth j l d.
Proof.
  revert i j; induction l as [|x l IH]; intros [|i] [|j]; simpl; intros Hij; try congruence; auto.
Qed.

Lemma nth_upd {A} i j (f : A -> A) l d :
  nth j (upd i f l) d = if Nat.eqb i j && Nat.ltb i (length l) then f (nth i l d) else nth j l d.
Proof.
  destruct (Nat.eqb i j) eqn:E.
  - apply Nat.eqb_eq in E; subst j. destruct (Nat.ltb i (length l)) eqn:L; simpl.
    + apply Nat.ltb_lt in L. apply nth_upd_eq; auto.
    + apply Nat.ltb_ge in L. rewrite !nth_overflow; auto. rewrite length_upd; auto.
  - apply Nat.eqb_neq in E. simpl. apply nth_upd_neq; auto.
Qed.

Lemma memN_In x l : memN x l = true <-> In x l.
Proof.
  unfold memN. rewrite existsb_exists. split.
  - intros [y [Hy He]]. apply N.eqb_eq in He. subst; auto.
  - intros H. exists x. split; auto. apply N.eqb_refl.
Qed.

Lemma In_delN x y l : In x (delN y l) <-> In x l /\ x <> y.
Proof.
  unfold delN. rewrite filter_In. rewrite negb_true_iff, N.eqb_neq. tauto.
Qed.

Lemma In_qpush x h q : In x (qpush h q) <-> x = h \/ In x q.
Proof.
  induction q as [|y q IH]; simpl.
  - intuition.
  - destruct (h_num h <? h_num y); simpl; rewrite ?IH; intuition.
Qed.

Lemma In_qpush_all x hs q : In x (qpush_all hs q) <-> In x hs \/ In x q.
Proof.
  unfold qpush_all. revert q; induction hs as [|h hs IH]; simpl; intros q.
  - intuition.
  - rewrite IH, In_qpush. intuition.
Qed.

Lemma length_qpush h q : length (qpush h q) = S (length q).
Proof. induction q as [|y q IH]; simpl; auto. destruct (h_num h <? h_num y); simpl; auto. Qed.

Lemma pend_get_In p l hs : pend_get p l = Some hs -> In (p, hs) l.
Proof.
  induction l as [|[k v] l IH]; simpl; [discriminate|].
  destruct (k =? p) eqn:E.
  - apply N.eqb_eq in E. intros [= <-]. subst; auto.
  - auto.
Qed.

Lemma In_pend_del p x l : In x (pend_del p l) <-> In x l /\ fst x <> p.
Proof. unfold pend_del. rewrite filter_In, negb_true_iff, N.eqb_neq. tauto. Qed.

(* ---- numbers ------------------------------------------------------------ *)
Definition Nseq (a : N) (n : nat) : list N := map (fun k => a + N.of_nat k) (seq 0 n).

Lemma map_seq_shift {A} (f : nat -> A) n m : map f (seq n m) = map (fun k => f (n + k)%nat) (seq 0 m).
Proof.
  revert n f; induction m as [|m IH]; intros n f; simpl; auto.
  f_equal; [f_equal; lia|]. rewrite (IH (S n)), (IH 1%nat). apply map_ext. intros k. f_equal. lia.
Qed.

Lemma Nseq_app a n m : Nseq a (n + m) = Nseq a n ++ Nseq (a + N.of_nat n) m.
Proof.
  unfold Nseq. rewrite seq_app, map_app. f_equal. simpl.
  rewrite map_seq_shift. apply map_ext. intros k. lia.
Qed.

Lemma Nseq_length a n : length (Nseq a n) = n.
Proof. unfold Nseq. rewrite map_length, seq_length; auto. Qed.

Lemma Nseq_S a n : Nseq a (S n) = a :: Nseq (a + 1) n.
Proof.
  change (S n) with (1 + n)%nat. rewrite Nseq_app. simpl. f_equal.
  - unfold Nseq; simpl. lia.
Qed.

Definition rnum (r : result) : N := h_num (r_hdr r).

(* every slot holds the result for number offset + index *)
Definition slot_ok (s : state) : Prop :=
  forall i r, nth i (cache s) None = Some r -> rnum r = offset s + N.of_nat i.

Lemma index_ok_nat s h :
  index_bad s (slot_index s h) = false ->
  h_num h = offset s + N.of_nat (Z.to_nat (slot_index s h)) /\
  (Z.to_nat (slot_index s h) < length (cache s))%nat.
Proof. unfold index_bad, slot_index. intros H. lia. Qed.

Section Order.
Variable derive : list N -> N.
Variable empty_root : N.

Lemma dec_pending_hdr o r : dec_pending o = Some r -> exists r0, o = Some r0 /\ r_hdr r = r_hdr r0
  /\ r_hash r = r_hash r0 /\ r_txs r = r_txs r0 /\ r_pending r = (r_pending r0 - 1)%Z.
Proof. destruct o as [r0|]; simpl; [|discriminate]. intros [= <-]. eauto 6. Qed.

Lemma set_body_hdr b o r : set_body b o = Some r -> exists r0, o = Some r0 /\ r_hdr r = r_hdr r0
  /\ r_hash r = r_hash r0 /\ r_txs r = b /\ r_pending r = (r_pending r0 - 1)%Z.
Proof. destruct o as [r0|]; simpl; [|discriminate]. intros [= <-]. eauto 6. Qed.

(* frame facts of ensure_slot / complete_noop / accept_body *)
Lemma ensure_slot_frame s h i :
  let s' := ensure_slot s h i in
  head s' = head s /\ tpool s' = tpool s /\ tqueue s' = tqueue s /\ pend s' = pend s /\
  done s' = done s /\ offset s' = offset s /\ lacks s' = lacks s /\ length (cache s') = length (cache s).
Proof.
  unfold ensure_slot. destruct (nth i (cache s) None); simpl; rewrite ?length_upd; repeat split; auto.
Qed.

Lemma ensure_slot_nth s h i j :
  (i < length (cache s))%nat ->
  nth j (cache (ensure_slot s h i)) None =
  if Nat.eqb i j then match nth i (cache s) None with
                      | None => Some (R 1 (h_hash h) h [])
                      | Some r => Some r end
  else nth j (cache s) None.
Proof.
  intros Hi. unfold ensure_slot. destruct (nth i (cache s) None) eqn:E; simpl.
  - destruct (Nat.eqb i j) eqn:Eij; auto. apply Nat.eqb_eq in Eij. subst; auto.
  - rewrite nth_upd. apply Nat.ltb_lt in Hi. rewrite Hi, andb_true_r. auto.
Qed.

Lemma slot_ok_ensure s h :
  slot_ok s -> index_bad s (slot_index s h) = false ->
  slot_ok (ensure_slot s h (Z.to_nat (slot_index s h))).
Proof.
  intros Hs Hb. destruct (index_ok_nat _ _ Hb) as [Hn Hl].
  intros j r. destruct (ensure_slot_frame s h (Z.to_nat (slot_index s h))) as (_&_&_&_&_&Ho&_&_).
  rewrite Ho, ensure_slot_nth by auto.
  destruct (Nat.eqb _ j) eqn:E.
  - apply Nat.eqb_eq in E. subst j.
    destruct (nth _ (cache s) None) eqn:En.
    + intros [= <-]. apply Hs; auto.
    + intros [= <-]. unfold rnum; simpl. auto.
  - apply Hs.
Qed.

Lemma slot_ok_upd s s' i f :
  slot_ok s -> cache s' = upd i f (cache s) -> offset s' = offset s ->
  (forall o r, f o = Some r -> exists r0, o = Some r0 /\ r_hdr r = r_hdr r0) ->
  slot_ok s'.
Proof.
  intros Hs Hc Ho Hf j r. rewrite Hc, Ho, nth_upd.
  destruct (Nat.eqb i j && Nat.ltb i (length (cache s))) eqn:E.
  - apply andb_prop in E as [E _]. apply Nat.eqb_eq in E. subst j.
    intros Hr. apply Hf in Hr as (r0 & Hr0 & Hh). unfold rnum. rewrite Hh. apply Hs; auto.
  - apply Hs.
Qed.

Lemma slot_ok_noop s h i : slot_ok s -> slot_ok (complete_noop s h i).
Proof.
  intros Hs. eapply slot_ok_upd; eauto; try reflexivity.
  intros o r Hr. apply dec_pending_hdr in Hr as (r0 & -> & Hh & _). eauto.
Qed.

Lemma slot_ok_accept s h i b : slot_ok s -> slot_ok (accept_body s h i b).
Proof.
  intros Hs. eapply slot_ok_upd; eauto; try reflexivity.
  intros o r Hr. apply set_body_hdr in Hr as (r0 & -> & Hh & _). eauto.
Qed.

Lemma slot_ok_same s s' : cache s' = cache s -> offset s' = offset s -> slot_ok s -> slot_ok s'.
Proof. intros Hc Ho Hs i r. rewrite Hc, Ho. apply Hs. Qed.

(* ---- the loops ----------------------------------------------------------- *)
Lemma schedule_loop_frame hs : forall from s s' ins,
  schedule_loop hs from s = (s', ins) ->
  cache s' = cache s /\ offset s' = offset s /\ pend s' = pend s /\ done s' = done s /\ lacks s' = lacks s.
Proof.
  induction hs as [|h hs IH]; simpl; intros from s s' ins H.
  - injection H as <- <-. auto.
  - destruct (negb (h_num h =? from)); [injection H as <- <-; auto|].
    destruct (negb (head s =? 0) && negb (head s =? h_parent h)); [injection H as <- <-; auto|].
    destruct (memN (h_hash h) (tpool s)); [eauto|].
    destruct (schedule_loop hs (from + 1) _) as [s2 ins2] eqn:E.
    injection H as <- <-. apply IH in E. simpl in E. auto.
Qed.

Definition rl_state (r : rl_res) : state := match r with RLerr s => s | RLok s _ _ _ => s end.

Lemma reserve_loop_slot_ok p count q : forall s proc space send skip progress,
  slot_ok s ->
  let s' := rl_state (reserve_loop empty_root p count q s proc space send skip progress) in
  slot_ok s' /\ offset s' = offset s /\ length (cache s') = length (cache s).
Proof.
  induction q as [|h q IH]; intros s proc space send skip progress Hs; simpl.
  - split; [|split]; auto.
  - destruct ((proc <? space)%Z && (N.of_nat (length send) <? count)); simpl; [|auto].
    destruct (index_bad s (slot_index s h)) eqn:Hb; simpl; [auto|].
    pose proof (slot_ok_ensure s h Hs Hb) as Hs1.
    destruct (ensure_slot_frame s h (Z.to_nat (slot_index s h))) as (_&_&_&_&_&Ho&_&Hl).
    destruct (h_root h =? empty_root).
    + edestruct (IH (complete_noop (ensure_slot s h (Z.to_nat (slot_index s h))) h (Z.to_nat (slot_index s h))))
        as (A & B & C); [apply slot_ok_noop; eauto|].
      split; [exact A|]. split; [rewrite B; simpl; auto|rewrite C; simpl; rewrite length_upd; auto].
    + destruct (lacks_mem p (h_hash h) _).
      * edestruct (IH (ensure_slot s h (Z.to_nat (slot_index s h)))) as (A & B & C); [eauto|].
        split; [exact A|]. split; [rewrite B; auto|rewrite C; auto].
      * edestruct (IH (ensure_slot s h (Z.to_nat (slot_index s h)))) as (A & B & C); [eauto|].
        split; [exact A|]. split; [rewrite B; auto|rewrite C; auto].
Qed.

Lemma reserve_slot_ok p count limit s :
  slot_ok s ->
  let s' := fst (reserve empty_root p count limit s) in
  slot_ok s' /\ offset s' = offset s /\ length (cache s') = length (cache s).
Proof.
  intros Hs. unfold reserve.
  destruct (tqueue s) eqn:Eq; [simpl; auto|]. rewrite <- Eq.
  destruct (pend_get p (pend s)); [simpl; auto|].
  pose proof (reserve_loop_slot_ok p count (tqueue s) s 0 (result_slots s limit) [] [] false Hs) as H.
  destruct (reserve_loop _ _ _ _ _ _ _ _ _ _) as [s'|s' send skip progress]; simpl in *.
  - auto.
  - destruct send; simpl; destruct H as (A & B & C); (split; [|split]); auto.
Qed.

Lemma deliver_loop_slot_ok hs : forall bs s acc s' rest acc' f,
  slot_ok s -> deliver_loop derive hs bs s acc = (s', rest, acc', f) ->
  slot_ok s' /\ offset s' = offset s /\ length (cache s') = length (cache s).
Proof.
  induction hs as [|h hs IH]; intros bs s acc s' rest acc' f Hs H; simpl in H.
  - injection H as <- _ _ _. auto.
  - destruct bs as [|b bs]; [injection H as <- _ _ _; auto|].
    destruct (index_bad s (slot_index s h)); [injection H as <- _ _ _; auto|].
    destruct (nth _ (cache s) None); [|injection H as <- _ _ _; auto].
    destruct (negb (derive b =? h_root h)); [injection H as <- _ _ _; auto|].
    apply IH in H; [|apply slot_ok_accept; auto].
    destruct H as (A & B & C). simpl in *. rewrite length_upd in C. auto.
Qed.

Lemma deliver_slot_ok p bs s :
  slot_ok s ->
  let s' := fst (deliver derive p bs s) in
  slot_ok s' /\ offset s' = offset s /\ length (cache s') = length (cache s).
Proof.
  intros Hs. unfold deliver. destruct (pend_get p (pend s)) as [hs|]; [|simpl; auto].
  match goal with |- context [deliver_loop derive hs bs ?s1 0] =>
    destruct (deliver_loop derive hs bs s1 0) as [[[s2 rest] acc] f] eqn:E;
    assert (Hs1 : slot_ok s1 /\ offset s1 = offset s /\ length (cache s1) = length (cache s))
      by (destruct bs; simpl; auto) end.
  destruct Hs1 as (A1 & B1 & C1).
  apply deliver_loop_slot_ok in E; auto. destruct E as (A & B & C). simpl.
  split; [|split]; [|congruence|congruence].
  eapply slot_ok_same; [| |exact A]; reflexivity.
Qed.

(* ---- Results ------------------------------------------------------------- *)
Lemma count_proc_le c : (count_proc c <= length c)%nat.
Proof.
  induction c as [|[r|] c IH]; simpl; try lia.
  destruct (r_pending r >? 0)%Z; simpl; lia.
Qed.

(* the first n <= count_proc slots are all occupied *)
Lemma count_proc_some c : forall n, (n <= count_proc c)%nat ->
  exists rs, firstn n c = map Some rs /\ length rs = n /\ Forall (fun r => (r_pending r <= 0)%Z) rs.
Proof.
  induction c as [|[r|] c IH]; simpl; intros n Hn.
  - assert (n = O) by lia. subst. exists []. simpl; auto.
  - destruct (r_pending r >? 0)%Z eqn:E.
    + assert (n = O) by lia. subst. exists []. simpl; auto.
    + destruct n as [|n]; [exists []; simpl; auto|].
      destruct (IH n) as (rs & H1 & H2 & H3); [lia|].
      exists (r :: rs). simpl. rewrite H1, H2. repeat split; auto. constructor; auto. lia.
  - assert (n = O) by lia. subst. exists []. simpl; auto.
Qed.

Lemma somes_map_Some {A} (l : list A) : somes (map Some l) = l.
Proof. induction l; simpl; congruence. Qed.

Lemma nth_skipn' {A} n : forall (l : list A) i d, nth i (skipn n l) d = nth (n + i) l d.
Proof.
  induction n as [|n IH]; intros l i d; simpl; auto.
  destruct l; simpl; auto. destruct i; auto.
Qed.

Lemma prefix_nums : forall rs c n off,
  (forall i r, nth i c None = Some r -> rnum r = off + N.of_nat i) ->
  firstn n c = map Some rs -> map rnum rs = Nseq off (length rs).
Proof.
  induction rs as [|r rs IH]; intros c n off Hc Hf; simpl; auto.
  destruct n; [discriminate|]. destruct c as [|x c]; [discriminate|]. simpl in Hf. injection Hf as -> Hf.
  rewrite Nseq_S. f_equal.
  - specialize (Hc O r eq_refl). rewrite Hc. lia.
  - eapply IH; eauto. intros i r' Hr. specialize (Hc (S i) r' Hr). lia.
Qed.

Lemma results_released s :
  slot_ok s ->
  let (s', rs) := results s in
  map rnum rs = Nseq (offset s) (length rs) /\
  offset s' = offset s + N.of_nat (length rs) /\
  slot_ok s' /\ length (cache s') = length (cache s) /\
  Forall (fun r => (r_pending r <= 0)%Z) rs.
Proof.
  intros Hs. unfold results.
  set (n := Nat.min (count_proc (cache s)) max_results).
  destruct (count_proc_some (cache s) n) as (rs & H1 & H2 & H3); [lia|].
  rewrite H1, somes_map_Some. simpl.
  assert (Hn : (n <= length (cache s))%nat) by (pose proof (count_proc_le (cache s)); lia).
  split; [|split; [|split; [|split]]]; auto.
  - eapply prefix_nums; eauto.
  - rewrite H2; auto.
  - intros i r. simpl. intros Hr.
    destruct (Nat.ltb i (length (cache s) - n)) eqn:L.
    + apply Nat.ltb_lt in L. rewrite app_nth1 in Hr by (rewrite skipn_length; auto).
      rewrite nth_skipn' in Hr. apply Hs in Hr. rewrite Hr. lia.
    + apply Nat.ltb_ge in L. rewrite app_nth2 in Hr by (rewrite skipn_length; auto).
      destruct (nth_in_or_default (i - length (skipn n (cache s))) (repeat None n) (@None result)) as [Hin|Hd].
      * apply repeat_spec in Hin. congruence.
      * congruence.
  - rewrite app_length, skipn_length, repeat_length. lia.
Qed.

(* ---- one step ------------------------------------------------------------- *)
Lemma step_slot_ok s o :
  slot_ok s ->
  let (s', out) := step derive empty_root s o in
  length (cache s') = length (cache s) /\ slot_ok s' /\
  match out with
  | OResults rs => map rnum rs = Nseq (offset s) (length rs) /\ offset s' = offset s + N.of_nat (length rs)
  | _ => offset s' = offset s
  end.
Proof.
  intros Hs. destruct o as [hs from|p count limit|p bs|p hs|ps|p|]; simpl.
  - destruct (schedule_loop hs from s) as [s' ins] eqn:E.
    apply schedule_loop_frame in E as (Hc & Ho & _). rewrite Hc.
    split; [|split]; auto. eapply slot_ok_same; eauto.
  - pose proof (reserve_slot_ok p count limit s Hs) as H.
    destruct (reserve empty_root p count limit s) as [s' [[req pr] e]]. simpl in H. tauto.
  - pose proof (deliver_slot_ok p bs s Hs) as H.
    destruct (deliver derive p bs s) as [s' [a e]]. simpl in H. tauto.
  - unfold cancel; simpl. split; [|split]; auto.
  - unfold expire; simpl. split; [|split]; auto.
Show.
