(* C18 - the error KIND of deliver and the busy/idle bookkeeping of fetchParts:
   a packet from a peer with nothing pending is answered "no fetches pending"
   (not "stale"), so the fetch loop idles that peer; hence a peer is never more
   than one packet away from being usable again. *)
From Coq Require Import Lia ZifyBool ZifyN ZifyNat.
From VF.C18 Require Import Model ProofsA.
Local Open Scope N_scope.

Section FetchLoop.
Variable derive : list N -> N.
Variable empty_root : N.

(* ---- pending pool frames (no invariant needed) ------------------------------ *)
Lemma pend_get_del q p l : pend_get q (pend_del p l) = if q =? p then None else pend_get q l.
Proof.
  induction l as [|[k v] l IH]; simpl.
  - destruct (q =? p); auto.
  - destruct (k =? p) eqn:Ekp; simpl.
    + rewrite IH. destruct (q =? p) eqn:Eqp; auto.
      replace (k =? q) with false by lia. auto.
    + rewrite IH. destruct (k =? q) eqn:Ekq; auto.
      replace (q =? p) with false by lia. auto.
Qed.

Lemma pend_get_filter_out q ps l :
  pend_get q (filter (fun kv => negb (memN (fst kv) ps)) l) = if memN q ps then None else pend_get q l.
Proof.
  induction l as [|[k v] l IH]; simpl.
  - destruct (memN q ps); auto.
  - destruct (memN k ps) eqn:Ek; simpl.
    + rewrite IH. destruct (k =? q) eqn:Ekq; auto.
      apply N.eqb_eq in Ekq. subst. rewrite Ek. auto.
    + rewrite IH. destruct (k =? q) eqn:Ekq; auto.
      apply N.eqb_eq in Ekq. subst. rewrite Ek. auto.
Qed.

Lemma deliver_loop_pend hs : forall bs s acc s' rest acc' f,
  deliver_loop derive hs bs s acc = (s', rest, acc', f) -> pend s' = pend s.
Proof.
  induction hs as [|h hs IH]; intros bs s acc s' rest acc' f H; simpl in H.
  - injection H as <- _ _ _. auto.
  - destruct bs as [|b bs]; [injection H as <- _ _ _; auto|].
    destruct (index_bad s (slot_index s h)); [injection H as <- _ _ _; auto|].
    destruct (nth _ (cache s) None); [|injection H as <- _ _ _; auto].
    destruct (negb (derive b =? h_root h)); [injection H as <- _ _ _; auto|].
    apply IH in H. simpl in H. auto.
Qed.

Lemma deliver_pend p bs s : pend (fst (deliver derive p bs s)) = pend_del p (pend s) \/
                            (pend_get p (pend s) = None /\ fst (deliver derive p bs s) = s).
Proof.
  unfold deliver. destruct (pend_get p (pend s)) as [hs|] eqn:Eg; [left|right; auto].
  match goal with |- context [deliver_loop derive hs bs ?s1 0] =>
    destruct (deliver_loop derive hs bs s1 0) as [[[s2 rest] acc] f] eqn:E;
    assert (H1 : pend s1 = pend_del p (pend s)) by (destruct bs; reflexivity) end.
  apply deliver_loop_pend in E. simpl. congruence.
Qed.

Lemma reserve_loop_pend p count q : forall s proc space send skip progress,
  pend (rl_state (reserve_loop empty_root p count q s proc space send skip progress)) = pend s.
Proof.
  induction q as [|h q IH]; intros s proc space send skip progress; simpl; auto.
  destruct ((proc <? space)%Z && (N.of_nat (length send) <? count)); simpl; auto.
  destruct (index_bad s (slot_index s h)); simpl; auto.
  destruct (ensure_slot_frame s h (Z.to_nat (slot_index s h))) as (_&_&_&Hp&_).
  destruct (h_root h =? empty_root); [rewrite IH; simpl; auto|].
  destruct (lacks_mem p (h_hash h) _); rewrite IH; auto.
Qed.

(* ---- the error kind ------------------------------------------------------------ *)
(* a delivery from a peer with nothing pending: "no fetches pending" (1), nothing
   accepted, state untouched *)
Lemma deliver_unpending p bs s :
  pend_get p (pend s) = None -> deliver derive p bs s = (s, (0, 1)).
Proof. intros H. unfold deliver. rewrite H. reflexivity. Qed.

(* "stale" (4) is only ever said to a peer that HAD a request, and nothing of a
   stale delivery was accepted *)
Lemma deliver_stale_had_request p bs s :
  snd (snd (deliver derive p bs s)) = 4 ->
  pend_get p (pend s) <> None /\ fst (snd (deliver derive p bs s)) = 0.
Proof.
  unfold deliver. destruct (pend_get p (pend s)) as [hs|]; [|simpl; discriminate].
  match goal with |- context [deliver_loop derive hs bs ?s1 0] =>
    destruct (deliver_loop derive hs bs s1 0) as [[[s2 rest] acc] f] end.
  simpl. destruct (f =? 0); [discriminate|]. destruct (f =? 2); [discriminate|].
  destruct (0 <? acc) eqn:E; [discriminate|]. intros _. split; [discriminate|lia].
Qed.

(* after any packet of p, p has no request in the pending pool *)
Lemma deliver_clears_pending p bs s : pend_get p (pend (fst (deliver derive p bs s))) = None.
Proof.
  destruct (deliver_pend p bs s) as [E|[E1 E2]].
  - rewrite E, pend_get_del, N.eqb_refl. auto.
  - rewrite E2. auto.
Qed.

(* ---- fetchParts' bookkeeping ------------------------------------------------------ *)
Notation f_deliver := (f_deliver derive).
Notation f_reserve := (f_reserve empty_root).

(* a peer is stuck when the loop thinks it is busy while the queue expects nothing
   from it: expiry will never see it, only its own next packet can free it *)
Definition stuck (p : N) (f : floop) : Prop := In p (snd f) /\ pend_get p (pend (fst f)) = None.

(* a packet from a peer with nothing pending idles that peer *)
Lemma packet_idles_unpending_peer p bs f :
  pend_get p (pend (fst f)) = None -> ~ In p (snd (fst (f_deliver p bs f))).
Proof.
  intros H. unfold Model.f_deliver. rewrite (deliver_unpending p bs (fst f) H). simpl.
  intros Hin. apply In_delN in Hin. tauto.
Qed.

(* a peer is never more than one packet away from idle *)
Lemma second_packet_idles p bs1 bs2 f :
  ~ In p (snd (fst (f_deliver p bs2 (fst (f_deliver p bs1 f))))).
Proof.
  apply packet_idles_unpending_peer.
  unfold Model.f_deliver. pose proof (deliver_clears_pending p bs1 (fst f)) as H.
  destruct (deliver derive p bs1 (fst f)) as [s' [a e]]. simpl in *. auto.
Qed.

(* only a stale delivery can leave its own sender stuck, nobody else *)
Lemma f_deliver_stuck p q bs f :
  stuck q (fst (f_deliver p bs f)) -> stuck q f \/ (q = p /\ snd (f_deliver p bs f) = 4).
Proof.
  unfold stuck, Model.f_deliver.
  destruct (deliver_pend p bs (fst f)) as [E|[E1 E2]];
    destruct (deliver derive p bs (fst f)) as [s' [a e]] eqn:Ed; simpl in *.
  - intros [Hin Hg]. rewrite E, pend_get_del in Hg.
    destruct (q =? p) eqn:Eqp.
    + apply N.eqb_eq in Eqp. subst q. destruct (e =? 4) eqn:E4; [right; split; auto; lia|].
      apply In_delN in Hin. tauto.
    + left. split; auto. destruct (e =? 4); auto. apply In_delN in Hin. tauto.
  - subst s'. intros [Hin Hg]. left. split; auto.
    rewrite (deliver_unpending p bs (fst f) E1) in Ed. injection Ed as <- <-. simpl in Hin.
    apply In_delN in Hin. tauto.
Qed.

Lemma In_fold_delN_keys (l : list (N * N)) : forall b x,
  In x (fold_left (fun b kv => delN (fst kv) b) l b) <-> In x b /\ ~ In x (map fst l).
Proof.
  induction l as [|kv l IH]; simpl; intros b x; [tauto|].
  rewrite IH, In_delN. intuition.
Qed.

(* handing out work and expiring requests never make a peer stuck *)
Lemma f_reserve_stuck p q count limit f : stuck q (f_reserve p count limit f) -> stuck q f.
Proof.
  unfold stuck, Model.f_reserve. destruct (memN p (snd f)) eqn:Em; auto.
  unfold reserve. destruct (tqueue (fst f)) eqn:Eq; [simpl; auto|]. rewrite <- Eq.
  destruct (pend_get p (pend (fst f))) eqn:Eg; [simpl; auto|].
  pose proof (reserve_loop_pend p count (tqueue (fst f)) (fst f) 0%Z (result_slots (fst f) limit) [] [] false) as Hp.
  destruct (reserve_loop _ _ _ _ _ _ _ _ _ _) as [s'|s' send skip pr]; simpl in *.
  - rewrite Hp. auto.
  - destruct send as [|x send]; simpl; rewrite Hp; auto.
    intros [[<-|Hin] Hg]; simpl in Hg.
    + rewrite N.eqb_refl in Hg. discriminate.
    + destruct (p =? q); [discriminate|]. auto.
Qed.

Lemma f_expire_stuck q ps f : stuck q (f_expire ps f) -> stuck q f.
Proof.
  unfold stuck, f_expire, expire. simpl. intros [Hin Hg].
  apply In_fold_delN_keys in Hin as [Hin Hn]. split; auto.
  rewrite pend_get_filter_out in Hg. destruct (memN q ps) eqn:Em; auto.
  (* q was named: it is not stuck afterwards unless it had nothing pending before *)
  destruct (pend_get q (pend (fst f))) as [hs|] eqn:Eg; auto. exfalso. apply Hn.
  rewrite map_map. simpl. apply in_map_iff. exists (q, hs). split; auto.
  apply filter_In. split; [apply pend_get_In; auto|]. simpl. auto.
Qed.

End FetchLoop.
