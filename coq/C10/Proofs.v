(* C10 - the whole StateDB: invariant over all operation sequences, flush,
   commit + reopen, roots from content, copy *)
From VF.C10 Require Import Model ProofsMaps ProofsStk ProofsVal ProofsObj ProofsAcc.
From Coq Require Import Lia ZifyBool ZifyN.
Local Open Scope N_scope.

Section Whole.
Context {W : World} {WOK : WorldOk W}.

Record Inv (d : database) (s : statedb) : Prop := {
  inv_a : InvA d (s_acc s); inv_v : InvV (s_val s); inv_s : InvS (s_stk s) }.

(* same content: accounts (record, code, delegations, every storage slot),
   validators, statistics, withdraw queue, staking records, pending relationships *)
Definition state_eq (d1 : database) (s1 : statedb) (d2 : database) (s2 : statedb) : Prop :=
  acc_eq d1 (s_acc s1) d2 (s_acc s2) /\ val_eq (s_val s1) (s_val s2) /\ stk_eq (s_stk s1) (s_stk s2).

Record Flushed (s : statedb) : Prop := {
  fl_a : AFlushed (s_acc s); fl_v : VFlushed (s_val s);
  fl_s : sk_dirty (s_stk s) = []; fl_p : sk_preld (s_stk s) = false }.

Lemma inv_le_state d d' s : db_le d d' -> Inv d s -> Inv d' s.
Proof. intros L [A B C]. constructor; [eapply inv_le; eassumption|exact B|exact C]. Qed.

(* the database is the one thing a StateDB shares, mutably, with its copies and
   with every other StateDB: it only grows, and what a StateDB shows does not
   depend on what others add to it *)
Lemma views_le d d' s : DbOk d -> db_le d d' -> Inv d s -> state_eq d' s d s.
Proof.
  intros D L [A B C]. split; [|split; [repeat split; reflexivity|split; reflexivity]].
  assert (Hobj : forall a o, get_obj (s_acc s) a = Some o ->
            acct_rec d' o = acct_rec d o /\ forall k, get_state d' o k = get_state d o k).
  { intros a o Hg. destruct (get_obj_spec d (s_acc s) a o D A Hg) as ([L1 L2 L3] & _ & _). split.
    - unfold acct_rec. f_equal; [f_equal; f_equal|].
      + rewrite !obj_code_spec. destruct (o_codec o) eqn:Ec; [reflexivity|].
        assert (Hf : o_dirtyCode o = false).
        { destruct (o_dirtyCode o) eqn:E; [|reflexivity]. exfalso. apply (oo_dcode d o L1 E Ec). }
        specialize (L2 Hf). unfold code_res in L2. destruct (code_of d (a_code (o_data o))) eqn:E; [|contradiction].
        rewrite (le_code d d' L _ _ E). reflexivity.
      + rewrite !obj_delegations_spec. destruct (o_dlgs o) eqn:El; [reflexivity|].
        assert (Hf : o_dirtyDlgs o = false).
        { destruct (o_dirtyDlgs o) eqn:E; [|reflexivity]. exfalso. apply (oo_ddlgs d o L1 E El). }
        specialize (L3 Hf). unfold dlgs_res in L3. destruct (dlgs_of d (a_dhash (o_data o))) eqn:E; [|contradiction].
        rewrite (le_dlgs d d' L _ _ E). reflexivity.
    - intros k. unfold get_state, get_committed. rewrite (get_trie_le d d' o L L1). reflexivity. }
  split.
  - intros a. unfold acc_view. destruct (get_obj (s_acc s) a) as [o|] eqn:Hg; [|reflexivity].
    cbn. rewrite (proj1 (Hobj a o Hg)). reflexivity.
  - intros a k. unfold stor_view. destruct (get_obj (s_acc s) a) as [o|] eqn:Hg; [|reflexivity].
    apply (proj2 (Hobj a o Hg)).
Qed.

(* ---- every call preserves the invariant ---------------------------------------------------- *)
Lemma step_inv d s o : DbOk d -> Inv d s -> Inv d (fst (step d s o)).
Proof.
  intros D [A B C]. destruct o; cbn [step fst];
    try (constructor; cbn [with_acc with_val with_stk s_acc s_val s_stk]; [|exact B|exact C]; fail "acc").
  - constructor; cbn; [apply inv_set_balance; assumption|exact B|exact C].
  - constructor; cbn; [apply inv_add_balance; assumption|exact B|exact C].
  - constructor; cbn; [apply inv_set_nonce; assumption|exact B|exact C].
  - constructor; cbn; [apply inv_set_code; assumption|exact B|exact C].
  - destruct (get_obj (s_acc s) a) eqn:Eg; cbn [fst]; [|constructor; assumption].
    constructor; cbn; [apply inv_set_state; try assumption; rewrite Eg; discriminate|exact B|exact C].
  - constructor; cbn; [apply inv_suicide; assumption|exact B|exact C].
  - constructor; cbn; [apply inv_add_balance; [assumption|apply inv_create; assumption]|exact B|exact C].
  - destruct (update_delegator d a v neg amt delete (s_acc s)) eqn:Eu; cbn [fst]; [|constructor; assumption].
    constructor; cbn; [eapply inv_update_delegator; eassumption|exact B|exact C].
  - constructor; cbn; [exact A|apply inv_create_validator; exact B|exact C].
  - constructor; cbn; [exact A|apply inv_update_validator; exact B|exact C].
  - constructor; cbn; [exact A|apply inv_remove_validator; exact B|exact C].
  - constructor; cbn; [exact A|apply inv_stat_change; exact B|exact C].
  - constructor; cbn; [exact A|apply inv_stat_change; exact B|exact C].
  - constructor; cbn; [exact A|apply inv_wq_change; exact B|exact C].
  - constructor; cbn; [exact A|apply inv_wq_change; exact B|exact C].
  - constructor; cbn; [exact A|apply inv_wq_change; exact B|exact C].
  - pose proof (inv_list_validators (s_val s) B) as H. destruct (list_validators (s_val s)) as [v1 l]. cbn [fst] in *.
    constructor; cbn; [exact A|exact H|exact C].
  - constructor; cbn; [exact A|exact B|apply inv_add_srec; exact C].
  - constructor; cbn; [exact A|exact B|apply inv_add_prel; exact C].
  - constructor; cbn; [exact A|exact B|apply inv_reset_stk].
  - constructor; cbn; [apply inv_ac_finalise; assumption|apply inv_vl_finalise; exact B|exact C].
  - constructor; cbn; [apply inv_ac_iroot; assumption|apply vl_iroot_spec; exact B|apply sk_iroot_spec; exact C].
Qed.

Lemma run_inv d l : forall s, DbOk d -> Inv d s -> Inv d (run d s l).
Proof.
  unfold run. induction l as [|o r IH]; intros s D I; cbn [fold_left]; [exact I|].
  apply IH; [exact D|]. apply step_inv; assumption.
Qed.

Lemma iroot_spec d de s : DbOk d -> Inv d s -> Inv d (iroot d de s) /\ Flushed (iroot d de s).
Proof.
  intros D [A B C].
  destruct (inv_ac_iroot d de (s_acc s) D A) as (A1 & A2 & A3).
  destruct (vl_iroot_spec de (s_val s) B) as (B1 & B2).
  destruct (sk_iroot_spec (s_stk s) C) as (C1 & C2 & C3 & _).
  split; constructor; cbn [iroot s_acc s_val s_stk]; try assumption. split; assumption.
Qed.

(* IntermediateRoot on a state that has nothing left to write is the identity on the tries
   and on everything the state shows: it writes the live index, statistics and withdraw
   queue (unconditionally, as the code does) and they are what the trie already holds *)
Lemma iroot_idempotent d de s : Flushed s ->
  roots (iroot d de s) = roots s /\ state_eq d (iroot d de s) d s /\ Flushed (iroot d de s).
Proof.
  intros [[Hj Hp] [Vd Vj Vi Vs Vq] Sd Sp].
  assert (Ea : ac_iroot d de (s_acc s) = s_acc s).
  { unfold ac_iroot, ac_finalise. rewrite Hj. cbn [fold_left ac_pending]. rewrite Hp. cbn [fold_left].
    destruct (s_acc s); cbn in *; subst; reflexivity. }
  assert (Es : sk_iroot (s_stk s) = s_stk s).
  { unfold sk_iroot. rewrite Sd. cbn [fold_left]. rewrite Sp. destruct (s_stk s); cbn in *; subst; reflexivity. }
  assert (Ev : vl_iroot de (s_val s) =
               mkVals (vl_trie (s_val s)) (vl_objs (s_val s)) [] [] (vl_index (s_val s)) (vl_stat (s_val s))
                      (vl_mod (s_val s)) (Some (get_wq (s_val s)))).
  { unfold vl_iroot, vl_finalise. rewrite Vj. cbn [filter fold_left vl_dirty vl_trie vl_objs vl_jd vl_index vl_stat vl_mod vl_wq].
    rewrite Vd. cbn [fold_left vl_trie vl_objs vl_jd vl_index vl_stat vl_mod].
    assert (Eq : get_wq (mkVals (vl_trie (s_val s)) (vl_objs (s_val s)) [] [] (vl_index (s_val s)) (vl_stat (s_val s))
                               (vl_mod (s_val s)) (vl_wq (s_val s))) = get_wq (s_val s)) by reflexivity.
    rewrite Eq. f_equal. destruct (vl_trie (s_val s)); cbn in *. rewrite Vi, Vs, Vq. reflexivity. }
  unfold iroot, roots. cbn [s_acc s_val s_stk]. rewrite Ea, Es, Ev. cbn [vl_trie].
  split; [reflexivity|]. split.
  - split; [split; reflexivity|]. split; [|split; reflexivity]. split; [|split; reflexivity].
    intros a. reflexivity.
  - constructor; cbn [s_acc s_val s_stk]; [split; assumption| |assumption|assumption].
    constructor; cbn [vl_dirty vl_jd vl_trie vl_index vl_stat]; try reflexivity; assumption.
Qed.

(* ---- roots are a function of the content ------------------------------------------------------ *)
Lemma content_only d1 s1 d2 s2 :
  DbOk d1 -> Inv d1 s1 -> Flushed s1 -> DbOk d2 -> Inv d2 s2 -> Flushed s2 ->
  state_eq d1 s1 d2 s2 -> roots s1 = roots s2.
Proof.
  intros D1 [A1 B1 C1] [FA1 FB1 FC1 FD1] D2 [A2 B2 C2] [FA2 FB2 FC2 FD2] (Ea & Ev & Es).
  unfold roots.
  rewrite (acc_content_only d1 (s_acc s1) d2 (s_acc s2) D1 A1 FA1 D2 A2 FA2 Ea).
  rewrite (val_content_only (s_val s1) (s_val s2) B1 B2 FB1 FB2 Ev).
  rewrite (stk_content_only (s_stk s1) (s_stk s2) C1 C2 FC1 FC2 FD1 FD2 Es).
  reflexivity.
Qed.

(* ---- commit and reopen ---------------------------------------------------------------------------- *)
Definition reopened (s : statedb) : statedb :=
  mkSt (new_accs (ac_trie (s_acc s))) (new_vals (vl_trie (s_val s))) (new_stks (sk_trie (s_stk s))).

Lemma enc_idx_inj x y : enc_idx x = enc_idx y -> x = y.
Proof. intros H. pose proof (idx_rt x) as A. rewrite H, idx_rt in A. injection A as ->. reflexivity. Qed.

Lemma open_val_committed d t : sorted (vt_info t) -> vt_index t <> None ->
  open_val (db_add_val (vroot t) t d) (vroot t) = Some t.
Proof.
  intros Hs Hi. unfold open_val. cbn [db_add_val d_val rfind].
  destruct (rheqb (vroot t) (vroot vt_empty)) eqn:E.
  - apply rheqb_eq in E. apply root_val_nil in E; [contradiction|exact Hs].
  - rewrite rheqb_refl. reflexivity.
Qed.

Lemma open_stk_committed d t : sorted (st_recs t) ->
  open_stk (db_add_stk (sroot t) t d) (sroot t) = Some t.
Proof.
  intros Hs. unfold open_stk. cbn [db_add_stk d_stk rfind].
  destruct (rheqb (sroot t) (sroot st_empty)) eqn:E.
  - apply rheqb_eq in E. apply root_stk_nil in E; [rewrite E; reflexivity|exact Hs].
  - rewrite rheqb_refl. reflexivity.
Qed.

Lemma commit_spec d de s : DbOk d -> Inv d s ->
  let d' := fst (commit d de s) in
  let s' := snd (commit d de s) in
  DbOk d' /\ db_le d d' /\ Inv d' s' /\ Flushed s' /\
  new_state d' (fst (fst (roots s'))) (snd (fst (roots s'))) (snd (roots s')) = Some (reopened s') /\
  new_reader d' (snd (fst (roots s'))) = Some (new_vals (vl_trie (s_val s'))) /\
  Inv d' (reopened s') /\ state_eq d' (reopened s') d' s'.
Proof.
  intros D I. unfold commit.
  destruct (iroot_spec d de s D I) as ([A B C] & [FA FB FC FD]).
  set (s1 := iroot d de s) in *.
  destruct (inv_ac_commit d (s_acc s1) D A FA) as (D1 & L1 & A1 & FA1 & Hd1 & T1 & O1).
  destruct (ac_commit d (s_acc s1)) as [d1 a1] eqn:Ec. cbn [fst snd] in *.
  unfold vl_commit, sk_commit.
  destruct (proj1 (proj2 (db_add_top_ok d1)) (vroot (vl_trie (s_val s1))) (vl_trie (s_val s1)) D1) as (D2 & L2).
  set (d2 := db_add_val (vroot (vl_trie (s_val s1))) (vl_trie (s_val s1)) d1) in *.
  destruct (proj2 (proj2 (db_add_top_ok d2)) (sroot (sk_trie (s_stk s1))) (sk_trie (s_stk s1)) D2) as (D3 & L3).
  set (d3 := db_add_stk (sroot (sk_trie (s_stk s1))) (sk_trie (s_stk s1)) d2) in *.
  assert (L13 : db_le d1 d3) by (eapply db_le_trans; eassumption).
  assert (A3 : InvA d3 a1) by (eapply inv_le; eassumption).
  assert (Hcom : ACommitted a1) by (split; assumption).
  cbn [fst snd]. split; [exact D3|]. split; [eapply db_le_trans; eassumption|].
  split; [constructor; cbn [s_acc s_val s_stk]; assumption|].
  split; [constructor; cbn [s_acc s_val s_stk]; assumption|].
  unfold roots, reopened. cbn [fst snd s_acc s_val s_stk].
  assert (Hoa : open_acct d3 (aroot (ac_trie a1)) = Some (ac_trie a1)) by exact O1.
  assert (Hov : open_val d3 (vroot (vl_trie (s_val s1))) = Some (vl_trie (s_val s1))).
  { change (open_val d3) with (open_val d2). apply open_val_committed; [apply (tv_sorted _ (iv_trie _ B))|].
    rewrite (vf_index _ FB). discriminate. }
  assert (Hos : open_stk d3 (sroot (sk_trie (s_stk s1))) = Some (sk_trie (s_stk s1))) by (apply open_stk_committed, (is_trie _ C)).
  destruct (flushed_stk (s_stk s1) C FC FD) as (TS & _ & EP).
  split; [|split; [|split]].
  - unfold new_state. rewrite Hoa, Hov, Hos.
    rewrite (vf_index _ FB), (vf_stat _ FB), idx_rt, stat_rt.
    unfold new_accs, new_vals, new_stks. rewrite (vf_index _ FB), (vf_stat _ FB).
    destruct (st_prel (sk_trie (s_stk s1))) as [l|]; [rewrite prel_rt|]; reflexivity.
  - unfold new_reader. rewrite Hov. rewrite (vf_index _ FB), (vf_stat _ FB), idx_rt, stat_rt.
    unfold new_vals. rewrite (vf_index _ FB), (vf_stat _ FB). reflexivity.
  - constructor; cbn [s_acc s_val s_stk].
    + apply (inv_new_accs d3 a1 D3 A3 Hcom).
    + apply inv_new_vals. apply (iv_trie _ B).
    + apply inv_new_stks. exact TS.
  - split; [|split]; cbn [s_acc s_val s_stk].
    + apply (new_accs_reads d3 a1 D3 A3 Hcom).
    + apply new_vals_reads; assumption.
    + apply new_stks_reads; assumption.
Qed.

(* ---- copy ----------------------------------------------------------------------------------------------- *)
Lemma copy_spec d f s : DbOk d -> Inv d s -> copy_safe f (s_acc s) ->
  let s0 := fst (copy f s) in
  let c := snd (copy f s) in
  Inv d s0 /\ Inv d c /\ state_eq d s0 d s /\ state_eq d c d s /\ roots c = roots s /\
  vl_mod (s_val c) = vl_mod (s_val s).
Proof.
  intros D [A B C] Hs. unfold copy.
  pose proof (vl_copy_spec (s_val s) B) as Hv. destruct (vl_copy (s_val s)) as [v0 v1].
  destruct Hv as (I0 & I1 & E0 & E1 & Hm & Ht).
  destruct (ac_copy_spec d f (s_acc s) D A Hs) as (IA & EA & TA & _).
  cbn [fst snd]. split; [constructor; cbn [s_acc s_val s_stk]; assumption|].
  split; [constructor; cbn [s_acc s_val s_stk]; assumption|].
  split; [|split; [|split]].
  - split; [|split]; cbn [s_acc s_val s_stk]; [|exact E0|split; reflexivity]. split; reflexivity.
  - split; [|split]; cbn [s_acc s_val s_stk]; [exact EA|exact E1|split; reflexivity].
  - unfold roots, sk_copy. cbn [s_acc s_val s_stk]. rewrite TA, Ht. reflexivity.
  - exact Hm.
Qed.
End Whole.
