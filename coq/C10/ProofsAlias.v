(* C10 - the aliasing layer: calls on one StateDB never change what a separated
   StateDB reaches, and a table-driven Copy without shared-mutable entries
   yields a separated StateDB *)
From VF.C10 Require Import Alias.
From Coq Require Import Lia ZifyBool ZifyN.
Local Open Scope N_scope.

(* every reference points to an object *)
Definition closed (h : heap) : Prop := forall l o f t, h l = Some o -> o_fld o f = VRef t -> h t <> None.

Record HeapOk (h : heap) (ra rb : N) : Prop := {
  ok_closed : closed h;
  ok_frozen : frozen_closed h;
  ok_ra : h ra <> None;
  ok_rb : h rb <> None;
  ok_sep : separated h ra rb }.

Lemma reach_trans h a b c : reach h a b -> reach h b c -> reach h a c.
Proof. induction 1; [auto|]. intros Hc. eapply reach_step; eauto. Qed.
Lemma reach_snoc h a y o f t : reach h a y -> h y = Some o -> o_fld o f = VRef t -> reach h a t.
Proof. intros R Hy Hf. eapply reach_trans; [exact R|]. eapply reach_step; [exact Hy|exact Hf|apply reach_refl]. Qed.
Lemma reach_exists h r x : closed h -> h r <> None -> reach h r x -> h x <> None.
Proof. intros C Hr R. induction R; [exact Hr|]. apply IHR. eapply C; eauto. Qed.

Lemma separated_sym h a b : separated h a b -> separated h b a.
Proof. intros S l o Ra Rb. apply S; assumption. Qed.

(* what a heap looks like after one step of the StateDB rooted at r *)
Record StepShape (h : heap) (r : N) (h' : heap) : Prop := {
  ss_keep : forall x o, h x = Some o -> (o_frozen o = true \/ ~ reach h r x) -> h' x = Some o;
  ss_grow : forall x, h x <> None -> h' x <> None;
  ss_new : forall x o', h x = None -> h' x = Some o' ->
      (forall g t, o_fld o' g = VRef t -> reach h r t) /\
      (o_frozen o' = true -> forall g t, o_fld o' g = VRef t -> exists ot, h t = Some ot /\ o_frozen ot = true);
  ss_old : forall x o o', h x = Some o -> h' x = Some o' ->
      o_frozen o' = o_frozen o /\
      forall g t, o_fld o' g = VRef t -> o_fld o g = VRef t \/ (reach h r x /\ (reach h r t \/ (h t = None /\ h' t <> None))) }.

Lemma step_shape h r h' : closed h -> h r <> None -> step h r h' -> StepShape h r h'.
Proof.
  intros C Hr St. destruct St as [l o f v Rl Hl Hfz Hv|l o f n o' Rl Hl Hfz Hn Hst Hfr].
  - constructor.
    + intros x ox Hx [Hf|Hnr]; unfold upd; destruct (N.eqb x l) eqn:E; try exact Hx.
      * assert (x = l) by lia. subst. rewrite Hl in Hx. injection Hx as <-. congruence.
      * assert (x = l) by lia. subst. contradiction.
    + intros x Hx. unfold upd. destruct (N.eqb x l); [discriminate|exact Hx].
    + intros x ox Hx Hx'. unfold upd in Hx'. destruct (N.eqb x l) eqn:E; [|congruence].
      assert (x = l) by lia. subst. congruence.
    + intros x ox ox' Hx Hx'. unfold upd in Hx'. destruct (N.eqb x l) eqn:E.
      * assert (x = l) by lia. subst. rewrite Hl in Hx. injection Hx as <-. injection Hx' as <-. split; [reflexivity|].
        intros g t Hg. cbn in Hg. destruct (N.eqb g f); [|left; exact Hg].
        right. split; [exact Rl|]. left. subst v. exact Hv.
      * rewrite Hx in Hx'. injection Hx' as <-. split; [reflexivity|]. intros g t Hg. left; exact Hg.
  - assert (Hnl : N.eqb n l = false).
    { destruct (N.eqb n l) eqn:E; [|reflexivity]. assert (l = n) by lia. subst. congruence. }
    constructor.
    + intros x ox Hx Hc. unfold upd. destruct (N.eqb x l) eqn:E.
      * assert (x = l) by lia. subst. rewrite Hl in Hx. injection Hx as <-. destruct Hc; [congruence|contradiction].
      * destruct (N.eqb x n) eqn:E2; [|exact Hx]. assert (x = n) by lia. subst. congruence.
    + intros x Hx. unfold upd. destruct (N.eqb x l); [discriminate|]. destruct (N.eqb x n); [discriminate|exact Hx].
    + intros x ox Hx Hx'. unfold upd in Hx'. destruct (N.eqb x l) eqn:E.
      * assert (x = l) by lia. subst. congruence.
      * destruct (N.eqb x n) eqn:E2; [|congruence]. injection Hx' as <-. split.
        -- intros g t Hg. specialize (Hst g). rewrite Hg in Hst. exact Hst.
        -- exact Hfr.
    + intros x ox ox' Hx Hx'. unfold upd in Hx'. destruct (N.eqb x l) eqn:E.
      * assert (x = l) by lia. subst. rewrite Hl in Hx. injection Hx as <-. injection Hx' as <-. split; [reflexivity|].
        intros g t Hg. cbn in Hg. destruct (N.eqb g f); [|left; exact Hg].
        injection Hg as <-. right. split; [exact Rl|]. right. split; [exact Hn|].
        unfold upd. rewrite Hnl, N.eqb_refl. discriminate.
      * destruct (N.eqb x n) eqn:E2; [assert (x = n) by lia; subst; congruence|].
        rewrite Hx in Hx'. injection Hx' as <-. split; [reflexivity|]. intros g t Hg. left; exact Hg.
Qed.

Section Frame.
Variables (h h' : heap) (ra rb : N).
Hypothesis OK : HeapOk h ra rb.
Hypothesis SS : StepShape h ra h'.

(* B does not reach what A may write, nor what A allocates *)
Lemma b_untouched x : reach h rb x -> h' x = h x.
Proof.
  intros Rb. pose proof (reach_exists h rb x (ok_closed _ _ _ OK) (ok_rb _ _ _ OK) Rb) as Hex.
  destruct (h x) as [o|] eqn:Hx; [|contradiction].
  apply (ss_keep _ _ _ SS x o Hx). destruct (o_frozen o) eqn:Hf; [left; reflexivity|right].
  intros Ra. pose proof (ok_sep _ _ _ OK x o Ra Rb Hx). congruence.
Qed.

Lemma b_reach_fwd y x : reach h' y x -> reach h rb y -> reach h rb x.
Proof.
  induction 1 as [|y o f t x Hy Hf R IH]; [auto|]. intros Rb.
  rewrite (b_untouched y Rb) in Hy. apply IH. eapply reach_snoc; eauto.
Qed.
Lemma b_reach_bwd y x : reach h y x -> reach h rb y -> reach h' y x.
Proof.
  induction 1 as [|y o f t x Hy Hf R IH]; [intros; apply reach_refl|]. intros Rb.
  eapply reach_step; [rewrite (b_untouched y Rb); exact Hy|exact Hf|].
  apply IH. eapply reach_snoc; eauto.
Qed.

(* what A reaches afterwards it reached before, or it is new *)
Lemma a_reach_after y x : reach h' y x -> (reach h ra y /\ h y <> None) \/ (h y = None /\ h' y <> None) ->
  (reach h ra x /\ h x <> None) \/ (h x = None /\ h' x <> None).
Proof.
  induction 1 as [|y o' f t x Hy Hf R IH]; [auto|]. intros Hc. apply IH.
  assert (Ht : reach h ra t \/ (h t = None /\ h' t <> None)).
  { destruct Hc as [[Ry Hex]|[Hn Hex']].
    - destruct (h y) as [o|] eqn:Hyo; [|contradiction].
      destruct (ss_old _ _ _ SS y o o' Hyo Hy) as [_ Hfl]. destruct (Hfl f t Hf) as [Hold|[_ Hnew]].
      + left. eapply reach_snoc; eauto.
      + exact Hnew.
    - destruct (ss_new _ _ _ SS y o' Hn Hy) as [Hr _]. left. apply (Hr f t Hf). }
  destruct Ht as [Rt|Hnew]; [left; split; [exact Rt|]|right; exact Hnew].
  apply (reach_exists h ra t (ok_closed _ _ _ OK) (ok_ra _ _ _ OK) Rt).
Qed.

Lemma frame_ok : HeapOk h' ra rb.
Proof.
  destruct OK as [C F Ha Hb S]. constructor.
  - (* closed *)
    intros l o' f t Hl Hf. destruct (h l) as [o|] eqn:Hlo.
    + destruct (ss_old _ _ _ SS l o o' Hlo Hl) as [_ Hfl]. destruct (Hfl f t Hf) as [Hold|[_ [Rt|[_ Hn]]]].
      * apply (ss_grow _ _ _ SS). eapply C; eauto.
      * apply (ss_grow _ _ _ SS). apply (reach_exists h ra t C Ha Rt).
      * exact Hn.
    + destruct (ss_new _ _ _ SS l o' Hlo Hl) as [Hr _]. apply (ss_grow _ _ _ SS).
      apply (reach_exists h ra t C Ha (Hr f t Hf)).
  - (* frozen objects still reference frozen objects *)
    intros l o' f t Hl Hfz Hf. destruct (h l) as [o|] eqn:Hlo.
    + destruct (ss_old _ _ _ SS l o o' Hlo Hl) as [Hsame _]. rewrite Hfz in Hsame. symmetry in Hsame.
      pose proof (ss_keep _ _ _ SS l o Hlo (or_introl Hsame)) as Hk. rewrite Hl in Hk. injection Hk as ->.
      destruct (F l o f t Hlo Hsame Hf) as (ot & Ht & Htf). exists ot. split; [|exact Htf].
      apply (ss_keep _ _ _ SS t ot Ht (or_introl Htf)).
    + destruct (ss_new _ _ _ SS l o' Hlo Hl) as [_ Hfr]. destruct (Hfr Hfz f t Hf) as (ot & Ht & Htf).
      exists ot. split; [|exact Htf]. apply (ss_keep _ _ _ SS t ot Ht (or_introl Htf)).
  - apply (ss_grow _ _ _ SS); exact Ha.
  - apply (ss_grow _ _ _ SS); exact Hb.
  - (* still separated *)
    intros x o' Rax Rbx Hx.
    pose proof (b_reach_fwd rb x Rbx (reach_refl h rb)) as Rb.
    rewrite (b_untouched x Rb) in Hx.
    destruct (a_reach_after ra x Rax (or_introl (conj (reach_refl h ra) Ha))) as [[Ra _]|[Hn _]]; [|congruence].
    apply (S x o' Ra Rb Hx).
Qed.
End Frame.

(* one call on A: B's objects and B's reach are what they were; the heap stays well formed *)
Lemma step_frame h ra rb h' : HeapOk h ra rb -> step h ra h' ->
  HeapOk h' ra rb /\ (forall x, reach h rb x -> h' x = h x) /\ (forall x, reach h' rb x <-> reach h rb x).
Proof.
  intros OK St. pose proof (step_shape h ra h' (ok_closed _ _ _ OK) (ok_ra _ _ _ OK) St) as SS.
  split; [apply (frame_ok h h' ra rb OK SS)|]. split; [apply (b_untouched h h' ra rb OK SS)|].
  intros x. split; intros R.
  - apply (b_reach_fwd h h' ra rb OK SS rb x R (reach_refl h rb)).
  - apply (b_reach_bwd h h' ra rb OK SS rb x R (reach_refl h rb)).
Qed.

Lemma heapok_sym h ra rb : HeapOk h ra rb -> HeapOk h rb ra.
Proof. intros [C F A B S]. constructor; try assumption. apply separated_sym; exact S. Qed.

(* any interleaving of calls keeps the two StateDBs separated *)
Lemma steps_ok ra rb h l h2 : steps ra rb h l h2 -> HeapOk h ra rb -> HeapOk h2 ra rb.
Proof.
  induction 1 as [|h h1 h2 l St _ IH|h h1 h2 l St _ IH]; intros OK; [exact OK| |].
  - apply IH. apply (step_frame h ra rb h1 OK St).
  - apply IH. apply heapok_sym. apply (step_frame h rb ra h1 (heapok_sym _ _ _ OK) St).
Qed.

(* calls on A only: everything B reaches is unchanged, and B reaches the same objects *)
Lemma steps_a_only ra rb h l h2 : steps ra rb h l h2 -> Forall (fun s => s = SideA) l -> HeapOk h ra rb ->
  (forall x, reach h rb x -> h2 x = h x) /\ (forall x, reach h2 rb x <-> reach h rb x).
Proof.
  induction 1 as [h|h h1 h2 l St Sts IH|h h1 h2 l St Sts IH]; intros Hall OK.
  - split; [reflexivity|tauto].
  - inversion Hall as [|? ? _ Hall']; subst.
    destruct (step_frame h ra rb h1 OK St) as (OK1 & K1 & R1).
    destruct (IH Hall' OK1) as (K2 & R2). split.
    + intros x Rx. rewrite (K2 x (proj2 (R1 x) Rx)). apply K1; exact Rx.
    + intros x. rewrite R2. apply R1.
  - inversion Hall as [|? ? Hs _]; discriminate.
Qed.
Lemma steps_b_only ra rb h l h2 : steps ra rb h l h2 -> Forall (fun s => s = SideB) l -> HeapOk h ra rb ->
  (forall x, reach h ra x -> h2 x = h x) /\ (forall x, reach h2 ra x <-> reach h ra x).
Proof.
  induction 1 as [h|h h1 h2 l St Sts IH|h h1 h2 l St Sts IH]; intros Hall OK.
  - split; [reflexivity|tauto].
  - inversion Hall as [|? ? Hs _]; discriminate.
  - inversion Hall as [|? ? _ Hall']; subst.
    destruct (step_frame h rb ra h1 (heapok_sym _ _ _ OK) St) as (OK1 & K1 & R1).
    destruct (IH Hall' (heapok_sym _ _ _ OK1)) as (K2 & R2). split.
    + intros x Rx. rewrite (K2 x (proj2 (R1 x) Rx)). apply K1; exact Rx.
    + intros x. rewrite R2. apply R1.
Qed.

(* ---- Copy ------------------------------------------------------------------------------------ *)
Section Copy.
Variables (tbl : N -> N -> cls) (h : heap) (r : N) (h' : heap) (r' : N) (D : N -> Prop) (rho : N -> N).
Hypothesis CP : is_copy tbl h r h' r' D rho.
Hypothesis C : closed h.
Hypothesis F : frozen_closed h.
Hypothesis Hr : h r <> None.
Hypothesis SF : shared_frozen tbl h D.

Lemma old_reach y x : reach h' y x -> h y <> None -> reach h y x /\ h x <> None.
Proof.
  induction 1 as [|y o f t x Hy Hf R IH]; [intros; split; [apply reach_refl|assumption]|]. intros Hex.
  rewrite (cp_old _ _ _ _ _ _ _ CP y Hex) in Hy.
  assert (Ht : h t <> None) by (eapply C; eauto).
  destruct (IH Ht) as [R' Hx]. split; [eapply reach_step; eauto|exact Hx].
Qed.

(* what the copy reaches is a copied object or an old frozen one *)
Lemma copy_reach y x : reach h' y x ->
  ((exists l, D l /\ y = rho l) \/ (exists o, h y = Some o /\ o_frozen o = true)) ->
  ((exists l, D l /\ x = rho l) \/ (exists o, h x = Some o /\ o_frozen o = true)).
Proof.
  induction 1 as [|y o' f t x Hy Hf R IH]; [auto|]. intros Hc. apply IH.
  destruct Hc as [(l & Dl & ->)|(o & Hyo & Hfz)].
  - destruct (cp_obj _ _ _ _ _ _ _ CP l Dl) as (o & o2 & Hl & Hl' & _ & Hfld).
    rewrite Hl' in Hy. injection Hy as ->. specialize (Hfld f). unfold field_rel in Hfld.
    destruct (tbl (o_ty o) f) eqn:Ec.
    + destruct Hfld as [Hv Hnr]. rewrite Hf in Hv. exfalso. exact (Hnr t (eq_sym Hv)).
    + destruct (o_fld o f) as [n|t0|] eqn:Ev.
      * rewrite Hf in Hfld. discriminate.
      * destruct Hfld as [Dt Hv]. rewrite Hf in Hv. injection Hv as ->. left. exists t0. auto.
      * rewrite Hf in Hfld. discriminate.
    + rewrite Hf in Hfld. discriminate.
    + rewrite Hf in Hfld. right. apply (SF l o f t Dl Hl Ec). symmetry. exact Hfld.
    + rewrite Hf in Hfld. discriminate.
  - assert (Hex : h y <> None) by (rewrite Hyo; discriminate).
    rewrite (cp_old _ _ _ _ _ _ _ CP y Hex), Hyo in Hy. injection Hy as <-.
    right. apply (F y o f t Hyo Hfz Hf).
Qed.

Lemma copy_heap_ok : HeapOk h' r r'.
Proof.
  pose proof (cp_frozen _ _ _ _ _ _ _ CP) as Hfz.
  assert (Hold : forall x, h x <> None -> h' x = h x) by apply (cp_old _ _ _ _ _ _ _ CP).
  assert (Hnew : forall x o', h x = None -> h' x = Some o' -> exists l o, D l /\ x = rho l /\ h l = Some o /\
                    o_ty o' = o_ty o /\ forall f, field_rel D rho (tbl (o_ty o) f) (o_fld o f) (o_fld o' f)).
  { intros x o' Hx Hx'. destruct (cp_dom _ _ _ _ _ _ _ CP x Hx) as (l & Dl & ->); [rewrite Hx'; discriminate|].
    destruct (cp_obj _ _ _ _ _ _ _ CP l Dl) as (o & o2 & Hl & Hl' & Hty & Hfld). rewrite Hl' in Hx'. injection Hx' as ->.
    exists l, o. auto. }
  assert (Hexists : forall l, D l -> h' (rho l) <> None).
  { intros l Dl. destruct (cp_obj _ _ _ _ _ _ _ CP l Dl) as (o & o2 & _ & Hl' & _). rewrite Hl'. discriminate. }
  constructor.
  - intros l o' f t Hl Hf. destruct (h l) as [o|] eqn:Hlo.
    + assert (Hex : h l <> None) by (rewrite Hlo; discriminate). rewrite (Hold l Hex), Hlo in Hl. injection Hl as <-.
      rewrite (Hold t); eapply C; eauto.
    + destruct (Hnew l o' Hlo Hl) as (l0 & o & Dl & -> & Hl0 & _ & Hfld). specialize (Hfld f). unfold field_rel in Hfld.
      destruct (tbl (o_ty o) f) eqn:Ec.
      * destruct Hfld as [Hv Hnr]. rewrite Hf in Hv. exfalso. exact (Hnr t (eq_sym Hv)).
      * destruct (o_fld o f) as [n|t0|] eqn:Ev; try (rewrite Hf in Hfld; discriminate).
        destruct Hfld as [Dt Hv]. rewrite Hf in Hv. injection Hv as ->. apply Hexists; exact Dt.
      * rewrite Hf in Hfld. discriminate.
      * rewrite Hf in Hfld. symmetry in Hfld. rewrite (Hold t); eapply C; eauto.
      * rewrite Hf in Hfld. discriminate.
  - intros l o' f t Hl Hfr Hf. destruct (h l) as [o|] eqn:Hlo.
    + assert (Hex : h l <> None) by (rewrite Hlo; discriminate). rewrite (Hold l Hex), Hlo in Hl. injection Hl as <-.
      destruct (F l o f t Hlo Hfr Hf) as (ot & Ht & Htf). exists ot. split; [|exact Htf].
      rewrite (Hold t); [exact Ht|rewrite Ht; discriminate].
    + destruct (Hnew l o' Hlo Hl) as (l0 & o & Dl & -> & Hl0 & _ & Hfld).
      pose proof (Hfz l0 o o' Dl Hl0 Hl) as Hsame. rewrite Hfr in Hsame. symmetry in Hsame.
      specialize (Hfld f). unfold field_rel in Hfld.
      destruct (tbl (o_ty o) f) eqn:Ec.
      * destruct Hfld as [Hv Hnr]. rewrite Hf in Hv. exfalso. exact (Hnr t (eq_sym Hv)).
      * destruct (o_fld o f) as [n|t0|] eqn:Ev; try (rewrite Hf in Hfld; discriminate).
        destruct Hfld as [Dt Hv]. rewrite Hf in Hv. injection Hv as ->.
        destruct (F l0 o f t0 Hl0 Hsame Ev) as (ot & Ht & Htf).
        destruct (cp_obj _ _ _ _ _ _ _ CP t0 Dt) as (o1 & o2 & Ht0 & Ht0' & _ & _).
        exists o2. split; [exact Ht0'|]. rewrite (Hfz t0 o1 o2 Dt Ht0 Ht0'). congruence.
      * rewrite Hf in Hfld. discriminate.
      * rewrite Hf in Hfld. symmetry in Hfld. destruct (F l0 o f t Hl0 Hsame Hfld) as (ot & Ht & Htf).
        exists ot. split; [|exact Htf]. rewrite (Hold t); [exact Ht|rewrite Ht; discriminate].
      * rewrite Hf in Hfld. discriminate.
  - rewrite (Hold r Hr). exact Hr.
  - destruct (cp_root _ _ _ _ _ _ _ CP) as [Dr ->]. apply Hexists; exact Dr.
  - intros x o' Rx Rx' Hx.
    destruct (old_reach r x Rx Hr) as [_ Hex].
    rewrite (Hold x Hex) in Hx.
    destruct (cp_root _ _ _ _ _ _ _ CP) as [Dr Er'].
    destruct (copy_reach r' x Rx' (or_introl (ex_intro _ r (conj Dr Er')))) as [(l & Dl & ->)|(o & Ho & Hf)].
    + exfalso. apply Hex. apply (cp_fresh _ _ _ _ _ _ _ CP l Dl).
    + congruence.
Qed.
End Copy.

(* a copy made by a table without shared-mutable entries is independent of its original:
   under any interleaving of calls the two stay separated; calls on the copy alone leave
   every object the original reaches as it was, and vice versa *)
Theorem copy_independent tbl h r h' r' D rho :
  is_copy tbl h r h' r' D rho -> closed h -> frozen_closed h -> h r <> None -> shared_frozen tbl h D ->
  HeapOk h' r r' /\
  forall l h2, steps r r' h' l h2 ->
    HeapOk h2 r r' /\
    (Forall (fun s => s = SideB) l -> (forall x, reach h' r x -> h2 x = h' x) /\ (forall x, reach h2 r x <-> reach h' r x)) /\
    (Forall (fun s => s = SideA) l -> (forall x, reach h' r' x -> h2 x = h' x) /\ (forall x, reach h2 r' x <-> reach h' r' x)).
Proof.
  intros CP C F Hr SF. pose proof (copy_heap_ok tbl h r h' r' D rho CP C F Hr SF) as OK.
  split; [exact OK|]. intros l h2 St. split; [apply (steps_ok r r' h' l h2 St OK)|]. split; intros Hall.
  - apply (steps_b_only r r' h' l h2 St Hall OK).
  - apply (steps_a_only r r' h' l h2 St Hall OK).
Qed.

(* and a shared-mutable entry does break independence: the smallest witness *)
Definition w_tbl (ty f : N) : cls := CShared.
Definition w_obj (t : N) (fz : bool) (v : fval) : obj := mkO t fz (fun _ => v).
(* original root 0 -> mutable object 1; the copy's root 2 shares object 1 *)
Definition w_heap : heap := fun x =>
  if N.eqb x 0 then Some (w_obj 0 false (VRef 1)) else
  if N.eqb x 1 then Some (w_obj 1 false (VNum 7)) else
  if N.eqb x 2 then Some (w_obj 0 false (VRef 1)) else None.
Lemma shared_mutable_refuted :
  exists h2, step w_heap 2 h2 /\ reach w_heap 0 1 /\ h2 1 <> w_heap 1.
Proof.
  exists (upd w_heap 1 (set_fld (w_obj 1 false (VNum 7)) 0 (VNum 8))). split; [|split].
  - apply (st_write w_heap 2 1 (w_obj 1 false (VNum 7)) 0 (VNum 8)); [|reflexivity|reflexivity|exact I].
    apply (reach_step w_heap 2 (w_obj 0 false (VRef 1)) 0 1 1); [reflexivity|reflexivity|apply reach_refl].
  - apply (reach_step w_heap 0 (w_obj 0 false (VRef 1)) 0 1 1); [reflexivity|reflexivity|apply reach_refl].
  - intros E. apply (f_equal (fun o => match o with Some x => o_fld x 0 | None => VNil end)) in E. cbn in E. discriminate.
Qed.
