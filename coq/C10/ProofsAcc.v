(* C10 - the account trie part: invariant of the live object cache over the
   trie and the database; every mutator, Finalise, IntermediateRoot, Commit and
   Copy preserve it *)
From VF.C10 Require Import Model ProofsMaps ProofsStk ProofsObj.
From Coq Require Import Lia ZifyBool ZifyN.
Local Open Scope N_scope.

Section Acc.
Context {W : World} {WOK : WorldOk W}.

Definition aclean (s : accs) (a : N) : Prop := smem (ac_jd s) a = false /\ smem (ac_pending s) a = false.
(* committed: neither journalled nor waiting for Commit *)
Definition asettled (s : accs) (a : N) : Prop := smem (ac_jd s) a = false /\ smem (ac_dirty s) a = false.

Record InvA (d : database) (s : accs) : Prop := {
  ia_sorted : sorted (ac_trie s);
  ia_obj : forall a o, find (ac_objs s) a = Some o -> ObjOk d o;
  ia_clean : forall a o, find (ac_objs s) a = Some o -> aclean s a ->
     if o_deleted o then find (ac_trie s) a = None
     else find (ac_trie s) a = Some (o_data o) /\ o_dirty o = [] /\ o_pending o = [];
  ia_pending : forall a, smem (ac_pending s) a = true -> find (ac_objs s) a <> None;
  ia_dirty : forall a, smem (ac_dirty s) a = true -> find (ac_objs s) a <> None;
  ia_jd : forall a, smem (ac_jd s) a = true -> find (ac_objs s) a <> None;
  ia_pd : forall a, smem (ac_pending s) a = true -> smem (ac_dirty s) a = true;
  ia_psorted : ssorted (ac_pending s);
  ia_dsorted : ssorted (ac_dirty s);
  ia_jsorted : ssorted (ac_jd s);
  ia_res_trie : forall a x, find (ac_trie s) a = Some x -> find (ac_objs s) a = None -> Resolved d x;
  ia_code : forall a o, find (ac_objs s) a = Some o -> o_dirtyCode o = false -> code_res d o;
  ia_dlgs : forall a o, find (ac_objs s) a = Some o -> o_dirtyDlgs o = false -> dlgs_res d o;
  ia_settled : forall a o, find (ac_objs s) a = Some o -> o_deleted o = false -> asettled s a ->
     stor_res d o /\ o_dirtyCode o = false /\ o_dirtyDlgs o = false }.

(* what the caller of getStateObject gets *)
Record LiveOk (d : database) (o : sobj) : Prop := {
  lo_obj : ObjOk d o;
  lo_code : o_dirtyCode o = false -> code_res d o;
  lo_dlgs : o_dirtyDlgs o = false -> dlgs_res d o }.

Lemma resolved_new d x : DbOk d -> Resolved d x -> LiveOk d (new_object x).
Proof.
  intros D (A & B & C). constructor.
  - apply objok_new; assumption.
  - intros _. exact B.
  - intros _. exact C.
Qed.

Lemma get_obj_raw_spec d s a : DbOk d -> InvA d s ->
  match get_obj_raw s a with
  | Some o => LiveOk d o /\ (find (ac_objs s) a = Some o \/
                             (find (ac_objs s) a = None /\ exists x, find (ac_trie s) a = Some x /\ o = new_object x))
  | None => find (ac_objs s) a = None /\ find (ac_trie s) a = None
  end.
Proof.
  intros D I. unfold get_obj_raw. destruct (find (ac_objs s) a) as [o|] eqn:Fo.
  - split; [|left; reflexivity]. constructor; [eapply ia_obj|eapply ia_code|eapply ia_dlgs]; eassumption.
  - destruct (find (ac_trie s) a) as [x|] eqn:Ft; [|split; reflexivity].
    rewrite acct_rt. split.
    + apply resolved_new; [exact D|]. eapply ia_res_trie; eassumption.
    + right. split; [reflexivity|]. exists x. split; reflexivity.
Qed.

Lemma get_obj_spec d s a o : DbOk d -> InvA d s -> get_obj s a = Some o ->
  LiveOk d o /\ o_deleted o = false /\
  (find (ac_objs s) a = Some o \/
   (find (ac_objs s) a = None /\ exists x, find (ac_trie s) a = Some x /\ o = new_object x)).
Proof.
  intros D I. unfold get_obj. pose proof (get_obj_raw_spec d s a D I) as H.
  destruct (get_obj_raw s a) as [o'|]; [|discriminate].
  destruct (o_deleted o') eqn:Ed; [discriminate|]. intros [= <-]. destruct H as [H1 H2]. auto.
Qed.

(* two account parts that differ only at address a (object and journal mark) *)
Record frame_at (a : N) (s s' : accs) : Prop := {
  fr_trie : ac_trie s' = ac_trie s;
  fr_pending : ac_pending s' = ac_pending s;
  fr_dirty : ac_dirty s' = ac_dirty s;
  fr_objs : forall x, x <> a -> find (ac_objs s') x = find (ac_objs s) x;
  fr_jd : forall x, x <> a -> smem (ac_jd s') x = smem (ac_jd s) x;
  fr_jsorted : ssorted (ac_jd s') }.

Lemma frame_trans a s1 s2 s3 : frame_at a s1 s2 -> frame_at a s2 s3 -> frame_at a s1 s3.
Proof.
  intros [A B C D E F] [A' B' C' D' E' F']. constructor; try congruence.
  - intros x Hx. rewrite D', D; auto.
  - intros x Hx. rewrite E', E; auto.
Qed.

(* a journalled write at a *)
Lemma inv_touch d s s' a o' : InvA d s -> frame_at a s s' ->
  find (ac_objs s') a = Some o' -> smem (ac_jd s') a = true -> LiveOk d o' -> InvA d s'.
Proof.
  intros [A B C D E F G H I J K L M N0] [T P Di O Jd Js] Ho Hj [L1 L2 L3].
  assert (Hobj : forall x o, find (ac_objs s') x = Some o -> x <> a -> find (ac_objs s) x = Some o).
  { intros x o Hx Hne. rewrite <- O; assumption. }
  assert (Hsome : forall x, find (ac_objs s) x <> None -> find (ac_objs s') x <> None).
  { intros x Hx. destruct (N.eq_dec x a) as [->|Hne]; [rewrite Ho; discriminate|rewrite O; assumption]. }
  constructor; rewrite ?T, ?P, ?Di; try assumption.
  - intros x o Hx. destruct (N.eq_dec x a) as [->|Hne]; [rewrite Ho in Hx; injection Hx as <-; exact L1|].
    eapply B, Hobj; eassumption.
  - intros x o Hx [H1 H2]. destruct (N.eq_dec x a) as [->|Hne]; [rewrite Hj in H1; discriminate|].
    rewrite P in H2. apply (C x o (Hobj x o Hx Hne)). split; [rewrite <- Jd; assumption|exact H2].
  - intros x Hx. apply Hsome, D; exact Hx.
  - intros x Hx. apply Hsome, E; exact Hx.
  - intros x Hx. destruct (N.eq_dec x a) as [->|Hne]; [rewrite Ho; discriminate|].
    apply Hsome, F. rewrite <- Jd; assumption.
  - intros x y Hx Hn. destruct (N.eq_dec x a) as [->|Hne]; [rewrite Ho in Hn; discriminate|].
    apply (K x y Hx). rewrite <- O; assumption.
  - intros x o Hx. destruct (N.eq_dec x a) as [->|Hne]; [rewrite Ho in Hx; injection Hx as <-; exact L2|].
    eapply L, Hobj; eassumption.
  - intros x o Hx. destruct (N.eq_dec x a) as [->|Hne]; [rewrite Ho in Hx; injection Hx as <-; exact L3|].
    eapply M, Hobj; eassumption.
  - intros x o Hx Hd [H1 H2]. destruct (N.eq_dec x a) as [->|Hne]; [rewrite Hj in H1; discriminate|].
    rewrite Di in H2. apply (N0 x o (Hobj x o Hx Hne) Hd). split; [rewrite <- Jd; assumption|exact H2].
Qed.

(* an unjournalled replacement of the object at a by one that shows the same *)
Lemma inv_replace d s s' a o o' : DbOk d -> InvA d s -> frame_at a s s' -> ac_jd s' = ac_jd s ->
  get_obj s a = Some o -> find (ac_objs s') a = Some o' ->
  ObjOk d o' -> same_but_stor o o' -> o_dirty o' = o_dirty o -> o_pending o' = o_pending o ->
  get_trie d o' = get_trie d o -> InvA d s'.
Proof.
  intros Db I [T P Di O Jd Js] Hjd Hget Ho L1 (S1 & S2 & S3 & S4 & S5 & S6 & S7) Hdd Hpp Hg.
  destruct (get_obj_spec d s a o Db I Hget) as ([Lo1 Lo2 Lo3] & Hdel & Hwhere).
  destruct I as [A B C D E F G H I J K L M N0].
  assert (Hobj : forall x y, find (ac_objs s') x = Some y -> x <> a -> find (ac_objs s) x = Some y).
  { intros x y Hx Hne. rewrite <- O; assumption. }
  assert (Hsome : forall x, find (ac_objs s) x <> None -> find (ac_objs s') x <> None).
  { intros x Hx. destruct (N.eq_dec x a) as [->|Hne]; [rewrite Ho; discriminate|rewrite O; assumption]. }
  constructor; rewrite ?T, ?P, ?Di, ?Hjd; try assumption.
  - intros x y Hx. destruct (N.eq_dec x a) as [->|Hne]; [rewrite Ho in Hx; injection Hx as <-; exact L1|].
    eapply B, Hobj; eassumption.
  - intros x y Hx Hc. destruct (N.eq_dec x a) as [->|Hne].
    + rewrite Ho in Hx; injection Hx as <-. rewrite S7, Hdel, S1, Hdd, Hpp.
      assert (Hc' : aclean s a) by (unfold aclean in *; rewrite Hjd, P in Hc; exact Hc).
      destruct Hwhere as [Hw|(Hw & x & Ht & ->)].
      * pose proof (C a o Hw Hc') as Hcl. rewrite Hdel in Hcl. exact Hcl.
      * cbn. auto.
    + apply (C x y (Hobj x y Hx Hne)). unfold aclean in *. rewrite Hjd, P in Hc. exact Hc.
  - intros x Hx. apply Hsome, D; exact Hx.
  - intros x Hx. apply Hsome, E; exact Hx.
  - intros x Hx. apply Hsome, F; exact Hx.
  - intros x y Hx Hn. destruct (N.eq_dec x a) as [->|Hne]; [rewrite Ho in Hn; discriminate|].
    apply (K x y Hx). rewrite <- O; assumption.
  - intros x y Hx. destruct (N.eq_dec x a) as [->|Hne]; [|eapply L, Hobj; eassumption].
    rewrite Ho in Hx; injection Hx as <-. unfold code_res in *. rewrite S4, S1. exact Lo2.
  - intros x y Hx. destruct (N.eq_dec x a) as [->|Hne]; [|eapply M, Hobj; eassumption].
    rewrite Ho in Hx; injection Hx as <-. unfold dlgs_res in *. rewrite S5, S1. exact Lo3.
  - intros x y Hx Hd Hs. destruct (N.eq_dec x a) as [->|Hne].
    + rewrite Ho in Hx; injection Hx as <-. unfold stor_res. rewrite S4, S5, S1, Hg.
      assert (Hs' : asettled s a) by (unfold asettled in *; rewrite Hjd, Di in Hs; exact Hs).
      destruct Hwhere as [Hw|(Hw & x & Ht & ->)].
      * apply (N0 a o Hw Hdel Hs').
      * cbn [new_object o_data o_dirtyCode o_dirtyDlgs]. split; [|split; reflexivity].
        destruct (K a x Ht Hw) as (R1 & _). unfold get_trie. cbn [new_object o_trie o_data].
        destruct (open_stor d (a_root x)); [reflexivity|contradiction].
    + apply (N0 x y (Hobj x y Hx Hne) Hd). unfold asettled in *. rewrite Hjd, Di in Hs. exact Hs.
Qed.

Lemma frame_refl d s a : InvA d s -> frame_at a s s.
Proof. intros I. constructor; auto. apply (ia_jsorted d s I). Qed.

Lemma frame_put_j a s o : ssorted (ac_jd s) -> frame_at a s (put_j s a o).
Proof.
  intros Hs. unfold put_j, ac_journal, ac_set_obj. constructor; cbn; try reflexivity.
  - intros x Hx. rewrite find_ins. destruct (N.eqb x a) eqn:E; [lia|reflexivity].
  - intros x Hx. rewrite smem_sins. destruct (N.eqb x a) eqn:E; [lia|reflexivity].
  - apply ssorted_sins; exact Hs.
Qed.
Lemma put_j_at a s o : find (ac_objs (put_j s a o)) a = Some o /\ smem (ac_jd (put_j s a o)) a = true.
Proof.
  unfold put_j, ac_journal, ac_set_obj; cbn. rewrite find_ins, smem_sins, N.eqb_refl. split; reflexivity.
Qed.
Lemma frame_set_obj a s o : ssorted (ac_jd s) -> frame_at a s (ac_set_obj a o s).
Proof.
  intros Hs. unfold ac_set_obj. constructor; cbn; try reflexivity; try assumption.
  intros x Hx. rewrite find_ins. destruct (N.eqb x a) eqn:E; [lia|reflexivity].
Qed.

Lemma liveok_fresh d : DbOk d -> LiveOk d (new_object empty_acct).
Proof.
  intros D. constructor; [apply objok_fresh; exact D| |]; intros _.
  - unfold code_res, code_of. cbn. rewrite heqb_refl. discriminate.
  - unfold dlgs_res. cbn. discriminate.
Qed.

Lemma get_or_new_spec d s a : DbOk d -> InvA d s ->
  frame_at a s (fst (get_or_new s a)) /\ LiveOk d (snd (get_or_new s a)) /\
  o_deleted (snd (get_or_new s a)) = false /\
  ((get_obj s a = Some (snd (get_or_new s a)) /\ fst (get_or_new s a) = s) \/
   (get_obj s a = None /\ snd (get_or_new s a) = new_object empty_acct /\
    find (ac_objs (fst (get_or_new s a))) a = Some (new_object empty_acct))).
Proof.
  intros D I. unfold get_or_new. destruct (get_obj s a) as [o|] eqn:Eg.
  - destruct (get_obj_spec d s a o D I Eg) as (L & Hd & _). cbn [fst snd].
    split; [apply (frame_refl d); exact I|]. split; [exact L|]. split; [exact Hd|]. left. split; reflexivity.
  - unfold create_object. pose proof (ia_jsorted d s I) as Hs.
    destruct (get_obj_raw s a); cbn [fst snd].
    + split; [apply frame_set_obj; exact Hs|]. split; [apply liveok_fresh; exact D|]. split; [reflexivity|].
      right. split; [reflexivity|]. split; [reflexivity|]. cbn. rewrite find_ins, N.eqb_refl. reflexivity.
    + split; [apply (frame_put_j a s); exact Hs|]. split; [apply liveok_fresh; exact D|]. split; [reflexivity|].
      right. split; [reflexivity|]. split; [reflexivity|]. cbn. rewrite find_ins, N.eqb_refl. reflexivity.
Qed.

(* a journalled write through GetOrNewStateObject *)
Lemma inv_write d s a (f : sobj -> sobj) : DbOk d -> InvA d s ->
  (forall o, LiveOk d o -> LiveOk d (f o)) ->
  InvA d (put_j (fst (get_or_new s a)) a (f (snd (get_or_new s a)))).
Proof.
  intros D I Hf. destruct (get_or_new_spec d s a D I) as (Fr & L & _ & _).
  eapply (inv_touch d s _ a); [exact I| | | |apply Hf; exact L].
  - eapply frame_trans; [exact Fr|]. apply frame_put_j. apply (fr_jsorted _ _ _ Fr).
  - apply put_j_at.
  - apply put_j_at.
Qed.

Lemma liveok_scalar d o x : LiveOk d o -> a_root x = a_root (o_data o) -> a_code x = a_code (o_data o) ->
  a_dhash x = a_dhash (o_data o) -> LiveOk d (set_data x o).
Proof.
  intros [A B C] Hr Hc Hd. constructor.
  - apply objok_set_scalar; assumption.
  - unfold code_res in *. cbn. rewrite Hc. exact B.
  - unfold dlgs_res in *. cbn. rewrite Hd. exact C.
Qed.

Lemma inv_set_balance d s a v : DbOk d -> InvA d s -> InvA d (set_balance a v s).
Proof.
  intros D I. unfold set_balance. pose proof (inv_write d s a (fun o => set_data (with_bal v (o_data o)) o) D I) as H.
  destruct (get_or_new s a) as [s1 o]. apply H. intros o0 L. apply liveok_scalar; [exact L|reflexivity..].
Qed.
Lemma inv_set_nonce d s a v : DbOk d -> InvA d s -> InvA d (set_nonce a v s).
Proof.
  intros D I. unfold set_nonce. pose proof (inv_write d s a (fun o => set_data (with_nonce v (o_data o)) o) D I) as H.
  destruct (get_or_new s a) as [s1 o]. apply H. intros o0 L. apply liveok_scalar; [exact L|reflexivity..].
Qed.

Lemma inv_add_balance d s a v : DbOk d -> InvA d s -> InvA d (add_balance a v s).
Proof.
  intros D I. unfold add_balance.
  pose proof (inv_write d s a (fun o => set_data (with_bal (a_bal (o_data o) + v) (o_data o)) o) D I) as H.
  pose proof (inv_write d s a (fun o => o) D I) as H0.
  destruct (get_or_new_spec d s a D I) as (Fr & L & Hdel & Hc).
  destruct (get_or_new s a) as [s1 o]. cbn [fst snd] in *.
  destruct (N.eqb v 0).
  - destruct (obj_empty o) eqn:Ee.
    + apply H0. auto.
    + (* nothing journalled: the object is only (re)cached *)
      destruct Hc as [(Hg & ->)|(Hg & -> & _)].
      * eapply (inv_replace d s _ a o o D I); try reflexivity; try exact Hg.
        -- apply frame_set_obj. apply (ia_jsorted d s I).
        -- cbn. rewrite find_ins, N.eqb_refl. reflexivity.
        -- apply L.
        -- apply same_but_stor_refl.
      * (* a fresh object is empty *)
        exfalso. unfold obj_empty in Ee. cbn in Ee. rewrite heqb_refl in Ee. discriminate.
  - apply H. intros o0 L0. apply liveok_scalar; [exact L0|reflexivity..].
Qed.

Lemma inv_set_code d s a c : DbOk d -> InvA d s -> InvA d (set_code_op d a c s).
Proof.
  intros D I. unfold set_code_op.
  pose proof (inv_write d s a (fun o => obj_set_code c
      (match o_codec o with
       | Some _ => o
       | None => if heqb (a_code (o_data o)) (h_code []) then o
                 else set_code (hfind (d_code d) (a_code (o_data o))) (o_dirtyCode o) o
       end)) D I) as H.
  destruct (get_or_new s a) as [s1 o]. apply H. intros o0 [L1 L2 L3].
  set (o1 := match o_codec o0 with Some _ => o0 | None => _ end).
  assert (H1 : ObjOk d o1 /\ a_dhash (o_data o1) = a_dhash (o_data o0) /\ o_dirtyDlgs o1 = o_dirtyDlgs o0).
  { unfold o1. destruct (o_codec o0) eqn:Ec; [auto|].
    destruct (heqb (a_code (o_data o0)) (h_code [])); [auto|].
    split; [|split; reflexivity]. apply objok_cache_code; [exact L1|exact Ec|].
    intros c' Hc. apply (db_code d D _ _ Hc). }
  destruct H1 as (O1 & Hd & Hf). constructor.
  - apply objok_obj_set_code; exact O1.
  - cbn. discriminate.
  - unfold dlgs_res in *. cbn. rewrite Hd. intros Hx. apply L3. rewrite <- Hf. exact Hx.
Qed.

Lemma inv_set_state d s a k v : DbOk d -> InvA d s -> get_obj s a <> None -> InvA d (set_state_op d a k v s).
Proof.
  intros D I Hex. unfold set_state_op.
  destruct (get_or_new_spec d s a D I) as (Fr & L & Hdel & Hc).
  destruct (get_or_new s a) as [s1 o]. cbn [fst snd] in *.
  destruct Hc as [(Hg & ->)|(Hg & _)]; [|contradiction].
  destruct (obj_set_state_ok d o k v D (lo_obj d o L)) as (O1 & S1).
  pose proof (obj_set_state_unchanged d o k v D (lo_obj d o L)) as Hu.
  destruct (obj_set_state d o k v) as [o1 ch]. cbn [fst snd] in *.
  destruct S1 as (S1 & S2 & S3 & S4 & S5 & S6 & S7).
  destruct ch.
  - eapply (inv_touch d s _ a o1 I); [apply frame_put_j, (ia_jsorted d s I)|apply put_j_at|apply put_j_at|].
    destruct L as [L1 L2 L3]. constructor; [exact O1| |].
    + unfold code_res in *. rewrite S4, S1. exact L2.
    + unfold dlgs_res in *. rewrite S5, S1. exact L3.
  - destruct (Hu eq_refl) as (U1 & U2 & U3).
    eapply (inv_replace d s _ a o o1 D I); try eassumption; try reflexivity.
    + apply frame_set_obj, (ia_jsorted d s I).
    + cbn. rewrite find_ins, N.eqb_refl. reflexivity.
    + repeat split; assumption.
Qed.

Lemma inv_suicide d s a : DbOk d -> InvA d s -> InvA d (suicide a s).
Proof.
  intros D I. unfold suicide. destruct (get_obj s a) as [o|] eqn:Eg; [|exact I].
  destruct (get_obj_spec d s a o D I Eg) as (L & _ & _).
  eapply (inv_touch d s _ a _ I); [apply frame_put_j, (ia_jsorted d s I)|apply put_j_at|apply put_j_at|].
  pose proof (liveok_scalar d o (with_bal 0 (o_data o)) L eq_refl eq_refl eq_refl) as [L1 L2 L3].
  constructor; [apply objok_set_flags; exact L1|exact L2|exact L3].
Qed.

(* CreateAccount followed by SetNonce (evm.create) *)
Lemma inv_create d s a n : DbOk d -> InvA d s -> InvA d (set_nonce a n (create_account a s)).
Proof.
  intros D I. pose proof (ia_jsorted d s I) as Hs.
  assert (Hca : exists o0, frame_at a s (create_account a s) /\ find (ac_objs (create_account a s)) a = Some o0 /\
                           LiveOk d o0 /\ o_deleted o0 = false).
  { unfold create_account, create_object. destruct (get_obj_raw s a) as [p|].
    - eexists. split; [|split; [cbn; rewrite find_ins, N.eqb_refl; reflexivity|split; [|reflexivity]]].
      + eapply frame_trans; apply frame_set_obj; cbn; exact Hs.
      + apply liveok_scalar; [apply liveok_fresh; exact D|reflexivity..].
    - eexists. split; [apply (frame_put_j a s); exact Hs|].
      split; [cbn; rewrite find_ins, N.eqb_refl; reflexivity|]. split; [apply liveok_fresh; exact D|reflexivity]. }
  destruct Hca as (o0 & Fr & Fo & L0 & Hd0).
  unfold set_nonce.
  assert (Hg : get_or_new (create_account a s) a = (create_account a s, o0)).
  { unfold get_or_new, get_obj, get_obj_raw. rewrite Fo, Hd0. reflexivity. }
  rewrite Hg.
  eapply (inv_touch d s _ a _ I); [|apply put_j_at|apply put_j_at|].
  - eapply frame_trans; [exact Fr|]. apply frame_put_j. apply (fr_jsorted _ _ _ Fr).
  - apply liveok_scalar; [exact L0|reflexivity..].
Qed.

Lemma inv_update_delegator d s a v neg amt de s' : DbOk d -> InvA d s ->
  update_delegator d a v neg amt de s = Some s' -> InvA d s'.
Proof.
  intros D I. unfold update_delegator. destruct (get_obj s a) as [o|] eqn:Eg; [|intros [= <-]; exact I].
  destruct (get_obj_spec d s a o D I Eg) as ([L1 L2 L3] & _ & _).
  destruct (obj_update_delegation_to d v de o) as [o1|] eqn:Eu; [|discriminate].
  intros [= <-].
  destruct (objok_update_delegation_to d v de o o1 D L1 Eu) as (O1 & Hc & Hdc & _ & Hdl).
  eapply (inv_touch d s _ a _ I); [apply frame_put_j, (ia_jsorted d s I)|apply put_j_at|apply put_j_at|].
  apply liveok_scalar; try reflexivity. constructor; [exact O1| |].
  - unfold code_res in *. rewrite Hc, Hdc. exact L2.
  - intros Hf. destruct (Hdl Hf) as [H1 H2]. unfold dlgs_res in *. rewrite H2. apply L3; exact H1.
Qed.

(* ---- Finalise ---------------------------------------------------------------------------- *)
Definition fin_obj (de : bool) (o : sobj) : sobj :=
  if o_suicided o || (de && obj_empty o) then set_flags (o_suicided o) true o else obj_finalise o.

Definition fin_same (s s' : accs) (a : N) : Prop :=
  find (ac_objs s') a = find (ac_objs s) a /\ smem (ac_pending s') a = smem (ac_pending s) a /\
  smem (ac_dirty s') a = smem (ac_dirty s) a.
Definition fin_done (de : bool) (s s' : accs) (a : N) : Prop :=
  match find (ac_objs s) a with
  | Some o => find (ac_objs s') a = Some (fin_obj de o) /\ smem (ac_pending s') a = true /\ smem (ac_dirty s') a = true
  | None => fin_same s s' a
  end.

Lemma fin_acct_one de s a :
  ssorted (ac_pending s) -> ssorted (ac_dirty s) ->
  let s' := fin_acct de s a in
  ac_trie s' = ac_trie s /\ ac_jd s' = ac_jd s /\ ssorted (ac_pending s') /\ ssorted (ac_dirty s') /\
  fin_done de s s' a /\ (forall x, x <> a -> fin_same s s' x).
Proof.
  intros Hp Hd. unfold fin_acct, fin_done, fin_same, fin_obj.
  destruct (find (ac_objs s) a) as [o|] eqn:Fa; cbn [ac_trie ac_jd ac_pending ac_dirty ac_objs].
  - repeat split; try reflexivity; try (apply ssorted_sins; assumption).
    + rewrite find_ins, N.eqb_refl. reflexivity.
    + rewrite smem_sins, N.eqb_refl. reflexivity.
    + rewrite smem_sins, N.eqb_refl. reflexivity.
    + rewrite find_ins. destruct (N.eqb x a) eqn:E; [lia|reflexivity].
    + rewrite smem_sins. destruct (N.eqb x a) eqn:E; [lia|reflexivity].
    + rewrite smem_sins. destruct (N.eqb x a) eqn:E; [lia|reflexivity].
  - rewrite Fa. repeat split; auto.
Qed.

Lemma fin_acct_fold de l : forall s, ssorted l -> ssorted (ac_pending s) -> ssorted (ac_dirty s) ->
  let s' := fold_left (fin_acct de) l s in
  ac_trie s' = ac_trie s /\ ac_jd s' = ac_jd s /\ ssorted (ac_pending s') /\ ssorted (ac_dirty s') /\
  (forall a, smem l a = true -> fin_done de s s' a) /\
  (forall a, smem l a = false -> fin_same s s' a).
Proof.
  induction l as [|x r IH]; intros s Hl Hp Hd; cbn [fold_left].
  - cbn. repeat split; auto; discriminate.
  - inversion Hl as [|? ? Hr Hlb]; subst.
    destruct (fin_acct_one de s x Hp Hd) as (T1 & J1 & P1 & D1 & F1 & O1).
    specialize (IH (fin_acct de s x) Hr P1 D1). cbn zeta in IH.
    destruct IH as (T2 & J2 & P2 & D2 & F2 & O2).
    cbn zeta. split; [congruence|]. split; [congruence|]. split; [exact P2|]. split; [exact D2|]. split.
    + intros a Ha. cbn in Ha. destruct (N.eqb x a) eqn:E.
      * assert (x = a) by lia. subst a.
        assert (Hnr : smem r x = false).
        { destruct (smem r x) eqn:M; [|reflexivity]. apply smem_in in M. apply Hlb in M. lia. }
        destruct (O2 x Hnr) as (A1 & A2 & A3).
        unfold fin_done, fin_same in *. destruct (find (ac_objs s) x); rewrite A1, A2, A3; exact F1.
      * destruct (O1 a ltac:(lia)) as (A1 & A2 & A3).
        specialize (F2 a Ha). unfold fin_done, fin_same in *. rewrite A1 in F2.
        destruct (find (ac_objs s) a) eqn:Fa; [exact F2|].
        destruct F2 as (B1 & B2 & B3). rewrite B1, B2, B3, A2, A3. repeat split; reflexivity.
    + intros a Ha. cbn in Ha. destruct (N.eqb x a) eqn:E; [discriminate|].
      destruct (O1 a ltac:(lia)) as (A1 & A2 & A3). destruct (O2 a Ha) as (B1 & B2 & B3).
      unfold fin_same. rewrite B1, B2, B3. repeat split; assumption.
Qed.

Lemma fin_obj_ok d de o : LiveOk d o ->
  LiveOk d (fin_obj de o) /\ o_data (fin_obj de o) = o_data o /\ o_dirtyCode (fin_obj de o) = o_dirtyCode o /\
  o_dirtyDlgs (fin_obj de o) = o_dirtyDlgs o /\ get_trie d (fin_obj de o) = get_trie d o /\
  (o_deleted o = true -> o_deleted (fin_obj de o) = true).
Proof.
  intros [L1 L2 L3]. unfold fin_obj. destruct (o_suicided o || (de && obj_empty o)).
  - split; [constructor; [apply objok_set_flags; exact L1|exact L2|exact L3]|]. repeat split; reflexivity.
  - destruct (obj_finalise_ok d o L1) as (O1 & (S1 & S2 & S3 & S4 & S5 & S6 & S7) & _ & G & _).
    split; [constructor; [exact O1| |]|].
    + unfold code_res in *. rewrite S4, S1. exact L2.
    + unfold dlgs_res in *. rewrite S5, S1. exact L3.
    + repeat split; try assumption. rewrite S7. auto.
Qed.

Lemma inv_ac_finalise d de s : DbOk d -> InvA d s ->
  InvA d (ac_finalise de s) /\ ac_jd (ac_finalise de s) = [].
Proof.
  intros Db I. split; [|reflexivity]. unfold ac_finalise.
  destruct (fin_acct_fold de (ac_jd s) s (ia_jsorted d s I) (ia_psorted d s I) (ia_dsorted d s I))
    as (T & J & P & Dd & F & O).
  set (s1 := fold_left (fin_acct de) (ac_jd s) s) in *.
  destruct I as [A B C D E F' G H I' J' K L M N0].
  (* what every address looks like afterwards *)
  assert (Hat : forall a,
     (smem (ac_jd s) a = true /\ exists o, find (ac_objs s) a = Some o /\ find (ac_objs s1) a = Some (fin_obj de o) /\
         smem (ac_pending s1) a = true /\ smem (ac_dirty s1) a = true) \/
     (smem (ac_jd s) a = false /\ fin_same s s1 a)).
  { intros a. destruct (smem (ac_jd s) a) eqn:Mj; [left|right; split; [reflexivity|apply O; exact Mj]].
    split; [reflexivity|]. specialize (F a Mj). unfold fin_done in F.
    destruct (find (ac_objs s) a) as [o|] eqn:Fa; [|exfalso; exact (F' a Mj Fa)].
    exists o. split; [reflexivity|exact F]. }
  constructor; cbn [ac_trie ac_objs ac_pending ac_dirty ac_jd]; rewrite ?T; try assumption.
  - intros a o Ho. destruct (Hat a) as [(_ & o0 & F0 & F1 & _)|(_ & (F1 & _))].
    + rewrite F1 in Ho. injection Ho as <-.
      apply (fin_obj_ok d de o0). constructor; [eapply B|eapply L|eapply M]; eassumption.
    + rewrite F1 in Ho. eapply B; eassumption.
  - intros a o Ho [_ Hp]. cbn [ac_pending] in Hp. destruct (Hat a) as [(_ & o0 & _ & _ & F2 & _)|(Mj & (F1 & F2 & _))].
    + rewrite F2 in Hp. discriminate.
    + rewrite F1 in Ho. apply (C a o Ho). split; [exact Mj|rewrite <- F2; exact Hp].
  - intros a Hp. destruct (Hat a) as [(_ & o0 & _ & F1 & _)|(_ & (F1 & F2 & _))].
    + rewrite F1. discriminate.
    + rewrite F1. apply D. rewrite <- F2. exact Hp.
  - intros a Hp. destruct (Hat a) as [(_ & o0 & _ & F1 & _)|(_ & (F1 & _ & F3))].
    + rewrite F1. discriminate.
    + rewrite F1. apply E. rewrite <- F3. exact Hp.
  - discriminate.
  - intros a Hp. destruct (Hat a) as [(_ & o0 & _ & _ & _ & F3)|(_ & (_ & F2 & F3))].
    + exact F3.
    + rewrite F3. apply G. rewrite <- F2. exact Hp.
  - constructor.
  - intros a x Ht Hn. destruct (Hat a) as [(_ & o0 & _ & F1 & _)|(_ & (F1 & _))].
    + rewrite F1 in Hn. discriminate.
    + apply (K a x Ht). rewrite <- F1. exact Hn.
  - intros a o Ho. destruct (Hat a) as [(_ & o0 & F0 & F1 & _)|(_ & (F1 & _))].
    + rewrite F1 in Ho. injection Ho as <-.
      apply (fin_obj_ok d de o0). constructor; [eapply B|eapply L|eapply M]; eassumption.
    + rewrite F1 in Ho. eapply L; eassumption.
  - intros a o Ho. destruct (Hat a) as [(_ & o0 & F0 & F1 & _)|(_ & (F1 & _))].
    + rewrite F1 in Ho. injection Ho as <-.
      apply (fin_obj_ok d de o0). constructor; [eapply B|eapply L|eapply M]; eassumption.
    + rewrite F1 in Ho. eapply M; eassumption.
  - intros a o Ho Hd [_ Hs]. cbn [ac_dirty] in Hs. destruct (Hat a) as [(_ & o0 & _ & _ & _ & F3)|(Mj & (F1 & _ & F3))].
    + rewrite F3 in Hs. discriminate.
    + rewrite F1 in Ho. apply (N0 a o Ho Hd). split; [exact Mj|rewrite <- F3; exact Hs].
Qed.

(* ---- IntermediateRoot --------------------------------------------------------------------- *)
Definition fl_same (s s' : accs) (a : N) : Prop :=
  find (ac_trie s') a = find (ac_trie s) a /\ find (ac_objs s') a = find (ac_objs s) a.
Definition fl_done (d : database) (s s' : accs) (a : N) : Prop :=
  match find (ac_objs s) a with
  | Some o =>
    if o_deleted o then find (ac_trie s') a = None /\ find (ac_objs s') a = Some o
    else find (ac_trie s') a = Some (o_data (obj_update_root d o)) /\ find (ac_objs s') a = Some (obj_update_root d o)
  | None => fl_same s s' a
  end.

Lemma flush_acct_one d s a : sorted (ac_trie s) ->
  let s' := flush_acct d s a in
  ac_pending s' = ac_pending s /\ ac_dirty s' = ac_dirty s /\ ac_jd s' = ac_jd s /\ sorted (ac_trie s') /\
  fl_done d s s' a /\ (forall x, x <> a -> fl_same s s' x).
Proof.
  intros Hs. unfold flush_acct, fl_done, fl_same.
  destruct (find (ac_objs s) a) as [o|] eqn:Fa; [|rewrite Fa; repeat split; auto].
  destruct (o_deleted o); cbn [ac_trie ac_objs ac_pending ac_dirty ac_jd].
  - repeat split; try reflexivity.
    + apply sorted_del; exact Hs.
    + rewrite find_del by exact Hs. rewrite N.eqb_refl. reflexivity.
    + exact Fa.
    + rewrite find_del by exact Hs. destruct (N.eqb x a) eqn:E; [lia|reflexivity].
  - repeat split; try reflexivity.
    + apply sorted_ins; exact Hs.
    + rewrite find_ins, N.eqb_refl. reflexivity.
    + rewrite find_ins, N.eqb_refl. reflexivity.
    + rewrite find_ins. destruct (N.eqb x a) eqn:E; [lia|reflexivity].
    + rewrite find_ins. destruct (N.eqb x a) eqn:E; [lia|reflexivity].
Qed.

Lemma flush_acct_fold d l : forall s, ssorted l -> sorted (ac_trie s) ->
  let s' := fold_left (flush_acct d) l s in
  ac_pending s' = ac_pending s /\ ac_dirty s' = ac_dirty s /\ ac_jd s' = ac_jd s /\ sorted (ac_trie s') /\
  (forall a, smem l a = true -> fl_done d s s' a) /\
  (forall a, smem l a = false -> fl_same s s' a).
Proof.
  induction l as [|x r IH]; intros s Hl Hs; cbn [fold_left].
  - cbn. repeat split; auto; discriminate.
  - inversion Hl as [|? ? Hr Hlb]; subst.
    destruct (flush_acct_one d s x Hs) as (P1 & D1 & J1 & S1 & F1 & O1).
    specialize (IH (flush_acct d s x) Hr S1). cbn zeta in IH.
    destruct IH as (P2 & D2 & J2 & S2 & F2 & O2).
    cbn zeta. split; [congruence|]. split; [congruence|]. split; [congruence|]. split; [exact S2|]. split.
    + intros a Ha. cbn in Ha. destruct (N.eqb x a) eqn:E.
      * assert (x = a) by lia. subst a.
        assert (Hnr : smem r x = false).
        { destruct (smem r x) eqn:M; [|reflexivity]. apply smem_in in M. apply Hlb in M. lia. }
        destruct (O2 x Hnr) as (A1 & A2).
        unfold fl_done, fl_same in *. destruct (find (ac_objs s) x) as [o|]; [destruct (o_deleted o)|];
          rewrite A1, A2; exact F1.
      * destruct (O1 a ltac:(lia)) as (A1 & A2).
        specialize (F2 a Ha). unfold fl_done, fl_same in *. rewrite A2 in F2.
        destruct (find (ac_objs s) a) as [o|] eqn:Fa; [exact F2|].
        destruct F2 as (B1 & B2). rewrite B1, B2, A1. split; reflexivity.
    + intros a Ha. cbn in Ha. destruct (N.eqb x a) eqn:E; [discriminate|].
      destruct (O1 a ltac:(lia)) as (A1 & A2). destruct (O2 a Ha) as (B1 & B2).
      unfold fl_same. rewrite B1, B2. split; assumption.
Qed.

Lemma upd_root_live d o : DbOk d -> LiveOk d o ->
  LiveOk d (obj_update_root d o) /\ o_deleted (obj_update_root d o) = o_deleted o /\
  o_dirty (obj_update_root d o) = [] /\ o_pending (obj_update_root d o) = [] /\
  o_dirtyCode (obj_update_root d o) = o_dirtyCode o /\ o_dirtyDlgs (obj_update_root d o) = o_dirtyDlgs o.
Proof.
  intros D [L1 L2 L3]. destruct (obj_update_root_ok d o D L1) as (O1 & S & Hd & Hp & _).
  destruct S as (S1 & S2 & S3 & S4 & S5 & S6 & S7 & S8 & S9 & S10 & S11).
  split; [constructor; [exact O1| |]|repeat split; assumption].
  - unfold code_res in *. rewrite S8, S3. exact L2.
  - unfold dlgs_res in *. rewrite S9, S5. exact L3.
Qed.

Lemma inv_ac_iroot d de s : DbOk d -> InvA d s ->
  InvA d (ac_iroot d de s) /\ ac_jd (ac_iroot d de s) = [] /\ ac_pending (ac_iroot d de s) = [].
Proof.
  intros Db I0. destruct (inv_ac_finalise d de s Db I0) as (I & Hj).
  unfold ac_iroot. set (s1 := ac_finalise de s) in *.
  destruct (flush_acct_fold d (ac_pending s1) s1 (ia_psorted d s1 I) (ia_sorted d s1 I)) as (P & Dd & J & S & F & O).
  set (s2 := fold_left (flush_acct d) (ac_pending s1) s1) in *.
  split; [|split; [change (ac_jd s2 = []); rewrite J; exact Hj|reflexivity]].
  destruct I as [A B C D E F' G H I' J' K L M N0].
  assert (Hat : forall a,
     (smem (ac_pending s1) a = true /\ exists o, find (ac_objs s1) a = Some o /\
        (if o_deleted o then find (ac_trie s2) a = None /\ find (ac_objs s2) a = Some o
         else find (ac_trie s2) a = Some (o_data (obj_update_root d o)) /\ find (ac_objs s2) a = Some (obj_update_root d o))) \/
     (smem (ac_pending s1) a = false /\ fl_same s1 s2 a)).
  { intros a. destruct (smem (ac_pending s1) a) eqn:Mp; [left|right; split; [reflexivity|apply O; exact Mp]].
    split; [reflexivity|]. specialize (F a Mp). unfold fl_done in F.
    destruct (find (ac_objs s1) a) as [o|] eqn:Fa; [|exfalso; exact (D a Mp Fa)].
    exists o. split; [reflexivity|exact F]. }
  assert (Hlive : forall a o, find (ac_objs s1) a = Some o -> LiveOk d o).
  { intros a o Ho. constructor; [eapply B|eapply L|eapply M]; eassumption. }
  constructor; cbn [ac_trie ac_objs ac_pending ac_dirty ac_jd]; rewrite ?Dd, ?J; try assumption.
  - intros a o Ho. destruct (Hat a) as [(_ & o0 & F0 & F1)|(_ & (_ & F1))].
    + destruct (o_deleted o0); destruct F1 as (_ & F1); rewrite F1 in Ho; injection Ho as <-.
      * eapply B; exact F0.
      * apply (upd_root_live d o0 Db (Hlive a o0 F0)).
    + rewrite F1 in Ho. eapply B; exact Ho.
  - intros a o Ho _. destruct (Hat a) as [(_ & o0 & F0 & F1)|(Mp & (F1 & F2))].
    + destruct (o_deleted o0) eqn:Ed; destruct F1 as (F1 & F2); rewrite F2 in Ho; injection Ho as <-.
      * rewrite Ed. exact F1.
      * destruct (upd_root_live d o0 Db (Hlive a o0 F0)) as (_ & Hd & Hdd & Hpp & _).
        rewrite Hd, Ed. auto.
    + rewrite F2 in Ho. rewrite F1. apply (C a o Ho). split; [rewrite Hj; reflexivity|exact Mp].
  - discriminate.
  - intros a Hp. destruct (Hat a) as [(_ & o0 & F0 & F1)|(_ & (_ & F1))].
    + destruct (o_deleted o0); destruct F1 as (_ & F1); rewrite F1; discriminate.
    + rewrite F1. apply E. exact Hp.
  - intros a Hp. rewrite Hj in Hp. discriminate.
  - discriminate.
  - intros a x Ht Hn. destruct (Hat a) as [(_ & o0 & F0 & F1)|(_ & (F1 & F2))].
    + destruct (o_deleted o0); destruct F1 as (_ & F1); rewrite F1 in Hn; discriminate.
    + rewrite F1 in Ht. rewrite F2 in Hn. apply (K a x Ht Hn).
  - intros a o Ho. destruct (Hat a) as [(_ & o0 & F0 & F1)|(_ & (_ & F1))].
    + destruct (o_deleted o0); destruct F1 as (_ & F1); rewrite F1 in Ho; injection Ho as <-.
      * eapply L; exact F0.
      * apply (upd_root_live d o0 Db (Hlive a o0 F0)).
    + rewrite F1 in Ho. eapply L; exact Ho.
  - intros a o Ho. destruct (Hat a) as [(_ & o0 & F0 & F1)|(_ & (_ & F1))].
    + destruct (o_deleted o0); destruct F1 as (_ & F1); rewrite F1 in Ho; injection Ho as <-.
      * eapply M; exact F0.
      * apply (upd_root_live d o0 Db (Hlive a o0 F0)).
    + rewrite F1 in Ho. eapply M; exact Ho.
  - intros a o Ho Hd [_ Hs]. cbn [ac_dirty] in Hs. rewrite ?Dd in Hs.
    destruct (Hat a) as [(Mp & _)|(Mp & (_ & F1))].
    + apply G in Mp. rewrite Mp in Hs. discriminate.
    + rewrite F1 in Ho. apply (N0 a o Ho Hd). split; [rewrite Hj; reflexivity|exact Hs].
Qed.

(* ---- Commit ------------------------------------------------------------------------------------ *)
Lemma resolved_le d d' x : db_le d d' -> Resolved d x -> Resolved d' x.
Proof.
  intros L (A & B & C). repeat split.
  - destruct (open_stor d (a_root x)) eqn:E; [|contradiction]. rewrite (le_stor d d' L _ _ E). discriminate.
  - destruct (code_of d (a_code x)) eqn:E; [|contradiction]. rewrite (le_code d d' L _ _ E). discriminate.
  - destruct (dlgs_of d (a_dhash x)) eqn:E; [|contradiction]. rewrite (le_dlgs d d' L _ _ E). discriminate.
Qed.

Lemma inv_le d d' s : db_le d d' -> InvA d s -> InvA d' s.
Proof.
  intros Le [A B C D E F G H I J K L M N0]. constructor; try assumption.
  - intros a o Ho. eapply objok_le; [exact Le|eapply B; exact Ho].
  - intros a x Ht Hn. eapply resolved_le; [exact Le|eapply K; eassumption].
  - intros a o Ho Hf. specialize (L a o Ho Hf). unfold code_res in *.
    destruct (code_of d (a_code (o_data o))) eqn:Ec; [|contradiction]. rewrite (le_code d d' Le _ _ Ec). discriminate.
  - intros a o Ho Hf. specialize (M a o Ho Hf). unfold dlgs_res in *.
    destruct (dlgs_of d (a_dhash (o_data o))) eqn:Ec; [|contradiction]. rewrite (le_dlgs d d' Le _ _ Ec). discriminate.
  - intros a o Ho Hd Hs. destruct (N0 a o Ho Hd Hs) as (R & X & Y). split; [|split; assumption].
    unfold stor_res in *. rewrite (get_trie_le d d' o Le (B a o Ho)). apply (le_stor d d' Le). exact R.
Qed.

Lemma commit_acct_eq d s a :
  commit_acct (d, s) a =
  match find (ac_objs s) a with
  | None => (d, s)
  | Some o => if o_deleted o then (d, s)
              else (fst (commit_obj d o), ac_set_obj a (snd (commit_obj d o)) s)
  end.
Proof.
  unfold commit_acct, commit_obj. destruct (find (ac_objs s) a) as [o|]; [|reflexivity].
  destruct (o_deleted o); [reflexivity|].
  destruct (match o_codec o with
            | Some c => if o_dirtyCode o then (db_add_code (a_code (o_data o)) c d, set_code (Some c) false o) else (d, o)
            | None => (d, o) end) as [d1 o1].
  destruct (if o_dirtyDlgs o1 then _ else (d1, o1)) as [d2 o2]. reflexivity.
Qed.

(* a flushed account part: nothing journalled, nothing pending *)
Definition AFlushed (s : accs) : Prop := ac_jd s = [] /\ ac_pending s = [].

(* the object at a has been written out *)
Definition committed_at (d : database) (s : accs) (a : N) : Prop :=
  forall o, find (ac_objs s) a = Some o -> o_deleted o = false ->
            stor_res d o /\ o_dirtyCode o = false /\ o_dirtyDlgs o = false.

Lemma commit_acct_one d s a : DbOk d -> InvA d s -> AFlushed s ->
  let d' := fst (commit_acct (d, s) a) in
  let s' := snd (commit_acct (d, s) a) in
  DbOk d' /\ db_le d d' /\ InvA d' s' /\ AFlushed s' /\ ac_trie s' = ac_trie s /\ ac_dirty s' = ac_dirty s /\
  committed_at d' s' a /\ (forall x, x <> a -> find (ac_objs s') x = find (ac_objs s) x).
Proof.
  intros D I [Hj Hp]. rewrite commit_acct_eq.
  assert (Hnone : DbOk d /\ db_le d d /\ InvA d s /\ AFlushed s /\ ac_trie s = ac_trie s /\ ac_dirty s = ac_dirty s).
  { split; [exact D|]. split; [apply db_le_refl|]. split; [exact I|]. split; [split; assumption|]. split; reflexivity. }
  destruct (find (ac_objs s) a) as [o|] eqn:Fa; cbn zeta.
  2:{ cbn [fst snd]. destruct Hnone as (A & B & C & E & F & G).
      split; [exact A|]. split; [exact B|]. split; [exact C|]. split; [exact E|]. split; [exact F|]. split; [exact G|].
      split; [|reflexivity]. intros o Ho. rewrite Fa in Ho. discriminate. }
  destruct (o_deleted o) eqn:Ed; cbn [fst snd].
  { destruct Hnone as (A & B & C & E & F & G).
    split; [exact A|]. split; [exact B|]. split; [exact C|]. split; [exact E|]. split; [exact F|]. split; [exact G|].
    split; [|reflexivity]. intros o' Ho Hd. rewrite Fa in Ho. injection Ho as <-. rewrite Ed in Hd. discriminate. }
  assert (Hcl : aclean s a) by (split; [rewrite Hj|rewrite Hp]; reflexivity).
  pose proof (ia_clean d s I a o Fa Hcl) as Hc. rewrite Ed in Hc. destruct Hc as (Ht & Hdd & Hpp).
  pose proof (commit_obj_ok d o D (ia_obj d s I a o Fa) Hdd Hpp (ia_code d s I a o Fa) (ia_dlgs d s I a o Fa)) as H.
  destruct (commit_obj d o) as [d' o4]. cbn [fst snd].
  destruct H as (D' & Le & O4 & Hdata & Hdel & Hd4 & Hp4 & Rs & Rc & Rl & Fc & Fl).
  pose proof (inv_le d d' s Le I) as I'.
  split; [exact D'|]. split; [exact Le|].
  split; [|split; [split; assumption|split; [reflexivity|split; [reflexivity|split]]]].
  - destruct I' as [A B C E F G H J K L M N0 P Q].
    constructor; cbn [ac_set_obj ac_trie ac_objs ac_pending ac_dirty ac_jd]; try assumption.
    + intros x y. rewrite find_ins. destruct (N.eqb x a); [intros [= <-]; exact O4|apply B].
    + intros x y. rewrite find_ins. destruct (N.eqb x a) eqn:E1.
      * assert (x = a) by lia. subst x. intros [= <-] _. rewrite Hdel, Ed, Hdata. auto.
      * apply C.
    + intros x Hx. rewrite find_ins. destruct (N.eqb x a); [discriminate|apply E; exact Hx].
    + intros x Hx. rewrite find_ins. destruct (N.eqb x a); [discriminate|apply F; exact Hx].
    + intros x Hx. rewrite find_ins. destruct (N.eqb x a); [discriminate|apply G; exact Hx].
    + intros x y Hx. rewrite find_ins. destruct (N.eqb x a); [discriminate|apply M; exact Hx].
    + intros x y. rewrite find_ins. destruct (N.eqb x a); [intros [= <-] _; exact Rc|apply N0].
    + intros x y. rewrite find_ins. destruct (N.eqb x a); [intros [= <-] _; exact Rl|apply P].
    + intros x y. rewrite find_ins. destruct (N.eqb x a); [intros [= <-] _ _; auto|apply Q].
  - intros o' Ho _. cbn in Ho. rewrite find_ins, N.eqb_refl in Ho. injection Ho as <-. auto.
  - intros x Hx. cbn. rewrite find_ins. destruct (N.eqb x a) eqn:E; [lia|reflexivity].
Qed.

Lemma committed_le d d' s a : db_le d d' -> InvA d s -> committed_at d s a -> committed_at d' s a.
Proof.
  intros Le I H o Ho Hd. destruct (H o Ho Hd) as (R & X & Y). split; [|split; assumption].
  unfold stor_res in *. rewrite (get_trie_le d d' o Le (ia_obj d s I a o Ho)). apply (le_stor d d' Le). exact R.
Qed.

Lemma commit_acct_fold l : forall d s, ssorted l -> DbOk d -> InvA d s -> AFlushed s ->
  let d' := fst (fold_left commit_acct l (d, s)) in
  let s' := snd (fold_left commit_acct l (d, s)) in
  DbOk d' /\ db_le d d' /\ InvA d' s' /\ AFlushed s' /\ ac_trie s' = ac_trie s /\ ac_dirty s' = ac_dirty s /\
  (forall a, smem l a = true -> committed_at d' s' a) /\
  (forall a, smem l a = false -> find (ac_objs s') a = find (ac_objs s) a).
Proof.
  induction l as [|x r IH]; intros d s Hl D I Fl; cbn [fold_left].
  - cbn [fst snd]. split; [exact D|]. split; [apply db_le_refl|]. split; [exact I|]. split; [exact Fl|].
    split; [reflexivity|]. split; [reflexivity|]. split; [discriminate|reflexivity].
  - inversion Hl as [|? ? Hr Hlb]; subst.
    destruct (commit_acct_one d s x D I Fl) as (D1 & L1 & I1 & F1 & T1 & Dd1 & C1 & O1).
    destruct (commit_acct (d, s) x) as [d1 s1] eqn:E1. cbn [fst snd] in *.
    specialize (IH d1 s1 Hr D1 I1 F1). cbn zeta in IH.
    destruct IH as (D2 & L2 & I2 & F2 & T2 & Dd2 & C2 & O2).
    split; [exact D2|]. split; [eapply db_le_trans; eassumption|]. split; [exact I2|]. split; [exact F2|].
    split; [congruence|]. split; [congruence|]. split.
    + intros a Ha. cbn in Ha. destruct (N.eqb x a) eqn:E.
      * assert (x = a) by lia. subst a.
        assert (Hnr : smem r x = false).
        { destruct (smem r x) eqn:M; [|reflexivity]. apply smem_in in M. apply Hlb in M. lia. }
        intros o Ho Hd. rewrite (O2 x Hnr) in Ho.
        destruct (C1 o Ho Hd) as (R & X & Y). split; [|split; assumption].
        unfold stor_res in *. rewrite (get_trie_le d1 _ o L2 (ia_obj d1 s1 I1 x o Ho)). apply (le_stor d1 _ L2). exact R.
      * apply C2. exact Ha.
    + intros a Ha. cbn in Ha. destruct (N.eqb x a) eqn:E; [discriminate|].
      rewrite (O2 a Ha). apply O1. lia.
Qed.

Lemma inv_ac_commit d s : DbOk d -> InvA d s -> AFlushed s ->
  let d' := fst (ac_commit d s) in
  let s' := snd (ac_commit d s) in
  DbOk d' /\ db_le d d' /\ InvA d' s' /\ AFlushed s' /\ ac_dirty s' = [] /\ ac_trie s' = ac_trie s /\
  open_acct d' (aroot (ac_trie s')) = Some (ac_trie s').
Proof.
  intros D I Fl. unfold ac_commit.
  destruct (commit_acct_fold (ac_dirty s) d s (ia_dsorted d s I) D I Fl) as (D1 & L1 & I1 & F1 & T1 & Dd1 & C1 & O1).
  destruct (fold_left commit_acct (ac_dirty s) (d, s)) as [d1 s1]. cbn [fst snd] in *.
  destruct (proj1 (db_add_top_ok d1) (aroot (ac_trie s1)) (ac_trie s1) D1) as (D2 & L2).
  split; [exact D2|]. split; [eapply db_le_trans; eassumption|].
  split; [|split; [exact F1|split; [reflexivity|split; [exact T1|]]]].
  - apply (inv_le d1 _ _ L2).
    destruct F1 as [Hj Hp].
    destruct I1 as [A B C E F G H J K L M N0 P Q].
    constructor; cbn [ac_trie ac_objs ac_pending ac_dirty ac_jd]; try assumption.
    + discriminate.
    + intros a Ha. rewrite Hp in Ha. discriminate.
    + constructor.
    + intros a o Ho Hd _. destruct (smem (ac_dirty s) a) eqn:Md.
      * apply (C1 a Md o Ho Hd).
      * apply (Q a o Ho Hd). split; [rewrite Hj; reflexivity|rewrite Dd1; exact Md].
  - unfold open_acct. cbn [db_add_acct d_acct rfind ac_trie].
    destruct (rheqb (aroot (ac_trie s1)) (aroot [])) eqn:E.
    + apply rheqb_eq in E. apply root_acct_nil in E; [|apply (ia_sorted d1 s1 I1)].
      rewrite E. reflexivity.
    + rewrite rheqb_refl. reflexivity.
Qed.

(* ---- what the account part shows --------------------------------------------------------------- *)
Definition acct_rec (d : database) (o : sobj) :=
  (a_nonce (o_data o), a_bal (o_data o), obj_code d o, a_dbal (o_data o), obj_delegations d o).
Definition acc_view (d : database) (s : accs) (a : N) := option_map (acct_rec d) (get_obj s a).
Definition stor_view (d : database) (s : accs) (a k : N) : N :=
  match get_obj s a with Some o => get_state d o k | None => 0 end.
(* same content: every account shows the same record and the same storage *)
Definition acc_eq (d1 : database) (s1 : accs) (d2 : database) (s2 : accs) : Prop :=
  (forall a, acc_view d1 s1 a = acc_view d2 s2 a) /\ (forall a k, stor_view d1 s1 a k = stor_view d2 s2 a k).

Lemma flushed_trie_get d s a : DbOk d -> InvA d s -> AFlushed s ->
  find (ac_trie s) a = option_map (fun o => o_data o) (get_obj s a).
Proof.
  intros D I [Hj Hp]. unfold get_obj, get_obj_raw.
  destruct (find (ac_objs s) a) as [o|] eqn:Fo.
  - assert (Hc : aclean s a) by (split; [rewrite Hj|rewrite Hp]; reflexivity).
    pose proof (ia_clean d s I a o Fo Hc) as H. destruct (o_deleted o); [exact H|apply H].
  - destruct (find (ac_trie s) a) as [x|]; [|reflexivity]. rewrite acct_rt. reflexivity.
Qed.

(* a live object of a flushed state is settled and its hashes are resolvable *)
Lemma flushed_live d s a o : DbOk d -> InvA d s -> AFlushed s -> get_obj s a = Some o ->
  ObjOk d o /\ o_dirty o = [] /\ o_pending o = [] /\
  (o_codec o = None -> code_res d o) /\ (o_dlgs o = None -> dlgs_res d o).
Proof.
  intros D I [Hj Hp] Hg. destruct (get_obj_spec d s a o D I Hg) as ([L1 L2 L3] & Hdel & Hw).
  split; [exact L1|].
  assert (Hcode : o_codec o = None -> code_res d o).
  { intros Hc. apply L2. destruct (o_dirtyCode o) eqn:E; [|reflexivity]. exfalso. apply (oo_dcode d o L1 E Hc). }
  assert (Hdl : o_dlgs o = None -> dlgs_res d o).
  { intros Hc. apply L3. destruct (o_dirtyDlgs o) eqn:E; [|reflexivity]. exfalso. apply (oo_ddlgs d o L1 E Hc). }
  destruct Hw as [Hw|(_ & x & _ & ->)].
  - assert (Hc : aclean s a) by (split; [rewrite Hj|rewrite Hp]; reflexivity).
    pose proof (ia_clean d s I a o Hw Hc) as H. rewrite Hdel in H. destruct H as (_ & H1 & H2). auto.
  - cbn. auto.
Qed.

Lemma nz_slot_ext (t1 t2 : list (N * N)) k : nz t1 -> nz t2 -> slot t1 k = slot t2 k -> find t1 k = find t2 k.
Proof.
  intros N1 N2. unfold slot. destruct (find t1 k) as [v1|] eqn:E1, (find t2 k) as [v2|] eqn:E2; intros H.
  - subst. reflexivity.
  - subst. exfalso. exact (N1 k 0 E1 eq_refl).
  - subst. exfalso. exact (N2 k 0 E2 eq_refl).
  - reflexivity.
Qed.

(* the account record in the trie is a function of what the object shows *)
Lemma live_data_determined d1 s1 a o1 d2 s2 o2 :
  DbOk d1 -> InvA d1 s1 -> AFlushed s1 -> get_obj s1 a = Some o1 ->
  DbOk d2 -> InvA d2 s2 -> AFlushed s2 -> get_obj s2 a = Some o2 ->
  acct_rec d1 o1 = acct_rec d2 o2 -> (forall k, get_state d1 o1 k = get_state d2 o2 k) ->
  o_data o1 = o_data o2.
Proof.
  intros D1 I1 F1 G1 D2 I2 F2 G2 Hrec Hst.
  destruct (flushed_live d1 s1 a o1 D1 I1 F1 G1) as (O1 & Hd1 & Hp1 & Hc1 & Hl1).
  destruct (flushed_live d2 s2 a o2 D2 I2 F2 G2) as (O2 & Hd2 & Hp2 & Hc2 & Hl2).
  unfold acct_rec in Hrec. injection Hrec as Hn Hb Hc Hdb Hl.
  pose proof (obj_code_hash d1 o1 D1 O1 Hc1) as C1. pose proof (obj_code_hash d2 o2 D2 O2 Hc2) as C2.
  destruct (obj_dlgs_hash d1 o1 D1 O1 Hl1) as (l1 & E1 & H1). destruct (obj_dlgs_hash d2 o2 D2 O2 Hl2) as (l2 & E2 & H2).
  rewrite E1, E2 in Hl. injection Hl as ->.
  assert (Hroot : a_root (o_data o1) = a_root (o_data o2)).
  { rewrite (oo_root d1 o1 O1), (oo_root d2 o2 O2). f_equal.
    apply sorted_ext; [apply (oo_sorted d1 o1 O1)|apply (oo_sorted d2 o2 O2)|].
    intros k. apply nz_slot_ext; [apply (oo_nz d1 o1 O1)|apply (oo_nz d2 o2 O2)|].
    rewrite <- (settled_reads d1 o1 k O1 Hd1 Hp1), <- (settled_reads d2 o2 k O2 Hd2 Hp2). apply Hst. }
  destruct (o_data o1) as [n1 b1 r1 c1 db1 dh1], (o_data o2) as [n2 b2 r2 c2 db2 dh2]. cbn in *.
  subst. rewrite Hc. reflexivity.
Qed.

(* roots depend on content only: account trie *)
Lemma acc_content_only d1 s1 d2 s2 :
  DbOk d1 -> InvA d1 s1 -> AFlushed s1 -> DbOk d2 -> InvA d2 s2 -> AFlushed s2 ->
  acc_eq d1 s1 d2 s2 -> ac_trie s1 = ac_trie s2.
Proof.
  intros D1 I1 F1 D2 I2 F2 [Hv Hs].
  apply sorted_ext; [apply (ia_sorted d1 s1 I1)|apply (ia_sorted d2 s2 I2)|].
  intros a. rewrite (flushed_trie_get d1 s1 a D1 I1 F1), (flushed_trie_get d2 s2 a D2 I2 F2).
  specialize (Hv a). specialize (Hs a). unfold acc_view, stor_view in *.
  destruct (get_obj s1 a) as [o1|] eqn:G1, (get_obj s2 a) as [o2|] eqn:G2; cbn [option_map] in *; try discriminate; [|reflexivity].
  f_equal. assert (Hr : acct_rec d1 o1 = acct_rec d2 o2) by (injection Hv as E1 E2 E3 E4 E5; unfold acct_rec; rewrite E1, E2, E3, E4, E5; reflexivity).
  eapply (live_data_determined d1 s1 a o1 d2 s2 o2); eassumption.
Qed.

(* ---- reopening: the account part of state.New ------------------------------------------------------- *)
Definition new_accs (t : list (N * acct)) : accs := mkAccs t [] [] [] [].

(* a committed account part: flushed and nothing left to write *)
Definition ACommitted (s : accs) : Prop := AFlushed s /\ ac_dirty s = [].

Lemma committed_resolved d s a x : DbOk d -> InvA d s -> ACommitted s -> find (ac_trie s) a = Some x -> Resolved d x.
Proof.
  intros D I [[Hj Hp] Hd] Ht. destruct (find (ac_objs s) a) as [o|] eqn:Fo; [|eapply ia_res_trie; eassumption].
  assert (Hc : aclean s a) by (split; [rewrite Hj|rewrite Hp]; reflexivity).
  assert (Hs : asettled s a) by (split; [rewrite Hj|rewrite Hd]; reflexivity).
  pose proof (ia_clean d s I a o Fo Hc) as H. destruct (o_deleted o) eqn:Ed; [rewrite H in Ht; discriminate|].
  destruct H as (H & _ & _). rewrite H in Ht. injection Ht as <-.
  destruct (ia_settled d s I a o Fo Ed Hs) as (R & Fc & Fd).
  split; [unfold stor_res in R; rewrite R; discriminate|].
  split; [apply (ia_code d s I a o Fo Fc)|apply (ia_dlgs d s I a o Fo Fd)].
Qed.

Lemma inv_new_accs d s : DbOk d -> InvA d s -> ACommitted s -> InvA d (new_accs (ac_trie s)).
Proof.
  intros D I C. unfold new_accs. constructor; cbn [ac_trie ac_objs ac_pending ac_dirty ac_jd find smem];
    try discriminate; try (constructor; fail).
  - apply (ia_sorted d s I).
  - intros a x Ht _. eapply committed_resolved; eassumption.
Qed.

Lemma new_accs_reads d s : DbOk d -> InvA d s -> ACommitted s ->
  acc_eq d (new_accs (ac_trie s)) d s.
Proof.
  intros D I C. pose proof C as [[Hj Hp] Hd].
  assert (Hboth : forall a, match get_obj s a with
                            | Some o => exists x, find (ac_trie s) a = Some x /\ x = o_data o /\
                                        acct_rec d (new_object x) = acct_rec d o /\
                                        (forall k, get_state d (new_object x) k = get_state d o k)
                            | None => find (ac_trie s) a = None
                            end).
  { intros a. pose proof (flushed_trie_get d s a D I (proj1 C)) as Ht.
    destruct (get_obj s a) as [o|] eqn:Hg; cbn in Ht; [|exact Ht].
    exists (o_data o). split; [exact Ht|]. split; [reflexivity|].
    destruct (get_obj_spec d s a o D I Hg) as ([L1 L2 L3] & Hdel & Hw).
    destruct Hw as [Hw|(_ & x & _ & ->)]; [|cbn; split; reflexivity].
    assert (Hc : aclean s a) by (split; [rewrite Hj|rewrite Hp]; reflexivity).
    assert (Hs : asettled s a) by (split; [rewrite Hj|rewrite Hd]; reflexivity).
    pose proof (ia_clean d s I a o Hw Hc) as H. rewrite Hdel in H. destruct H as (_ & H1 & H2).
    destruct (ia_settled d s I a o Hw Hdel Hs) as (R & Fc & Fd).
    destruct (settled_equiv d o D L1 H1 H2 R (L2 Fc) (L3 Fd)) as (E1 & E2 & E3).
    split; [|exact E1]. unfold acct_rec. cbn [new_object o_data]. rewrite E2, E3. reflexivity. }
  assert (Hnew : forall a, get_obj (new_accs (ac_trie s)) a =
                           match find (ac_trie s) a with Some x => Some (new_object x) | None => None end).
  { intros a. unfold get_obj, get_obj_raw, new_accs. cbn [ac_objs ac_trie find].
    destruct (find (ac_trie s) a) as [x|]; [rewrite acct_rt; reflexivity|reflexivity]. }
  split.
  - intros a. unfold acc_view. rewrite Hnew. specialize (Hboth a).
    destruct (get_obj s a) as [o|].
    + destruct Hboth as (x & Ht & _ & Hr & _). rewrite Ht. cbn. rewrite Hr. reflexivity.
    + rewrite Hboth. reflexivity.
  - intros a k. unfold stor_view. rewrite Hnew. specialize (Hboth a).
    destruct (get_obj s a) as [o|].
    + destruct Hboth as (x & Ht & _ & _ & Hk). rewrite Ht. apply Hk.
    + rewrite Hboth. reflexivity.
Qed.

(* ---- Copy ------------------------------------------------------------------------------------------- *)
Lemma deep_copy_keep f o : cf_keep_dlgs f = true -> obj_deep_copy f o = o.
Proof. intros H. unfold obj_deep_copy. rewrite H. destruct o; reflexivity. Qed.

Lemma objok_deep_copy d f o : ObjOk d o -> ObjOk d (obj_deep_copy f o).
Proof.
  intros O. destruct (cf_keep_dlgs f) eqn:K; [rewrite deep_copy_keep by exact K; exact O|].
  destruct O as [A B C D E F G H I J L]. unfold obj_deep_copy. rewrite K.
  constructor; unfold get_trie in *; cbn [o_trie o_data o_origin o_pending o_dirty o_codec o_dlgs o_dirtyCode o_dirtyDlgs];
    try assumption; discriminate.
Qed.

Lemma copy_obj_fold f src l : forall acc a,
  find (fold_left (copy_obj f src) l acc) a =
  match find acc a with
  | Some v => Some v
  | None => if smem l a then option_map (obj_deep_copy f) (find (ac_objs src) a) else None
  end.
Proof.
  induction l as [|x r IH]; intros acc a; cbn [fold_left smem].
  - destruct (find acc a); reflexivity.
  - rewrite IH. unfold copy_obj.
    destruct (N.eqb x a) eqn:E.
    + assert (x = a) by lia. subst x.
      destruct (find acc a) as [va|] eqn:Fa; [rewrite Fa; reflexivity|].
      destruct (find (ac_objs src) a) as [vx|] eqn:Sx.
      * rewrite find_ins, N.eqb_refl. reflexivity.
      * rewrite Fa. destruct (smem r a); reflexivity.
    + destruct (find acc x) as [vx|] eqn:Fx; [reflexivity|].
      destruct (find (ac_objs src) x) as [vx|] eqn:Sx; [|reflexivity].
      rewrite find_ins. destruct (N.eqb a x) eqn:E'; [lia|reflexivity].
Qed.

Lemma filter_all {A} (p : A -> bool) l : (forall x, In x l -> p x = true) -> filter p l = l.
Proof.
  induction l as [|x r IH]; intros H; cbn; [reflexivity|].
  rewrite (H x (or_introl eq_refl)). f_equal. apply IH. intros y Hy. apply H. right; exact Hy.
Qed.

Lemma dh_of_inj l1 l2 : dh_of l1 = dh_of l2 -> l1 = l2.
Proof.
  destruct l1, l2; cbn; try discriminate; [reflexivity|]. intros [= H]. apply h_dlgs_inj in H. exact H.
Qed.

(* a settled live object shows what the object rebuilt from the trie shows *)
Lemma settled_obj_equiv d s a o : DbOk d -> InvA d s -> find (ac_objs s) a = Some o -> o_deleted o = false ->
  aclean s a -> asettled s a ->
  find (ac_trie s) a = Some (o_data o) /\ Resolved d (o_data o) /\
  acct_rec d (new_object (o_data o)) = acct_rec d o /\
  (forall k, get_state d (new_object (o_data o)) k = get_state d o k).
Proof.
  intros D I Fo Hdel Hc Hs.
  pose proof (ia_clean d s I a o Fo Hc) as H. rewrite Hdel in H. destruct H as (Ht & H1 & H2).
  destruct (ia_settled d s I a o Fo Hdel Hs) as (R & Fc & Fd).
  pose proof (ia_code d s I a o Fo Fc) as Rc. pose proof (ia_dlgs d s I a o Fo Fd) as Rl.
  destruct (settled_equiv d o D (ia_obj d s I a o Fo) H1 H2 R Rc Rl) as (E1 & E2 & E3).
  split; [exact Ht|]. split; [|split; [|exact E1]].
  - split; [unfold stor_res in R; rewrite R; discriminate|split; assumption].
  - unfold acct_rec. cbn [new_object o_data]. rewrite E2, E3. reflexivity.
Qed.

(* the conditions under which the code as it is copies correctly: the findings' classes excluded *)
Definition copy_safe (f : copy_flags) (s : accs) : Prop :=
  (cf_dirty_always f = true \/ ac_pending s = []) /\
  (cf_keep_dlgs f = true \/ forall a o, find (ac_objs s) a = Some o -> o_dirtyDlgs o = false).

Lemma ac_copy_spec d f s : DbOk d -> InvA d s -> copy_safe f s ->
  InvA d (ac_copy f s) /\ acc_eq d (ac_copy f s) d s /\ ac_trie (ac_copy f s) = ac_trie s /\
  ac_jd (ac_copy f s) = [] /\
  (forall a, smem (ac_pending (ac_copy f s)) a = smem (ac_jd s) a || smem (ac_pending s) a) /\
  (forall a, smem (ac_dirty (ac_copy f s)) a = smem (ac_jd s) a || smem (ac_dirty s) a).
Proof.
  intros D I [Hda Hkd]. unfold ac_copy.
  rewrite (filter_all _ (ac_jd s)).
  2:{ intros x Hx. apply smem_in in Hx. destruct (find (ac_objs s) x) eqn:Fx; [reflexivity|].
      exfalso. exact (ia_jd d s I x Hx Fx). }
  set (objs1 := fold_left (copy_obj f s) (ac_jd s) []).
  set (objs2 := fold_left (copy_obj f s) (ac_pending s) objs1).
  set (objs3 := fold_left (copy_obj f s) (ac_dirty s) objs2).
  assert (Ho1 : forall a, find objs1 a = if smem (ac_jd s) a then option_map (obj_deep_copy f) (find (ac_objs s) a) else None).
  { intros a. unfold objs1. rewrite copy_obj_fold. reflexivity. }
  assert (Hsome : forall a, smem (ac_jd s) a || smem (ac_pending s) a || smem (ac_dirty s) a = true ->
                            find (ac_objs s) a <> None).
  { intros a H. apply orb_true_iff in H. destruct H as [H|H]; [apply orb_true_iff in H; destruct H as [H|H]|].
    - apply (ia_jd d s I a H). - apply (ia_pending d s I a H). - apply (ia_dirty d s I a H). }
  assert (Ho2 : forall a, find objs2 a = if smem (ac_jd s) a || smem (ac_pending s) a
                                         then option_map (obj_deep_copy f) (find (ac_objs s) a) else None).
  { intros a. unfold objs2. rewrite copy_obj_fold, Ho1.
    destruct (smem (ac_jd s) a) eqn:Mj; cbn [orb].
    - destruct (find (ac_objs s) a) eqn:Fa; [reflexivity|]. exfalso. apply (Hsome a); [rewrite Mj; reflexivity|exact Fa].
    - reflexivity. }
  assert (Ho3 : forall a, find objs3 a = if smem (ac_jd s) a || smem (ac_dirty s) a
                                         then option_map (obj_deep_copy f) (find (ac_objs s) a) else None).
  { intros a. unfold objs3. rewrite copy_obj_fold, Ho2.
    destruct (smem (ac_jd s) a) eqn:Mj; cbn [orb].
    - destruct (find (ac_objs s) a) eqn:Fa; [reflexivity|]. exfalso. apply (Hsome a); [rewrite Mj; reflexivity|exact Fa].
    - destruct (smem (ac_pending s) a) eqn:Mp.
      + rewrite (ia_pd d s I a Mp). destruct (find (ac_objs s) a) eqn:Fa; [reflexivity|].
        exfalso. exact (ia_pending d s I a Mp Fa).
      + reflexivity. }
  set (dnew := filter (fun a => match find objs2 a with Some _ => cf_dirty_always f | None => true end) (ac_dirty s)).
  assert (Hpend : forall a, smem (fold_left sins (ac_pending s) (fold_left sins (ac_jd s) [])) a
                            = smem (ac_jd s) a || smem (ac_pending s) a).
  { intros a. rewrite !smem_fold_sins. cbn. rewrite orb_false_r. apply orb_comm. }
  assert (Hdirt : forall a, smem (fold_left sins dnew (fold_left sins (ac_jd s) [])) a = smem (ac_jd s) a || smem (ac_dirty s) a).
  { intros a. rewrite !smem_fold_sins. cbn. rewrite orb_false_r.
    destruct (smem (ac_jd s) a) eqn:Mj; [apply orb_true_r|]. rewrite orb_false_r. cbn [orb].
    destruct (smem (ac_dirty s) a) eqn:Md.
    - apply smem_in. unfold dnew. apply filter_In. split; [apply smem_in; exact Md|].
      rewrite Ho2, Mj. cbn [orb]. destruct (smem (ac_pending s) a) eqn:Mp; [|reflexivity].
      destruct Hda as [Hda|Hda]; [|rewrite Hda in Mp; discriminate].
      destruct (option_map (obj_deep_copy f) (find (ac_objs s) a)); [exact Hda|reflexivity].
    - destruct (smem dnew a) eqn:Mn; [|reflexivity]. apply smem_in in Mn. unfold dnew in Mn.
      apply filter_In in Mn. destruct Mn as [Mn _]. apply smem_in in Mn. rewrite Mn in Md. discriminate. }
  assert (Hcopy : forall a o', find objs3 a = Some o' ->
            smem (ac_jd s) a || smem (ac_dirty s) a = true /\ exists o, find (ac_objs s) a = Some o /\ o' = obj_deep_copy f o).
  { intros a o'. rewrite Ho3. destruct (smem (ac_jd s) a || smem (ac_dirty s) a); [|discriminate].
    destruct (find (ac_objs s) a) as [o|]; [|discriminate]. intros [= <-]. split; [reflexivity|]. exists o. auto. }
  assert (Hdcf : forall o, o_data (obj_deep_copy f o) = o_data o /\ o_deleted (obj_deep_copy f o) = o_deleted o /\
                           o_dirty (obj_deep_copy f o) = o_dirty o /\ o_pending (obj_deep_copy f o) = o_pending o /\
                           o_dirtyCode (obj_deep_copy f o) = o_dirtyCode o /\ o_codec (obj_deep_copy f o) = o_codec o /\
                           get_trie d (obj_deep_copy f o) = get_trie d o).
  { intros o. repeat split; reflexivity. }
  assert (Hnp : forall a, smem (ac_dirty s) a = false -> smem (ac_pending s) a = false).
  { intros a Hd. destruct (smem (ac_pending s) a) eqn:Mp; [|reflexivity]. rewrite (ia_pd d s I a Mp) in Hd. discriminate. }
  split; [|split; [|split; [reflexivity|split; [reflexivity|split; [exact Hpend|exact Hdirt]]]]].
  - constructor; cbn [ac_trie ac_objs ac_pending ac_dirty ac_jd].
    + apply (ia_sorted d s I).
    + intros a o' Ho. destruct (Hcopy a o' Ho) as (_ & o & Fo & ->). apply objok_deep_copy. apply (ia_obj d s I a o Fo).
    + intros a o' Ho [_ Hp]. cbn [ac_pending] in Hp. rewrite Hpend in Hp. apply orb_false_iff in Hp. destruct Hp as [Hp1 Hp2].
      destruct (Hcopy a o' Ho) as (_ & o & Fo & ->).
      destruct (Hdcf o) as (E1 & E2 & E3 & E4 & _). rewrite E1, E2, E3, E4.
      apply (ia_clean d s I a o Fo). split; assumption.
    + intros a. rewrite Hpend, Ho3. intros Hp.
      assert (Hd : smem (ac_jd s) a || smem (ac_dirty s) a = true).
      { apply orb_true_iff in Hp. destruct Hp as [Hp|Hp]; [rewrite Hp; reflexivity|rewrite (ia_pd d s I a Hp); apply orb_true_r]. }
      rewrite Hd. destruct (find (ac_objs s) a) eqn:Fa; [discriminate|]. exfalso. apply (Hsome a); [|exact Fa].
      apply orb_true_iff in Hd. destruct Hd as [Hd|Hd]; rewrite Hd; [reflexivity|apply orb_true_r].
    + intros a. rewrite Hdirt, Ho3. intros Hd. rewrite Hd.
      destruct (find (ac_objs s) a) eqn:Fa; [discriminate|]. exfalso. apply (Hsome a); [|exact Fa].
      apply orb_true_iff in Hd. destruct Hd as [Hd|Hd]; rewrite Hd; [reflexivity|apply orb_true_r].
    + discriminate.
    + intros a. rewrite Hpend, Hdirt. intros Hp. apply orb_true_iff in Hp.
      destruct Hp as [Hp|Hp]; [rewrite Hp; reflexivity|rewrite (ia_pd d s I a Hp); apply orb_true_r].
    + apply ssorted_fold_sins, ssorted_fold_sins. constructor.
    + apply ssorted_fold_sins, ssorted_fold_sins. constructor.
    + constructor.
    + intros a x Ht Hn. rewrite Ho3 in Hn. destruct (smem (ac_jd s) a || smem (ac_dirty s) a) eqn:Md.
      * destruct (find (ac_objs s) a) eqn:Fa; [discriminate|]. exfalso. apply (Hsome a); [|exact Fa].
        apply orb_true_iff in Md. destruct Md as [Md|Md]; rewrite Md; [reflexivity|apply orb_true_r].
      * apply orb_false_iff in Md. destruct Md as [Mj Md].
        destruct (find (ac_objs s) a) as [o|] eqn:Fa; [|apply (ia_res_trie d s I a x Ht Fa)].
        assert (Hc : aclean s a) by (split; [exact Mj|apply Hnp; exact Md]).
        assert (Hs : asettled s a) by (split; assumption).
        pose proof (ia_clean d s I a o Fa Hc) as H. destruct (o_deleted o) eqn:Ed; [rewrite H in Ht; discriminate|].
        destruct (settled_obj_equiv d s a o D I Fa Ed Hc Hs) as (Ht' & R & _). rewrite Ht' in Ht. injection Ht as <-. exact R.
    + intros a o' Ho. destruct (Hcopy a o' Ho) as (_ & o & Fo & ->).
      destruct (Hdcf o) as (E1 & _ & _ & _ & E5 & _). rewrite E5. unfold code_res. rewrite E1. apply (ia_code d s I a o Fo).
    + intros a o' Ho. destruct (Hcopy a o' Ho) as (_ & o & Fo & ->). intros Hf.
      unfold dlgs_res. destruct (Hdcf o) as (E1 & _). rewrite E1. apply (ia_dlgs d s I a o Fo).
      destruct Hkd as [Hk|Hk]; [rewrite deep_copy_keep in Hf by exact Hk; exact Hf|apply (Hk a o Fo)].
    + intros a o' Ho _ [_ Hs]. cbn [ac_dirty] in Hs. rewrite Hdirt in Hs.
      destruct (Hcopy a o' Ho) as (Md & _). rewrite Md in Hs. discriminate.
  - (* the copy shows what the original shows *)
    set (c := mkAccs (ac_trie s) objs3 (fold_left sins (ac_pending s) (fold_left sins (ac_jd s) []))
                     (fold_left sins dnew (fold_left sins (ac_jd s) [])) []).
    assert (Hget : forall a,
      match get_obj s a with
      | Some o => exists o', get_obj c a = Some o' /\
                             acct_rec d o' = acct_rec d o /\ (forall k, get_state d o' k = get_state d o k)
      | None => get_obj c a = None
      end).
    { intros a. unfold get_obj at 2 3, get_obj_raw. cbn [c ac_objs ac_trie]. rewrite Ho3.
      destruct (smem (ac_jd s) a || smem (ac_dirty s) a) eqn:Md.
      - destruct (find (ac_objs s) a) as [o|] eqn:Fa.
        2:{ exfalso. apply (Hsome a); [|exact Fa].
            apply orb_true_iff in Md. destruct Md as [Md|Md]; rewrite Md; [reflexivity|apply orb_true_r]. }
        unfold get_obj, get_obj_raw. rewrite Fa. cbn [option_map].
        destruct (Hdcf o) as (E1 & E2 & E3 & E4 & E5 & E6 & E7). rewrite E2.
        destruct (o_deleted o) eqn:Ed; [reflexivity|].
        exists (obj_deep_copy f o). split; [reflexivity|]. split; [|reflexivity].
        destruct Hkd as [Hk|Hk]; [rewrite deep_copy_keep by exact Hk; reflexivity|].
        unfold acct_rec. rewrite E1. f_equal.
        rewrite !obj_delegations_spec. rewrite E1. unfold obj_deep_copy.
        destruct (cf_keep_dlgs f); [reflexivity|]. cbn [o_dlgs].
        destruct (o_dlgs o) as [l|] eqn:El; [|reflexivity].
        pose proof (ia_dlgs d s I a o Fa (Hk a o Fa)) as Rl. unfold dlgs_res in Rl.
        destruct (dlgs_of d (a_dhash (o_data o))) as [l'|] eqn:Edl; [|contradiction].
        pose proof (dlgs_of_ok d _ _ D Edl) as H1. pose proof (oo_dlgs d o (ia_obj d s I a o Fa) l El) as H2.
        rewrite H2 in H1. apply dh_of_inj in H1. subst. reflexivity.
      - apply orb_false_iff in Md. destruct Md as [Mj Md]. unfold get_obj, get_obj_raw.
        destruct (find (ac_objs s) a) as [o|] eqn:Fa.
        + assert (Hc : aclean s a) by (split; [exact Mj|apply Hnp; exact Md]).
          assert (Hs : asettled s a) by (split; assumption).
          pose proof (ia_clean d s I a o Fa Hc) as H. destruct (o_deleted o) eqn:Ed; [rewrite H; reflexivity|].
          destruct (settled_obj_equiv d s a o D I Fa Ed Hc Hs) as (Ht & _ & Er & Ek).
          rewrite Ht, acct_rt. cbn [new_object o_deleted]. exists (new_object (o_data o)). auto.
        + destruct (find (ac_trie s) a) as [x|]; [|reflexivity]. rewrite acct_rt. cbn [new_object o_deleted].
          exists (new_object x). auto. }
    split.
    + intros a. unfold acc_view. specialize (Hget a). fold c. destruct (get_obj s a) as [o|].
      * destruct Hget as (o' & -> & Er & _). cbn. rewrite Er. reflexivity.
      * rewrite Hget. reflexivity.
    + intros a k. unfold stor_view. specialize (Hget a). fold c. destruct (get_obj s a) as [o|].
      * destruct Hget as (o' & -> & _ & Ek). apply Ek.
      * rewrite Hget. reflexivity.
Qed.
End Acc.
