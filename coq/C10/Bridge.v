(* C10 - facts about the copy-function inventory regenerated from core/state
   (coq/gen/C10CopyTable.v, translator "c10 copytable") *)
From Coq Require Import List String NArith Bool.
From VF.C10 Require Import Model ProofsTop Alias.
From VF.gen Require Import C10CopyTable.
Import ListNotations.
Local Open Scope string_scope.

(* reference-typed fields the copy may share with the original: never modified
   in place after construction (byte strings of keys and code, the account
   record whose integers are replaced, not updated, the database handles, the
   cached address) *)
Definition allow_shared : list (string * string) :=
  [("StateDB", "db"); ("Validator", "MainPubKey"); ("Validator", "BlsPubKey"); ("Validator", "Ext");
   ("Validator", "consAddr"); ("stateObject", "data"); ("stateObject", "db"); ("stateObject", "code");
   ("stateObject", "delegations");
   (* inside the account record and the validator extension, both copied by value *)
   ("Account", "Balance"); ("Account", "CodeHash"); ("Account", "DelegationBalance"); ("Account", "DelegationsHash");
   ("Extension", "Data")].
(* new containers whose elements come from the source: immutable preimage byte
   strings, empty structs, uint16 counters *)
Definition allow_elems : list (string * string) :=
  [("StateDB", "preimages"); ("StateDB", "stakingRecordsDirty");
   ("pendingRelationship", "delegatorPendingCount"); ("pendingRelationship", "validatorPendingCount")].
(* fields deliberately not carried: per-transaction context, error memo, the
   snapshot bookkeeping (snapshots do not apply to a copy), a derived cache *)
Definition allow_missing : list (string * string) :=
  [("StateDB", "validatorsSorted"); ("StateDB", "dbErr"); ("StateDB", "thash"); ("StateDB", "bhash");
   ("StateDB", "txIndex"); ("StateDB", "validRevisions"); ("StateDB", "valValidRevisions");
   ("StateDB", "nextRevisionId"); ("stateObject", "dbErr")].
(* the fields of finding D1 (dropped by the code as it is, carried by the repair) *)
Definition finding_fields : list (string * string) :=
  [("stateObject", "delegations"); ("stateObject", "dirtyDlgs")].

Definition key_in (k : string * string) (l : list (string * string)) : bool :=
  existsb (fun x => String.eqb (fst x) (fst k) && String.eqb (snd x) (snd k)) l.

Definition row_ok (r : string * string * bool * N) : bool :=
  let '(st, fd, _, cl) := r in
  N.leb cl 3
  || (N.eqb cl 4 && key_in (st, fd) allow_shared)
  || (N.eqb cl 5 && key_in (st, fd) allow_missing)
  || (N.eqb cl 6 && key_in (st, fd) allow_elems)
  || key_in (st, fd) finding_fields.

Lemma copy_table_ok : forallb row_ok copy_table = true.
Proof. vm_compute. reflexivity. Qed.
Lemma copy_table_classified : forall r, In r copy_table -> row_ok r = true.
Proof. apply forallb_forall. exact copy_table_ok. Qed.

Definition class_of (st fd : string) : N :=
  match List.find (fun r => String.eqb (fst (fst (fst r))) st && String.eqb (snd (fst (fst r))) fd) copy_table with
  | Some r => snd r
  | None => 0%N
  end.
(* the flag the cases carry agrees with the inventory *)
Lemma keep_flag_matches_table :
  deepcopy_keeps_delegations =
  negb (N.eqb (class_of "stateObject" "delegations") 5) && negb (N.eqb (class_of "stateObject" "dirtyDlgs") 5).
Proof. vm_compute. reflexivity. Qed.

(* the copy code of the working tree, as a model variant *)
Definition tree_flags : copy_flags := mkCF deepcopy_keeps_delegations copy_marks_dirty_always.
Lemma tree_flags_known : tree_flags = as_is \/ tree_flags = repaired \/
                         tree_flags = mkCF true false \/ tree_flags = mkCF false true.
Proof. vm_compute. auto. Qed.

(* ---- the aliasing layer over the regenerated table ------------------------------------------- *)
(* no function of core/state or staking writes in place through a field the copy
   shares with its original (append to, element assignment, copy into, sort,
   big.Int update), nor into an element of a rebuilt container: the table has no
   shared-MUTABLE entry.  (The database handle is shared and written by every
   StateDB; it is a monotone content-addressed store: Proofs.views_le.) *)
Lemma no_inplace_writes : inplace_sites = [].
Proof. reflexivity. Qed.

Definition cls_of (c : N) : cls :=
  match c with
  | 1%N => CValue | 2%N => CDeep | 6%N => CDeep | 3%N => CFresh | 4%N => CShared | _ => CMissing
  end.
(* the copy table of the working tree as the aliasing layer reads it; a rebuilt
   container (class 6) is a deep-copied object whose own fields are shared *)
Definition tree_tbl (ty f : N) : cls :=
  match List.find (fun r => N.eqb (fst (fst r)) ty && N.eqb (snd (fst r)) f) copy_table_n with
  | Some r => cls_of (snd r)
  | None => CShared
  end.

(* ---- writes through objects the getters hand out (regenerated from staking/) ------------------- *)
(* Every such write is of a kind the flush picks up from the live object:
   - records of the withdraw queue (Finished, FinalBalance): saveWithdrawQueue writes the LIVE
     queue at every IntermediateRoot / Commit, unconditionally (Model.vl_iroot; op OEditWithdraw);
   - the statistics (AddRewards, ResetRewards, SetRewardsResidue): saveValidatorsStat likewise
     (ops OAddRewards, OSetResidue);
   - a validator record: only in functions that hand the record to UpdateValidator afterwards,
     which marks it dirty (op OUpdateVal).
   A new write site of another kind breaks this lemma. *)
Definition str_in (x : string) (l : list string) : bool := existsb (String.eqb x) l.
Definition live_edit_ok (r : string * string * string * bool) : bool :=
  let '(getter, target, _, updates) := r in
  (String.eqb getter "GetWithdrawQueue" && str_in target ["Finished"; "FinalBalance"])
  || (String.eqb getter "GetValidatorsStat" && str_in target ["AddRewards"; "ResetRewards"; "SetRewardsResidue"])
  || (str_in getter ["GetValidatorByMainAddr"; "GetValidatorsForUpdate"] && updates).
Lemma live_edits_ok : forallb live_edit_ok live_edits = true.
Proof. vm_compute. reflexivity. Qed.
Lemma live_edits_classified : forall r, In r live_edits -> live_edit_ok r = true.
Proof. apply forallb_forall. exact live_edits_ok. Qed.
