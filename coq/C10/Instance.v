(* C10 - discharging the hypotheses of [WorldOk] by instantiation.

   Part A (this file, complete): the trie roots.  A root of [World] becomes the
   root hash of C13's Merkle-Patricia trie built from the sorted content; that
   it is a function of the content only, whatever history built the trie, is
   C13_history_independent; that it is injective on well-formed contents and
   tells a non-empty trie from the empty one is proved here from C13's
   re-opening theorem under an INJECTIVE NODE HASH.

   What remains assumed ([CryptoOk]): the node hash H is injective, 32 bytes
   long, and only the RLP empty string hashes to the constant the code reserves
   for the empty trie; the key hash K (the secure trie's Keccak of the key) is
   injective into byte strings shorter than 2^30.  And of the record codecs
   ([CodecOk]): they round-trip and produce non-empty encodings shorter than
   2^32 bytes. *)
From VF.C10 Require Import Model ProofsMaps ProofsStk ProofsVal ProofsObj ProofsAcc Proofs ProofsTop.
From VF.C13 Require Model Proofs Proofs2 Proofs5 Proofs6 Proofs7 Proofs8.
From Coq Require Import Lia ZifyBool ZifyN ZifyNat.
Local Open Scope N_scope.

Module T := VF.C13.Model.
Module TP := VF.C13.Proofs.
Module TP2 := VF.C13.Proofs2.
Module TP5 := VF.C13.Proofs5.
Module TP6 := VF.C13.Proofs6.
Module TP7 := VF.C13.Proofs7.
Module TP8 := VF.C13.Proofs8.

Notation bytes := (list N).

Section TrieRoot.
Variable H : bytes -> bytes.        (* node hash (Keccak-256 in the code) *)
Variable K : N -> bytes.            (* trie key of an address / slot / record key (Keccak-256 of its bytes) *)

Variable KB : N.                    (* keys are numbers below KB (2^320 covers addresses, slots and address pairs) *)

Record CryptoOk : Prop := {
  h_inj : forall a b, H a = H b -> a = b;
  h_len : forall x, length (H x) = 32%nat;
  h_empty : forall x, H x = T.empty_root -> x = [128];
  k_inj : forall a b, a < KB -> b < KB -> K a = K b -> a = b;
  k_ok : forall a, a < KB -> TP.bytes_ok (K a);
  k_len : forall a, a < KB -> T.len (K a) < 1073741824 }.
Hypothesis CO : CryptoOk.
Definition keys_ok {A} (l : list (N * A)) : Prop := forall k v, In (k, v) l -> k < KB.

(* the history that inserts a content, in the order of the list *)
Definition ops_of (l : list (N * bytes)) : list T.kvop := map (fun kv => T.KUpdate (K (fst kv)) (snd kv)) l.
(* the Merkle-Patricia root of a content *)
Definition root_of (l : list (N * bytes)) : bytes := T.root_hash H (T.run (ops_of l)).

(* values a trie can hold: non-empty (an empty value deletes) and shorter than 2^32 *)
Definition vals_ok (l : list (N * bytes)) : Prop := forall k v, In (k, v) l -> v <> [] /\ T.len v < TP5.B32.

Lemma ops_of_ok l : keys_ok l -> Forall TP.op_ok (ops_of l).
Proof.
  intros Hk. apply Forall_forall. intros o Ho. apply in_map_iff in Ho. destruct Ho as ((k & v) & <- & Hin).
  apply (k_ok CO), (Hk k v Hin).
Qed.
Lemma ops_of_small l : keys_ok l -> vals_ok l -> Forall TP7.op_small (ops_of l).
Proof.
  intros Hk Hv. apply Forall_forall. intros o Ho. apply in_map_iff in Ho. destruct Ho as ((k & v) & <- & Hin).
  cbn. split; [apply (k_len CO), (Hk k v Hin)|apply (Hv k v Hin)].
Qed.

(* the reference map of that history is the content *)
Lemma m_run_from l : forall (m : T.fmap) k, k < KB -> keys_ok l -> sorted l -> vals_ok l ->
  fold_left T.m_apply (ops_of l) m (K k) = match find l k with Some v => Some v | None => m (K k) end.
Proof.
  induction l as [|(k1 & v1) r IH]; intros m k Hkb Hk Hs Hv; cbn [ops_of map fold_left find]; [reflexivity|].
  inversion Hs as [|? ? ? Hsr Hlb]; subst.
  assert (Hvr : vals_ok r) by (intros a b Hab; apply (Hv a b); right; exact Hab).
  assert (Hkr : keys_ok r) by (intros a b Hab; apply (Hk a b); right; exact Hab).
  assert (Hk1 : k1 < KB) by (apply (Hk k1 v1); left; reflexivity).
  fold (ops_of r). rewrite (IH _ k Hkb Hkr Hsr Hvr). cbn [fst snd].
  destruct (N.eqb k1 k) eqn:E.
  - assert (k1 = k) by lia. subst k1. rewrite (lb_find_none k r Hlb k) by lia.
    unfold T.m_apply. rewrite TP.list_eqb_refl. destruct (Hv k v1 (or_introl eq_refl)) as [Hne _].
    destruct v1; [contradiction|reflexivity].
  - destruct (find r k); [reflexivity|]. unfold T.m_apply.
    destruct (T.list_eqb (K k1) (K k)) eqn:E2; [|reflexivity].
    apply TP.list_eqb_eq in E2. apply (k_inj CO) in E2; [lia|assumption|assumption].
Qed.
Lemma m_run_content l k : k < KB -> keys_ok l -> sorted l -> vals_ok l -> T.m_run (ops_of l) (K k) = find l k.
Proof. intros Hkb Hk Hs Hv. unfold T.m_run. rewrite (m_run_from l _ k Hkb Hk Hs Hv). destruct (find l k); reflexivity. Qed.

Lemma trie_reads l k : k < KB -> keys_ok l -> sorted l -> vals_ok l -> T.t_get (T.run (ops_of l)) (K k) = find l k.
Proof.
  intros Hkb Hk Hs Hv. rewrite (TP.run_refines _ (ops_of_ok l Hk) (K k) (k_ok CO k Hkb)). apply m_run_content; assumption.
Qed.

Lemma find_keys_ok {A} (l : list (N * A)) k : keys_ok l -> KB <= k -> find l k = None.
Proof.
  intros Hk Hge. destruct (find l k) eqn:E; [|reflexivity]. apply find_in in E. apply Hk in E. lia.
Qed.

(* equal tries hold equal contents *)
Lemma trie_content_inj l1 l2 : keys_ok l1 -> sorted l1 -> vals_ok l1 -> keys_ok l2 -> sorted l2 -> vals_ok l2 ->
  T.run (ops_of l1) = T.run (ops_of l2) -> l1 = l2.
Proof.
  intros K1 S1 V1 K2 S2 V2 E. apply sorted_ext; [exact S1|exact S2|]. intros k.
  destruct (N.ltb k KB) eqn:Ek.
  - assert (k < KB) by lia. rewrite <- (trie_reads l1 k H0 K1 S1 V1), <- (trie_reads l2 k H0 K2 S2 V2), E. reflexivity.
  - rewrite (find_keys_ok l1 k K1), (find_keys_ok l2 k K2) by lia. reflexivity.
Qed.

(* ---- the root hash is injective on canonical tries (C13: commit / re-open) ------------- *)
Lemma canon_is_node t : TP.canon t -> TP5.is_node t.
Proof. unfold TP.canon. destruct t; cbn; try discriminate; intros _; exact I. Qed.

Lemma rlp_list_not_empty_string l : T.rlp (T.Lst l) <> [128].
Proof.
  cbn [T.rlp]. unfold T.enc_len. set (n := T.len (flat_map T.rlp l)).
  destruct (n <? 56) eqn:E.
  - intros E1. apply (f_equal (hd 0)) in E1. cbn [hd app] in E1. clearbody n. lia.
  - intros E1. apply (f_equal (hd 0)) in E1. cbn [hd app] in E1. clearbody n. lia.
Qed.

Lemma node_root_not_empty t : TP5.is_node t -> T.root_hash H t <> T.empty_root.
Proof.
  intros Hn. rewrite (TP6.root_hash_node H t Hn). intros E. apply (h_empty CO) in E.
  unfold TP5.enc, T.encode in E. destruct t; try contradiction; cbn [T.collapse T.enc_item] in E;
    exact (rlp_list_not_empty_string _ E).
Qed.

(* a content-addressed store holding the given nodes *)
Definition store_of (ns : list T.node) : list (bytes * bytes) := map (fun m => (H (TP5.enc H m), TP5.enc H m)) ns.
Lemma store_has ns m : In m ns -> TP8.has_node H (store_of ns) m.
Proof.
  unfold TP8.has_node, store_of. induction ns as [|x r IH]; [intros []|]. intros Hin. cbn [map T.assoc].
  destruct (T.list_eqb (H (TP5.enc H x)) (H (TP5.enc H m))) eqn:E.
  - apply TP.list_eqb_eq in E. apply (h_inj CO) in E. rewrite E. reflexivity.
  - destruct Hin as [->|Hin]; [rewrite TP.list_eqb_refl in E; discriminate|apply IH; exact Hin].
Qed.

Lemma root_hash_inj t1 t2 : TP.canon t1 -> TP5.small t1 -> TP.canon t2 -> TP5.small t2 ->
  T.root_hash H t1 = T.root_hash H t2 -> t1 = t2.
Proof.
  intros C1 S1 C2 S2 E.
  set (db := store_of ((t1 :: TP8.desc t1) ++ (t2 :: TP8.desc t2))).
  set (f := S (2 * TP8.height t1 + 2 * TP8.height t2)).
  assert (R1 : T.reopen f db (T.root_hash H t1) = t1).
  { apply (TP8.reopen_ok H (h_len CO)); try assumption.
    - apply store_has. apply in_or_app. left. left. reflexivity.
    - intros m Hm _. apply store_has. apply in_or_app. left. right. exact Hm.
    - apply node_root_not_empty, canon_is_node; exact C1.
    - unfold f. lia. }
  assert (R2 : T.reopen f db (T.root_hash H t2) = t2).
  { apply (TP8.reopen_ok H (h_len CO)); try assumption.
    - apply store_has. apply in_or_app. right. left. reflexivity.
    - intros m Hm _. apply store_has. apply in_or_app. right. right. exact Hm.
    - apply node_root_not_empty, canon_is_node; exact C2.
    - unfold f. lia. }
  rewrite <- R1, <- R2, E. reflexivity.
Qed.

(* ---- the root of a content ------------------------------------------------------------------ *)
Lemma trie_of_content l : keys_ok l -> sorted l -> vals_ok l ->
  (l = [] /\ T.run (ops_of l) = T.Empty) \/
  (l <> [] /\ TP.canon (T.run (ops_of l)) /\ TP5.small (T.run (ops_of l))).
Proof.
  intros Hk Hs Hv. destruct (TP7.run_small _ (ops_of_ok l Hk) (ops_of_small l Hk Hv)) as [E|[Hc Hsm]].
  - left. split; [|exact E]. destruct l as [|(k & v) r]; [reflexivity|exfalso].
    pose proof (trie_reads _ k (Hk k v (or_introl eq_refl)) Hk Hs Hv) as R. rewrite E in R. cbn in R. rewrite N.eqb_refl in R.
    unfold T.t_get in R. cbn in R. discriminate.
  - right. split; [|split; assumption]. intros ->. cbn in Hc. unfold TP.canon in Hc. cbn in Hc. discriminate.
Qed.

(* a non-empty content never has the root of the empty trie *)
Theorem root_of_nil l : keys_ok l -> sorted l -> vals_ok l -> root_of l = root_of [] -> l = [].
Proof.
  intros Hk Hs Hv E. destruct (trie_of_content l Hk Hs Hv) as [(-> & _)|(Hne & Hc & _)]; [reflexivity|exfalso].
  unfold root_of in E. cbn [ops_of map T.run fold_left] in E. cbn [T.root_hash] in E.
  exact (node_root_not_empty _ (canon_is_node _ Hc) E).
Qed.

(* equal roots, equal contents *)
Theorem root_of_inj l1 l2 : keys_ok l1 -> sorted l1 -> vals_ok l1 -> keys_ok l2 -> sorted l2 -> vals_ok l2 ->
  root_of l1 = root_of l2 -> l1 = l2.
Proof.
  intros K1 S1 V1 K2 S2 V2 E.
  destruct (trie_of_content l1 K1 S1 V1) as [(-> & _)|(N1 & C1 & M1)].
  - symmetry. apply root_of_nil; [exact K2|exact S2|exact V2|symmetry; exact E].
  - destruct (trie_of_content l2 K2 S2 V2) as [(-> & _)|(N2 & C2 & M2)].
    + apply root_of_nil; assumption.
    + apply trie_content_inj; try assumption. apply root_hash_inj; assumption.
Qed.

(* a root is 32 bytes long *)
Lemma root_of_length l : keys_ok l -> sorted l -> vals_ok l -> length (root_of l) = 32%nat.
Proof.
  intros Hk Hs Hv. unfold root_of. destruct (trie_of_content l Hk Hs Hv) as [(_ & ->)|(_ & Hc & _)]; [reflexivity|].
  rewrite (TP6.root_hash_node H _ (canon_is_node _ Hc)). apply (h_len CO).
Qed.

(* the root the REAL trie has after ANY history of updates and deletes of K-keys whose
   reference map is the content: C13_history_independent *)
Theorem root_of_any_history ops l : keys_ok l -> Forall TP.op_ok ops ->
  (forall key, TP.bytes_ok key -> T.m_run ops key = T.m_run (ops_of l) key) ->
  T.root_hash H (T.run ops) = root_of l.
Proof.
  intros Hk Ho Hm. unfold root_of.
  rewrite (TP2.history_independent ops (ops_of l) Ho (ops_of_ok l Hk) Hm). reflexivity.
Qed.
End TrieRoot.

(* ---- list plumbing ------------------------------------------------------------------------------ *)
Section Plumbing.
Context {A B : Type}.
Definition mapv (f : A -> B) (m : list (N * A)) : list (N * B) := map (fun kv => (fst kv, f (snd kv))) m.
Lemma in_mapv (f : A -> B) m k y : In (k, y) (mapv f m) -> exists x, In (k, x) m /\ y = f x.
Proof.
  unfold mapv. intros Hin. apply in_map_iff in Hin. destruct Hin as ((k' & x) & E & Hin). cbn in E.
  injection E as -> <-. exists x. auto.
Qed.
Lemma sorted_mapv (f : A -> B) m : sorted m -> sorted (mapv f m).
Proof.
  induction 1 as [|k v r Hs IH Hlb]; cbn; constructor; [exact IH|].
  intros k' y Hin. apply in_mapv in Hin. destruct Hin as (x & Hin & _). apply (Hlb k' x Hin).
Qed.
Lemma mapv_inj (f : A -> B) (Hf : forall x y, f x = f y -> x = y) m1 m2 : mapv f m1 = mapv f m2 -> m1 = m2.
Proof.
  revert m2. induction m1 as [|(k & v) r IH]; intros [|(k' & v') r']; cbn; try discriminate; [reflexivity|].
  intros [= -> Hv Hr]. apply Hf in Hv. subst. f_equal. apply IH; exact Hr.
Qed.
Lemma mapv_inj_in (f : A -> B) m1 m2 :
  (forall k x y, In (k, x) m1 -> In (k, y) m2 -> f x = f y -> x = y) -> mapv f m1 = mapv f m2 -> m1 = m2.
Proof.
  revert m2. induction m1 as [|(k & v) r IH]; intros [|(k' & v') r'] Hf; cbn; try discriminate; [reflexivity|].
  intros [= -> Hv Hr]. apply (Hf k' v v' (or_introl eq_refl) (or_introl eq_refl)) in Hv. subst. f_equal.
  apply IH; [|exact Hr]. intros k0 x y Hx Hy. apply (Hf k0 x y); right; assumption.
Qed.
End Plumbing.

Definition shift {A} (n : N) (m : list (N * A)) : list (N * A) := map (fun kv => (fst kv + n, snd kv)) m.
Definition opt {A} (k : N) (o : option A) : list (N * A) := match o with Some v => [(k, v)] | None => [] end.

Lemma in_shift {A} n (m : list (N * A)) k v : In (k, v) (shift n m) -> exists k0, In (k0, v) m /\ k = k0 + n.
Proof.
  unfold shift. intros Hin. apply in_map_iff in Hin. destruct Hin as ((k0 & x) & E & Hin). cbn in E.
  injection E as <- <-. exists k0. auto.
Qed.
Lemma sorted_shift {A} n (m : list (N * A)) : sorted m -> sorted (shift n m).
Proof.
  induction 1 as [|k v r Hs IH Hlb]; cbn; constructor; [exact IH|].
  intros k' y Hin. apply in_shift in Hin. destruct Hin as (k0 & Hin & ->). apply Hlb in Hin. lia.
Qed.
Lemma sorted_opt_app {A} k0 (o : option A) l : sorted l -> (forall k v, In (k, v) l -> k0 < k) -> sorted (opt k0 o ++ l).
Proof. intros Hs Hlb. destruct o; cbn; [constructor; assumption|exact Hs]. Qed.
Lemma opt_app_inj {A} k0 (o o' : option A) (l l' : list (N * A)) :
  (forall k v, In (k, v) l -> k0 < k) -> (forall k v, In (k, v) l' -> k0 < k) ->
  opt k0 o ++ l = opt k0 o' ++ l' -> o = o' /\ l = l'.
Proof.
  intros Hl Hl'. destruct o, o'; cbn; intros E.
  - injection E as -> ->. auto.
  - exfalso. assert (In (k0, a) l') by (rewrite <- E; left; reflexivity). apply Hl' in H. lia.
  - exfalso. assert (In (k0, a) l) by (rewrite E; left; reflexivity). apply Hl in H. lia.
  - auto.
Qed.
Lemma shift_inj {A} n (a b : list (N * A)) : shift n a = shift n b -> a = b.
Proof.
  revert b. induction a as [|(k & v) r IH]; intros [|(k' & v') r']; cbn; try discriminate; [reflexivity|].
  intros [= Hk -> Hr]. assert (k = k') by lia. subst. f_equal. apply IH; exact Hr.
Qed.
Lemma in_opt {A} k0 (o : option A) k v : In (k, v) (opt k0 o) -> k = k0 /\ o = Some v.
Proof. destruct o; cbn; [intros [[= <- <-]|[]]; auto|intros []]. Qed.

(* ---- the instantiated world ---------------------------------------------------------------------- *)
(* an injective flat serialisation: the root of a content with a key outside the key universe
   (no real state has one; the model's addresses are unbounded numbers) *)
Definition ser (l : list (N * bytes)) : bytes := flat_map (fun kv => fst kv :: T.len (snd kv) :: snd kv) l.

Lemma app_eq_len {A} (a b c d : list A) : length a = length c -> a ++ b = c ++ d -> a = c /\ b = d.
Proof.
  revert c. induction a as [|x a IH]; intros [|y c]; cbn; try discriminate; [auto|].
  intros [= Hl] [= -> E]. destruct (IH c Hl E) as [-> ->]. auto.
Qed.
Lemma ser_inj l1 l2 : ser l1 = ser l2 -> l1 = l2.
Proof.
  revert l2. induction l1 as [|(k & v) r IH]; intros [|(k' & v') r']; cbn; try discriminate; [reflexivity|].
  intros [= -> Hl E]. unfold T.len in Hl. apply Nnat.Nat2N.inj in Hl.
  destruct (app_eq_len _ _ _ _ Hl E) as [-> E']. f_equal. apply IH; exact E'.
Qed.

(* the RLP codecs of the records (C14), the storage-slot value encoding and the
   encoding of a sorted address list *)
Record Codecs := mkCodecs {
  ce_acct : account bytes -> bytes;  cd_acct : bytes -> option (account bytes);
  ce_val : validator -> bytes;        cd_val : bytes -> option validator;
  ce_idx : list N -> bytes;           cd_idx : bytes -> option (list N);
  ce_stat : stat -> bytes;            cd_stat : bytes -> option stat;
  ce_queue : list wrec -> bytes;      cd_queue : bytes -> option (list wrec);
  ce_rec : srec -> bytes;             cd_rec : bytes -> option srec;
  ce_prel : list N -> bytes;          cd_prel : bytes -> option (list N);
  ce_word : N -> bytes;
  ce_addrs : list N -> bytes }.

Section Inst.
Variable H : bytes -> bytes.
Variable K : N -> bytes.
Variable KB : N.
Variable C : Codecs.
Notation enc_acct' := (ce_acct C).   Notation dec_acct' := (cd_acct C).
Notation enc_val' := (ce_val C).     Notation dec_val' := (cd_val C).
Notation enc_idx' := (ce_idx C).     Notation dec_idx' := (cd_idx C).
Notation enc_stat' := (ce_stat C).   Notation dec_stat' := (cd_stat C).
Notation enc_queue' := (ce_queue C). Notation dec_queue' := (cd_queue C).
Notation enc_rec' := (ce_rec C).     Notation dec_rec' := (cd_rec C).
Notation enc_prel' := (ce_prel C).   Notation dec_prel' := (cd_prel C).
Notation enc_word := (ce_word C).
Notation enc_addrs := (ce_addrs C).

Definition enc_fits {A} (e : A -> bytes) : Prop := forall x, e x <> [] /\ T.len (e x) < TP5.B32.

Record CodecOk : Prop := {
  c_acct : forall x, dec_acct' (enc_acct' x) = Some x;
  c_val : forall v, dec_val' (enc_val' v) = Some (set_deleted false v);
  c_idx : forall x, dec_idx' (enc_idx' x) = Some x;
  c_stat : forall x, dec_stat' (enc_stat' x) = Some x;
  c_queue : forall x, dec_queue' (enc_queue' x) = Some x;
  c_rec : forall x, dec_rec' (enc_rec' x) = Some x;
  c_prel : forall x, dec_prel' (enc_prel' x) = Some x;
  f_acct : enc_fits enc_acct'; f_val : enc_fits enc_val'; f_idx : enc_fits enc_idx'; f_stat : enc_fits enc_stat';
  f_queue : enc_fits enc_queue'; f_rec : enc_fits enc_rec'; f_prel : enc_fits enc_prel';
  f_word : enc_fits enc_word;
  i_word : forall a b, enc_word a = enc_word b -> a = b;
  i_addrs : forall a b, enc_addrs a = enc_addrs b -> a = b }.

Hypothesis CO : CryptoOk H K KB.
Hypothesis CD : CodecOk.

(* the Merkle-Patricia root of C13 on every content within the key universe *)
Definition in_range (l : list (N * bytes)) : bool := forallb (fun kv => fst kv <? KB) l.
Definition mroot (l : list (N * bytes)) : bytes :=
  if in_range l then root_of H K l else repeat 0 33%nat ++ ser l.

Lemma in_range_keys l : in_range l = true -> keys_ok KB l.
Proof.
  unfold in_range. rewrite forallb_forall. intros Hf k v Hin. specialize (Hf (k, v) Hin). cbn in Hf. lia.
Qed.

Lemma mroot_nil l : sorted l -> vals_ok l -> mroot l = mroot [] -> l = [].
Proof.
  intros Hs Hv. unfold mroot at 2. cbn [in_range forallb]. unfold mroot. destruct (in_range l) eqn:Er.
  - apply (root_of_nil H K KB CO); [apply in_range_keys; exact Er|exact Hs|exact Hv].
  - intros E. apply (f_equal (@length N)) in E. rewrite app_length, repeat_length in E.
    change (root_of H K []) with T.empty_root in E. cbn in E. lia.
Qed.

Lemma mroot_inj l1 l2 : sorted l1 -> vals_ok l1 -> sorted l2 -> vals_ok l2 -> mroot l1 = mroot l2 -> l1 = l2.
Proof.
  intros S1 V1 S2 V2. unfold mroot. destruct (in_range l1) eqn:R1, (in_range l2) eqn:R2.
  - apply (root_of_inj H K KB CO); try assumption; apply in_range_keys; assumption.
  - intros E. apply (f_equal (@length N)) in E.
    rewrite (root_of_length H K KB CO l1 (in_range_keys _ R1) S1 V1), app_length, repeat_length in E. lia.
  - intros E. apply (f_equal (@length N)) in E.
    rewrite (root_of_length H K KB CO l2 (in_range_keys _ R2) S2 V2), app_length, repeat_length in E. lia.
  - intros E. apply app_inv_head in E. apply ser_inj; exact E.
Qed.

(* validator trie: valindex, valstat, valubds, then valinfo-||address *)
Definition vlist (a : list (N * bytes)) (i s q : option bytes) : list (N * bytes) :=
  opt 0 i ++ opt 1 s ++ opt 2 q ++ shift 3 a.
(* staking trie: pendingr, then the records *)
Definition slist (a : list (N * bytes)) (p : option bytes) : list (N * bytes) := opt 0 p ++ shift 1 a.

Definition MptWorld : World := {|
  hash := bytes; heqb := nl_eqb; rhash := bytes; rheqb := nl_eqb; blob := bytes;
  h_code := H; h_dlgs := fun l => H (enc_addrs l);
  root_stor := fun t => mroot (mapv enc_word t);
  enc_acct := enc_acct'; dec_acct := dec_acct'; enc_val := enc_val'; dec_val := dec_val';
  enc_idx := enc_idx'; dec_idx := dec_idx'; enc_stat := enc_stat'; dec_stat := dec_stat';
  enc_queue := enc_queue'; dec_queue := dec_queue'; enc_rec := enc_rec'; dec_rec := dec_rec';
  enc_prel := enc_prel'; dec_prel := dec_prel';
  root_acct := mroot;
  root_val := fun a i s q => mroot (vlist a i s q);
  root_stk := fun a p => mroot (slist a p) |}.

Lemma vals_ok_mapv {A} (e : A -> bytes) m : enc_fits e -> vals_ok (mapv e m).
Proof. intros He k v Hin. apply in_mapv in Hin. destruct Hin as (x & _ & ->). apply He. Qed.

Lemma vlist_sorted a i s q : sorted a -> sorted (vlist a i s q).
Proof.
  intros Hs. unfold vlist.
  assert (S3 : sorted (shift 3 a)) by (apply sorted_shift; exact Hs).
  assert (L3 : forall k v, In (k, v) (shift 3 a) -> 2 < k).
  { intros k v Hin. apply in_shift in Hin. destruct Hin as (k0 & _ & ->). lia. }
  apply sorted_opt_app; [apply sorted_opt_app; [apply sorted_opt_app; assumption|]|].
  - intros k v Hin. apply in_app_or in Hin. destruct Hin as [Hin|Hin]; [apply in_opt in Hin; lia|apply L3 in Hin; lia].
  - intros k v Hin. apply in_app_or in Hin. destruct Hin as [Hin|Hin]; [apply in_opt in Hin; lia|].
    apply in_app_or in Hin. destruct Hin as [Hin|Hin]; [apply in_opt in Hin; lia|apply L3 in Hin; lia].
Qed.
Lemma slist_sorted a p : sorted a -> sorted (slist a p).
Proof.
  intros Hs. unfold slist. apply sorted_opt_app; [apply sorted_shift; exact Hs|].
  intros k v Hin. apply in_shift in Hin. destruct Hin as (k0 & _ & ->). lia.
Qed.

Lemma mpt_world_ok : WorldOk MptWorld.
Proof.
  constructor; cbn [MptWorld hash heqb rhash rheqb blob h_code h_dlgs root_stor enc_acct dec_acct enc_val dec_val
                    enc_idx dec_idx enc_stat dec_stat enc_queue dec_queue enc_rec dec_rec enc_prel dec_prel].
  - apply nl_eqb_spec.
  - apply nl_eqb_spec.
  - apply (c_acct CD). - apply (c_val CD). - apply (c_idx CD). - apply (c_stat CD).
  - apply (c_queue CD). - apply (c_rec CD). - apply (c_prel CD).
  - apply (h_inj H K KB CO).
  - intros a b E. apply (h_inj H K KB CO) in E. apply (i_addrs CD). exact E.
  - intros a b Sa _ Sb _ E. apply (mapv_inj enc_word (i_word CD)).
    apply mroot_inj; try (apply sorted_mapv; assumption); try (apply vals_ok_mapv, (f_word CD)). exact E.
  - intros t Hs E. unfold aroot, menc in E. cbn [MptWorld root_acct enc_acct] in E.
    change (mroot (mapv enc_acct' t) = mroot []) in E.
    apply mroot_nil in E; [|apply sorted_mapv; exact Hs|apply vals_ok_mapv, (f_acct CD)].
    destruct t; [reflexivity|discriminate].
  - intros t Hs E. unfold vroot, menc in E. cbn [MptWorld root_val enc_val enc_idx enc_stat enc_queue vt_empty vt_info vt_index vt_stat vt_queue option_map map] in E.
    change (mroot (vlist (mapv enc_val' (vt_info t)) (option_map enc_idx' (vt_index t)) (option_map enc_stat' (vt_stat t))
                         (option_map enc_queue' (vt_queue t))) = mroot []) in E.
    apply mroot_nil in E.
    + destruct (vt_index t); [discriminate|reflexivity].
    + apply vlist_sorted, sorted_mapv; exact Hs.
    + intros k v Hin. unfold vlist in Hin.
      apply in_app_or in Hin. destruct Hin as [Hin|Hin].
      { apply in_opt in Hin. destruct Hin as [_ Hin]. destruct (vt_index t); [injection Hin as <-; apply (f_idx CD)|discriminate]. }
      apply in_app_or in Hin. destruct Hin as [Hin|Hin].
      { apply in_opt in Hin. destruct Hin as [_ Hin]. destruct (vt_stat t); [injection Hin as <-; apply (f_stat CD)|discriminate]. }
      apply in_app_or in Hin. destruct Hin as [Hin|Hin].
      { apply in_opt in Hin. destruct Hin as [_ Hin]. destruct (vt_queue t); [injection Hin as <-; apply (f_queue CD)|discriminate]. }
      apply in_shift in Hin. destruct Hin as (k0 & Hin & _). apply in_mapv in Hin. destruct Hin as (x & _ & ->). apply (f_val CD).
  - intros t Hs E. unfold sroot, menc in E. cbn [MptWorld root_stk enc_rec enc_prel st_empty st_recs st_prel option_map map] in E.
    change (mroot (slist (mapv enc_rec' (st_recs t)) (option_map enc_prel' (st_prel t))) = mroot []) in E.
    apply mroot_nil in E.
    + destruct t as [r p]. cbn in E. destruct p; [discriminate|]. destruct r; [reflexivity|discriminate].
    + apply slist_sorted, sorted_mapv; exact Hs.
    + intros k v Hin. unfold slist in Hin. apply in_app_or in Hin. destruct Hin as [Hin|Hin].
      { apply in_opt in Hin. destruct Hin as [_ Hin]. destruct (st_prel t); [injection Hin as <-; apply (f_prel CD)|discriminate]. }
      apply in_shift in Hin. destruct Hin as (k0 & Hin & _). apply in_mapv in Hin. destruct Hin as (x & _ & ->). apply (f_rec CD).
  - (* equal account roots, equal account tries *)
    intros t1 t2 S1 S2 E. unfold aroot, menc in E. cbn [MptWorld root_acct enc_acct] in E.
    change (mroot (mapv enc_acct' t1) = mroot (mapv enc_acct' t2)) in E.
    apply mroot_inj in E; try (apply sorted_mapv; assumption); try (apply vals_ok_mapv, (f_acct CD)).
    apply (mapv_inj enc_acct') in E; [exact E|].
    intros x y Hxy. pose proof (c_acct CD x) as A. rewrite Hxy, (c_acct CD) in A. injection A as ->. reflexivity.
  - (* validator trie *)
    intros t1 t2 [S1 N1] [S2 N2] E. unfold vroot, menc in E.
    cbn [MptWorld root_val enc_val enc_idx enc_stat enc_queue] in E.
    change (mroot (vlist (mapv enc_val' (vt_info t1)) (option_map enc_idx' (vt_index t1)) (option_map enc_stat' (vt_stat t1))
                         (option_map enc_queue' (vt_queue t1))) =
            mroot (vlist (mapv enc_val' (vt_info t2)) (option_map enc_idx' (vt_index t2)) (option_map enc_stat' (vt_stat t2))
                         (option_map enc_queue' (vt_queue t2)))) in E.
    assert (Hvok : forall t : vtrie, vals_ok (vlist (mapv enc_val' (vt_info t)) (option_map enc_idx' (vt_index t))
                                               (option_map enc_stat' (vt_stat t)) (option_map enc_queue' (vt_queue t)))).
    { intros t k v Hin. unfold vlist in Hin.
      apply in_app_or in Hin. destruct Hin as [Hin|Hin].
      { apply in_opt in Hin. destruct Hin as [_ Hin]. destruct (vt_index t); [injection Hin as <-; apply (f_idx CD)|discriminate]. }
      apply in_app_or in Hin. destruct Hin as [Hin|Hin].
      { apply in_opt in Hin. destruct Hin as [_ Hin]. destruct (vt_stat t); [injection Hin as <-; apply (f_stat CD)|discriminate]. }
      apply in_app_or in Hin. destruct Hin as [Hin|Hin].
      { apply in_opt in Hin. destruct Hin as [_ Hin]. destruct (vt_queue t); [injection Hin as <-; apply (f_queue CD)|discriminate]. }
      apply in_shift in Hin. destruct Hin as (k0 & Hin & _). apply in_mapv in Hin. destruct Hin as (x & _ & ->). apply (f_val CD). }
    apply mroot_inj in E; try apply Hvok; try (apply vlist_sorted, sorted_mapv; assumption).
    unfold vlist in E.
    assert (L3 : forall (a : list (N * bytes)) k v, In (k, v) (shift 3 a) -> 2 < k).
    { intros a k v Hin. apply in_shift in Hin. destruct Hin as (k0 & _ & ->). lia. }
    assert (L2 : forall (q : option bytes) (a : list (N * bytes)) k v, In (k, v) (opt 2 q ++ shift 3 a) -> 1 < k).
    { intros q a k v Hin. apply in_app_or in Hin. destruct Hin as [Hin|Hin]; [apply in_opt in Hin; lia|apply L3 in Hin; lia]. }
    assert (L1 : forall (s q : option bytes) (a : list (N * bytes)) k v, In (k, v) (opt 1 s ++ opt 2 q ++ shift 3 a) -> 0 < k).
    { intros s q a k v Hin. apply in_app_or in Hin. destruct Hin as [Hin|Hin]; [apply in_opt in Hin; lia|apply L2 in Hin; lia]. }
    apply opt_app_inj in E; [|apply L1|apply L1]. destruct E as [Ei E].
    apply opt_app_inj in E; [|apply L2|apply L2]. destruct E as [Es E].
    apply opt_app_inj in E; [|apply L3|apply L3]. destruct E as [Eq E].
    apply shift_inj in E. apply mapv_inj_in in E.
    + destruct t1 as [i1 x1 s1 q1], t2 as [i2 x2 s2 q2]. cbn in *. subst. f_equal.
      * destruct x1, x2; cbn in Ei; try discriminate; [|reflexivity]. injection Ei as Ei.
        pose proof (c_idx CD l) as A. rewrite Ei, (c_idx CD) in A. injection A as ->. reflexivity.
      * destruct s1, s2; cbn in Es; try discriminate; [|reflexivity]. injection Es as Es.
        pose proof (c_stat CD s) as A. rewrite Es, (c_stat CD) in A. injection A as ->. reflexivity.
      * destruct q1, q2; cbn in Eq; try discriminate; [|reflexivity]. injection Eq as Eq.
        pose proof (c_queue CD l) as A. rewrite Eq, (c_queue CD) in A. injection A as ->. reflexivity.
    + intros k x y Hx Hy Hxy. pose proof (c_val CD x) as Hrt. rewrite Hxy, (c_val CD) in Hrt.
      pose proof (N1 k x Hx) as D1. pose proof (N2 k y Hy) as D2.
      destruct x, y; cbn in D1, D2, Hrt. subst. injection Hrt as -> -> -> -> -> -> ->. reflexivity.
  - (* staking trie *)
    intros t1 t2 S1 S2 E. unfold sroot, menc in E. cbn [MptWorld root_stk enc_rec enc_prel] in E.
    change (mroot (slist (mapv enc_rec' (st_recs t1)) (option_map enc_prel' (st_prel t1))) =
            mroot (slist (mapv enc_rec' (st_recs t2)) (option_map enc_prel' (st_prel t2)))) in E.
    assert (Hvok : forall t : strie, vals_ok (slist (mapv enc_rec' (st_recs t)) (option_map enc_prel' (st_prel t)))).
    { intros t k v Hin. unfold slist in Hin. apply in_app_or in Hin. destruct Hin as [Hin|Hin].
      { apply in_opt in Hin. destruct Hin as [_ Hin]. destruct (st_prel t); [injection Hin as <-; apply (f_prel CD)|discriminate]. }
      apply in_shift in Hin. destruct Hin as (k0 & Hin & _). apply in_mapv in Hin. destruct Hin as (x & _ & ->). apply (f_rec CD). }
    apply mroot_inj in E; try apply Hvok; try (apply slist_sorted, sorted_mapv; assumption).
    unfold slist in E.
    assert (L1 : forall (a : list (N * bytes)) k v, In (k, v) (shift 1 a) -> 0 < k).
    { intros a k v Hin. apply in_shift in Hin. destruct Hin as (k0 & _ & ->). lia. }
    apply opt_app_inj in E; [|apply L1|apply L1]. destruct E as [Ep E]. apply shift_inj in E.
    apply (mapv_inj enc_rec') in E.
    + destruct t1 as [r1 p1], t2 as [r2 p2]. cbn in *. subst. f_equal.
      destruct p1, p2; cbn in Ep; try discriminate; [|reflexivity]. injection Ep as Ep.
      pose proof (c_prel CD l) as A. rewrite Ep, (c_prel CD) in A. injection A as ->. reflexivity.
    + intros x y Hxy. pose proof (c_rec CD x) as A. rewrite Hxy, (c_rec CD) in A. injection A as ->. reflexivity.
Qed.

(* the root of a content within the key universe IS the Merkle-Patricia root of C13 ... *)
Lemma mroot_is_mpt l : keys_ok KB l -> mroot l = root_of H K l.
Proof.
  intros Hk. unfold mroot. assert (in_range l = true) as ->; [|reflexivity].
  unfold in_range. apply forallb_forall. intros (k & v) Hin. cbn. specialize (Hk k v Hin). lia.
Qed.
(* ... i.e. the root hash of the real trie after ANY history of updates and deletes with that content *)
Lemma mroot_any_history ops l : keys_ok KB l -> Forall TP.op_ok ops ->
  (forall key, TP.bytes_ok key -> T.m_run ops key = T.m_run (ops_of K l) key) ->
  T.root_hash H (T.run ops) = mroot l.
Proof. intros Hk Ho Hm. rewrite (mroot_is_mpt l Hk). apply (root_of_any_history H K KB CO); assumption. Qed.

(* the account trie root of a state is the C13 root of its encoded content *)
Lemma aroot_is_mpt (t : list (N * account bytes)) : keys_ok KB t ->
  @aroot MptWorld t = root_of H K (mapv enc_acct' t).
Proof.
  intros Hk. unfold aroot, menc. cbn [MptWorld root_acct enc_acct]. apply mroot_is_mpt.
  intros k v Hin. apply in_mapv in Hin. destruct Hin as (x & Hin & _). apply (Hk k x Hin).
Qed.

(* the property theorems for the instantiated world *)
Lemma reopen_mpt d s l de : @DbOk MptWorld d -> @Inv MptWorld d s ->
  let ds := @crun MptWorld (d, s) l in
  let d' := fst (@commit MptWorld (fst ds) de (snd ds)) in
  let s' := snd (@commit MptWorld (fst ds) de (snd ds)) in
  exists n r,
    @new_state MptWorld d' (fst (fst (@roots MptWorld s'))) (snd (fst (@roots MptWorld s'))) (snd (@roots MptWorld s')) = Some n /\
    @new_reader MptWorld d' (snd (fst (@roots MptWorld s'))) = Some r /\
    @state_eq MptWorld d' n d' s' /\ @val_eq MptWorld r (s_val s') /\ @Inv MptWorld d' n.
Proof. exact (@reopen_all MptWorld mpt_world_ok d s l de). Qed.

Lemma content_mpt d1 s1 l1 de1 d2 s2 l2 de2 :
  @DbOk MptWorld d1 -> @Inv MptWorld d1 s1 -> @DbOk MptWorld d2 -> @Inv MptWorld d2 s2 ->
  let a := @crun MptWorld (d1, s1) l1 in let b := @crun MptWorld (d2, s2) l2 in
  let ta := @iroot MptWorld (fst a) de1 (snd a) in let tb := @iroot MptWorld (fst b) de2 (snd b) in
  @state_eq MptWorld (fst a) ta (fst b) tb -> @roots MptWorld ta = @roots MptWorld tb.
Proof. exact (@content_all MptWorld mpt_world_ok d1 s1 l1 de1 d2 s2 l2 de2). Qed.
End Inst.

(* ---- the remaining cryptographic hypotheses are consistent ----------------------------------- *)
(* an injective numbering of byte strings, packed into a 32-element string *)
Fixpoint godel (l : bytes) : N := match l with [] => 0 | x :: r => 2 ^ x * (2 * godel r + 1) end.

Lemma pow2_odd_inj x y x' y' : 2 ^ x * (2 * y + 1) = 2 ^ x' * (2 * y' + 1) -> x = x' /\ y = y'.
Proof.
  assert (Hlt : forall a b c d, a < b -> 2 ^ a * (2 * c + 1) = 2 ^ b * (2 * d + 1) -> False).
  { intros a b c d Hab E. replace b with (a + N.succ (b - a - 1)) in E by lia.
    rewrite N.pow_add_r, N.pow_succ_r', <- !N.mul_assoc in E.
    apply N.mul_cancel_l in E; [|apply N.pow_nonzero; lia]. lia. }
  intros E. destruct (N.lt_trichotomy x x') as [L|[->|L]].
  - exfalso. exact (Hlt _ _ _ _ L E).
  - apply N.mul_cancel_l in E; [|apply N.pow_nonzero; lia]. split; [reflexivity|lia].
  - exfalso. symmetry in E. exact (Hlt _ _ _ _ L E).
Qed.
Lemma godel_inj a b : godel a = godel b -> a = b.
Proof.
  revert b. induction a as [|x r IH]; intros [|y t]; cbn [godel]; intros E.
  - reflexivity.
  - exfalso. assert (2 ^ y <> 0) by (apply N.pow_nonzero; lia). nia.
  - exfalso. assert (2 ^ x <> 0) by (apply N.pow_nonzero; lia). nia.
  - apply pow2_odd_inj in E. destruct E as [-> E]. f_equal. apply IH; exact E.
Qed.

Definition H0 (x : bytes) : bytes := godel x :: repeat 0 31%nat.
Definition K0 (a : N) : bytes := [a].

Lemma crypto_ok_consistent : CryptoOk H0 K0 256.
Proof.
  constructor.
  - intros a b [= E]. apply godel_inj; exact E.
  - reflexivity.
  - intros x E. unfold H0 in E. cbn in E. discriminate.
  - intros a b _ _ [= E]. exact E.
  - intros a Ha. constructor; [exact Ha|constructor].
  - intros a _. cbn. lia.
Qed.
