(* C10 - the hypotheses on the external functions, and the staking trie part *)
From VF.C10 Require Import Model ProofsMaps.
From Coq Require Import Lia ZifyBool ZifyN.
Local Open Scope N_scope.

Definition nz (t : list (N * N)) : Prop := forall k v, find t k = Some v -> v <> 0.
(* a validator trie as IntermediateRoot leaves it: sorted, stored records not flagged deleted *)
Definition vnorm (t : vtrie) : Prop :=
  sorted (vt_info t) /\ forall a v, In (a, v) (vt_info t) -> v_deleted v = false.

(* what the theorems assume about hashes and codecs: the codecs round-trip
   (C14), hashing is collision free.  The trie roots are only required to be
   injective on well-formed contents (sorted, storage without zero slots) and
   to tell a non-empty trie from the empty one - what the Merkle-Patricia root
   of C13 provides under an injective node hash (Instance.v). *)
Class WorldOk (W : World) : Prop := {
  heqb_eq : forall a b : hash, heqb a b = true <-> a = b;
  rheqb_eq : forall a b : rhash, rheqb a b = true <-> a = b;
  acct_rt : forall x, dec_acct (enc_acct x) = Some x;
  val_rt : forall v, dec_val (enc_val v) = Some (set_deleted false v);
  idx_rt : forall x, dec_idx (enc_idx x) = Some x;
  stat_rt : forall x, dec_stat (enc_stat x) = Some x;
  queue_rt : forall x, dec_queue (enc_queue x) = Some x;
  rec_rt : forall x, dec_rec (enc_rec x) = Some x;
  prel_rt : forall x, dec_prel (enc_prel x) = Some x;
  h_code_inj : forall a b, h_code a = h_code b -> a = b;
  h_dlgs_inj : forall a b, h_dlgs a = h_dlgs b -> a = b;
  root_stor_inj : forall a b, sorted a -> nz a -> sorted b -> nz b -> root_stor a = root_stor b -> a = b;
  root_acct_nil : forall t : list (N * account hash), sorted t -> aroot t = aroot [] -> t = [];
  root_val_nil : forall t : vtrie, sorted (vt_info t) -> vroot t = vroot vt_empty -> vt_index t = None;
  root_stk_nil : forall t : strie, sorted (st_recs t) -> sroot t = sroot st_empty -> t = st_empty;
  (* equal top-level roots, equal tries (sorted; stored validators carry no deleted flag) *)
  root_acct_inj : forall t1 t2 : list (N * account hash), sorted t1 -> sorted t2 -> aroot t1 = aroot t2 -> t1 = t2;
  root_val_inj : forall t1 t2 : vtrie, vnorm t1 -> vnorm t2 -> vroot t1 = vroot t2 -> t1 = t2;
  root_stk_inj : forall t1 t2 : strie, sorted (st_recs t1) -> sorted (st_recs t2) -> sroot t1 = sroot t2 -> t1 = t2
}.

Section Stk.
Context {W : World} {WOK : WorldOk W}.

Lemma heqb_refl h : heqb h h = true. Proof. apply heqb_eq. reflexivity. Qed.
Lemma rheqb_refl h : rheqb h h = true. Proof. apply rheqb_eq. reflexivity. Qed.
Lemma heqb_neq a b : a <> b -> heqb a b = false.
Proof. intros H. destruct (heqb a b) eqn:E; [|reflexivity]. apply heqb_eq in E. contradiction. Qed.
Lemma rheqb_neq a b : a <> b -> rheqb a b = false.
Proof. intros H. destruct (rheqb a b) eqn:E; [|reflexivity]. apply rheqb_eq in E. contradiction. Qed.

Lemma menc_inj {A} (e : A -> blob) (Hinj : forall x y, e x = e y -> x = y) (m1 m2 : list (N * A)) :
  menc e m1 = menc e m2 -> m1 = m2.
Proof.
  revert m2. induction m1 as [|[k v] r IH]; intros [|[k' v'] r']; cbn; try discriminate; [reflexivity|].
  intros H. injection H as Hk Hv Hr. apply Hinj in Hv. subst. f_equal. apply IH; exact Hr.
Qed.
Lemma menc_inj_in {A} (e : A -> blob) (m1 m2 : list (N * A)) :
  (forall k x y, In (k, x) m1 -> In (k, y) m2 -> e x = e y -> x = y) -> menc e m1 = menc e m2 -> m1 = m2.
Proof.
  revert m2. induction m1 as [|[k v] r IH]; intros [|[k' v'] r'] Hinj; cbn; try discriminate; [reflexivity|].
  intros H. injection H as Hk Hv Hr. subst k'.
  apply (Hinj k v v' (or_introl eq_refl) (or_introl eq_refl)) in Hv. subst. f_equal.
  apply IH; [|exact Hr]. intros k0 x y Hx Hy. apply (Hinj k0 x y); right; assumption.
Qed.
Lemma enc_rec_inj x y : enc_rec x = enc_rec y -> x = y.
Proof. intros H. pose proof (rec_rt x) as A. rewrite H, rec_rt in A. injection A as ->. reflexivity. Qed.
Lemma enc_prel_inj x y : enc_prel x = enc_prel y -> x = y.
Proof. intros H. pose proof (prel_rt x) as A. rewrite H, prel_rt in A. injection A as ->. reflexivity. Qed.

(* the canonical pendingr entry of a relationship list *)
Definition prel_entry (l : list N) : option (list N) := match l with [] => None | _ => Some l end.

(* a well-formed staking trie *)
Record TrieOkS (t : strie) : Prop := {
  ts_sorted : sorted (st_recs t);
  ts_prel : forall l, st_prel t = Some l -> l <> [] /\ ssorted l }.

Record InvS (s : stks) : Prop := {
  is_trie : sorted (st_recs (sk_trie s));
  is_clean : forall k r, find (sk_recs s) k = Some r -> smem (sk_dirty s) k = false ->
                         find (st_recs (sk_trie s)) k = Some r;
  is_dirty : forall k, smem (sk_dirty s) k = true -> find (sk_recs s) k <> None;
  is_psorted : ssorted (sk_prel s);
  is_prel : sk_preld s = false -> st_prel (sk_trie s) = prel_entry (sk_prel s);
  is_preld : sk_preld s = true -> sk_prel s <> [] }.

Lemma get_srec_trie s k : find (sk_recs s) k = None -> get_srec s k = find (st_recs (sk_trie s)) k.
Proof.
  intros H. unfold get_srec. rewrite H. destruct (find (st_recs (sk_trie s)) k); [apply rec_rt|reflexivity].
Qed.

Lemma inv_add_srec s d v tx nf : InvS s -> InvS (add_srec d v tx nf s).
Proof.
  intros [A B C D E F]. unfold add_srec. constructor; cbn [sk_trie sk_recs sk_dirty sk_prel sk_preld]; try assumption.
  - intros k r. rewrite find_ins, smem_sins. destruct (N.eqb k (bi d v)); cbn; [discriminate|]. apply B.
  - intros k. rewrite find_ins, smem_sins. destruct (N.eqb k (bi d v)); cbn; [discriminate|]. apply C.
Qed.

Lemma inv_add_prel s d v : InvS s -> InvS (add_prel d v s).
Proof.
  intros [A B C D E F]. unfold add_prel. destruct (smem (sk_prel s) (bi d v)) eqn:M; [constructor; assumption|].
  constructor; cbn [sk_trie sk_recs sk_dirty sk_prel sk_preld]; try assumption.
  - apply ssorted_sins; exact D.
  - discriminate.
  - intros _ H. assert (In (bi d v) (sins (sk_prel s) (bi d v))) by (apply in_sins; left; reflexivity).
    rewrite H in H0. destruct H0.
Qed.

Lemma inv_reset_stk s : InvS (reset_stk s).
Proof.
  unfold reset_stk. constructor; cbn; try (intros; discriminate); try constructor; try reflexivity.
Qed.

(* the record loop of updateStakingTrie *)
Lemma flush_rec_fold l : forall s,
  let s' := fold_left flush_rec l s in
  sk_recs s' = sk_recs s /\ sk_dirty s' = sk_dirty s /\ sk_prel s' = sk_prel s /\ sk_preld s' = sk_preld s /\
  st_prel (sk_trie s') = st_prel (sk_trie s) /\
  (sorted (st_recs (sk_trie s)) -> sorted (st_recs (sk_trie s'))) /\
  (forall k, find (st_recs (sk_trie s')) k =
             if smem l k then match find (sk_recs s) k with Some r => Some r | None => find (st_recs (sk_trie s)) k end
             else find (st_recs (sk_trie s)) k).
Proof.
  induction l as [|x r IH]; intros s; cbn [fold_left].
  - cbn. repeat split; auto.
  - specialize (IH (flush_rec s x)). cbn zeta in IH.
    destruct IH as (A & B & C & D & E & F & G).
    assert (H0 : sk_recs (flush_rec s x) = sk_recs s /\ sk_dirty (flush_rec s x) = sk_dirty s /\
                 sk_prel (flush_rec s x) = sk_prel s /\ sk_preld (flush_rec s x) = sk_preld s /\
                 st_prel (sk_trie (flush_rec s x)) = st_prel (sk_trie s)).
    { unfold flush_rec. destruct (find (sk_recs s) x); cbn; repeat split; reflexivity. }
    destruct H0 as (A0 & B0 & C0 & D0 & E0).
    cbn zeta. rewrite A, B, C, D, E, A0, B0, C0, D0, E0. repeat split; try reflexivity.
    + intros Hs. apply F. unfold flush_rec. destruct (find (sk_recs s) x); cbn; [apply sorted_ins|]; exact Hs.
    + intros k. rewrite G, A0. cbn [smem].
      unfold flush_rec. destruct (find (sk_recs s) x) as [rx|] eqn:Ex; cbn [sk_trie st_recs].
      * rewrite find_ins. destruct (N.eqb x k) eqn:E1.
        -- assert (x = k) by lia. subst x. rewrite N.eqb_refl, Ex. destruct (smem r k); reflexivity.
        -- destruct (N.eqb k x) eqn:E2; [lia|]. reflexivity.
      * destruct (N.eqb x k) eqn:E1; [|reflexivity].
        assert (x = k) by lia. subst x. rewrite Ex. destruct (smem r k); reflexivity.
Qed.

(* IntermediateRoot on the staking part: everything cached is in the trie, reads unchanged *)
Lemma sk_iroot_spec s : InvS s ->
  let s' := sk_iroot s in
  InvS s' /\ sk_dirty s' = [] /\ sk_preld s' = false /\ sk_prel s' = sk_prel s /\
  (forall k, get_srec s' k = get_srec s k).
Proof.
  intros [A B C D E F]. unfold sk_iroot.
  destruct (flush_rec_fold (sk_dirty s) s) as (R1 & R2 & R3 & R4 & R5 & R6 & R7).
  set (s1 := fold_left flush_rec (sk_dirty s) s) in *.
  assert (Hfind : forall k, find (st_recs (sk_trie s1)) k =
                            match find (sk_recs s) k with Some r => Some r | None => find (st_recs (sk_trie s)) k end).
  { intros k. rewrite R7. destruct (smem (sk_dirty s) k) eqn:M; [reflexivity|].
    destruct (find (sk_recs s) k) eqn:Fk; [|reflexivity]. apply B; assumption. }
  assert (Hget : forall t p, let s2 := mkStks (mkST (st_recs (sk_trie s1)) t) (sk_recs s1) [] (sk_prel s1) p in
                             forall k, get_srec s2 k = get_srec s k).
  { intros t p s2 k. unfold get_srec. cbn [sk_recs sk_trie st_recs s2]. rewrite R1.
    destruct (find (sk_recs s) k) eqn:Fk; [reflexivity|]. rewrite Hfind, Fk. reflexivity. }
  rewrite R4. destruct (sk_preld s) eqn:P; cbn zeta.
  - repeat split; cbn [sk_trie sk_recs sk_dirty sk_prel sk_preld st_recs st_prel]; try reflexivity;
      try discriminate.
    + apply R6; exact A.
    + intros k r. rewrite R1, Hfind. intros -> _. reflexivity.
    + rewrite R3; exact D.
    + intros _. rewrite R3. specialize (F eq_refl). destruct (sk_prel s); [contradiction|reflexivity].
    + exact R3.
    + apply (Hget (Some (sk_prel s1)) false).
  - repeat split; cbn [sk_trie sk_recs sk_dirty sk_prel sk_preld st_recs st_prel]; try reflexivity;
      try discriminate.
    + apply R6; exact A.
    + intros k r. rewrite R1, Hfind. intros -> _. reflexivity.
    + rewrite R3; exact D.
    + intros _. rewrite R5, R3. apply E. reflexivity.
    + exact R3.
    + intros k. unfold get_srec. cbn [sk_recs sk_trie]. rewrite R1.
      destruct (find (sk_recs s) k) eqn:Fk; [reflexivity|]. rewrite Hfind, Fk. reflexivity.
Qed.

(* a flushed staking part: the trie is exactly what reads show *)
Lemma flushed_stk s : InvS s -> sk_dirty s = [] -> sk_preld s = false ->
  TrieOkS (sk_trie s) /\
  (forall k, find (st_recs (sk_trie s)) k = get_srec s k) /\
  st_prel (sk_trie s) = prel_entry (sk_prel s).
Proof.
  intros [A B C D E F] Hd Hp. split; [|split].
  - constructor; [exact A|]. intros l Hl. rewrite (E Hp) in Hl.
    destruct (sk_prel s) eqn:Ep; [discriminate|]. injection Hl as <-. split; [discriminate|exact D].
  - intros k. unfold get_srec. destruct (find (sk_recs s) k) eqn:Fk.
    + apply B; [exact Fk|]. rewrite Hd. reflexivity.
    + destruct (find (st_recs (sk_trie s)) k); [symmetry; apply rec_rt|reflexivity].
  - apply E; exact Hp.
Qed.

(* content: what the staking part shows *)
Definition stk_eq (s1 s2 : stks) : Prop :=
  (forall k, get_srec s1 k = get_srec s2 k) /\ (forall x, smem (sk_prel s1) x = smem (sk_prel s2) x).

Lemma stk_content_only s1 s2 :
  InvS s1 -> InvS s2 -> sk_dirty s1 = [] -> sk_dirty s2 = [] -> sk_preld s1 = false -> sk_preld s2 = false ->
  stk_eq s1 s2 -> sk_trie s1 = sk_trie s2.
Proof.
  intros I1 I2 D1 D2 P1 P2 [Hr Hp].
  destruct (flushed_stk s1 I1 D1 P1) as ([S1 _] & F1 & E1).
  destruct (flushed_stk s2 I2 D2 P2) as ([S2 _] & F2 & E2).
  assert (sk_prel s1 = sk_prel s2) as Hpe by (apply ssorted_ext; [apply I1|apply I2|exact Hp]).
  destruct (sk_trie s1) as [r1 p1], (sk_trie s2) as [r2 p2]. cbn in *.
  f_equal.
  - apply sorted_ext; [exact S1|exact S2|]. intros k. rewrite F1, F2. apply Hr.
  - rewrite E1, E2, Hpe. reflexivity.
Qed.

(* the staking part of state.New over a well-formed trie *)
Definition new_stks (t : strie) : stks :=
  mkStks t [] [] (match st_prel t with Some l => l | None => [] end) false.

Lemma inv_new_stks t : TrieOkS t -> InvS (new_stks t).
Proof.
  intros [A B]. unfold new_stks. constructor; cbn; try (intros; discriminate); try assumption.
  - destruct (st_prel t) as [l|] eqn:E; [apply (B l); reflexivity|constructor].
  - intros _. destruct (st_prel t) as [l|] eqn:E; [|reflexivity].
    destruct (B l eq_refl) as [Hne _]. destruct l; [contradiction|reflexivity].
Qed.

Lemma new_stks_reads s : InvS s -> sk_dirty s = [] -> sk_preld s = false ->
  stk_eq (new_stks (sk_trie s)) s.
Proof.
  intros I D P. destruct (flushed_stk s I D P) as (_ & F & E). split.
  - intros k. rewrite <- F. unfold get_srec, new_stks. cbn.
    destruct (find (st_recs (sk_trie s)) k); [apply rec_rt|reflexivity].
  - intros x. unfold new_stks. cbn. rewrite E. destruct (sk_prel s); reflexivity.
Qed.
End Stk.
