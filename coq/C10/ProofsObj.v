(* C10 - the database and one state object: storage caches, updateTrie, code and
   delegation blobs *)
From VF.C10 Require Import Model ProofsMaps ProofsStk.
From Coq Require Import Lia ZifyBool ZifyN.
Local Open Scope N_scope.

Section Obj.
Context {W : World} {WOK : WorldOk W}.

Definition dh_of (l : list N) : option hash := match l with [] => None | _ => Some (h_dlgs l) end.

(* the content-addressed store is consistent *)
Record DbOk (d : database) : Prop := {
  db_stor : forall h t, hfind (d_stor d) h = Some t -> h = root_stor t /\ sorted t /\ nz t;
  db_code : forall h c, hfind (d_code d) h = Some c -> h = h_code c;
  db_dlgs : forall h l, hfind (d_dlgs d) h = Some l -> h = h_dlgs l /\ l <> [] }.

Definition code_of (d : database) (h : hash) : option (list N) :=
  if heqb h (h_code []) then Some [] else hfind (d_code d) h.
Definition dlgs_of (d : database) (dh : option hash) : option (list N) :=
  match dh with None => Some [] | Some h => hfind (d_dlgs d) h end.

Lemma open_stor_ok d h t : DbOk d -> open_stor d h = Some t -> h = root_stor t /\ sorted t /\ nz t.
Proof.
  intros D. unfold open_stor. destruct (heqb h (root_stor [])) eqn:E.
  - apply heqb_eq in E. intros [= <-]. split; [exact E|]. split; [constructor|]. intros k v; discriminate.
  - apply (db_stor d D).
Qed.
Lemma code_of_ok d h c : DbOk d -> code_of d h = Some c -> h = h_code c.
Proof.
  intros D. unfold code_of. destruct (heqb h (h_code [])) eqn:E.
  - apply heqb_eq in E. intros [= <-]. exact E.
  - apply (db_code d D).
Qed.
Lemma dlgs_of_ok d dh l : DbOk d -> dlgs_of d dh = Some l -> dh = dh_of l.
Proof.
  intros D. unfold dlgs_of. destruct dh as [h|].
  - intros H. destruct (db_dlgs d D h l H) as [-> Hne]. destruct l; [contradiction|reflexivity].
  - intros [= <-]. reflexivity.
Qed.

(* the store only grows *)
Record db_le (d d' : database) : Prop := {
  le_stor : forall h t, open_stor d h = Some t -> open_stor d' h = Some t;
  le_code : forall h c, code_of d h = Some c -> code_of d' h = Some c;
  le_dlgs : forall dh l, dlgs_of d dh = Some l -> dlgs_of d' dh = Some l }.

Lemma db_le_refl d : db_le d d.
Proof. constructor; auto. Qed.
Lemma db_le_trans a b c : db_le a b -> db_le b c -> db_le a c.
Proof. intros [A1 A2 A3] [B1 B2 B3]. constructor; auto. Qed.

Lemma hfind_cons {A} (l : list (hash * A)) h x h' :
  hfind ((h, x) :: l) h' = if heqb h h' then Some x else hfind l h'.
Proof. reflexivity. Qed.

Lemma db_add_stor_ok d t : DbOk d -> sorted t -> nz t ->
  DbOk (db_add_stor (root_stor t) t d) /\ db_le d (db_add_stor (root_stor t) t d) /\
  open_stor (db_add_stor (root_stor t) t d) (root_stor t) = Some t.
Proof.
  intros D Hs Hn. split; [|split].
  - constructor; cbn [db_add_stor d_stor d_code d_dlgs]; [|apply D|apply D].
    intros h t'. rewrite hfind_cons. destruct (heqb (root_stor t) h) eqn:E.
    + apply heqb_eq in E. intros [= <-]. auto.
    + apply (db_stor d D).
  - constructor; [|auto|auto].
    intros h t' H. unfold open_stor in *. cbn [db_add_stor d_stor].
    destruct (heqb h (root_stor [])); [exact H|]. rewrite hfind_cons.
    destruct (heqb (root_stor t) h) eqn:E; [|exact H].
    apply heqb_eq in E. subst h. destruct (db_stor d D _ _ H) as (Hr & Hs' & Hn').
    apply root_stor_inj in Hr; try assumption. subst. reflexivity.
  - unfold open_stor. cbn [db_add_stor d_stor]. destruct (heqb (root_stor t) (root_stor [])) eqn:E.
    + apply heqb_eq, root_stor_inj in E; try assumption; [subst; reflexivity|constructor|intros k v; discriminate].
    + rewrite hfind_cons, heqb_refl. reflexivity.
Qed.

Lemma db_add_code_ok d c : DbOk d ->
  DbOk (db_add_code (h_code c) c d) /\ db_le d (db_add_code (h_code c) c d) /\
  code_of (db_add_code (h_code c) c d) (h_code c) = Some c.
Proof.
  intros D. split; [|split].
  - constructor; cbn [db_add_code d_stor d_code d_dlgs]; [apply D| |apply D].
    intros h c'. rewrite hfind_cons. destruct (heqb (h_code c) h) eqn:E.
    + apply heqb_eq in E. intros [= <-]. auto.
    + apply (db_code d D).
  - constructor; [auto| |auto].
    intros h c' H. unfold code_of in *. cbn [db_add_code d_code].
    destruct (heqb h (h_code [])); [exact H|]. rewrite hfind_cons.
    destruct (heqb (h_code c) h) eqn:E; [|exact H].
    apply heqb_eq in E. subst h. apply (db_code d D) in H. apply h_code_inj in H. subst. reflexivity.
  - unfold code_of. cbn [db_add_code d_code]. destruct (heqb (h_code c) (h_code [])) eqn:E.
    + apply heqb_eq, h_code_inj in E. subst. reflexivity.
    + rewrite hfind_cons, heqb_refl. reflexivity.
Qed.

Lemma db_add_dlgs_ok d l : DbOk d -> l <> [] ->
  DbOk (db_add_dlgs (h_dlgs l) l d) /\ db_le d (db_add_dlgs (h_dlgs l) l d) /\
  dlgs_of (db_add_dlgs (h_dlgs l) l d) (Some (h_dlgs l)) = Some l.
Proof.
  intros D Hne. split; [|split].
  - constructor; cbn [db_add_dlgs d_stor d_code d_dlgs]; [apply D|apply D|].
    intros h l'. rewrite hfind_cons. destruct (heqb (h_dlgs l) h) eqn:E.
    + apply heqb_eq in E. intros [= <-]. auto.
    + apply (db_dlgs d D).
  - constructor; [auto|auto|].
    intros dh l' H. unfold dlgs_of in *. destruct dh as [h|]; [|exact H]. cbn [db_add_dlgs d_dlgs].
    rewrite hfind_cons. destruct (heqb (h_dlgs l) h) eqn:E; [|exact H].
    apply heqb_eq in E. subst h. apply (db_dlgs d D) in H. destruct H as [H _]. apply h_dlgs_inj in H. subst. reflexivity.
  - cbn. rewrite heqb_refl. reflexivity.
Qed.

(* adding a committed top-level trie does not touch the blobs *)
Lemma db_add_top_ok d :
  (forall r t, DbOk d -> DbOk (db_add_acct r t d) /\ db_le d (db_add_acct r t d)) /\
  (forall r t, DbOk d -> DbOk (db_add_val r t d) /\ db_le d (db_add_val r t d)) /\
  (forall r t, DbOk d -> DbOk (db_add_stk r t d) /\ db_le d (db_add_stk r t d)).
Proof.
  split; [|split]; intros r t D; (split; [destruct D as [A B C]; constructor; [exact A|exact B|exact C]|constructor; auto]).
Qed.

(* ---- one object ---------------------------------------------------------------------- *)
Record ObjOk (d : database) (o : sobj) : Prop := {
  oo_trie : o_trie o = None -> open_stor d (a_root (o_data o)) <> None;
  oo_root : a_root (o_data o) = root_stor (get_trie d o);
  oo_sorted : sorted (get_trie d o);
  oo_nz : nz (get_trie d o);
  oo_origin : forall k v, find (o_origin o) k = Some v -> slot (get_trie d o) k = v;
  oo_pending : forall k, find (o_pending o) k <> None -> find (o_origin o) k <> None;
  oo_dirty : forall k, find (o_dirty o) k <> None -> find (o_origin o) k <> None;
  oo_code : forall c, o_codec o = Some c -> a_code (o_data o) = h_code c;
  oo_dlgs : forall l, o_dlgs o = Some l -> a_dhash (o_data o) = dh_of l;
  oo_dcode : o_dirtyCode o = true -> o_codec o <> None;
  oo_ddlgs : o_dirtyDlgs o = true -> o_dlgs o <> None }.

Lemma get_trie_le d d' o : db_le d d' -> ObjOk d o -> get_trie d' o = get_trie d o.
Proof.
  intros L O. unfold get_trie. destruct (o_trie o) eqn:E; [reflexivity|].
  pose proof (oo_trie d o O E) as H. destruct (open_stor d (a_root (o_data o))) eqn:Eo; [|contradiction].
  rewrite (le_stor d d' L _ _ Eo). reflexivity.
Qed.

Lemma objok_le d d' o : db_le d d' -> ObjOk d o -> ObjOk d' o.
Proof.
  intros L O. pose proof (get_trie_le d d' o L O) as G. destruct O as [A B C D E F G' H I J K].
  constructor; rewrite ?G; try assumption.
  intros Ht. specialize (A Ht). destruct (open_stor d (a_root (o_data o))) eqn:Eo; [|contradiction].
  rewrite (le_stor d d' L _ _ Eo). discriminate.
Qed.

(* an object built from resolvable account data *)
Definition Resolved (d : database) (x : acct) : Prop :=
  open_stor d (a_root x) <> None /\ code_of d (a_code x) <> None /\ dlgs_of d (a_dhash x) <> None.

Lemma objok_new d x : DbOk d -> open_stor d (a_root x) <> None -> ObjOk d (new_object x).
Proof.
  intros D H. destruct (open_stor d (a_root x)) as [t|] eqn:Eo; [|contradiction].
  destruct (open_stor_ok d _ _ D Eo) as (Hr & Hs & Hn).
  constructor; unfold get_trie; cbn [new_object o_trie o_data o_origin o_pending o_dirty o_codec o_dlgs o_dirtyCode o_dirtyDlgs];
    rewrite ?Eo; try assumption; try discriminate; try (intros; discriminate).
  - intros k Hk. exact Hk.
  - intros k Hk. exact Hk.
Qed.

Lemma open_stor_empty d : open_stor d (root_stor []) = Some [].
Proof. unfold open_stor. rewrite heqb_refl. reflexivity. Qed.

Lemma objok_fresh d : DbOk d -> ObjOk d (new_object empty_acct).
Proof. intros D. apply objok_new; [exact D|]. cbn. rewrite open_stor_empty. discriminate. Qed.

(* changing nonce / balance / delegation balance *)
Lemma objok_set_scalar d o x : ObjOk d o -> a_root x = a_root (o_data o) -> a_code x = a_code (o_data o) ->
  a_dhash x = a_dhash (o_data o) -> ObjOk d (set_data x o).
Proof.
  intros [A B C D E F G H I J K] Hr Hc Hd.
  constructor; unfold get_trie in *; cbn [set_data o_trie o_data o_origin o_pending o_dirty o_codec o_dlgs o_dirtyCode o_dirtyDlgs];
    rewrite ?Hr, ?Hc, ?Hd; assumption.
Qed.

(* storage reads *)
Lemma slot_find (t : list (N * N)) k : nz t -> (find t k = None <-> slot t k = 0).
Proof.
  intros Hn. unfold slot. destruct (find t k) as [v|] eqn:E; [|tauto].
  split; [discriminate|]. intros ->. exfalso. exact (Hn k 0 E eq_refl).
Qed.

Definition same_but_stor (o o1 : sobj) : Prop :=
  o_data o1 = o_data o /\ o_codec o1 = o_codec o /\ o_dlgs o1 = o_dlgs o /\ o_dirtyCode o1 = o_dirtyCode o /\
  o_dirtyDlgs o1 = o_dirtyDlgs o /\ o_suicided o1 = o_suicided o /\ o_deleted o1 = o_deleted o.
Lemma same_but_stor_refl o : same_but_stor o o.
Proof. repeat split; reflexivity. Qed.

Definition CacheOk (d : database) (o : sobj) (k : N) (o1 : sobj) : Prop :=
  ObjOk d o1 /\ same_but_stor o o1 /\ o_dirty o1 = o_dirty o /\ o_pending o1 = o_pending o /\
  get_trie d o1 = get_trie d o /\
  (forall k', get_state d o1 k' = get_state d o k') /\
  (find (o_dirty o) k = None -> find (o_pending o1) k <> None \/ find (o_origin o1) k <> None).

Lemma cache_origin_ok d o k : DbOk d -> ObjOk d o -> CacheOk d o k (cache_origin d o k).
Proof.
  intros D O. unfold cache_origin, CacheOk.
  destruct (find (o_pending o) k) eqn:Ep.
  { split; [exact O|]. split; [apply same_but_stor_refl|]. split; [reflexivity|]. split; [reflexivity|].
    split; [reflexivity|]. split; [reflexivity|]. intros _. left. rewrite Ep. discriminate. }
  destruct (find (o_origin o) k) eqn:Eo.
  { split; [exact O|]. split; [apply same_but_stor_refl|]. split; [reflexivity|]. split; [reflexivity|].
    split; [reflexivity|]. split; [reflexivity|]. intros _. right. rewrite Eo. discriminate. }
  assert (G : get_trie d (set_stor (ins (o_origin o) k (slot (get_trie d o) k)) (o_pending o) (o_dirty o) (Some (get_trie d o)) o)
              = get_trie d o) by reflexivity.
  split; [|split; [|split; [|split; [|split; [|split]]]]]; try reflexivity.
  - destruct O as [A B C D' E F G' H I J K].
    constructor; rewrite ?G; cbn [set_stor o_trie o_data o_origin o_pending o_dirty o_codec o_dlgs o_dirtyCode o_dirtyDlgs];
      try assumption; try discriminate.
    + intros k' v. rewrite find_ins. destruct (N.eqb k' k) eqn:E1; [|apply E].
      assert (k' = k) by lia. subst. intros [= <-]. reflexivity.
    + intros k' H1. rewrite find_ins. destruct (N.eqb k' k); [discriminate|apply F; exact H1].
    + intros k' H1. rewrite find_ins. destruct (N.eqb k' k); [discriminate|apply G'; exact H1].
  - repeat split; reflexivity.
  - intros k'. unfold get_state, get_committed. rewrite G.
    cbn [set_stor o_dirty o_pending o_origin]. destruct (find (o_dirty o) k'); [reflexivity|].
    destruct (find (o_pending o) k'); [reflexivity|]. rewrite find_ins.
    destruct (N.eqb k' k) eqn:E1; [|reflexivity]. assert (k' = k) by lia. subst. rewrite Eo. reflexivity.
  - intros _. right. cbn. rewrite find_ins, N.eqb_refl. discriminate.
Qed.

Lemma obj_set_state_ok d o k v : DbOk d -> ObjOk d o ->
  ObjOk d (fst (obj_set_state d o k v)) /\ same_but_stor o (fst (obj_set_state d o k v)).
Proof.
  intros D O. unfold obj_set_state.
  set (o1 := match find (o_dirty o) k with Some _ => o | None => cache_origin d o k end).
  assert (H1 : ObjOk d o1 /\ same_but_stor o o1 /\ get_trie d o1 = get_trie d o /\
               (find (o_dirty o1) k <> None \/ find (o_pending o1) k <> None \/ find (o_origin o1) k <> None)).
  { unfold o1. destruct (find (o_dirty o) k) eqn:Ed.
    - split; [exact O|]. split; [apply same_but_stor_refl|]. split; [reflexivity|]. left. rewrite Ed. discriminate.
    - destruct (cache_origin_ok d o k D O) as (A & B & C & E & F & G & H).
      split; [exact A|]. split; [exact B|]. split; [exact F|]. right. apply H. exact Ed. }
  destruct H1 as (O1 & S1 & G1 & Hk).
  destruct (N.eqb (get_state d o k) v); cbn [fst]; [split; assumption|].
  split.
  - assert (G : get_trie d (set_stor (o_origin o1) (o_pending o1) (ins (o_dirty o1) k v) (o_trie o1) o1) = get_trie d o1) by reflexivity.
    destruct O1 as [A B C D' E F G' H I J K].
    constructor; rewrite ?G; cbn [set_stor o_trie o_data o_origin o_pending o_dirty o_codec o_dlgs o_dirtyCode o_dirtyDlgs];
      try assumption.
    intros k' Hk'. rewrite find_ins in Hk'. destruct (N.eqb k' k) eqn:E1; [|apply G'; exact Hk'].
    assert (k' = k) by lia. subst k'. destruct Hk as [Hk|[Hk|Hk]]; [apply G'; exact Hk|apply F; exact Hk|exact Hk].
  - destruct S1 as (A & B & C & E & F & G & H). repeat split; assumption.
Qed.

Lemma find_merge base upd k :
  find (merge base upd) k <> None -> find base k <> None \/ find upd k <> None.
Proof.
  unfold merge. revert base. induction upd as [|[k1 v1] r IH]; intros base; cbn [fold_left]; [auto|].
  intros H. apply IH in H. destruct H as [H|H].
  - cbn [fst snd] in H. rewrite find_ins in H. destruct (N.eqb k k1) eqn:E.
    + right. cbn. destruct (N.eqb k1 k) eqn:E'; [discriminate|lia].
    + left. exact H.
  - right. cbn. destruct (N.eqb k1 k); [discriminate|exact H].
Qed.

Lemma obj_finalise_ok d o : ObjOk d o ->
  ObjOk d (obj_finalise o) /\ same_but_stor o (obj_finalise o) /\ o_dirty (obj_finalise o) = [] /\
  get_trie d (obj_finalise o) = get_trie d o /\ o_trie (obj_finalise o) = o_trie o.
Proof.
  intros O. unfold obj_finalise. split; [|split; [repeat split; reflexivity|split; [reflexivity|split; reflexivity]]].
  assert (G : get_trie d (set_stor (o_origin o) (merge (o_pending o) (o_dirty o)) [] (o_trie o) o) = get_trie d o) by reflexivity.
  destruct O as [A B C D' E F G' H I J K].
  constructor; rewrite ?G; cbn [set_stor o_trie o_data o_origin o_pending o_dirty o_codec o_dlgs o_dirtyCode o_dirtyDlgs];
    try assumption.
  - intros k Hk. apply find_merge in Hk. destruct Hk; [apply F|apply G']; assumption.
  - intros k Hk. cbn in Hk. contradiction.
Qed.

Lemma obj_set_state_unchanged d o k v : DbOk d -> ObjOk d o -> snd (obj_set_state d o k v) = false ->
  o_dirty (fst (obj_set_state d o k v)) = o_dirty o /\ o_pending (fst (obj_set_state d o k v)) = o_pending o /\
  get_trie d (fst (obj_set_state d o k v)) = get_trie d o.
Proof.
  intros D O. unfold obj_set_state. destruct (N.eqb (get_state d o k) v); cbn [fst snd]; [|discriminate].
  intros _. destruct (find (o_dirty o) k); [repeat split; reflexivity|].
  destruct (cache_origin_ok d o k D O) as (A & B & C & E & F & G & H). repeat split; assumption.
Qed.

Lemma objok_set_flags d o su de : ObjOk d o -> ObjOk d (set_flags su de o).
Proof. intros [A B C D E F G H I J K]. constructor; assumption. Qed.

Lemma objok_obj_set_code d o c : ObjOk d o -> ObjOk d (obj_set_code c o).
Proof.
  intros [A B C D E F G H I J K]. unfold obj_set_code.
  constructor; unfold get_trie in *;
    cbn [set_code set_data with_codeh o_trie o_data o_origin o_pending o_dirty o_codec o_dlgs o_dirtyCode o_dirtyDlgs a_root a_code a_dhash];
    try assumption.
  - intros c' [= <-]. reflexivity.
  - discriminate.
Qed.
Lemma objok_cache_code d o x : ObjOk d o -> o_codec o = None ->
  (forall c, x = Some c -> a_code (o_data o) = h_code c) -> ObjOk d (set_code x (o_dirtyCode o) o).
Proof.
  intros [A B C D E F G H I J K] Hn Hx.
  constructor; unfold get_trie in *;
    cbn [set_code o_trie o_data o_origin o_pending o_dirty o_codec o_dlgs o_dirtyCode o_dirtyDlgs]; try assumption.
  intros Hd. apply J in Hd. rewrite Hn in Hd. contradiction.
Qed.

Lemma objok_update_delegation_to d v de o o1 : DbOk d -> ObjOk d o ->
  obj_update_delegation_to d v de o = Some o1 ->
  ObjOk d o1 /\ a_code (o_data o1) = a_code (o_data o) /\ o_dirtyCode o1 = o_dirtyCode o /\
  o_deleted o1 = o_deleted o /\
  (o_dirtyDlgs o1 = false -> o_dirtyDlgs o = false /\ a_dhash (o_data o1) = a_dhash (o_data o)).
Proof.
  intros D O. unfold obj_update_delegation_to.
  destruct (obj_delegations d o) as [l|] eqn:El; [|discriminate].
  assert (Hl : a_dhash (o_data o) = dh_of l).
  { unfold obj_delegations in El. destruct (o_dlgs o) as [l'|] eqn:E.
    - injection El as <-. apply (oo_dlgs d o O l' E).
    - apply (dlgs_of_ok d _ _ D El). }
  assert (O0 : ObjOk d (set_dlgs (Some l) (o_dirtyDlgs o) o)).
  { destruct O as [A B C D' E F G H I J K].
    constructor; unfold get_trie in *;
      cbn [set_dlgs o_trie o_data o_origin o_pending o_dirty o_codec o_dlgs o_dirtyCode o_dirtyDlgs]; try assumption.
    - intros l' [= <-]. exact Hl.
    - discriminate. }
  assert (Hupd : forall l', ObjOk d (obj_update_dlgs l' (set_dlgs (Some l) (o_dirtyDlgs o) o))).
  { intros l'. destruct O0 as [A B C D' E F G H I J K]. unfold obj_update_dlgs.
    constructor; unfold get_trie in *;
      cbn [set_dlgs set_data with_dhash o_trie o_data o_origin o_pending o_dirty o_codec o_dlgs o_dirtyCode o_dirtyDlgs a_root a_code a_dhash] in *;
      try assumption.
    - intros l'' [= <-]. destruct l'; reflexivity.
    - discriminate. }
  destruct (smem l v), de; intros [= <-];
    (split; [first [apply Hupd|exact O0]|]); cbn; repeat split; auto; try discriminate.
Qed.

(* the write loop of updateTrie *)
Lemma upd_slot_fold l : forall og t,
  sorted t -> nz t -> (forall k v, find og k = Some v -> slot t k = v) ->
  let r := fold_left upd_slot l (og, t) in
  sorted (snd r) /\ nz (snd r) /\ (forall k v, find (fst r) k = Some v -> slot (snd r) k = v).
Proof.
  induction l as [|[k v] r IH]; intros og t Hs Hn Ho; cbn [fold_left]; [auto|].
  assert (Hu : upd_slot (og, t) (k, v) =
               if N.eqb v (slot og k) then (og, t) else (ins og k v, if N.eqb v 0 then del t k else ins t k v)) by reflexivity.
  rewrite Hu. clear Hu.
  destruct (N.eqb v (slot og k)) eqn:E; [apply IH; assumption|].
  apply IH.
  - destruct (N.eqb v 0); [apply sorted_del|apply sorted_ins]; exact Hs.
  - intros k' v'. destruct (N.eqb v 0) eqn:E0.
    + rewrite find_del by exact Hs. destruct (N.eqb k' k); [discriminate|apply Hn].
    + rewrite find_ins. destruct (N.eqb k' k); [intros [= <-]; lia|apply Hn].
  - intros k' v'. rewrite find_ins. unfold slot. destruct (N.eqb k' k) eqn:E1.
    + assert (k' = k) by lia. subst k'. intros [= <-]. destruct (N.eqb v 0) eqn:E0.
      * rewrite find_del by exact Hs. rewrite N.eqb_refl. lia.
      * rewrite find_ins, N.eqb_refl. reflexivity.
    + intros H. specialize (Ho k' v' H). unfold slot in Ho. destruct (N.eqb v 0).
      * rewrite find_del by exact Hs. rewrite E1. exact Ho.
      * rewrite find_ins, E1. exact Ho.
Qed.

Definition same_but_root (o o1 : sobj) : Prop :=
  a_nonce (o_data o1) = a_nonce (o_data o) /\ a_bal (o_data o1) = a_bal (o_data o) /\
  a_code (o_data o1) = a_code (o_data o) /\ a_dbal (o_data o1) = a_dbal (o_data o) /\
  a_dhash (o_data o1) = a_dhash (o_data o) /\
  o_codec o1 = o_codec o /\ o_dlgs o1 = o_dlgs o /\ o_dirtyCode o1 = o_dirtyCode o /\
  o_dirtyDlgs o1 = o_dirtyDlgs o /\ o_suicided o1 = o_suicided o /\ o_deleted o1 = o_deleted o.

Lemma obj_update_root_ok d o : DbOk d -> ObjOk d o ->
  let o1 := obj_update_root d o in
  ObjOk d o1 /\ same_but_root o o1 /\ o_dirty o1 = [] /\ o_pending o1 = [] /\ o_trie o1 = Some (get_trie d o1).
Proof.
  intros D O. unfold obj_update_root, obj_update_trie.
  destruct (obj_finalise_ok d o O) as (O1 & S1 & D1 & G1 & T1).
  set (of := obj_finalise o) in *.
  destruct (upd_slot_fold (o_pending of) (o_origin of) (get_trie d of) (oo_sorted d of O1) (oo_nz d of O1) (oo_origin d of O1))
    as (Hs & Hn & Ho).
  destruct (fold_left upd_slot (o_pending of) (o_origin of, get_trie d of)) as [og t'] eqn:Ef.
  cbn [fst snd] in *. cbn zeta.
  split; [|split; [|split; [reflexivity|split; reflexivity]]].
  - destruct O1 as [A B C D' E F G' H I J K].
    constructor; unfold get_trie;
      cbn [set_data set_stor with_root o_trie o_data o_origin o_pending o_dirty o_codec o_dlgs o_dirtyCode o_dirtyDlgs a_root a_code a_dhash];
      try assumption; try discriminate; try reflexivity.
    + intros k Hk. cbn in Hk. contradiction.
    + intros k Hk. cbn in Hk. contradiction.
  - destruct S1 as (A & B & C & E & F & G & H).
    unfold same_but_root; cbn [set_data set_stor with_root o_data o_codec o_dlgs o_dirtyCode o_dirtyDlgs o_suicided o_deleted a_nonce a_bal a_code a_dbal a_dhash].
    rewrite A. repeat split; assumption.
Qed.

(* with nothing pending, updateTrie only opens the trie *)
Lemma obj_update_trie_clean d o : ObjOk d o -> o_dirty o = [] -> o_pending o = [] ->
  obj_update_trie d o = set_stor (o_origin o) [] [] (Some (get_trie d o)) o.
Proof.
  intros O Hd Hp. unfold obj_update_trie, obj_finalise. rewrite Hd, Hp. cbn. reflexivity.
Qed.

(* ---- what an object shows ------------------------------------------------------------------ *)
Definition stor_res (d : database) (o : sobj) : Prop := open_stor d (a_root (o_data o)) = Some (get_trie d o).
Definition code_res (d : database) (o : sobj) : Prop := code_of d (a_code (o_data o)) <> None.
Definition dlgs_res (d : database) (o : sobj) : Prop := dlgs_of d (a_dhash (o_data o)) <> None.

Lemma obj_code_spec d o : obj_code d o =
  match o_codec o with Some c => c | None => match code_of d (a_code (o_data o)) with Some c => c | None => [] end end.
Proof.
  unfold obj_code, code_of. destruct (o_codec o); [reflexivity|].
  destruct (heqb (a_code (o_data o)) (h_code [])); reflexivity.
Qed.
Lemma obj_delegations_spec d o : obj_delegations d o =
  match o_dlgs o with Some l => Some l | None => dlgs_of d (a_dhash (o_data o)) end.
Proof. reflexivity. Qed.

(* the code hash and the delegation hash are the hashes of what the object shows *)
Lemma obj_code_hash d o : DbOk d -> ObjOk d o -> (o_codec o = None -> code_res d o) ->
  a_code (o_data o) = h_code (obj_code d o).
Proof.
  intros D O H. rewrite obj_code_spec. destruct (o_codec o) as [c|] eqn:Ec; [apply (oo_code d o O c Ec)|].
  specialize (H eq_refl). unfold code_res in H. destruct (code_of d (a_code (o_data o))) eqn:E; [|contradiction].
  apply (code_of_ok d _ _ D E).
Qed.
Lemma obj_dlgs_hash d o : DbOk d -> ObjOk d o -> (o_dlgs o = None -> dlgs_res d o) ->
  exists l, obj_delegations d o = Some l /\ a_dhash (o_data o) = dh_of l.
Proof.
  intros D O H. rewrite obj_delegations_spec. destruct (o_dlgs o) as [l|] eqn:El.
  - exists l. split; [reflexivity|apply (oo_dlgs d o O l El)].
  - specialize (H eq_refl). unfold dlgs_res in H. destruct (dlgs_of d (a_dhash (o_data o))) as [l|] eqn:E; [|contradiction].
    exists l. split; [reflexivity|apply (dlgs_of_ok d _ _ D E)].
Qed.

(* a settled object (nothing dirty or pending) reads its storage trie *)
Lemma settled_reads d o k : ObjOk d o -> o_dirty o = [] -> o_pending o = [] ->
  get_state d o k = slot (get_trie d o) k.
Proof.
  intros O Hd Hp. unfold get_state, get_committed. rewrite Hd, Hp. cbn.
  destruct (find (o_origin o) k) eqn:E; [|reflexivity]. symmetry. apply (oo_origin d o O k n E).
Qed.

(* a settled, fully stored object shows exactly what an object rebuilt from its account data shows *)
Lemma settled_equiv d o : DbOk d -> ObjOk d o -> o_dirty o = [] -> o_pending o = [] ->
  stor_res d o -> code_res d o -> dlgs_res d o ->
  (forall k, get_state d (new_object (o_data o)) k = get_state d o k) /\
  obj_code d (new_object (o_data o)) = obj_code d o /\
  obj_delegations d (new_object (o_data o)) = obj_delegations d o.
Proof.
  intros D O Hd Hp Hs Hc Hl. split; [|split].
  - intros k. rewrite (settled_reads d o k O Hd Hp).
    unfold get_state, get_committed, get_trie at 1. cbn [new_object o_dirty o_pending o_origin o_trie o_data find].
    unfold stor_res in Hs. rewrite Hs. reflexivity.
  - rewrite !obj_code_spec. cbn [new_object o_codec o_data].
    unfold code_res in Hc. destruct (code_of d (a_code (o_data o))) as [c|] eqn:E; [|contradiction].
    destruct (o_codec o) as [c'|] eqn:Ec; [|reflexivity].
    pose proof (oo_code d o O c' Ec) as H1. pose proof (code_of_ok d _ _ D E) as H2.
    rewrite H1 in H2. apply h_code_inj in H2. symmetry. exact H2.
  - rewrite !obj_delegations_spec. cbn [new_object o_dlgs o_data].
    unfold dlgs_res in Hl. destruct (dlgs_of d (a_dhash (o_data o))) as [l|] eqn:E; [|contradiction].
    destruct (o_dlgs o) as [l'|] eqn:El; [|reflexivity].
    pose proof (oo_dlgs d o O l' El) as H1. pose proof (dlgs_of_ok d _ _ D E) as H2.
    rewrite H1 in H2. f_equal. destruct l, l'; cbn in H2; try discriminate; [reflexivity|].
    injection H2 as H2. apply h_dlgs_inj in H2. symmetry. exact H2.
Qed.

(* ---- Commit of one object -------------------------------------------------------------------- *)
Definition commit_obj (d : database) (o : sobj) : database * sobj :=
  let '(d1, o1) := match o_codec o with
                   | Some c => if o_dirtyCode o then (db_add_code (a_code (o_data o)) c d, set_code (Some c) false o) else (d, o)
                   | None => (d, o)
                   end in
  let '(d2, o2) := if o_dirtyDlgs o1 then
                     match obj_delegations d1 o1 with
                     | Some (x :: r) => (match a_dhash (o_data o1) with
                                         | Some h => db_add_dlgs h (x :: r) d1
                                         | None => d1 end,
                                         set_dlgs (Some (x :: r)) false o1)
                     | Some [] => (d1, set_dlgs (Some []) false o1)
                     | None => (d1, o1)
                     end
                   else (d1, o1) in
  let o3 := obj_update_trie d2 o2 in
  let t := get_trie d2 o3 in
  let o4 := set_data (with_root (root_stor t) (o_data o3)) o3 in
  (db_add_stor (root_stor t) t d2, o4).

Lemma with_root_same (x : acct) : with_root (a_root x) x = x.
Proof. destruct x; reflexivity. Qed.

Lemma commit_obj_ok d o : DbOk d -> ObjOk d o -> o_dirty o = [] -> o_pending o = [] ->
  (o_dirtyCode o = false -> code_res d o) -> (o_dirtyDlgs o = false -> dlgs_res d o) ->
  let '(d', o4) := commit_obj d o in
  DbOk d' /\ db_le d d' /\ ObjOk d' o4 /\ o_data o4 = o_data o /\ o_deleted o4 = o_deleted o /\
  o_dirty o4 = [] /\ o_pending o4 = [] /\
  stor_res d' o4 /\ code_res d' o4 /\ dlgs_res d' o4 /\ o_dirtyCode o4 = false /\ o_dirtyDlgs o4 = false.
Proof.
  intros D O Hd Hp Hc Hl. unfold commit_obj.
  (* code *)
  set (p1 := match o_codec o with
             | Some c => if o_dirtyCode o then (db_add_code (a_code (o_data o)) c d, set_code (Some c) false o) else (d, o)
             | None => (d, o) end).
  assert (H1 : DbOk (fst p1) /\ db_le d (fst p1) /\ ObjOk (fst p1) (snd p1) /\ o_data (snd p1) = o_data o /\
               o_deleted (snd p1) = o_deleted o /\ o_dirty (snd p1) = [] /\ o_pending (snd p1) = [] /\
               code_res (fst p1) (snd p1) /\ o_dirtyCode (snd p1) = false /\ o_dirtyDlgs (snd p1) = o_dirtyDlgs o /\
               o_dlgs (snd p1) = o_dlgs o).
  { unfold p1. destruct (o_codec o) as [c|] eqn:Ec.
    - destruct (o_dirtyCode o) eqn:Edc; cbn [fst snd].
      + rewrite (oo_code d o O c Ec). destruct (db_add_code_ok d c D) as (D1 & L1 & R1).
        split; [exact D1|]. split; [exact L1|].
        pose proof (objok_le d _ o L1 O) as O'. split.
        * destruct O' as [A B C D' E F G H I J K].
          constructor; unfold get_trie in *;
            cbn [set_code o_trie o_data o_origin o_pending o_dirty o_codec o_dlgs o_dirtyCode o_dirtyDlgs]; try assumption;
            try discriminate.
          intros c0 [= <-]. apply (oo_code d o O c Ec).
        * repeat split; try assumption; try reflexivity.
          unfold code_res. cbn [set_code o_data]. rewrite (oo_code d o O c Ec), R1. discriminate.
      + split; [exact D|]. split; [apply db_le_refl|]. split; [exact O|]. repeat split; auto.
    - cbn [fst snd]. split; [exact D|]. split; [apply db_le_refl|]. split; [exact O|].
      assert (Edc : o_dirtyCode o = false).
      { destruct (o_dirtyCode o) eqn:E; [|reflexivity]. exfalso. apply (oo_dcode d o O E). exact Ec. }
      repeat split; auto. }
  destruct p1 as [d1 o1]. cbn [fst snd] in H1.
  destruct H1 as (D1 & L1 & O1 & Hdata1 & Hdel1 & Hd1 & Hp1 & Hc1 & Hdc1 & Hdd1 & Hdl1).
  (* delegations *)
  set (p2 := if o_dirtyDlgs o1 then _ else (d1, o1)).
  assert (H2 : DbOk (fst p2) /\ db_le d1 (fst p2) /\ ObjOk (fst p2) (snd p2) /\ o_data (snd p2) = o_data o /\
               o_deleted (snd p2) = o_deleted o /\ o_dirty (snd p2) = [] /\ o_pending (snd p2) = [] /\
               dlgs_res (fst p2) (snd p2) /\ o_dirtyCode (snd p2) = false /\ o_dirtyDlgs (snd p2) = false).
  { unfold p2. destruct (o_dirtyDlgs o1) eqn:Edd.
    - pose proof (oo_ddlgs d1 o1 O1 Edd) as Hne. unfold obj_delegations.
      destruct (o_dlgs o1) as [l|] eqn:El; [|contradiction].
      pose proof (oo_dlgs d1 o1 O1 l El) as Hh.
      assert (Hobj : forall dd, db_le d1 dd -> ObjOk dd (set_dlgs (Some l) false o1)).
      { intros dd Ldd. pose proof (objok_le d1 dd o1 Ldd O1) as O'. destruct O' as [A B C D' E F G H I J K].
        constructor; unfold get_trie in *;
          cbn [set_dlgs o_trie o_data o_origin o_pending o_dirty o_codec o_dlgs o_dirtyCode o_dirtyDlgs]; try assumption.
        - intros l' [= <-]. exact Hh.
        - discriminate. }
      destruct l as [|x r]; cbn [fst snd].
      + split; [exact D1|]. split; [apply db_le_refl|]. split; [apply Hobj, db_le_refl|].
        repeat split; try assumption. unfold dlgs_res. cbn [set_dlgs o_data]. rewrite Hh. cbn. discriminate.
      + rewrite Hh. cbn [dh_of]. destruct (db_add_dlgs_ok d1 (x :: r) D1 ltac:(discriminate)) as (D2 & L2 & R2).
        split; [exact D2|]. split; [exact L2|]. split; [apply Hobj; exact L2|].
        repeat split; try assumption. unfold dlgs_res. cbn [set_dlgs o_data]. rewrite Hh. cbn [dh_of]. rewrite R2. discriminate.
    - cbn [fst snd]. split; [exact D1|]. split; [apply db_le_refl|]. split; [exact O1|].
      repeat split; try assumption.
      unfold dlgs_res. rewrite Hdata1. specialize (Hl (eq_sym Hdd1)). unfold dlgs_res in Hl.
      destruct (dlgs_of d (a_dhash (o_data o))) eqn:E; [|contradiction].
      rewrite (le_dlgs d d1 L1 _ _ E). discriminate. }
  assert (Hcode2 : code_res (fst p2) (snd p2)).
  { destruct H2 as (_ & L2 & _ & Hdata2 & _). unfold code_res in *. rewrite Hdata2. rewrite Hdata1 in Hc1.
    destruct (code_of d1 (a_code (o_data o))) eqn:E; [|contradiction]. rewrite (le_code d1 _ L2 _ _ E). discriminate. }
  destruct p2 as [d2 o2]. cbn [fst snd] in H2, Hcode2.
  destruct H2 as (D2 & L2 & O2 & Hdata2 & Hdel2 & Hd2 & Hp2 & Hl2 & Hdc2 & Hdd2).
  (* storage trie *)
  rewrite (obj_update_trie_clean d2 o2 O2 Hd2 Hp2).
  set (o3 := set_stor (o_origin o2) [] [] (Some (get_trie d2 o2)) o2).
  assert (G3 : get_trie d2 o3 = get_trie d2 o2) by reflexivity.
  rewrite G3. rewrite <- (oo_root d2 o2 O2).
  assert (Hdata3 : o_data o3 = o_data o2) by reflexivity.
  rewrite Hdata3, with_root_same.
  destruct (db_add_stor_ok d2 (get_trie d2 o2) D2 (oo_sorted d2 o2 O2) (oo_nz d2 o2 O2)) as (D3 & L3 & R3).
  rewrite <- (oo_root d2 o2 O2) in D3, L3, R3.
  set (d3 := db_add_stor (a_root (o_data o2)) (get_trie d2 o2) d2) in *.
  assert (O3 : ObjOk d3 (set_data (o_data o2) o3)).
  { pose proof (objok_le d2 d3 o2 L3 O2) as O'. pose proof (get_trie_le d2 d3 o2 L3 O2) as G.
    destruct O' as [A B C D' E F G' H I J K]. rewrite G in *.
    constructor; unfold get_trie;
      cbn [o3 set_data set_stor o_trie o_data o_origin o_pending o_dirty o_codec o_dlgs o_dirtyCode o_dirtyDlgs]; try assumption;
      try discriminate; intros k Hk; cbn in Hk; contradiction. }
  split; [exact D3|]. split; [eapply db_le_trans; [exact L1|eapply db_le_trans; [exact L2|exact L3]]|].
  split; [exact O3|]. split; [exact Hdata2|]. split; [exact Hdel2|]. split; [reflexivity|]. split; [reflexivity|].
  split; [exact R3|]. split.
  - unfold code_res in *. cbn [set_data o_data].
    destruct (code_of d2 (a_code (o_data o2))) eqn:E; [|contradiction]. rewrite (le_code d2 d3 L3 _ _ E). discriminate.
  - split; [|split; [exact Hdc2|exact Hdd2]].
    unfold dlgs_res in *. cbn [set_data o_data].
    destruct (dlgs_of d2 (a_dhash (o_data o2))) eqn:E; [|contradiction]. rewrite (le_dlgs d2 d3 L3 _ _ E). discriminate.
Qed.
End Obj.
