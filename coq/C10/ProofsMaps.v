(* C10 - lemmas about the sorted association lists and sets of Model.v *)
From VF.C10 Require Import Model.
From Coq Require Import Lia ZifyBool ZifyN.
Local Open Scope N_scope.

Section MapLemmas.
Context {V : Type}.
Implicit Types m : list (N * V).

(* every key of m is above k *)
Definition lb (k : N) m : Prop := forall k' v, In (k', v) m -> k < k'.
Inductive sorted : list (N * V) -> Prop :=
| sorted_nil : sorted []
| sorted_cons k v m : sorted m -> lb k m -> sorted ((k, v) :: m).

Lemma lb_find_none k m : lb k m -> forall k', k' <= k -> find m k' = None.
Proof.
  induction m as [|[k1 v1] r IH]; intros Hlb k' Hle; cbn; [reflexivity|].
  assert (k < k1) by (apply (Hlb k1 v1); left; reflexivity).
  destruct (N.eqb k1 k') eqn:E; [lia|].
  apply IH; [|exact Hle]. intros k2 v2 Hin. apply (Hlb k2 v2). right; exact Hin.
Qed.

Lemma find_in m k v : find m k = Some v -> In (k, v) m.
Proof.
  induction m as [|[k1 v1] r IH]; cbn; [discriminate|].
  destruct (N.eqb k1 k) eqn:E.
  - intros [= <-]. left. f_equal. lia.
  - intros H. right. apply IH; exact H.
Qed.

Lemma in_find m k v : sorted m -> In (k, v) m -> find m k = Some v.
Proof.
  induction 1 as [|k1 v1 r Hs IH Hlb]; cbn; [tauto|].
  intros [H|H].
  - injection H as -> ->. rewrite N.eqb_refl. reflexivity.
  - destruct (N.eqb k1 k) eqn:E; [|apply IH; exact H].
    apply Hlb in H. lia.
Qed.

Lemma find_ins m k v k' : find (ins m k v) k' = if N.eqb k' k then Some v else find m k'.
Proof.
  induction m as [|[k1 v1] r IH]; cbn.
  - destruct (N.eqb k k') eqn:E, (N.eqb k' k) eqn:E'; try reflexivity; lia.
  - destruct (N.ltb k k1) eqn:L; cbn.
    + destruct (N.eqb k k') eqn:E, (N.eqb k' k) eqn:E'; try reflexivity; lia.
    + destruct (N.eqb k1 k) eqn:E1; cbn.
      * destruct (N.eqb k k') eqn:E, (N.eqb k' k) eqn:E'; try reflexivity; try lia.
        destruct (N.eqb k1 k') eqn:E2; [lia|reflexivity].
      * destruct (N.eqb k1 k') eqn:E2.
        -- destruct (N.eqb k' k) eqn:E'; [lia|reflexivity].
        -- exact IH.
Qed.

Lemma in_ins m k v k' v' : In (k', v') (ins m k v) -> (k' = k /\ v' = v) \/ In (k', v') m.
Proof.
  induction m as [|[k1 v1] r IH]; cbn.
  - intros [H|[]]. injection H as <- <-. left; split; reflexivity.
  - destruct (N.ltb k k1) eqn:L.
    + intros [H|H]; [injection H as <- <-; left; split; reflexivity|right; exact H].
    + destruct (N.eqb k1 k) eqn:E1.
      * intros [H|H]; [injection H as <- <-; left; split; reflexivity|right; right; exact H].
      * intros [H|H]; [right; left; exact H|].
        apply IH in H. destruct H as [H|H]; [left; exact H|right; right; exact H].
Qed.

Lemma sorted_ins m k v : sorted m -> sorted (ins m k v).
Proof.
  induction 1 as [|k1 v1 r Hs IH Hlb]; cbn.
  - constructor; [constructor|]. intros ? ? [].
  - destruct (N.ltb k k1) eqn:L.
    + constructor; [constructor; assumption|].
      intros k2 v2 [H|H]; [injection H as <- <-; lia|]. apply Hlb in H. lia.
    + destruct (N.eqb k1 k) eqn:E1.
      * assert (k1 = k) by lia. subst k1. constructor; assumption.
      * constructor; [exact IH|].
        intros k2 v2 H. apply in_ins in H. destruct H as [[-> _]|H]; [lia|].
        apply (Hlb k2 v2); exact H.
Qed.

Lemma in_del m k k' v' : In (k', v') (del m k) -> In (k', v') m.
Proof.
  induction m as [|[k1 v1] r IH]; cbn; [tauto|].
  destruct (N.eqb k1 k); [intros H; right; exact H|].
  intros [H|H]; [left; exact H|right; apply IH; exact H].
Qed.

Lemma sorted_del m k : sorted m -> sorted (del m k).
Proof.
  induction 1 as [|k1 v1 r Hs IH Hlb]; cbn; [constructor|].
  destruct (N.eqb k1 k); [exact Hs|].
  constructor; [exact IH|]. intros k2 v2 H. apply in_del in H. apply (Hlb k2 v2); exact H.
Qed.

Lemma find_del m k k' : sorted m -> find (del m k) k' = if N.eqb k' k then None else find m k'.
Proof.
  induction 1 as [|k1 v1 r Hs IH Hlb]; cbn.
  - destruct (N.eqb k' k); reflexivity.
  - destruct (N.eqb k1 k) eqn:E1; cbn.
    + assert (k1 = k) by lia. subst k1.
      destruct (N.eqb k' k) eqn:E'.
      * assert (k' = k) by lia. subst k'. apply (lb_find_none k r Hlb). lia.
      * destruct (N.eqb k k') eqn:E2; [lia|reflexivity].
    + destruct (N.eqb k1 k') eqn:E2.
      * destruct (N.eqb k' k) eqn:E'; [lia|reflexivity].
      * exact IH.
Qed.

Lemma sorted_ext m1 m2 : sorted m1 -> sorted m2 -> (forall k, find m1 k = find m2 k) -> m1 = m2.
Proof.
  intros H1; revert m2. induction H1 as [|k1 v1 r1 Hs1 IH Hlb1]; intros m2 H2 Hext.
  - destruct H2 as [|k2 v2 r2 Hs2 Hlb2]; [reflexivity|].
    specialize (Hext k2). cbn in Hext. rewrite N.eqb_refl in Hext. discriminate.
  - destruct H2 as [|k2 v2 r2 Hs2 Hlb2].
    + specialize (Hext k1). cbn in Hext. rewrite N.eqb_refl in Hext. discriminate.
    + assert (k1 = k2).
      { pose proof (Hext k1) as A. pose proof (Hext k2) as B. cbn in A, B.
        rewrite N.eqb_refl in A, B.
        destruct (N.eqb k2 k1) eqn:E; [lia|].
        destruct (N.eqb k1 k2) eqn:E'; [lia|].
        symmetry in A. apply find_in in A. apply Hlb2 in A.
        apply find_in in B. apply Hlb1 in B. lia. }
      subst k2.
      assert (v1 = v2).
      { pose proof (Hext k1) as A. cbn in A. rewrite N.eqb_refl in A. injection A as ->. reflexivity. }
      subst v2. f_equal. apply IH; [exact Hs2|].
      intros k. pose proof (Hext k) as A. cbn in A.
      destruct (N.eqb k1 k) eqn:E; [|exact A].
      assert (k = k1) by lia. subst k.
      rewrite (lb_find_none k1 r1 Hlb1), (lb_find_none k1 r2 Hlb2); [reflexivity|lia|lia].
Qed.

Lemma ins_ins m k v v' : ins (ins m k v) k v' = ins m k v'.
Proof.
  induction m as [|[k1 v1] r IH]; cbn.
  - rewrite N.ltb_irrefl, N.eqb_refl. reflexivity.
  - destruct (N.ltb k k1) eqn:L; cbn.
    + rewrite N.ltb_irrefl, N.eqb_refl. reflexivity.
    + destruct (N.eqb k1 k) eqn:E1; cbn.
      * rewrite N.ltb_irrefl, N.eqb_refl. reflexivity.
      * rewrite L, E1, IH. reflexivity.
Qed.

Lemma find_none_notin m k : find m k = None -> forall v, ~ In (k, v) m.
Proof.
  induction m as [|[k1 v1] r IH]; cbn; [tauto|].
  destruct (N.eqb k1 k) eqn:E; [discriminate|].
  intros H v [H1|H1]; [injection H1 as -> _; lia|]. exact (IH H v H1).
Qed.
End MapLemmas.

(* encoded content *)
Section Menc.
Context {W : World} {A : Type} (e : A -> blob).
Lemma find_menc (m : list (N * A)) k : find (menc e m) k = option_map e (find m k).
Proof.
  induction m as [|[k1 v1] r IH]; cbn; [reflexivity|].
  destruct (N.eqb k1 k); [reflexivity|exact IH].
Qed.
End Menc.

(* ---- sets ------------------------------------------------------------------ *)
Lemma smem_sins l k x : smem (sins l k) x = N.eqb x k || smem l x.
Proof.
  induction l as [|y r IH]; cbn.
  - destruct (N.eqb k x) eqn:E, (N.eqb x k) eqn:E'; try reflexivity; lia.
  - destruct (N.ltb k y) eqn:L; cbn.
    + destruct (N.eqb k x) eqn:E, (N.eqb x k) eqn:E'; try reflexivity; lia.
    + destruct (N.eqb y k) eqn:E1; cbn.
      * destruct (N.eqb y x) eqn:E2, (N.eqb x k) eqn:E'; try reflexivity; lia.
      * destruct (N.eqb y x) eqn:E2.
        -- rewrite orb_true_r. reflexivity.
        -- exact IH.
Qed.

Definition slb (k : N) (l : list N) : Prop := forall x, In x l -> k < x.
Inductive ssorted : list N -> Prop :=
| ssorted_nil : ssorted []
| ssorted_cons k l : ssorted l -> slb k l -> ssorted (k :: l).

Lemma smem_in l x : smem l x = true <-> In x l.
Proof.
  induction l as [|y r IH]; cbn; [split; [discriminate|tauto]|].
  destruct (N.eqb y x) eqn:E.
  - split; [intros _; left; lia|reflexivity].
  - rewrite IH. split; [intros H; right; exact H|intros [H|H]; [lia|exact H]].
Qed.

Lemma in_sins l k x : In x (sins l k) <-> x = k \/ In x l.
Proof.
  rewrite <- !smem_in, smem_sins. destruct (N.eqb x k) eqn:E; cbn.
  - split; [intros _; left; lia|reflexivity].
  - split; [intros H; right; exact H|intros [H|H]; [lia|exact H]].
Qed.

Lemma ssorted_sins l k : ssorted l -> ssorted (sins l k).
Proof.
  induction 1 as [|y r Hs IH Hlb]; cbn.
  - constructor; [constructor|intros ? []].
  - destruct (N.ltb k y) eqn:L.
    + constructor; [constructor; assumption|].
      intros x [H|H]; [lia|]. apply Hlb in H. lia.
    + destruct (N.eqb y k) eqn:E1; [constructor; assumption|].
      constructor; [exact IH|]. intros x H. apply in_sins in H.
      destruct H as [->|H]; [lia|apply Hlb; exact H].
Qed.

Lemma smem_sdel l k x : ssorted l -> smem (sdel l k) x = negb (N.eqb x k) && smem l x.
Proof.
  induction 1 as [|y r Hs IH Hlb]; cbn.
  - rewrite andb_false_r. reflexivity.
  - destruct (N.eqb y k) eqn:E1; cbn.
    + assert (y = k) by lia. subst y.
      destruct (N.eqb k x) eqn:E2.
      * assert (x = k) by lia. subst x. rewrite N.eqb_refl. cbn.
        destruct (smem r k) eqn:M; [|reflexivity]. apply smem_in in M. apply Hlb in M. lia.
      * destruct (N.eqb x k) eqn:E3; [lia|reflexivity].
    + destruct (N.eqb y x) eqn:E2.
      * destruct (N.eqb x k) eqn:E3; [lia|reflexivity].
      * exact IH.
Qed.

Lemma in_sdel l k x : In x (sdel l k) -> In x l.
Proof.
  induction l as [|y r IH]; cbn; [tauto|].
  destruct (N.eqb y k); [intros H; right; exact H|].
  intros [H|H]; [left; exact H|right; apply IH; exact H].
Qed.

Lemma ssorted_sdel l k : ssorted l -> ssorted (sdel l k).
Proof.
  induction 1 as [|y r Hs IH Hlb]; cbn; [constructor|].
  destruct (N.eqb y k); [exact Hs|].
  constructor; [exact IH|]. intros x H. apply in_sdel in H. apply Hlb; exact H.
Qed.

Lemma ssorted_ext l1 l2 : ssorted l1 -> ssorted l2 -> (forall x, smem l1 x = smem l2 x) -> l1 = l2.
Proof.
  intros H1; revert l2. induction H1 as [|k1 r1 Hs1 IH Hlb1]; intros l2 H2 Hext.
  - destruct H2 as [|k2 r2 Hs2 Hlb2]; [reflexivity|].
    specialize (Hext k2). cbn in Hext. rewrite N.eqb_refl in Hext. discriminate.
  - destruct H2 as [|k2 r2 Hs2 Hlb2].
    + specialize (Hext k1). cbn in Hext. rewrite N.eqb_refl in Hext. discriminate.
    + assert (k1 = k2).
      { pose proof (Hext k1) as A. pose proof (Hext k2) as B. cbn in A, B.
        rewrite N.eqb_refl in A, B.
        destruct (N.eqb k2 k1) eqn:E; [lia|].
        destruct (N.eqb k1 k2) eqn:E'; [lia|].
        symmetry in A. apply smem_in in A. apply Hlb2 in A.
        apply smem_in in B. apply Hlb1 in B. lia. }
      subst k2. f_equal. apply IH; [exact Hs2|].
      intros x. pose proof (Hext x) as A. cbn in A.
      destruct (N.eqb k1 x) eqn:E; [|exact A].
      assert (x = k1) by lia. subst x.
      destruct (smem r1 k1) eqn:M1.
      { apply smem_in in M1. apply Hlb1 in M1. lia. }
      destruct (smem r2 k1) eqn:M2; [|reflexivity].
      apply smem_in in M2. apply Hlb2 in M2. lia.
Qed.

Lemma ssorted_fold_sins l acc : ssorted acc -> ssorted (fold_left sins l acc).
Proof. revert acc. induction l as [|x r IH]; intros acc H; cbn; [exact H|]. apply IH, ssorted_sins, H. Qed.
Lemma smem_fold_sins l acc x : smem (fold_left sins l acc) x = smem l x || smem acc x.
Proof.
  revert acc. induction l as [|y r IH]; intros acc; cbn; [reflexivity|].
  rewrite IH, smem_sins.
  destruct (N.eqb y x) eqn:E, (N.eqb x y) eqn:E'; try lia; cbn; try reflexivity; try apply orb_true_r.
Qed.
