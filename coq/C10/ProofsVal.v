(* C10 - the validator trie part: invariant, flush, reload, copy *)
From VF.C10 Require Import Model ProofsMaps ProofsStk.
From Coq Require Import Lia ZifyBool ZifyN.
Local Open Scope N_scope.

Definition isSome {A} (o : option A) : bool := match o with Some _ => true | None => false end.

Section Val.
Context {W : World} {WOK : WorldOk W}.

Lemma set_deleted_false_id v : v_deleted v = false -> set_deleted false v = v.
Proof. destruct v; cbn. intros ->. reflexivity. Qed.

(* a well-formed validator trie: the index entry lists exactly the stored validators *)
Record TrieOkV (t : vtrie) : Prop := {
  tv_sorted : sorted (vt_info t);
  tv_live : forall a v, find (vt_info t) a = Some v -> v_deleted v = false /\ v_addr v = a;
  tv_index : forall l, vt_index t = Some l -> ssorted l /\ forall a, smem l a = isSome (find (vt_info t) a);
  tv_noindex : vt_index t = None -> vt_info t = [] }.

Definition vclean (s : vals) (a : N) : Prop := smem (vl_dirty s) a = false /\ smem (vl_jd s) a = false.

Record InvV (s : vals) : Prop := {
  iv_trie : TrieOkV (vl_trie s);
  iv_clean : forall a v, find (vl_objs s) a = Some v -> vclean s a ->
      find (vt_info (vl_trie s)) a = if v_deleted v then None else Some v;
  iv_key : forall a v, find (vl_objs s) a = Some v -> v_addr v = a;
  iv_dirty : forall a, smem (vl_dirty s) a = true -> find (vl_objs s) a <> None;
  iv_jd : forall a, smem (vl_jd s) a = true -> find (vl_objs s) a <> None;
  iv_dsorted : ssorted (vl_dirty s);
  iv_isorted : ssorted (vl_index s);
  iv_index : forall a, vclean s a -> smem (vl_index s) a = isSome (find (vt_info (vl_trie s)) a) }.

Lemma load_validator_spec s a : InvV s -> load_validator s a = find (vt_info (vl_trie s)) a.
Proof.
  intros I. unfold load_validator. destruct (find (vt_info (vl_trie s)) a) as [x|] eqn:E; [|reflexivity].
  rewrite val_rt. f_equal. apply set_deleted_false_id. eapply (proj1 (tv_live _ (iv_trie _ I) _ _ E)).
Qed.

(* ---- the mutators preserve the invariant ----------------------------------------- *)
Lemma inv_stat_change s st m : InvV s ->
  InvV (mkVals (vl_trie s) (vl_objs s) (vl_dirty s) (vl_jd s) (vl_index s) st m (vl_wq s)).
Proof. intros [A B K C D E F G]. constructor; assumption. Qed.
Lemma inv_wq_change s q : InvV s -> InvV (set_wq q s).
Proof. intros [A B K C D E F G]. constructor; assumption. Qed.

(* store object v' at address a, journal the address; the index may change at a only *)
Lemma inv_touch s a v' idx' : InvV s -> v_addr v' = a -> ssorted idx' ->
  (forall x, x <> a -> smem idx' x = smem (vl_index s) x) ->
  InvV (mkVals (vl_trie s) (ins (vl_objs s) a v') (vl_dirty s) (sins (vl_jd s) a) idx' (vl_stat s) (vl_mod s) (vl_wq s)).
Proof.
  intros [A B K C D E F G] Hv Hs Hi.
  constructor; cbn [vl_trie vl_objs vl_dirty vl_jd vl_index]; try assumption.
  - intros x y. rewrite find_ins. unfold vclean; cbn [vl_dirty vl_jd]. rewrite smem_sins.
    destruct (N.eqb x a); cbn; [intros _ [_ H]; discriminate|].
    intros H [H1 H2]. apply B; [exact H|split; assumption].
  - intros x y. rewrite find_ins. destruct (N.eqb x a) eqn:E1; [intros [= <-]; lia|apply K].
  - intros x H. rewrite find_ins. destruct (N.eqb x a); [discriminate|]. apply C; exact H.
  - intros x. rewrite find_ins, smem_sins. destruct (N.eqb x a); cbn; [discriminate|]. apply D.
  - intros x. unfold vclean; cbn [vl_dirty vl_jd]. rewrite smem_sins.
    destruct (N.eqb x a) eqn:E1; cbn; [intros [_ H]; discriminate|]. intros [H1 H2].
    rewrite Hi by lia. apply G; split; assumption.
Qed.

Definition put_val (v : validator) (s : vals) : vals := vl_journal (v_addr v) (set_validator v s).
Lemma inv_put_val s v : InvV s -> InvV (put_val v s).
Proof.
  intros I. apply (inv_touch s (v_addr v) v (sins (vl_index s) (v_addr v)) I eq_refl).
  - apply ssorted_sins, (iv_isorted s I).
  - intros x Hx. rewrite smem_sins. destruct (N.eqb x (v_addr v)) eqn:E; [lia|reflexivity].
Qed.

Lemma put_val_eq v s : vl_journal (v_addr v) (set_validator v s) = put_val v s. Proof. reflexivity. Qed.
Lemma set_journal_comm v s : set_validator v (vl_journal (v_addr v) s) = put_val v s. Proof. reflexivity. Qed.

Lemma inv_incr v s : InvV s -> InvV (vl_incr v s).
Proof. intros I. apply (inv_stat_change s _ true I). Qed.
Lemma inv_decr v s : InvV s -> InvV (vl_decr v s).
Proof. intros I. apply (inv_stat_change s _ true I). Qed.

Lemma inv_create_validator v s : InvV s -> InvV (create_validator v s).
Proof.
  intros I. unfold create_validator. destruct (get_validator s (v_addr v)); [exact I|].
  apply inv_incr. rewrite set_journal_comm. apply inv_put_val; exact I.
Qed.
Lemma inv_update_validator v s : InvV s -> InvV (update_validator v s).
Proof.
  intros I. unfold update_validator. destruct (get_validator s (v_addr v)); [|exact I].
  rewrite put_val_eq. destruct (stake_equal v v0).
  - apply inv_put_val; exact I.
  - apply inv_incr, inv_decr, inv_put_val; exact I.
Qed.


Lemma inv_mark_removed s idx v : InvV s -> ssorted idx ->
  (forall x, x <> v_addr v -> smem idx x = smem (vl_index s) x) ->
  InvV (vl_decr v (mkVals (vl_trie s) (ins (vl_objs s) (v_addr v) (set_deleted true v)) (vl_dirty s)
                          (sins (vl_jd s) (v_addr v)) (sdel idx (v_addr v)) (vl_stat s) (vl_mod s) (vl_wq s))).
Proof.
  intros I Hs Hi. apply inv_decr.
  apply (inv_touch s (v_addr v) (set_deleted true v) (sdel idx (v_addr v)) I).
  - destruct v; reflexivity.
  - apply ssorted_sdel; exact Hs.
  - intros x Hx. rewrite smem_sdel by exact Hs. destruct (N.eqb x (v_addr v)) eqn:E; [lia|]. cbn. apply Hi; exact Hx.
Qed.

Lemma inv_remove_validator a s : InvV s -> InvV (remove_validator a s).
Proof.
  intros I. unfold remove_validator.
  destruct (find (vl_objs s) a) as [v|] eqn:Fa.
  - destruct (v_deleted v); [exact I|].
    unfold mark_removed. apply (inv_mark_removed s (vl_index s) v I (iv_isorted s I)). auto.
  - destruct (load_validator s a) as [v|] eqn:El; [|exact I].
    rewrite (load_validator_spec s a I) in El.
    pose proof (proj2 (tv_live _ (iv_trie _ I) _ _ El)) as Hv.
    unfold mark_removed, set_validator; cbn [vl_trie vl_objs vl_dirty vl_jd vl_index vl_stat vl_mod vl_wq].
    rewrite ins_ins.
    apply (inv_mark_removed s (sins (vl_index s) (v_addr v)) v I).
    + apply ssorted_sins, (iv_isorted s I).
    + intros x Hx. rewrite smem_sins. destruct (N.eqb x (v_addr v)) eqn:E; [lia|reflexivity].
Qed.

Lemma fold_sins_sorted_id l : ssorted l -> forall x, smem (fold_left sins l []) x = smem l x.
Proof. intros _ x. rewrite smem_fold_sins. cbn. apply orb_false_r. Qed.

Lemma inv_list_validators s : InvV s -> InvV (fst (list_validators s)).
Proof.
  intros I. unfold list_validators.
  assert (Hc : forall s0, InvV s0 -> InvV (fst (match vl_index s with [] => s | _ :: _ => s0 end, 0))).
  { intros s0 I0. destruct (vl_index s); assumption. }
  destruct (vt_index (vl_trie s)) as [l|] eqn:El; [|destruct (vl_index s); exact I]. rewrite idx_rt.
  cut (InvV (mkVals (vl_trie s) (vl_objs s) (vl_dirty s) (vl_jd s) (fold_left sins l []) (vl_stat s) (vl_mod s) (vl_wq s))).
  { intros I0. destruct (vl_index s); [exact I0|exact I]. }
  destruct (tv_index _ (iv_trie _ I) l El) as [Hs Hm].
  destruct I as [A B K C D E F G].
  constructor; cbn [vl_trie vl_objs vl_dirty vl_jd vl_index]; try assumption.
  - apply ssorted_fold_sins. constructor.
  - intros a _. rewrite fold_sins_sorted_id by exact Hs. apply Hm.
Qed.

Lemma filter_live s l : (forall a, smem l a = true -> find (vl_objs s) a <> None) ->
  filter (fun a => match find (vl_objs s) a with Some _ => true | None => false end) l = l.
Proof.
  induction l as [|x r IH]; intros H; cbn; [reflexivity|].
  destruct (find (vl_objs s) x) eqn:E.
  - f_equal. apply IH. intros a Ha. apply H. cbn. rewrite Ha. destruct (N.eqb x a); reflexivity.
  - exfalso. apply (H x); [cbn; rewrite N.eqb_refl; reflexivity|exact E].
Qed.

Lemma inv_vl_finalise s : InvV s ->
  InvV (vl_finalise s) /\ vl_jd (vl_finalise s) = [] /\ vl_trie (vl_finalise s) = vl_trie s /\
  vl_objs (vl_finalise s) = vl_objs s /\ vl_stat (vl_finalise s) = vl_stat s /\ vl_wq (vl_finalise s) = vl_wq s.
Proof.
  intros [A B K C D E F G]. unfold vl_finalise. rewrite (filter_live s (vl_jd s) D).
  split; [|repeat split; reflexivity].
  constructor; cbn [vl_trie vl_objs vl_dirty vl_jd vl_index]; try assumption.
  - intros a v H [H1 _]. cbn [vl_dirty] in H1. rewrite smem_fold_sins in H1. apply orb_false_iff in H1. destruct H1.
    apply B; [exact H|split; assumption].
  - intros a. rewrite smem_fold_sins. intros H. apply orb_true_iff in H. destruct H; [apply D|apply C]; assumption.
  - intros a; discriminate.
  - apply ssorted_fold_sins; exact E.
  - intros a [H1 _]. cbn [vl_dirty] in H1. rewrite smem_fold_sins in H1. apply orb_false_iff in H1. destruct H1.
    apply G; split; assumption.
Qed.

(* ---- the flush loop of IntermediateRoot -------------------------------------------- *)
Definition val_goes (de : bool) (v : validator) : bool := v_deleted v || (de && is_invalid v).

Lemma flush_val_frame de s a :
  let s' := flush_val de s a in
  vl_dirty s' = vl_dirty s /\ vl_jd s' = vl_jd s /\ vl_wq s' = vl_wq s /\
  vt_index (vl_trie s') = vt_index (vl_trie s) /\ vt_stat (vl_trie s') = vt_stat (vl_trie s) /\
  vt_queue (vl_trie s') = vt_queue (vl_trie s).
Proof.
  unfold flush_val. destruct (find (vl_objs s) a) as [v|]; [|cbn; repeat split; reflexivity].
  destruct (v_deleted v || (de && is_invalid v)); [destruct (v_deleted v)|]; cbn; repeat split; reflexivity.
Qed.

(* what one address looks like after the loop went over the list l *)
Definition flushed_at (de : bool) (s s' : vals) (a : N) : Prop :=
  match find (vl_objs s) a with
  | None => find (vt_info (vl_trie s')) a = find (vt_info (vl_trie s)) a /\ find (vl_objs s') a = None /\
            smem (vl_index s') a = smem (vl_index s) a
  | Some v =>
    if val_goes de v
    then find (vt_info (vl_trie s')) a = None /\ find (vl_objs s') a = Some (set_deleted true v) /\ smem (vl_index s') a = false
    else find (vt_info (vl_trie s')) a = Some v /\ find (vl_objs s') a = Some v /\ smem (vl_index s') a = true
  end.
Definition same_at (s s' : vals) (a : N) : Prop :=
  find (vt_info (vl_trie s')) a = find (vt_info (vl_trie s)) a /\ find (vl_objs s') a = find (vl_objs s) a /\
  smem (vl_index s') a = smem (vl_index s) a.

Lemma flush_val_one de s a :
  sorted (vt_info (vl_trie s)) -> ssorted (vl_index s) ->
  let s' := flush_val de s a in
  sorted (vt_info (vl_trie s')) /\ ssorted (vl_index s') /\ flushed_at de s s' a /\
  (forall x, x <> a -> same_at s s' x).
Proof.
  intros Hs Hi. unfold flush_val, flushed_at, same_at, val_goes.
  destruct (find (vl_objs s) a) as [v|] eqn:Fa; [|cbn; repeat split; auto].
  destruct (v_deleted v || (de && is_invalid v)) eqn:Eg; cbn [vl_trie vl_objs vl_index vt_info vl_decr].
  - assert (Hgo : forall s1, vl_trie s1 = mkVT (del (vt_info (vl_trie s)) a) (vt_index (vl_trie s)) (vt_stat (vl_trie s)) (vt_queue (vl_trie s)) ->
                  vl_objs s1 = ins (vl_objs s) a (set_deleted true v) -> vl_index s1 = sdel (vl_index s) a ->
                  sorted (vt_info (vl_trie s1)) /\ ssorted (vl_index s1) /\
                  (find (vt_info (vl_trie s1)) a = None /\ find (vl_objs s1) a = Some (set_deleted true v) /\ smem (vl_index s1) a = false) /\
                  (forall x, x <> a -> find (vt_info (vl_trie s1)) x = find (vt_info (vl_trie s)) x /\
                                       find (vl_objs s1) x = find (vl_objs s) x /\ smem (vl_index s1) x = smem (vl_index s) x)).
    { intros s1 E1 E2 E3. rewrite E1, E2, E3. cbn [vt_info]. repeat split.
      + apply sorted_del; exact Hs.
      + apply ssorted_sdel; exact Hi.
      + rewrite find_del by exact Hs. rewrite N.eqb_refl. reflexivity.
      + rewrite find_ins, N.eqb_refl. reflexivity.
      + rewrite smem_sdel by exact Hi. rewrite N.eqb_refl. reflexivity.
      + rewrite find_del by exact Hs. destruct (N.eqb x a) eqn:E; [lia|reflexivity].
      + rewrite find_ins. destruct (N.eqb x a) eqn:E; [lia|reflexivity].
      + rewrite smem_sdel by exact Hi. destruct (N.eqb x a) eqn:E; [lia|reflexivity]. }
    destruct (v_deleted v); apply Hgo; reflexivity.
  - repeat split.
    + apply sorted_ins; exact Hs.
    + apply ssorted_sins; exact Hi.
    + rewrite find_ins, N.eqb_refl. reflexivity.
    + exact Fa.
    + rewrite smem_sins, N.eqb_refl. reflexivity.
    + rewrite find_ins. destruct (N.eqb x a) eqn:E; [lia|reflexivity].
    + rewrite smem_sins. destruct (N.eqb x a) eqn:E; [lia|reflexivity].
Qed.

Lemma flush_val_fold de l : forall s, ssorted l ->
  sorted (vt_info (vl_trie s)) -> ssorted (vl_index s) ->
  let s' := fold_left (flush_val de) l s in
  sorted (vt_info (vl_trie s')) /\ ssorted (vl_index s') /\
  vl_dirty s' = vl_dirty s /\ vl_jd s' = vl_jd s /\ vl_wq s' = vl_wq s /\
  vt_index (vl_trie s') = vt_index (vl_trie s) /\
  (forall a, smem l a = true -> flushed_at de s s' a) /\
  (forall a, smem l a = false -> same_at s s' a).
Proof.
  induction l as [|x r IH]; intros s Hl Hs Hi; cbn [fold_left].
  - cbn. repeat split; auto; discriminate.
  - inversion Hl as [|? ? Hr Hlb]; subst.
    destruct (flush_val_one de s x Hs Hi) as (S1 & I1 & F1 & O1).
    destruct (flush_val_frame de s x) as (D1 & J1 & Q1 & X1 & _ & _).
    specialize (IH (flush_val de s x) Hr S1 I1). cbn zeta in IH.
    destruct IH as (S2 & I2 & D2 & J2 & Q2 & X2 & F2 & O2).
    cbn zeta. split; [exact S2|]. split; [exact I2|]. split; [congruence|]. split; [congruence|].
    split; [congruence|]. split; [congruence|]. split.
    + intros a Ha. cbn in Ha. destruct (N.eqb x a) eqn:E.
      * assert (x = a) by lia. subst a.
        assert (Hnr : smem r x = false).
        { destruct (smem r x) eqn:M; [|reflexivity]. apply smem_in in M. apply Hlb in M. lia. }
        destruct (O2 x Hnr) as (A1 & A2 & A3).
        unfold flushed_at in *. destruct (find (vl_objs s) x) as [v|].
        -- destruct (val_goes de v); rewrite A1, A2, A3; exact F1.
        -- rewrite A1, A2, A3; exact F1.
      * assert (x <> a) by lia.
        destruct (O1 a ltac:(lia)) as (A1 & A2 & A3).
        specialize (F2 a Ha). unfold flushed_at in *. rewrite A2 in F2.
        destruct (find (vl_objs s) a) as [v|].
        -- destruct (val_goes de v); rewrite <- ?A1, <- ?A3; exact F2.
        -- rewrite <- A1, <- A3. exact F2.
    + intros a Ha. cbn in Ha. destruct (N.eqb x a) eqn:E; [discriminate|].
      destruct (O1 a ltac:(lia)) as (A1 & A2 & A3). destruct (O2 a Ha) as (B1 & B2 & B3).
      unfold same_at. rewrite B1, B2, B3. repeat split; assumption.
Qed.

(* everything the validator part holds is in the trie *)
Record VFlushed (s : vals) : Prop := {
  vf_dirty : vl_dirty s = [];
  vf_jd : vl_jd s = [];
  vf_index : vt_index (vl_trie s) = Some (vl_index s);
  vf_stat : vt_stat (vl_trie s) = Some (vl_stat s);
  vf_queue : vt_queue (vl_trie s) = Some (get_wq s) }.

Lemma val_goes_false de v : val_goes de v = false -> v_deleted v = false.
Proof. unfold val_goes. destruct (v_deleted v); [discriminate|reflexivity]. Qed.

Lemma vl_iroot_spec de s : InvV s -> InvV (vl_iroot de s) /\ VFlushed (vl_iroot de s).
Proof.
  intros I. destruct (inv_vl_finalise s I) as (I1 & J1 & T1 & O1 & St1 & Q1).
  unfold vl_iroot. set (s1 := vl_finalise s) in *.
  destruct I1 as [A B K C D E F G].
  destruct (flush_val_fold de (vl_dirty s1) s1 E (tv_sorted _ A) F) as (S2 & I2 & D2 & J2 & Q2 & X2 & F2 & N2).
  set (s2 := fold_left (flush_val de) (vl_dirty s1) s1) in *.
  assert (Hall : forall a,
             (forall v, find (vl_objs s2) a = Some v ->
                        find (vt_info (vl_trie s2)) a = (if v_deleted v then None else Some v) /\ v_addr v = a) /\
             smem (vl_index s2) a = isSome (find (vt_info (vl_trie s2)) a) /\
             (forall v, find (vt_info (vl_trie s2)) a = Some v -> v_deleted v = false /\ v_addr v = a)).
  { intros a. destruct (smem (vl_dirty s1) a) eqn:M.
    - specialize (F2 a M). unfold flushed_at in F2.
      destruct (find (vl_objs s1) a) as [v0|] eqn:Fa; [|exfalso; exact (C a M Fa)].
      pose proof (K a v0 Fa) as Hk.
      destruct (val_goes de v0) eqn:Eg; destruct F2 as (P1 & P2 & P3); rewrite P1, P2, P3.
      + split; [|split; [reflexivity|discriminate]]. intros v [= <-]. cbn. split; [reflexivity|].
        destruct v0; exact Hk.
      + split; [|split; [reflexivity|]].
        * intros v [= <-]. rewrite (val_goes_false _ _ Eg). split; [reflexivity|exact Hk].
        * intros v [= <-]. split; [exact (val_goes_false _ _ Eg)|exact Hk].
    - destruct (N2 a M) as (P1 & P2 & P3). rewrite P1, P2, P3.
      assert (Hc : vclean s1 a) by (split; [exact M|rewrite J1; reflexivity]).
      split; [|split].
      + intros v Hv. split; [apply B; assumption|apply (K a v Hv)].
      + apply G; exact Hc.
      + apply (tv_live _ A). }
  split.
  - constructor; cbn [vl_trie vl_objs vl_dirty vl_jd vl_index vt_info vt_index].
    + constructor; cbn [vt_info vt_index].
      * exact S2.
      * intros a v. apply (proj2 (proj2 (Hall a))).
      * intros l [= <-]. split; [exact I2|]. intros a. apply (proj1 (proj2 (Hall a))).
      * discriminate.
    + intros a v Hv _. apply (proj1 (Hall a) v Hv).
    + intros a v Hv. apply (proj1 (Hall a) v Hv).
    + discriminate.
    + rewrite J2, J1. discriminate.
    + constructor.
    + exact I2.
    + intros a _. apply (proj1 (proj2 (Hall a))).
  - constructor; cbn [vl_trie vl_dirty vl_jd vl_index vl_stat vt_index vt_stat vt_queue]; try reflexivity.
    rewrite J2; exact J1.
Qed.

(* a flushed validator part: the trie is exactly what reads show *)
Lemma flushed_val_reads s : InvV s -> vl_dirty s = [] -> vl_jd s = [] ->
  forall a, find (vt_info (vl_trie s)) a = get_validator s a.
Proof.
  intros I Hd Hj a. unfold get_validator. destruct (find (vl_objs s) a) as [v|] eqn:Fa.
  - apply (iv_clean s I a v Fa). split; [rewrite Hd|rewrite Hj]; reflexivity.
  - symmetry. apply load_validator_spec; exact I.
Qed.

(* content of the validator part: validators by address, statistics, withdraw queue *)
Definition val_eq (s1 s2 : vals) : Prop :=
  (forall a, get_validator s1 a = get_validator s2 a) /\ vl_stat s1 = vl_stat s2 /\ get_wq s1 = get_wq s2.

Lemma val_content_only s1 s2 :
  InvV s1 -> InvV s2 -> VFlushed s1 -> VFlushed s2 -> val_eq s1 s2 -> vl_trie s1 = vl_trie s2.
Proof.
  intros I1 I2 [D1 J1 X1 S1 Q1] [D2 J2 X2 S2 Q2] (Hv & Hs & Hq).
  assert (Hinfo : vt_info (vl_trie s1) = vt_info (vl_trie s2)).
  { apply sorted_ext; [exact (tv_sorted _ (iv_trie s1 I1))|exact (tv_sorted _ (iv_trie s2 I2))|]. intros a.
    rewrite (flushed_val_reads s1 I1 D1 J1), (flushed_val_reads s2 I2 D2 J2). apply Hv. }
  assert (Hidx : vl_index s1 = vl_index s2).
  { apply ssorted_ext; [exact (iv_isorted s1 I1)|exact (iv_isorted s2 I2)|]. intros a.
    rewrite (iv_index s1 I1 a), (iv_index s2 I2 a), Hinfo; [reflexivity| |];
      split; rewrite ?D1, ?J1, ?D2, ?J2; reflexivity. }
  destruct (vl_trie s1) as [i1 x1 t1 q1], (vl_trie s2) as [i2 x2 t2 q2]. cbn in *.
  subst. rewrite Hs, Hq, Hidx. reflexivity.
Qed.

(* the validator part of state.New / NewVldReader over a well-formed trie *)
Definition new_vals (t : vtrie) : vals :=
  mkVals t [] [] [] (fold_left sins (match vt_index t with Some l => l | None => [] end) [])
         (match vt_stat t with Some x => x | None => new_stat end) false None.

Lemma inv_new_vals t : TrieOkV t -> InvV (new_vals t).
Proof.
  intros A. unfold new_vals. constructor; cbn [vl_trie vl_objs vl_dirty vl_jd vl_index]; try discriminate.
  - exact A.
  - constructor.
  - apply ssorted_fold_sins. constructor.
  - intros a _. rewrite smem_fold_sins. cbn. rewrite orb_false_r.
    destruct (vt_index t) as [l|] eqn:El.
    + apply (tv_index _ A l El).
    + rewrite (tv_noindex _ A El). reflexivity.
Qed.

Lemma new_vals_reads s : InvV s -> VFlushed s -> val_eq (new_vals (vl_trie s)) s.
Proof.
  intros I [D J X S Q]. repeat split.
  - intros a. rewrite <- (flushed_val_reads s I D J). unfold get_validator. cbn [new_vals vl_objs find].
    apply (load_validator_spec (new_vals (vl_trie s)) a). apply inv_new_vals. exact (iv_trie s I).
  - unfold new_vals. cbn. rewrite S. reflexivity.
  - unfold get_wq at 1. unfold new_vals. cbn [vl_wq vl_trie]. rewrite Q, queue_rt. reflexivity.
Qed.

(* ---- Copy ------------------------------------------------------------------------------ *)
Lemma copy_val_fold src l : forall acc,
  forall a, find (fold_left (copy_val src) l acc) a =
            match find acc a with
            | Some v => Some v
            | None => if smem l a then find (vl_objs src) a else None
            end.
Proof.
  induction l as [|x r IH]; intros acc a; cbn [fold_left smem].
  - destruct (find acc a); reflexivity.
  - rewrite IH. unfold copy_val.
    destruct (N.eqb x a) eqn:E.
    + assert (x = a) by lia. subst x.
      destruct (find acc a) as [va|] eqn:Fa; [rewrite Fa; reflexivity|].
      destruct (find (vl_objs src) a) as [vx|] eqn:Sx.
      * rewrite find_ins, N.eqb_refl. reflexivity.
      * rewrite Fa. destruct (smem r a); reflexivity.
    + destruct (find acc x) as [vx|] eqn:Fx; [reflexivity|].
      destruct (find (vl_objs src) x) as [vx|] eqn:Sx; [|reflexivity].
      rewrite find_ins. destruct (N.eqb a x) eqn:E'; [lia|reflexivity].
Qed.

Lemma vl_copy_spec s : InvV s ->
  let '(s0, c) := vl_copy s in
  InvV s0 /\ InvV c /\ val_eq s0 s /\ val_eq c s /\ vl_mod c = vl_mod s /\ vl_trie c = vl_trie s.
Proof.
  intros I. unfold vl_copy.
  rewrite (filter_live s (vl_jd s) (iv_jd s I)).
  set (objs1 := fold_left (copy_val s) (vl_jd s) []).
  set (extra := filter (fun a => match find objs1 a with Some _ => false | None => true end) (vl_dirty s)).
  set (objs2 := fold_left (copy_val s) extra objs1).
  assert (Hex : forall a, smem extra a = smem (vl_dirty s) a && negb (smem (vl_jd s) a)).
  { intros a. unfold extra.
    assert (Ho1 : forall x, find objs1 x = if smem (vl_jd s) x then find (vl_objs s) x else None).
    { intros x. unfold objs1. rewrite copy_val_fold. reflexivity. }
    induction (vl_dirty s) as [|x r IH]; cbn; [reflexivity|].
    destruct (find objs1 x) eqn:F1; cbn.
    - rewrite IH. destruct (N.eqb x a) eqn:E; [|reflexivity].
      assert (x = a) by lia. subst. rewrite Ho1 in F1. destruct (smem (vl_jd s) a); [|discriminate].
      cbn. rewrite andb_false_r. reflexivity.
    - rewrite IH. destruct (N.eqb x a) eqn:E; [|reflexivity].
      assert (x = a) by lia. subst. rewrite Ho1 in F1. destruct (smem (vl_jd s) a) eqn:Mj; [|reflexivity].
      exfalso. exact (iv_jd s I a Mj F1). }
  assert (Ho2 : forall a, find objs2 a = if smem (vl_jd s) a || smem (vl_dirty s) a then find (vl_objs s) a else None).
  { intros a. unfold objs2. rewrite copy_val_fold. unfold objs1. rewrite copy_val_fold. cbn [find].
    rewrite Hex. destruct (smem (vl_jd s) a) eqn:Mj; cbn.
    - destruct (find (vl_objs s) a); [reflexivity|]. rewrite andb_false_r. reflexivity.
    - rewrite andb_true_r. destruct (smem (vl_dirty s) a); reflexivity. }
  assert (Hdirty : forall a, smem (fold_left sins extra (fold_left sins (vl_jd s) [])) a = smem (vl_jd s) a || smem (vl_dirty s) a).
  { intros a. rewrite !smem_fold_sins, Hex. cbn. rewrite orb_false_r.
    destruct (smem (vl_jd s) a), (smem (vl_dirty s) a); reflexivity. }
  assert (Hread : forall a, get_validator (mkVals (vl_trie s) objs2 (fold_left sins extra (fold_left sins (vl_jd s) []))
                                                   [] (fold_left sins extra (vl_index s)) (vl_stat s) (vl_mod s) (Some (get_wq s))) a
                            = get_validator s a).
  { intros a. unfold get_validator, load_validator. cbn [vl_objs vl_trie]. rewrite Ho2.
    destruct (smem (vl_jd s) a || smem (vl_dirty s) a) eqn:M.
    - destruct (find (vl_objs s) a) eqn:Fa; reflexivity.
    - apply orb_false_iff in M. destruct M as [Mj Md].
      destruct (find (vl_objs s) a) as [v|] eqn:Fa; [|reflexivity].
      rewrite (iv_clean s I a v Fa (conj Md Mj)).
      destruct (v_deleted v) eqn:Dv; [reflexivity|]. rewrite val_rt, set_deleted_false_id by exact Dv. reflexivity. }
  split; [apply inv_wq_change; exact I|]. split; [|split; [|split; [|split; reflexivity]]].
  - destruct I as [A B K C D E F G].
    constructor; cbn [vl_trie vl_objs vl_dirty vl_jd vl_index]; try assumption.
    + intros a v. rewrite Ho2. unfold vclean; cbn [vl_dirty vl_jd]. rewrite Hdirty.
      destruct (smem (vl_jd s) a || smem (vl_dirty s) a); [intros _ [H _]; discriminate|discriminate].
    + intros a v. rewrite Ho2. destruct (smem (vl_jd s) a || smem (vl_dirty s) a); [apply K|discriminate].
    + intros a. rewrite Hdirty, Ho2. intros H. rewrite H. apply orb_true_iff in H. destruct H; [apply D|apply C]; assumption.
    + discriminate.
    + apply ssorted_fold_sins, ssorted_fold_sins. constructor.
    + apply ssorted_fold_sins; exact F.
    + intros a. unfold vclean; cbn [vl_dirty vl_jd]. rewrite Hdirty. intros [H _].
      rewrite smem_fold_sins, Hex. apply orb_false_iff in H. destruct H as [Hj Hd]. rewrite Hd. cbn.
      apply G. split; assumption.
  - split; [|split]; reflexivity.
  - split; [exact Hread|split; reflexivity].
Qed.
End Val.
