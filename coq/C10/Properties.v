(* C10 - property theorems only.  Each is closed by [exact] of a lemma of the
   proof files and followed by Print Assumptions.

   Setting.  [World] bundles the external functions (hashes, trie roots, RLP
   codecs); [WorldOk] is what is assumed of them: every codec round-trips (C14),
   hashing and the trie root are injective on contents (collision freedom; that
   the root depends on the content only is C13 - here a trie IS its sorted
   content).  [Inv d s] is the consistency of the live caches of one StateDB
   with its three tries and the database [d].  A history ([list cop]) is any
   sequence of API calls ([sop]: account / storage / code / delegation-list /
   validator / statistics / withdraw-queue / staking-record writes, Finalise and
   IntermediateRoot with either flag) and Commits at arbitrary points.
   [state_eq] = same content: for EVERY address the same account record, code,
   delegation list and every storage slot; the same validator at every address,
   the same statistics, withdraw queue, staking record at every key and pending
   relationships. *)
From VF.C10 Require Import Model ProofsMaps ProofsStk ProofsVal ProofsObj ProofsAcc Proofs ProofsTop Alias ProofsAlias Bridge Instance.
From VF.gen Require Import C10CopyTable.
From Coq Require Import String.
Local Open Scope N_scope.

(* 0. the invariant holds along every history, from the empty database and from any
   state that has it (in particular reopened states and copies, see 1 and 3),
   and survives commits of other StateDBs sharing the database *)
Theorem C10_invariant_all_histories :
  forall (W : World) (WOK : WorldOk W) l ds, DbOk (fst ds) -> Inv (fst ds) (snd ds) ->
    DbOk (fst (crun ds l)) /\ Inv (fst (crun ds l)) (snd (crun ds l)).
Proof. intros W WOK. exact (@crun_inv W WOK). Qed.
Print Assumptions C10_invariant_all_histories.

Theorem C10_invariant_genesis :
  forall (W : World) (WOK : WorldOk W), DbOk db_empty /\ Inv db_empty genesis /\
    new_state db_empty (aroot []) (vroot vt_empty) (sroot st_empty) = Some genesis.
Proof. intros W WOK. exact (conj (@dbok_empty W) (conj (@inv_genesis W) (@new_state_genesis W WOK))). Qed.
Print Assumptions C10_invariant_genesis.

Theorem C10_invariant_database_growth :
  forall (W : World) (WOK : WorldOk W) d d' s, db_le d d' -> Inv d s -> Inv d' s.
Proof. intros W WOK. exact (@inv_le_state W). Qed.
Print Assumptions C10_invariant_database_growth.

(* 1. committed state is exactly recoverable: after ANY history and a Commit,
   state.New on the three returned roots succeeds, the reopened StateDB shows the
   same content as the live one and again has the invariant; NewVldReader on the
   validator root shows the same validators, statistics and withdraw queue *)
Theorem C10_reopen :
  forall (W : World) (WOK : WorldOk W) d s l de, DbOk d -> Inv d s ->
    let ds := crun (d, s) l in
    let d' := fst (commit (fst ds) de (snd ds)) in
    let s' := snd (commit (fst ds) de (snd ds)) in
    exists n r,
      new_state d' (fst (fst (roots s'))) (snd (fst (roots s'))) (snd (roots s')) = Some n /\
      new_reader d' (snd (fst (roots s'))) = Some r /\
      state_eq d' n d' s' /\ val_eq r (s_val s') /\ Inv d' n.
Proof. intros W WOK. exact (@reopen_all W WOK). Qed.
Print Assumptions C10_reopen.

(* 1b. the same for EVERY commit of a history, reopened at ANY later point: the StateDB that
   committed goes on writing and committing on the same database (histories l1, then the
   commit, then l2); the roots that commit returned still open - to a state that shows
   what the committing state showed at that commit - and so does the validator reader.
   [DbTop]: every committed trie is stored under its own root (true of the empty database,
   kept by every history). *)
Theorem C10_reopen_any_commit :
  forall (W : World) (WOK : WorldOk W) d s l1 de l2, DbOk d -> DbTop d -> Inv d s ->
    let c := commit (fst (crun (d, s) l1)) de (snd (crun (d, s) l1)) in
    let later := crun c l2 in
    exists n r,
      new_state (fst later) (fst (fst (roots (snd c)))) (snd (fst (roots (snd c)))) (snd (roots (snd c))) = Some n /\
      new_reader (fst later) (snd (fst (roots (snd c)))) = Some r /\
      state_eq (fst later) n (fst c) (snd c) /\ val_eq r (s_val (snd c)) /\ Inv (fst later) n.
Proof. intros W WOK. exact (@reopen_any W WOK). Qed.
Print Assumptions C10_reopen_any_commit.

(* 1b'. every blob named by a committed root is in the database, at the commit and at every
   later point: for every account of the committed account trie the storage trie under its
   Root, the code under its CodeHash and the delegation list under its DelegationsHash
   resolve ([Resolved]).  This is what the per-object dirty marks (dirtyCode, dirtyDlgs,
   the dirty set, explicit in Model.sobj / accs and mirrored flag update by flag update)
   are for; a flag lowered while its blob is unwritten breaks it (seeded regression C10_6). *)
Theorem C10_committed_blobs_present :
  forall (W : World) (WOK : WorldOk W) d s l1 de l2, DbOk d -> Inv d s ->
    let c := commit (fst (crun (d, s) l1)) de (snd (crun (d, s) l1)) in
    forall a x, Model.find (ac_trie (s_acc (snd c))) a = Some x -> Resolved (fst (crun c l2)) x.
Proof. intros W WOK. exact (@committed_blobs W WOK). Qed.
Print Assumptions C10_committed_blobs_present.

(* 1c. the Database's cache of committed tries (cachingDB.pastTries: live trie objects of
   the committing StateDBs, looked up by re-hashing; Model.mopen_acct and its siblings) is transparent: over a
   machine whose StateDBs have the invariant, state.New through the cache returns exactly
   what it returns from the trie database.  (A cache keyed by the root a trie HAD when it
   was committed would not be: the live trie has moved on - seeded regression C10_5.) *)
Theorem C10_trie_cache_transparent :
  forall (W : World) (WOK : WorldOk W) m ra rv rs n, MachineOk m ->
    new_state (m_db m) ra rv rs = Some n -> mnew_state m ra rv rs = Some n.
Proof. intros W WOK. exact (@cache_transparent W WOK). Qed.
Print Assumptions C10_trie_cache_transparent.

(* 1d. IntermediateRoot writes the LIVE objects and is idempotent.  After any history and an
   IntermediateRoot the state is [Flushed]: the tries hold exactly what the live state shows,
   including the withdraw queue, the statistics and the index it writes unconditionally -
   so in-place edits of queued records made through GetWithdrawQueue() (op OEditWithdraw,
   what staking/endblock.go and slash.go do) are persisted by the next root, and C10_reopen /
   C10_reopen_any_commit hold for histories containing them.  On a flushed state a further
   IntermediateRoot (either flag) changes no root and nothing the state shows.
   _partial: "inserting IntermediateRoot ANYWHERE changes nothing later" is not a property of
   the code: IntermediateRoot also finalises (touched empty accounts) and its flush deletes
   zero-stake validators, so placement inside a transaction or before a zero-stake validator
   is re-funded matters.  At points where nothing is left to finalise the harness compares
   the same transactions with and without extra IntermediateRoot calls (family "ir"). *)
Theorem C10_intermediate_root_transparent_partial :
  forall (W : World) (WOK : WorldOk W) d s l de,
    DbOk d -> Inv d s ->
    let ds := crun (d, s) l in
    let t := iroot (fst ds) de (snd ds) in
    Inv (fst ds) t /\ Flushed t /\
    forall de', roots (iroot (fst ds) de' t) = roots t /\ state_eq (fst ds) (iroot (fst ds) de' t) (fst ds) t.
Proof. intros W WOK. exact (@iroot_transparent W WOK). Qed.
Print Assumptions C10_intermediate_root_transparent_partial.

(* bridge: every write the staking module makes through an object a StateDB getter handed out
   is of a kind the next IntermediateRoot picks up from the live object (inventory regenerated
   from staking/ on every run) *)
Theorem C10_live_edits_persisted : forall r, In r live_edits -> live_edit_ok r = true.
Proof. exact live_edits_classified. Qed.
Print Assumptions C10_live_edits_persisted.

(* 2. roots depend only on content: two StateDBs, reached by any two histories
   (any order and grouping of writes, any placement of Finalise /
   IntermediateRoot / Commit, either flag, even over different databases), that
   show the same content after IntermediateRoot return the same three roots *)
Theorem C10_content_only :
  forall (W : World) (WOK : WorldOk W) d1 s1 l1 de1 d2 s2 l2 de2,
    DbOk d1 -> Inv d1 s1 -> DbOk d2 -> Inv d2 s2 ->
    let a := crun (d1, s1) l1 in let b := crun (d2, s2) l2 in
    let ta := iroot (fst a) de1 (snd a) in let tb := iroot (fst b) de2 (snd b) in
    state_eq (fst a) ta (fst b) tb -> roots ta = roots tb.
Proof. intros W WOK. exact (@content_all W WOK). Qed.
Print Assumptions C10_content_only.

(* 3. a copy is equal to the original - for the REPAIRED copy code (fixes/C10_*.diff,
   in /repo since commit b4b663f; [Bridge.tree_flags] is the variant the working
   tree has, read from its source on every run):
   at every copy point of every history the copy and the original (whose
   withdraw-queue cache the call fills) show the same content, have the same
   roots and both keep the invariant, so 1 and 2 hold for the copy too.
   _partial: equality is content + roots + invariant at the copy point; for a copy
   taken inside a transaction see C10_copy_inside_transaction_refuted.
   "Independent of the original" is 3b below. *)
Theorem C10_copy_equal_partial :
  forall (W : World) (WOK : WorldOk W) d s l, DbOk d -> Inv d s ->
    let ds := crun (d, s) l in
    let s0 := fst (copy repaired (snd ds)) in let c := snd (copy repaired (snd ds)) in
    Inv (fst ds) s0 /\ Inv (fst ds) c /\ state_eq (fst ds) s0 (fst ds) (snd ds) /\
    state_eq (fst ds) c (fst ds) (snd ds) /\ roots c = roots (snd ds).
Proof. intros W WOK d s l D I. exact (@copy_all W WOK d s l repaired D I (copy_safe_repaired _)). Qed.
Print Assumptions C10_copy_equal_partial.

(* any variant of the copy code, in particular the code as it was before the
   repair ([as_is]): the same holds outside the two finding classes
   ([copy_safe]: nothing pending when copied, no live object with an unwritten
   delegation list) ... *)
Theorem C10_copy_equal_as_is_holds_outside :
  forall (W : World) (WOK : WorldOk W) d s l f, DbOk d -> Inv d s ->
    let ds := crun (d, s) l in
    copy_safe f (s_acc (snd ds)) ->
    let s0 := fst (copy f (snd ds)) in let c := snd (copy f (snd ds)) in
    Inv (fst ds) s0 /\ Inv (fst ds) c /\ state_eq (fst ds) s0 (fst ds) (snd ds) /\
    state_eq (fst ds) c (fst ds) (snd ds) /\ roots c = roots (snd ds).
Proof. intros W WOK. exact (@copy_all W WOK). Qed.
Print Assumptions C10_copy_equal_as_is_holds_outside.

(* ... and fails inside them (witnesses computed in the structure-preserving
   instance [IdWorld], which satisfies [WorldOk]):
   D1 - the copy cannot read an uncommitted delegation list *)
Theorem C10_copy_as_is_refuted_delegations :
  ~ copy_safe as_is (s_acc (run0 w1_ops)) /\
  acc_view db_empty (s_acc (snd (copy as_is (run0 w1_ops)))) 1 <> acc_view db_empty (s_acc (run0 w1_ops)) 1.
Proof. exact (conj w1_outside w1_refutes). Qed.
Print Assumptions C10_copy_as_is_refuted_delegations.

(* D2 - the copy taken after Finalise commits to roots whose code was not stored *)
Theorem C10_copy_as_is_refuted_dirty_mark :
  ~ copy_safe as_is (s_acc (run0 w2_ops)) /\
  acc_view (fst w2_committed) (s_acc (reopened (snd w2_committed))) 1 <>
  acc_view (fst w2_committed) (s_acc (snd w2_committed)) 1.
Proof. exact (conj w2_outside w2_refutes). Qed.
Print Assumptions C10_copy_as_is_refuted_dirty_mark.

(* a copy taken inside a transaction shows the same content but is NOT equal in
   behaviour, repaired code included: the journal is not copied, so the next
   flush keeps a touched empty account that the original deletes *)
Theorem C10_copy_inside_transaction_refuted :
  acc_view db_empty (s_acc (snd (copy repaired (run0 w3_ops)))) 1 = acc_view db_empty (s_acc (run0 w3_ops)) 1 /\
  roots (iroot db_empty true (snd (copy repaired (run0 w3_ops)))) <> roots (iroot db_empty true (run0 w3_ops)).
Proof. exact (conj w3_equal_at_copy w3_diverges). Qed.
Print Assumptions C10_copy_inside_transaction_refuted.

(* 3b. a copy is INDEPENDENT of the original.
   (i) In the value model the only thing two StateDBs share is the database.  Whatever
   history another StateDB over the same database goes through (the copy, the original
   of a copy, a reopened state - any calls and commits), this one keeps its invariant
   and shows the same content: the database only grows and reads do not depend on what
   others add. *)
Theorem C10_copy_independent_database :
  forall (W : World) (WOK : WorldOk W) d s t l, DbOk d -> Inv d s -> Inv d t ->
    let ds := crun (d, s) l in Inv (fst ds) t /\ state_eq (fst ds) t d t.
Proof. intros W WOK. exact (@other_side W WOK). Qed.
Print Assumptions C10_copy_independent_database.

(* (ii) Aliasing (Alias.v): objects in a heap, references, calls that write in place
   the mutable objects their StateDB reaches, a Copy that produces every field by the
   class its table gives.  If what the shared fields of the copied objects point to is
   frozen (never written in place: the table has no shared-MUTABLE entry), then the
   copy and the original are separated (whatever both reach is frozen), stay separated
   under ANY interleaving of calls on the two, and calls on one side alone leave every
   object the other side reaches, and the set it reaches, exactly as they were. *)
Theorem C10_copy_independent :
  forall tbl h r h' r' D rho,
    is_copy tbl h r h' r' D rho -> closed h -> frozen_closed h -> h r <> None -> shared_frozen tbl h D ->
    HeapOk h' r r' /\
    forall l h2, steps r r' h' l h2 ->
      HeapOk h2 r r' /\
      (Forall (fun s => s = SideB) l ->
         (forall x, reach h' r x -> h2 x = h' x) /\ (forall x, reach h2 r x <-> reach h' r x)) /\
      (Forall (fun s => s = SideA) l ->
         (forall x, reach h' r' x -> h2 x = h' x) /\ (forall x, reach h2 r' x <-> reach h' r' x)).
Proof. exact copy_independent. Qed.
Print Assumptions C10_copy_independent.

(* the hypothesis is needed: with a shared MUTABLE object a call on the copy changes
   what the original reaches *)
Theorem C10_copy_shared_mutable_refuted :
  exists h2, step w_heap 2 h2 /\ reach w_heap 0 1 /\ h2 1 <> w_heap 1.
Proof. exact shared_mutable_refuted. Qed.
Print Assumptions C10_copy_shared_mutable_refuted.

(* (iii) bridge: in the working tree no function of core/state or staking writes in
   place through a field the copy shares (append, element assignment, copy into, sort,
   big.Int update), nor into the elements of a rebuilt container - regenerated from
   the source on every run; a field that becomes shared-mutable breaks this lemma
   (tried: append(so.delegations, ..), so.data.Balance.Set(..)).
   _partial: that the Go heap is an instance of Alias.v (is_copy for the real Copy,
   frozen = "no in-place write site") is read off the regenerated tables, syntactically
   and by field name; there is no Go semantics behind it.  The trie copies
   (Database.CopyTrie) and types.Log copies are other packages' structures. *)
Theorem C10_copy_no_shared_mutable_partial : inplace_sites = [].
Proof. exact no_inplace_writes. Qed.
Print Assumptions C10_copy_no_shared_mutable_partial.

(* 4. bridge over the regenerated inventory (T5-ii): every field of every struct
   rebuilt by the copy functions is a plain value, rebuilt, or fresh; or it is
   shared and on the reviewed immutable list; or deliberately absent; or one of
   the two fields of finding D1 *)
Theorem C10_copy_table : forall r, In r copy_table -> row_ok r = true.
Proof. exact copy_table_classified. Qed.
Print Assumptions C10_copy_table.

Theorem C10_copy_flags_of_tree :
  deepcopy_keeps_delegations =
  negb (N.eqb (class_of "stateObject"%string "delegations"%string) 5)
  && negb (N.eqb (class_of "stateObject"%string "dirtyDlgs"%string) 5).
Proof. exact keep_flag_matches_table. Qed.
Print Assumptions C10_copy_flags_of_tree.

(* 5. the trie-root half of [WorldOk] discharged by instantiation with C13 (Instance.v).
   [root_of H K l] is the root hash (C13's [root_hash], node hash H) of the
   Merkle-Patricia trie that inserting the content l under the keys K builds.
   [CryptoOk H K KB]: H injective, 32 bytes long, only the RLP empty string hashes to
   the empty-trie constant; K injective on keys below KB into byte strings shorter
   than 2^30.  [vals_ok]: trie values non-empty and shorter than 2^32 bytes.

   (a) whatever history of updates and deletes built the real trie, if its reference
   map is the content, its root is [root_of] of the content (C13_history_independent) *)
Theorem C10_trie_root_of_any_history :
  forall H K KB, CryptoOk H K KB -> forall ops l, keys_ok KB l -> Forall VF.C13.Proofs.op_ok ops ->
    (forall key, VF.C13.Proofs.bytes_ok key ->
       VF.C13.Model.m_run ops key = VF.C13.Model.m_run (ops_of K l) key) ->
    VF.C13.Model.root_hash H (VF.C13.Model.run ops) = root_of H K l.
Proof. exact root_of_any_history. Qed.
Print Assumptions C10_trie_root_of_any_history.

(* (b) equal roots, equal contents; and only the empty content has the empty root
   (from C13's commit / re-open theorem and the injectivity of H) *)
Theorem C10_trie_root_injective :
  forall H K KB, CryptoOk H K KB -> forall l1 l2,
    keys_ok KB l1 -> sorted l1 -> vals_ok l1 -> keys_ok KB l2 -> sorted l2 -> vals_ok l2 ->
    root_of H K l1 = root_of H K l2 -> l1 = l2.
Proof. exact root_of_inj. Qed.
Print Assumptions C10_trie_root_injective.

(* (c) the world whose four roots are these Merkle-Patricia roots (account trie,
   storage tries, validator trie with its three special keys, staking trie), whose
   code / delegation hashes are H, over any record codecs C meeting [CodecOk]
   (round trip, encodings non-empty and shorter than 2^32 bytes), satisfies
   [WorldOk]: no hypothesis about roots is left.  Contents with a key outside the
   key universe (none in a real state) get an injective placeholder root. *)
Theorem C10_world_instantiated :
  forall H K KB C, CryptoOk H K KB -> CodecOk C -> WorldOk (MptWorld H K KB C).
Proof. exact mpt_world_ok. Qed.
Print Assumptions C10_world_instantiated.

Theorem C10_instantiated_root_is_mpt_root :
  forall H K KB C, CryptoOk H K KB -> forall ops l, keys_ok KB l -> Forall VF.C13.Proofs.op_ok ops ->
    (forall key, VF.C13.Proofs.bytes_ok key ->
       VF.C13.Model.m_run ops key = VF.C13.Model.m_run (ops_of K l) key) ->
    VF.C13.Model.root_hash H (VF.C13.Model.run ops) = @root_acct (MptWorld H K KB C) l.
Proof. intros H K KB C CO. exact (mroot_any_history H K KB CO). Qed.
Print Assumptions C10_instantiated_root_is_mpt_root.

(* (d) the two main theorems for the instantiated world: what remains assumed is
   [CryptoOk] (cryptography) and [CodecOk] (C14's round trip for the record types,
   which holds on representable values; see Instance.v) *)
Theorem C10_reopen_mpt :
  forall H K KB C, CryptoOk H K KB -> CodecOk C ->
  forall d s l de, @DbOk (MptWorld H K KB C) d -> @Inv (MptWorld H K KB C) d s ->
    let W := MptWorld H K KB C in
    let ds := @crun W (d, s) l in
    let d' := fst (@commit W (fst ds) de (snd ds)) in
    let s' := snd (@commit W (fst ds) de (snd ds)) in
    exists n r,
      @new_state W d' (fst (fst (@roots W s'))) (snd (fst (@roots W s'))) (snd (@roots W s')) = Some n /\
      @new_reader W d' (snd (fst (@roots W s'))) = Some r /\
      @state_eq W d' n d' s' /\ @val_eq W r (s_val s') /\ @Inv W d' n.
Proof. intros H K KB C CO CD. exact (reopen_mpt H K KB C CO CD). Qed.
Print Assumptions C10_reopen_mpt.

Theorem C10_content_only_mpt :
  forall H K KB C, CryptoOk H K KB -> CodecOk C ->
  forall d1 s1 l1 de1 d2 s2 l2 de2,
    let W := MptWorld H K KB C in
    @DbOk W d1 -> @Inv W d1 s1 -> @DbOk W d2 -> @Inv W d2 s2 ->
    let a := @crun W (d1, s1) l1 in let b := @crun W (d2, s2) l2 in
    let ta := @iroot W (fst a) de1 (snd a) in let tb := @iroot W (fst b) de2 (snd b) in
    @state_eq W (fst a) ta (fst b) tb -> @roots W ta = @roots W tb.
Proof. intros H K KB C CO CD. exact (content_mpt H K KB C CO CD). Qed.
Print Assumptions C10_content_only_mpt.

(* the cryptographic hypotheses are consistent (an injective numbering of byte
   strings as the node hash, one-byte keys) *)
Example C10_nonvacuous_crypto : CryptoOk H0 K0 256.
Proof. exact crypto_ok_consistent. Qed.
Print Assumptions C10_nonvacuous_crypto.

(* non-vacuity: the hypotheses on the external functions are satisfiable, and a
   concrete history (accounts with code, storage and a delegation list, a
   validator with a delegation, a withdraw record, staking records; a commit in
   the middle) reaches a non-trivial state to which the theorems apply *)
Example C10_nonvacuous_world : WorldOk IdWorld.
Proof. exact IdWorldOk. Qed.
Print Assumptions C10_nonvacuous_world.

Example C10_nonvacuous_history :
  let ds := reached ex_hist in
  acc_view (fst ds) (s_acc (snd ds)) 1 = Some (0, 100, [96; 0], 1000, Some [2]) /\
  stor_view (fst ds) (s_acc (snd ds)) 1 3 = 9 /\
  get_validator (s_val (snd ds)) 2 = Some ex_val /\
  get_srec (s_stk (snd ds)) (bi 0 2) = Some (5000, [5]).
Proof. exact ex_hist_content. Qed.
Print Assumptions C10_nonvacuous_history.
