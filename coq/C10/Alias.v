(* C10 - aliasing-aware layer: the reference structure a StateDB and its copy
   live in.  Model.v treats states as values; this file models what a value
   model cannot show: objects in a heap, references between them, a Copy that
   duplicates or shares each field according to a table (regenerated from the
   source: coq/gen/C10CopyTable.v), and calls that write objects in place.
   No proofs in this file.

   - an object has a struct type, fields holding numbers or references, and is
     either mutable or FROZEN (never written in place after construction: byte
     strings of code and keys, the big integers of an account record, a
     delegation list - all replaced, not updated);
   - a call on a StateDB (root r) writes, in place, a mutable object reachable
     from r; what it stores are numbers or references to objects reachable from
     r, or to objects it allocates;
   - Copy produces every field of every copied object as its class says. *)
From Coq Require Export List NArith Bool.
Export ListNotations.
Open Scope N_scope.

(* how Copy produces a field of the copy *)
Inductive cls :=
| CValue    (* plain value copied *)
| CDeep     (* referenced object copied (recursively, by its own table entries) *)
| CFresh    (* new empty object / nil (caches, journals) *)
| CShared   (* the same reference: copy and original point to one object *)
| CMissing. (* not carried: nil in the copy *)

Inductive fval := VNum (n : N) | VRef (l : N) | VNil.
Record obj := mkO { o_ty : N; o_frozen : bool; o_fld : N -> fval }.
Definition heap := N -> option obj.

Definition upd (h : heap) (l : N) (o : obj) : heap := fun x => if N.eqb x l then Some o else h x.
Definition set_fld (o : obj) (f : N) (v : fval) : obj :=
  mkO (o_ty o) (o_frozen o) (fun g => if N.eqb g f then v else o_fld o g).

(* l' is reachable from l through references *)
Inductive reach (h : heap) : N -> N -> Prop :=
| reach_refl l : reach h l l
| reach_step l o f t x : h l = Some o -> o_fld o f = VRef t -> reach h t x -> reach h l x.

(* what a call on the StateDB rooted at r may store *)
Definition storable (h : heap) (r : N) (v : fval) : Prop :=
  match v with VRef t => reach h r t | _ => True end.

(* one in-place effect of a call on the StateDB rooted at r *)
Inductive step (h : heap) (r : N) : heap -> Prop :=
| st_write l o f v : reach h r l -> h l = Some o -> o_frozen o = false -> storable h r v ->
    step h r (upd h l (set_fld o f v))
| st_new l o f n o' : reach h r l -> h l = Some o -> o_frozen o = false -> h n = None ->
    (forall g, storable h r (o_fld o' g)) ->
    (o_frozen o' = true -> forall g t, o_fld o' g = VRef t -> exists ot, h t = Some ot /\ o_frozen ot = true) ->
    step h r (upd (upd h n o') l (set_fld o f (VRef n))).

(* calls on two StateDBs, interleaved in any way *)
Inductive side := SideA | SideB.
Inductive steps (ra rb : N) : heap -> list side -> heap -> Prop :=
| steps_nil h : steps ra rb h [] h
| steps_a h h1 h2 l : step h ra h1 -> steps ra rb h1 l h2 -> steps ra rb h (SideA :: l) h2
| steps_b h h1 h2 l : step h rb h1 -> steps ra rb h1 l h2 -> steps ra rb h (SideB :: l) h2.

(* frozen objects reference frozen objects only *)
Definition frozen_closed (h : heap) : Prop :=
  forall l o f t, h l = Some o -> o_frozen o = true -> o_fld o f = VRef t ->
                  exists ot, h t = Some ot /\ o_frozen ot = true.

(* two StateDBs are separated: whatever both can reach is frozen *)
Definition separated (h : heap) (ra rb : N) : Prop :=
  forall l o, reach h ra l -> reach h rb l -> h l = Some o -> o_frozen o = true.

(* how a field of the copy relates to the field of the original.  [rho] maps a
   copied object to its copy, [D] is the set of copied objects. *)
Definition field_rel (D : N -> Prop) (rho : N -> N) (c : cls) (v v' : fval) : Prop :=
  match c with
  | CValue => v' = v /\ (forall t, v <> VRef t)
  | CDeep => match v with VRef t => D t /\ v' = VRef (rho t) | _ => v' = v end
  | CFresh | CMissing => v' = VNil
  | CShared => v' = v
  end.

(* [h'] with root [r'] is a copy, by the table [tbl], of the StateDB rooted at [r] in [h] *)
Record is_copy (tbl : N -> N -> cls) (h : heap) (r : N) (h' : heap) (r' : N) (D : N -> Prop) (rho : N -> N) : Prop := {
  cp_old : forall l, h l <> None -> h' l = h l;
  cp_root : D r /\ r' = rho r;
  cp_fresh : forall l, D l -> h (rho l) = None;
  cp_dom : forall x, h x = None -> h' x <> None -> exists l, D l /\ x = rho l;
  cp_obj : forall l, D l -> exists o o', h l = Some o /\ h' (rho l) = Some o' /\ o_ty o' = o_ty o /\
                                        forall f, field_rel D rho (tbl (o_ty o) f) (o_fld o f) (o_fld o' f);
  cp_frozen : forall l o o', D l -> h l = Some o -> h' (rho l) = Some o' -> o_frozen o' = o_frozen o }.

(* the table has no shared-mutable entry at the copied objects: what a shared
   field of a copied object points to is frozen *)
Definition shared_frozen (tbl : N -> N -> cls) (h : heap) (D : N -> Prop) : Prop :=
  forall l o f t, D l -> h l = Some o -> tbl (o_ty o) f = CShared -> o_fld o f = VRef t ->
                  exists ot, h t = Some ot /\ o_frozen ot = true.
